// Semantic shape recognition for the ipam translator (see /verif/harmless/NORMALISE.md).
//
// Function bodies are NORMALISED before a fact is decided:
//   - log statements (glog / klog / log / fmt.Print*) and comments are dropped (item 6);
//   - `if init; cond { … }` is split into `init` + `if cond { … }`, so that the one-statement and the two-statement form of
//     "call, then check the error" are the same list (items 3, 9);
//   - nothing is matched by NAME of a local: receiver, error variables, loop indices, slices are taken from the code
//     (alpha-renaming, item 1); error checks are recognised in both polarities and both operand orders (item 3);
//   - single-assignment aliases `x := recv.cacheLock` are followed (item 2);
//   - calls to methods of crdIpam are followed through per-method SUMMARIES (which store verbs a method reaches, whether
//     it writes / reads the caches), computed transitively over the two source files (item 8).
//
// What still flips a fact: a cache write which is not dominated by a checked store call, a store call / cache access in
// front of the lock or a second unlock, a rollback loop which does not visit every created object, a dropped guard, a
// create error which is not returned as it is.
package main

import (
	"go/ast"
	"go/token"
	"strings"

	"factgen/fg"
)

// ---- summaries ---------------------------------------------------------------------------------------------------------

type summary struct {
	verbs    map[string]bool // store verbs reached: create update delete get list
	memWrite bool            // writes the caches (allocatedFIPs / unallocatedFIPs / FloatingIPs / a cached record)
	shared   bool            // reads or writes the caches
	calls    []string        // crdIpam methods called
}

type world struct {
	files []*fg.Parsed
	decl  map[string]*ast.FuncDecl
	file  map[string]*fg.Parsed
	sum   map[string]*summary
}

func recvName(fd *ast.FuncDecl) string {
	if fd.Recv == nil || len(fd.Recv.List) != 1 || len(fd.Recv.List[0].Names) != 1 {
		return ""
	}
	return fd.Recv.List[0].Names[0].Name
}

func recvType(fd *ast.FuncDecl) string {
	if fd.Recv == nil || len(fd.Recv.List) != 1 {
		return ""
	}
	t := fd.Recv.List[0].Type
	if s, ok := t.(*ast.StarExpr); ok {
		t = s.X
	}
	if id, ok := t.(*ast.Ident); ok {
		return id.Name
	}
	return ""
}

var cacheFields = []string{"allocatedFIPs", "unallocatedFIPs", "FloatingIPs"}

// isCacheField: expression `recv.<cache field>` (possibly indexed).
func isCacheField(p *fg.Parsed, e ast.Expr, recv string) bool {
	for {
		switch x := e.(type) {
		case *ast.IndexExpr:
			e = x.X
			continue
		case *ast.ParenExpr:
			e = x.X
			continue
		}
		break
	}
	sel, ok := e.(*ast.SelectorExpr)
	if !ok {
		return false
	}
	id, ok := sel.X.(*ast.Ident)
	if !ok || id.Name != recv {
		return false
	}
	for _, f := range cacheFields {
		if sel.Sel.Name == f {
			return true
		}
	}
	return false
}

// storeVerb: a call `….client.….FloatingIPs().<Verb>(…)`.
func storeVerb(p *fg.Parsed, c *ast.CallExpr) string {
	sel, ok := c.Fun.(*ast.SelectorExpr)
	if !ok {
		return ""
	}
	switch sel.Sel.Name {
	case "Create", "Update", "Delete", "Get", "List", "Patch", "DeleteCollection":
	default:
		return ""
	}
	if !strings.Contains(p.Src(sel.X), ".client.") {
		return ""
	}
	return strings.ToLower(sel.Sel.Name)
}

// freshVars: locals bound to a NEW record (New(…), x.CloneWith(…), composite literal): writing them is not a cache write.
func freshVars(p *fg.Parsed, body *ast.BlockStmt) map[string]bool {
	fresh := map[string]bool{}
	ast.Inspect(body, func(n ast.Node) bool {
		a, ok := n.(*ast.AssignStmt)
		if !ok || len(a.Lhs) != len(a.Rhs) {
			return true
		}
		for i, r := range a.Rhs {
			id, ok := a.Lhs[i].(*ast.Ident)
			if !ok {
				continue
			}
			isFresh := false
			switch x := r.(type) {
			case *ast.CallExpr:
				f := p.Src(x.Fun)
				isFresh = f == "New" || strings.HasSuffix(f, ".CloneWith") || strings.HasSuffix(f, ".newFIPCrd") || f == "newFIPCrd"
			case *ast.UnaryExpr:
				_, isFresh = x.X.(*ast.CompositeLit)
			case *ast.CompositeLit:
				isFresh = true
			}
			if isFresh {
				fresh[id.Name] = true
			}
		}
		return true
	})
	return fresh
}

// directMemWrite: the statement itself (not nested statements) writes a cache table or a cached record.
func directMemWrite(p *fg.Parsed, s ast.Stmt, recv string, fresh map[string]bool) bool {
	onCached := func(x ast.Expr) bool {
		id, ok := x.(*ast.Ident)
		return ok && !fresh[id.Name] && id.Name != recv
	}
	switch x := s.(type) {
	case *ast.ExprStmt:
		c, ok := x.X.(*ast.CallExpr)
		if !ok {
			return false
		}
		if id, ok := c.Fun.(*ast.Ident); ok && id.Name == "delete" && len(c.Args) > 0 {
			return isCacheField(p, c.Args[0], recv)
		}
		if sel, ok := c.Fun.(*ast.SelectorExpr); ok && sel.Sel.Name == "Assign" {
			return onCached(sel.X)
		}
	case *ast.AssignStmt:
		for _, l := range x.Lhs {
			if isCacheField(p, l, recv) {
				return true
			}
			if sel, ok := l.(*ast.SelectorExpr); ok && sel.Sel.Name == "Labels" && onCached(sel.X) {
				return true
			}
		}
		for _, r := range x.Rhs {
			if c, ok := r.(*ast.CallExpr); ok {
				if sel, ok := c.Fun.(*ast.SelectorExpr); ok && sel.Sel.Name == "Assign" && onCached(sel.X) {
					return true
				}
			}
		}
	}
	return false
}

func newWorld(files ...*fg.Parsed) *world {
	w := &world{files: files, decl: map[string]*ast.FuncDecl{}, file: map[string]*fg.Parsed{}, sum: map[string]*summary{}}
	for _, p := range files {
		for _, d := range p.File.Decls {
			fd, ok := d.(*ast.FuncDecl)
			if !ok || fd.Body == nil || recvType(fd) != "crdIpam" {
				continue
			}
			w.decl[fd.Name.Name] = fd
			w.file[fd.Name.Name] = p
		}
	}
	for name, fd := range w.decl {
		p := w.file[name]
		recv := recvName(fd)
		s := &summary{verbs: map[string]bool{}}
		fresh := freshVars(p, fd.Body)
		ast.Inspect(fd.Body, func(n ast.Node) bool {
			switch x := n.(type) {
			case *ast.CallExpr:
				if v := storeVerb(p, x); v != "" {
					s.verbs[v] = true
				}
				if sel, ok := x.Fun.(*ast.SelectorExpr); ok {
					if id, ok := sel.X.(*ast.Ident); ok && id.Name == recv {
						s.calls = append(s.calls, sel.Sel.Name)
					}
				}
			case *ast.SelectorExpr:
				if isCacheField(p, x, recv) {
					s.shared = true
				}
			case ast.Stmt:
				if directMemWrite(p, x, recv, fresh) {
					s.memWrite, s.shared = true, true
				}
			}
			return true
		})
		w.sum[name] = s
	}
	// transitive closure over calls between crdIpam methods
	for changed := true; changed; {
		changed = false
		for _, s := range w.sum {
			for _, c := range s.calls {
				t, ok := w.sum[c]
				if !ok {
					continue
				}
				for v := range t.verbs {
					if !s.verbs[v] {
						s.verbs[v], changed = true, true
					}
				}
				if t.memWrite && !s.memWrite {
					s.memWrite, changed = true, true
				}
				if t.shared && !s.shared {
					s.shared, changed = true, true
				}
			}
		}
	}
	return w
}

// ---- one function under analysis ---------------------------------------------------------------------------------------

type fn struct {
	w     *world
	p     *fg.Parsed
	fd    *ast.FuncDecl
	recv  string
	fresh map[string]bool
}

func (w *world) fn(name string) *fn {
	fd, ok := w.decl[name]
	if !ok {
		return nil
	}
	p := w.file[name]
	return &fn{w: w, p: p, fd: fd, recv: recvName(fd), fresh: freshVars(p, fd.Body)}
}

func isLog(p *fg.Parsed, s ast.Stmt) bool {
	e, ok := s.(*ast.ExprStmt)
	if !ok {
		return false
	}
	c, ok := e.X.(*ast.CallExpr)
	if !ok {
		return false
	}
	f := p.Src(c.Fun)
	for _, pre := range []string{"glog.", "klog.", "log.", "fmt.Print", "fmt.Fprint"} {
		if strings.HasPrefix(f, pre) {
			return true
		}
	}
	return false
}

// stmts: the normalised statement list of a block: no logs, no empty statements, `if init; c {}` split.
func (f *fn) stmts(b *ast.BlockStmt) []ast.Stmt {
	if b == nil {
		return nil
	}
	var out []ast.Stmt
	for _, s := range b.List {
		if isLog(f.p, s) {
			continue
		}
		switch x := s.(type) {
		case *ast.EmptyStmt:
			continue
		case *ast.IfStmt:
			if x.Init != nil {
				cp := *x
				cp.Init = nil
				out = append(out, x.Init, &cp)
				continue
			}
		}
		out = append(out, s)
	}
	return out
}

// callsIn: the store verbs and cache effects of the calls directly inside a node (helpers followed via summaries).
func (f *fn) effects(n ast.Node) (verbs map[string]bool, memWrite, shared bool) {
	verbs = map[string]bool{}
	ast.Inspect(n, func(x ast.Node) bool {
		switch y := x.(type) {
		case *ast.FuncLit:
			return false
		case *ast.CallExpr:
			if v := storeVerb(f.p, y); v != "" {
				verbs[v] = true
			}
			if sel, ok := y.Fun.(*ast.SelectorExpr); ok {
				if id, ok := sel.X.(*ast.Ident); ok && id.Name == f.recv {
					if s, ok := f.w.sum[sel.Sel.Name]; ok {
						for v := range s.verbs {
							verbs[v] = true
						}
						memWrite = memWrite || s.memWrite
						shared = shared || s.shared
					}
				}
			}
		case *ast.SelectorExpr:
			if isCacheField(f.p, y, f.recv) {
				shared = true
			}
		}
		return true
	})
	return
}

// storeCallOf: the statement (an assignment, definition or expression statement, NOT a compound statement) performs a
// store call; returns the verbs and the name of the variable its error is bound to ("" = result ignored).
func (f *fn) storeCallOf(s ast.Stmt) (verbs map[string]bool, errVar string, ok bool) {
	switch x := s.(type) {
	case *ast.AssignStmt:
		v, _, _ := f.effects(x)
		if len(v) == 0 {
			return nil, "", false
		}
		if id, isId := x.Lhs[len(x.Lhs)-1].(*ast.Ident); isId && id.Name != "_" {
			errVar = id.Name
		}
		return v, errVar, true
	case *ast.ExprStmt:
		v, _, _ := f.effects(x)
		if len(v) == 0 {
			return nil, "", false
		}
		return v, "", true
	case *ast.ReturnStmt:
		v, _, _ := f.effects(x)
		if len(v) == 0 {
			return nil, "", false
		}
		return v, "<returned>", true
	}
	return nil, "", false
}

// memWriteStmt: a simple statement which writes the caches, directly or through a crdIpam method.
func (f *fn) memWriteStmt(s ast.Stmt) bool {
	switch s.(type) {
	case *ast.ExprStmt, *ast.AssignStmt:
	default:
		return false
	}
	if directMemWrite(f.p, s, f.recv, f.fresh) {
		return true
	}
	v, mw, _ := f.effects(s)
	return mw && len(v) == 0
}

func unparen(e ast.Expr) ast.Expr {
	for {
		p, ok := e.(*ast.ParenExpr)
		if !ok {
			return e
		}
		e = p.X
	}
}

func isNil(e ast.Expr) bool {
	id, ok := unparen(e).(*ast.Ident)
	return ok && id.Name == "nil"
}

// errCond: `x != nil`, `nil != x`, `!(x == nil)` → (x, true); `x == nil`, `!(x != nil)` → (x, false).
func errCond(e ast.Expr) (name string, failed bool, ok bool) {
	e = unparen(e)
	if u, isU := e.(*ast.UnaryExpr); isU && u.Op == token.NOT {
		n, f, k := errCond(u.X)
		return n, !f, k
	}
	b, isB := e.(*ast.BinaryExpr)
	if !isB || (b.Op != token.NEQ && b.Op != token.EQL) {
		return "", false, false
	}
	var v ast.Expr
	switch {
	case isNil(b.Y):
		v = b.X
	case isNil(b.X):
		v = b.Y
	default:
		return "", false, false
	}
	id, isId := unparen(v).(*ast.Ident)
	if !isId {
		return "", false, false
	}
	return id.Name, b.Op == token.NEQ, true
}

// leaves: the block always leaves the function (its normalised last statement is a return or a panic).
func (f *fn) leaves(b *ast.BlockStmt) bool {
	l := f.stmts(b)
	if len(l) == 0 {
		return false
	}
	switch x := l[len(l)-1].(type) {
	case *ast.ReturnStmt:
		return true
	case *ast.ExprStmt:
		if c, ok := x.X.(*ast.CallExpr); ok {
			if id, ok := c.Fun.(*ast.Ident); ok && id.Name == "panic" {
				return true
			}
		}
	}
	return false
}

// ---- store before memory -------------------------------------------------------------------------------------------------

type sbm struct {
	f      *fn
	bad    bool
	writes int
	stores int
}

func onlyDelete(v map[string]bool) bool { return len(v) == 1 && v["delete"] }

// walk analyses a normalised list.  ok = a store call has succeeded on every path reaching this point.
// pending maps an error variable to the verbs of the store call whose outcome it holds.
// failedDelete = we are inside the failure branch of a delete (the object is still stored: keeping it in memory is fine).
func (a *sbm) walk(list []ast.Stmt, ok bool, pending map[string]map[string]bool, failedDelete bool) bool {
	f := a.f
	for _, s := range list {
		if v, errVar, is := f.storeCallOf(s); is {
			a.stores++
			if errVar != "" {
				pending[errVar] = v
			}
			continue
		}
		if f.memWriteStmt(s) {
			a.writes++
			if !ok && !failedDelete {
				a.bad = true
			}
			continue
		}
		switch x := s.(type) {
		case *ast.IfStmt:
			name, failed, isErr := errCond(x.Cond)
			verbs, tracked := pending[name]
			var elseBlock *ast.BlockStmt
			switch e := x.Else.(type) {
			case *ast.BlockStmt:
				elseBlock = e
			case *ast.IfStmt:
				elseBlock = &ast.BlockStmt{List: []ast.Stmt{e}}
			}
			if isErr && tracked {
				failBlock, okBlock := x.Body, elseBlock
				if !failed {
					failBlock, okBlock = elseBlock, x.Body
				}
				if failBlock != nil {
					a.walk(f.stmts(failBlock), false, copyPending(pending), onlyDelete(verbs))
				}
				if okBlock != nil {
					a.walk(f.stmts(okBlock), true, copyPending(pending), false)
				}
				if failBlock != nil && f.leaves(failBlock) {
					ok = true // whoever gets past this statement has seen the store call succeed
				}
				continue
			}
			a.walk(f.stmts(x.Body), ok, copyPending(pending), failedDelete)
			if elseBlock != nil {
				a.walk(f.stmts(elseBlock), ok, copyPending(pending), failedDelete)
			}
		case *ast.ForStmt:
			a.walk(f.stmts(x.Body), ok, copyPending(pending), failedDelete)
			if a.loopGuards(x.Body) {
				ok = true
			}
		case *ast.RangeStmt:
			a.walk(f.stmts(x.Body), ok, copyPending(pending), failedDelete)
			if a.loopGuards(x.Body) {
				ok = true
			}
		case *ast.BlockStmt:
			ok = a.walk(f.stmts(x), ok, pending, failedDelete)
		case *ast.SwitchStmt:
			for _, c := range x.Body.List {
				if cc, isC := c.(*ast.CaseClause); isC {
					a.walk(f.stmts(&ast.BlockStmt{List: cc.Body}), ok, copyPending(pending), failedDelete)
				}
			}
		}
	}
	return ok
}

func copyPending(m map[string]map[string]bool) map[string]map[string]bool {
	c := map[string]map[string]bool{}
	for k, v := range m {
		c[k] = v
	}
	return c
}

// loopGuards: every iteration of the loop performs a store call whose failure leaves the function (all creates precede
// the cache update loop of AllocateInSubnetsAndIPRange).
func (a *sbm) loopGuards(body *ast.BlockStmt) bool {
	f := a.f
	list := f.stmts(body)
	pending := map[string]bool{}
	for _, s := range list {
		if _, errVar, is := f.storeCallOf(s); is && errVar != "" {
			pending[errVar] = true
			continue
		}
		if x, isIf := s.(*ast.IfStmt); isIf {
			if name, failed, isErr := errCond(x.Cond); isErr && pending[name] && failed && f.leaves(x.Body) {
				return true
			}
		}
	}
	return false
}

// storeBeforeMemory: every cache write of the function happens after a store call whose failure leaves the function
// (or inside the failure branch of a delete), and the function has cache writes and store calls at all.
func (f *fn) storeBeforeMemory() bool {
	a := &sbm{f: f}
	a.walk(f.stmts(f.fd.Body), false, map[string]map[string]bool{}, false)
	return !a.bad && a.writes > 0 && a.stores > 0
}

// ---- locks -----------------------------------------------------------------------------------------------------------------

type lockFact struct {
	mode    string // Lock | RLock | none
	lockIdx int    // index in the normalised top-level list
	list    []ast.Stmt
}

// lockAliases: locals which are the receiver's cacheLock (`mu := ci.cacheLock`).
func (f *fn) lockAliases() map[string]bool {
	al := map[string]bool{}
	for _, s := range f.stmts(f.fd.Body) {
		a, ok := s.(*ast.AssignStmt)
		if !ok || a.Tok != token.DEFINE || len(a.Lhs) != 1 || len(a.Rhs) != 1 {
			continue
		}
		if f.p.Src(a.Rhs[0]) == f.recv+".cacheLock" {
			if id, ok := a.Lhs[0].(*ast.Ident); ok {
				al[id.Name] = true
			}
		}
	}
	return al
}

func (f *fn) lockCall(c *ast.CallExpr, al map[string]bool) string {
	sel, ok := c.Fun.(*ast.SelectorExpr)
	if !ok {
		return ""
	}
	x := f.p.Src(sel.X)
	if x != f.recv+".cacheLock" && !al[x] {
		return ""
	}
	switch sel.Sel.Name {
	case "Lock", "RLock", "Unlock", "RUnlock":
		return sel.Sel.Name
	}
	return ""
}

func (f *fn) lockFacts() lockFact {
	al := f.lockAliases()
	list := f.stmts(f.fd.Body)
	lf := lockFact{mode: "none", lockIdx: -1, list: list}
	unlocks, deferred := 0, ""
	ast.Inspect(f.fd.Body, func(n ast.Node) bool {
		if c, ok := n.(*ast.CallExpr); ok {
			if k := f.lockCall(c, al); k == "Unlock" || k == "RUnlock" {
				unlocks++
			}
		}
		return true
	})
	deferIdx := -1
	firstUse := -1
	for i, s := range list {
		switch x := s.(type) {
		case *ast.ExprStmt:
			if c, ok := x.X.(*ast.CallExpr); ok {
				if k := f.lockCall(c, al); (k == "Lock" || k == "RLock") && lf.lockIdx < 0 {
					lf.mode, lf.lockIdx = k, i
					continue
				}
			}
		case *ast.DeferStmt:
			found := ""
			ast.Inspect(x, func(n ast.Node) bool {
				if c, ok := n.(*ast.CallExpr); ok {
					if k := f.lockCall(c, al); k == "Unlock" || k == "RUnlock" {
						found = k
					}
				}
				return true
			})
			if found != "" && deferIdx < 0 {
				deferIdx, deferred = i, found
			}
			continue // deferred code runs at return, i.e. under the lock
		case *ast.AssignStmt:
			if len(x.Rhs) == 1 {
				if _, isFn := x.Rhs[0].(*ast.FuncLit); isFn {
					continue // a closure defined here is only dangerous where it is called
				}
				if f.p.Src(x.Rhs[0]) == f.recv+".cacheLock" {
					continue
				}
			}
		}
		if firstUse < 0 && f.touchesUnlocked(s) {
			firstUse = i
		}
	}
	want := map[string]string{"Lock": "Unlock", "RLock": "RUnlock"}
	if lf.lockIdx < 0 || deferIdx < lf.lockIdx || deferred != want[lf.mode] || unlocks != 1 ||
		(firstUse >= 0 && (firstUse < lf.lockIdx || firstUse < deferIdx)) {
		lf.mode = "none"
	}
	return lf
}

// touchesUnlocked: the statement reaches shared state or the store other than through a crdIpam method which takes the
// lock itself (AllocateInSubnetsAndIPRange delegates to AllocateInSubnet before it locks).
func (f *fn) touchesUnlocked(s ast.Stmt) bool {
	touched := false
	ast.Inspect(s, func(x ast.Node) bool {
		switch y := x.(type) {
		case *ast.FuncLit:
			return false
		case *ast.CallExpr:
			if storeVerb(f.p, y) != "" {
				touched = true
			}
			if sel, ok := y.Fun.(*ast.SelectorExpr); ok {
				if id, ok := sel.X.(*ast.Ident); ok && id.Name == f.recv {
					if sm, ok := f.w.sum[sel.Sel.Name]; ok && (len(sm.verbs) > 0 || sm.shared) && sel.Sel.Name != f.fd.Name.Name {
						if g := f.w.fn(sel.Sel.Name); g == nil || g.lockFacts().mode == "none" {
							touched = true
						}
					}
				}
			}
		case *ast.SelectorExpr:
			if isCacheField(f.p, y, f.recv) {
				touched = true
			}
		}
		return true
	})
	return touched
}

// firstIndex: first normalised top-level statement whose effects satisfy pred.
func (f *fn) firstIndex(list []ast.Stmt, pred func(verbs map[string]bool, memWrite, shared bool) bool) int {
	for i, s := range list {
		if _, ok := s.(*ast.DeferStmt); ok {
			continue
		}
		if a, ok := s.(*ast.AssignStmt); ok && len(a.Rhs) == 1 {
			if _, isFn := a.Rhs[0].(*ast.FuncLit); isFn {
				continue
			}
		}
		v, mw, sh := f.effects(s)
		if pred(v, mw, sh) {
			return i
		}
	}
	return -1
}

// ---- createFloatingIP: the Create error is returned as it is (NORMALISE item 9) ---------------------------------------------

func (f *fn) createReturnsCreateError() bool {
	list := f.stmts(f.fd.Body)
	verbs, _, _ := f.effects(f.fd.Body)
	if len(verbs) != 1 || !verbs["create"] {
		return false
	}
	if strings.Contains(f.p.Src(f.fd.Body), "IsAlreadyExists") {
		return false
	}
	for i, s := range list {
		v, errVar, is := f.storeCallOf(s)
		if !is || !v["create"] {
			continue
		}
		rest := list[i+1:]
		if errVar == "<returned>" {
			return len(rest) == 0 // `return create(…)`-like: only if the call yields just the error (not the case here)
		}
		if errVar == "" {
			return false
		}
		retIs := func(s ast.Stmt, want string) bool {
			r, ok := s.(*ast.ReturnStmt)
			if !ok || len(r.Results) != 1 {
				return false
			}
			id, ok := unparen(r.Results[0]).(*ast.Ident)
			return ok && id.Name == want
		}
		switch len(rest) {
		case 1: // _, err := Create(…); return err
			return retIs(rest[0], errVar)
		case 2: // …; if err != nil { return err }; return nil
			x, ok := rest[0].(*ast.IfStmt)
			if !ok || x.Else != nil {
				return false
			}
			name, failed, isErr := errCond(x.Cond)
			body := f.stmts(x.Body)
			return isErr && name == errVar && failed && len(body) == 1 && retIs(body[0], errVar) && retIs(rest[1], "nil")
		}
		return false
	}
	return false
}

// ---- updateFloatingIP = Get, assign, Update ---------------------------------------------------------------------------------

func (f *fn) getAssignUpdate() bool {
	var seq []string
	ast.Inspect(f.fd.Body, func(n ast.Node) bool {
		c, ok := n.(*ast.CallExpr)
		if !ok {
			return true
		}
		if v := storeVerb(f.p, c); v != "" {
			seq = append(seq, v)
		} else if id, ok := c.Fun.(*ast.Ident); ok && id.Name == "assign" {
			seq = append(seq, "assign")
		}
		return true
	})
	return strings.Join(seq, ",") == "get,assign,update"
}

// ---- handleFIPUnassign: only a cached record carrying the reserved label is released ----------------------------------------

func (f *fn) unassignChecksReserved() bool {
	// the cached record: bound from a lookup in a cache table
	cached := map[string]bool{}
	labelVar := map[string]bool{}
	checked, sawWrite, bad := false, false, false
	var walk func(list []ast.Stmt, checked bool)
	walk = func(list []ast.Stmt, checked bool) {
		for _, s := range list {
			if a, ok := s.(*ast.AssignStmt); ok && len(a.Rhs) == 1 {
				if ix, ok := unparen(a.Rhs[0]).(*ast.IndexExpr); ok {
					if isCacheField(f.p, ix.X, f.recv) {
						if id, ok := a.Lhs[0].(*ast.Ident); ok {
							cached[id.Name] = true
						}
					}
					if sel, ok := ix.X.(*ast.SelectorExpr); ok && sel.Sel.Name == "Labels" && strings.Contains(f.p.Src(ix.Index), "ReserveFIPLabel") {
						if id, ok := sel.X.(*ast.Ident); ok && cached[id.Name] && len(a.Lhs) == 2 {
							if v, ok := a.Lhs[1].(*ast.Ident); ok {
								labelVar[v.Name] = true
							}
						}
					}
				}
			}
			if f.memWriteStmt(s) {
				sawWrite = true
				if !checked {
					bad = true
				}
				continue
			}
			if x, ok := s.(*ast.IfStmt); ok {
				c := unparen(x.Cond)
				neg := false
				if u, ok := c.(*ast.UnaryExpr); ok && u.Op == token.NOT {
					neg, c = true, unparen(u.X)
				}
				if id, ok := c.(*ast.Ident); ok && labelVar[id.Name] {
					if neg { // if !reserved { return … }
						walk(f.stmts(x.Body), checked)
						if f.leaves(x.Body) {
							checked = true
						}
						if e, ok := x.Else.(*ast.BlockStmt); ok {
							walk(f.stmts(e), true)
						}
					} else { // if reserved { release }
						walk(f.stmts(x.Body), true)
						if e, ok := x.Else.(*ast.BlockStmt); ok {
							walk(f.stmts(e), checked)
						}
					}
					continue
				}
				walk(f.stmts(x.Body), checked)
				if e, ok := x.Else.(*ast.BlockStmt); ok {
					walk(f.stmts(e), checked)
				}
			}
		}
	}
	walk(f.stmts(f.fd.Body), checked)
	return sawWrite && !bad
}

// ---- the rollback of AllocateInSubnetsAndIPRange ------------------------------------------------------------------------------

type rollbackFact struct{ present, covers, keeps bool }

func identName(e ast.Expr) string {
	if id, ok := unparen(e).(*ast.Ident); ok {
		return id.Name
	}
	return ""
}

func intLit(e ast.Expr, v string) bool {
	b, ok := unparen(e).(*ast.BasicLit)
	return ok && b.Kind == token.INT && b.Value == v
}

func (f *fn) rollbackFacts() rollbackFact {
	var rf rollbackFact
	// the create loop: innermost loop whose body performs a create store call
	var loop ast.Stmt
	var loopBody *ast.BlockStmt
	ast.Inspect(f.fd.Body, func(n ast.Node) bool {
		var body *ast.BlockStmt
		switch x := n.(type) {
		case *ast.RangeStmt:
			body = x.Body
		case *ast.ForStmt:
			body = x.Body
		default:
			return true
		}
		for _, s := range f.stmts(body) {
			if v, _, is := f.storeCallOf(s); is && v["create"] {
				loop, loopBody = n.(ast.Stmt), body
			}
		}
		return true
	})
	if loop == nil {
		return rf
	}
	idx, slice := "", ""
	switch x := loop.(type) {
	case *ast.RangeStmt:
		idx, slice = identName(x.Key), f.p.Src(x.X)
	case *ast.ForStmt:
		if a, ok := x.Init.(*ast.AssignStmt); ok && len(a.Lhs) == 1 {
			idx = identName(a.Lhs[0])
		}
		if b, ok := x.Cond.(*ast.BinaryExpr); ok {
			if c, ok := unparen(b.Y).(*ast.CallExpr); ok && identName(c.Fun) == "len" && len(c.Args) == 1 {
				slice = f.p.Src(c.Args[0])
			}
		}
	}
	if idx == "" || idx == "_" || slice == "" {
		return rf
	}
	// the failure branch of the create
	list := f.stmts(loopBody)
	var fail *ast.BlockStmt
	errVar := ""
	for _, s := range list {
		if v, e, is := f.storeCallOf(s); is && v["create"] {
			errVar = e
			continue
		}
		if x, ok := s.(*ast.IfStmt); ok && errVar != "" {
			if name, failed, isErr := errCond(x.Cond); isErr && name == errVar && failed {
				fail = x.Body
				break
			}
		}
	}
	if fail == nil {
		return rf
	}
	// the rollback loop inside it
	for _, s := range f.stmts(fail) {
		var body *ast.BlockStmt
		j, covers := "", false
		elem := "" // value variable when ranging over slice[:idx]
		switch x := s.(type) {
		case *ast.RangeStmt:
			body, j = x.Body, identName(x.Key)
			src := f.p.Src(x.X)
			switch {
			case src == slice: // for j := range S { if j == i { break } … }
				l := f.stmts(x.Body)
				if len(l) > 0 {
					if g, ok := l[0].(*ast.IfStmt); ok && g.Else == nil && g.Init == nil {
						if b, ok := unparen(g.Cond).(*ast.BinaryExpr); ok {
							a, c := identName(b.X), identName(b.Y)
							eq := b.Op == token.EQL && ((a == j && c == idx) || (a == idx && c == j))
							ge := (b.Op == token.GEQ && a == j && c == idx) || (b.Op == token.LEQ && a == idx && c == j)
							gb := f.stmts(g.Body)
							if (eq || ge) && len(gb) == 1 {
								if br, ok := gb[0].(*ast.BranchStmt); ok && br.Tok == token.BREAK {
									covers = true
								}
							}
						}
					}
				}
			case src == slice+"[:"+idx+"]" || src == slice+"[0:"+idx+"]": // for j, n := range S[:i]
				covers = true
				elem = identName(x.Value)
			}
		case *ast.ForStmt: // for j := 0; j < i; j++
			body = x.Body
			if a, ok := x.Init.(*ast.AssignStmt); ok && len(a.Lhs) == 1 && len(a.Rhs) == 1 && intLit(a.Rhs[0], "0") {
				j = identName(a.Lhs[0])
			}
			if b, ok := x.Cond.(*ast.BinaryExpr); ok && j != "" {
				lt := (b.Op == token.LSS && identName(b.X) == j && identName(b.Y) == idx) ||
					(b.Op == token.GTR && identName(b.X) == idx && identName(b.Y) == j) ||
					(b.Op == token.NEQ && identName(b.X) == j && identName(b.Y) == idx)
				if inc, ok := x.Post.(*ast.IncDecStmt); ok && inc.Tok == token.INC && identName(inc.X) == j && lt {
					covers = true
				}
			}
		default:
			continue
		}
		if body == nil {
			continue
		}
		// does this loop delete?
		var delErr string
		var delFail *ast.BlockStmt
		deletes, argOK := false, false
		bl := f.stmts(body)
		for _, t := range bl {
			if v, e, is := f.storeCallOf(t); is && v["delete"] {
				deletes, delErr = true, e
				ast.Inspect(t, func(n ast.Node) bool {
					if c, ok := n.(*ast.CallExpr); ok && len(c.Args) == 1 {
						a := f.p.Src(c.Args[0])
						if a == slice+"["+j+"]" || (elem != "" && a == elem) {
							argOK = true
						}
					}
					return true
				})
				continue
			}
			if x, ok := t.(*ast.IfStmt); ok && delErr != "" && delFail == nil {
				if name, failed, isErr := errCond(x.Cond); isErr && name == delErr && failed {
					delFail = x.Body
				}
			}
		}
		if !deletes {
			continue
		}
		rf.present = true
		// nothing may skip an object: no continue at the level of the rollback loop body, at most the one break
		skips, breaks := false, 0
		for _, t := range bl {
			ast.Inspect(t, func(n ast.Node) bool {
				switch y := n.(type) {
				case *ast.BranchStmt:
					if y.Tok == token.CONTINUE && !insideDelFail(delFail, y) {
						skips = true
					}
					if y.Tok == token.BREAK {
						breaks++
					}
				}
				return true
			})
		}
		rf.covers = covers && argOK && !skips && breaks <= 1 && f.leaves(fail)
		// keeps: in the failure branch of the delete, unless NotFound, the record enters the allocated table
		if delFail != nil && j != "" && j != "_" {
			dl := f.stmts(delFail)
			allocWrite := func(s ast.Stmt) bool {
				if !f.memWriteStmt(s) {
					return false
				}
				ok := false
				ast.Inspect(s, func(n ast.Node) bool {
					if c, isC := n.(*ast.CallExpr); isC && len(c.Args) == 1 {
						if ix, isIx := unparen(c.Args[0]).(*ast.IndexExpr); isIx && identName(ix.Index) == j {
							ok = true
						}
					}
					return true
				})
				return ok
			}
			notFound := func(e ast.Expr) (neg bool, ok bool) {
				e = unparen(e)
				if u, isU := e.(*ast.UnaryExpr); isU && u.Op == token.NOT {
					e, neg = unparen(u.X), true
				}
				c, isC := e.(*ast.CallExpr)
				if !isC || !strings.HasSuffix(f.p.Src(c.Fun), "IsNotFound") || len(c.Args) != 1 || identName(c.Args[0]) != delErr {
					return false, false
				}
				return neg, true
			}
			for k, t := range dl {
				x, ok := t.(*ast.IfStmt)
				if !ok {
					continue
				}
				neg, isNF := notFound(x.Cond)
				if !isNF {
					continue
				}
				if neg { // if !IsNotFound(err) { keep }
					for _, u := range f.stmts(x.Body) {
						if allocWrite(u) {
							rf.keeps = true
						}
					}
				} else { // if IsNotFound(err) { continue }; keep
					b := f.stmts(x.Body)
					if len(b) == 1 {
						if br, ok := b[0].(*ast.BranchStmt); ok && br.Tok == token.CONTINUE {
							for _, u := range dl[k+1:] {
								if allocWrite(u) {
									rf.keeps = true
								}
							}
						}
					}
					if e, ok := x.Else.(*ast.BlockStmt); ok {
						for _, u := range f.stmts(e) {
							if allocWrite(u) {
								rf.keeps = true
							}
						}
					}
				}
			}
		}
	}
	return rf
}

func insideDelFail(b *ast.BlockStmt, n ast.Node) bool {
	return b != nil && b.Pos() <= n.Pos() && n.End() <= b.End()
}

// memoryAfterAllCreates: at top level the loop with the creates comes before a loop which only writes the caches.
func (f *fn) memoryAfterAllCreates() bool {
	createLoop, syncLoop := -1, -1
	for i, s := range f.stmts(f.fd.Body) {
		switch s.(type) {
		case *ast.RangeStmt, *ast.ForStmt:
		default:
			continue
		}
		v, mw, _ := f.effects(s)
		if v["create"] && createLoop < 0 {
			createLoop = i
		}
		if mw && len(v) == 0 && syncLoop < 0 {
			syncLoop = i
		}
	}
	return createLoop >= 0 && syncLoop > createLoop
}

// ---- NodeSubnetsByIPRanges: the intersection is seeded on the first range list only ----------------------------------------

func (f *fn) intersectionSeededOnFirst() bool {
	res, found := false, false
	ast.Inspect(f.fd.Body, func(n ast.Node) bool {
		r, ok := n.(*ast.RangeStmt)
		if !ok {
			return true
		}
		key := identName(r.Key)
		if key == "" || key == "_" {
			return true
		}
		for _, s := range f.stmts(r.Body) {
			x, ok := s.(*ast.IfStmt)
			if !ok || x.Else == nil {
				continue
			}
			eb, ok := x.Else.(*ast.BlockStmt)
			if !ok {
				continue
			}
			isSeed := func(b *ast.BlockStmt) bool {
				l := f.stmts(b)
				if len(l) != 1 {
					return false
				}
				e, ok := l[0].(*ast.ExprStmt)
				if !ok {
					return false
				}
				c, ok := e.X.(*ast.CallExpr)
				_, isLocal := c.Fun.(*ast.Ident)
				return ok && isLocal && len(c.Args) == 2 && !strings.Contains(f.p.Src(b), "Intersection(")
			}
			isInter := func(b *ast.BlockStmt) bool { return strings.Contains(f.p.Src(b), "Intersection(") }
			b, ok := unparen(x.Cond).(*ast.BinaryExpr)
			if !ok {
				continue
			}
			zeroCmp := (identName(b.X) == key && intLit(b.Y, "0")) || (identName(b.Y) == key && intLit(b.X, "0"))
			if !zeroCmp {
				if (isSeed(x.Body) && isInter(eb)) || (isSeed(eb) && isInter(x.Body)) {
					found, res = true, false // seeded on some other condition (e.g. "the set is empty")
				}
				continue
			}
			firstIsThen := b.Op == token.EQL
			firstIsElse := b.Op == token.NEQ || (b.Op == token.GTR && identName(b.X) == key) || (b.Op == token.LSS && identName(b.Y) == key)
			if firstIsThen && isSeed(x.Body) && isInter(eb) {
				found, res = true, true
			}
			if firstIsElse && isSeed(eb) && isInter(x.Body) {
				found, res = true, true
			}
		}
		return true
	})
	return found && res
}

// ---- walkConfiguredIPRanges: every configured range clipped at BOTH ends, parts sorted ascending, walkIPRanges ----------------

type walkConfFact struct{ clampsBoth, sorts, delegates bool }

// cmpIdents: the condition compares two identifiers; returns them normalised as (smaller, larger, strict) for `a < b` /
// `b > a` (strict) and `a <= b` / `b >= a`.
func cmpIdents(e ast.Expr) (lo, hi string, strict, ok bool) {
	b, isB := unparen(e).(*ast.BinaryExpr)
	if !isB {
		return "", "", false, false
	}
	x, y := identName(b.X), identName(b.Y)
	if x == "" || y == "" {
		return "", "", false, false
	}
	switch b.Op {
	case token.LSS:
		return x, y, true, true
	case token.GTR:
		return y, x, true, true
	case token.LEQ:
		return x, y, false, true
	case token.GEQ:
		return y, x, false, true
	}
	return "", "", false, false
}

func (f *fn) walkConfFacts() walkConfFact {
	var wf walkConfFact
	if len(f.fd.Type.Params.List) < 2 {
		return wf
	}
	// outer loop over the requested ranges
	var outer *ast.RangeStmt
	for _, s := range f.stmts(f.fd.Body) {
		if r, ok := s.(*ast.RangeStmt); ok {
			outer = r
			break
		}
	}
	if outer == nil || identName(outer.Value) == "" {
		return wf
	}
	r := identName(outer.Value)
	ol := f.stmts(outer.Body)
	// first / last of the requested range
	bound := map[string]string{} // local -> "First" | "Last" of r
	for _, s := range ol {
		a, ok := s.(*ast.AssignStmt)
		if !ok || len(a.Lhs) != len(a.Rhs) {
			continue
		}
		for i, rhs := range a.Rhs {
			t := strings.Join(strings.Fields(f.p.Src(rhs)), "")
			for _, end := range []string{"First", "Last"} {
				if strings.HasSuffix(t, "IPToInt("+r+"."+end+")") {
					bound[identName(a.Lhs[i])] = end
				}
			}
		}
	}
	// the innermost collection loop (over the ranges of a pool of recv.FloatingIPs)
	var inner *ast.RangeStmt
	for _, s := range ol {
		p, ok := s.(*ast.RangeStmt)
		if !ok || !isCacheField(f.p, p.X, f.recv) {
			continue
		}
		for _, t := range f.stmts(p.Body) {
			if q, ok := t.(*ast.RangeStmt); ok {
				inner = q
			}
		}
	}
	if inner == nil || identName(inner.Value) == "" {
		return wf
	}
	c := identName(inner.Value)
	il := f.stmts(inner.Body)
	ends := map[string]string{} // local -> "First" | "Last" of the configured range
	for _, s := range il {
		a, ok := s.(*ast.AssignStmt)
		if !ok || len(a.Lhs) != len(a.Rhs) {
			continue
		}
		for i, rhs := range a.Rhs {
			t := strings.Join(strings.Fields(f.p.Src(rhs)), "")
			for _, end := range []string{"First", "Last"} {
				if strings.HasSuffix(t, "IPToInt("+c+"."+end+")") {
					ends[identName(a.Lhs[i])] = end
				}
			}
		}
	}
	clampLo, clampHi, appended := false, false, false
	parts := ""
	assignsTo := func(b *ast.BlockStmt, lhs, rhs string) bool {
		l := f.stmts(b)
		if len(l) != 1 {
			return false
		}
		a, ok := l[0].(*ast.AssignStmt)
		return ok && a.Tok == token.ASSIGN && len(a.Lhs) == 1 && len(a.Rhs) == 1 && identName(a.Lhs[0]) == lhs && identName(a.Rhs[0]) == rhs
	}
	appendOf := func(s ast.Stmt) (string, bool) {
		a, ok := s.(*ast.AssignStmt)
		if !ok || len(a.Lhs) != 1 || len(a.Rhs) != 1 {
			return "", false
		}
		call, ok := a.Rhs[0].(*ast.CallExpr)
		if !ok || identName(call.Fun) != "append" || len(call.Args) != 2 || identName(call.Args[0]) != identName(a.Lhs[0]) {
			return "", false
		}
		t := strings.Join(strings.Fields(f.p.Src(call.Args[1])), "")
		usesLo, usesHi := false, false
		for v, e := range ends {
			if e == "First" && strings.Contains(t, "IntToIP("+v+")") {
				usesLo = true
			}
			if e == "Last" && strings.Contains(t, "IntToIP("+v+")") {
				usesHi = true
			}
		}
		return identName(a.Lhs[0]), usesLo && usesHi
	}
	guardedNonEmpty := false
	for k, s := range il {
		x, ok := s.(*ast.IfStmt)
		if ok && x.Else == nil {
			lo, hi, strict, isCmp := cmpIdents(x.Cond)
			if isCmp && strict {
				// if lo < first { lo = first }   (lo: First of the configured range, first: First of the request)
				if ends[lo] == "First" && bound[hi] == "First" && assignsTo(x.Body, lo, hi) {
					clampLo = true
				}
				// if hi > last { hi = last }  ≡  last < hi
				if bound[lo] == "Last" && ends[hi] == "Last" && assignsTo(x.Body, hi, lo) {
					clampHi = true
				}
				// guard: if hi < lo { continue }
				if ends[lo] == "Last" && ends[hi] == "First" {
					b := f.stmts(x.Body)
					if len(b) == 1 {
						if br, ok := b[0].(*ast.BranchStmt); ok && br.Tok == token.CONTINUE {
							for _, u := range il[k+1:] {
								if p, ok2 := appendOf(u); ok2 {
									parts, appended, guardedNonEmpty = p, true, true
								}
							}
						}
					}
				}
			}
			if isCmp && !strict && ends[lo] == "First" && ends[hi] == "Last" { // if lo <= hi { parts = append(…) }
				for _, u := range f.stmts(x.Body) {
					if p, ok2 := appendOf(u); ok2 {
						parts, appended, guardedNonEmpty = p, true, true
					}
				}
			}
		}
		// lo = max(lo, first) / hi = min(hi, last)
		if a, ok := s.(*ast.AssignStmt); ok && a.Tok == token.ASSIGN && len(a.Lhs) == 1 && len(a.Rhs) == 1 {
			if call, ok := a.Rhs[0].(*ast.CallExpr); ok && len(call.Args) == 2 {
				v := identName(a.Lhs[0])
				a0, a1 := identName(call.Args[0]), identName(call.Args[1])
				other := a1
				if a1 == v {
					other = a0
				}
				if (a0 == v || a1 == v) && identName(call.Fun) == "max" && ends[v] == "First" && bound[other] == "First" {
					clampLo = true
				}
				if (a0 == v || a1 == v) && identName(call.Fun) == "min" && ends[v] == "Last" && bound[other] == "Last" {
					clampHi = true
				}
			}
		}
	}
	wf.clampsBoth = clampLo && clampHi && appended && guardedNonEmpty
	if parts == "" {
		// the variant appends the configured range itself
		for _, s := range il {
			if a, ok := s.(*ast.AssignStmt); ok && len(a.Rhs) == 1 {
				if call, ok := a.Rhs[0].(*ast.CallExpr); ok && identName(call.Fun) == "append" && len(call.Args) == 2 {
					parts = identName(call.Args[0])
				}
			}
		}
	}
	// after the collection: sort.Slice(parts, first ascending), then walkIPRanges(parts, forwarding callback)
	fparam := ""
	last := f.fd.Type.Params.List[len(f.fd.Type.Params.List)-1]
	if len(last.Names) == 1 {
		fparam = last.Names[0].Name
	}
	sortIdx, walkIdx := -1, -1
	stoppedVar := ""
	for k, s := range ol {
		e, ok := s.(*ast.ExprStmt)
		if !ok {
			continue
		}
		call, ok := e.X.(*ast.CallExpr)
		if !ok {
			continue
		}
		fun := f.p.Src(call.Fun)
		if (fun == "sort.Slice" || fun == "sort.SliceStable") && len(call.Args) == 2 && identName(call.Args[0]) == parts && parts != "" {
			if lit, ok := call.Args[1].(*ast.FuncLit); ok && len(lit.Type.Params.List) >= 1 {
				var names []string
				for _, fl := range lit.Type.Params.List {
					for _, n := range fl.Names {
						names = append(names, n.Name)
					}
				}
				body := f.stmts(lit.Body)
				if len(names) == 2 && len(body) == 1 {
					if ret, ok := body[0].(*ast.ReturnStmt); ok && len(ret.Results) == 1 {
						if b, ok := unparen(ret.Results[0]).(*ast.BinaryExpr); ok {
							l := strings.Join(strings.Fields(f.p.Src(b.X)), "")
							rr := strings.Join(strings.Fields(f.p.Src(b.Y)), "")
							key := func(i string) string { return "IPToInt(" + parts + "[" + i + "].First)" }
							asc := (b.Op == token.LSS && strings.HasSuffix(l, key(names[0])) && strings.HasSuffix(rr, key(names[1]))) ||
								(b.Op == token.GTR && strings.HasSuffix(l, key(names[1])) && strings.HasSuffix(rr, key(names[0])))
							if asc {
								sortIdx = k
							}
						}
					}
				}
			}
		}
		if fun == "walkIPRanges" && len(call.Args) == 2 && identName(call.Args[0]) == parts && parts != "" {
			if lit, ok := call.Args[1].(*ast.FuncLit); ok {
				body := f.stmts(lit.Body)
				t := strings.Join(strings.Fields(f.p.Src(lit.Body)), "")
				forwards := false
				if len(body) == 1 && strings.Contains(t, "return"+fparam+"(") {
					forwards = true // return f(ip)
				}
				if len(body) == 2 {
					if a, ok := body[0].(*ast.AssignStmt); ok && len(a.Lhs) == 1 && len(a.Rhs) == 1 {
						if c2, ok := a.Rhs[0].(*ast.CallExpr); ok && identName(c2.Fun) == fparam {
							if ret, ok := body[1].(*ast.ReturnStmt); ok && len(ret.Results) == 1 && identName(ret.Results[0]) == identName(a.Lhs[0]) {
								forwards, stoppedVar = true, identName(a.Lhs[0])
							}
						}
					}
				}
				if forwards {
					walkIdx = k
				}
			}
		}
	}
	wf.sorts = sortIdx >= 0 && (walkIdx < 0 || sortIdx < walkIdx)
	// stop the outer loop when the callback stopped
	stops := stoppedVar == ""
	if walkIdx >= 0 && stoppedVar != "" {
		for _, s := range ol[walkIdx+1:] {
			if x, ok := s.(*ast.IfStmt); ok && identName(x.Cond) == stoppedVar && f.leaves(x.Body) {
				stops = true
			}
		}
	}
	wf.delegates = walkIdx >= 0 && stops && stoppedVar != ""
	return wf
}

// ---- listFloatingIPs asks the API server (not an informer cache) --------------------------------------------------------------

func (f *fn) listsApiserver() bool {
	verbs, _, _ := f.effects(f.fd.Body)
	if len(verbs) != 1 || !verbs["list"] {
		return false
	}
	t := f.p.Src(f.fd.Body)
	for _, bad := range []string{"Lister()", "informer", "Informer()", "GetIndexer", "GetStore"} {
		if strings.Contains(t, bad) {
			return false
		}
	}
	n := 0
	ast.Inspect(f.fd.Body, func(x ast.Node) bool {
		if c, ok := x.(*ast.CallExpr); ok {
			if sel, ok := c.Fun.(*ast.SelectorExpr); ok && sel.Sel.Name == "List" {
				n++
			}
		}
		return true
	})
	return n == 1
}

// listIsConsistentRead: the ListOptions handed to the store's List are EMPTY (no resourceVersion / resourceVersionMatch:
// a quorum read, not an answer from the API server's watch cache, which may lag).
func (f *fn) listIsConsistentRead() bool {
	ok, n := false, 0
	empty := func(e ast.Expr) bool {
		switch x := unparen(e).(type) {
		case *ast.CompositeLit:
			return len(x.Elts) == 0
		case *ast.Ident:
			// `var opts metav1.ListOptions` (never assigned) or `opts := metav1.ListOptions{}`
			declared, assigned := false, false
			ast.Inspect(f.fd.Body, func(n ast.Node) bool {
				switch y := n.(type) {
				case *ast.ValueSpec:
					for i, nm := range y.Names {
						if nm.Name == x.Name {
							declared = len(y.Values) == 0 || (i < len(y.Values) && isEmptyLit(y.Values[i]))
						}
					}
				case *ast.AssignStmt:
					for i, l := range y.Lhs {
						if identName(l) == x.Name && i < len(y.Rhs) {
							if y.Tok == token.DEFINE && isEmptyLit(y.Rhs[i]) {
								declared = true
							} else {
								assigned = true
							}
						}
						if sel, isSel := l.(*ast.SelectorExpr); isSel && identName(sel.X) == x.Name {
							assigned = true
						}
					}
				}
				return true
			})
			return declared && !assigned
		}
		return false
	}
	ast.Inspect(f.fd.Body, func(x ast.Node) bool {
		c, isC := x.(*ast.CallExpr)
		if !isC || storeVerb(f.p, c) != "list" {
			return true
		}
		n++
		ok = len(c.Args) == 2 && empty(c.Args[1])
		return true
	})
	return n == 1 && ok
}

func isEmptyLit(e ast.Expr) bool {
	c, ok := unparen(e).(*ast.CompositeLit)
	return ok && len(c.Elts) == 0
}
