package main

// Shape facts of the three generators of pkg/network/portmapping/iptables.go and of the per-pod protocol of
// pkg/galaxy/server.go, matched by ROLE instead of by text (harmless/NORMALISE.md): a variable is "the chains
// buffer" because it is the first operand of `append(A.Bytes(), B.Bytes()...)`, "the chain of the port" because it
// is defined from hostportChainName(<loop variable>, <loop variable>.PodName), and so on; statement lists of
// blocks, case clauses and else branches are all searched; single-assignment locals are looked through.
// What still matters: which buffer a line goes to, the words of `-X` lines, the order of the side-effecting calls
// (RestoreAll vs the EnsureRule / DeleteRule / EnsureChain loops, SavePort vs SetupPortMapping, CleanPortMapping
// vs RemovePortFile), the guards.

import (
	"fmt"
	"go/ast"
	"go/token"
	"strings"

	"factgen/fg"
)

type facts map[string]bool

// ---- generic helpers -------------------------------------------------------------------------------------

// calls returns every call expression below n, in source order.
func calls(n ast.Node) []*ast.CallExpr {
	var out []*ast.CallExpr
	if n == nil {
		return nil
	}
	ast.Inspect(n, func(x ast.Node) bool {
		if c, ok := x.(*ast.CallExpr); ok {
			out = append(out, c)
		}
		return true
	})
	return out
}

// callee returns the last name of the called function ("h.Interface.RestoreAll" -> "RestoreAll").
func callee(c *ast.CallExpr) string {
	switch f := unparen(c.Fun).(type) {
	case *ast.Ident:
		return f.Name
	case *ast.SelectorExpr:
		return f.Sel.Name
	}
	return ""
}

// scope: single-assignment locals of a statement list (nested statements included), name -> defining expression.
type scope struct {
	p    *fg.Parsed
	defs map[string]ast.Expr
	up   *scope
}

func newScope(p *fg.Parsed, up *scope, nodes ...ast.Node) *scope {
	s := &scope{p: p, defs: map[string]ast.Expr{}, up: up}
	count := map[string]int{}
	note := func(lhs ast.Expr, rhs ast.Expr) {
		if id, ok := lhs.(*ast.Ident); ok && id.Name != "_" {
			count[id.Name]++
			if rhs != nil {
				s.defs[id.Name] = rhs
			}
		}
	}
	for _, n := range nodes {
		ast.Inspect(n, func(x ast.Node) bool {
			switch v := x.(type) {
			case *ast.AssignStmt:
				for i, l := range v.Lhs {
					var r ast.Expr
					if len(v.Lhs) == len(v.Rhs) {
						r = v.Rhs[i]
					} else if len(v.Rhs) == 1 && i == 0 {
						r = v.Rhs[0] // v, ok := m[k]: the value's definition is the index expression
					}
					note(l, r)
				}
			case *ast.ValueSpec:
				for i, n := range v.Names {
					var r ast.Expr
					if i < len(v.Values) {
						r = v.Values[i]
					}
					note(n, r)
				}
			case *ast.RangeStmt:
				if v.Key != nil {
					note(v.Key, nil)
				}
				if v.Value != nil {
					note(v.Value, nil)
				}
			case *ast.IncDecStmt:
				note(v.X, nil)
			}
			return true
		})
	}
	for n, c := range count {
		if c != 1 {
			delete(s.defs, n)
		}
	}
	return s
}

// def resolves an identifier through single-assignment locals (inner scope first).
func (s *scope) resolve(e ast.Expr) ast.Expr {
	for i := 0; i < 8; i++ {
		e = unparen(e)
		id, ok := e.(*ast.Ident)
		if !ok {
			return e
		}
		var d ast.Expr
		for sc := s; sc != nil && d == nil; sc = sc.up {
			d = sc.defs[id.Name]
		}
		if d == nil {
			return e
		}
		e = d
	}
	return e
}

func (s *scope) src(e ast.Expr) string { return s.p.Src(s.resolve(e)) }

// isIdent: e is (resolves to) the identifier name.
func (s *scope) isIdent(e ast.Expr, name string) bool {
	if id, ok := unparen(e).(*ast.Ident); ok && id.Name == name {
		return true
	}
	id, ok := s.resolve(e).(*ast.Ident)
	return ok && id.Name == name
}

// stmtLists returns every statement list below n: blocks, case clauses, comm clauses.
func stmtLists(n ast.Node) [][]ast.Stmt {
	var out [][]ast.Stmt
	ast.Inspect(n, func(x ast.Node) bool {
		switch v := x.(type) {
		case *ast.BlockStmt:
			out = append(out, v.List)
		case *ast.CaseClause:
			out = append(out, v.Body)
		case *ast.CommClause:
			out = append(out, v.Body)
		}
		return true
	})
	return out
}

// topIndex returns the index of the first top-level statement of body containing a call satisfying pred, or -1.
func topIndex(body []ast.Stmt, pred func(c *ast.CallExpr) bool) int {
	for i, s := range body {
		for _, c := range calls(s) {
			if pred(c) {
				return i
			}
		}
	}
	return -1
}

// returnsErr: the statement contains a return (an error path).
func hasReturn(n ast.Node) bool {
	found := false
	ast.Inspect(n, func(x ast.Node) bool {
		if _, ok := x.(*ast.ReturnStmt); ok {
			found = true
		}
		if _, ok := x.(*ast.FuncLit); ok {
			return false
		}
		return !found
	})
	return found
}

// ---- the three generators --------------------------------------------------------------------------------

type generator struct {
	p        *fg.Parsed
	fd       *ast.FuncDecl
	top      *scope
	ports    string // the []k8s.Port parameter
	chains   string // buffer holding the table line and the chain lines
	rules    string // buffer holding the rule lines and COMMIT
	chainsOK bool   // the restore input is chains ++ rules
}

func newGenerator(p *fg.Parsed, recv, name string) (*generator, error) {
	fd, err := p.Fn(recv, name)
	if err != nil {
		return nil, err
	}
	g := &generator{p: p, fd: fd, top: newScope(p, nil, fd.Body)}
	if ps := paramNames(fd); len(ps) == 1 {
		g.ports = ps[0]
	} else {
		return nil, fmt.Errorf("%s: %s no longer takes exactly the port list", p.Path, name)
	}
	// append(A.Bytes(), B.Bytes()...): A = chains, B = rules
	for _, c := range calls(fd.Body) {
		if callee(c) == "append" && len(c.Args) == 2 && c.Ellipsis.IsValid() {
			a, ok1 := unparen(c.Args[0]).(*ast.CallExpr)
			b, ok2 := unparen(c.Args[1]).(*ast.CallExpr)
			if ok1 && ok2 && callee(a) == "Bytes" && callee(b) == "Bytes" {
				sa, oka := unparen(a.Fun).(*ast.SelectorExpr)
				sb, okb := unparen(b.Fun).(*ast.SelectorExpr)
				if oka && okb {
					ia, oka := sa.X.(*ast.Ident)
					ib, okb := sb.X.(*ast.Ident)
					if oka && okb {
						g.chains, g.rules, g.chainsOK = ia.Name, ib.Name, true
					}
				}
			}
		}
	}
	if !g.chainsOK {
		return nil, fmt.Errorf("%s: %s: the restore input is no longer `append(<chains>.Bytes(), <rules>.Bytes()...)`", p.Path, name)
	}
	return g, nil
}

// portLoop is one `for … range <ports>` (or any other ranged collection) with the roles of its locals.
type portLoop struct {
	idx   int // top-level statement index
	stmt  *ast.RangeStmt
	sc    *scope
	v     string // the element variable
	chain func(e ast.Expr) bool
	proto func(e ast.Expr) bool
}

// loopsOver returns the top-level range loops over the collection named coll.
func (g *generator) loopsOver(coll string) []*portLoop {
	var out []*portLoop
	for i, s := range g.fd.Body.List {
		r, ok := s.(*ast.RangeStmt)
		if !ok || !g.top.isIdent(r.X, coll) {
			continue
		}
		l := &portLoop{idx: i, stmt: r, sc: newScope(g.p, g.top, r.Body)}
		if id, ok := r.Value.(*ast.Ident); ok && id.Name != "_" {
			l.v = id.Name
		} else if k, ok := r.Key.(*ast.Ident); ok && r.Value == nil {
			// for i := range xs { v := xs[i] … }
			for n, d := range l.sc.defs {
				if ix, ok := unparen(d).(*ast.IndexExpr); ok && g.top.isIdent(ix.X, coll) && g.p.Src(ix.Index) == k.Name {
					l.v = n
				}
				if u, ok := unparen(d).(*ast.UnaryExpr); ok && u.Op == token.AND {
					if ix, ok := unparen(u.X).(*ast.IndexExpr); ok && g.top.isIdent(ix.X, coll) && g.p.Src(ix.Index) == k.Name {
						l.v = n
					}
				}
			}
		}
		isV := func(e ast.Expr) bool {
			e = unparen(e)
			if u, ok := e.(*ast.UnaryExpr); ok && u.Op == token.AND {
				e = unparen(u.X)
			}
			if st, ok := e.(*ast.StarExpr); ok {
				e = unparen(st.X)
			}
			id, ok := e.(*ast.Ident)
			return ok && l.v != "" && id.Name == l.v
		}
		l.chain = func(e ast.Expr) bool {
			// string(x) / utiliptables.Chain(x) wrappers are looked through by the callers; here: the chain itself
			c, ok := l.sc.resolve(e).(*ast.CallExpr)
			if !ok || callee(c) != "hostportChainName" || len(c.Args) != 2 || !isV(c.Args[0]) {
				return false
			}
			sel, ok := unparen(c.Args[1]).(*ast.SelectorExpr)
			return ok && isV(sel.X) && sel.Sel.Name == "PodName"
		}
		l.proto = func(e ast.Expr) bool {
			c, ok := l.sc.resolve(e).(*ast.CallExpr)
			if !ok || g.p.Src(c.Fun) != "strings.ToLower" || len(c.Args) != 1 {
				return false
			}
			sel, ok := unparen(c.Args[0]).(*ast.SelectorExpr)
			return ok && isV(sel.X) && sel.Sel.Name == "Protocol"
		}
		_ = isV
		out = append(out, l)
	}
	return out
}

func (l *portLoop) isPort(e ast.Expr) bool {
	e = unparen(e)
	if u, ok := e.(*ast.UnaryExpr); ok && u.Op == token.AND {
		e = unparen(u.X)
	}
	id, ok := e.(*ast.Ident)
	return ok && l.v != "" && id.Name == l.v
}

// writes: the loop body writes a line to buf whose words satisfy pred.
func (g *generator) writes(n ast.Node, sc *scope, buf string, pred func(words []ast.Expr, ellipsis bool) bool) bool {
	for _, c := range calls(n) {
		if callee(c) == "writeLine" && len(c.Args) >= 1 && sc.isIdent(c.Args[0], buf) && pred(c.Args[1:], c.Ellipsis.IsValid()) {
			return true
		}
	}
	return false
}

// declares: a chain line of the chain satisfying isChain goes to the chains buffer.
func (g *generator) declares(n ast.Node, sc *scope, isChain func(ast.Expr) bool) bool {
	return g.writes(n, sc, g.chains, func(ws []ast.Expr, ell bool) bool {
		if ell || len(ws) != 1 {
			return false
		}
		c, ok := sc.resolve(ws[0]).(*ast.CallExpr)
		return ok && callee(c) == "MakeChainLine" && len(c.Args) == 1 && isChain(c.Args[0])
	})
}

// stringOf: e is string(x) with x satisfying pred.
func stringOf(sc *scope, e ast.Expr, pred func(ast.Expr) bool) bool {
	c, ok := sc.resolve(e).(*ast.CallExpr)
	return ok && sc.p.Src(c.Fun) == "string" && len(c.Args) == 1 && pred(c.Args[0])
}

func (g *generator) deletes(n ast.Node, sc *scope, isChain func(ast.Expr) bool) bool {
	return g.writes(n, sc, g.rules, func(ws []ast.Expr, ell bool) bool {
		return !ell && len(ws) == 2 && sc.src(ws[0]) == `"-X"` && (stringOf(sc, ws[1], isChain) || isChain(ws[1]))
	})
}

// templateCall finds name(port, proto, chain, last) in n and returns its last argument.
func (l *portLoop) templateCall(n ast.Node, name string) (ast.Expr, *ast.CallExpr) {
	for _, c := range calls(n) {
		if callee(c) == name && len(c.Args) == 4 && l.isPort(c.Args[0]) && l.proto(c.Args[1]) && l.chain(c.Args[2]) {
			return c.Args[3], c
		}
	}
	return nil, nil
}

func (g *generator) isConstChain(name string) func(ast.Expr) bool {
	return func(e ast.Expr) bool { return g.top.isIdent(e, name) }
}

// markWritten: writeKubeMarkRule(<chains>, <rules>) at top level before statement index `before`.
func (g *generator) markWritten(before int) bool {
	i := topIndex(g.fd.Body.List, func(c *ast.CallExpr) bool {
		return callee(c) == "writeKubeMarkRule" && len(c.Args) == 2 && g.top.isIdent(c.Args[0], g.chains) && g.top.isIdent(c.Args[1], g.rules)
	})
	return i >= 0 && i < before
}

func (g *generator) restoreIndex() int {
	return topIndex(g.fd.Body.List, func(c *ast.CallExpr) bool {
		if callee(c) != "RestoreAll" || len(c.Args) != 3 {
			return false
		}
		// the data is chains ++ rules, --noflush, with counters
		d, ok := g.top.resolve(c.Args[0]).(*ast.CallExpr)
		return ok && callee(d) == "append" && g.p.Src(c.Args[1]) == "utiliptables.NoFlushTables" && g.p.Src(c.Args[2]) == "utiliptables.RestoreCounters"
	})
}

func genFacts(p *fg.Parsed) (facts, error) {
	f := facts{}

	// --- SetupPortMapping
	g, err := newGenerator(p, "PortMappingHandler", "SetupPortMapping")
	if err != nil {
		return nil, err
	}
	loops := g.loopsOver(g.ports)
	if len(loops) == 0 {
		return nil, fmt.Errorf("%s: SetupPortMapping: loop over the ports not found", p.Path)
	}
	l := loops[0]
	rest := g.restoreIndex()
	f["setupWritesMark"] = g.markWritten(l.idx)
	f["setupLowersProto"], f["setupNamesChain"] = false, false
	jumpFlag, jumpCall := l.templateCall(l.stmt.Body, "hostPortChainRules")
	rbuf, _ := l.templateCall(l.stmt.Body, "containerPortChainRules")
	if jumpCall != nil || rbuf != nil {
		f["setupLowersProto"], f["setupNamesChain"] = true, true // templateCall checked the roles of both arguments
	}
	f["setupDeclaresChain"] = g.declares(l.stmt.Body, l.sc, l.chain)
	f["setupWritesHpRules"] = rbuf != nil && l.sc.isIdent(rbuf, g.rules)
	// the jump rules are collected (cmd form) into a slice …
	collected := ""
	if jumpCall != nil && g.p.Src(jumpFlag) == "false" {
		for _, c := range calls(l.stmt.Body) {
			if callee(c) == "append" && len(c.Args) == 2 && unparen(c.Args[1]) == ast.Expr(jumpCall) {
				if id, ok := unparen(c.Args[0]).(*ast.Ident); ok {
					collected = id.Name
				}
			}
		}
	}
	f["setupCollectsJumpRules"] = collected != ""
	f["setupRestoreNoFlush"] = rest > l.idx
	// … and ensured one by one, appended to KUBE-HOSTPORTS in the nat table, after the restore
	f["setupEnsuresJumpRulesAfterRestore"] = false
	if collected != "" {
		for _, el := range g.loopsOver(collected) {
			ok := false
			for _, c := range calls(el.stmt.Body) {
				if callee(c) == "EnsureRule" && len(c.Args) == 4 && c.Ellipsis.IsValid() &&
					g.p.Src(c.Args[0]) == "utiliptables.Append" && g.p.Src(c.Args[1]) == "utiliptables.TableNAT" &&
					g.top.isIdent(c.Args[2], "kubeHostportsChain") && el.isPort(c.Args[3]) {
					ok = true
				}
			}
			if ok && rest >= 0 && el.idx > rest && hasReturn(el.stmt.Body) {
				f["setupEnsuresJumpRulesAfterRestore"] = true
			}
		}
	}
	f["setupChainsBeforeRules"] = g.chainsOK

	// --- CleanPortMapping
	g, err = newGenerator(p, "PortMappingHandler", "CleanPortMapping")
	if err != nil {
		return nil, err
	}
	loops = g.loopsOver(g.ports)
	if len(loops) == 0 {
		return nil, fmt.Errorf("%s: CleanPortMapping: loop over the ports not found", p.Path)
	}
	l = loops[0]
	rest = g.restoreIndex()
	f["cleanWritesMark"] = topIndex(g.fd.Body.List, func(c *ast.CallExpr) bool { return callee(c) == "writeKubeMarkRule" }) >= 0
	jumpFlag, jumpCall = l.templateCall(l.stmt.Body, "hostPortChainRules")
	f["cleanLowersProto"], f["cleanNamesChain"] = jumpCall != nil, jumpCall != nil
	f["cleanDeclaresChain"] = g.declares(l.stmt.Body, l.sc, l.chain)
	f["cleanDeletesChain"] = g.deletes(l.stmt.Body, l.sc, l.chain)
	collected = ""
	if jumpCall != nil && g.p.Src(jumpFlag) == "false" {
		for _, c := range calls(l.stmt.Body) {
			if callee(c) == "append" && len(c.Args) == 2 && unparen(c.Args[1]) == ast.Expr(jumpCall) {
				if id, ok := unparen(c.Args[0]).(*ast.Ident); ok {
					collected = id.Name
				}
			}
		}
	}
	f["cleanCollectsJumpRules"] = collected != ""
	delIdx := -1
	if collected != "" {
		for _, el := range g.loopsOver(collected) {
			for _, c := range calls(el.stmt.Body) {
				if callee(c) == "DeleteRule" && len(c.Args) == 3 && c.Ellipsis.IsValid() &&
					g.p.Src(c.Args[0]) == "utiliptables.TableNAT" && g.top.isIdent(c.Args[1], "kubeHostportsChain") && el.isPort(c.Args[2]) &&
					hasReturn(el.stmt.Body) {
					delIdx = el.idx
				}
			}
		}
	}
	f["cleanDeletesJumpRulesBeforeRestore"] = delIdx > l.idx && rest > delIdx
	f["cleanRestores"] = rest >= 0
	// since a5e6428: a loop over the ports makes sure every chain exists before the DeleteRule loop
	f["cleanEnsuresChainsFirst"] = false
	for _, el := range loops {
		for _, c := range calls(el.stmt.Body) {
			if callee(c) == "EnsureChain" && len(c.Args) == 2 && g.p.Src(c.Args[0]) == "utiliptables.TableNAT" && el.chain(c.Args[1]) &&
				hasReturn(el.stmt.Body) && delIdx >= 0 && el.idx < delIdx {
				f["cleanEnsuresChainsFirst"] = true
			}
		}
	}
	f["cleanChainsBeforeRules"] = g.chainsOK

	// --- SetupPortMappingForAllPods
	g, err = newGenerator(p, "PortMappingHandler", "SetupPortMappingForAllPods")
	if err != nil {
		return nil, err
	}
	loops = g.loopsOver(g.ports)
	if len(loops) == 0 {
		return nil, fmt.Errorf("%s: SetupPortMappingForAllPods: loop over the ports not found", p.Path)
	}
	l = loops[0]
	rest = g.restoreIndex()
	body := g.fd.Body.List
	f["syncEnsuresBasicFirst"] = false
	if len(body) > 0 {
		if ifs, ok := body[0].(*ast.IfStmt); ok && ifs.Init != nil && hasReturn(ifs.Body) {
			for _, c := range calls(ifs.Init) {
				if callee(c) == "EnsureBasicRule" {
					f["syncEnsuresBasicFirst"] = true
				}
			}
		}
	}
	// the existing chains come from GetChainLines(nat, <iptables-save output>)
	existing := ""
	saves := false
	for _, c := range calls(g.fd.Body) {
		if callee(c) == "SaveInto" && len(c.Args) == 2 && g.p.Src(c.Args[0]) == "utiliptables.TableNAT" {
			saves = true
		}
	}
	ast.Inspect(g.fd.Body, func(x ast.Node) bool {
		as, ok := x.(*ast.AssignStmt)
		if !ok || len(as.Lhs) != 1 || len(as.Rhs) != 1 {
			return true
		}
		if c, ok := unparen(as.Rhs[0]).(*ast.CallExpr); ok && callee(c) == "GetChainLines" && len(c.Args) == 2 &&
			g.p.Src(c.Args[0]) == "utiliptables.TableNAT" {
			if id, ok := as.Lhs[0].(*ast.Ident); ok {
				existing = id.Name
			}
		}
		return true
	})
	f["syncReadsExisting"] = saves && existing != ""
	f["syncWritesMark"] = g.markWritten(l.idx)
	// a chain line for `isChain`, re-using the saved line (counters) when the chain exists
	declaresKeeping := func(n ast.Node, sc *scope, isChain func(ast.Expr) bool) bool {
		if !g.declares(n, sc, isChain) {
			return false
		}
		for _, c := range calls(n) {
			if callee(c) == "writeLine" && len(c.Args) == 2 && sc.isIdent(c.Args[0], g.chains) {
				if ix, ok := sc.resolve(c.Args[1]).(*ast.IndexExpr); ok && sc.isIdent(ix.X, existing) && isChain(ix.Index) {
					return true
				}
			}
		}
		return false
	}
	f["syncDeclaresHostports"] = false
	for i := 0; i < l.idx; i++ {
		if declaresKeeping(body[i], newScope(g.p, g.top, body[i]), g.isConstChain("kubeHostportsChain")) {
			f["syncDeclaresHostports"] = true
		}
	}
	jumpFlag, jumpCall = l.templateCall(l.stmt.Body, "hostPortChainRules")
	rbuf, _ = l.templateCall(l.stmt.Body, "containerPortChainRules")
	f["syncLowersProto"], f["syncNamesChain"] = jumpCall != nil || rbuf != nil, jumpCall != nil || rbuf != nil
	f["syncDeclaresChain"] = declaresKeeping(l.stmt.Body, l.sc, l.chain)
	active := ""
	ast.Inspect(l.stmt.Body, func(x ast.Node) bool {
		as, ok := x.(*ast.AssignStmt)
		if ok && len(as.Lhs) == 1 && len(as.Rhs) == 1 && g.p.Src(as.Rhs[0]) == "true" {
			if ix, ok := as.Lhs[0].(*ast.IndexExpr); ok && l.chain(ix.Index) {
				if id, ok := ix.X.(*ast.Ident); ok {
					active = id.Name
				}
			}
		}
		return true
	})
	f["syncMarksActive"] = active != ""
	f["syncWritesJumpRule"] = jumpCall != nil && g.p.Src(jumpFlag) == "true" &&
		g.writes(l.stmt.Body, l.sc, g.rules, func(ws []ast.Expr, ell bool) bool {
			return ell && len(ws) == 1 && l.sc.resolve(ws[0]) == ast.Expr(jumpCall)
		})
	f["syncWritesHpRules"] = rbuf != nil && l.sc.isIdent(rbuf, g.rules)
	// the stale loop: over the existing chains
	f["syncStaleLoopAfterPorts"], f["syncStaleSkipsActive"], f["syncStalePrefixGuard"] = false, false, false
	f["syncStaleDeclares"], f["syncStaleDeletes"] = false, false
	if existing != "" {
		for i, s := range body {
			r, ok := s.(*ast.RangeStmt)
			if !ok || !g.top.isIdent(r.X, existing) {
				continue
			}
			k, ok := r.Key.(*ast.Ident)
			if !ok {
				continue
			}
			sc := newScope(g.p, g.top, r.Body)
			isK := func(e ast.Expr) bool {
				e = sc.resolve(e)
				if id, ok := e.(*ast.Ident); ok && id.Name == k.Name {
					return true
				}
				return false
			}
			isKStr := func(e ast.Expr) bool { return isK(e) || stringOf(sc, e, isK) }
			f["syncStaleLoopAfterPorts"] = i > l.idx && rest > i
			src := g.p.Src(r.Body)
			// not active: `if !active[chain] {…}` or the guard `if active[chain] { continue }`
			f["syncStaleSkipsActive"] = active != "" && (strings.Contains(src, "if !"+active+"["+k.Name+"] {") ||
				(strings.Contains(src, "if "+active+"["+k.Name+"] {") && strings.Contains(src, "continue")))
			// ours by prefix: `if !strings.HasPrefix(chain, prefix) { continue }` or `if strings.HasPrefix(…) {…}`
			for _, c := range calls(r.Body) {
				if g.p.Src(c.Fun) == "strings.HasPrefix" && len(c.Args) == 2 && isKStr(c.Args[0]) &&
					g.top.isIdent(c.Args[1], "kubeHostportChainPrefix") {
					f["syncStalePrefixGuard"] = true
				}
			}
			f["syncStaleDeclares"] = g.writes(r.Body, sc, g.chains, func(ws []ast.Expr, ell bool) bool {
				if ell || len(ws) != 1 {
					return false
				}
				if ix, ok := sc.resolve(ws[0]).(*ast.IndexExpr); ok && sc.isIdent(ix.X, existing) && isK(ix.Index) {
					return true
				}
				if id, ok := r.Value.(*ast.Ident); ok && sc.isIdent(ws[0], id.Name) {
					return true // for chain, line := range existing
				}
				c, ok := sc.resolve(ws[0]).(*ast.CallExpr)
				return ok && callee(c) == "MakeChainLine" && len(c.Args) == 1 && isK(c.Args[0])
			})
			f["syncStaleDeletes"] = g.writes(r.Body, sc, g.rules, func(ws []ast.Expr, ell bool) bool {
				return !ell && len(ws) == 2 && sc.src(ws[0]) == `"-X"` && isKStr(ws[1])
			})
		}
	}
	f["syncRestoreNoFlush"] = rest >= 0
	f["syncChainsBeforeRules"] = g.chainsOK
	return f, nil
}

// ---- pkg/galaxy/server.go: the per-pod protocol around the port file ---------------------------------------

// isErrNil / isErrNotNil recognise `err == nil` / `err != nil` (either operand order).
func errCmp(p *fg.Parsed, e ast.Expr) (isNil, ok bool) {
	b, is := unparen(e).(*ast.BinaryExpr)
	if !is || (b.Op != token.EQL && b.Op != token.NEQ) {
		return false, false
	}
	l, r := p.Src(b.X), p.Src(b.Y)
	if !((l == "err" && r == "nil") || (l == "nil" && r == "err")) {
		return false, false
	}
	return b.Op == token.EQL, true
}

func containsCall(n ast.Node, name string) bool {
	for _, c := range calls(n) {
		if callee(c) == name {
			return true
		}
	}
	return false
}

func serverFactsOf(sp *fg.Parsed) (facts, error) {
	f := facts{}
	// setupPortMapping: OpenHostports, SavePort, SetupPortMapping as top-level statements
	fd, err := sp.Fn("Galaxy", "setupPortMapping")
	if err != nil {
		return nil, err
	}
	by := func(name string) int {
		return topIndex(fd.Body.List, func(c *ast.CallExpr) bool { return callee(c) == name })
	}
	open, save, setup := by("OpenHostports"), by("SavePort"), by("SetupPortMapping")
	if open < 0 || save < 0 || setup < 0 {
		return nil, fmt.Errorf("%s: setupPortMapping no longer calls OpenHostports / SavePort / SetupPortMapping", sp.Path)
	}
	f["portFileSavedBeforeSetup"] = save < setup && hasReturn(fd.Body.List[save])
	f["hostportsOpenedBeforeSave"] = open < save
	// the per-pod path takes the ports from parsePorts(pod) and then overwrites every PodName with the request's
	// pod name (before anything uses it): `req.Ports = parsePorts(pod)` … `req.Ports[i].PodName = req.PodName`
	parse := topIndex(fd.Body.List, func(c *ast.CallExpr) bool { return callee(c) == "parsePorts" })
	over := -1
	for i, st := range fd.Body.List {
		ast.Inspect(st, func(x ast.Node) bool {
			as, ok := x.(*ast.AssignStmt)
			if !ok || len(as.Lhs) != 1 || len(as.Rhs) != 1 {
				return true
			}
			l, ok := as.Lhs[0].(*ast.SelectorExpr)
			r, ok2 := unparen(as.Rhs[0]).(*ast.SelectorExpr)
			if ok && ok2 && l.Sel.Name == "PodName" && r.Sel.Name == "PodName" && sp.Src(r.X) == "req" {
				if _, isIdx := unparen(l.X).(*ast.IndexExpr); isIdx && over < 0 {
					over = i
				}
			}
			return true
		})
	}
	f["addPathOverwritesPodName"] = parse >= 0 && over > parse && over < open && over < save && over < setup
	// parsePorts: what goes into Port.PodName — the bare pod name or GetPodFullName(name, namespace)
	pfd, err := sp.Fn("", "parsePorts")
	if err != nil {
		return nil, err
	}
	pps := paramNames(pfd)
	psc := newScope(sp, nil, pfd.Body)
	nameKnown := false
	ast.Inspect(pfd.Body, func(x ast.Node) bool {
		kv, ok := x.(*ast.KeyValueExpr)
		if !ok || sp.Src(kv.Key) != "PodName" {
			return true
		}
		v := psc.resolve(kv.Value)
		if sel, ok := v.(*ast.SelectorExpr); ok && len(pps) == 1 && sp.Src(sel.X) == pps[0] && sel.Sel.Name == "Name" {
			f["parsePortsSetsBarePodName"], nameKnown = true, true
		}
		if c, ok := v.(*ast.CallExpr); ok && callee(c) == "GetPodFullName" {
			f["parsePortsSetsBarePodName"], nameKnown = false, true
		}
		return true
	})
	if !nameKnown {
		return nil, fmt.Errorf("%s: parsePorts: cannot tell what goes into Port.PodName", sp.Path)
	}
	// the start-up sync: ports from the annotation or parsePorts(pod), host ports re-opened, one full sync
	ifd, err := sp.Fn("Galaxy", "setupIPtables")
	if err != nil {
		return nil, err
	}
	f["startupUsesParsePorts"] = containsCall(ifd.Body, "parsePorts") && containsCall(ifd.Body, "SetupPortMappingForAllPods") &&
		containsCall(ifd.Body, "OpenHostports")
	// requestFunc: ADD failure runs cleanupPortMapping; DEL runs it after CmdDel succeeded
	fd, err = sp.Fn("Galaxy", "requestFunc")
	if err != nil {
		return nil, err
	}
	addCleans, delCleans := false, false
	assignsErrFrom := func(s ast.Stmt, name string) bool {
		as, ok := s.(*ast.AssignStmt)
		if !ok || len(as.Lhs) != 1 || len(as.Rhs) != 1 || sp.Src(as.Lhs[0]) != "err" {
			return false
		}
		c, ok := unparen(as.Rhs[0]).(*ast.CallExpr)
		return ok && callee(c) == name
	}
	for _, list := range stmtLists(fd.Body) {
		for i := 0; i < len(list); i++ {
			// err = g.setupPortMapping(…); if err != nil { g.cleanupPortMapping(req) … }
			// or: if err = g.setupPortMapping(…); err != nil { g.cleanupPortMapping(req) … }
			if ifs, ok := list[i].(*ast.IfStmt); ok && ifs.Init != nil && assignsErrFrom(ifs.Init, "setupPortMapping") {
				if isNil, ok := errCmp(sp, ifs.Cond); ok && !isNil && containsCall(ifs.Body, "cleanupPortMapping") {
					addCleans = true
				}
			}
			if i+1 < len(list) && assignsErrFrom(list[i], "setupPortMapping") {
				if ifs, ok := list[i+1].(*ast.IfStmt); ok {
					if isNil, ok := errCmp(sp, ifs.Cond); ok && !isNil && containsCall(ifs.Body, "cleanupPortMapping") {
						addCleans = true
					}
				}
			}
			// err = cniutil.CmdDel(…); if err == nil { err = g.cleanupPortMapping(req) }
			// or: … ; if err != nil { return … }; err = g.cleanupPortMapping(req)
			if i+1 < len(list) && assignsErrFrom(list[i], "CmdDel") {
				if ifs, ok := list[i+1].(*ast.IfStmt); ok {
					isNil, ok := errCmp(sp, ifs.Cond)
					if ok && isNil && len(ifs.Body.List) == 1 && assignsErrFrom(ifs.Body.List[0], "cleanupPortMapping") {
						delCleans = true
					}
					if ok && !isNil && hasReturn(ifs.Body) && i+2 < len(list) && assignsErrFrom(list[i+2], "cleanupPortMapping") {
						delCleans = true
					}
				}
			}
		}
	}
	f["addFailureRunsCleanup"] = addCleans
	f["delRunsCleanup"] = delCleans
	fd, err = sp.Fn("Galaxy", "cleanupPortMapping")
	if err != nil {
		return nil, err
	}
	ci := topIndex(fd.Body.List, func(c *ast.CallExpr) bool { return callee(c) == "CloseHostports" })
	ti := topIndex(fd.Body.List, func(c *ast.CallExpr) bool { return callee(c) == "cleanIPtables" })
	f["cleanupClosesHostports"] = ci >= 0 && ti >= 0 && ci <= ti
	fd, err = sp.Fn("Galaxy", "cleanIPtables")
	if err != nil {
		return nil, err
	}
	cons := topIndex(fd.Body.List, func(c *ast.CallExpr) bool { return callee(c) == "ConsumePort" })
	if cons < 0 {
		return nil, fmt.Errorf("%s: cleanIPtables no longer reads the port file with k8s.ConsumePort", sp.Path)
	}
	// a missing file is not an error: some statement tests os.IsNotExist(err) and returns nil
	f["cleanupMissingFileIsNoop"] = false
	ast.Inspect(fd.Body, func(x ast.Node) bool {
		if ifs, ok := x.(*ast.IfStmt); ok && strings.Contains(sp.Src(ifs.Cond), "os.IsNotExist(err)") && !strings.Contains(sp.Src(ifs.Cond), "!os.IsNotExist") {
			for _, s := range ifs.Body.List {
				if r, ok := s.(*ast.ReturnStmt); ok && len(r.Results) == 1 && sp.Src(r.Results[0]) == "nil" {
					f["cleanupMissingFileIsNoop"] = true
				}
			}
		}
		return true
	})
	// the record is cleaned (and removed) only when it lists ports; the file goes after a SUCCESSFUL clean
	clean := topIndex(fd.Body.List, func(c *ast.CallExpr) bool { return callee(c) == "CleanPortMapping" })
	f["cleanupSkipsEmptyRecord"], f["cleanupRemovesFileAfterClean"] = false, false
	for _, list := range stmtLists(fd.Body) {
		c := topIndex(list, func(c *ast.CallExpr) bool { return callee(c) == "CleanPortMapping" })
		r := topIndex(list, func(c *ast.CallExpr) bool { return callee(c) == "RemovePortFile" })
		if c >= 0 && r > c && hasReturn(list[c]) {
			f["cleanupRemovesFileAfterClean"] = true
		}
	}
	if clean >= 0 && clean > cons {
		if ifs, ok := fd.Body.List[clean].(*ast.IfStmt); ok {
			s := sp.Src(ifs.Cond)
			if s == "len(ports) != 0" || s == "len(ports) > 0" || s == "0 != len(ports)" || s == "0 < len(ports)" {
				f["cleanupSkipsEmptyRecord"] = true
			}
		}
		// guard form: if len(ports) == 0 { return nil } before the clean
		for i := cons + 1; i < clean; i++ {
			if ifs, ok := fd.Body.List[i].(*ast.IfStmt); ok && sp.Src(ifs.Cond) == "len(ports) == 0" && hasReturn(ifs.Body) {
				f["cleanupSkipsEmptyRecord"] = true
			}
		}
	}
	// nothing may remove the file BEFORE the clean
	rmFirst := topIndex(fd.Body.List, func(c *ast.CallExpr) bool { return callee(c) == "RemovePortFile" })
	if rmFirst >= 0 && clean >= 0 && rmFirst < clean {
		f["cleanupRemovesFileAfterClean"] = false
	}
	return f, nil
}
