package main

// Rule words and rule templates, read SEMANTICALLY (harmless/NORMALISE.md):
//   - a word is normalised to a list of pieces (literal text / a field of the port / protocol / chain);
//     fmt.Sprintf, string concatenation, strconv.Itoa(int(x)), strconv.FormatInt(int64(x), 10), fmt.Sprint,
//     parentheses and single-assignment locals all normalise to the same piece list (adjacent literals merged);
//   - a template function (hostPortChainRules, containerPortChainRules, writeKubeMarkRule) is EXECUTED symbolically:
//     []string variables, append, composite literals, if/else and switch on the recognised conditions
//     (the iptablesRestore flag, HostIP empty or not), writeLine calls and return; names of parameters and locals
//     do not matter (roles come from parameter positions).
// What still matters: the order of the words, every literal, which field goes where, which buffer a line goes to.

import (
	"fmt"
	"go/ast"
	"go/token"
	"strconv"
	"strings"

	"factgen/fg"
)

type piece struct {
	kind string // lit | podName | hostPort | containerPort | podIP | hostIP | proto | chain
	s    string
}

func (p piece) lean() string {
	if p.kind == "lit" {
		return "Piece.lit " + fg.LeanStr(p.s)
	}
	return "Piece." + p.kind
}

type tok []piece

func leanTok(t tok) string {
	var xs []string
	for _, p := range t {
		xs = append(xs, p.lean())
	}
	return "[" + strings.Join(xs, ", ") + "]"
}

func leanToks(ts []tok) string {
	var xs []string
	for _, t := range ts {
		xs = append(xs, leanTok(t))
	}
	return "[" + strings.Join(xs, ",\n   ") + "]"
}

// merge joins adjacent literal pieces and drops empty ones.
func merge(t tok) tok {
	var out tok
	for _, p := range t {
		if p.kind == "lit" {
			if p.s == "" {
				continue
			}
			if n := len(out); n > 0 && out[n-1].kind == "lit" {
				out[n-1].s += p.s
				continue
			}
		}
		out = append(out, p)
	}
	return out
}

func tokEq(a, b tok) bool {
	if len(a) != len(b) {
		return false
	}
	for i := range a {
		if a[i] != b[i] {
			return false
		}
	}
	return true
}

func toksEq(a, b []tok) bool {
	if len(a) != len(b) {
		return false
	}
	for i := range a {
		if !tokEq(a[i], b[i]) {
			return false
		}
	}
	return true
}

// roles of the identifiers inside a template function
type roles struct {
	p        *fg.Parsed
	consts   map[string]string   // package-level string constants
	port     string              // the *k8s.Port / k8s.Port parameter
	proto    string              // lower-cased protocol parameter ("" = none)
	chain    string              // chain parameter ("" = none)
	restore  string              // bool parameter selecting the restore form ("" = none)
	scalars  map[string]ast.Expr // single-assignment string locals
	slices   map[string][]tok    // current value of []string variables
	decision map[string]bool     // "restore", "hostip"
}

func portField(name string) (kind string, numeric, ok bool) {
	switch name {
	case "PodName":
		return "podName", false, true
	case "PodIP":
		return "podIP", false, true
	case "HostIP":
		return "hostIP", false, true
	case "HostPort":
		return "hostPort", true, true
	case "ContainerPort":
		return "containerPort", true, true
	}
	return "", false, false
}

func unparen(e ast.Expr) ast.Expr {
	for {
		p, ok := e.(*ast.ParenExpr)
		if !ok {
			return e
		}
		e = p.X
	}
}

// portSel recognises <port>.<Field> (also (*port).Field).
func (r *roles) portSel(e ast.Expr) (kind string, numeric, ok bool) {
	sel, ok := unparen(e).(*ast.SelectorExpr)
	if !ok {
		return "", false, false
	}
	x := unparen(sel.X)
	if st, ok := x.(*ast.StarExpr); ok {
		x = unparen(st.X)
	}
	id, ok := x.(*ast.Ident)
	if !ok || id.Name != r.port || r.port == "" {
		return "", false, false
	}
	return portField(sel.Sel.Name)
}

// numeric recognises a numeric port field, possibly under integer conversions.
func (r *roles) numeric(e ast.Expr) (string, bool) {
	e = unparen(e)
	if c, ok := e.(*ast.CallExpr); ok && len(c.Args) == 1 {
		switch r.p.Src(c.Fun) {
		case "int", "int32", "int64", "uint", "uint32", "uint64":
			return r.numeric(c.Args[0])
		}
	}
	if k, num, ok := r.portSel(e); ok && num {
		return k, true
	}
	return "", false
}

// word normalises a string-valued expression to pieces.
func (r *roles) word(e ast.Expr) (tok, error) {
	t, err := r.word1(e, 0)
	return merge(t), err
}

func (r *roles) word1(e ast.Expr, depth int) (tok, error) {
	bad := fmt.Errorf("%s: cannot translate rule word `%s`", r.p.Path, r.p.Src(e))
	if depth > 8 {
		return nil, bad
	}
	e = unparen(e)
	switch x := e.(type) {
	case *ast.BasicLit:
		if x.Kind == token.STRING {
			s, err := strconv.Unquote(x.Value)
			if err != nil {
				return nil, err
			}
			return tok{{"lit", s}}, nil
		}
	case *ast.Ident:
		if x.Name == r.proto && r.proto != "" {
			return tok{{"proto", ""}}, nil
		}
		if d, ok := r.scalars[x.Name]; ok {
			return r.word1(d, depth+1)
		}
		if v, ok := r.consts[x.Name]; ok {
			return tok{{"lit", v}}, nil
		}
	case *ast.SelectorExpr:
		if k, num, ok := r.portSel(x); ok && !num {
			return tok{{k, ""}}, nil
		}
	case *ast.BinaryExpr:
		if x.Op == token.ADD {
			a, err := r.word1(x.X, depth+1)
			if err != nil {
				return nil, err
			}
			b, err := r.word1(x.Y, depth+1)
			if err != nil {
				return nil, err
			}
			return append(a, b...), nil
		}
	case *ast.CallExpr:
		fn := r.p.Src(x.Fun)
		switch {
		case fn == "string" && len(x.Args) == 1:
			if id, ok := unparen(x.Args[0]).(*ast.Ident); ok {
				if id.Name == r.chain && r.chain != "" {
					return tok{{"chain", ""}}, nil
				}
				if v, ok := r.consts[id.Name]; ok {
					return tok{{"lit", v}}, nil
				}
				if d, ok := r.scalars[id.Name]; ok {
					return r.word1(&ast.CallExpr{Fun: x.Fun, Args: []ast.Expr{d}}, depth+1)
				}
			}
		case fn == "strconv.Itoa" && len(x.Args) == 1:
			if k, ok := r.numeric(x.Args[0]); ok {
				return tok{{k, ""}}, nil
			}
		case fn == "strconv.FormatInt" && len(x.Args) == 2 && r.p.Src(x.Args[1]) == "10":
			if k, ok := r.numeric(x.Args[0]); ok {
				return tok{{k, ""}}, nil
			}
		case fn == "fmt.Sprint" && len(x.Args) == 1:
			if k, ok := r.numeric(x.Args[0]); ok {
				return tok{{k, ""}}, nil
			}
			return r.word1(x.Args[0], depth+1)
		case fn == "fmt.Sprintf" && len(x.Args) >= 1:
			bl, ok := unparen(x.Args[0]).(*ast.BasicLit)
			if !ok || bl.Kind != token.STRING {
				break
			}
			f, err := strconv.Unquote(bl.Value)
			if err != nil {
				return nil, err
			}
			return r.sprintf(f, x.Args[1:], depth)
		}
	}
	return nil, bad
}

// sprintf handles %s, %d, %v and %%.
func (r *roles) sprintf(f string, args []ast.Expr, depth int) (tok, error) {
	var out tok
	ai := 0
	for i := 0; i < len(f); i++ {
		if f[i] != '%' {
			out = append(out, piece{"lit", string(f[i])})
			continue
		}
		if i+1 >= len(f) {
			return nil, fmt.Errorf("dangling %% in format %q", f)
		}
		v := f[i+1]
		i++
		if v == '%' {
			out = append(out, piece{"lit", "%"})
			continue
		}
		if v != 's' && v != 'd' && v != 'v' {
			return nil, fmt.Errorf("%s: format %q: verb %%%c not supported", r.p.Path, f, v)
		}
		if ai >= len(args) {
			return nil, fmt.Errorf("%s: format %q: missing argument", r.p.Path, f)
		}
		a := args[ai]
		ai++
		if k, ok := r.numeric(a); ok {
			if v == 's' {
				return nil, fmt.Errorf("%s: format %q: %%s of a number", r.p.Path, f)
			}
			out = append(out, piece{k, ""})
			continue
		}
		if v == 'd' {
			return nil, fmt.Errorf("%s: format %q: %%d of `%s`", r.p.Path, f, r.p.Src(a))
		}
		t, err := r.word1(a, depth+1)
		if err != nil {
			return nil, err
		}
		out = append(out, t...)
	}
	if ai != len(args) {
		return nil, fmt.Errorf("%s: format %q: %d surplus arguments", r.p.Path, f, len(args)-ai)
	}
	return out, nil
}

// ---- symbolic execution of a template function -----------------------------------------------------------

type line struct {
	buf   string // name of the buffer argument
	chain bool   // the single word is MakeChainLine(const): a chain declaration
	words []tok
}

type run struct {
	r     *roles
	lines []line
	ret   []tok
	done  bool
}

func isStringSlice(e ast.Expr) bool {
	at, ok := e.(*ast.ArrayType)
	if !ok || at.Len != nil {
		return false
	}
	id, ok := at.Elt.(*ast.Ident)
	return ok && id.Name == "string"
}

// sliceVal evaluates a []string-valued expression.
func (x *run) sliceVal(e ast.Expr) ([]tok, bool, error) {
	e = unparen(e)
	switch v := e.(type) {
	case *ast.Ident:
		if v.Name == "nil" {
			return nil, true, nil
		}
		if s, ok := x.r.slices[v.Name]; ok {
			return append([]tok(nil), s...), true, nil
		}
	case *ast.CompositeLit:
		if isStringSlice(v.Type) {
			var out []tok
			for _, el := range v.Elts {
				t, err := x.r.word(el)
				if err != nil {
					return nil, true, err
				}
				out = append(out, t)
			}
			return out, true, nil
		}
	case *ast.CallExpr:
		fn := x.r.p.Src(v.Fun)
		if fn == "make" && len(v.Args) >= 2 && isStringSlice(v.Args[0]) {
			if x.r.p.Src(v.Args[1]) != "0" {
				return nil, true, fmt.Errorf("%s: make([]string, n) with n != 0", x.r.p.Path)
			}
			return nil, true, nil
		}
		if fn == "append" && len(v.Args) >= 1 {
			base, ok, err := x.sliceVal(v.Args[0])
			if !ok || err != nil {
				return nil, ok, err
			}
			rest := v.Args[1:]
			if v.Ellipsis.IsValid() && len(rest) == 1 {
				more, ok, err := x.sliceVal(rest[0])
				if !ok || err != nil {
					return nil, true, fmt.Errorf("%s: cannot evaluate `%s`", x.r.p.Path, x.r.p.Src(v))
				}
				return append(base, more...), true, nil
			}
			for _, a := range rest {
				t, err := x.r.word(a)
				if err != nil {
					return nil, true, err
				}
				base = append(base, t)
			}
			return base, true, nil
		}
	}
	return nil, false, nil
}

// cond evaluates a recognised condition under the current decisions.
func (x *run) cond(e ast.Expr) (bool, error) {
	e = unparen(e)
	bad := fmt.Errorf("%s: condition `%s` in a rule template is not understood", x.r.p.Path, x.r.p.Src(e))
	switch v := e.(type) {
	case *ast.Ident:
		if v.Name == x.r.restore && x.r.restore != "" {
			return x.r.decision["restore"], nil
		}
		if v.Name == "true" {
			return true, nil
		}
		if v.Name == "false" {
			return false, nil
		}
	case *ast.UnaryExpr:
		if v.Op == token.NOT {
			b, err := x.cond(v.X)
			return !b, err
		}
	case *ast.BinaryExpr:
		switch v.Op {
		case token.LAND:
			a, err := x.cond(v.X)
			if err != nil {
				return false, err
			}
			b, err := x.cond(v.Y)
			return a && b, err
		case token.LOR:
			a, err := x.cond(v.X)
			if err != nil {
				return false, err
			}
			b, err := x.cond(v.Y)
			return a || b, err
		case token.EQL, token.NEQ, token.GTR:
			l, rr := unparen(v.X), unparen(v.Y)
			isHostIP := func(e ast.Expr) bool { k, _, ok := x.r.portSel(e); return ok && k == "hostIP" }
			isLenHostIP := func(e ast.Expr) bool {
				c, ok := e.(*ast.CallExpr)
				return ok && x.r.p.Src(c.Fun) == "len" && len(c.Args) == 1 && isHostIP(c.Args[0])
			}
			src := func(e ast.Expr) string { return x.r.p.Src(e) }
			has := x.r.decision["hostip"]
			switch {
			case (isHostIP(l) && src(rr) == `""`) || (isHostIP(rr) && src(l) == `""`):
				if v.Op == token.EQL {
					return !has, nil
				}
				if v.Op == token.NEQ {
					return has, nil
				}
			case isLenHostIP(l) && src(rr) == "0":
				if v.Op == token.EQL {
					return !has, nil
				}
				return has, nil // != 0, > 0
			case src(l) == x.r.restore && x.r.restore != "" && (src(rr) == "true" || src(rr) == "false"):
				b := x.r.decision["restore"] == (src(rr) == "true")
				if v.Op == token.NEQ {
					b = !b
				}
				return b, nil
			}
		}
	}
	return false, bad
}

func isLogCall(src string) bool {
	return strings.HasPrefix(src, "glog.") || strings.HasPrefix(src, "klog.") || strings.HasPrefix(src, "fmt.Print") || strings.HasPrefix(src, "log.")
}

func (x *run) exec(stmts []ast.Stmt) error {
	for _, s := range stmts {
		if x.done {
			return nil
		}
		if err := x.stmt(s); err != nil {
			return err
		}
	}
	return nil
}

func (x *run) stmt(s ast.Stmt) error {
	p := x.r.p
	bad := func() error {
		return fmt.Errorf("%s: statement `%s` in a rule template is not understood", p.Path, p.Src(s))
	}
	switch v := s.(type) {
	case *ast.EmptyStmt:
		return nil
	case *ast.BlockStmt:
		return x.exec(v.List)
	case *ast.DeclStmt:
		gd, ok := v.Decl.(*ast.GenDecl)
		if !ok || gd.Tok != token.VAR {
			return bad()
		}
		for _, sp := range gd.Specs {
			vs := sp.(*ast.ValueSpec)
			for i, n := range vs.Names {
				if i < len(vs.Values) {
					if err := x.assign(n.Name, vs.Values[i]); err != nil {
						return err
					}
				} else if vs.Type != nil && isStringSlice(vs.Type) {
					x.r.slices[n.Name] = nil
				} else {
					return bad()
				}
			}
		}
		return nil
	case *ast.AssignStmt:
		if len(v.Lhs) != len(v.Rhs) {
			return bad()
		}
		for i := range v.Lhs {
			id, ok := v.Lhs[i].(*ast.Ident)
			if !ok {
				return bad()
			}
			if v.Tok == token.ADD_ASSIGN {
				old, ok := x.r.scalars[id.Name]
				if !ok {
					return bad()
				}
				x.r.scalars[id.Name] = &ast.BinaryExpr{X: old, Op: token.ADD, Y: v.Rhs[i]}
				continue
			}
			if v.Tok != token.ASSIGN && v.Tok != token.DEFINE {
				return bad()
			}
			if err := x.assign(id.Name, v.Rhs[i]); err != nil {
				return err
			}
		}
		return nil
	case *ast.IfStmt:
		if v.Init != nil {
			if err := x.stmt(v.Init); err != nil {
				return err
			}
		}
		c, err := x.cond(v.Cond)
		if err != nil {
			return err
		}
		if c {
			return x.exec(v.Body.List)
		}
		if v.Else != nil {
			return x.stmt(v.Else)
		}
		return nil
	case *ast.SwitchStmt:
		if v.Init != nil || v.Tag != nil {
			return bad()
		}
		var def *ast.CaseClause
		for _, c := range v.Body.List {
			cc := c.(*ast.CaseClause)
			if cc.List == nil {
				def = cc
				continue
			}
			for _, e := range cc.List {
				b, err := x.cond(e)
				if err != nil {
					return err
				}
				if b {
					return x.exec(cc.Body)
				}
			}
		}
		if def != nil {
			return x.exec(def.Body)
		}
		return nil
	case *ast.ExprStmt:
		c, ok := v.X.(*ast.CallExpr)
		if !ok {
			return bad()
		}
		fn := p.Src(c.Fun)
		if isLogCall(fn) {
			return nil
		}
		if fn == "writeLine" && len(c.Args) >= 1 {
			buf, ok := unparen(c.Args[0]).(*ast.Ident)
			if !ok {
				return bad()
			}
			l := line{buf: buf.Name}
			rest := c.Args[1:]
			if c.Ellipsis.IsValid() && len(rest) == 1 {
				ws, ok, err := x.sliceVal(rest[0])
				if err != nil {
					return err
				}
				if !ok {
					return bad()
				}
				l.words = ws
			} else {
				for _, a := range rest {
					if mc, ok := unparen(a).(*ast.CallExpr); ok && strings.HasSuffix(p.Src(mc.Fun), "MakeChainLine") && len(mc.Args) == 1 {
						t, err := x.r.word(&ast.CallExpr{Fun: ast.NewIdent("string"), Args: mc.Args})
						if err != nil {
							return err
						}
						l.chain = true
						l.words = append(l.words, t)
						continue
					}
					t, err := x.r.word(a)
					if err != nil {
						return err
					}
					l.words = append(l.words, t)
				}
			}
			x.lines = append(x.lines, l)
			return nil
		}
		return bad()
	case *ast.ReturnStmt:
		if len(v.Results) == 1 {
			ws, ok, err := x.sliceVal(v.Results[0])
			if err != nil {
				return err
			}
			if !ok {
				return bad()
			}
			x.ret = ws
		} else if len(v.Results) != 0 {
			return bad()
		}
		x.done = true
		return nil
	}
	return bad()
}

func (x *run) assign(name string, rhs ast.Expr) error {
	ws, ok, err := x.sliceVal(rhs)
	if err != nil {
		return err
	}
	if ok {
		x.r.slices[name] = ws
		delete(x.r.scalars, name)
		return nil
	}
	// a string-valued local: keep its definition (with the current definitions of the locals it uses inlined)
	if _, err := x.r.word(rhs); err != nil {
		return err
	}
	x.r.scalars[name] = x.inline(rhs)
	return nil
}

// inline substitutes the current scalar definitions into e (so that later re-assignments do not leak back).
func (x *run) inline(e ast.Expr) ast.Expr {
	switch v := e.(type) {
	case *ast.Ident:
		if d, ok := x.r.scalars[v.Name]; ok {
			return d
		}
	case *ast.ParenExpr:
		return &ast.ParenExpr{X: x.inline(v.X)}
	case *ast.BinaryExpr:
		return &ast.BinaryExpr{X: x.inline(v.X), Op: v.Op, Y: x.inline(v.Y)}
	case *ast.CallExpr:
		args := make([]ast.Expr, len(v.Args))
		for i, a := range v.Args {
			args[i] = x.inline(a)
		}
		return &ast.CallExpr{Fun: v.Fun, Args: args, Ellipsis: v.Ellipsis}
	}
	return e
}

// paramNames returns the parameter names in order.
func paramNames(fd *ast.FuncDecl) []string {
	var out []string
	for _, f := range fd.Type.Params.List {
		for _, n := range f.Names {
			out = append(out, n.Name)
		}
	}
	return out
}

// runTemplate executes a template function under the given decisions.
func runTemplate(p *fg.Parsed, consts map[string]string, fd *ast.FuncDecl, r roles, restore, hostip bool) (*run, error) {
	r.p, r.consts = p, consts
	r.scalars, r.slices = map[string]ast.Expr{}, map[string][]tok{}
	r.decision = map[string]bool{"restore": restore, "hostip": hostip}
	x := &run{r: &r}
	if err := x.exec(fd.Body.List); err != nil {
		return nil, err
	}
	return x, nil
}

func commonPrefix(a, b []tok) int {
	n := 0
	for n < len(a) && n < len(b) && tokEq(a[n], b[n]) {
		n++
	}
	return n
}

func commonSuffix(a, b []tok) int {
	n := 0
	for n < len(a) && n < len(b) && tokEq(a[len(a)-1-n], b[len(b)-1-n]) {
		n++
	}
	return n
}
