package main

import (
	"go/ast"
	"go/parser"
	"go/token"
	"os"
	"os/exec"
	"path/filepath"
	"strings"
	"testing"

	"factgen/fg"
)

func repoDir() string {
	if r := os.Getenv("GALAXY_REPO"); r != "" {
		return r
	}
	return "/repo"
}

var sources = []string{srcPM, srcIPT, srcSave, srcSrv}

// miniRepo copies the four source files the translator reads and applies the edits (old -> new, each must occur).
func miniRepo(t *testing.T, edits map[string][][2]string) string {
	t.Helper()
	dir := t.TempDir()
	for _, rel := range sources {
		b, err := os.ReadFile(filepath.Join(repoDir(), rel))
		if err != nil {
			t.Skipf("source tree not available: %v", err)
		}
		s := string(b)
		for _, e := range edits[rel] {
			if !strings.Contains(s, e[0]) {
				t.Fatalf("%s: edit anchor not found: %q", rel, e[0])
			}
			s = strings.Replace(s, e[0], e[1], -1)
		}
		p := filepath.Join(dir, rel)
		os.MkdirAll(filepath.Dir(p), 0o755)
		if err := os.WriteFile(p, []byte(s), 0o644); err != nil {
			t.Fatal(err)
		}
	}
	return dir
}

func gen1(t *testing.T, dir string) (string, error) {
	t.Helper()
	m, err := generate(dir)
	if err != nil {
		return "", err
	}
	return m["Netfilter.lean"], nil
}

func baseline(t *testing.T) string {
	out, err := gen1(t, miniRepo(t, nil))
	if err != nil {
		t.Fatalf("baseline: %v", err)
	}
	return out
}

func TestHarmlessRewritesKeepTheOutput(t *testing.T) {
	base := baseline(t)
	cases := map[string]map[string][][2]string{
		"H15 itoa and two buffer writes": {srcPM: {
			{`"--dport", fmt.Sprintf("%d", containerPort.HostPort))`, `"--dport", strconv.Itoa(int(containerPort.HostPort)))`},
			{`buf.WriteString(strings.Join(words, " ") + "\n")`, "buf.WriteString(strings.Join(words, \" \"))\n\tbuf.WriteByte('\\n')"}}},
		"FormatInt": {srcPM: {
			{`"--dport", fmt.Sprintf("%d", containerPort.HostPort))`, `"--dport", strconv.FormatInt(int64(containerPort.HostPort), 10))`}}},
		"comment by concatenation and a local": {srcPM: {
			{"\t\t\t\"-m\", \"comment\", \"--comment\",\n\t\t\tfmt.Sprintf(`%s hostport %d`, containerPort.PodName, containerPort.HostPort)}",
				"\t\t\t\"-m\", \"comment\", \"--comment\",\n\t\t\tcontainerPort.PodName + \" hostport \" + strconv.Itoa(int(containerPort.HostPort))}"}}},
		"to-destination by concatenation": {srcPM: {
			{`fmt.Sprintf("--to-destination=%s:%d", containerPort.PodIP, containerPort.ContainerPort)`,
				`"--to-destination=" + containerPort.PodIP + ":" + fmt.Sprint(containerPort.ContainerPort)`}}},
		"host ip test by len, else-less": {srcPM: {
			{`if containerPort.HostIP != "" {`, `if len(containerPort.HostIP) > 0 {`}}},
		"restore flag negated": {srcPM: {
			{"\tif iptablesRestore {\n\t\targs = []string{\n\t\t\t\"-A\"", "\tif !iptablesRestore {\n\t\targs = []string{\n\t\t\t\"-m\", \"comment\", \"--comment\",\n\t\t\tfmt.Sprintf(`%s hostport %d`, containerPort.PodName, containerPort.HostPort)}\n\t} else if true {\n\t\targs = []string{\n\t\t\t\"-A\""},
			{"\t} else {\n\t\t// if using iptables instead of iptables-restore to add rules, we should not add double quotas to comment.\n\t\targs = []string{\n\t\t\t\"-m\", \"comment\", \"--comment\",\n\t\t\tfmt.Sprintf(`%s hostport %d`, containerPort.PodName, containerPort.HostPort)}\n\t}", "\t}"}}},
		"alpha renaming in CleanPortMapping and the template parameters": {srcPM: {
			{"func hostPortChainRules(containerPort *k8s.Port, protocol string, hostportChain utiliptables.Chain,\n\tiptablesRestore bool) []string {\n\tvar args []string\n\tif iptablesRestore {",
				"func hostPortChainRules(containerPort *k8s.Port, protocol string, hostportChain utiliptables.Chain,\n\tforRestore bool) []string {\n\tvar args []string\n\tif forRestore {"},
			{"\t\twriteLine(natRules, \"-X\", string(hostportChain))\n\t\tkubeHostportsChainRules = append(kubeHostportsChainRules,\n\t\t\thostPortChainRules(&containerPort, protocol, hostportChain, false))",
				"\t\tname := string(hostportChain)\n\t\twriteLine(natRules, \"-X\", name)\n\t\tkubeHostportsChainRules = append(kubeHostportsChainRules,\n\t\t\thostPortChainRules(&containerPort, protocol, hostportChain, false))"}}},
		"H13 switch instead of if-chain": {srcSrv: {
			{"\tif req.Command == cniutil.COMMAND_ADD {", "\tswitch req.Command {\n\tcase cniutil.COMMAND_ADD:"},
			{"\t} else if req.Command == cniutil.COMMAND_DEL {", "\tcase cniutil.COMMAND_DEL:"},
			{"\t} else {\n\t\terr = fmt.Errorf(\"unknown command %s\", req.Command)", "\tdefault:\n\t\terr = fmt.Errorf(\"unknown command %s\", req.Command)"}}},
		"DEL with a guard clause": {srcSrv: {
			{"\t\tif err == nil {\n\t\t\terr = g.cleanupPortMapping(req)\n\t\t}", "\t\tif err != nil {\n\t\t\treturn\n\t\t}\n\t\terr = g.cleanupPortMapping(req)"}}},
		"setup error tested in the if header": {srcSrv: {
			{"\t\t\t\terr = g.setupPortMapping(req, req.ContainerID, result020, pod)\n\t\t\t\tif err != nil {", "\t\t\t\tif err = g.setupPortMapping(req, req.ContainerID, result020, pod); err != nil {"}}},
		"empty record guard clause": {srcSrv: {
			{"\tif len(ports) != 0 {\n\t\tif err := g.pmhandler.CleanPortMapping(ports); err != nil {\n\t\t\treturn err\n\t\t}\n\t\tif err := k8s.RemovePortFile(containerID); err != nil && !os.IsNotExist(err) {\n\t\t\treturn fmt.Errorf(\"delete port file for %s: %v\", containerID, err)\n\t\t}\n\t}\n\treturn nil",
				"\tif len(ports) == 0 {\n\t\treturn nil\n\t}\n\tif err := g.pmhandler.CleanPortMapping(ports); err != nil {\n\t\treturn err\n\t}\n\tif err := k8s.RemovePortFile(containerID); err != nil && !os.IsNotExist(err) {\n\t\treturn fmt.Errorf(\"delete port file for %s: %v\", containerID, err)\n\t}\n\treturn nil"}}},
	}
	for name, edits := range cases {
		out, err := gen1(t, miniRepo(t, edits))
		if err != nil {
			t.Errorf("%s: translator failed: %v", name, err)
			continue
		}
		if out != base {
			t.Errorf("%s: generated file differs from the baseline:\n%s", name, diffLines(base, out))
		}
	}
}

func TestSemanticChangesAreSeen(t *testing.T) {
	base := baseline(t)
	cases := map[string]map[string][][2]string{
		"word order in the jump rule": {srcPM: {
			{`args = append(args, "-m", protocol, "-p", protocol, "--dport"`, `args = append(args, "-p", protocol, "-m", protocol, "--dport"`}}},
		"mark value":                   {srcPM: {{`"0x4000/0x4000"`, `"0x8000/0x8000"`}}},
		"clean drops -X":               {srcPM: {{"\t\twriteLine(natRules, \"-X\", string(hostportChain))\n\t\tkubeHostportsChainRules", "\t\tkubeHostportsChainRules"}}},
		"-X goes to the chains buffer": {srcPM: {{"\t\twriteLine(natRules, \"-X\", string(hostportChain))\n\t\tkubeHostportsChainRules", "\t\twriteLine(natChains, \"-X\", string(hostportChain))\n\t\tkubeHostportsChainRules"}}},
		"hash ignores the protocol":    {srcPM: {{"strconv.Itoa(int(port.HostPort)) + port.Protocol +", "strconv.Itoa(int(port.HostPort)) +"}}},
		"port file written after the setup (seeded C14-1)": {srcSrv: {
			{"\tif err := k8s.SavePort(containerID, data); err != nil {\n\t\treturn fmt.Errorf(\"failed to save ports %v\", err)\n\t}\n\tif err := g.pmhandler.SetupPortMapping(req.Ports); err != nil {\n\t\treturn fmt.Errorf(\"failed to setup port mapping %v: %v\", req.Ports, err)\n\t}",
				"\tif err := g.pmhandler.SetupPortMapping(req.Ports); err != nil {\n\t\treturn fmt.Errorf(\"failed to setup port mapping %v: %v\", req.Ports, err)\n\t}\n\tif err := k8s.SavePort(containerID, data); err != nil {\n\t\treturn fmt.Errorf(\"failed to save ports %v\", err)\n\t}"}}},
		"ADD failure without cleanup":           {srcSrv: {{"\t\t\t\t\tg.cleanupPortMapping(req)\n\t\t\t\t\treturn", "\t\t\t\t\treturn"}}},
		"DEL cleans up even when CmdDel failed": {srcSrv: {{"\t\tif err == nil {\n\t\t\terr = g.cleanupPortMapping(req)\n\t\t}", "\t\tif err != nil {\n\t\t\terr = g.cleanupPortMapping(req)\n\t\t}"}}},
	}
	for name, edits := range cases {
		out, err := gen1(t, miniRepo(t, edits))
		if err == nil && out == base {
			t.Errorf("%s: the change is invisible to the translator", name)
		}
	}
}

// the seeded changes of /verif/seeded/C14-* must change the generated file (or make the translator fail)
func TestSeededPatches(t *testing.T) {
	base := baseline(t)
	ps, _ := filepath.Glob("/verif/seeded/C14-*/patch.diff")
	if len(ps) == 0 {
		t.Skip("no seeded patches")
	}
	for _, p := range ps {
		dir := miniRepo(t, nil)
		cmd := exec.Command("patch", "-p1", "-s", "-d", dir, "-i", p)
		if out, err := cmd.CombinedOutput(); err != nil {
			t.Logf("%s does not apply to the current source (%v: %s): skipped", p, err, out)
			continue
		}
		out, err := gen1(t, dir)
		if err == nil && out == base {
			t.Errorf("%s: invisible to the translator", p)
		}
	}
}

func TestHarmlessPatches(t *testing.T) {
	base := baseline(t)
	for _, h := range []string{"H13", "H15"} {
		p := "/verif/harmless/" + h + "/patch.diff"
		if _, err := os.Stat(p); err != nil {
			continue
		}
		dir := miniRepo(t, nil)
		if out, err := exec.Command("patch", "-p1", "-s", "-d", dir, "-i", p).CombinedOutput(); err != nil {
			t.Logf("%s does not apply (%v: %s): skipped", p, err, out)
			continue
		}
		out, err := gen1(t, dir)
		if err != nil {
			t.Errorf("%s: translator failed: %v", h, err)
		} else if out != base {
			t.Errorf("%s: generated file differs:\n%s", h, diffLines(base, out))
		}
	}
}

func diffLines(a, b string) string {
	la, lb := strings.Split(a, "\n"), strings.Split(b, "\n")
	var out []string
	for i := 0; i < len(la) || i < len(lb); i++ {
		x, y := "", ""
		if i < len(la) {
			x = la[i]
		}
		if i < len(lb) {
			y = lb[i]
		}
		if x != y {
			out = append(out, "- "+x, "+ "+y)
			if len(out) > 12 {
				break
			}
		}
	}
	return strings.Join(out, "\n")
}

// ---- miniature snippets for the word normaliser -------------------------------------------------------------

func wordsOf(t *testing.T, exprs ...string) []tok {
	t.Helper()
	src := "package x\nfunc f(p *Port, proto string, chain Chain) {\n"
	for _, e := range exprs {
		src += "\t_ = " + e + "\n"
	}
	src += "}\n"
	fset := token.NewFileSet()
	f, err := parser.ParseFile(fset, "x.go", src, 0)
	if err != nil {
		t.Fatal(err)
	}
	p := &fg.Parsed{Fset: fset, File: f, Path: "x.go"}
	r := roles{p: p, consts: map[string]string{"kubeHostportsChain": "KUBE-HOSTPORTS"}, port: "p", proto: "proto", chain: "chain",
		scalars: map[string]ast.Expr{}, slices: map[string][]tok{}}
	var out []tok
	for _, s := range f.Decls[0].(*ast.FuncDecl).Body.List {
		w, err := r.word(s.(*ast.AssignStmt).Rhs[0])
		if err != nil {
			t.Fatalf("%v", err)
		}
		out = append(out, w)
	}
	return out
}

func TestWordNormaliser(t *testing.T) {
	eq := [][]string{
		{`fmt.Sprintf("%d", p.HostPort)`, `strconv.Itoa(int(p.HostPort))`, `strconv.FormatInt(int64(p.HostPort), 10)`, `fmt.Sprint(p.HostPort)`, `fmt.Sprintf("%v", p.HostPort)`},
		{"fmt.Sprintf(`\"%s hostport %d\"`, p.PodName, p.HostPort)", `"\"" + p.PodName + " hostport " + strconv.Itoa(int(p.HostPort)) + "\""`, `("\"" + p.PodName) + (" host" + "port ") + fmt.Sprintf("%d\"", p.HostPort)`},
		{`fmt.Sprintf("--to-destination=%s:%d", p.PodIP, p.ContainerPort)`, `"--to-destination=" + p.PodIP + ":" + strconv.Itoa(int(p.ContainerPort))`},
		{`string(chain)`, `fmt.Sprintf("%s", string(chain))`},
		{`string(kubeHostportsChain)`, `"KUBE-" + "HOSTPORTS"`},
		{`proto`, `fmt.Sprintf("%s", proto)`},
	}
	for _, group := range eq {
		ws := wordsOf(t, group...)
		for i := 1; i < len(ws); i++ {
			if !tokEq(ws[0], ws[i]) {
				t.Errorf("%s and %s normalise differently: %v vs %v", group[0], group[i], ws[0], ws[i])
			}
		}
	}
	ne := [][2]string{
		{`fmt.Sprintf("%d", p.HostPort)`, `fmt.Sprintf("%d", p.ContainerPort)`},
		{"fmt.Sprintf(`%s hostport %d`, p.PodName, p.HostPort)", "fmt.Sprintf(`%s hostport  %d`, p.PodName, p.HostPort)"},
		{`p.PodIP`, `p.HostIP`},
		{`string(chain)`, `string(kubeHostportsChain)`},
	}
	for _, pair := range ne {
		ws := wordsOf(t, pair[0], pair[1])
		if tokEq(ws[0], ws[1]) {
			t.Errorf("%s and %s must differ", pair[0], pair[1])
		}
	}
}
