// factgen netfilter: regenerates lean/Galaxy/Generated/Netfilter.lean from
//
//	/repo/pkg/network/portmapping/iptables.go   (chain constants, hash input of hostportChainName,
//	                                             rule templates, shape of the three generators)
//	/repo/pkg/utils/iptables/{iptables,save_restore}.go (builtin chain names, chain-line format)
//
// Purely syntactic (go/ast).  Everything the model M6 / property C14 uses as a literal comes from
// here; the translator exits non-zero when a template or function no longer has the shape it knows.
package main

import (
	"fmt"
	"go/ast"
	"go/token"
	"sort"
	"strconv"
	"strings"

	"factgen/fg"
)

const (
	srcPM   = "pkg/network/portmapping/iptables.go"
	srcIPT  = "pkg/utils/iptables/iptables.go"
	srcSave = "pkg/utils/iptables/save_restore.go"
	srcSrv  = "pkg/galaxy/server.go"
)

type gen struct {
	pm, ipt, save, srv *fg.Parsed
	consts             map[string]string // package-level string constants of portmapping/iptables.go
}

// ---- the rule templates ----------------------------------------------------------------------------------

// hostPortChainRules(port, protocol, chain, iptablesRestore): executed for the four combinations of
// (restore form, HostIP set) and decomposed into head(restore) / head(cmd) / mid / hostIP / tail.
func (g *gen) hostPortChainRules() (headRestore, headCmd, mid, hostIP, tail []tok, err error) {
	fd, e := g.pm.Fn("", "hostPortChainRules")
	if e != nil {
		err = e
		return
	}
	ps := paramNames(fd)
	if len(ps) != 4 {
		err = fmt.Errorf("%s: hostPortChainRules no longer has the parameters (port, protocol, chain, restore)", srcPM)
		return
	}
	r := roles{port: ps[0], proto: ps[1], chain: ps[2], restore: ps[3]}
	ev := func(restore, hostip bool) ([]tok, error) {
		x, err := runTemplate(g.pm, g.consts, fd, r, restore, hostip)
		if err != nil {
			return nil, err
		}
		if !x.done || len(x.lines) != 0 {
			return nil, fmt.Errorf("%s: hostPortChainRules does not just return its argument list", srcPM)
		}
		return x.ret, nil
	}
	cmdNo, e1 := ev(false, false)
	cmdIP, e2 := ev(false, true)
	resNo, e3 := ev(true, false)
	resIP, e4 := ev(true, true)
	for _, e := range []error{e1, e2, e3, e4} {
		if e != nil {
			err = e
			return
		}
	}
	pre := commonPrefix(cmdNo, cmdIP)
	tl := commonSuffix(cmdNo, cmdIP)
	if tl > len(cmdNo)-pre {
		tl = len(cmdNo) - pre
	}
	tail = cmdNo[len(cmdNo)-tl:]
	hostIP = cmdIP[pre : len(cmdIP)-tl]
	body := cmdNo[:len(cmdNo)-tl]
	if len(resNo) < tl || !toksEq(resNo[len(resNo)-tl:], tail) {
		err = fmt.Errorf("%s: hostPortChainRules: restore and command form end differently", srcPM)
		return
	}
	resBody := resNo[:len(resNo)-tl]
	ml := commonSuffix(body, resBody)
	mid = body[len(body)-ml:]
	headCmd = body[:len(body)-ml]
	headRestore = resBody[:len(resBody)-ml]
	cat := func(xs ...[]tok) []tok {
		var out []tok
		for _, x := range xs {
			out = append(out, x...)
		}
		return out
	}
	if !toksEq(cat(headCmd, mid, tail), cmdNo) || !toksEq(cat(headCmd, mid, hostIP, tail), cmdIP) ||
		!toksEq(cat(headRestore, mid, tail), resNo) || !toksEq(cat(headRestore, mid, hostIP, tail), resIP) {
		err = fmt.Errorf("%s: hostPortChainRules is no longer head(restore|cmd) ++ middle ++ [host-ip words] ++ tail", srcPM)
	}
	return
}

// containerPortChainRules(port, protocol, chain, rulesBuffer): exactly two lines written to the rules buffer.
func (g *gen) containerPortChainRules() (r1, r2 []tok, err error) {
	fd, e := g.pm.Fn("", "containerPortChainRules")
	if e != nil {
		return nil, nil, e
	}
	ps := paramNames(fd)
	if len(ps) != 4 {
		return nil, nil, fmt.Errorf("%s: containerPortChainRules no longer has the parameters (port, protocol, chain, buffer)", srcPM)
	}
	r := roles{port: ps[0], proto: ps[1], chain: ps[2]}
	var ref *run
	for _, hip := range []bool{false, true} {
		x, err := runTemplate(g.pm, g.consts, fd, r, false, hip)
		if err != nil {
			return nil, nil, err
		}
		if len(x.lines) != 2 || x.lines[0].buf != ps[3] || x.lines[1].buf != ps[3] || x.lines[0].chain || x.lines[1].chain {
			return nil, nil, fmt.Errorf("%s: containerPortChainRules no longer writes exactly two rule lines to its buffer", srcPM)
		}
		if ref != nil && (!toksEq(ref.lines[0].words, x.lines[0].words) || !toksEq(ref.lines[1].words, x.lines[1].words)) {
			return nil, nil, fmt.Errorf("%s: containerPortChainRules now depends on the host ip", srcPM)
		}
		ref = x
	}
	return ref.lines[0].words, ref.lines[1].words, nil
}

// writeKubeMarkRule(chains, rules): the chain line of KUBE-MARK-MASQ + one literal rule line.
func (g *gen) markRule() ([]tok, error) {
	fd, err := g.pm.Fn("", "writeKubeMarkRule")
	if err != nil {
		return nil, err
	}
	ps := paramNames(fd)
	if len(ps) != 2 {
		return nil, fmt.Errorf("%s: writeKubeMarkRule no longer has the parameters (chains, rules)", srcPM)
	}
	x, err := runTemplate(g.pm, g.consts, fd, roles{}, false, false)
	if err != nil {
		return nil, err
	}
	var rule []tok
	decl := false
	for _, l := range x.lines {
		switch {
		case l.chain && l.buf == ps[0] && len(l.words) == 1 && tokEq(l.words[0], tok{{"lit", g.consts["KubeMarkMasqChain"]}}):
			decl = true
		case !l.chain && l.buf == ps[1] && rule == nil:
			rule = l.words
		default:
			return nil, fmt.Errorf("%s: writeKubeMarkRule writes something else than the KUBE-MARK-MASQ chain line and one rule", srcPM)
		}
	}
	if !decl || rule == nil {
		return nil, fmt.Errorf("%s: writeKubeMarkRule no longer declares the KUBE-MARK-MASQ chain line and one rule", srcPM)
	}
	return rule, nil
}

// EnsureBasicRule: EnsureChain(nat, KUBE-HOSTPORTS); EnsureRule(Append, table, chain, args...) over a literal list
// of (nat, chain) pairs; the first []string literal of the function is the rule.
func (g *gen) basicRule() (args []tok, chains []string, err error) {
	fd, e := g.pm.Fn("PortMappingHandler", "EnsureBasicRule")
	if e != nil {
		return nil, nil, e
	}
	bad := func(why string) error {
		return fmt.Errorf("%s: EnsureBasicRule no longer has the expected shape (%s)", srcPM, why)
	}
	sc := newScope(g.pm, nil, fd.Body)
	okChain, okRule := false, false
	var ruleVar string
	for _, c := range calls(fd.Body) {
		if callee(c) == "EnsureChain" && len(c.Args) == 2 && g.pm.Src(c.Args[0]) == "utiliptables.TableNAT" && sc.isIdent(c.Args[1], "kubeHostportsChain") {
			okChain = true
		}
		if callee(c) == "EnsureRule" && len(c.Args) == 4 && c.Ellipsis.IsValid() && g.pm.Src(c.Args[0]) == "utiliptables.Append" && !okRule {
			if id, ok := unparen(c.Args[3]).(*ast.Ident); ok {
				ruleVar, okRule = id.Name, true
			}
		}
	}
	if !okChain || !okRule {
		return nil, nil, bad("EnsureChain(nat, KUBE-HOSTPORTS) / EnsureRule(Append, …, args...) missing")
	}
	r := roles{p: g.pm, consts: g.consts, scalars: map[string]ast.Expr{}, slices: map[string][]tok{}}
	// the first assignment to the rule variable is the portal rule
	found := false
	ast.Inspect(fd.Body, func(x ast.Node) bool {
		as, ok := x.(*ast.AssignStmt)
		if !ok || found || len(as.Lhs) != 1 || len(as.Rhs) != 1 {
			return true
		}
		if id, ok := as.Lhs[0].(*ast.Ident); !ok || id.Name != ruleVar {
			return true
		}
		cl, ok := unparen(as.Rhs[0]).(*ast.CompositeLit)
		if !ok || !isStringSlice(cl.Type) {
			return true
		}
		found = true
		for _, el := range cl.Elts {
			t, e := r.word(el)
			if e != nil {
				err = e
				return false
			}
			args = append(args, t)
		}
		return false
	})
	if err != nil {
		return nil, nil, err
	}
	// the literal list of {table, chain} pairs
	ast.Inspect(fd.Body, func(x ast.Node) bool {
		cl, ok := x.(*ast.CompositeLit)
		if !ok || len(chains) > 0 {
			return true
		}
		var cs []string
		for _, el := range cl.Elts {
			c2, ok := el.(*ast.CompositeLit)
			if !ok || len(c2.Elts) != 2 {
				return true
			}
			val := func(e ast.Expr) ast.Expr {
				if kv, ok := e.(*ast.KeyValueExpr); ok {
					return kv.Value
				}
				return e
			}
			if g.pm.Src(val(c2.Elts[0])) != "utiliptables.TableNAT" {
				return true
			}
			sel, ok := val(c2.Elts[1]).(*ast.SelectorExpr)
			if !ok {
				return true
			}
			v, e := g.ipt.ConstString(sel.Sel.Name)
			if e != nil {
				return true
			}
			cs = append(cs, v)
		}
		chains = cs
		return true
	})
	if args == nil || len(chains) == 0 {
		return nil, nil, bad("portal rule / chain list not found")
	}
	return
}

// hostportChainName: hash input fields, hash, encoding, truncation — read through single-assignment locals.
func (g *gen) hashShape() (fields []string, trunc int, err error) {
	fd, e := g.pm.Fn("", "hostportChainName")
	if e != nil {
		return nil, 0, e
	}
	bad := func(why string) error {
		return fmt.Errorf("%s: hostportChainName no longer has the expected shape (%s)", srcPM, why)
	}
	ps := paramNames(fd)
	if len(ps) != 2 {
		return nil, 0, bad("2 parameters expected")
	}
	sc := newScope(g.pm, nil, fd.Body)
	var ret *ast.ReturnStmt
	for _, s := range fd.Body.List {
		if r, ok := s.(*ast.ReturnStmt); ok {
			ret = r
		}
	}
	if ret == nil || len(ret.Results) != 1 {
		return nil, 0, bad("single return expected")
	}
	conv, ok := sc.resolve(ret.Results[0]).(*ast.CallExpr)
	if !ok || len(conv.Args) != 1 || !strings.HasSuffix(g.pm.Src(conv.Fun), "Chain") {
		return nil, 0, bad("return is not Chain(…)")
	}
	sum, ok := sc.resolve(conv.Args[0]).(*ast.BinaryExpr)
	if !ok || sum.Op != token.ADD || !sc.isIdent(sum.X, "kubeHostportChainPrefix") {
		return nil, 0, bad("name is not prefix + …")
	}
	sl, ok := sc.resolve(sum.Y).(*ast.SliceExpr)
	if !ok || sl.Low != nil || sl.High == nil || sl.Slice3 {
		return nil, 0, bad("name is not prefix + encoded[:N]")
	}
	n, e2 := strconv.Atoi(g.pm.Src(sl.High))
	if e2 != nil {
		return nil, 0, bad("truncation length")
	}
	enc, ok := sc.resolve(sl.X).(*ast.CallExpr)
	if !ok || g.pm.Src(enc.Fun) != "base32.StdEncoding.EncodeToString" || len(enc.Args) != 1 {
		return nil, 0, bad("encoding is not base32.StdEncoding.EncodeToString")
	}
	whole, ok := unparen(enc.Args[0]).(*ast.SliceExpr)
	if !ok || whole.Low != nil || whole.High != nil {
		return nil, 0, bad("not the whole hash is encoded")
	}
	h, ok := sc.resolve(whole.X).(*ast.CallExpr)
	if !ok || g.pm.Src(h.Fun) != "sha256.Sum256" || len(h.Args) != 1 {
		return nil, 0, bad("hash is not sha256.Sum256(…)")
	}
	bconv, ok := sc.resolve(h.Args[0]).(*ast.CallExpr)
	if !ok || g.pm.Src(bconv.Fun) != "[]byte" || len(bconv.Args) != 1 {
		return nil, 0, bad("hash input is not []byte(…)")
	}
	// the input as a word: pieces must be whole port fields, the pod-name parameter counts as PodName
	r := roles{p: g.pm, consts: map[string]string{}, port: ps[0], scalars: map[string]ast.Expr{}, slices: map[string][]tok{}}
	for n, d := range sc.defs {
		r.scalars[n] = d
	}
	r.scalars[ps[1]] = &ast.SelectorExpr{X: ast.NewIdent(ps[0]), Sel: ast.NewIdent("PodName")}
	// Protocol is not a rule-word field: map it by hand
	var flat func(e ast.Expr) error
	flat = func(e ast.Expr) error {
		e = sc.resolve(e)
		if be, ok := e.(*ast.BinaryExpr); ok && be.Op == token.ADD {
			if err := flat(be.X); err != nil {
				return err
			}
			return flat(be.Y)
		}
		if sel, ok := e.(*ast.SelectorExpr); ok && g.pm.Src(sel.X) == ps[0] && sel.Sel.Name == "Protocol" {
			fields = append(fields, "protocol")
			return nil
		}
		t, err := r.word(e)
		if err != nil {
			return bad("hash input operand `" + g.pm.Src(e) + "`")
		}
		for _, p := range t {
			switch p.kind {
			case "hostPort", "containerPort", "podName":
				fields = append(fields, p.kind)
			default:
				return bad("hash input operand `" + g.pm.Src(e) + "`")
			}
		}
		return nil
	}
	if err := flat(bconv.Args[0]); err != nil {
		return nil, 0, err
	}
	// every call site must pass the port's own PodName as the second argument
	nCalls, okCalls := 0, true
	ast.Inspect(g.pm.File, func(x ast.Node) bool {
		if c, ok := x.(*ast.CallExpr); ok && callee(c) == "hostportChainName" {
			nCalls++
			if len(c.Args) != 2 || g.pm.Src(c.Args[1]) != g.pm.Src(c.Args[0])+".PodName" {
				okCalls = false
			}
		}
		return true
	})
	if nCalls == 0 || !okCalls {
		return nil, 0, bad("a call site does not pass <port>.PodName as the pod name")
	}
	return fields, n, nil
}

// chain-line format of MakeChainLine.
func (g *gen) chainLine() (pre, suf string, err error) {
	fd, e := g.save.Fn("", "MakeChainLine")
	if e != nil {
		return "", "", e
	}
	src := g.save.Src(fd.Body)
	i := strings.Index(src, `fmt.Sprintf("`)
	if i < 0 {
		return "", "", fmt.Errorf("%s: MakeChainLine is not a single Sprintf", srcSave)
	}
	rest := src[i+len(`fmt.Sprintf(`):]
	j := strings.Index(rest[1:], `"`)
	f, e2 := strconv.Unquote(rest[:j+2])
	if e2 != nil {
		return "", "", e2
	}
	parts := strings.Split(f, "%s")
	if len(parts) != 2 || !strings.Contains(rest, ", chain)") {
		return "", "", fmt.Errorf("%s: MakeChainLine format %q is not <pre>%%s<suf> of the chain", srcSave, f)
	}
	return parts[0], parts[1], nil
}

// ---- main -------------------------------------------------------------------------------------

func generate(repo string) (map[string]string, error) {
	g := &gen{consts: map[string]string{}}
	var err error
	if g.pm, err = fg.ParseFile(repo, srcPM); err != nil {
		return nil, err
	}
	if g.ipt, err = fg.ParseFile(repo, srcIPT); err != nil {
		return nil, err
	}
	if g.save, err = fg.ParseFile(repo, srcSave); err != nil {
		return nil, err
	}
	if g.srv, err = fg.ParseFile(repo, srcSrv); err != nil {
		return nil, err
	}
	for _, n := range []string{"kubeHostportsChain", "kubeHostportChainPrefix", "KubeMarkMasqChain"} {
		v, err := g.pm.ConstString(n)
		if err != nil {
			return nil, err
		}
		g.consts[n] = v
	}
	var builtins []string
	for _, n := range []string{"ChainPrerouting", "ChainInput", "ChainForward", "ChainOutput", "ChainPostrouting"} {
		v, err := g.ipt.ConstString(n)
		if err != nil {
			return nil, err
		}
		builtins = append(builtins, v)
	}
	natTable, err := g.ipt.ConstString("TableNAT")
	if err != nil {
		return nil, err
	}
	headRestore, headCmd, mid, hostIP, jump, err := g.hostPortChainRules()
	if err != nil {
		return nil, err
	}
	r1, r2, err := g.containerPortChainRules()
	if err != nil {
		return nil, err
	}
	mark, err := g.markRule()
	if err != nil {
		return nil, err
	}
	basicArgs, basicChains, err := g.basicRule()
	if err != nil {
		return nil, err
	}
	fields, trunc, err := g.hashShape()
	if err != nil {
		return nil, err
	}
	pre, suf, err := g.chainLine()
	if err != nil {
		return nil, err
	}
	fs, err := genFacts(g.pm)
	if err != nil {
		return nil, err
	}
	sf, err := serverFactsOf(g.srv)
	if err != nil {
		return nil, err
	}
	for k, v := range sf {
		fs[k] = v
	}
	// the mark value is the last word of the mark rule (a literal)
	last := mark[len(mark)-1]
	if len(last) != 1 || last[0].kind != "lit" {
		return nil, fmt.Errorf("%s: mark rule does not end in a literal mark value", srcPM)
	}

	var b strings.Builder
	b.WriteString(fg.Header("port-mapping constants, hash-input shape, rule templates and generator shape facts (M6 / C14)",
		srcPM, srcIPT, srcSave, srcSrv))
	b.WriteString("namespace Galaxy.Generated.Netfilter\n\n")
	b.WriteString("/-- one piece of a generated rule word: a literal or a field of the port being mapped -/\n")
	b.WriteString("inductive Piece where\n  | lit (s : String)\n  | podName | hostPort | containerPort | podIP | hostIP\n  | proto   -- strings.ToLower(port.Protocol)\n  | chain   -- hostportChainName(port, port.PodName)\n  deriving DecidableEq, Repr\n\n")
	b.WriteString("/-- one word (argv element) = concatenation of pieces -/\nabbrev Tok := List Piece\n\n")
	b.WriteString("inductive HashField where\n  | hostPort | protocol | containerPort | podName\n  deriving DecidableEq, Repr\n\n")
	fmt.Fprintf(&b, "def natTable : String := %s\n", fg.LeanStr(natTable))
	fmt.Fprintf(&b, "def hostportsChain : String := %s\n", fg.LeanStr(g.consts["kubeHostportsChain"]))
	fmt.Fprintf(&b, "def hostportChainPrefix : String := %s\n", fg.LeanStr(g.consts["kubeHostportChainPrefix"]))
	fmt.Fprintf(&b, "def markMasqChain : String := %s\n", fg.LeanStr(g.consts["KubeMarkMasqChain"]))
	fmt.Fprintf(&b, "def markValue : String := %s\n", fg.LeanStr(last[0].s))
	var bs []string
	for _, x := range builtins {
		bs = append(bs, fg.LeanStr(x))
	}
	fmt.Fprintf(&b, "def builtinChains : List String := [%s]\n", strings.Join(bs, ", "))
	fmt.Fprintf(&b, "def chainLinePre : String := %s\ndef chainLineSuf : String := %s\n\n", fg.LeanStr(pre), fg.LeanStr(suf))
	b.WriteString("-- hostportChainName: prefix ++ take hashTrunc (base32.StdEncoding (sha256 (concat hashInput)))\n")
	var hf []string
	for _, x := range fields {
		hf = append(hf, "HashField."+x)
	}
	fmt.Fprintf(&b, "def hashInput : List HashField := [%s]\n", strings.Join(hf, ", "))
	fmt.Fprintf(&b, "def hashFunction : String := \"sha256\"\ndef hashEncoding : String := \"base32.StdEncoding\"\ndef hashTrunc : Nat := %d\n\n", trunc)
	b.WriteString("-- hostPortChainRules(port, protocol, chain, iptablesRestore)\n")
	fmt.Fprintf(&b, "def jumpHeadRestore : List Tok :=\n  %s\n", leanToks(headRestore))
	fmt.Fprintf(&b, "def jumpHeadCmd : List Tok :=\n  %s\n", leanToks(headCmd))
	fmt.Fprintf(&b, "def jumpMid : List Tok :=\n  %s\n", leanToks(mid))
	fmt.Fprintf(&b, "def jumpHostIP : List Tok :=\n  %s\n", leanToks(hostIP))
	fmt.Fprintf(&b, "def jumpTail : List Tok :=\n  %s\n\n", leanToks(jump))
	b.WriteString("-- containerPortChainRules(port, protocol, chain, natRules): two lines\n")
	fmt.Fprintf(&b, "def hpMasqLine : List Tok :=\n  %s\n", leanToks(r1))
	fmt.Fprintf(&b, "def hpDnatLine : List Tok :=\n  %s\n\n", leanToks(r2))
	b.WriteString("-- writeKubeMarkRule\n")
	fmt.Fprintf(&b, "def markLine : List Tok :=\n  %s\n\n", leanToks(mark))
	b.WriteString("-- EnsureBasicRule\n")
	fmt.Fprintf(&b, "def basicRuleArgs : List Tok :=\n  %s\n", leanToks(basicArgs))
	var bc []string
	for _, x := range basicChains {
		bc = append(bc, fg.LeanStr(x))
	}
	fmt.Fprintf(&b, "def basicRuleChains : List String := [%s]\n\n", strings.Join(bc, ", "))
	b.WriteString("-- shape facts of SetupPortMapping / CleanPortMapping / SetupPortMappingForAllPods and of the per-pod\n-- protocol of pkg/galaxy/server.go (setupPortMapping / cleanupPortMapping / cleanIPtables / requestFunc)\n")
	keys := make([]string, 0, len(fs))
	for k := range fs {
		keys = append(keys, k)
	}
	sort.Strings(keys)
	for _, k := range keys {
		fmt.Fprintf(&b, "def %s : Bool := %s\n", k, fg.LeanBool(fs[k]))
	}
	b.WriteString("\nend Galaxy.Generated.Netfilter\n")
	return map[string]string{"Netfilter.lean": b.String()}, nil
}

func main() { fg.Run("netfilter", generate) }
