// factgen netfilter: regenerates lean/Galaxy/Generated/Netfilter.lean from
//
//	/repo/pkg/network/portmapping/iptables.go   (chain constants, hash input of hostportChainName,
//	                                             rule templates, shape of the three generators)
//	/repo/pkg/utils/iptables/{iptables,save_restore}.go (builtin chain names, chain-line format)
//
// Purely syntactic (go/ast).  Everything the model M6 / property C14 uses as a literal comes from
// here; the translator exits non-zero when a template or function no longer has the shape it knows.
package main

import (
	"fmt"
	"go/ast"
	"go/token"
	"sort"
	"strconv"
	"strings"

	"factgen/fg"
)

const (
	srcPM   = "pkg/network/portmapping/iptables.go"
	srcIPT  = "pkg/utils/iptables/iptables.go"
	srcSave = "pkg/utils/iptables/save_restore.go"
	srcSrv  = "pkg/galaxy/server.go"
)

type gen struct {
	pm, ipt, save *fg.Parsed
	consts        map[string]string // resolved string constants usable inside string(X)
}

// ---- pieces ---------------------------------------------------------------------------------

type piece struct {
	kind string // lit | podName | hostPort | containerPort | podIP | hostIP | proto | chain
	s    string
}

func (p piece) lean() string {
	if p.kind == "lit" {
		return "Piece.lit " + fg.LeanStr(p.s)
	}
	return "Piece." + p.kind
}

type tok []piece

func leanTok(t tok) string {
	var xs []string
	for _, p := range t {
		xs = append(xs, p.lean())
	}
	return "[" + strings.Join(xs, ", ") + "]"
}

func leanToks(ts []tok) string {
	var xs []string
	for _, t := range ts {
		xs = append(xs, leanTok(t))
	}
	return "[" + strings.Join(xs, ",\n   ") + "]"
}

// portField maps `<portvar>.<Field>` to a piece kind.
func portField(name string) (string, bool) {
	switch name {
	case "PodName":
		return "podName", true
	case "HostPort":
		return "hostPort", true
	case "ContainerPort":
		return "containerPort", true
	case "PodIP":
		return "podIP", true
	case "HostIP":
		return "hostIP", true
	}
	return "", false
}

// tokOf translates one element of an args list / one writeLine word.
func (g *gen) tokOf(e ast.Expr, portVar string) (tok, error) {
	switch x := e.(type) {
	case *ast.BasicLit:
		if x.Kind == token.STRING {
			s, err := strconv.Unquote(x.Value)
			if err != nil {
				return nil, err
			}
			return tok{{"lit", s}}, nil
		}
	case *ast.Ident:
		if x.Name == "protocol" {
			return tok{{"proto", ""}}, nil
		}
	case *ast.SelectorExpr:
		if id, ok := x.X.(*ast.Ident); ok && id.Name == portVar {
			if k, ok := portField(x.Sel.Name); ok && (k == "podIP" || k == "hostIP" || k == "podName") {
				return tok{{k, ""}}, nil
			}
		}
	case *ast.CallExpr:
		fn := g.pm.Src(x.Fun)
		if fn == "string" && len(x.Args) == 1 {
			if id, ok := x.Args[0].(*ast.Ident); ok {
				if id.Name == "hostportChain" {
					return tok{{"chain", ""}}, nil
				}
				if v, ok := g.consts[id.Name]; ok {
					return tok{{"lit", v}}, nil
				}
			}
		}
		if fn == "fmt.Sprintf" && len(x.Args) >= 1 {
			bl, ok := x.Args[0].(*ast.BasicLit)
			if !ok || bl.Kind != token.STRING {
				break
			}
			f, err := strconv.Unquote(bl.Value)
			if err != nil {
				return nil, err
			}
			return g.sprintf(f, x.Args[1:], portVar)
		}
	}
	return nil, fmt.Errorf("%s: cannot translate rule word `%s`", srcPM, g.pm.Src(e))
}

// sprintf translates a format with %s / %d verbs only.
func (g *gen) sprintf(f string, args []ast.Expr, portVar string) (tok, error) {
	var out tok
	lit := ""
	ai := 0
	for i := 0; i < len(f); i++ {
		if f[i] != '%' {
			lit += string(f[i])
			continue
		}
		if i+1 >= len(f) {
			return nil, fmt.Errorf("dangling %% in format %q", f)
		}
		v := f[i+1]
		i++
		if v == '%' {
			lit += "%"
			continue
		}
		if v != 's' && v != 'd' {
			return nil, fmt.Errorf("format %q: verb %%%c not supported", f, v)
		}
		if ai >= len(args) {
			return nil, fmt.Errorf("format %q: missing argument", f)
		}
		sel, ok := args[ai].(*ast.SelectorExpr)
		ai++
		if !ok {
			return nil, fmt.Errorf("format %q: argument `%s` is not a port field", f, g.pm.Src(args[ai-1]))
		}
		id, ok := sel.X.(*ast.Ident)
		k, ok2 := portField(sel.Sel.Name)
		if !ok || !ok2 || id.Name != portVar {
			return nil, fmt.Errorf("format %q: argument `%s` is not a port field", f, g.pm.Src(sel))
		}
		isNum := k == "hostPort" || k == "containerPort"
		if (v == 'd') != isNum {
			return nil, fmt.Errorf("format %q: verb %%%c does not fit field %s", f, v, sel.Sel.Name)
		}
		if lit != "" {
			out = append(out, piece{"lit", lit})
			lit = ""
		}
		out = append(out, piece{k, ""})
	}
	if ai != len(args) {
		return nil, fmt.Errorf("format %q: %d surplus arguments", f, len(args)-ai)
	}
	if lit != "" {
		out = append(out, piece{"lit", lit})
	}
	return out, nil
}

func (g *gen) toks(es []ast.Expr, portVar string) ([]tok, error) {
	var out []tok
	for _, e := range es {
		t, err := g.tokOf(e, portVar)
		if err != nil {
			return nil, err
		}
		out = append(out, t)
	}
	return out, nil
}

// stringSliceLit returns the elements of `[]string{...}`.
func stringSliceLit(e ast.Expr) ([]ast.Expr, bool) {
	cl, ok := e.(*ast.CompositeLit)
	if !ok {
		return nil, false
	}
	at, ok := cl.Type.(*ast.ArrayType)
	if !ok || at.Len != nil {
		return nil, false
	}
	if id, ok := at.Elt.(*ast.Ident); !ok || id.Name != "string" {
		return nil, false
	}
	return cl.Elts, true
}

// assignArgsLit matches `args = []string{...}` or `args := []string{...}`.
func assignArgsLit(s ast.Stmt) ([]ast.Expr, bool) {
	as, ok := s.(*ast.AssignStmt)
	if !ok || len(as.Lhs) != 1 || len(as.Rhs) != 1 {
		return nil, false
	}
	if id, ok := as.Lhs[0].(*ast.Ident); !ok || id.Name != "args" {
		return nil, false
	}
	return stringSliceLit(as.Rhs[0])
}

// assignArgsAppend matches `args = append(args, w1, w2, ...)`.
func assignArgsAppend(s ast.Stmt) ([]ast.Expr, bool) {
	as, ok := s.(*ast.AssignStmt)
	if !ok || len(as.Lhs) != 1 || len(as.Rhs) != 1 || as.Tok != token.ASSIGN {
		return nil, false
	}
	if id, ok := as.Lhs[0].(*ast.Ident); !ok || id.Name != "args" {
		return nil, false
	}
	c, ok := as.Rhs[0].(*ast.CallExpr)
	if !ok || len(c.Args) < 2 {
		return nil, false
	}
	if id, ok := c.Fun.(*ast.Ident); !ok || id.Name != "append" {
		return nil, false
	}
	if id, ok := c.Args[0].(*ast.Ident); !ok || id.Name != "args" {
		return nil, false
	}
	return c.Args[1:], true
}

// ---- the individual extractions ---------------------------------------------------------------

// hostPortChainRules: five template fragments.
func (g *gen) hostPortChainRules() (headRestore, headCmd, mid, hostIP, jump []tok, err error) {
	fd, e := g.pm.Fn("", "hostPortChainRules")
	if e != nil {
		err = e
		return
	}
	bad := func(why string) error {
		return fmt.Errorf("%s: hostPortChainRules no longer has the expected shape (%s)", srcPM, why)
	}
	b := fd.Body.List
	if len(b) != 6 {
		err = bad(fmt.Sprintf("%d statements, want 6", len(b)))
		return
	}
	if fd.Type.Params.NumFields() != 4 {
		err = bad("parameter list")
		return
	}
	pv := fd.Type.Params.List[0].Names[0].Name
	if g.pm.Src(b[0]) != "var args []string" {
		err = bad("statement 1 is not `var args []string`")
		return
	}
	ifs, ok := b[1].(*ast.IfStmt)
	if !ok || g.pm.Src(ifs.Cond) != "iptablesRestore" || ifs.Else == nil || len(ifs.Body.List) != 1 {
		err = bad("statement 2 is not `if iptablesRestore {args = …} else {args = …}`")
		return
	}
	eb, ok := ifs.Else.(*ast.BlockStmt)
	if !ok || len(eb.List) != 1 {
		err = bad("else branch")
		return
	}
	e1, ok1 := assignArgsLit(ifs.Body.List[0])
	e2, ok2 := assignArgsLit(eb.List[0])
	if !ok1 || !ok2 {
		err = bad("branches do not assign a []string literal to args")
		return
	}
	if headRestore, err = g.toks(e1, pv); err != nil {
		return
	}
	if headCmd, err = g.toks(e2, pv); err != nil {
		return
	}
	e3, ok := assignArgsAppend(b[2])
	if !ok {
		err = bad("statement 3 is not `args = append(args, …)`")
		return
	}
	if mid, err = g.toks(e3, pv); err != nil {
		return
	}
	if2, ok := b[3].(*ast.IfStmt)
	if !ok || g.pm.Src(if2.Cond) != pv+`.HostIP != ""` || if2.Else != nil || len(if2.Body.List) != 1 {
		err = bad("statement 4 is not `if containerPort.HostIP != \"\" {args = append(…)}`")
		return
	}
	e4, ok := assignArgsAppend(if2.Body.List[0])
	if !ok {
		err = bad("host-ip branch")
		return
	}
	if hostIP, err = g.toks(e4, pv); err != nil {
		return
	}
	e5, ok := assignArgsAppend(b[4])
	if !ok {
		err = bad("statement 5 is not `args = append(args, \"-j\", …)`")
		return
	}
	if jump, err = g.toks(e5, pv); err != nil {
		return
	}
	if g.pm.Src(b[5]) != "return args" {
		err = bad("last statement is not `return args`")
	}
	return
}

// containerPortChainRules: two rules, each `args (:)= []string{…}; writeLine(natRules, args...)`.
func (g *gen) containerPortChainRules() (r1, r2 []tok, err error) {
	fd, e := g.pm.Fn("", "containerPortChainRules")
	if e != nil {
		return nil, nil, e
	}
	bad := func(why string) error {
		return fmt.Errorf("%s: containerPortChainRules no longer has the expected shape (%s)", srcPM, why)
	}
	b := fd.Body.List
	if len(b) != 4 {
		return nil, nil, bad(fmt.Sprintf("%d statements, want 4", len(b)))
	}
	pv := fd.Type.Params.List[0].Names[0].Name
	for i := 0; i < 2; i++ {
		es, ok := assignArgsLit(b[2*i])
		if !ok {
			return nil, nil, bad("args literal")
		}
		if g.pm.Src(b[2*i+1]) != "writeLine(natRules, args...)" {
			return nil, nil, bad("writeLine(natRules, args...) expected")
		}
		ts, err := g.toks(es, pv)
		if err != nil {
			return nil, nil, err
		}
		if i == 0 {
			r1 = ts
		} else {
			r2 = ts
		}
	}
	return
}

// writeKubeMarkRule: chain line of KUBE-MARK-MASQ + one literal rule.
func (g *gen) markRule() ([]tok, error) {
	fd, err := g.pm.Fn("", "writeKubeMarkRule")
	if err != nil {
		return nil, err
	}
	b := fd.Body.List
	if len(b) != 2 || g.pm.Src(b[0]) != "writeLine(natChains, utiliptables.MakeChainLine(KubeMarkMasqChain))" {
		return nil, fmt.Errorf("%s: writeKubeMarkRule no longer declares the KUBE-MARK-MASQ chain line first", srcPM)
	}
	es, ok := b[1].(*ast.ExprStmt)
	if !ok {
		return nil, fmt.Errorf("%s: writeKubeMarkRule: second statement is not a call", srcPM)
	}
	c, ok := es.X.(*ast.CallExpr)
	if !ok || g.pm.Src(c.Fun) != "writeLine" || len(c.Args) < 3 || g.pm.Src(c.Args[0]) != "natRules" {
		return nil, fmt.Errorf("%s: writeKubeMarkRule: second statement is not writeLine(natRules, …)", srcPM)
	}
	return g.toks(c.Args[1:], "")
}

// EnsureBasicRule: the jump-rule args and the (table, chain) list.
func (g *gen) basicRule() (args []tok, chains []string, err error) {
	fd, e := g.pm.Fn("PortMappingHandler", "EnsureBasicRule")
	if e != nil {
		return nil, nil, e
	}
	bad := func(why string) error {
		return fmt.Errorf("%s: EnsureBasicRule no longer has the expected shape (%s)", srcPM, why)
	}
	src := g.pm.Src(fd.Body)
	if !strings.Contains(src, "h.Interface.EnsureChain(utiliptables.TableNAT, kubeHostportsChain)") {
		return nil, nil, bad("EnsureChain(nat, KUBE-HOSTPORTS) missing")
	}
	if !strings.Contains(src, "h.Interface.EnsureRule(utiliptables.Append, tc.table, tc.chain, args...)") {
		return nil, nil, bad("EnsureRule(Append, tc.table, tc.chain, args...) missing")
	}
	for _, s := range fd.Body.List {
		as, ok := s.(*ast.AssignStmt)
		if !ok || len(as.Lhs) != 1 || len(as.Rhs) != 1 {
			continue
		}
		name := g.pm.Src(as.Lhs[0])
		if name == "args" && args == nil {
			es, ok := stringSliceLit(as.Rhs[0])
			if !ok {
				return nil, nil, bad("args literal")
			}
			if args, err = g.toks(es, ""); err != nil {
				return nil, nil, err
			}
		}
		if name == "tableChainsNeedJumpServices" {
			cl, ok := as.Rhs[0].(*ast.CompositeLit)
			if !ok {
				return nil, nil, bad("table/chain list")
			}
			for _, el := range cl.Elts {
				c2, ok := el.(*ast.CompositeLit)
				if !ok || len(c2.Elts) != 2 || g.pm.Src(c2.Elts[0]) != "utiliptables.TableNAT" {
					return nil, nil, bad("table/chain element")
				}
				sel, ok := c2.Elts[1].(*ast.SelectorExpr)
				if !ok {
					return nil, nil, bad("chain selector")
				}
				v, err := g.ipt.ConstString(sel.Sel.Name)
				if err != nil {
					return nil, nil, err
				}
				chains = append(chains, v)
			}
		}
	}
	if args == nil || len(chains) == 0 {
		return nil, nil, bad("args / chain list not found")
	}
	return
}

// hostportChainName: hash input fields, hash, encoding, truncation.
func (g *gen) hashShape() (fields []string, trunc int, err error) {
	fd, e := g.pm.Fn("", "hostportChainName")
	if e != nil {
		return nil, 0, e
	}
	bad := func(why string) error {
		return fmt.Errorf("%s: hostportChainName no longer has the expected shape (%s)", srcPM, why)
	}
	b := fd.Body.List
	if len(b) != 3 || fd.Type.Params.NumFields() != 2 {
		return nil, 0, bad("3 statements, 2 parameters expected")
	}
	pv := fd.Type.Params.List[0].Names[0].Name
	nameVar := fd.Type.Params.List[1].Names[0].Name
	as, ok := b[0].(*ast.AssignStmt)
	if !ok || len(as.Rhs) != 1 {
		return nil, 0, bad("hash assignment")
	}
	c, ok := as.Rhs[0].(*ast.CallExpr)
	if !ok || g.pm.Src(c.Fun) != "sha256.Sum256" || len(c.Args) != 1 {
		return nil, 0, bad("hash is not sha256.Sum256(…)")
	}
	conv, ok := c.Args[0].(*ast.CallExpr)
	if !ok || g.pm.Src(conv.Fun) != "[]byte" || len(conv.Args) != 1 {
		return nil, 0, bad("hash input is not []byte(…)")
	}
	var flat func(e ast.Expr) error
	flat = func(e ast.Expr) error {
		if be, ok := e.(*ast.BinaryExpr); ok && be.Op == token.ADD {
			if err := flat(be.X); err != nil {
				return err
			}
			return flat(be.Y)
		}
		s := g.pm.Src(e)
		switch s {
		case "strconv.Itoa(int(" + pv + ".HostPort))":
			fields = append(fields, "hostPort")
		case "strconv.Itoa(int(" + pv + ".ContainerPort))":
			fields = append(fields, "containerPort")
		case pv + ".Protocol":
			fields = append(fields, "protocol")
		case nameVar, pv + ".PodName":
			fields = append(fields, "podName")
		default:
			return bad("hash input operand `" + s + "`")
		}
		return nil
	}
	if err := flat(conv.Args[0]); err != nil {
		return nil, 0, err
	}
	if g.pm.Src(b[1]) != "encoded := base32.StdEncoding.EncodeToString(hash[:])" {
		return nil, 0, bad("encoding is not base32.StdEncoding of the whole hash")
	}
	ret := g.pm.Src(b[2])
	const pre = "return utiliptables.Chain(kubeHostportChainPrefix + encoded[:"
	if !strings.HasPrefix(ret, pre) || !strings.HasSuffix(ret, "])") {
		return nil, 0, bad("return is not Chain(prefix + encoded[:N])")
	}
	n, e2 := strconv.Atoi(ret[len(pre) : len(ret)-2])
	if e2 != nil {
		return nil, 0, bad("truncation length")
	}
	// every call site must pass the port's own PodName as the second argument
	calls := 0
	okCalls := true
	ast.Inspect(g.pm.File, func(x ast.Node) bool {
		if c, ok := x.(*ast.CallExpr); ok && g.pm.Src(c.Fun) == "hostportChainName" {
			calls++
			if len(c.Args) != 2 || g.pm.Src(c.Args[1]) != g.pm.Src(c.Args[0])+".PodName" {
				okCalls = false
			}
		}
		return true
	})
	if calls == 0 || !okCalls {
		return nil, 0, bad("a call site does not pass <port>.PodName as the pod name")
	}
	return fields, n, nil
}

// chain-line format of MakeChainLine.
func (g *gen) chainLine() (pre, suf string, err error) {
	fd, e := g.save.Fn("", "MakeChainLine")
	if e != nil {
		return "", "", e
	}
	src := g.save.Src(fd.Body)
	i := strings.Index(src, `fmt.Sprintf("`)
	if i < 0 {
		return "", "", fmt.Errorf("%s: MakeChainLine is not a single Sprintf", srcSave)
	}
	rest := src[i+len(`fmt.Sprintf(`):]
	j := strings.Index(rest[1:], `"`)
	f, e2 := strconv.Unquote(rest[:j+2])
	if e2 != nil {
		return "", "", e2
	}
	parts := strings.Split(f, "%s")
	if len(parts) != 2 || !strings.Contains(rest, ", chain)") {
		return "", "", fmt.Errorf("%s: MakeChainLine format %q is not <pre>%%s<suf> of the chain", srcSave, f)
	}
	return parts[0], parts[1], nil
}

// ---- shape facts of the three generators ----------------------------------------------------

type facts map[string]bool

func firstFor(fd *ast.FuncDecl) *ast.RangeStmt {
	for _, s := range fd.Body.List {
		if r, ok := s.(*ast.RangeStmt); ok {
			return r
		}
	}
	return nil
}

// rangeOver finds the top-level `for … := range <expr>` statement and its index.
func (g *gen) rangeOver(fd *ast.FuncDecl, expr string, nth int) (*ast.RangeStmt, int) {
	k := 0
	for i, s := range fd.Body.List {
		if r, ok := s.(*ast.RangeStmt); ok && g.pm.Src(r.X) == expr {
			if k == nth {
				return r, i
			}
			k++
		}
	}
	return nil, -1
}

func (g *gen) genFacts() (facts, error) {
	f := facts{}
	has := func(n ast.Node, sub string) bool { return n != nil && strings.Contains(g.pm.Src(n), sub) }
	const lower = "protocol := strings.ToLower(containerPort.Protocol)"
	const nameOf = "hostportChain := hostportChainName(containerPort, containerPort.PodName)"
	const declLine = "writeLine(natChains, utiliptables.MakeChainLine(hostportChain))"

	// --- SetupPortMapping
	fd, err := g.pm.Fn("PortMappingHandler", "SetupPortMapping")
	if err != nil {
		return nil, err
	}
	loop, li := g.rangeOver(fd, "ports", 0)
	if loop == nil {
		return nil, fmt.Errorf("%s: SetupPortMapping: loop over ports not found", srcPM)
	}
	markIdx := g.pm.StmtIndex(fd.Body, "writeKubeMarkRule(natChains, natRules)")
	restIdx := g.pm.StmtIndex(fd.Body, "h.RestoreAll(natLines, utiliptables.NoFlushTables, utiliptables.RestoreCounters)")
	ens, ei := g.rangeOver(fd, "kubeHostportsChainRules", 0)
	f["setupWritesMark"] = markIdx >= 0 && markIdx < li
	f["setupLowersProto"] = has(loop.Body, lower)
	f["setupNamesChain"] = has(loop.Body, nameOf)
	f["setupDeclaresChain"] = has(loop.Body, declLine)
	f["setupWritesHpRules"] = has(loop.Body, "containerPortChainRules(&containerPort, protocol, hostportChain, natRules)")
	f["setupCollectsJumpRules"] = has(loop.Body, "hostPortChainRules(&containerPort, protocol, hostportChain, false)")
	f["setupRestoreNoFlush"] = restIdx > li
	f["setupEnsuresJumpRulesAfterRestore"] = ens != nil && restIdx >= 0 && ei > restIdx &&
		has(ens.Body, "h.EnsureRule(utiliptables.Append, utiliptables.TableNAT, kubeHostportsChain, rule...)")
	f["setupChainsBeforeRules"] = has(fd.Body, "natLines := append(natChains.Bytes(), natRules.Bytes()...)")

	// --- CleanPortMapping
	fd, err = g.pm.Fn("PortMappingHandler", "CleanPortMapping")
	if err != nil {
		return nil, err
	}
	loop, li = g.rangeOver(fd, "ports", 0)
	if loop == nil {
		return nil, fmt.Errorf("%s: CleanPortMapping: loop over ports not found", srcPM)
	}
	del, di := g.rangeOver(fd, "kubeHostportsChainRules", 0)
	restIdx = g.pm.StmtIndex(fd.Body, "h.RestoreAll(natLines, utiliptables.NoFlushTables, utiliptables.RestoreCounters)")
	f["cleanWritesMark"] = has(fd.Body, "writeKubeMarkRule(")
	f["cleanLowersProto"] = has(loop.Body, lower)
	f["cleanNamesChain"] = has(loop.Body, nameOf)
	f["cleanDeclaresChain"] = has(loop.Body, declLine)
	f["cleanDeletesChain"] = has(loop.Body, `writeLine(natRules, "-X", string(hostportChain))`)
	f["cleanCollectsJumpRules"] = has(loop.Body, "hostPortChainRules(&containerPort, protocol, hostportChain, false)")
	f["cleanDeletesJumpRulesBeforeRestore"] = del != nil && di > li && restIdx > di &&
		has(del.Body, "h.DeleteRule(utiliptables.TableNAT, kubeHostportsChain, rule...)")
	f["cleanRestores"] = restIdx >= 0
	// since a5e6428: a second loop over the ports makes sure every chain exists before the DeleteRule loop
	ens2, e2i := g.rangeOver(fd, "ports", 1)
	f["cleanEnsuresChainsFirst"] = ens2 != nil && del != nil && e2i > li && e2i < di && has(ens2.Body, nameOf) &&
		has(ens2.Body, "h.EnsureChain(utiliptables.TableNAT, hostportChain)") && has(ens2.Body, "return err")
	f["cleanChainsBeforeRules"] = has(fd.Body, "natLines := append(natChains.Bytes(), natRules.Bytes()...)")

	// --- SetupPortMappingForAllPods
	fd, err = g.pm.Fn("PortMappingHandler", "SetupPortMappingForAllPods")
	if err != nil {
		return nil, err
	}
	loop, li = g.rangeOver(fd, "ports", 0)
	if loop == nil {
		return nil, fmt.Errorf("%s: SetupPortMappingForAllPods: loop over ports not found", srcPM)
	}
	stale, si := g.rangeOver(fd, "existingNATChains", 0)
	restIdx = g.pm.StmtIndex(fd.Body, "h.Interface.RestoreAll(natLines, utiliptables.NoFlushTables, utiliptables.RestoreCounters)")
	first := ""
	if len(fd.Body.List) > 0 {
		first = g.pm.Src(fd.Body.List[0])
	}
	f["syncEnsuresBasicFirst"] = strings.HasPrefix(first, "if err := h.EnsureBasicRule(); err != nil {") &&
		strings.Contains(first, "return err")
	f["syncReadsExisting"] = has(fd.Body, "existingNATChains = utiliptables.GetChainLines(utiliptables.TableNAT, iptablesSaveRaw.Bytes())") &&
		has(fd.Body, "h.Interface.SaveInto(utiliptables.TableNAT, iptablesSaveRaw)")
	markIdx = g.pm.StmtIndex(fd.Body, "writeKubeMarkRule(natChains, natRules)")
	f["syncWritesMark"] = markIdx >= 0 && markIdx < li
	hpDecl := g.pm.StmtIndex(fd.Body, "existingNATChains[kubeHostportsChain]")
	f["syncDeclaresHostports"] = hpDecl >= 0 && hpDecl < li &&
		has(fd.Body.List[hpDecl], "writeLine(natChains, chain)") &&
		has(fd.Body.List[hpDecl], "writeLine(natChains, utiliptables.MakeChainLine(kubeHostportsChain))")
	f["syncLowersProto"] = has(loop.Body, lower)
	f["syncNamesChain"] = has(loop.Body, nameOf)
	f["syncDeclaresChain"] = has(loop.Body, "existingNATChains[hostportChain]") && has(loop.Body, "writeLine(natChains, chain)") &&
		has(loop.Body, declLine)
	f["syncMarksActive"] = has(loop.Body, "activeNATChains[hostportChain] = true")
	f["syncWritesJumpRule"] = has(loop.Body, "writeLine(natRules, hostPortChainRules(&containerPort, protocol, hostportChain, true)...)")
	f["syncWritesHpRules"] = has(loop.Body, "containerPortChainRules(&containerPort, protocol, hostportChain, natRules)")
	f["syncStaleLoopAfterPorts"] = stale != nil && si > li && restIdx > si
	f["syncStaleSkipsActive"] = stale != nil && has(stale.Body, "if !activeNATChains[chain] {")
	f["syncStalePrefixGuard"] = stale != nil && has(stale.Body, "if !strings.HasPrefix(chainString, kubeHostportChainPrefix) {") &&
		has(stale.Body, "continue")
	f["syncStaleDeclares"] = stale != nil && has(stale.Body, "writeLine(natChains, existingNATChains[chain])")
	f["syncStaleDeletes"] = stale != nil && has(stale.Body, `writeLine(natRules, "-X", chainString)`)
	f["syncRestoreNoFlush"] = restIdx >= 0
	f["syncChainsBeforeRules"] = has(fd.Body, "natLines := append(natChains.Bytes(), natRules.Bytes()...)")
	_ = firstFor
	return f, nil
}

// ---- pkg/galaxy/server.go: the per-pod protocol around the port file ---------------------------------------

func serverFacts(repo string) (facts, error) {
	sp, err := fg.ParseFile(repo, srcSrv)
	if err != nil {
		return nil, err
	}
	f := facts{}
	has := func(n ast.Node, sub string) bool { return n != nil && strings.Contains(sp.Src(n), sub) }
	// setupPortMapping: OpenHostports, SavePort, SetupPortMapping as top-level statements
	fd, err := sp.Fn("Galaxy", "setupPortMapping")
	if err != nil {
		return nil, err
	}
	open := sp.StmtIndex(fd.Body, "g.pmhandler.OpenHostports(")
	save := sp.StmtIndex(fd.Body, "k8s.SavePort(containerID, data)")
	setup := sp.StmtIndex(fd.Body, "g.pmhandler.SetupPortMapping(req.Ports)")
	if open < 0 || save < 0 || setup < 0 {
		return nil, fmt.Errorf("%s: setupPortMapping no longer calls OpenHostports / k8s.SavePort(containerID, data) / SetupPortMapping(req.Ports) at top level", srcSrv)
	}
	f["portFileSavedBeforeSetup"] = save < setup && has(fd.Body.List[save], "return")
	f["hostportsOpenedBeforeSave"] = open < save
	// requestFunc: ADD failure runs cleanupPortMapping; DEL runs it after CmdDel succeeded
	fd, err = sp.Fn("Galaxy", "requestFunc")
	if err != nil {
		return nil, err
	}
	addCleans, delCleans := false, false
	ast.Inspect(fd.Body, func(n ast.Node) bool {
		b, ok := n.(*ast.BlockStmt)
		if !ok {
			return true
		}
		for i := 0; i+1 < len(b.List); i++ {
			ifs, ok := b.List[i+1].(*ast.IfStmt)
			if !ok {
				continue
			}
			first := sp.Src(b.List[i])
			if strings.HasPrefix(first, "err = g.setupPortMapping(req, req.ContainerID,") && sp.Src(ifs.Cond) == "err != nil" &&
				len(ifs.Body.List) > 0 && sp.Src(ifs.Body.List[0]) == "g.cleanupPortMapping(req)" {
				addCleans = true
			}
			if strings.HasPrefix(first, "err = cniutil.CmdDel(") && sp.Src(ifs.Cond) == "err == nil" &&
				len(ifs.Body.List) == 1 && sp.Src(ifs.Body.List[0]) == "err = g.cleanupPortMapping(req)" {
				delCleans = true
			}
		}
		return true
	})
	f["addFailureRunsCleanup"] = addCleans
	f["delRunsCleanup"] = delCleans
	fd, err = sp.Fn("Galaxy", "cleanupPortMapping")
	if err != nil {
		return nil, err
	}
	f["cleanupClosesHostports"] = len(fd.Body.List) == 2 && has(fd.Body.List[0], "g.pmhandler.CloseHostports(") &&
		sp.Src(fd.Body.List[1]) == "return g.cleanIPtables(req.ContainerID)"
	fd, err = sp.Fn("Galaxy", "cleanIPtables")
	if err != nil {
		return nil, err
	}
	cons := sp.StmtIndex(fd.Body, "k8s.ConsumePort(containerID)")
	if cons < 0 {
		return nil, fmt.Errorf("%s: cleanIPtables no longer reads the port file with k8s.ConsumePort(containerID)", srcSrv)
	}
	f["cleanupMissingFileIsNoop"] = cons+1 < len(fd.Body.List) && has(fd.Body.List[cons+1], "os.IsNotExist(err)") &&
		has(fd.Body.List[cons+1], "return nil")
	var guard *ast.IfStmt
	for _, st := range fd.Body.List {
		if ifs, ok := st.(*ast.IfStmt); ok && sp.Src(ifs.Cond) == "len(ports) != 0" {
			guard = ifs
		}
	}
	f["cleanupSkipsEmptyRecord"] = guard != nil
	if guard != nil {
		c := sp.StmtIndex(guard.Body, "g.pmhandler.CleanPortMapping(ports)")
		r := sp.StmtIndex(guard.Body, "k8s.RemovePortFile(containerID)")
		f["cleanupRemovesFileAfterClean"] = c >= 0 && r > c && has(guard.Body.List[c], "return err")
	} else {
		f["cleanupRemovesFileAfterClean"] = false
	}
	return f, nil
}

// ---- main -------------------------------------------------------------------------------------

func generate(repo string) (map[string]string, error) {
	g := &gen{consts: map[string]string{}}
	var err error
	if g.pm, err = fg.ParseFile(repo, srcPM); err != nil {
		return nil, err
	}
	if g.ipt, err = fg.ParseFile(repo, srcIPT); err != nil {
		return nil, err
	}
	if g.save, err = fg.ParseFile(repo, srcSave); err != nil {
		return nil, err
	}
	for _, n := range []string{"kubeHostportsChain", "kubeHostportChainPrefix", "KubeMarkMasqChain"} {
		v, err := g.pm.ConstString(n)
		if err != nil {
			return nil, err
		}
		g.consts[n] = v
	}
	var builtins []string
	for _, n := range []string{"ChainPrerouting", "ChainInput", "ChainForward", "ChainOutput", "ChainPostrouting"} {
		v, err := g.ipt.ConstString(n)
		if err != nil {
			return nil, err
		}
		builtins = append(builtins, v)
	}
	natTable, err := g.ipt.ConstString("TableNAT")
	if err != nil {
		return nil, err
	}
	headRestore, headCmd, mid, hostIP, jump, err := g.hostPortChainRules()
	if err != nil {
		return nil, err
	}
	r1, r2, err := g.containerPortChainRules()
	if err != nil {
		return nil, err
	}
	mark, err := g.markRule()
	if err != nil {
		return nil, err
	}
	basicArgs, basicChains, err := g.basicRule()
	if err != nil {
		return nil, err
	}
	fields, trunc, err := g.hashShape()
	if err != nil {
		return nil, err
	}
	pre, suf, err := g.chainLine()
	if err != nil {
		return nil, err
	}
	fs, err := g.genFacts()
	if err != nil {
		return nil, err
	}
	sf, err := serverFacts(repo)
	if err != nil {
		return nil, err
	}
	for k, v := range sf {
		fs[k] = v
	}
	// the mark value is the last word of the mark rule (a literal)
	last := mark[len(mark)-1]
	if len(last) != 1 || last[0].kind != "lit" {
		return nil, fmt.Errorf("%s: mark rule does not end in a literal mark value", srcPM)
	}

	var b strings.Builder
	b.WriteString(fg.Header("port-mapping constants, hash-input shape, rule templates and generator shape facts (M6 / C14)",
		srcPM, srcIPT, srcSave, srcSrv))
	b.WriteString("namespace Galaxy.Generated.Netfilter\n\n")
	b.WriteString("/-- one piece of a generated rule word: a literal or a field of the port being mapped -/\n")
	b.WriteString("inductive Piece where\n  | lit (s : String)\n  | podName | hostPort | containerPort | podIP | hostIP\n  | proto   -- strings.ToLower(port.Protocol)\n  | chain   -- hostportChainName(port, port.PodName)\n  deriving DecidableEq, Repr\n\n")
	b.WriteString("/-- one word (argv element) = concatenation of pieces -/\nabbrev Tok := List Piece\n\n")
	b.WriteString("inductive HashField where\n  | hostPort | protocol | containerPort | podName\n  deriving DecidableEq, Repr\n\n")
	fmt.Fprintf(&b, "def natTable : String := %s\n", fg.LeanStr(natTable))
	fmt.Fprintf(&b, "def hostportsChain : String := %s\n", fg.LeanStr(g.consts["kubeHostportsChain"]))
	fmt.Fprintf(&b, "def hostportChainPrefix : String := %s\n", fg.LeanStr(g.consts["kubeHostportChainPrefix"]))
	fmt.Fprintf(&b, "def markMasqChain : String := %s\n", fg.LeanStr(g.consts["KubeMarkMasqChain"]))
	fmt.Fprintf(&b, "def markValue : String := %s\n", fg.LeanStr(last[0].s))
	var bs []string
	for _, x := range builtins {
		bs = append(bs, fg.LeanStr(x))
	}
	fmt.Fprintf(&b, "def builtinChains : List String := [%s]\n", strings.Join(bs, ", "))
	fmt.Fprintf(&b, "def chainLinePre : String := %s\ndef chainLineSuf : String := %s\n\n", fg.LeanStr(pre), fg.LeanStr(suf))
	b.WriteString("-- hostportChainName: prefix ++ take hashTrunc (base32.StdEncoding (sha256 (concat hashInput)))\n")
	var hf []string
	for _, x := range fields {
		hf = append(hf, "HashField."+x)
	}
	fmt.Fprintf(&b, "def hashInput : List HashField := [%s]\n", strings.Join(hf, ", "))
	fmt.Fprintf(&b, "def hashFunction : String := \"sha256\"\ndef hashEncoding : String := \"base32.StdEncoding\"\ndef hashTrunc : Nat := %d\n\n", trunc)
	b.WriteString("-- hostPortChainRules(port, protocol, chain, iptablesRestore)\n")
	fmt.Fprintf(&b, "def jumpHeadRestore : List Tok :=\n  %s\n", leanToks(headRestore))
	fmt.Fprintf(&b, "def jumpHeadCmd : List Tok :=\n  %s\n", leanToks(headCmd))
	fmt.Fprintf(&b, "def jumpMid : List Tok :=\n  %s\n", leanToks(mid))
	fmt.Fprintf(&b, "def jumpHostIP : List Tok :=\n  %s\n", leanToks(hostIP))
	fmt.Fprintf(&b, "def jumpTail : List Tok :=\n  %s\n\n", leanToks(jump))
	b.WriteString("-- containerPortChainRules(port, protocol, chain, natRules): two lines\n")
	fmt.Fprintf(&b, "def hpMasqLine : List Tok :=\n  %s\n", leanToks(r1))
	fmt.Fprintf(&b, "def hpDnatLine : List Tok :=\n  %s\n\n", leanToks(r2))
	b.WriteString("-- writeKubeMarkRule\n")
	fmt.Fprintf(&b, "def markLine : List Tok :=\n  %s\n\n", leanToks(mark))
	b.WriteString("-- EnsureBasicRule\n")
	fmt.Fprintf(&b, "def basicRuleArgs : List Tok :=\n  %s\n", leanToks(basicArgs))
	var bc []string
	for _, x := range basicChains {
		bc = append(bc, fg.LeanStr(x))
	}
	fmt.Fprintf(&b, "def basicRuleChains : List String := [%s]\n\n", strings.Join(bc, ", "))
	b.WriteString("-- shape facts of SetupPortMapping / CleanPortMapping / SetupPortMappingForAllPods and of the per-pod\n-- protocol of pkg/galaxy/server.go (setupPortMapping / cleanupPortMapping / cleanIPtables / requestFunc)\n")
	keys := make([]string, 0, len(fs))
	for k := range fs {
		keys = append(keys, k)
	}
	sort.Strings(keys)
	for _, k := range keys {
		fmt.Fprintf(&b, "def %s : Bool := %s\n", k, fg.LeanBool(fs[k]))
	}
	b.WriteString("\nend Galaxy.Generated.Netfilter\n")
	return map[string]string{"Netfilter.lean": b.String()}, nil
}

func main() { fg.Run("netfilter", generate) }
