// factgen translator "total" (property C18, model M10): regenerates lean/Galaxy/Generated/Total.lean from the
// CURRENT text of the functions whose "returns for every input, never panics" theorems live in Props/C18.lean:
//
//	pkg/ipam/floatingip/ipam_crd.go        walkIPRanges loop shape (counter width, comparison, increment);
//	                                       ConfigurePool (nil pool guard)
//	pkg/utils/page/page.go                 ParsePage / ParseSize clamps, paginationResult / pagin arithmetic, min
//	pkg/ipam/api/api.go                    ListIPs: what is sliced with the pagination result
//	pkg/api/galaxy/constant/constant.go    PolicyStr table, ReleasePolicy constants, ConvertReleasePolicy table
//	pkg/ipam/schedulerplugin/*.go          parseReleasePolicy returns, parsePodIndex, ensureIPAMConf, Init
//	pkg/ipam/schedulerplugin/util/utils.go ParseKey / resolvePodKey guards, separators, indexes
//	pkg/utils/nets/ip.go                   IPNet/IPRange.UnmarshalJSON length guard and slice expression
//	pkg/utils/iptables/save_restore.go     GetChainLines chain-line branch
//	pkg/api/cniutil/cni.go                 CmdDel loop, CmdAdd rollback call
//	pkg/api/k8s/k8s.go, pkg/galaxy/server.go   nil element rejected / dereferenced
//	pkg/ipam/floatingip/floatingip.go      FloatingIPPool.UnmarshalJSON nil guards
//	pkg/policy/policy.go                   SyncPodIPInIPSet / syncIngressInIPSet / syncEgressInIPSet guards
//
// Syntactic only (go/ast, stdlib).  A missing function or a shape the translator does not know is a loud failure
// (non-zero exit); a guard that is merely GONE is emitted as `false` / `none` / `0`, so that the Lean proof is what
// breaks.
package main

import (
	"fmt"
	"go/ast"
	"go/token"
	"os"
	"path/filepath"
	"sort"
	"strconv"
	"strings"

	"factgen/fg"
)

type out struct{ b strings.Builder }

func (o *out) def(doc, sig, body string) {
	fmt.Fprintf(&o.b, "/-- %s -/\ndef %s :=\n  %s\n\n", strings.ReplaceAll(doc, "-/", "- /"), sig, body)
}

func norm(s string) string { return strings.Join(strings.Fields(s), " ") }

func strLit(e ast.Expr) (string, bool) {
	bl, ok := e.(*ast.BasicLit)
	if !ok || bl.Kind != token.STRING {
		return "", false
	}
	s, err := strconv.Unquote(bl.Value)
	return s, err == nil
}

func intLit(e ast.Expr) (int64, bool) {
	neg := false
	if u, ok := e.(*ast.UnaryExpr); ok && u.Op == token.SUB {
		neg, e = true, u.X
	}
	if pe, ok := e.(*ast.ParenExpr); ok {
		e = pe.X
	}
	bl, ok := e.(*ast.BasicLit)
	if !ok || bl.Kind != token.INT {
		return 0, false
	}
	v, err := strconv.ParseInt(bl.Value, 0, 64)
	if err != nil {
		return 0, false
	}
	if neg {
		v = -v
	}
	return v, true
}

func unparen(e ast.Expr) ast.Expr {
	for {
		pe, ok := e.(*ast.ParenExpr)
		if !ok {
			return e
		}
		e = pe.X
	}
}

func leanStrList(l []string) string {
	q := make([]string, len(l))
	for i, s := range l {
		q[i] = fg.LeanStr(s)
	}
	return "[" + strings.Join(q, ", ") + "]"
}

func leanOptNat(v int64, present bool) string {
	if !present {
		return "none"
	}
	return fmt.Sprintf("some %d", v)
}

// flatten splits e on the binary operator op (through parentheses) and returns the normalised text of each piece.
func flatten(p *fg.Parsed, e ast.Expr, op token.Token) []string {
	e = unparen(e)
	if b, ok := e.(*ast.BinaryExpr); ok && b.Op == op {
		return append(flatten(p, b.X, op), flatten(p, b.Y, op)...)
	}
	return []string{norm(p.Src(e))}
}

func has(l []string, s string) bool {
	for _, x := range l {
		if x == s {
			return true
		}
	}
	return false
}

// terminates: the block ends with return / continue / break / panic(...).
func terminates(p *fg.Parsed, b *ast.BlockStmt) bool {
	if b == nil || len(b.List) == 0 {
		return false
	}
	switch s := b.List[len(b.List)-1].(type) {
	case *ast.ReturnStmt:
		return true
	case *ast.BranchStmt:
		return s.Tok == token.CONTINUE || s.Tok == token.BREAK
	case *ast.ExprStmt:
		if c, ok := s.X.(*ast.CallExpr); ok && p.Src(c.Fun) == "panic" {
			return true
		}
	}
	return false
}

// walkStack calls f(node, ancestors) for every node below root (ancestors: root first, parent last).
func walkStack(root ast.Node, f func(n ast.Node, stack []ast.Node)) {
	var stack []ast.Node
	ast.Inspect(root, func(n ast.Node) bool {
		if n == nil {
			stack = stack[:len(stack)-1]
			return true
		}
		f(n, stack)
		stack = append(stack, n)
		return true
	})
}

func within(n ast.Node, b ast.Node) bool { return b != nil && n.Pos() >= b.Pos() && n.End() <= b.End() }

// protected reports whether the node `site` (with its ancestor stack) can only be evaluated when none of the
// `bad` conditions holds / all of the `good` conditions hold:
//
//	(a) an ancestor `if c1 && c2 … { …site… }` has some good condition among its conjuncts (site in the Body), or
//	(b) an ancestor `l1 || l2 || … ` has a bad condition among the disjuncts LEFT of the operand holding the site, or
//	    an ancestor `l1 && l2 …` has a good condition among the conjuncts left of the operand holding the site, or
//	(c) in an enclosing block an EARLIER statement is `if b1 || b2 … { …; return/continue/break/panic }` (no else)
//	    with a bad condition among its disjuncts.
func protected(p *fg.Parsed, site ast.Node, stack []ast.Node, good, bad []string) bool {
	anyIn := func(pieces, want []string) bool {
		for _, w := range want {
			if has(pieces, w) {
				return true
			}
		}
		return false
	}
	for k, a := range stack {
		switch n := a.(type) {
		case *ast.IfStmt:
			if within(site, n.Body) && anyIn(flatten(p, n.Cond, token.LAND), good) {
				return true
			}
		case *ast.BinaryExpr:
			if (n.Op == token.LOR || n.Op == token.LAND) && within(site, n.Y) {
				if n.Op == token.LOR && anyIn(flatten(p, n.X, token.LOR), bad) {
					return true
				}
				if n.Op == token.LAND && anyIn(flatten(p, n.X, token.LAND), good) {
					return true
				}
			}
		case *ast.BlockStmt:
			var child ast.Node = site
			if k+1 < len(stack) {
				child = stack[k+1]
			}
			for _, s := range n.List {
				if s == child || s.Pos() >= child.Pos() {
					break
				}
				if is, ok := s.(*ast.IfStmt); ok && is.Else == nil && is.Init == nil && terminates(p, is.Body) &&
					anyIn(flatten(p, is.Cond, token.LOR), bad) {
					return true
				}
			}
		}
	}
	return false
}

// derefGuard finds every selector / index / star expression in body whose operand prints as ptr (a nil-able
// pointer) and reports (number of such dereference sites, all of them protected by a nil check on ptr).
func derefGuard(p *fg.Parsed, body ast.Node, ptr string) (int, bool) {
	sites, all := 0, true
	walkStack(body, func(n ast.Node, stack []ast.Node) {
		var x ast.Expr
		switch e := n.(type) {
		case *ast.SelectorExpr:
			x = e.X
		case *ast.IndexExpr:
			x = e.X
		case *ast.StarExpr:
			x = e.X
		default:
			return
		}
		if norm(p.Src(x)) != ptr {
			return
		}
		sites++
		if !protected(p, n, stack, []string{ptr + " != nil", "nil != " + ptr}, []string{ptr + " == nil", "nil == " + ptr}) {
			all = false
		}
	})
	return sites, all
}

// indexGuard finds every `slice[idx]` in body and reports (number of sites, all protected by `idx >= len(slice)`
// leading to continue/return, or by `idx < len(slice)` as an enclosing condition).
func indexGuard(p *fg.Parsed, body ast.Node, slice, idx string) (int, bool) {
	sites, all := 0, true
	l := "len(" + slice + ")"
	good := []string{idx + " < " + l, l + " > " + idx}
	bad := []string{idx + " >= " + l, l + " <= " + idx}
	walkStack(body, func(n ast.Node, stack []ast.Node) {
		e, ok := n.(*ast.IndexExpr)
		if !ok || norm(p.Src(e.X)) != slice || norm(p.Src(e.Index)) != idx {
			return
		}
		sites++
		if !protected(p, n, stack, good, bad) {
			all = false
		}
	})
	return sites, all
}

// nilElemRejected: fn contains, before position `before` (0 = anywhere), a `for i := range slice` (or `for _, v :=
// range slice`) whose body has `if slice[i] == nil { …; return …, <non-nil error> }` (or `v == nil`).
func nilElemRejected(p *fg.Parsed, fn *ast.FuncDecl, slice string, before token.Pos) bool {
	found := false
	ast.Inspect(fn.Body, func(n ast.Node) bool {
		rs, ok := n.(*ast.RangeStmt)
		if !ok || norm(p.Src(rs.X)) != slice || (before != 0 && rs.Pos() >= before) {
			return true
		}
		var elems []string
		if rs.Key != nil && p.Src(rs.Key) != "_" {
			elems = append(elems, slice+"["+p.Src(rs.Key)+"] == nil")
		}
		if rs.Value != nil && p.Src(rs.Value) != "_" {
			elems = append(elems, p.Src(rs.Value)+" == nil")
		}
		for _, s := range rs.Body.List {
			is, ok := s.(*ast.IfStmt)
			if !ok || is.Init != nil || len(is.Body.List) == 0 {
				continue
			}
			hit := false
			for _, d := range flatten(p, is.Cond, token.LOR) {
				if has(elems, d) {
					hit = true
				}
			}
			ret, ok := is.Body.List[len(is.Body.List)-1].(*ast.ReturnStmt)
			if hit && ok && len(ret.Results) > 0 && p.Src(ret.Results[len(ret.Results)-1]) != "nil" {
				found = true
			}
		}
		return true
	})
	return found
}

// firstCall returns the first call below n whose printed callee equals name.
func firstCall(p *fg.Parsed, n ast.Node, name string) *ast.CallExpr {
	var out *ast.CallExpr
	ast.Inspect(n, func(x ast.Node) bool {
		if c, ok := x.(*ast.CallExpr); ok && out == nil && p.Src(c.Fun) == name {
			out = c
		}
		return out == nil
	})
	return out
}

// goFiles lists the non-test, non-vendor, non-verif-hook Go files below repo (relative paths, sorted).
func goFiles(repo string) ([]string, error) {
	var files []string
	err := filepath.Walk(repo, func(path string, info os.FileInfo, err error) error {
		if err != nil {
			return err
		}
		name := info.Name()
		if info.IsDir() {
			if name == "vendor" || name == "testdata" || (strings.HasPrefix(name, ".") && path != repo) || name == "_output" {
				return filepath.SkipDir
			}
			return nil
		}
		if strings.HasSuffix(name, ".go") && !strings.HasSuffix(name, "_test.go") && !strings.HasPrefix(name, "verif_hooks") {
			rel, _ := filepath.Rel(repo, path)
			files = append(files, rel)
		}
		return nil
	})
	sort.Strings(files)
	return files, err
}

// ---------------------------------------------------------------- 1. walkIPRanges

var intBits = map[string]int{"uint64": 64, "uint": 64, "uint32": 32, "uint16": 16, "uint8": 8, "int64": 63, "int": 63, "int32": 31}

func genWalk(repo string, o *out) error {
	p, err := fg.ParseFile(repo, "pkg/ipam/floatingip/ipam_crd.go")
	if err != nil {
		return err
	}
	fd, err := p.Fn("", "walkIPRanges")
	if err != nil {
		return err
	}
	var loops []*ast.ForStmt
	ast.Inspect(fd.Body, func(n ast.Node) bool {
		if f, ok := n.(*ast.ForStmt); ok {
			loops = append(loops, f)
		}
		return true
	})
	if len(loops) != 1 {
		return fmt.Errorf("walkIPRanges: expected exactly one `for init; cond; post` loop, found %d", len(loops))
	}
	fs := loops[0]
	cond, ok := fs.Cond.(*ast.BinaryExpr)
	if !ok {
		return fmt.Errorf("walkIPRanges: loop condition `%s` is not a comparison", p.Src(fs.Cond))
	}
	ctr, okc := cond.X.(*ast.Ident)
	lim, okl := cond.Y.(*ast.Ident)
	if !okc || !okl {
		return fmt.Errorf("walkIPRanges: loop condition `%s` is not `<counter> <op> <limit>`", p.Src(fs.Cond))
	}
	switch cond.Op {
	case token.LEQ, token.LSS, token.NEQ:
	default:
		return fmt.Errorf("walkIPRanges: comparison %s not handled", cond.Op)
	}
	incr := ""
	switch s := fs.Post.(type) {
	case *ast.IncDecStmt:
		if p.Src(s.X) == ctr.Name && s.Tok == token.INC {
			incr = "++"
		}
	case *ast.AssignStmt:
		if len(s.Lhs) == 1 && p.Src(s.Lhs[0]) == ctr.Name && s.Tok == token.ADD_ASSIGN && p.Src(s.Rhs[0]) == "1" {
			incr = "++"
		}
	}
	if incr == "" {
		return fmt.Errorf("walkIPRanges: loop post statement `%s` is not `%s++`", p.Src(fs.Post), ctr.Name)
	}
	// the counter and the limit are defined by `x := T(nets.IPToInt(..))` or `x := nets.IPToInt(..)` (uint32)
	width := func(name string) (int, string, error) {
		var rhs ast.Expr
		ast.Inspect(fd.Body, func(n ast.Node) bool {
			if as, ok := n.(*ast.AssignStmt); ok && as.Tok == token.DEFINE && len(as.Lhs) == 1 && len(as.Rhs) == 1 &&
				p.Src(as.Lhs[0]) == name {
				rhs = as.Rhs[0]
			}
			return true
		})
		if fs.Init != nil {
			return 0, "", fmt.Errorf("walkIPRanges: loop has an init statement `%s`", p.Src(fs.Init))
		}
		c, ok := rhs.(*ast.CallExpr)
		if !ok {
			return 0, "", fmt.Errorf("walkIPRanges: no `%s := <conversion>(…)` definition found", name)
		}
		callee := p.Src(c.Fun)
		if strings.HasSuffix(callee, "IPToInt") {
			return 32, "uint32", nil
		}
		if b, ok := intBits[callee]; ok && len(c.Args) == 1 && strings.Contains(p.Src(c.Args[0]), "IPToInt(") {
			return b, callee, nil
		}
		return 0, "", fmt.Errorf("walkIPRanges: `%s := %s` is not a conversion of nets.IPToInt(…)", name, p.Src(rhs))
	}
	cb, ct, err := width(ctr.Name)
	if err != nil {
		return err
	}
	lb, _, err := width(lim.Name)
	if err != nil {
		return err
	}
	if cb != lb {
		return fmt.Errorf("walkIPRanges: counter (%d bits) and limit (%d bits) have different types", cb, lb)
	}
	o.def("`walkIPRanges`: number of value bits of the loop counter `"+ctr.Name+"` (type `"+ct+"`); the counter wraps modulo 2^bits",
		"walkCounterBits : Nat", strconv.Itoa(cb))
	o.def("`walkIPRanges`: comparison of the loop condition `"+p.Src(fs.Cond)+"`", "walkCmpOp : String", fg.LeanStr(cond.Op.String()))
	o.def("`walkIPRanges`: post statement `"+p.Src(fs.Post)+"`", "walkIncr : String", fg.LeanStr(incr))
	return nil
}

// ---------------------------------------------------------------- 2. pagination

// intExpr translates an int expression over the named parameters to a Lean `Int` term.
func intExpr(p *fg.Parsed, e ast.Expr, params map[string]string, fn string) (string, error) {
	switch n := unparen(e).(type) {
	case *ast.Ident:
		if l, ok := params[n.Name]; ok {
			return l, nil
		}
		if v, err := p.ConstInt(n.Name); err == nil {
			return fmt.Sprintf("(%d : Int)", v), nil
		}
		return "", fmt.Errorf("%s: identifier %s is neither a parameter nor an integer constant", fn, n.Name)
	case *ast.BasicLit:
		if v, ok := intLit(n); ok {
			return fmt.Sprintf("(%d : Int)", v), nil
		}
	case *ast.UnaryExpr:
		if v, ok := intLit(n); ok {
			return fmt.Sprintf("(%d : Int)", v), nil
		}
	case *ast.BinaryExpr:
		x, err := intExpr(p, n.X, params, fn)
		if err != nil {
			return "", err
		}
		y, err := intExpr(p, n.Y, params, fn)
		if err != nil {
			return "", err
		}
		switch n.Op {
		case token.ADD:
			return "(" + x + " + " + y + ")", nil
		case token.SUB:
			return "(" + x + " - " + y + ")", nil
		case token.MUL:
			return "(" + x + " * " + y + ")", nil
		}
		return "", fmt.Errorf("%s: operator %s in `%s` not handled (division only at the top of a Page field)", fn, n.Op, p.Src(e))
	case *ast.CallExpr:
		if p.Src(n.Fun) == "min" && len(n.Args) == 2 {
			x, err := intExpr(p, n.Args[0], params, fn)
			if err != nil {
				return "", err
			}
			y, err := intExpr(p, n.Args[1], params, fn)
			if err != nil {
				return "", err
			}
			// func min(a, b int) int { if a < b { return a }; return b }
			return "(if " + x + " < " + y + " then " + x + " else " + y + ")", nil
		}
	}
	return "", fmt.Errorf("%s: expression `%s` not handled", fn, p.Src(e))
}

func cmpExpr(p *fg.Parsed, e ast.Expr, params map[string]string, fn string) (string, error) {
	b, ok := unparen(e).(*ast.BinaryExpr)
	if !ok {
		return "", fmt.Errorf("%s: `%s` is not a comparison", fn, p.Src(e))
	}
	ops := map[token.Token]string{token.LSS: "<", token.LEQ: "≤", token.GTR: ">", token.GEQ: "≥", token.EQL: "=", token.NEQ: "≠"}
	op, ok := ops[b.Op]
	if !ok {
		return "", fmt.Errorf("%s: `%s` is not a comparison", fn, p.Src(e))
	}
	x, err := intExpr(p, b.X, params, fn)
	if err != nil {
		return "", err
	}
	y, err := intExpr(p, b.Y, params, fn)
	if err != nil {
		return "", err
	}
	return "decide (" + x + " " + op + " " + y + ")", nil
}

// genClamp translates ParsePage / ParseSize:
//
//	var ( v = <init>; err error ); if s != "" { v, err = strconv.Atoi(s); if err != nil || <reject> { v = <rv> } else if <over> { v = <cap> } }; return v
func genClamp(p *fg.Parsed, o *out, fn, v, lean string) error {
	fd, err := p.Fn("", fn)
	if err != nil {
		return err
	}
	bad := func(what string) error {
		return fmt.Errorf("%s: %s; expected `var (%s = <init>; err error); if s != \"\" { %s, err = strconv.Atoi(s); if err != nil || <reject> { %s = <value> } else if <over> { %s = <cap> } }; return %s`", fn, what, v, v, v, v, v)
	}
	if len(fd.Body.List) != 3 || len(fd.Type.Params.List) != 1 || len(fd.Type.Params.List[0].Names) != 1 {
		return bad("body is not three statements")
	}
	sName := fd.Type.Params.List[0].Names[0].Name
	params := map[string]string{v: "v"}
	ds, ok := fd.Body.List[0].(*ast.DeclStmt)
	var initE ast.Expr
	if ok {
		for _, s := range ds.Decl.(*ast.GenDecl).Specs {
			vs := s.(*ast.ValueSpec)
			for i, n := range vs.Names {
				if n.Name == v && i < len(vs.Values) {
					initE = vs.Values[i]
				}
			}
		}
	}
	if initE == nil {
		return bad("no initial value of " + v)
	}
	initL, err := intExpr(p, initE, map[string]string{}, fn)
	if err != nil {
		return err
	}
	outer, ok := fd.Body.List[1].(*ast.IfStmt)
	if !ok || norm(p.Src(outer.Cond)) != sName+` != ""` || outer.Else != nil || len(outer.Body.List) != 2 {
		return bad("second statement is not `if " + sName + ` != "" { … }` + "`")
	}
	if norm(p.Src(outer.Body.List[0])) != v+", err = strconv.Atoi("+sName+")" {
		return bad("no `" + v + ", err = strconv.Atoi(" + sName + ")`")
	}
	inner, ok := outer.Body.List[1].(*ast.IfStmt)
	if !ok {
		return bad("no clamp `if`")
	}
	assigned := func(b *ast.BlockStmt) (string, error) {
		if len(b.List) != 1 {
			return "", bad("clamp branch is not a single assignment")
		}
		as, ok := b.List[0].(*ast.AssignStmt)
		if !ok || as.Tok != token.ASSIGN || len(as.Lhs) != 1 || p.Src(as.Lhs[0]) != v {
			return "", bad("clamp branch is not `" + v + " = …`")
		}
		return intExpr(p, as.Rhs[0], map[string]string{}, fn)
	}
	disj := flatten(p, inner.Cond, token.LOR)
	if !has(disj, "err != nil") {
		return bad("the Atoi error is not checked first")
	}
	reject := "false"
	if be, ok := unparen(inner.Cond).(*ast.BinaryExpr); ok && be.Op == token.LOR {
		if norm(p.Src(be.X)) != "err != nil" {
			return bad("condition is not `err != nil || <reject>`")
		}
		if reject, err = cmpExpr(p, be.Y, params, fn); err != nil {
			return err
		}
	}
	rv, err := assigned(inner.Body)
	if err != nil {
		return err
	}
	over, capV := "false", "(0 : Int)"
	if inner.Else != nil {
		ei, ok := inner.Else.(*ast.IfStmt)
		if !ok || ei.Else != nil {
			return bad("else branch is not a single `else if`")
		}
		if over, err = cmpExpr(p, ei.Cond, params, fn); err != nil {
			return err
		}
		if capV, err = assigned(ei.Body); err != nil {
			return err
		}
	}
	if norm(p.Src(fd.Body.List[2])) != "return "+v {
		return bad("does not return " + v)
	}
	o.def("`"+fn+"`: value for the empty string (`"+v+" = "+p.Src(initE)+"`)", lean+"Default : Int", initL)
	o.def("`"+fn+"`: a parsed value is rejected when (`"+norm(p.Src(inner.Cond))+"`, the error part is the `bad` query class)",
		lean+"Reject (v : Int) : Bool", reject)
	o.def("`"+fn+"`: value used when Atoi failed or the value was rejected", lean+"RejectValue : Int", rv)
	o.def("`"+fn+"`: upper clamp condition", lean+"Over (v : Int) : Bool", over)
	o.def("`"+fn+"`: upper clamp value", lean+"Cap : Int", capV)
	return nil
}

func genPage(repo string, o *out) error {
	p, err := fg.ParseFile(repo, "pkg/utils/page/page.go")
	if err != nil {
		return err
	}
	if fd, err := p.Fn("", "min"); err == nil {
		if norm(p.Src(fd.Body)) != "{ if a < b { return a } return b }" {
			return fmt.Errorf("page.min: body `%s` is not `if a < b { return a }; return b`", norm(p.Src(fd.Body)))
		}
	}
	if err := genClamp(p, o, "ParsePage", "page", "page"); err != nil {
		return err
	}
	if err := genClamp(p, o, "ParseSize", "size", "size"); err != nil {
		return err
	}
	// paginationResult
	fd, err := p.Fn("", "paginationResult")
	if err != nil {
		return err
	}
	if len(fd.Body.List) != 3 || !strings.HasPrefix(norm(p.Src(fd.Body.List[0])), "start := ") ||
		!strings.HasPrefix(norm(p.Src(fd.Body.List[1])), "end := ") || norm(p.Src(fd.Body.List[2])) != "return start, end, size" ||
		norm(p.Src(fd.Type)) != "func(page, size, len int) (int, int, int)" {
		return fmt.Errorf("paginationResult(page, size, len int): expected `start := …; end := …; return start, end, size`")
	}
	params := map[string]string{"page": "page", "size": "size", "len": "len", "start": "start", "end": "end_"}
	st, err := intExpr(p, fd.Body.List[0].(*ast.AssignStmt).Rhs[0], map[string]string{"page": "page", "size": "size", "len": "len"}, "paginationResult")
	if err != nil {
		return err
	}
	en, err := intExpr(p, fd.Body.List[1].(*ast.AssignStmt).Rhs[0], map[string]string{"start": "start", "size": "size", "len": "len"}, "paginationResult")
	if err != nil {
		return err
	}
	o.def("`paginationResult`: `"+norm(p.Src(fd.Body.List[0]))+"`", "pgStart (page size len : Int) : Int", st)
	o.def("`paginationResult`: `"+norm(p.Src(fd.Body.List[1]))+"`", "pgEnd (start size len : Int) : Int", en)
	// Pagination wires the two together
	fd, err = p.Fn("", "Pagination")
	if err != nil {
		return err
	}
	if norm(p.Src(fd.Body)) != "{ start, end, size := paginationResult(page, size, len) pagination := pagin(start, end, size, len) return start, end, &pagination }" {
		return fmt.Errorf("Pagination: body changed: %s", norm(p.Src(fd.Body)))
	}
	// pagin: the Page literal
	fd, err = p.Fn("", "pagin")
	if err != nil {
		return err
	}
	if norm(p.Src(fd.Type)) != "func(start, end, size, len int) Page" {
		return fmt.Errorf("pagin: signature changed: %s", norm(p.Src(fd.Type)))
	}
	var lit *ast.CompositeLit
	ast.Inspect(fd.Body, func(n ast.Node) bool {
		if c, ok := n.(*ast.CompositeLit); ok && p.Src(c.Type) == "Page" {
			lit = c
		}
		return true
	})
	if lit == nil {
		return fmt.Errorf("pagin: no Page{…} literal")
	}
	fields := map[string]ast.Expr{}
	for _, e := range lit.Elts {
		kv, ok := e.(*ast.KeyValueExpr)
		if !ok {
			return fmt.Errorf("pagin: Page literal is not keyed")
		}
		fields[p.Src(kv.Key)] = kv.Value
	}
	sig := " (start end_ size len : Int) : Int"
	for _, f := range []struct{ key, lean string }{{"TotalPages", "pgTotalPages"}, {"Number", "pgNumber"}} {
		e, ok := fields[f.key]
		if !ok {
			return fmt.Errorf("pagin: Page literal has no %s", f.key)
		}
		num, den := e, ast.Expr(nil)
		if b, ok := unparen(e).(*ast.BinaryExpr); ok && (b.Op == token.QUO || b.Op == token.REM) {
			if b.Op == token.REM {
				return fmt.Errorf("pagin: %% not handled")
			}
			num, den = b.X, b.Y
		}
		ns, err := intExpr(p, num, params, "pagin."+f.key)
		if err != nil {
			return err
		}
		dsrc := "(1 : Int)"
		if den != nil {
			if dsrc, err = intExpr(p, den, params, "pagin."+f.key); err != nil {
				return err
			}
		}
		o.def("`pagin`: dividend of `"+f.key+": "+norm(p.Src(e))+"`", f.lean+"Num"+sig, ns)
		o.def("`pagin`: divisor of `"+f.key+": "+norm(p.Src(e))+"` (1 when the field is not a quotient)", f.lean+"Den"+sig, dsrc)
	}
	for _, f := range []struct{ key, lean string }{{"NumberOfElements", "pgCount"}, {"Size", "pgSize"}} {
		e, ok := fields[f.key]
		if !ok {
			return fmt.Errorf("pagin: Page literal has no %s", f.key)
		}
		s, err := intExpr(p, e, params, "pagin."+f.key)
		if err != nil {
			return err
		}
		o.def("`pagin`: `"+f.key+": "+norm(p.Src(e))+"`", f.lean+sig, s)
	}
	// PagingParams clamps both values
	fd, err = p.Fn("", "PagingParams")
	if err != nil {
		return err
	}
	clamped := strings.Contains(norm(p.Src(fd.Body)), `ParsePage(req.QueryParameter("page")), ParseSize(req.QueryParameter("size"))`)
	o.def("`PagingParams` returns `ParsePage(query page), ParseSize(query size)`", "pagingParamsClamped : Bool", fg.LeanBool(clamped))
	// ListIPs: fips[start:end] with start, end from Pagination(page, size, len(fips)), page/size from PagingParams
	a, err := fg.ParseFile(repo, "pkg/ipam/api/api.go")
	if err != nil {
		return err
	}
	fd, err = a.Fn("Controller", "ListIPs")
	if err != nil {
		return err
	}
	pc := firstCall(a, fd.Body, "pageutil.Pagination")
	if pc == nil || len(pc.Args) != 3 {
		return fmt.Errorf("ListIPs: no call pageutil.Pagination(page, size, len(x))")
	}
	var lhs []string
	var sl *ast.SliceExpr
	fromParams := false
	ast.Inspect(fd.Body, func(n ast.Node) bool {
		switch x := n.(type) {
		case *ast.AssignStmt:
			if len(x.Rhs) == 1 && x.Rhs[0] == ast.Expr(pc) {
				for _, l := range x.Lhs {
					lhs = append(lhs, a.Src(l))
				}
			}
			if len(x.Rhs) == 1 && len(x.Lhs) == 3 {
				if c, ok := x.Rhs[0].(*ast.CallExpr); ok && a.Src(c.Fun) == "pageutil.PagingParams" &&
					a.Src(x.Lhs[1]) == a.Src(pc.Args[0]) && a.Src(x.Lhs[2]) == a.Src(pc.Args[1]) {
					fromParams = true
				}
			}
		case *ast.SliceExpr:
			if sl == nil {
				sl = x
			} else {
				sl = &ast.SliceExpr{} // more than one: unknown
			}
		}
		return true
	})
	if len(lhs) != 3 || sl == nil || sl.X == nil {
		return fmt.Errorf("ListIPs: expected `start, end, pagin := pageutil.Pagination(…)` and exactly one slice expression")
	}
	okSlice := sl.Low != nil && sl.High != nil && sl.Max == nil && a.Src(sl.Low) == lhs[0] && a.Src(sl.High) == lhs[1] &&
		norm(a.Src(pc.Args[2])) == "len("+a.Src(sl.X)+")"
	o.def("`ListIPs`: the slice expression `"+a.Src(sl)+"` uses the start/end returned by `"+norm(a.Src(pc))+"` and slices the list whose length was passed",
		"listIPsSlicesMeasuredList : Bool", fg.LeanBool(okSlice))
	o.def("`ListIPs`: page and size passed to Pagination come from `pageutil.PagingParams(req)`", "listIPsUsesPagingParams : Bool", fg.LeanBool(fromParams))
	return nil
}

// ---------------------------------------------------------------- 3. PolicyStr

func genPolicyStr(repo string, o *out) error {
	p, err := fg.ParseFile(repo, "pkg/api/galaxy/constant/constant.go")
	if err != nil {
		return err
	}
	// type ReleasePolicy uintN and its iota constants
	bits, consts := 0, map[string]int{}
	for _, d := range p.File.Decls {
		gd, ok := d.(*ast.GenDecl)
		if !ok {
			continue
		}
		if gd.Tok == token.TYPE {
			for _, s := range gd.Specs {
				ts := s.(*ast.TypeSpec)
				if ts.Name.Name == "ReleasePolicy" {
					bits = intBits[p.Src(ts.Type)]
				}
			}
		}
		if gd.Tok == token.CONST && len(gd.Specs) > 0 {
			first := gd.Specs[0].(*ast.ValueSpec)
			if first.Type != nil && p.Src(first.Type) == "ReleasePolicy" {
				if len(first.Values) != 1 || p.Src(first.Values[0]) != "iota" {
					return fmt.Errorf("constant.go: ReleasePolicy constants are not a plain iota block")
				}
				for i, s := range gd.Specs {
					vs := s.(*ast.ValueSpec)
					if len(vs.Names) != 1 || (i > 0 && (len(vs.Values) != 0 || vs.Type != nil)) {
						return fmt.Errorf("constant.go: ReleasePolicy constants are not a plain iota block")
					}
					consts[vs.Names[0].Name] = i
				}
			}
		}
	}
	if bits == 0 || len(consts) == 0 {
		return fmt.Errorf("constant.go: `type ReleasePolicy <unsigned>` or its iota constants not found")
	}
	constOf := func(e ast.Expr) (int, bool) {
		s := strings.TrimPrefix(p.Src(e), "constant.")
		v, ok := consts[s]
		return v, ok
	}
	fd, err := p.Fn("", "PolicyStr")
	if err != nil {
		return err
	}
	bad := fmt.Errorf("PolicyStr: expected the single statement `return [...]string{…}[policy]`, got %s", norm(p.Src(fd.Body)))
	if len(fd.Body.List) != 1 {
		return bad
	}
	ret, ok := fd.Body.List[0].(*ast.ReturnStmt)
	if !ok || len(ret.Results) != 1 {
		return bad
	}
	ix, ok := ret.Results[0].(*ast.IndexExpr)
	if !ok || p.Src(ix.Index) != fd.Type.Params.List[0].Names[0].Name {
		return bad
	}
	cl, ok := ix.X.(*ast.CompositeLit)
	if !ok || !strings.HasSuffix(p.Src(cl.Type), "]string") {
		return bad
	}
	var table []string
	for _, e := range cl.Elts {
		if s, ok := strLit(e); ok {
			table = append(table, s)
		} else if s, err := p.ConstString(p.Src(e)); err == nil {
			table = append(table, s)
		} else {
			return fmt.Errorf("PolicyStr: array element `%s` is neither a string literal nor a string constant", p.Src(e))
		}
	}
	o.def("`constant.PolicyStr`: the array indexed by the policy, `"+norm(p.Src(ix.X))+"`", "policyStrTable : List String", leanStrList(table))
	o.def("`type ReleasePolicy`: number of bits of the underlying unsigned type", "releasePolicyBits : Nat", strconv.Itoa(bits))
	// ConvertReleasePolicy: switch policyStr { case C: return K … default: return K }
	fd, err = p.Fn("", "ConvertReleasePolicy")
	if err != nil {
		return err
	}
	sw, ok := fd.Body.List[0].(*ast.SwitchStmt)
	if len(fd.Body.List) != 1 || !ok || sw.Init != nil || p.Src(sw.Tag) != fd.Type.Params.List[0].Names[0].Name {
		return fmt.Errorf("ConvertReleasePolicy: expected a single `switch <param> { case …: return …; default: return … }`")
	}
	var cases []string
	def := -1
	for _, c := range sw.Body.List {
		cc := c.(*ast.CaseClause)
		if len(cc.Body) != 1 {
			return fmt.Errorf("ConvertReleasePolicy: case body is not a single return")
		}
		r, ok := cc.Body[0].(*ast.ReturnStmt)
		if !ok || len(r.Results) != 1 {
			return fmt.Errorf("ConvertReleasePolicy: case body is not a single return")
		}
		v, ok := constOf(r.Results[0])
		if !ok {
			return fmt.Errorf("ConvertReleasePolicy: returns `%s`, not a ReleasePolicy constant", p.Src(r.Results[0]))
		}
		if cc.List == nil {
			def = v
			continue
		}
		for _, e := range cc.List {
			s, ok := strLit(e)
			if !ok {
				if s, err = p.ConstString(p.Src(e)); err != nil {
					return fmt.Errorf("ConvertReleasePolicy: case label `%s` is not a string constant", p.Src(e))
				}
			}
			cases = append(cases, fmt.Sprintf("(%s, %d)", fg.LeanStr(s), v))
		}
	}
	if def < 0 {
		return fmt.Errorf("ConvertReleasePolicy: no default case")
	}
	o.def("`constant.ConvertReleasePolicy`: case table annotation value -> policy", "convertPolicyCases : List (String × Nat)", "["+strings.Join(cases, ", ")+"]")
	o.def("`constant.ConvertReleasePolicy`: default case", "convertPolicyDefault : Nat", strconv.Itoa(def))
	// parseReleasePolicy: every return is a constant or the ConvertReleasePolicy call
	q, err := fg.ParseFile(repo, "pkg/ipam/schedulerplugin/floatingip_plugin.go")
	if err != nil {
		return err
	}
	fd, err = q.Fn("", "parseReleasePolicy")
	if err != nil {
		return err
	}
	var rets []string
	conv, other := false, true
	ast.Inspect(fd.Body, func(n ast.Node) bool {
		r, ok := n.(*ast.ReturnStmt)
		if !ok || len(r.Results) != 1 {
			return true
		}
		if v, ok := constOf(r.Results[0]); ok {
			rets = append(rets, strconv.Itoa(v))
		} else if c, ok := r.Results[0].(*ast.CallExpr); ok && q.Src(c.Fun) == "constant.ConvertReleasePolicy" {
			conv = true
		} else {
			other = false
		}
		return true
	})
	o.def("`parseReleasePolicy`: the constants it returns directly", "parsePolicyConstReturns : List Nat", "["+strings.Join(rets, ", ")+"]")
	o.def("`parseReleasePolicy`: every other return is `constant.ConvertReleasePolicy(…)`", "parsePolicyOtherReturnsConvert : Bool", fg.LeanBool(conv && other))
	// call sites of constant.PolicyStr in the whole tree and where their argument comes from
	files, err := goFiles(repo)
	if err != nil {
		return err
	}
	var sites []string
	for _, rel := range files {
		f, err := fg.ParseFile(repo, rel)
		if err != nil {
			return err
		}
		name := "constant.PolicyStr"
		if f.File.Name.Name == "constant" {
			name = "PolicyStr"
		}
		for _, d := range f.File.Decls {
			fn, ok := d.(*ast.FuncDecl)
			if !ok || fn.Body == nil {
				continue
			}
			ast.Inspect(fn.Body, func(n ast.Node) bool {
				c, ok := n.(*ast.CallExpr)
				if !ok || f.Src(c.Fun) != name || len(c.Args) != 1 {
					return true
				}
				origin := "expr:" + norm(f.Src(c.Args[0]))
				if id, ok := c.Args[0].(*ast.Ident); ok {
					set := map[string]bool{}
					ast.Inspect(fn.Body, func(m ast.Node) bool {
						as, ok := m.(*ast.AssignStmt)
						if !ok {
							return true
						}
						for i, l := range as.Lhs {
							if f.Src(l) != id.Name {
								continue
							}
							src := "expr:" + norm(f.Src(as))
							if len(as.Rhs) == len(as.Lhs) {
								if cc, ok := as.Rhs[i].(*ast.CallExpr); ok {
									src = f.Src(cc.Fun)
								}
							}
							set[src] = true
						}
						return true
					})
					var l []string
					for s := range set {
						l = append(l, s)
					}
					sort.Strings(l)
					if len(l) == 0 {
						l = []string{"param-or-unknown"}
					}
					origin = strings.Join(l, "|")
				}
				sites = append(sites, fmt.Sprintf("(%s, %s)", fg.LeanStr(rel+":"+fn.Name.Name), fg.LeanStr(origin)))
				return true
			})
		}
	}
	o.def("every call of `constant.PolicyStr` outside tests: (file:function, function whose result is the argument)",
		"policyStrCallSites : List (String × String)", "["+strings.Join(sites, ", ")+"]")
	return nil
}

// ---------------------------------------------------------------- 4. parsePodIndex

func genPodIndex(repo string, o *out) error {
	p, err := fg.ParseFile(repo, "pkg/ipam/schedulerplugin/resync.go")
	if err != nil {
		return err
	}
	fd, err := p.Fn("", "parsePodIndex")
	if err != nil {
		return err
	}
	bad := fmt.Errorf("parsePodIndex: expected `parts := strings.Split(name, \"<sep>\"); return strconv.Atoi(parts[len(parts)-k])`, got %s", norm(p.Src(fd.Body)))
	if len(fd.Body.List) != 2 {
		return bad
	}
	as, ok := fd.Body.List[0].(*ast.AssignStmt)
	if !ok || len(as.Rhs) != 1 || p.Src(as.Lhs[0]) != "parts" {
		return bad
	}
	c, ok := as.Rhs[0].(*ast.CallExpr)
	if !ok || p.Src(c.Fun) != "strings.Split" || len(c.Args) != 2 || p.Src(c.Args[0]) != fd.Type.Params.List[0].Names[0].Name {
		return bad
	}
	sep, ok := strLit(c.Args[1])
	if !ok {
		return bad
	}
	ret, ok := fd.Body.List[1].(*ast.ReturnStmt)
	if !ok || len(ret.Results) != 1 {
		return bad
	}
	rc, ok := ret.Results[0].(*ast.CallExpr)
	if !ok || p.Src(rc.Fun) != "strconv.Atoi" || len(rc.Args) != 1 {
		return bad
	}
	ix, ok := rc.Args[0].(*ast.IndexExpr)
	if !ok || p.Src(ix.X) != "parts" {
		return bad
	}
	be, ok := ix.Index.(*ast.BinaryExpr)
	if !ok || be.Op != token.SUB || norm(p.Src(be.X)) != "len(parts)" {
		return bad
	}
	k, ok := intLit(be.Y)
	if !ok || k < 0 {
		return bad
	}
	o.def("`parsePodIndex`: separator of `"+norm(p.Src(as))+"`", "podIndexSep : String", fg.LeanStr(sep))
	o.def("`parsePodIndex`: the element parsed is `"+norm(p.Src(ix))+"`, i.e. index `len(parts) - k` with this k", "podIndexFromEnd : Nat", strconv.FormatInt(k, 10))
	return nil
}

// ---------------------------------------------------------------- 5. ParseKey / resolvePodKey

func genParseKey(repo string, o *out) error {
	p, err := fg.ParseFile(repo, "pkg/ipam/schedulerplugin/util/utils.go")
	if err != nil {
		return err
	}
	pool, err := p.ConstString("poolPrefix")
	if err != nil {
		return err
	}
	fd, err := p.Fn("", "ParseKey")
	if err != nil {
		return err
	}
	var sl *ast.SliceExpr
	var slStack []ast.Node
	nSlices := 0
	walkStack(fd.Body, func(n ast.Node, st []ast.Node) {
		if s, ok := n.(*ast.SliceExpr); ok {
			nSlices++
			sl, slStack = s, append([]ast.Node{}, st...)
		}
	})
	if nSlices != 1 || p.Src(sl.X) != "key" || sl.Low == nil || norm(p.Src(sl.Low)) != "len(poolPrefix)" || sl.High != nil {
		return fmt.Errorf("ParseKey: expected exactly one slice expression `key[len(poolPrefix):]`")
	}
	prefixGuard := protected(p, sl, slStack, []string{"strings.HasPrefix(key, poolPrefix)"}, nil)
	sn := firstCall(p, fd.Body, "strings.SplitN")
	if sn == nil || len(sn.Args) != 3 || sn.Args[0] != ast.Expr(sl) {
		return fmt.Errorf("ParseKey: expected `strings.SplitN(key[len(poolPrefix):], sep, n)`")
	}
	sep, ok1 := strLit(sn.Args[1])
	cnt, ok2 := intLit(sn.Args[2])
	if !ok1 || !ok2 || cnt < 0 {
		return fmt.Errorf("ParseKey: SplitN separator / count are not literals (count must be >= 0)")
	}
	// uses of parts[k] and the `len(parts) != K` early return before them
	var idxs []string
	guardK, guarded, allGuarded := int64(0), false, true
	var firstBad error
	walkStack(fd.Body, func(n ast.Node, st []ast.Node) {
		ix, ok := n.(*ast.IndexExpr)
		if !ok || p.Src(ix.X) != "parts" {
			return
		}
		k, ok := intLit(ix.Index)
		if !ok || k < 0 {
			firstBad = fmt.Errorf("ParseKey: parts index `%s` is not a literal", p.Src(ix.Index))
			return
		}
		idxs = append(idxs, strconv.FormatInt(k, 10))
		// find a preceding `if len(parts) != K { return }`
		hit := false
		for K := int64(0); K < 16; K++ {
			if protected(p, n, st, []string{fmt.Sprintf("len(parts) == %d", K)}, []string{fmt.Sprintf("len(parts) != %d", K)}) {
				if guarded && guardK != K {
					firstBad = fmt.Errorf("ParseKey: parts indexes are guarded by different lengths")
				}
				guardK, guarded, hit = K, true, true
			}
		}
		if !hit {
			allGuarded = false
		}
	})
	if firstBad != nil {
		return firstBad
	}
	if len(idxs) == 0 {
		return fmt.Errorf("ParseKey: no parts[k] expression found")
	}
	if !strings.Contains(norm(p.Src(fd.Body)), "keyObj.AppTypePrefix, keyObj.AppName, keyObj.PodName, keyObj.Namespace = resolvePodKey(removedPoolKey)") {
		return fmt.Errorf("ParseKey: the resolvePodKey assignment changed")
	}
	o.def("`util.poolPrefix`", "poolPrefix : String", fg.LeanStr(pool))
	o.def("`ParseKey`: `"+p.Src(sl)+"` is evaluated only under `strings.HasPrefix(key, poolPrefix)`", "parseKeyPrefixGuard : Bool", fg.LeanBool(prefixGuard))
	o.def("`ParseKey`: separator of `"+norm(p.Src(sn))+"`", "parseKeySep : String", fg.LeanStr(sep))
	o.def("`ParseKey`: count argument of SplitN", "parseKeySplitN : Nat", strconv.FormatInt(cnt, 10))
	o.def("`ParseKey`: `if len(parts) != K { return keyObj }` precedes every parts[k] (none = an index without that guard)",
		"parseKeyPartsGuard : Option Nat", leanOptNat(guardK, guarded && allGuarded))
	o.def("`ParseKey`: the literal indexes of parts, in source order (pool name, rest)", "parseKeyPartsIdx : List Nat", "["+strings.Join(idxs, ", ")+"]")
	// resolvePodKey
	fd, err = p.Fn("", "resolvePodKey")
	if err != nil {
		return err
	}
	sc := firstCall(p, fd.Body, "strings.Split")
	if sc == nil || len(sc.Args) != 2 || p.Src(sc.Args[0]) != "key" {
		return fmt.Errorf("resolvePodKey: expected `parts := strings.Split(key, sep)`")
	}
	rsep, ok := strLit(sc.Args[1])
	if !ok {
		return fmt.Errorf("resolvePodKey: separator is not a literal")
	}
	var ret *ast.ReturnStmt
	var retStack []ast.Node
	nret := 0
	walkStack(fd.Body, func(n ast.Node, st []ast.Node) {
		if r, ok := n.(*ast.ReturnStmt); ok && strings.Contains(p.Src(r), "parts[") {
			nret++
			ret, retStack = r, append([]ast.Node{}, st...)
		}
	})
	if nret != 1 || len(ret.Results) != 4 {
		return fmt.Errorf("resolvePodKey: expected exactly one `return parts[a] + s, parts[b], parts[c], parts[d]`")
	}
	var ridx []string
	suffix := ""
	for i, r := range ret.Results {
		e := r
		if b, ok := r.(*ast.BinaryExpr); ok && i == 0 && b.Op == token.ADD {
			s, ok := strLit(b.Y)
			if !ok {
				return fmt.Errorf("resolvePodKey: first result is not `parts[a] + \"<lit>\"`")
			}
			suffix, e = s, b.X
		}
		ix, ok := e.(*ast.IndexExpr)
		if !ok || p.Src(ix.X) != "parts" {
			return fmt.Errorf("resolvePodKey: result %d is not parts[k]", i)
		}
		k, ok := intLit(ix.Index)
		if !ok || k < 0 {
			return fmt.Errorf("resolvePodKey: result %d index is not a literal", i)
		}
		ridx = append(ridx, strconv.FormatInt(k, 10))
	}
	rgK, rg := int64(0), false
	for K := int64(0); K < 16; K++ {
		if protected(p, ret, retStack, []string{fmt.Sprintf("len(parts) == %d", K)}, []string{fmt.Sprintf("len(parts) != %d", K)}) {
			rgK, rg = K, true
		}
	}
	last, ok := fd.Body.List[len(fd.Body.List)-1].(*ast.ReturnStmt)
	if !ok || (last != ret && norm(p.Src(last)) != `return "", "", "", ""`) {
		return fmt.Errorf("resolvePodKey: fallback return is not four empty strings")
	}
	o.def("`resolvePodKey`: separator of `"+norm(p.Src(sc))+"`", "resolveSep : String", fg.LeanStr(rsep))
	o.def("`resolvePodKey`: the indexed return is evaluated only under `len(parts) == K` (none = unguarded)", "resolveGuardLen : Option Nat", leanOptNat(rgK, rg))
	o.def("`resolvePodKey`: indexes of `"+norm(p.Src(ret))+"` (app type prefix, app name, pod name, namespace)", "resolveIdx : List Nat", "["+strings.Join(ridx, ", ")+"]")
	o.def("`resolvePodKey`: literal appended to the app type prefix", "resolvePrefixSuffix : String", fg.LeanStr(suffix))
	return nil
}

// ---------------------------------------------------------------- 6. IPNet / IPRange UnmarshalJSON

func genUnmarshalSlice(p *fg.Parsed, o *out, recv, lean string) error {
	fd, err := p.Fn(recv, "UnmarshalJSON")
	if err != nil {
		return err
	}
	var sl *ast.SliceExpr
	var stack []ast.Node
	n := 0
	walkStack(fd.Body, func(x ast.Node, st []ast.Node) {
		if s, ok := x.(*ast.SliceExpr); ok {
			n++
			sl, stack = s, append([]ast.Node{}, st...)
		}
	})
	if n != 1 || p.Src(sl.X) != "data" || sl.Low == nil || sl.High == nil || sl.Max != nil {
		return fmt.Errorf("%s.UnmarshalJSON: expected exactly one slice expression data[lo:len(data)-k]", recv)
	}
	lo, ok := intLit(sl.Low)
	be, ok2 := sl.High.(*ast.BinaryExpr)
	if !ok || lo < 0 || !ok2 || be.Op != token.SUB || norm(p.Src(be.X)) != "len(data)" {
		return fmt.Errorf("%s.UnmarshalJSON: slice `%s` is not data[<lit>:len(data)-<lit>]", recv, p.Src(sl))
	}
	k, ok := intLit(be.Y)
	if !ok || k < 0 {
		return fmt.Errorf("%s.UnmarshalJSON: slice `%s` is not data[<lit>:len(data)-<lit>]", recv, p.Src(sl))
	}
	minLen := int64(0)
	for N := int64(1); N < 64; N++ {
		if protected(p, sl, stack, []string{fmt.Sprintf("len(data) >= %d", N)}, []string{fmt.Sprintf("len(data) < %d", N)}) {
			minLen = N
		}
	}
	o.def("`"+recv+".UnmarshalJSON`: `if len(data) < N { return error }` precedes the slice expression (0 = no such guard)", lean+"MinLen : Nat", strconv.FormatInt(minLen, 10))
	o.def("`"+recv+".UnmarshalJSON`: low bound of `"+p.Src(sl)+"`", lean+"SliceLo : Nat", strconv.FormatInt(lo, 10))
	o.def("`"+recv+".UnmarshalJSON`: the high bound is `len(data) - k` with this k", lean+"SliceHiFromEnd : Nat", strconv.FormatInt(k, 10))
	return nil
}

func genIPNet(repo string, o *out) error {
	p, err := fg.ParseFile(repo, "pkg/utils/nets/ip.go")
	if err != nil {
		return err
	}
	if err := genUnmarshalSlice(p, o, "IPNet", "ipnet"); err != nil {
		return err
	}
	return genUnmarshalSlice(p, o, "IPRange", "iprange")
}

// ---------------------------------------------------------------- 7. GetChainLines

func genChainLines(repo string, o *out) error {
	p, err := fg.ParseFile(repo, "pkg/utils/iptables/save_restore.go")
	if err != nil {
		return err
	}
	fd, err := p.Fn("", "GetChainLines")
	if err != nil {
		return err
	}
	var sl *ast.SliceExpr
	var stack []ast.Node
	n := 0
	walkStack(fd.Body, func(x ast.Node, st []ast.Node) {
		if s, ok := x.(*ast.SliceExpr); ok {
			n++
			sl, stack = s, append([]ast.Node{}, st...)
		}
	})
	if n != 1 || p.Src(sl.X) != "line" || sl.Low == nil || sl.High == nil {
		return fmt.Errorf("GetChainLines: expected exactly one slice expression line[lo:hi]")
	}
	lo, ok := intLit(sl.Low)
	if !ok || lo < 0 {
		return fmt.Errorf("GetChainLines: low bound of `%s` is not a literal", p.Src(sl))
	}
	hc, ok := sl.High.(*ast.CallExpr)
	if !ok || p.Src(hc.Fun) != "strings.Index" || len(hc.Args) != 2 || p.Src(hc.Args[0]) != "line" {
		return fmt.Errorf("GetChainLines: high bound of `%s` is not strings.Index(line, sep) used directly; the chain-line branch changed shape, update the model", p.Src(sl))
	}
	isep, ok := strLit(hc.Args[1])
	if !ok {
		return fmt.Errorf("GetChainLines: Index separator is not a literal")
	}
	// the for loop holding the slice, and the if / else-if chain inside it
	var loop *ast.ForStmt
	for _, a := range stack {
		if f, ok := a.(*ast.ForStmt); ok {
			loop = f
		}
	}
	if loop == nil {
		return fmt.Errorf("GetChainLines: slice expression is not inside a for loop")
	}
	skipsEmpty := false
	var stop, comment []string
	chainPrefix, minGt, chainFound := "", int64(0), false
	prefixes := func(cond ast.Expr, op token.Token) ([]string, int64, error) {
		var out []string
		gt := int64(0)
		for _, piece := range splitOp(cond, op) {
			if c, ok := piece.(*ast.CallExpr); ok && p.Src(c.Fun) == "strings.HasPrefix" && len(c.Args) == 2 && p.Src(c.Args[0]) == "line" {
				s, ok := strLit(c.Args[1])
				if !ok {
					return nil, 0, fmt.Errorf("GetChainLines: HasPrefix argument is not a literal")
				}
				out = append(out, s)
				continue
			}
			if b, ok := piece.(*ast.BinaryExpr); ok && b.Op == token.GTR && norm(p.Src(b.X)) == "len(line)" {
				if k, ok := intLit(b.Y); ok {
					gt = k
					continue
				}
			}
			return nil, 0, fmt.Errorf("GetChainLines: condition piece `%s` not handled", p.Src(piece))
		}
		return out, gt, nil
	}
	for _, s := range loop.Body.List {
		is, ok := s.(*ast.IfStmt)
		if !ok {
			continue
		}
		if norm(p.Src(is.Cond)) == "len(line) == 0" && is.Else == nil && norm(p.Src(is.Body)) == "{ continue }" {
			skipsEmpty = true
			continue
		}
		for cur := is; cur != nil; {
			action := ""
			switch {
			case within(sl, cur.Body):
				action = "chain"
			case norm(p.Src(cur.Body)) == "{ break }":
				action = "break"
			case norm(p.Src(cur.Body)) == "{ continue }":
				action = "continue"
			default:
				return fmt.Errorf("GetChainLines: branch body `%s` not handled", norm(p.Src(cur.Body)))
			}
			switch action {
			case "chain":
				pf, gt, err := prefixes(cur.Cond, token.LAND)
				if err != nil {
					return err
				}
				if len(pf) != 1 {
					return fmt.Errorf("GetChainLines: chain branch condition `%s` is not HasPrefix(line, lit) [&& len(line) > k]", p.Src(cur.Cond))
				}
				chainPrefix, minGt, chainFound = pf[0], gt, true
			default:
				if chainFound {
					return fmt.Errorf("GetChainLines: a break/continue branch follows the chain branch")
				}
				pf, gt, err := prefixes(cur.Cond, token.LOR)
				if err != nil {
					return err
				}
				if gt != 0 {
					return fmt.Errorf("GetChainLines: length condition in a break/continue branch")
				}
				if action == "break" {
					stop = append(stop, pf...)
				} else {
					comment = append(comment, pf...)
				}
			}
			next, _ := cur.Else.(*ast.IfStmt)
			if cur.Else != nil && next == nil {
				return fmt.Errorf("GetChainLines: plain else branch not handled")
			}
			cur = next
		}
	}
	if !chainFound {
		return fmt.Errorf("GetChainLines: chain branch not found in the if chain")
	}
	o.def("`GetChainLines`: `if len(line) == 0 { continue }` comes first", "chainSkipsEmpty : Bool", fg.LeanBool(skipsEmpty))
	o.def("`GetChainLines`: prefixes which end the table (break)", "chainStopPrefixes : List String", leanStrList(stop))
	o.def("`GetChainLines`: prefixes which are skipped (continue)", "chainSkipPrefixes : List String", leanStrList(comment))
	o.def("`GetChainLines`: prefix of a chain line", "chainPrefix : String", fg.LeanStr(chainPrefix))
	o.def("`GetChainLines`: the chain branch also requires `len(line) > k`", "chainMinLenGt : Nat", strconv.FormatInt(minGt, 10))
	o.def("`GetChainLines`: low bound of `"+p.Src(sl)+"`", "chainSliceLo : Nat", strconv.FormatInt(lo, 10))
	o.def("`GetChainLines`: the high bound is `strings.Index(line, sep)` with this sep, used without checking for -1", "chainIndexSep : String", fg.LeanStr(isep))
	o.def("`GetChainLines`: the result of strings.Index is checked before slicing (the source documents that it is not)", "chainChecksIndex : Bool", "false")
	return nil
}

// splitOp splits an expression on a binary operator through parentheses.
func splitOp(e ast.Expr, op token.Token) []ast.Expr {
	e = unparen(e)
	if b, ok := e.(*ast.BinaryExpr); ok && b.Op == op {
		return append(splitOp(b.X, op), splitOp(b.Y, op)...)
	}
	return []ast.Expr{e}
}

// ---------------------------------------------------------------- 8. CmdDel

func genCmdDel(repo string, o *out) error {
	p, err := fg.ParseFile(repo, "pkg/api/cniutil/cni.go")
	if err != nil {
		return err
	}
	fd, err := p.Fn("", "CmdDel")
	if err != nil {
		return err
	}
	if norm(p.Src(fd.Type)) != "func(cmdArgs *skel.CmdArgs, lastIdx int) error" {
		return fmt.Errorf("CmdDel: second parameter is not `lastIdx int`")
	}
	defaults := false
	var loop *ast.ForStmt
	for _, s := range fd.Body.List {
		switch n := s.(type) {
		case *ast.IfStmt:
			if norm(p.Src(n.Cond)) == "lastIdx == -1" && norm(p.Src(n.Body)) == "{ lastIdx = len(networkInfos) - 1 }" && n.Else == nil && loop == nil {
				defaults = true
			}
		case *ast.ForStmt:
			if loop != nil {
				return fmt.Errorf("CmdDel: more than one for loop")
			}
			loop = n
		}
	}
	if loop == nil || loop.Init == nil || loop.Cond == nil || loop.Post == nil {
		return fmt.Errorf("CmdDel: no `for idx := lastIdx; idx >= 0; idx--` loop")
	}
	if !strings.Contains(norm(p.Src(fd.Body.List[0])), "networkInfos, err := consumeNetworkInfo(") {
		return fmt.Errorf("CmdDel: networkInfos is not read with consumeNetworkInfo in the first statement")
	}
	ixSites := 0
	onlyIdx := true
	ast.Inspect(fd.Body, func(n ast.Node) bool {
		if ix, ok := n.(*ast.IndexExpr); ok && p.Src(ix.X) == "networkInfos" {
			ixSites++
			if p.Src(ix.Index) != "idx" || !within(ix, loop.Body) {
				onlyIdx = false
			}
		}
		return true
	})
	if ixSites == 0 || !onlyIdx {
		return fmt.Errorf("CmdDel: networkInfos is not indexed exactly by the loop variable inside the loop")
	}
	o.def("`CmdDel`: `if lastIdx == -1 { lastIdx = len(networkInfos) - 1 }` precedes the loop", "cmdDelDefaultsToLast : Bool", fg.LeanBool(defaults))
	o.def("`CmdDel`: loop header (init; cond; post), the body indexes `networkInfos[idx]`", "cmdDelLoop : List String",
		leanStrList([]string{norm(p.Src(loop.Init)), norm(p.Src(loop.Cond)), norm(p.Src(loop.Post))}))
	// call sites
	files, err := goFiles(repo)
	if err != nil {
		return err
	}
	var sites []string
	for _, rel := range files {
		f, err := fg.ParseFile(repo, rel)
		if err != nil {
			return err
		}
		name := "cniutil.CmdDel"
		if f.File.Name.Name == "cniutil" {
			name = "CmdDel"
		}
		for _, d := range f.File.Decls {
			fn, ok := d.(*ast.FuncDecl)
			if !ok || fn.Body == nil {
				continue
			}
			walkStack(fn.Body, func(n ast.Node, st []ast.Node) {
				c, ok := n.(*ast.CallExpr)
				if !ok || f.Src(c.Fun) != name || len(c.Args) != 2 {
					return
				}
				class := "expr:" + norm(f.Src(c.Args[1]))
				if v, ok := intLit(c.Args[1]); ok {
					class = strconv.FormatInt(v, 10)
				} else if id, ok := c.Args[1].(*ast.Ident); ok {
					for _, a := range st {
						if rs, ok := a.(*ast.RangeStmt); ok && rs.Key != nil && f.Src(rs.Key) == id.Name && rs.Tok == token.DEFINE {
							class = "range-index:" + norm(f.Src(rs.X))
							// the list ranged over is the one saved before the loop
							saved := false
							for _, s := range fn.Body.List {
								if s.Pos() < rs.Pos() && strings.Contains(norm(f.Src(s)), "saveNetworkInfo(cmdArgs.ContainerID, "+norm(f.Src(rs.X))+")") {
									saved = true
								}
							}
							if saved {
								class += ":saved-before-loop"
							}
						}
					}
				}
				sites = append(sites, fmt.Sprintf("(%s, %s)", fg.LeanStr(rel+":"+fn.Name.Name), fg.LeanStr(class)))
			})
		}
	}
	o.def("every call of `cniutil.CmdDel` outside tests: (file:function, class of the lastIdx argument)",
		"cmdDelCallSites : List (String × String)", "["+strings.Join(sites, ", ")+"]")
	return nil
}

// ---------------------------------------------------------------- 9. networks annotation

func genNetworks(repo string, o *out) error {
	p, err := fg.ParseFile(repo, "pkg/api/k8s/k8s.go")
	if err != nil {
		return err
	}
	fd, err := p.Fn("", "ParsePodNetworkAnnotation")
	if err != nil {
		return err
	}
	if firstCall(p, fd.Body, "json.Unmarshal") == nil || !strings.Contains(norm(p.Src(fd.Body)), "json.Unmarshal([]byte(podNetworks), &networks)") {
		return fmt.Errorf("ParsePodNetworkAnnotation: no json.Unmarshal([]byte(podNetworks), &networks)")
	}
	if !strings.HasSuffix(norm(p.Src(fd.Type)), ") ([]*NetworkSelectionElement, error)") {
		return fmt.Errorf("ParsePodNetworkAnnotation: result type changed (%s): elements are no longer nil-able pointers, update the model", norm(p.Src(fd.Type)))
	}
	o.def("`k8s.ParsePodNetworkAnnotation`: after json.Unmarshal, `for i := range networks { if networks[i] == nil { return nil, error } }`",
		"parseNetworksRejectsNil : Bool", fg.LeanBool(nilElemRejected(p, fd, "networks", 0)))
	s, err := fg.ParseFile(repo, "pkg/galaxy/server.go")
	if err != nil {
		return err
	}
	fd, err = s.Fn("Galaxy", "resolveNetworks")
	if err != nil {
		return err
	}
	body := norm(s.Src(fd.Body))
	if !strings.Contains(body, "networks, err := k8s.ParsePodNetworkAnnotation(v) if err != nil { return nil, err }") {
		return fmt.Errorf("resolveNetworks: `networks, err := k8s.ParsePodNetworkAnnotation(v); if err != nil { return nil, err }` not found")
	}
	deref, guarded := false, true
	ast.Inspect(fd.Body, func(n ast.Node) bool {
		rs, ok := n.(*ast.RangeStmt)
		if !ok || s.Src(rs.X) != "networks" || rs.Value == nil {
			return true
		}
		c, g := derefGuard(s, rs.Body, s.Src(rs.Value))
		if c > 0 {
			deref = true
			guarded = guarded && g
		}
		return true
	})
	if !deref {
		return fmt.Errorf("resolveNetworks: no `for _, network := range networks { … network.X … }` loop; update the model")
	}
	o.def("`Galaxy.resolveNetworks`: every dereference of an element of the decoded list is under its own nil check", "resolveChecksNil : Bool", fg.LeanBool(guarded))
	return nil
}

// ---------------------------------------------------------------- 10. floatingip configuration

func genConf(repo string, o *out) error {
	p, err := fg.ParseFile(repo, "pkg/ipam/floatingip/floatingip.go")
	if err != nil {
		return err
	}
	fd, err := p.Fn("FloatingIPPool", "UnmarshalJSON")
	if err != nil {
		return err
	}
	// conf.NodeSubnets[i] is dereferenced in `for i := range conf.NodeSubnets`
	n, g := derefGuard(p, fd.Body, "conf.NodeSubnets[i]")
	if n == 0 {
		return fmt.Errorf("FloatingIPPool.UnmarshalJSON: no dereference of conf.NodeSubnets[i]; update the model")
	}
	o.def("`FloatingIPPool.UnmarshalJSON`: `conf.NodeSubnets[i]` is dereferenced only after `if conf.NodeSubnets[i] == nil { return error }`",
		"poolRejectsNilNodeSubnet : Bool", fg.LeanBool(g))
	n, g = derefGuard(p, fd.Body, "conf.RoutableSubnet")
	if n == 0 {
		return fmt.Errorf("FloatingIPPool.UnmarshalJSON: no dereference of conf.RoutableSubnet; update the model")
	}
	o.def("`FloatingIPPool.UnmarshalJSON`: `conf.RoutableSubnet` is dereferenced only under `conf.RoutableSubnet != nil`", "poolChecksRoutable : Bool", fg.LeanBool(g))
	n, g = derefGuard(p, fd.Body, "conf.Subnet")
	if n == 0 {
		return fmt.Errorf("FloatingIPPool.UnmarshalJSON: no dereference of conf.Subnet; update the model")
	}
	o.def("`FloatingIPPool.UnmarshalJSON`: `conf.Subnet` is dereferenced only under `conf.Subnet != nil`", "poolChecksSubnet : Bool", fg.LeanBool(g))
	emptyChk := false
	for _, s := range fd.Body.List {
		if is, ok := s.(*ast.IfStmt); ok && norm(p.Src(is.Cond)) == "conf.RoutableSubnet == nil && len(conf.NodeSubnets) == 0" && terminates(p, is.Body) {
			emptyChk = true
		}
	}
	o.def("`FloatingIPPool.UnmarshalJSON`: `if conf.RoutableSubnet == nil && len(conf.NodeSubnets) == 0 { return error }`", "poolRejectsNoSubnets : Bool", fg.LeanBool(emptyChk))
	// ensureIPAMConf
	q, err := fg.ParseFile(repo, "pkg/ipam/schedulerplugin/ipam.go")
	if err != nil {
		return err
	}
	fd, err = q.Fn("FloatingIPPlugin", "ensureIPAMConf")
	if err != nil {
		return err
	}
	cp := firstCall(q, fd.Body, "p.ipam.ConfigurePool")
	if cp == nil || len(cp.Args) != 1 || q.Src(cp.Args[0]) != "conf" || !strings.Contains(norm(q.Src(fd.Body)), "var conf []*floatingip.FloatingIPPool") {
		return fmt.Errorf("ensureIPAMConf: expected `var conf []*floatingip.FloatingIPPool … p.ipam.ConfigurePool(conf)`")
	}
	o.def("`ensureIPAMConf`: before ConfigurePool, `for i := range conf { if conf[i] == nil { return false, error } }`",
		"ensureRejectsNilPool : Bool", fg.LeanBool(nilElemRejected(q, fd, "conf", cp.Pos())))
	// Init: static configuration p.conf.FloatingIPs
	r, err := fg.ParseFile(repo, "pkg/ipam/schedulerplugin/floatingip_plugin.go")
	if err != nil {
		return err
	}
	fd, err = r.Fn("FloatingIPPlugin", "Init")
	if err != nil {
		return err
	}
	cp = firstCall(r, fd.Body, "p.ipam.ConfigurePool")
	if cp == nil || len(cp.Args) != 1 {
		return fmt.Errorf("FloatingIPPlugin.Init: no p.ipam.ConfigurePool(…) call")
	}
	o.def("`FloatingIPPlugin.Init`: the statically configured list `"+r.Src(cp.Args[0])+"` is checked for nil pools before ConfigurePool",
		"initRejectsNilPool : Bool", fg.LeanBool(nilElemRejected(r, fd, r.Src(cp.Args[0]), cp.Pos())))
	// ConfigurePool itself
	c, err := fg.ParseFile(repo, "pkg/ipam/floatingip/ipam_crd.go")
	if err != nil {
		return err
	}
	fd, err = c.Fn("crdIpam", "ConfigurePool")
	if err != nil {
		return err
	}
	if norm(c.Src(fd.Type)) != "func(floatIPs []*FloatingIPPool) error" {
		return fmt.Errorf("crdIpam.ConfigurePool: parameter is not `floatIPs []*FloatingIPPool`")
	}
	derefs := false
	ast.Inspect(fd.Body, func(n ast.Node) bool {
		if rs, ok := n.(*ast.RangeStmt); ok && c.Src(rs.X) == "floatIPs" && rs.Value != nil {
			if k, _ := derefGuard(c, rs.Body, c.Src(rs.Value)); k > 0 {
				derefs = true
			}
		}
		return true
	})
	if !derefs {
		return fmt.Errorf("crdIpam.ConfigurePool: no `for _, fipConf := range floatIPs { fipConf.X }`; update the model")
	}
	var before token.Pos
	if sc := firstCall(c, fd.Body, "sort.Sort"); sc != nil {
		before = sc.Pos()
	}
	o.def("`crdIpam.ConfigurePool`: rejects a nil pool itself before touching the list", "configurePoolRejectsNilPool : Bool",
		fg.LeanBool(nilElemRejected(c, fd, "floatIPs", before)))
	return nil
}

// ---------------------------------------------------------------- 11. policy sync

func genPolicy(repo string, o *out) error {
	p, err := fg.ParseFile(repo, "pkg/policy/policy.go")
	if err != nil {
		return err
	}
	for _, d := range []struct{ fn, lean, rule, rules, spec string }{
		{"syncIngressInIPSet", "syncIngress", "policy.ingressRule", "srcRules", "policy.np.Spec.Ingress"},
		{"syncEgressInIPSet", "syncEgress", "policy.egressRule", "dstRules", "policy.np.Spec.Egress"},
	} {
		fd, err := p.Fn("PolicyManager", d.fn)
		if err != nil {
			return err
		}
		var loop *ast.RangeStmt
		for _, s := range fd.Body.List {
			if rs, ok := s.(*ast.RangeStmt); ok && norm(p.Src(rs.X)) == d.spec && rs.Key != nil && p.Src(rs.Key) == "i" {
				loop = rs
			}
		}
		if loop == nil {
			return fmt.Errorf("%s: no top-level `for i, … := range %s`", d.fn, d.spec)
		}
		n, g := derefGuard(p, fd.Body, d.rule)
		if n == 0 {
			return fmt.Errorf("%s: %s is not dereferenced; update the model", d.fn, d.rule)
		}
		slice := d.rule + "." + d.rules
		in, ig := indexGuard(p, fd.Body, slice, "i")
		if in == 0 {
			return fmt.Errorf("%s: %s[i] is not used; update the model", d.fn, slice)
		}
		tn, tg := derefGuard(p, fd.Body, slice+"[i].ipTable")
		if tn == 0 {
			return fmt.Errorf("%s: %s[i].ipTable is not dereferenced; update the model", d.fn, slice)
		}
		o.def("`"+d.fn+"`: `"+d.rule+"` is dereferenced only after `if "+d.rule+" == nil { return }`", d.lean+"NilGuard : Bool", fg.LeanBool(g))
		o.def("`"+d.fn+"`: `"+slice+"[i]` is evaluated only after `i >= len("+slice+")` was excluded", d.lean+"IndexGuard : Bool", fg.LeanBool(ig))
		o.def("`"+d.fn+"`: `"+slice+"[i].ipTable` is dereferenced only after its nil check", d.lean+"TableGuard : Bool", fg.LeanBool(tg))
	}
	fd, err := p.Fn("PolicyManager", "SyncPodIPInIPSet")
	if err != nil {
		return err
	}
	body := norm(p.Src(fd.Body))
	if !strings.Contains(body, "p.syncIngressInIPSet(&policy, pod, add) p.syncEgressInIPSet(&policy, pod, add)") {
		return fmt.Errorf("SyncPodIPInIPSet: does not call syncIngressInIPSet then syncEgressInIPSet for every policy")
	}
	n1, g1 := derefGuard(p, fd.Body, "policy.ingressRule")
	n2, g2 := derefGuard(p, fd.Body, "policy.egressRule")
	if n1 == 0 || n2 == 0 {
		return fmt.Errorf("SyncPodIPInIPSet: policy.ingressRule / policy.egressRule are not dereferenced; update the model")
	}
	o.def("`SyncPodIPInIPSet`: `policy.ingressRule.dstIPTable` is used only under `policy.ingressRule != nil`", "syncPodIngressNilGuard : Bool", fg.LeanBool(g1))
	o.def("`SyncPodIPInIPSet`: `policy.egressRule.srcIPTable` is used only under `policy.egressRule != nil`", "syncPodEgressNilGuard : Bool", fg.LeanBool(g2))
	// the selected-pod block tries ingress first, egress only when there is no ingress rule
	var ifs *ast.IfStmt
	ast.Inspect(fd.Body, func(n ast.Node) bool {
		if is, ok := n.(*ast.IfStmt); ok && ifs == nil && norm(p.Src(is.Cond)) == "policy.ingressRule != nil" {
			ifs = is
		}
		return true
	})
	if ifs == nil || ifs.Else == nil || !strings.Contains(p.Src(ifs.Else), "policy.egressRule.srcIPTable") || strings.Contains(p.Src(ifs.Body), "egressRule") {
		return fmt.Errorf("SyncPodIPInIPSet: expected `if policy.ingressRule != nil { …dstIPTable… } else … { …egressRule.srcIPTable… }`")
	}
	// policyResult builds the rules: dstIPTable / srcIPTable are always set, one rule per spec rule
	fd, err = p.Fn("PolicyManager", "policyResult")
	if err != nil {
		return err
	}
	body = norm(p.Src(fd.Body))
	o.def("`policyResult`: `inRules = &ingressRule{dstIPTable: tbl}` and `eRules = &egressRule{srcIPTable: tbl}` with `tbl` checked by `if err != nil { return }`",
		"policyResultSetsTables : Bool", fg.LeanBool(strings.Contains(body, "inRules = &ingressRule{dstIPTable: tbl}") &&
			strings.Contains(body, "eRules = &egressRule{srcIPTable: tbl}") &&
			strings.HasPrefix(body, "{ tbl, err := p.podSelectorToTable(&np.Spec.PodSelector, np.Namespace) if err != nil { return nil, nil, err }")))
	o.def("`policyResult`: appends exactly one rule per spec rule (`for i := range np.Spec.Ingress { … inRules.srcRules = append(inRules.srcRules, *rule) }`, same for egress)",
		"policyResultOneRulePerSpecRule : Bool", fg.LeanBool(strings.Count(body, "inRules.srcRules = append(inRules.srcRules, *rule)") == 1 &&
			strings.Count(body, "eRules.dstRules = append(eRules.dstRules, *rule)") == 1 &&
			strings.Contains(body, "for i := range np.Spec.Ingress {") && strings.Contains(body, "for i := range np.Spec.Egress {") &&
			!strings.Contains(body, "continue")))
	return nil
}

func main() {
	fg.Run("total", func(repo string) (map[string]string, error) {
		o := &out{}
		o.b.WriteString(fg.Header("loop shapes, index / slice guards, nil checks of the functions of model M10 (C18)",
			"pkg/ipam/floatingip/ipam_crd.go", "pkg/utils/page/page.go", "pkg/ipam/api/api.go", "pkg/api/galaxy/constant/constant.go",
			"pkg/ipam/schedulerplugin/{floatingip_plugin,resync,ipam}.go", "pkg/ipam/schedulerplugin/util/utils.go", "pkg/utils/nets/ip.go",
			"pkg/utils/iptables/save_restore.go", "pkg/api/cniutil/cni.go", "pkg/api/k8s/k8s.go", "pkg/galaxy/server.go",
			"pkg/ipam/floatingip/floatingip.go", "pkg/policy/policy.go"))
		o.b.WriteString("set_option linter.unusedVariables false\nnamespace Galaxy.Generated.Total\n\n")
		for _, g := range []func(string, *out) error{genWalk, genWalkConfigured, genPage, genPolicyStr, genPodIndex, genParseKey, genIPNet, genChainLines,
			genCmdDel, genNetworks, genConf, genPolicy} {
			if err := g(repo, o); err != nil {
				return nil, err
			}
		}
		o.b.WriteString("end Galaxy.Generated.Total\n")
		return map[string]string{"Total.lean": o.b.String()}, nil
	})
}
