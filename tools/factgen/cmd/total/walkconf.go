package main

// 1b. walkConfiguredIPRanges (D22): the request-driven walks (requested ranges of a pod annotation) must go through
// the walk that is clipped to the configured pool ranges, not through walkIPRanges over the raw requested range.

import (
	"fmt"
	"go/ast"
	"strings"

	"factgen/fg"
)

func genWalkConfigured(repo string, o *out) error {
	p, err := fg.ParseFile(repo, "pkg/ipam/floatingip/ipam_crd.go")
	if err != nil {
		return err
	}
	// which walk does each request-driven function use (calls with a closure argument)
	sites := []string{"NodeSubnetsByIPRanges", "AllocateInSubnetsAndIPRange", "ByKeyAndIPRanges"}
	var pairs []string
	all := true
	for _, fn := range sites {
		fd, err := p.Fn("crdIpam", fn)
		if err != nil {
			return err
		}
		conf, raw := 0, 0
		ast.Inspect(fd.Body, func(n ast.Node) bool {
			c, ok := n.(*ast.CallExpr)
			if !ok {
				return true
			}
			switch f := c.Fun.(type) {
			case *ast.SelectorExpr:
				if f.Sel.Name == "walkConfiguredIPRanges" {
					conf++
				}
			case *ast.Ident:
				if f.Name == "walkIPRanges" {
					raw++
				}
			}
			return true
		})
		use := "none"
		switch {
		case conf > 0 && raw == 0:
			use = "walkConfiguredIPRanges"
		case conf == 0 && raw > 0:
			use = "walkIPRanges"
		case conf > 0 && raw > 0:
			use = "both"
		}
		if use != "walkConfiguredIPRanges" {
			all = false
		}
		pairs = append(pairs, fmt.Sprintf("(%s, %s)", fg.LeanStr(fn), fg.LeanStr(use)))
	}
	o.def("which range walk the request-driven functions of crdIpam call (requested ranges come from a pod annotation)",
		"requestWalkSites : List (String × String)", "["+strings.Join(pairs, ", ")+"]")
	// shape of walkConfiguredIPRanges
	clampLow, clampHigh, keep, less := "", "", "", ""
	iterates, delegates := false, false
	if fd, err := p.Fn("crdIpam", "walkConfiguredIPRanges"); err == nil {
		var rangeExprs []string
		ast.Inspect(fd.Body, func(n ast.Node) bool {
			switch v := n.(type) {
			case *ast.RangeStmt:
				rangeExprs = append(rangeExprs, norm(p.Src(v.X)))
			case *ast.IfStmt:
				src := norm(p.Src(v))
				cond := norm(p.Src(v.Cond))
				switch {
				case cond == "lo < first" && strings.Contains(src, "lo = first"):
					clampLow = src
				case cond == "hi > last" && strings.Contains(src, "hi = last"):
					clampHigh = src
				case cond == "lo <= hi" && strings.Contains(src, "parts = append(parts"):
					keep = cond
				}
			case *ast.CallExpr:
				f := norm(p.Src(v.Fun))
				if f == "sort.Slice" && len(v.Args) == 2 && norm(p.Src(v.Args[0])) == "parts" {
					if lit, ok := v.Args[1].(*ast.FuncLit); ok && len(lit.Body.List) == 1 {
						if ret, ok := lit.Body.List[0].(*ast.ReturnStmt); ok && len(ret.Results) == 1 {
							less = norm(p.Src(ret.Results[0]))
						}
					}
				}
				if f == "walkIPRanges" && len(v.Args) == 2 && norm(p.Src(v.Args[0])) == "parts" {
					delegates = true
				}
			}
			return true
		})
		iterates = has(rangeExprs, "ci.FloatingIPs") && has(rangeExprs, "pool.IPRanges") && has(rangeExprs, "ranges")
	}
	shapeOK := clampLow != "" && clampHigh != "" && keep != "" && iterates && delegates &&
		less == "nets.IPToInt(parts[i].First) < nets.IPToInt(parts[j].First)"
	o.def("`walkConfiguredIPRanges`: lower clamp of a configured range to the requested one", "wcClampLow : String", fg.LeanStr(clampLow))
	o.def("`walkConfiguredIPRanges`: upper clamp", "wcClampHigh : String", fg.LeanStr(clampHigh))
	o.def("`walkConfiguredIPRanges`: a clipped part is kept iff", "wcKeep : String", fg.LeanStr(keep))
	o.def("`walkConfiguredIPRanges`: order of the parts (sort.Slice less)", "wcSortLess : String", fg.LeanStr(less))
	o.def("`walkConfiguredIPRanges`: iterates the requested ranges, ci.FloatingIPs and each pool's IPRanges, and hands the parts to walkIPRanges",
		"wcIteratesAndDelegates : Bool", fg.LeanBool(iterates && delegates))
	o.def("every request-driven site walks only the configured part of the requested ranges, and walkConfiguredIPRanges has the shape "+
		"the model `walkConfigured` mirrors (clip each configured range to the request, keep the non-empty parts, sort by first address, walk them)",
		"requestWalksAreClipped : Bool", fg.LeanBool(all && shapeOK))
	return nil
}
