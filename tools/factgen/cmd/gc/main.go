// factgen translator "gc" (property C17): regenerates lean/Galaxy/Generated/Gc.lean from the CURRENT text of
// pkg/gc/flannel_gc.go.  Every function is first NORMALISED (factgen/semnorm, see /verif/harmless/NORMALISE.md:
// alpha-renaming, inlining of single-assignment locals and of `x, err := f()` results, conditions as sets of conjuncts,
// guard clauses ≡ nested ifs, De Morgan, switch ≡ if-chain, log statements and error texts dropped); the facts are
// read off the normal form:
//
//   - the container state strings that count as "gone" (the constants State.Status is compared with on a `return true` path),
//   - the decision table of shouldCleanup: for every `return true` the SET of conditions under which it is reached
//     (a changed, added or removed path changes the table and breaks the pinned fact theorem), and the vetoes
//     (`return false` inside a loop) that precede it,
//   - shouldCleanupFailsSafe: every `return true` reached with a failed inspect / pod lookup lies under a not-found
//     test, and the function falls through to `return false`,
//   - the collectors: the single removal per collector with the exact set of conditions guarding it, the container
//     id expression, callback before an unconditional remove, no way to leave a round early.
//
// Constants that cannot be extracted make the translator fail; structural facts that no longer hold are emitted as
// `false` with the reason.
package main

import (
	"fmt"
	"go/ast"
	"go/token"
	"regexp"
	"sort"
	"strings"

	"factgen/fg"
	"factgen/semnorm"
)

func main() { fg.Run("gc", gen) }

func squash(s string) string { return strings.Join(strings.Fields(s), " ") }

// abbreviations of the inlined runtime calls, longest first (readability of the pinned table only)
func abbreviate(s string) string {
	cri := "recv.dockerCli.ContainedInspectContainer($0)"
	pod := "recv.kubeCli.CoreV1().Pods(CRI#0.Annotations[SandboxNamespace]).Get(context.Background(), CRI#0.Annotations[SandboxName], metav1.GetOptions{})"
	s = strings.ReplaceAll(s, cri, "CRI")
	s = strings.ReplaceAll(s, pod, "POD")
	s = strings.ReplaceAll(s, "recv.dockerCli.DockerInspectContainer($0)", "DOCKER")
	return s
}

func has(set []string, x string) bool {
	for _, s := range set {
		if s == x {
			return true
		}
	}
	return false
}

func sameSet(a, b []string) bool {
	if len(a) != len(b) {
		return false
	}
	for _, x := range a {
		if !has(b, x) {
			return false
		}
	}
	return true
}

func leanList(xs []string) string {
	var q []string
	for _, x := range xs {
		q = append(q, fg.LeanStr(x))
	}
	return "[" + strings.Join(q, ",\n   ") + "]"
}

// decision is what gen reads off shouldCleanup.
type decision struct {
	states                []string   // names of the constants State.Status is compared with
	truePaths             [][]string // sorted
	vetoes                [][]string // loops + conditions of `return false` inside a loop
	failSafe, guardsNil   bool
	why                   string
	env                   string
	boolOnly, endsInFalse bool
}

var (
	reState = regexp.MustCompile(`DOCKER#0\.State\.Status == (\w+)`)
	reEnv   = regexp.MustCompile(`^os\.Getenv\("([^"]+)"\) != ""$`)
)

func analyseShouldCleanup(fset *token.FileSet, sc *ast.FuncDecl) (*decision, error) {
	d := &decision{failSafe: true}
	es := semnorm.Analyze(fset, sc, nil)
	seenState := map[string]bool{}
	for _, e := range es {
		var conds []string
		for _, c := range e.Conds {
			conds = append(conds, abbreviate(c))
		}
		sort.Strings(conds)
		if strings.HasPrefix(e.Text, "return true") {
			for _, c := range conds {
				for _, m := range reState.FindAllStringSubmatch(c, -1) {
					if !seenState[m[1]] {
						seenState[m[1]] = true
						d.states = append(d.states, m[1])
					}
				}
			}
		}
		switch {
		case e.Text == "return true" && len(e.Loops) == 0:
			d.truePaths = append(d.truePaths, conds)
			onErr, notFound := false, false
			for _, c := range conds {
				if c == "DOCKER#1 != nil" || c == "CRI#1 != nil" || c == "POD#1 != nil" {
					onErr = true
				}
				if c == "DOCKER#1.(docker.ContainerNotFoundError)#1" || c == "status.FromError(CRI#1)#0.Code() == codes.NotFound" ||
					c == "apierrors.IsNotFound(POD#1)" {
					notFound = true
				}
				if reState.MatchString(c) && has(conds, "DOCKER#0.State != nil") {
					d.guardsNil = true
				}
				if m := reEnv.FindStringSubmatch(c); m != nil {
					d.env = m[1]
				}
			}
			if onErr && !notFound {
				d.failSafe = false
				d.why = "a `return true` is reached after a failed call without a not-found test: " + strings.Join(conds, " && ")
			}
		case e.Text == "return false" && len(e.Loops) > 0:
			var l []string
			for _, x := range e.Loops {
				l = append(l, abbreviate(x))
			}
			d.vetoes = append(d.vetoes, append(l, conds...))
		case e.Text == "return false":
		default:
			// any other effect (a `return true` inside a loop, a returned expression, an assignment, an effectful call)
			d.truePaths = append(d.truePaths, append(conds, "EFFECT "+abbreviate(e.String())))
			d.failSafe = false
			d.why = "shouldCleanup has an effect other than `return true` / `return false`: " + abbreviate(e.String())
		}
	}
	sort.Slice(d.truePaths, func(i, j int) bool {
		return strings.Join(d.truePaths[i], "\x00") < strings.Join(d.truePaths[j], "\x00")
	})
	sort.Strings(d.states)
	last, ok := sc.Body.List[len(sc.Body.List)-1].(*ast.ReturnStmt)
	d.endsInFalse = ok && len(last.Results) == 1 && squash(exprText(fset, last.Results[0])) == "false"
	if !d.endsInFalse {
		d.failSafe = false
		d.why = "the function does not end with `return false`"
	}
	d.boolOnly = sc.Type.Results != nil && len(sc.Type.Results.List) == 1 && len(sc.Type.Results.List[0].Names) <= 1 &&
		exprText(fset, sc.Type.Results.List[0].Type) == "bool"
	if len(d.states) == 0 {
		return nil, fmt.Errorf("shouldCleanup: no `return true` path compares the docker State.Status with a constant")
	}
	if d.env == "" {
		return nil, fmt.Errorf("shouldCleanup: no path is selected by `os.Getenv(\"…\") != \"\"` (runtime switch)")
	}
	return d, nil
}

func exprText(fset *token.FileSet, n ast.Node) string {
	p := &fg.Parsed{Fset: fset}
	return p.Src(n)
}

// sweep is what gen reads off one collector.
type sweep struct {
	removal *semnorm.Effect // the only effect besides `return nil`
	others  []string
	early   bool // an effect that leaves the round (return / break / goto / panic inside a loop)
}

func analyseSweep(fset *token.FileSet, fd *ast.FuncDecl) sweep {
	var s sweep
	for _, e := range semnorm.Analyze(fset, fd, nil) {
		e := e
		switch {
		case len(e.Loops) == 0 && e.Text == "return nil":
		case len(e.Loops) > 0 && (strings.HasPrefix(e.Text, "return") || strings.HasPrefix(e.Text, "break") ||
			strings.HasPrefix(e.Text, "goto") || strings.HasPrefix(e.Text, "panic(")):
			s.early = true
		case s.removal == nil && (strings.Contains(e.Text, "removeLeaky") || strings.Contains(e.Text, "os.Remove")):
			s.removal = &e
		default:
			s.others = append(s.others, e.String())
		}
	}
	return s
}

func gen(repo string) (map[string]string, error) {
	p, err := fg.ParseFile(repo, "pkg/gc/flannel_gc.go")
	if err != nil {
		return nil, err
	}
	var b strings.Builder
	b.WriteString(fg.Header("GC decision table and collector shape (C17), read off the normalised functions", "pkg/gc/flannel_gc.go"))
	b.WriteString("namespace Galaxy.Generated.Gc\n\n")
	def := func(name, typ, val, comment string) {
		fmt.Fprintf(&b, "/-- %s -/\ndef %s : %s := %s\n\n", comment, name, typ, val)
	}
	fact := func(name string, holds bool, comment, why string) {
		if !holds {
			comment += " — NOT FOUND in the current source: " + squash(why)
		}
		def(name, "Bool", fg.LeanBool(holds), comment)
	}

	sc, err := p.Fn("flannelGC", "shouldCleanup")
	if err != nil {
		return nil, err
	}
	d, err := analyseShouldCleanup(p.Fset, sc)
	if err != nil {
		return nil, err
	}
	var vals []string
	for _, s := range d.states {
		v, err := p.ConstString(s)
		if err != nil {
			return nil, fmt.Errorf("shouldCleanup compares State.Status with %s, which is not a string constant of the file", s)
		}
		vals = append(vals, v)
	}
	sort.Strings(vals)
	def("exitedStates", "List String", leanList(vals), "docker states for which shouldCleanup answers true (the constants State.Status is compared with on a `return true` path), sorted")
	fact("stateTestGuardsNilState", d.guardsNil, "the state test is reached only under `c.State != nil`", "no `State != nil` conjunct on the state path")
	var rows []string
	for _, pa := range d.truePaths {
		rows = append(rows, "  "+leanList(pa))
	}
	def("cleanupTruePaths", "List (List String)", "[\n"+strings.Join(rows, ",\n")+"]",
		"shouldCleanup: for every `return true`, the sorted SET of conditions under which it is reached (normal form: DOCKER / CRI = the inspect call, POD = the pod lookup, #0 / #1 = its results; names, nesting, guard clauses and order of the branches do not matter)")
	rows = nil
	for _, v := range d.vetoes {
		rows = append(rows, "  "+leanList(v))
	}
	def("cleanupVetoes", "List (List String)", "[\n"+strings.Join(rows, ",\n")+"]",
		"shouldCleanup: `return false` inside a loop: the loop and the conditions (a waiting or running container vetoes the clean-up)")
	fact("shouldCleanupFailsSafe", d.failSafe,
		"shouldCleanup: every `return true` reached after a failed inspect call / pod lookup lies under a not-found test (docker.ContainerNotFoundError / codes.NotFound / apierrors.IsNotFound), there is no other effect, and the function falls through to `return false`",
		d.why)
	def("containerdEnv", "String", fg.LeanStr(d.env), "environment variable that selects the containerd (CRI) branch")
	fact("shouldCleanupReturnsOnlyBool", d.boolOnly, "shouldCleanup(cid string) bool — no error result that a collector could propagate",
		"result list is now "+squash(p.Src(sc.Type)))

	// ---- collectors
	ci, err := p.Fn("flannelGC", "cleanupIP")
	if err != nil {
		return nil, err
	}
	is := analyseSweep(p.Fset, ci)
	dir := "elem(recv.allocatedIPDir)"
	fi := "elem(ioutil.ReadDir(" + dir + ")#0)"
	file := "filepath.Join(" + dir + ", " + fi + ".Name())"
	data := "ioutil.ReadFile(" + file + ")"
	cid := "strings.TrimSpace(strings.Split(string(" + data + "#0), \"\\n\")[0])"
	var rc []string
	rtext, rloops := "", ""
	if is.removal != nil {
		rc, rtext, rloops = is.removal.Conds, is.removal.Text, strings.Join(is.removal.Loops, " > ")
	}
	nf := "normal form of the removal: [" + rloops + "] {" + strings.Join(rc, " && ") + "} " + rtext + "; other effects: " + strings.Join(is.others, " ;; ")
	fact("ipSweepSkipsDirsAndNonIPNames", has(rc, "!"+fi+".IsDir()") && has(rc, "len(net.ParseIP("+fi+".Name())) != 0"),
		"cleanupIP: an entry is considered only if it is not a directory and its name parses as an IP (`if fi.IsDir() || len(net.ParseIP(fi.Name())) == 0 { continue }`)", nf)
	fact("ipSweepSkipsUnreadableOrEmpty", has(rc, data+"#1 == nil") && has(rc, "len("+data+"#0) != 0"),
		"cleanupIP: … and the file can be read and is not empty", nf)
	fact("ipSweepCidIsFirstLineTrimmed", rtext == "removeLeakyIPFile("+file+", "+cid+")" && has(rc, "recv.shouldCleanup("+cid+")"),
		"cleanupIP: container id = TrimSpace(first line of the file); the file removed is the one read", nf)
	fact("ipSweepRemovesOnlyIfShouldCleanup", is.removal != nil && len(is.others) == 0 &&
		sameSet(rc, []string{"!" + fi + ".IsDir()", "len(net.ParseIP(" + fi + ".Name())) != 0", data + "#1 == nil", "len(" + data + "#0) != 0",
			"ioutil.ReadDir(" + dir + ")#1 == nil", "recv.shouldCleanup(" + cid + ")"}),
		"cleanupIP: the only effect is the removal, guarded by exactly: readable directory, not a sub-directory, IP name, readable non-empty file, shouldCleanup(container id)", nf)
	fact("ipSweepReadInspectRemoveSameIteration", is.removal != nil && len(is.others) == 0 &&
		rloops == "range recv.allocatedIPDir > range ioutil.ReadDir("+dir+")#0" &&
		rtext == "removeLeakyIPFile("+file+", "+cid+")" && has(rc, "recv.shouldCleanup("+cid+")"),
		"cleanupIP: ReadFile of a path, shouldCleanup of the id read from it and the removal of THAT path happen in the same iteration of the entry loop (the owner is read immediately before it is judged; no map / list of paths is built beforehand and removed later)", nf)
	fact("ipSweepSkipsMissingDir", rloops == "range recv.allocatedIPDir > range ioutil.ReadDir("+dir+")#0" && has(rc, "ioutil.ReadDir("+dir+")#1 == nil"),
		"cleanupIP: every directory of allocatedIPDir, unreadable ones skipped", nf)
	cg, err := p.Fn("flannelGC", "cleanupGCDirs")
	if err != nil {
		return nil, err
	}
	gs := analyseSweep(p.Fset, cg)
	gdir := "elem(recv.gcDirs)"
	gfi := "elem(ioutil.ReadDir(" + gdir + ")#0)"
	rc, rtext, rloops = nil, "", ""
	if gs.removal != nil {
		rc, rtext, rloops = gs.removal.Conds, gs.removal.Text, strings.Join(gs.removal.Loops, " > ")
	}
	nf = "normal form of the removal: [" + rloops + "] {" + strings.Join(rc, " && ") + "} " + rtext + "; other effects: " + strings.Join(gs.others, " ;; ")
	fact("gcSweepSkipsDirs", has(rc, "!"+gfi+".IsDir()"), "cleanupGCDirs: sub-directories are skipped (`if fi.IsDir() { continue }`)", nf)
	fact("gcSweepRemovesOnlyIfShouldCleanup", gs.removal != nil && len(gs.others) == 0 &&
		rtext == "recv.removeLeakyStateFile(filepath.Join("+gdir+", "+gfi+".Name()))" &&
		rloops == "range recv.gcDirs > range ioutil.ReadDir("+gdir+")#0" &&
		sameSet(rc, []string{"!" + gfi + ".IsDir()", "ioutil.ReadDir(" + gdir + ")#1 == nil", "recv.shouldCleanup(" + gfi + ".Name())"}),
		"cleanupGCDirs: the only effect is removeLeakyStateFile(dir/name), for every directory of gcDirs, guarded by exactly: readable directory, not a sub-directory, shouldCleanup(file name)", nf)
	fact("sweepsNeverEndTheRoundEarly", !is.early && !gs.early,
		"cleanupIP / cleanupGCDirs: no return, break, goto or panic inside the directory and entry loops: one entry's inspect error cannot keep the collector from the entries and directories after it",
		"a loop of cleanupIP or cleanupGCDirs can now be left early")
	rl, err := p.Fn("flannelGC", "removeLeakyStateFile")
	if err != nil {
		return nil, err
	}
	var rls []string
	for _, e := range semnorm.Analyze(p.Fset, rl, nil) {
		rls = append(rls, e.String())
	}
	fact("stateFileRemovedAfterCallbackWhateverItsResult",
		len(rls) == 2 && rls[0] == "[] {} call recv.cleanPortFunc(filepath.Base($0))" && rls[1] == "[] {} call os.Remove($0)",
		"removeLeakyStateFile: cleanPortFunc(base name) first (its error is only logged), then os.Remove(file) unconditionally", strings.Join(rls, " ;; "))
	ri, err := p.Fn("", "removeLeakyIPFile")
	if err != nil {
		return nil, err
	}
	rls = nil
	for _, e := range semnorm.Analyze(p.Fset, ri, nil) {
		rls = append(rls, e.String())
	}
	fact("ipFileRemovalIsOsRemove", len(rls) == 1 && rls[0] == "[] {} call os.Remove($0)", "removeLeakyIPFile = os.Remove(ipFile), unconditionally", strings.Join(rls, " ;; "))

	b.WriteString("end Galaxy.Generated.Gc\n")
	return map[string]string{"Gc.lean": b.String()}, nil
}
