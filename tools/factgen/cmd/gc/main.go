// factgen translator "gc" (property C17): regenerates lean/Galaxy/Generated/Gc.lean from the CURRENT text of
// pkg/gc/flannel_gc.go:
//
//   - the container state strings that count as "gone" (ContainerExited / ContainerDead as used in shouldCleanup),
//   - the decision table of shouldCleanup as the list of enclosing conditions of every `return true`
//     (a changed, added or removed path changes the table and breaks the pinned fact theorem),
//   - shouldCleanupFailsSafe: every `return true` that lies on an error branch lies under a not-found test, and the
//     function falls through to `return false`,
//   - the skip / extraction shape of the two file collectors and of removeLeakyStateFile.
//
// Syntactic only (go/ast, stdlib).  Constants that cannot be extracted make the translator fail; structural facts
// that no longer hold are emitted as `false` with the reason.
package main

import (
	"fmt"
	"go/ast"
	"go/token"
	"strings"

	"factgen/fg"
)

func main() { fg.Run("gc", gen) }

func squash(s string) string { return strings.Join(strings.Fields(s), " ") }

// truePaths walks a statement list and records, for every `return true`, the conditions of the enclosing if
// statements ("!(" + cond + ")" for an else branch; "init; cond" when the if has an init statement; "for …" for loops).
func truePaths(p *fg.Parsed, list []ast.Stmt, ctx []string, out *[][]string, falses *int) {
	for _, s := range list {
		switch x := s.(type) {
		case *ast.ReturnStmt:
			if len(x.Results) == 1 {
				switch p.Src(x.Results[0]) {
				case "true":
					*out = append(*out, append([]string(nil), ctx...))
				case "false":
					*falses++
				default:
					*out = append(*out, append(append([]string(nil), ctx...), "return "+squash(p.Src(x.Results[0]))))
				}
			}
		case *ast.IfStmt:
			cond := squash(p.Src(x.Cond))
			if x.Init != nil {
				cond = squash(p.Src(x.Init)) + "; " + cond
			}
			truePaths(p, x.Body.List, append(append([]string(nil), ctx...), cond), out, falses)
			switch e := x.Else.(type) {
			case *ast.BlockStmt:
				truePaths(p, e.List, append(append([]string(nil), ctx...), "!("+cond+")"), out, falses)
			case *ast.IfStmt:
				truePaths(p, []ast.Stmt{e}, append(append([]string(nil), ctx...), "!("+cond+")"), out, falses)
			}
		case *ast.ForStmt:
			truePaths(p, x.Body.List, append(append([]string(nil), ctx...), "for"), out, falses)
		case *ast.RangeStmt:
			truePaths(p, x.Body.List, append(append([]string(nil), ctx...), "for range "+squash(p.Src(x.X))), out, falses)
		case *ast.BlockStmt:
			truePaths(p, x.List, ctx, out, falses)
		case *ast.SwitchStmt, *ast.TypeSwitchStmt, *ast.SelectStmt, *ast.LabeledStmt, *ast.BranchStmt:
			*out = append(*out, append(append([]string(nil), ctx...), "untranslated control flow: "+squash(p.Src(s))))
		}
	}
}

func gen(repo string) (map[string]string, error) {
	p, err := fg.ParseFile(repo, "pkg/gc/flannel_gc.go")
	if err != nil {
		return nil, err
	}
	var b strings.Builder
	b.WriteString(fg.Header("GC decision table and collector shape (C17)", "pkg/gc/flannel_gc.go"))
	b.WriteString("namespace Galaxy.Generated.Gc\n\n")
	def := func(name, typ, val, comment string) {
		fmt.Fprintf(&b, "/-- %s -/\ndef %s : %s := %s\n\n", comment, name, typ, val)
	}
	fact := func(name string, holds bool, comment, why string) {
		if !holds {
			comment += " — NOT FOUND in the current source: " + why
		}
		def(name, "Bool", fg.LeanBool(holds), comment)
	}

	sc, err := p.Fn("flannelGC", "shouldCleanup")
	if err != nil {
		return nil, err
	}
	// ---- the docker states that mean "gone": the `c.State.Status == X || …` disjunction guarding a `return true`
	var states []string
	var stateCond string
	ast.Inspect(sc.Body, func(n ast.Node) bool {
		ifs, ok := n.(*ast.IfStmt)
		if !ok || !strings.Contains(p.Src(ifs.Cond), "State.Status ==") {
			return true
		}
		stateCond = squash(p.Src(ifs.Cond))
		ast.Inspect(ifs.Cond, func(m ast.Node) bool {
			be, ok := m.(*ast.BinaryExpr)
			if ok && be.Op == token.EQL && strings.HasSuffix(p.Src(be.X), "State.Status") {
				states = append(states, p.Src(be.Y))
			}
			return true
		})
		return false
	})
	if len(states) == 0 {
		return nil, fmt.Errorf("shouldCleanup: no `c.State.Status == <const>` test found")
	}
	var vals []string
	for _, s := range states {
		v, err := p.ConstString(s)
		if err != nil {
			return nil, fmt.Errorf("shouldCleanup compares State.Status with %s, which is not a string constant of the file", s)
		}
		vals = append(vals, fg.LeanStr(v))
	}
	def("exitedStates", "List String", "["+strings.Join(vals, ", ")+"]", "docker states for which shouldCleanup answers true: "+stateCond)
	fact("stateTestGuardsNilState", strings.HasPrefix(stateCond, "c.State != nil && ("),
		"the state test is `c.State != nil && (…)`", stateCond)

	// ---- decision table
	var paths [][]string
	falses := 0
	truePaths(p, sc.Body.List, nil, &paths, &falses)
	var rows []string
	for _, pa := range paths {
		var q []string
		for _, c := range pa {
			q = append(q, fg.LeanStr(c))
		}
		rows = append(rows, "  ["+strings.Join(q, ",\n   ")+"]")
	}
	def("cleanupTruePaths", "List (List String)", "[\n"+strings.Join(rows, ",\n")+"]",
		"shouldCleanup: for every `return true`, the conditions of the enclosing if / else / loop statements, outermost first")
	// fail-safe: a `return true` under an `err != nil` test must also be under a not-found test
	failSafe := true
	why := ""
	for _, pa := range paths {
		onErr, notFound, bad := false, false, false
		for _, c := range pa {
			if strings.Contains(c, "err != nil") && !strings.HasPrefix(c, "!(") {
				onErr = true
			}
			if strings.Contains(c, "docker.ContainerNotFoundError") || strings.Contains(c, "codes.NotFound") ||
				strings.Contains(c, "apierrors.IsNotFound(err)") {
				if !strings.HasPrefix(c, "!(") {
					notFound = true
				}
			}
			if strings.HasPrefix(c, "untranslated") || strings.HasPrefix(c, "return ") {
				bad = true
			}
		}
		if bad || (onErr && !notFound) {
			failSafe = false
			why = strings.Join(pa, " / ")
		}
	}
	last, ok := sc.Body.List[len(sc.Body.List)-1].(*ast.ReturnStmt)
	endsFalse := ok && len(last.Results) == 1 && p.Src(last.Results[0]) == "false"
	if !endsFalse {
		failSafe = false
		why = "the function does not end with `return false`"
	}
	fact("shouldCleanupFailsSafe", failSafe,
		"shouldCleanup: every `return true` on an error branch lies under a not-found test (docker.ContainerNotFoundError / codes.NotFound / apierrors.IsNotFound) and the function falls through to `return false`",
		why)
	// the runtime switch
	envName := ""
	if len(sc.Body.List) > 0 {
		if ifs, ok := sc.Body.List[0].(*ast.IfStmt); ok {
			c := squash(p.Src(ifs.Cond))
			if strings.HasPrefix(c, `os.Getenv("`) && strings.HasSuffix(c, `") != ""`) {
				envName = c[len(`os.Getenv("`) : len(c)-len(`") != ""`)]
			}
		}
	}
	if envName == "" {
		return nil, fmt.Errorf("shouldCleanup: first statement is not `if os.Getenv(\"…\") != \"\"` (runtime switch)")
	}
	def("containerdEnv", "String", fg.LeanStr(envName), "environment variable that selects the containerd (CRI) branch")

	// ---- collectors
	ci, err := p.Fn("flannelGC", "cleanupIP")
	if err != nil {
		return nil, err
	}
	cis := squash(p.Src(ci.Body))
	fact("ipSweepSkipsDirsAndNonIPNames", strings.Contains(cis, "if fi.IsDir() || len(net.ParseIP(fi.Name())) == 0 { continue }"),
		"cleanupIP: `if fi.IsDir() || len(net.ParseIP(fi.Name())) == 0 { continue }`", "skip test changed")
	fact("ipSweepSkipsUnreadableOrEmpty", strings.Contains(cis, "if err != nil || len(containerIdData) == 0 { continue }"),
		"cleanupIP: `if err != nil || len(containerIdData) == 0 { continue }` after ReadFile", "skip test changed")
	fact("ipSweepCidIsFirstLineTrimmed", strings.Contains(cis, `parts := strings.Split(string(containerIdData), "\n") containerId := strings.TrimSpace(parts[0])`),
		"cleanupIP: container id = TrimSpace(first line of the file)", "extraction changed")
	fact("ipSweepRemovesOnlyIfShouldCleanup", strings.Contains(cis, "if gc.shouldCleanup(containerId) { removeLeakyIPFile(ipFile, containerId) }") &&
		strings.Count(cis, "removeLeakyIPFile(") == 1 && strings.Count(cis, "os.Remove") == 0,
		"cleanupIP: the only removal is `if gc.shouldCleanup(containerId) { removeLeakyIPFile(ipFile, containerId) }`", "removal site changed")
	fact("ipSweepSkipsMissingDir", strings.Contains(cis, "fis, err := ioutil.ReadDir(dir) if err != nil { if os.IsNotExist(err) { continue }") &&
		strings.Contains(cis, "for _, dir := range gc.allocatedIPDir"),
		"cleanupIP: every directory of allocatedIPDir, unreadable ones skipped", "loop header changed")
	// no entry (and no directory) can end the round for the others: the collectors' loops contain no return / break /
	// goto / panic, and shouldCleanup has no error result a caller could propagate
	noEarlyExit := func(fd *ast.FuncDecl) bool {
		ok := true
		for _, st := range fd.Body.List {
			loop, isLoop := st.(*ast.RangeStmt)
			if !isLoop {
				continue
			}
			ast.Inspect(loop.Body, func(n ast.Node) bool {
				switch x := n.(type) {
				case *ast.ReturnStmt:
					ok = false
				case *ast.BranchStmt:
					if x.Tok != token.CONTINUE || x.Label != nil {
						ok = false
					}
				case *ast.CallExpr:
					if id, isID := x.Fun.(*ast.Ident); isID && id.Name == "panic" {
						ok = false
					}
				case *ast.FuncLit:
					return false
				}
				return true
			})
		}
		return ok
	}
	boolOnly := sc.Type.Results != nil && len(sc.Type.Results.List) == 1 && len(sc.Type.Results.List[0].Names) <= 1 &&
		p.Src(sc.Type.Results.List[0].Type) == "bool"
	fact("shouldCleanupReturnsOnlyBool", boolOnly, "shouldCleanup(cid string) bool — no error result that a collector could propagate",
		"result list is now "+squash(p.Src(sc.Type)))
	cg, err := p.Fn("flannelGC", "cleanupGCDirs")
	if err != nil {
		return nil, err
	}
	cgs := squash(p.Src(cg.Body))
	fact("gcSweepSkipsDirs", strings.Contains(cgs, "if fi.IsDir() { continue }"), "cleanupGCDirs: `if fi.IsDir() { continue }`", "skip changed")
	fact("gcSweepRemovesOnlyIfShouldCleanup", strings.Contains(cgs, "if gc.shouldCleanup(fi.Name()) { gc.removeLeakyStateFile(filepath.Join(dir, fi.Name())) }") &&
		strings.Count(cgs, "removeLeakyStateFile(") == 1 && strings.Count(cgs, "os.Remove") == 0 && strings.Contains(cgs, "for _, dir := range gc.gcDirs"),
		"cleanupGCDirs: the only removal is `if gc.shouldCleanup(fi.Name()) { gc.removeLeakyStateFile(…) }`, file name = container id", "removal site changed")
	fact("sweepsNeverEndTheRoundEarly", noEarlyExit(ci) && noEarlyExit(cg),
		"cleanupIP / cleanupGCDirs: the directory and entry loops contain no return, break, goto or panic (only `continue`): one entry's inspect error cannot keep the collector from the entries and directories after it",
		"a loop of cleanupIP or cleanupGCDirs can now be left early")
	rl, err := p.Fn("flannelGC", "removeLeakyStateFile")
	if err != nil {
		return nil, err
	}
	okShape := len(rl.Body.List) == 2
	if okShape {
		first := squash(p.Src(rl.Body.List[0]))
		second := squash(p.Src(rl.Body.List[1]))
		okShape = strings.HasPrefix(first, "if err := gc.cleanPortFunc(filepath.Base(file)); err != nil {") && !strings.Contains(first, "return") &&
			strings.HasPrefix(second, "if err := os.Remove(file);")
	}
	fact("stateFileRemovedAfterCallbackWhateverItsResult", okShape,
		"removeLeakyStateFile: cleanPortFunc(base name) first (its error is only logged), then os.Remove(file) unconditionally", "body changed")
	ri, err := p.Fn("", "removeLeakyIPFile")
	if err != nil {
		return nil, err
	}
	fact("ipFileRemovalIsOsRemove", strings.HasPrefix(squash(p.Src(ri.Body)), "{ if err := os.Remove(ipFile);"), "removeLeakyIPFile = os.Remove(ipFile)", "body changed")

	b.WriteString("end Galaxy.Generated.Gc\n")
	return map[string]string{"Gc.lean": b.String()}, nil
}
