package main

import (
	"go/ast"
	"go/parser"
	"go/token"
	"os"
	"reflect"
	"strings"
	"testing"
)

func parseFn(t *testing.T, src, name string) (*token.FileSet, *ast.FuncDecl) {
	t.Helper()
	fset := token.NewFileSet()
	f, err := parser.ParseFile(fset, "x.go", src, 0)
	if err != nil {
		t.Fatal(err)
	}
	for _, d := range f.Decls {
		if fd, ok := d.(*ast.FuncDecl); ok && fd.Name.Name == name {
			return fset, fd
		}
	}
	t.Fatalf("no function %s", name)
	return nil, nil
}

func realSource(t *testing.T) string {
	repo := os.Getenv("GALAXY_REPO")
	if repo == "" {
		repo = "/repo"
	}
	b, err := os.ReadFile(repo + "/pkg/gc/flannel_gc.go")
	if err != nil {
		t.Skip("galaxy source not available: " + err.Error())
	}
	return string(b)
}

func mustReplace(t *testing.T, s, old, new string) string {
	t.Helper()
	if !strings.Contains(s, old) {
		t.Fatalf("pattern not in source: %q", old)
	}
	return strings.Replace(s, old, new, 1)
}

// a guard-clause rewrite of the docker branch + renamed locals + switch on the state: same table
const dockerRewritten = `	ctr, inspectErr := gc.dockerCli.DockerInspectContainer(cid)
	if inspectErr != nil {
		_, notFound := inspectErr.(docker.ContainerNotFoundError)
		if !notFound {
			glog.Warningf("cannot inspect %s: %v", cid, inspectErr)
			return false
		}
		glog.Infof("%s is gone", cid)
		return true
	}
	if ctr.State == nil {
		return false
	}
	switch ctr.State.Status {
	case ContainerDead, ContainerExited:
		return true
	}
	return false
}
`

func TestShouldCleanupTableIsInsensitiveToHarmlessRewrites(t *testing.T) {
	src := realSource(t)
	fset, fd := parseFn(t, src, "shouldCleanup")
	orig, err := analyseShouldCleanup(fset, fd)
	if err != nil {
		t.Fatal(err)
	}
	if !orig.failSafe || !orig.guardsNil || len(orig.truePaths) != 5 || !reflect.DeepEqual(orig.states, []string{"ContainerDead", "ContainerExited"}) {
		t.Fatalf("unexpected reading of the original: %+v", orig)
	}
	i := strings.Index(src, "	if c, err := gc.dockerCli.DockerInspectContainer(cid); err != nil {")
	j := strings.Index(src, "func removeLeakyIPFile")
	if i < 0 || j < 0 {
		t.Fatal("docker branch not found")
	}
	fset, fd = parseFn(t, src[:i]+dockerRewritten+"\n"+src[j:], "shouldCleanup")
	rew, err := analyseShouldCleanup(fset, fd)
	if err != nil {
		t.Fatal(err)
	}
	if !reflect.DeepEqual(orig.truePaths, rew.truePaths) || !reflect.DeepEqual(orig.vetoes, rew.vetoes) || !rew.failSafe || !rew.guardsNil ||
		!reflect.DeepEqual(orig.states, rew.states) {
		t.Errorf("guard clauses / renaming / switch changed the table:\n orig %v\n rew  %v\n why %s", orig.truePaths, rew.truePaths, rew.why)
	}
}

func TestShouldCleanupSemanticChangesAreSeen(t *testing.T) {
	src := realSource(t)
	fset, fd := parseFn(t, src, "shouldCleanup")
	orig, _ := analyseShouldCleanup(fset, fd)
	for name, mut := range map[string]func(string) string{
		"true on a docker inspect error": func(s string) string {
			return mustReplace(t, s, "\t\t} else {\n\t\t\tglog.Warningf(\"Error inspect container %s: %v\", cid, err)\n\t\t}\n\t} else {\n\t\tif c.State != nil",
				"\t\t} else {\n\t\t\treturn true\n\t\t}\n\t} else {\n\t\tif c.State != nil")
		},
		"pod lookup error treated as gone": func(s string) string {
			return mustReplace(t, s, "if apierrors.IsNotFound(err) {\n\t\t\t\t\t\treturn true\n\t\t\t\t\t}", "if err != nil {\n\t\t\t\t\t\treturn true\n\t\t\t\t\t}")
		},
		"nil State no longer guarded": func(s string) string {
			return mustReplace(t, s, "c.State != nil && (c.State.Status", "(c.State.Status")
		},
		"a third state": func(s string) string {
			return mustReplace(t, s, "|| c.State.Status == ContainerDead)", "|| c.State.Status == ContainerDead || c.State.Status == \"paused\")")
		},
		"running container no longer vetoes": func(s string) string {
			return mustReplace(t, s, "status.State.Waiting != nil || status.State.Running != nil", "status.State.Waiting != nil")
		},
	} {
		fset, fd := parseFn(t, mut(src), "shouldCleanup")
		got, err := analyseShouldCleanup(fset, fd)
		if err != nil {
			continue // a translator failure is also a broken obligation
		}
		if reflect.DeepEqual(orig.truePaths, got.truePaths) && reflect.DeepEqual(orig.vetoes, got.vetoes) && got.failSafe == orig.failSafe && got.guardsNil == orig.guardsNil {
			t.Errorf("%s: not reflected in the table", name)
		}
	}
}

func TestSweepShape(t *testing.T) {
	src := realSource(t)
	fset, fd := parseFn(t, src, "cleanupGCDirs")
	orig := analyseSweep(fset, fd)
	if orig.removal == nil || orig.early || len(orig.others) != 0 {
		t.Fatalf("unexpected reading of cleanupGCDirs: %+v", orig)
	}
	// nested if instead of a guard, named locals: same removal under the same conditions
	rew := mustReplace(t, src, "\t\t\tif fi.IsDir() {\n\t\t\t\tcontinue\n\t\t\t}\n\t\t\tif gc.shouldCleanup(fi.Name()) {\n\t\t\t\tgc.removeLeakyStateFile(filepath.Join(dir, fi.Name()))\n\t\t\t}",
		"\t\t\tname := fi.Name()\n\t\t\tif !fi.IsDir() && gc.shouldCleanup(name) {\n\t\t\t\tpath := filepath.Join(dir, name)\n\t\t\t\tgc.removeLeakyStateFile(path)\n\t\t\t}")
	fset, fd = parseFn(t, rew, "cleanupGCDirs")
	got := analyseSweep(fset, fd)
	if got.removal == nil || got.removal.String() != orig.removal.String() || got.early || len(got.others) != 0 {
		t.Errorf("harmless rewrite changed the normal form:\n orig %v\n got  %v", orig.removal, got.removal)
	}
	// seeded C17-1 style: leave the round at the first error
	abort := mustReplace(t, src, "\t\t\tif gc.shouldCleanup(fi.Name()) {\n\t\t\t\tgc.removeLeakyStateFile(filepath.Join(dir, fi.Name()))\n\t\t\t}",
		"\t\t\tif gc.inspectFailed(fi.Name()) {\n\t\t\t\treturn nil\n\t\t\t}\n\t\t\tif gc.shouldCleanup(fi.Name()) {\n\t\t\t\tgc.removeLeakyStateFile(filepath.Join(dir, fi.Name()))\n\t\t\t}")
	fset, fd = parseFn(t, abort, "cleanupGCDirs")
	if got := analyseSweep(fset, fd); !got.early {
		t.Errorf("a return inside the entry loop was not noticed")
	}
	// an extra guard on the removal (fewer files collected) changes the condition set
	extra := mustReplace(t, src, "if gc.shouldCleanup(fi.Name()) {\n\t\t\t\tgc.removeLeakyStateFile", "if gc.shouldCleanup(fi.Name()) && fi.Size() > 0 {\n\t\t\t\tgc.removeLeakyStateFile")
	fset, fd = parseFn(t, extra, "cleanupGCDirs")
	if got := analyseSweep(fset, fd); got.removal == nil || reflect.DeepEqual(got.removal.Conds, orig.removal.Conds) {
		t.Errorf("an extra guard on the removal was not noticed")
	}
}

// seeded C17-5: owners of all files are read into a map first, the recorded paths are removed later — the removal
// leaves the read's loop iteration and the normal form shows it.
func TestBatchedSweepIsSeen(t *testing.T) {
	src := realSource(t)
	fset, fd := parseFn(t, src, "cleanupIP")
	orig := analyseSweep(fset, fd)
	if orig.removal == nil || len(orig.removal.Loops) != 2 || len(orig.others) != 0 {
		t.Fatalf("unexpected reading of cleanupIP: %+v", orig)
	}
	batched := mustReplace(t, src, "\t\t\tif gc.shouldCleanup(containerId) {\n\t\t\t\tremoveLeakyIPFile(ipFile, containerId)\n\t\t\t}\n\t\t}\n\t}\n\treturn nil",
		"\t\t\treserved[containerId] = append(reserved[containerId], ipFile)\n\t\t}\n\t}\n\tfor containerId, ipFiles := range reserved {\n\t\tif !gc.shouldCleanup(containerId) {\n\t\t\tcontinue\n\t\t}\n\t\tfor _, ipFile := range ipFiles {\n\t\t\tremoveLeakyIPFile(ipFile, containerId)\n\t\t}\n\t}\n\treturn nil")
	batched = mustReplace(t, batched, "\tglog.V(4).Infof(\"cleanup ip...\")\n", "\treserved := make(map[string][]string)\n")
	fset, fd = parseFn(t, batched, "cleanupIP")
	got := analyseSweep(fset, fd)
	if got.removal != nil && got.removal.String() == orig.removal.String() && len(got.others) == 0 {
		t.Errorf("the batched sweep has the same normal form as the per-file sweep")
	}
}
