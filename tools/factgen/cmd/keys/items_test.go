package main

import (
	"strings"
	"testing"
)

func genWith(t *testing.T, edit map[string][][2]string) (string, []string) {
	t.Helper()
	ref, err := loadRef()
	if err != nil {
		t.Fatal(err)
	}
	cur, err := loadRefWith(edit)
	if err != nil {
		t.Fatal(err)
	}
	txt, errs, err := generate(cur, ref)
	if err != nil {
		t.Fatal(err)
	}
	return txt, errs
}

// behaviour-preserving rewrites of the pinned sources must give the same generated text and no shape errors
func TestHarmlessVariants(t *testing.T) {
	base, errs := genWith(t, map[string][][2]string{})
	if len(errs) != 0 {
		t.Fatalf("pinned sources: %v", errs)
	}
	for name, edit := range map[string]map[string][][2]string{
		"GetAppType as if chain": {"utils.go.txt": {{`	switch appTypePrefix {
	case DeploymentPrefixKey:
		return "deployment"
	case StatefulsetPrefixKey:
		return "statefulset"
	default:
		if len(appTypePrefix) > 0 {
			return appTypePrefix[:len(appTypePrefix)-1]
		} else {
			return ""
		}
	}`, `	if appTypePrefix == StatefulsetPrefixKey {
		return "statefulset"
	}
	if DeploymentPrefixKey == appTypePrefix {
		return "deployment"
	}
	if len(appTypePrefix) == 0 {
		return ""
	}
	return appTypePrefix[:len(appTypePrefix)-1]`}}},
		"GetAppTypePrefix as switch, tests reordered": {"utils.go.txt": {{`	if lower == "statefulset" || lower == "statefulsets" {
		return StatefulsetPrefixKey
	} else if lower == "replicaset" || lower == "deployment" {
		return DeploymentPrefixKey
	}
	return lower + "_"`, `	switch lower {
	case "deployment", "replicaset":
		return DeploymentPrefixKey
	case "statefulsets", "statefulset":
		return StatefulsetPrefixKey
	}
	return fmt.Sprintf("%s_", lower)`}}},
		"genKey with concatenation and guard clauses": {"utils.go.txt": {{`	var prefix string
	if k.PoolName != "" {
		prefix = fmt.Sprintf("%s%s_", poolPrefix, k.PoolName)
		if k.AppName == "" {
			k.KeyInDB = prefix
			return
		}
	}
	if k.PoolName == "" && k.AppName == "" && k.Namespace == "" {
		k.KeyInDB = ""
		return
	}
	k.KeyInDB = fmt.Sprintf("%s%s%s_%s_%s", prefix, k.AppTypePrefix, k.Namespace, k.AppName, k.PodName)`,
			`	hasPool := k.PoolName != ""
	pfx := ""
	if hasPool {
		pfx = poolPrefix + k.PoolName + "_"
	}
	if k.AppName == "" && hasPool {
		k.KeyInDB = pfx
		return
	}
	if !hasPool && k.AppName == "" && k.Namespace == "" {
		k.KeyInDB = ""
		return
	}
	k.KeyInDB = pfx + k.AppTypePrefix + k.Namespace + "_" + k.AppName + "_" + k.PodName`}}},
		"resolvePodKey with renamed local and else": {"utils.go.txt": {{`	parts := strings.Split(key, "_")
	if len(parts) == 4 {
		return parts[0] + "_", parts[2], parts[3], parts[1]
	}
	return "", "", "", ""`, `	fields := strings.Split(key, "_")
	if len(fields) != 4 {
		return "", "", "", ""
	} else {
		return fmt.Sprintf("%s_", fields[0]), fields[2], fields[3], fields[1]
	}`}}},
		"appType default extracted into a helper": {"api.go.txt": {
			{`		var appTypePrefix string
		if appType == "" {
			appTypePrefix = util.StatefulsetPrefixKey
		} else {
			appTypePrefix = util.GetAppTypePrefix(appType)
		}
`, "		appTypePrefix := appTypePrefixOrDefault(appType)\n"},
			{`		var appTypePrefix string
		if temp.AppType == "" {
			appTypePrefix = util.StatefulsetPrefixKey
		} else {
			appTypePrefix = util.GetAppTypePrefix(temp.AppType)
		}
`, "		appTypePrefix := appTypePrefixOrDefault(temp.AppType)\n"},
			{"// listIPs lists ips from ipams", `func appTypePrefixOrDefault(appType string) string {
	if appType == "" {
		return util.StatefulsetPrefixKey
	}
	return util.GetAppTypePrefix(appType)
}

// listIPs lists ips from ipams`}}},
		"ReleaseIPs ranges over values, renamed": {"api.go.txt": {{`	for i := range releaseIPReq.IPs {
		temp := releaseIPReq.IPs[i]
		ip := net.ParseIP(temp.IP)`, `	for i := range releaseIPReq.IPs {
		temp := releaseIPReq.IPs[i] // copy
		glog.V(5).Infof("entry %v", temp)
		ip := net.ParseIP(temp.IP)`}}},
		"clamps with guard clauses, pagination with temporaries": {"page.go.txt": {
			{`		if err != nil || size <= 0 {
			size = DefaultSize
		} else if size > 9999 {
			size = 9999
		}`, `		if err != nil {
			return DefaultSize
		}
		if size <= 0 {
			return DefaultSize
		}
		if size > 9999 {
			return 9999
		}`},
			{`	start := min(page*size, len)
	end := min(start+size, len)
	return start, end, size`, `	first := min(page*size, len)
	last := first + size
	return first, min(last, len), size`}}},
	} {
		txt, errs := genWith(t, edit)
		if len(errs) != 0 {
			t.Errorf("%s: shape errors: %v", name, errs)
		}
		if txt != base {
			t.Errorf("%s: generated text differs:\n%s", name, lineDiff(base, txt))
		}
	}
}

func lineDiff(a, b string) string {
	la, lb := strings.Split(a, "\n"), strings.Split(b, "\n")
	var out []string
	for i := 0; i < len(la) && i < len(lb); i++ {
		if la[i] != lb[i] {
			out = append(out, "- "+la[i], "+ "+lb[i])
		}
	}
	return strings.Join(out, "\n")
}

// behaviour-changing edits must change a generated value or be reported in shapeErrors
func TestHarmfulVariants(t *testing.T) {
	base, _ := genWith(t, map[string][][2]string{})
	for name, c := range map[string]struct {
		edit       map[string][][2]string
		wantInText string // substring the generated text must now contain ("" = only a shape error is required)
		wantErr    bool
	}{
		"missing else in ReleaseIPs": {map[string][][2]string{"api.go.txt": {{`		if temp.AppType == "" {
			appTypePrefix = util.StatefulsetPrefixKey
		} else {
			appTypePrefix = util.GetAppTypePrefix(temp.AppType)
		}`, `		if temp.AppType == "" {
			appTypePrefix = util.StatefulsetPrefixKey
		}
		appTypePrefix = util.GetAppTypePrefix(temp.AppType)`}}}, "def releaseDefaultsToSts : Bool := false", true},
		"swapped fields in resolvePodKey": {map[string][][2]string{"utils.go.txt": {{`parts[2], parts[3], parts[1]`, `parts[3], parts[2], parts[1]`}}},
			"def resolveIdx : Nat × Nat × Nat × Nat := (0, 3, 2, 1)", true},
		"five parts":          {map[string][][2]string{"utils.go.txt": {{`len(parts) == 4`, `len(parts) == 5`}}}, "def partCount : Nat := 5", true},
		"off by one page end": {map[string][][2]string{"page.go.txt": {{`min(start+size, len)`, `min(start+size-1, len)`}}}, "+ size) - 1)", false},
		"page cap":            {map[string][][2]string{"page.go.txt": {{`page = 99999`, `page = 9999`}}}, "then 9999 else page", false},
		"NULL case dropped": {map[string][][2]string{"utils.go.txt": {{`	if kind == NoRefAppName {
		// the app type of a pod without owner is listed as NULL, map it back to its prefix instead of "null_"
		return NoRefAppTypePrefix
	}
`, ``}}}, "def appTypePrefixExact : List (List Char × List Char) := []", false},
		"kind trimmed": {map[string][][2]string{"utils.go.txt": {{`lower := strings.ToLower(kind)`, `lower := strings.TrimSuffix(strings.ToLower(kind), "s")`}}}, "", true},
		"helper trims the app type": {map[string][][2]string{"api.go.txt": {{`appTypePrefix = util.GetAppTypePrefix(temp.AppType)`,
			`appTypePrefix = util.GetAppTypePrefix(strings.TrimSuffix(temp.AppType, "s"))`}}}, "TrimSuffix", true},
		"requests overwritten instead of appended": {map[string][][2]string{"api.go.txt": {{`unbindRequests = append(unbindRequests, &schedulerplugin.ReleaseRequest{IP: ip, KeyObj: keyObj})`,
			`unbindRequests = []*schedulerplugin.ReleaseRequest{{IP: ip, KeyObj: keyObj}}`}}}, "", true},
		"key guard dropped in Release": {map[string][][2]string{"bind.go.txt": {{`if fip.Key != k.KeyInDB {`, `if false && fip.Key != k.KeyInDB {`}}},
			"def releaseMatchesKey : Bool := false", false},
		"separator": {map[string][][2]string{"utils.go.txt": {{`fmt.Sprintf("%s%s%s_%s_%s", prefix,`, `fmt.Sprintf("%s%s%s_%s-%s", prefix,`}}}, "['-']", false},
	} {
		txt, errs := genWith(t, c.edit)
		if txt == base && len(errs) == 0 {
			t.Errorf("%s: not noticed", name)
			continue
		}
		if c.wantInText != "" && !strings.Contains(txt, c.wantInText) {
			t.Errorf("%s: generated text lacks %q; shape errors: %v\n%s", name, c.wantInText, errs, lineDiff(base, txt))
		}
		if c.wantErr && len(errs) == 0 {
			t.Errorf("%s: expected a shape error", name)
		}
	}
}
