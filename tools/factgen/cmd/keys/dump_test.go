package main

import (
	"fmt"
	"os"
	"testing"

	"factgen/fg"
)

// TestDump prints the normal forms of the functions the translator reads (GALAXY_DUMP=<repo> go test -run TestDump -v).
func TestDump(t *testing.T) {
	repo := os.Getenv("GALAXY_DUMP")
	if repo == "" {
		t.Skip("set GALAXY_DUMP=<repo>")
	}
	for _, f := range []struct {
		file string
		fns  [][2]string
	}{
		{utilsGo, [][2]string{{"KeyObj", "genKey"}, {"KeyObj", "PoolPrefix"}, {"KeyObj", "PoolAppPrefix"}, {"", "resolvePodKey"}, {"", "ParseKey"},
			{"", "GetAppTypePrefix"}, {"", "GetAppType"}, {"", "FormatKey"}, {"", "resolveDeploymentName"}, {"", "NewKeyObj"}}},
		{pageGo, [][2]string{{"", "ParsePage"}, {"", "ParseSize"}, {"", "paginationResult"}, {"", "pagin"}, {"", "Pagination"}, {"", "PagingParams"}}},
		{apiGo, [][2]string{{"", "convert"}, {"Controller", "ListIPs"}, {"Controller", "ReleaseIPs"}}},
		{bindGo, [][2]string{{"FloatingIPPlugin", "Release"}}},
	} {
		p, err := fg.ParseFile(repo, f.file)
		if err != nil {
			t.Fatal(err)
		}
		for _, fn := range f.fns {
			n := NewNormaliser(p)
			tr, err := n.Tree(fn[0], fn[1])
			if err != nil {
				fmt.Printf("== %s.%s: ERROR %v\n", fn[0], fn[1], err)
				continue
			}
			fmt.Printf("== %s.%s\n%s", fn[0], fn[1], tr.Pretty(""))
		}
	}
}
