// norm.go — the normaliser: a small symbolic executor that turns a Go function into a canonical DECISION TREE,
// so that the translator matches semantics instead of source text (see /verif/harmless/NORMALISE.md).
//
//	tree  ::= (if COND tree tree) | leaf
//	leaf  ::= kind (return / fall / continue / break) + returned expressions + final values of non-local stores +
//	          the ordered list of effect events on the path
//
// What disappears: names of locals, parameters and loop variables (locals are substituted by their values, parameters
// become @0,@1,… (`$` appended for string-typed ones), the receiver `@recv`); single-assignment temporaries; if/else vs guard clause + fall-through;
// `switch` on a tag vs if / else-if chains; `a && b` vs nested ifs; `x != y` vs `!(x == y)`; `len(s) == 0` vs
// `s == ""`; `len(s) > 0` vs `s != ""`; `fmt.Sprintf("%s_%s", a, b)` vs `a + "_" + b`; comments, log statements and the
// text of error messages; private helpers of the same file (followed one level: an extracted helper is looked
// into, an inlined one still matches); `for i := range xs { v := xs[i] … }` vs `for _, v := range xs`.
//
// What stays: operators, constants, operand order of non-commutative operations, the order of conditions along a
// path, the order of effectful calls, the arguments of every call, nil vs non-nil error results.
package main

import (
	"fmt"
	"go/ast"
	"go/token"
	"sort"
	"strconv"
	"strings"

	"factgen/fg"
)

// ---------- expressions

type Ex struct {
	Op string // lit int id sel call concat len slice index bin un struct kv addr min ev proj elem elemidx phi error opaque none eq lt not nil loop
	S  string
	A  []*Ex
	N  *Node // loop: the normalised body
}

func lit(s string) *Ex   { return &Ex{Op: "lit", S: s} }
func ident(s string) *Ex { return &Ex{Op: "id", S: s} }

func (e *Ex) String() string {
	if e == nil {
		return "<nil>"
	}
	switch e.Op {
	case "lit":
		return strconv.Quote(e.S)
	case "int", "id", "ev", "elem", "elemidx", "phi":
		if e.Op == "int" || e.Op == "id" {
			return e.S
		}
		return e.Op + "#" + e.S
	case "none":
		return "_"
	case "error":
		return "error"
	case "sel":
		return e.A[0].String() + "." + e.S
	case "proj":
		return e.A[0].String() + "#" + e.S
	}
	parts := make([]string, len(e.A))
	for i, a := range e.A {
		parts[i] = a.String()
	}
	s := e.Op
	if e.S != "" {
		s += ":" + e.S
	}
	return "(" + s + " " + strings.Join(parts, " ") + ")"
}

func (e *Ex) eq(o *Ex) bool { return e.String() == o.String() }

// walk visits e and all sub-expressions.
func (e *Ex) walk(f func(*Ex)) {
	if e == nil {
		return
	}
	f(e)
	for _, a := range e.A {
		a.walk(f)
	}
}

// subst replaces id leaves by name.
func (e *Ex) subst(m map[string]*Ex) *Ex {
	if e == nil {
		return nil
	}
	if e.Op == "id" {
		if v, ok := m[e.S]; ok {
			return v
		}
		return e
	}
	if len(e.A) == 0 {
		return e
	}
	n := &Ex{Op: e.Op, S: e.S, A: make([]*Ex, len(e.A))}
	for i, a := range e.A {
		n.A[i] = a.subst(m)
	}
	return n
}

// ---------- trees

type Node struct {
	Cond       *Ex
	Then, Else *Node
	// leaf
	Kind    string
	Ret     []*Ex
	Stores  []string
	Events  []*Ex
	StoreEx map[string]*Ex // the stored values as expressions, by store target
}

func (n *Node) String() string {
	if n == nil {
		return "<nil>"
	}
	if n.Cond != nil {
		return "(if " + n.Cond.String() + " " + n.Then.String() + " " + n.Else.String() + ")"
	}
	var b strings.Builder
	b.WriteString("(" + n.Kind)
	for _, r := range n.Ret {
		b.WriteString(" " + r.String())
	}
	if len(n.Stores) > 0 {
		b.WriteString(" stores{" + strings.Join(n.Stores, "; ") + "}")
	}
	if len(n.Events) > 0 {
		ev := make([]string, len(n.Events))
		for i, e := range n.Events {
			ev[i] = e.String()
		}
		b.WriteString(" events[" + strings.Join(ev, "; ") + "]")
	}
	b.WriteString(")")
	return b.String()
}

// Pretty prints one tree node per line (for error messages / golden files).
func (n *Node) Pretty(indent string) string {
	if n.Cond == nil {
		return indent + n.String() + "\n"
	}
	return indent + "if " + n.Cond.String() + "\n" + n.Then.Pretty(indent+"  ") + indent + "else\n" + n.Else.Pretty(indent+"  ")
}

// Leaves calls f for every leaf with the facts (condition string -> truth value) of its path, in tree order.
func (n *Node) Leaves(f func(facts map[string]bool, conds []*Ex, leaf *Node)) {
	var rec func(n *Node, facts map[string]bool, conds []*Ex)
	rec = func(n *Node, facts map[string]bool, conds []*Ex) {
		if n.Cond == nil {
			f(facts, conds, n)
			return
		}
		k := n.Cond.String()
		t := map[string]bool{}
		e := map[string]bool{}
		for a, b := range facts {
			t[a], e[a] = b, b
		}
		t[k], e[k] = true, false
		rec(n.Then, t, append(append([]*Ex{}, conds...), n.Cond))
		rec(n.Else, e, append(append([]*Ex{}, conds...), &Ex{Op: "not", A: []*Ex{n.Cond}}))
	}
	rec(n, map[string]bool{}, nil)
}

// AllLeaves is Leaves that also descends into the bodies of loops recorded as events (facts of the enclosing path
// are passed down).
func (n *Node) AllLeaves(f func(facts map[string]bool, leaf *Node)) {
	var rec func(n *Node, outer map[string]bool)
	rec = func(n *Node, outer map[string]bool) {
		n.Leaves(func(facts map[string]bool, _ []*Ex, leaf *Node) {
			all := map[string]bool{}
			for k, v := range outer {
				all[k] = v
			}
			for k, v := range facts {
				all[k] = v
			}
			f(all, leaf)
			for _, ev := range leaf.Events {
				if ev.Op == "loop" && ev.N != nil {
					rec(ev.N, all)
				}
			}
		})
	}
	rec(n, map[string]bool{})
}

// Exprs calls f on every expression of a leaf (returned values, events; stores are strings and not visited).
func (n *Node) Exprs(f func(*Ex)) {
	for _, r := range n.Ret {
		r.walk(f)
	}
	for _, e := range n.Events {
		e.walk(f)
	}
	keys := make([]string, 0, len(n.StoreEx))
	for k := range n.StoreEx {
		keys = append(keys, k)
	}
	sort.Strings(keys)
	for _, k := range keys {
		n.StoreEx[k].walk(f)
	}
}

// Eval follows the tree with the given truth assignment of conditions (by canonical string); ok=false if a
// condition is not covered.
func (n *Node) Eval(truth map[string]bool) (*Node, bool) {
	for n.Cond != nil {
		v, ok := truth[n.Cond.String()]
		if !ok {
			return nil, false
		}
		if v {
			n = n.Then
		} else {
			n = n.Else
		}
	}
	return n, true
}

// ---------- the executor

type scope map[string]*Ex

type frame struct {
	scopes []scope
}

type state struct {
	frames     []*frame
	stores     map[string]*Ex
	storeOrder []string
	events     []*Ex
	facts      map[string]bool
}

func (s *state) clone() *state {
	n := &state{stores: map[string]*Ex{}, facts: map[string]bool{}}
	for _, f := range s.frames {
		nf := &frame{}
		for _, sc := range f.scopes {
			ns := scope{}
			for k, v := range sc {
				ns[k] = v
			}
			nf.scopes = append(nf.scopes, ns)
		}
		n.frames = append(n.frames, nf)
	}
	for k, v := range s.stores {
		n.stores[k] = v
	}
	n.storeOrder = append([]string{}, s.storeOrder...)
	n.events = append([]*Ex{}, s.events...)
	for k, v := range s.facts {
		n.facts[k] = v
	}
	return n
}

func (s *state) top() *frame { return s.frames[len(s.frames)-1] }
func (s *state) push()       { f := s.top(); f.scopes = append(f.scopes, scope{}) }
func (s *state) pop()        { f := s.top(); f.scopes = f.scopes[:len(f.scopes)-1] }

func (s *state) lookup(name string) (*Ex, bool) {
	f := s.top()
	for i := len(f.scopes) - 1; i >= 0; i-- {
		if v, ok := f.scopes[i][name]; ok {
			return v, true
		}
	}
	return nil, false
}

func (s *state) define(name string, v *Ex) {
	f := s.top()
	f.scopes[len(f.scopes)-1][name] = v
}

// assign updates the nearest binding; reports the scope depth (-1: not a local).
func (s *state) assign(name string, v *Ex) int {
	f := s.top()
	for i := len(f.scopes) - 1; i >= 0; i-- {
		if _, ok := f.scopes[i][name]; ok {
			f.scopes[i][name] = v
			return i
		}
	}
	return -1
}

type loopInfo struct {
	id       int
	depth    int       // scope depth (of the frame) at loop entry: assignments to shallower scopes escape the loop
	frame    int       // frame index
	assigned *[]string // outer variables assigned in the body, in order of first occurrence (shared by all paths)
	outer    []string  // the same, determined syntactically before the body is executed
	rangeX   *Ex
	keyName  string
}

type execCtx struct {
	ret   func(st *state, vals []*Ex) *Node // continuation of `return`
	loops []*loopInfo
	depth int // helper inlining depth
	named []string
	nres  int // number of results of the function being executed
}

type Normaliser struct {
	p         *fg.Parsed
	funcs     map[string]*ast.FuncDecl // plain functions of the file by name
	methods   map[string]*ast.FuncDecl // methods by name (receiver type ignored)
	strings   map[string]bool          // names of string-typed package constants
	nextLoop  int
	recvNames map[string]bool // receiver names used by the file's methods
}

func NewNormaliser(p *fg.Parsed) *Normaliser {
	n := &Normaliser{p: p, funcs: map[string]*ast.FuncDecl{}, methods: map[string]*ast.FuncDecl{}, strings: map[string]bool{}, recvNames: map[string]bool{}}
	for _, d := range p.File.Decls {
		switch x := d.(type) {
		case *ast.FuncDecl:
			if x.Recv == nil {
				n.funcs[x.Name.Name] = x
			} else {
				n.methods[x.Name.Name] = x
				if len(x.Recv.List) == 1 && len(x.Recv.List[0].Names) == 1 {
					n.recvNames[x.Recv.List[0].Names[0].Name] = true
				}
			}
		case *ast.GenDecl:
			if x.Tok == token.CONST {
				for _, s := range x.Specs {
					vs := s.(*ast.ValueSpec)
					for i, nm := range vs.Names {
						if i < len(vs.Values) {
							if bl, ok := vs.Values[i].(*ast.BasicLit); ok && bl.Kind == token.STRING {
								n.strings[nm.Name] = true
							}
						}
					}
				}
			}
		}
	}
	return n
}

type unsupported struct{ msg string }

func (n *Normaliser) fail(format string, a ...interface{}) {
	panic(unsupported{fmt.Sprintf(format, a...)})
}

// Tree normalises the named function (recv "" = plain function).
func (n *Normaliser) Tree(recv, name string) (tree *Node, err error) {
	fd, ferr := n.p.Fn(recv, name)
	if ferr != nil {
		return nil, ferr
	}
	return n.TreeOf(fd)
}

func (n *Normaliser) TreeOf(fd *ast.FuncDecl) (tree *Node, err error) {
	defer func() {
		if r := recover(); r != nil {
			if u, ok := r.(unsupported); ok {
				err = fmt.Errorf("%s: %s: cannot normalise: %s", n.p.Path, fd.Name.Name, u.msg)
				return
			}
			panic(r)
		}
	}()
	st := &state{stores: map[string]*Ex{}, facts: map[string]bool{}}
	st.frames = []*frame{{scopes: []scope{{}}}}
	n.bindParams(fd, st, nil, nil)
	ctx := &execCtx{named: namedResults(fd), nres: numResults(fd)}
	ctx.ret = func(st *state, vals []*Ex) *Node { return n.leaf(st, "return", vals) }
	n.initNamed(fd, st)
	return n.block(fd.Body.List, st, ctx, func(st *state) *Node {
		if len(ctx.named) > 0 {
			return ctx.ret(st, n.namedVals(st, ctx.named))
		}
		return n.leaf(st, "return", nil)
	}), nil
}

func numResults(fd *ast.FuncDecl) int {
	k := 0
	if fd.Type.Results != nil {
		for _, f := range fd.Type.Results.List {
			if len(f.Names) == 0 {
				k++
			} else {
				k += len(f.Names)
			}
		}
	}
	return k
}

func namedResults(fd *ast.FuncDecl) []string {
	var out []string
	if fd.Type.Results != nil {
		for _, f := range fd.Type.Results.List {
			for _, nm := range f.Names {
				out = append(out, nm.Name)
			}
		}
	}
	return out
}

func (n *Normaliser) initNamed(fd *ast.FuncDecl, st *state) {
	if fd.Type.Results == nil {
		return
	}
	for _, f := range fd.Type.Results.List {
		for _, nm := range f.Names {
			st.define(nm.Name, zeroOf(n.p.Src(f.Type)))
		}
	}
}

func (n *Normaliser) namedVals(st *state, names []string) []*Ex {
	var out []*Ex
	for _, nm := range names {
		v, _ := st.lookup(nm)
		out = append(out, v)
	}
	return out
}

func zeroOf(typ string) *Ex {
	switch typ {
	case "string":
		return lit("")
	case "bool":
		return ident("false")
	case "int", "int64", "int32", "uint", "uint32", "uint16", "uint64":
		return &Ex{Op: "int", S: "0"}
	case "error":
		return ident("nil")
	}
	if strings.HasPrefix(typ, "*") || strings.HasPrefix(typ, "[]") || strings.HasPrefix(typ, "map[") {
		return ident("nil")
	}
	return &Ex{Op: "struct", S: typ}
}

// bindParams binds parameters: to p0,p1,… (and recv) for the top-level function, to the given argument values for an
// inlined helper.
func (n *Normaliser) bindParams(fd *ast.FuncDecl, st *state, args []*Ex, recv *Ex) {
	if fd.Recv != nil && len(fd.Recv.List) == 1 && len(fd.Recv.List[0].Names) == 1 {
		v := recv
		if v == nil {
			v = ident("@recv")
		}
		st.define(fd.Recv.List[0].Names[0].Name, v)
	}
	i := 0
	for _, f := range fd.Type.Params.List {
		typ := n.p.Src(f.Type)
		for _, nm := range f.Names {
			var v *Ex
			if args != nil {
				v = args[i]
			} else {
				v = ident("@" + strconv.Itoa(i))
				if typ == "string" {
					v = &Ex{Op: "id", S: "@" + strconv.Itoa(i) + "$"} // `$` marks string-typed parameters
				}
			}
			st.define(nm.Name, v)
			i++
		}
	}
}

func (n *Normaliser) leaf(st *state, kind string, vals []*Ex) *Node {
	l := &Node{Kind: kind, Ret: vals, Events: st.events}
	keys := append([]string{}, st.storeOrder...)
	sort.Strings(keys)
	l.StoreEx = map[string]*Ex{}
	for _, k := range keys {
		l.Stores = append(l.Stores, k+" := "+st.stores[k].String())
		l.StoreEx[k] = st.stores[k]
	}
	return l
}

// loopLeaf: the end of one iteration; the values the iteration leaves in variables of the enclosing scopes are part of
// the leaf (as stores out#i).
func (n *Normaliser) loopLeaf(st *state, kind string, outer []string) *Node {
	l := n.leaf(st, kind, nil)
	for i, nm := range outer {
		if v, ok := st.lookup(nm); ok {
			k := "out#" + strconv.Itoa(i)
			l.Stores = append(l.Stores, k+" := "+v.String())
			l.StoreEx[k] = v
		}
	}
	return l
}

// block executes statements in a fresh scope, then continues with k.
func (n *Normaliser) block(stmts []ast.Stmt, st *state, ctx *execCtx, k func(*state) *Node) *Node {
	st.push()
	return n.stmts(stmts, st, ctx, func(st *state) *Node {
		st.pop()
		return k(st)
	})
}

func (n *Normaliser) stmts(list []ast.Stmt, st *state, ctx *execCtx, k func(*state) *Node) *Node {
	if len(list) == 0 {
		return k(st)
	}
	rest := func(st *state) *Node { return n.stmts(list[1:], st, ctx, k) }
	switch s := list[0].(type) {
	case *ast.EmptyStmt:
		return rest(st)
	case *ast.BlockStmt:
		return n.block(s.List, st, ctx, rest)
	case *ast.DeclStmt:
		gd, ok := s.Decl.(*ast.GenDecl)
		if !ok || (gd.Tok != token.VAR && gd.Tok != token.CONST) {
			n.fail("declaration %s", n.p.Src(s))
		}
		for _, sp := range gd.Specs {
			vs := sp.(*ast.ValueSpec)
			for i, nm := range vs.Names {
				var v *Ex
				if i < len(vs.Values) {
					v = n.expr(vs.Values[i], st, ctx)
				} else if vs.Type != nil {
					v = zeroOf(n.p.Src(vs.Type))
				} else {
					n.fail("var without type or value")
				}
				st.define(nm.Name, v)
			}
		}
		return rest(st)
	case *ast.AssignStmt:
		return n.assignStmt(s, st, ctx, rest)
	case *ast.IncDecStmt:
		op := "+"
		if s.Tok == token.DEC {
			op = "-"
		}
		v := &Ex{Op: "bin", S: op, A: []*Ex{n.expr(s.X, st, ctx), {Op: "int", S: "1"}}}
		n.store(s.X, v, st, ctx, false)
		return rest(st)
	case *ast.ExprStmt:
		call, ok := s.X.(*ast.CallExpr)
		if !ok {
			n.fail("expression statement %s", n.p.Src(s))
		}
		if n.isLog(call) {
			return rest(st)
		}
		if fd, recv := n.helper(call, st, ctx); fd != nil {
			return n.inline(fd, recv, call, st, ctx, func(st *state, _ []*Ex) *Node { return rest(st) })
		}
		st.events = append(st.events, n.callEx(call, st, ctx))
		return rest(st)
	case *ast.DeferStmt:
		st.events = append(st.events, &Ex{Op: "defer", A: []*Ex{n.callEx(s.Call, st, ctx)}})
		return rest(st)
	case *ast.GoStmt:
		st.events = append(st.events, &Ex{Op: "go", A: []*Ex{n.callEx(s.Call, st, ctx)}})
		return rest(st)
	case *ast.ReturnStmt:
		if len(s.Results) == 0 {
			if len(ctx.named) > 0 {
				return ctx.ret(st, n.namedVals(st, ctx.named))
			}
			return ctx.ret(st, nil)
		}
		if len(s.Results) == 1 {
			if call, ok := s.Results[0].(*ast.CallExpr); ok {
				if fd, recv := n.helper(call, st, ctx); fd != nil {
					return n.inline(fd, recv, call, st, ctx, func(st *state, vals []*Ex) *Node { return ctx.ret(st, vals) })
				}
			}
		}
		if len(s.Results) == 1 {
			if call, ok := s.Results[0].(*ast.CallExpr); ok && !n.pure(call) && !n.isConversion(call) && !n.isLog(call) {
				return n.callAsEvent(call, st, ctx, func(st *state, vals []*Ex) *Node {
					// the call's whole result list is returned
					if ctx.nres > 0 && ctx.nres <= len(vals) {
						vals = vals[:ctx.nres]
					}
					return ctx.ret(st, vals)
				})
			}
		}
		var vals []*Ex
		for _, r := range s.Results {
			vals = append(vals, n.expr(r, st, ctx))
		}
		return ctx.ret(st, vals)
	case *ast.IfStmt:
		st.push()
		after := func(st *state) *Node { st.pop(); return rest(st) }
		body := func(st *state) *Node {
			return n.cond(s.Cond, st, ctx,
				func(st *state) *Node { return n.block(s.Body.List, st, ctx, after) },
				func(st *state) *Node {
					switch e := s.Else.(type) {
					case nil:
						return after(st)
					case *ast.BlockStmt:
						return n.block(e.List, st, ctx, after)
					case *ast.IfStmt:
						return n.stmts([]ast.Stmt{e}, st, ctx, after)
					}
					n.fail("else branch")
					return nil
				})
		}
		if s.Init != nil {
			return n.stmts([]ast.Stmt{s.Init}, st, ctx, body)
		}
		return body(st)
	case *ast.SwitchStmt:
		return n.switchStmt(s, st, ctx, rest)
	case *ast.RangeStmt, *ast.ForStmt:
		return n.loop(list[0], st, ctx, rest)
	case *ast.BranchStmt:
		if s.Label != nil || (s.Tok != token.CONTINUE && s.Tok != token.BREAK) || len(ctx.loops) == 0 {
			n.fail("branch statement %s", n.p.Src(s))
		}
		return n.loopLeaf(st, strings.ToLower(s.Tok.String()), ctx.loops[len(ctx.loops)-1].outer)
	}
	n.fail("statement %T", list[0])
	return nil
}

func (n *Normaliser) isLog(call *ast.CallExpr) bool {
	f := n.p.Src(call.Fun)
	return strings.HasPrefix(f, "glog.") || strings.HasPrefix(f, "klog.") || strings.HasPrefix(f, "log.") ||
		strings.HasPrefix(f, "fmt.Print")
}

// pure: calls whose value depends only on their arguments (no event is recorded for them).
func (n *Normaliser) pure(call *ast.CallExpr) bool {
	f := n.p.Src(call.Fun)
	for _, p := range []string{"strings.", "strconv.", "fmt.Sprintf", "fmt.Errorf", "errors.", "metaErrs.", "net.ParseIP", "util.", "constant.",
		"pageutil.Parse", "pageutil.Pagination", "sets.", "math."} {
		if strings.HasPrefix(f, p) {
			return true
		}
	}
	switch f {
	case "len", "cap", "append", "string", "int", "int64", "uint32", "uint16", "make", "new", "min", "max":
		return true
	}
	if sel, ok := call.Fun.(*ast.SelectorExpr); ok {
		if _, isMethod := n.methods[sel.Sel.Name]; isMethod && ast.IsExported(sel.Sel.Name) {
			if id, ok := sel.X.(*ast.Ident); ok && n.recvNames[id.Name] {
				return true
			}
		}
		switch sel.Sel.Name {
		case "String", "QueryParameter", "Error", "To4", "GetUID", "GetAnnotations", "Has":
			return true
		}
	}
	if id, ok := call.Fun.(*ast.Ident); ok {
		if _, ok := n.funcs[id.Name]; ok && !ast.IsExported(id.Name) {
			return true // private helper used inside an expression: kept as an uninterpreted pure call
		}
		if ast.IsExported(id.Name) {
			if _, ok := n.funcs[id.Name]; ok {
				return true // exported function of the same package (GetAppTypePrefix, ParsePage, …)
			}
		}
	}
	return false
}

// helper returns the declaration of a same-file private function / method on a plain receiver that may be inlined here.
func (n *Normaliser) helper(call *ast.CallExpr, st *state, ctx *execCtx) (*ast.FuncDecl, *Ex) {
	if ctx.depth >= 1 {
		return nil, nil
	}
	switch f := call.Fun.(type) {
	case *ast.Ident:
		if fd, ok := n.funcs[f.Name]; ok && !ast.IsExported(f.Name) && fd.Body != nil {
			if _, shadow := st.lookup(f.Name); !shadow {
				// a helper that is one expression (or the min / max idiom) is inlined at expression level instead
				var args []*Ex
				for _, a := range call.Args {
					args = append(args, n.expr(a, st, ctx))
				}
				if n.inlineExpr(fd, args) != nil {
					return nil, nil
				}
				return fd, nil
			}
		}
	case *ast.SelectorExpr:
		if id, ok := f.X.(*ast.Ident); ok {
			if v, isLocal := st.lookup(id.Name); isLocal {
				if fd, ok := n.methods[f.Sel.Name]; ok && fd.Body != nil && (v.Op == "id" && v.S == "@recv") {
					return fd, v
				}
			}
		}
	}
	return nil, nil
}

// inline executes the helper's body with its parameters bound to the call's arguments; k receives the returned values.
// If the helper cannot be normalised the call is kept as an ordinary (effect) call.
func (n *Normaliser) inline(fd *ast.FuncDecl, recv *Ex, call *ast.CallExpr, st *state, ctx *execCtx,
	k func(st *state, vals []*Ex) *Node) (out *Node) {
	var args []*Ex
	for _, a := range call.Args {
		args = append(args, n.expr(a, st, ctx))
	}
	nparams := 0
	for _, f := range fd.Type.Params.List {
		nparams += len(f.Names)
	}
	if nparams != len(args) || call.Ellipsis.IsValid() {
		return n.callAsEvent(call, st, ctx, k)
	}
	saved := st.clone()
	defer func() {
		if r := recover(); r != nil {
			if _, ok := r.(unsupported); ok {
				out = n.callAsEvent(call, saved, ctx, k)
				return
			}
			panic(r)
		}
	}()
	st.frames = append(st.frames, &frame{scopes: []scope{{}}})
	n.bindParams(fd, st, args, recv)
	n.initNamed(fd, st)
	inner := &execCtx{depth: ctx.depth + 1, named: namedResults(fd), nres: numResults(fd)}
	inner.ret = func(st *state, vals []*Ex) *Node {
		st.frames = st.frames[:len(st.frames)-1]
		return k(st, vals)
	}
	return n.block(fd.Body.List, st, inner, func(st *state) *Node {
		if len(inner.named) > 0 {
			return inner.ret(st, n.namedVals(st, inner.named))
		}
		return inner.ret(st, nil)
	})
}

func (n *Normaliser) callAsEvent(call *ast.CallExpr, st *state, ctx *execCtx, k func(st *state, vals []*Ex) *Node) *Node {
	c := n.callEx(call, st, ctx)
	if n.pure(call) {
		return k(st, []*Ex{c})
	}
	st.events = append(st.events, c)
	ev := &Ex{Op: "ev", S: strconv.Itoa(len(st.events) - 1)}
	vals := make([]*Ex, 4)
	for i := range vals {
		vals[i] = &Ex{Op: "proj", S: strconv.Itoa(i), A: []*Ex{ev}}
	}
	return k(st, vals)
}

func (n *Normaliser) assignStmt(s *ast.AssignStmt, st *state, ctx *execCtx, rest func(*state) *Node) *Node {
	define := s.Tok == token.DEFINE
	if s.Tok != token.ASSIGN && s.Tok != token.DEFINE {
		// x += e etc.
		if len(s.Lhs) != 1 {
			n.fail("assignment %s", n.p.Src(s))
		}
		op := strings.TrimSuffix(s.Tok.String(), "=")
		v := n.binary(op, n.expr(s.Lhs[0], st, ctx), n.expr(s.Rhs[0], st, ctx))
		n.store(s.Lhs[0], v, st, ctx, false)
		return rest(st)
	}
	bind := func(st *state, vals []*Ex) *Node {
		for i, l := range s.Lhs {
			if i < len(vals) {
				n.store(l, vals[i], st, ctx, define)
			}
		}
		return rest(st)
	}
	if len(s.Rhs) == 1 {
		if call, ok := s.Rhs[0].(*ast.CallExpr); ok {
			if fd, recv := n.helper(call, st, ctx); fd != nil {
				return n.inline(fd, recv, call, st, ctx, bind)
			}
			if !n.pure(call) && !n.isConversion(call) {
				return n.callAsEvent(call, st, ctx, bind)
			}
			if len(s.Lhs) > 1 {
				c := n.callEx(call, st, ctx)
				vals := make([]*Ex, len(s.Lhs))
				for i := range vals {
					vals[i] = &Ex{Op: "proj", S: strconv.Itoa(i), A: []*Ex{c}}
				}
				return bind(st, vals)
			}
		}
		if len(s.Lhs) == 2 {
			// v, ok := m[k] / x.(T)
			v := n.expr(s.Rhs[0], st, ctx)
			return bind(st, []*Ex{v, {Op: "ok", A: []*Ex{v}}})
		}
	}
	if len(s.Lhs) != len(s.Rhs) {
		n.fail("assignment %s", n.p.Src(s))
	}
	vals := make([]*Ex, len(s.Rhs))
	for i, r := range s.Rhs {
		vals[i] = n.expr(r, st, ctx)
	}
	return bind(st, vals)
}

func (n *Normaliser) isConversion(call *ast.CallExpr) bool {
	switch call.Fun.(type) {
	case *ast.ArrayType, *ast.ParenExpr, *ast.StarExpr:
		return true
	}
	return false
}

// store assigns v to the left-hand side l.
func (n *Normaliser) store(l ast.Expr, v *Ex, st *state, ctx *execCtx, define bool) {
	switch x := l.(type) {
	case *ast.Ident:
		if x.Name == "_" {
			return
		}
		if define {
			if _, ok := st.top().scopes[len(st.top().scopes)-1][x.Name]; !ok {
				st.define(x.Name, v)
				return
			}
		}
		d := st.assign(x.Name, v)
		if d < 0 {
			if define {
				st.define(x.Name, v)
				return
			}
			// a package-level variable
			n.recordStore(x.Name, v, st)
			return
		}
		// assignment escaping a loop body
		for _, lp := range ctx.loops {
			if lp.frame == len(st.frames)-1 && d < lp.depth {
				found := false
				for _, a := range *lp.assigned {
					if a == x.Name {
						found = true
					}
				}
				if !found {
					*lp.assigned = append(*lp.assigned, x.Name)
				}
			}
		}
		return
	case *ast.SelectorExpr:
		// field of a struct value built in this function: functional update
		if id, ok := x.X.(*ast.Ident); ok {
			if cur, isLocal := st.lookup(id.Name); isLocal {
				if upd := setField(cur, x.Sel.Name, v); upd != nil {
					st.assign(id.Name, upd)
					return
				}
			}
		}
		n.recordStore(n.expr(x.X, st, ctx).String()+"."+x.Sel.Name, v, st)
		return
	case *ast.IndexExpr:
		n.recordStore(n.expr(x.X, st, ctx).String()+"["+n.expr(x.Index, st, ctx).String()+"]", v, st)
		return
	case *ast.StarExpr:
		n.recordStore("*"+n.expr(x.X, st, ctx).String(), v, st)
		return
	}
	n.fail("assignment target %s", n.p.Src(l))
}

func (n *Normaliser) recordStore(key string, v *Ex, st *state) {
	if _, ok := st.stores[key]; !ok {
		st.storeOrder = append(st.storeOrder, key)
	}
	st.stores[key] = v
}

// setField returns the struct (or &struct) with field f set, or nil if cur is not a struct value.
func setField(cur *Ex, f string, v *Ex) *Ex {
	if cur.Op == "addr" && len(cur.A) == 1 && cur.A[0].Op == "struct" {
		return &Ex{Op: "addr", A: []*Ex{setField(cur.A[0], f, v)}}
	}
	if cur.Op != "struct" {
		return nil
	}
	out := &Ex{Op: "struct", S: cur.S}
	done := false
	for _, kv := range cur.A {
		if kv.S == f {
			out.A = append(out.A, &Ex{Op: "kv", S: f, A: []*Ex{v}})
			done = true
		} else {
			out.A = append(out.A, kv)
		}
	}
	if !done {
		out.A = append(out.A, &Ex{Op: "kv", S: f, A: []*Ex{v}})
	}
	sort.Slice(out.A, func(i, j int) bool { return out.A[i].S < out.A[j].S })
	return out
}

func getField(cur *Ex, f string) *Ex {
	if cur.Op == "addr" && len(cur.A) == 1 {
		cur = cur.A[0]
	}
	if cur.Op != "struct" {
		return nil
	}
	for _, kv := range cur.A {
		if kv.S == f {
			return kv.A[0]
		}
	}
	return nil
}

func (n *Normaliser) switchStmt(s *ast.SwitchStmt, st *state, ctx *execCtx, rest func(*state) *Node) *Node {
	st.push()
	after := func(st *state) *Node { st.pop(); return rest(st) }
	run := func(st *state) *Node {
		var clauses []*ast.CaseClause
		var def *ast.CaseClause
		for _, c := range s.Body.List {
			cc := c.(*ast.CaseClause)
			for _, b := range cc.Body {
				if br, ok := b.(*ast.BranchStmt); ok && br.Tok == token.FALLTHROUGH {
					n.fail("fallthrough")
				}
			}
			if cc.List == nil {
				def = cc
			} else {
				clauses = append(clauses, cc)
			}
		}
		var chain func(i int, st *state) *Node
		chain = func(i int, st *state) *Node {
			if i == len(clauses) {
				if def != nil {
					return n.block(stripBreak(def.Body), st, ctx, after)
				}
				return after(st)
			}
			cc := clauses[i]
			// cond: tag == v1 || tag == v2 …
			var c ast.Expr
			for _, v := range cc.List {
				var one ast.Expr = v
				if s.Tag != nil {
					one = &ast.BinaryExpr{X: s.Tag, Op: token.EQL, Y: v}
				}
				if c == nil {
					c = one
				} else {
					c = &ast.BinaryExpr{X: c, Op: token.LOR, Y: one}
				}
			}
			return n.cond(c, st, ctx,
				func(st *state) *Node { return n.block(stripBreak(cc.Body), st, ctx, after) },
				func(st *state) *Node { return chain(i+1, st) })
		}
		return chain(0, st)
	}
	if s.Init != nil {
		return n.stmts([]ast.Stmt{s.Init}, st, ctx, run)
	}
	return run(st)
}

func stripBreak(b []ast.Stmt) []ast.Stmt {
	if len(b) > 0 {
		if br, ok := b[len(b)-1].(*ast.BranchStmt); ok && br.Tok == token.BREAK && br.Label == nil {
			return b[:len(b)-1]
		}
	}
	return b
}

// loop: the body is normalised on its own (loop variables become elem#k / elemidx#k), recorded as ONE event; variables
// of the enclosing scopes assigned in the body become phi#k.i afterwards.
func (n *Normaliser) loop(s ast.Stmt, st *state, ctx *execCtx, rest func(*state) *Node) *Node {
	id := n.nextLoop
	n.nextLoop++
	ids := strconv.Itoa(id)
	body := st.clone()
	body.events = nil
	body.stores = map[string]*Ex{}
	body.storeOrder = nil
	body.push()
	var assigned []string
	li := &loopInfo{id: id, frame: len(st.frames) - 1, depth: len(body.top().scopes) - 1, assigned: &assigned}
	var header *Ex
	var stmts []ast.Stmt
	switch l := s.(type) {
	case *ast.RangeStmt:
		x := n.expr(l.X, st, ctx)
		header = &Ex{Op: "range", A: []*Ex{x}}
		li.rangeX = x
		if l.Key != nil {
			if kid, ok := l.Key.(*ast.Ident); ok && kid.Name != "_" {
				body.define(kid.Name, &Ex{Op: "elemidx", S: ids})
				li.keyName = kid.Name
			}
		}
		if l.Value != nil {
			if vid, ok := l.Value.(*ast.Ident); ok && vid.Name != "_" {
				body.define(vid.Name, &Ex{Op: "elem", S: ids})
			}
		}
		stmts = l.Body.List
	case *ast.ForStmt:
		header = &Ex{Op: "for", S: norm(n.p.Src(&ast.ForStmt{Init: l.Init, Cond: l.Cond, Post: l.Post, Body: &ast.BlockStmt{}}))}
		stmts = l.Body.List
		// variables written by init/post are unknown inside the body
		for _, hs := range []ast.Stmt{l.Init, l.Post} {
			if as, ok := hs.(*ast.AssignStmt); ok {
				for _, lh := range as.Lhs {
					if idn, ok := lh.(*ast.Ident); ok {
						body.define(idn.Name, &Ex{Op: "phi", S: ids + "." + idn.Name})
					}
				}
			}
			if inc, ok := hs.(*ast.IncDecStmt); ok {
				if idn, ok := inc.X.(*ast.Ident); ok {
					body.define(idn.Name, &Ex{Op: "phi", S: ids + "." + idn.Name})
				}
			}
		}
	}
	// variables assigned in the body are unknown at the start of an iteration: find them syntactically first
	pre := assignedIdents(stmts)
	lctx := &execCtx{ret: ctx.ret, loops: append(append([]*loopInfo{}, ctx.loops...), li), depth: ctx.depth, named: ctx.named, nres: ctx.nres}
	// outer variables (re)assigned in the body carry an unknown value at iteration start
	outerAssigned := []string{}
	for _, nm := range pre {
		if d := scopeDepth(body, nm); d >= 0 && d < li.depth {
			outerAssigned = append(outerAssigned, nm)
		}
	}
	for i, nm := range outerAssigned {
		body.assign(nm, &Ex{Op: "phi", S: ids + "." + strconv.Itoa(i)})
	}
	li.outer = outerAssigned
	tree := n.stmts(stmts, body, lctx, func(st *state) *Node { return n.loopLeaf(st, "fall", outerAssigned) })
	st.events = append(st.events, &Ex{Op: "loop", A: []*Ex{header, {Op: "opaque", S: tree.String()}}, N: tree})
	for i, nm := range outerAssigned {
		st.assign(nm, &Ex{Op: "phi", S: ids + "." + strconv.Itoa(i) + "'"})
	}
	return rest(st)
}

func scopeDepth(st *state, name string) int {
	f := st.top()
	for i := len(f.scopes) - 1; i >= 0; i-- {
		if _, ok := f.scopes[i][name]; ok {
			return i
		}
	}
	return -1
}

// assignedIdents lists identifiers assigned with `=` / op= / ++ in the statements, in order of first occurrence.
func assignedIdents(stmts []ast.Stmt) []string {
	var out []string
	seen := map[string]bool{}
	add := func(e ast.Expr) {
		if id, ok := e.(*ast.Ident); ok && id.Name != "_" && !seen[id.Name] {
			seen[id.Name] = true
			out = append(out, id.Name)
		}
	}
	for _, s := range stmts {
		ast.Inspect(s, func(x ast.Node) bool {
			switch a := x.(type) {
			case *ast.AssignStmt:
				if a.Tok != token.DEFINE {
					for _, l := range a.Lhs {
						add(l)
					}
				}
			case *ast.IncDecStmt:
				add(a.X)
			case *ast.FuncLit:
				return false
			}
			return true
		})
	}
	return out
}

// ---------- conditions

// cond evaluates a boolean expression into tree structure: &&, || and ! become nesting, atoms are canonical.
func (n *Normaliser) cond(e ast.Expr, st *state, ctx *execCtx, t, f func(*state) *Node) *Node {
	switch x := e.(type) {
	case *ast.ParenExpr:
		return n.cond(x.X, st, ctx, t, f)
	case *ast.UnaryExpr:
		if x.Op == token.NOT {
			return n.cond(x.X, st, ctx, f, t)
		}
	case *ast.BinaryExpr:
		switch x.Op {
		case token.LAND:
			return n.cond(x.X, st, ctx, func(st *state) *Node { return n.cond(x.Y, st, ctx, t, f) }, f)
		case token.LOR:
			return n.cond(x.X, st, ctx, t, func(st *state) *Node { return n.cond(x.Y, st, ctx, t, f) })
		}
	}
	atom, neg := n.atom(n.expr(e, st, ctx))
	if neg {
		t, f = f, t
	}
	// constant or already decided on this path
	if atom.Op == "id" && (atom.S == "true" || atom.S == "false") {
		if atom.S == "true" {
			return t(st)
		}
		return f(st)
	}
	key := atom.String()
	if v, ok := st.facts[key]; ok {
		if v {
			return t(st)
		}
		return f(st)
	}
	ts, fs := st.clone(), st
	ts.facts[key] = true
	fs.facts[key] = false
	return &Node{Cond: atom, Then: t(ts), Else: f(fs)}
}

func isZeroInt(e *Ex) bool { return e.Op == "int" && e.S == "0" }

// atom canonicalises a boolean-valued expression; neg reports that the result stands for the negation.
func (n *Normaliser) atom(e *Ex) (*Ex, bool) {
	if e.Op == "not" {
		a, neg := n.atom(e.A[0])
		return a, !neg
	}
	if e.Op != "cmp" {
		return e, false
	}
	a, b := e.A[0], e.A[1]
	op := e.S
	// len(x) against 0  ≡  x against ""
	lenZero := func(x, y *Ex) (*Ex, bool) {
		if x.Op == "len" && isZeroInt(y) {
			return x.A[0], true
		}
		return nil, false
	}
	if x, ok := lenZero(a, b); ok {
		switch op {
		case "==", "<=":
			return mkEq(x, lit("")), false
		case "!=", ">":
			return mkEq(x, lit("")), true
		}
	}
	if x, ok := lenZero(b, a); ok {
		switch op {
		case "==", ">=":
			return mkEq(x, lit("")), false
		case "!=", "<":
			return mkEq(x, lit("")), true
		}
	}
	switch op {
	case "==":
		return mkEq(a, b), false
	case "!=":
		return mkEq(a, b), true
	case "<":
		return &Ex{Op: "lt", A: []*Ex{a, b}}, false
	case ">":
		return &Ex{Op: "lt", A: []*Ex{b, a}}, false
	case "<=":
		return &Ex{Op: "lt", A: []*Ex{b, a}}, true
	case ">=":
		return &Ex{Op: "lt", A: []*Ex{a, b}}, true
	}
	return e, false
}

func rank(e *Ex) int {
	switch e.Op {
	case "lit", "int":
		return 2
	case "id":
		if e.S == "nil" || e.S == "true" || e.S == "false" {
			return 2
		}
		if !strings.HasPrefix(e.S, "@") {
			return 1 // package-level constant
		}
	case "sel":
		if e.A[0].Op == "id" && !strings.HasPrefix(e.A[0].S, "@") {
			return 1 // pkg.Const
		}
	}
	return 0
}

func mkEq(a, b *Ex) *Ex {
	if a.Op == "lit" && b.Op == "lit" || a.Op == "int" && b.Op == "int" {
		if a.S == b.S {
			return ident("true")
		}
		return ident("false")
	}
	if a.String() == b.String() {
		return ident("true")
	}
	ra, rb := rank(a), rank(b)
	if ra > rb || (ra == rb && a.String() > b.String()) {
		a, b = b, a
	}
	return &Ex{Op: "eq", A: []*Ex{a, b}}
}

// ---------- expressions

func (n *Normaliser) callEx(call *ast.CallExpr, st *state, ctx *execCtx) *Ex {
	return n.expr(call, st, ctx)
}

func (n *Normaliser) stringy(e *Ex) bool {
	switch e.Op {
	case "lit", "concat":
		return true
	case "id":
		return strings.HasSuffix(e.S, "$") || n.strings[e.S]
	case "call":
		f := e.A[0].String()
		return f == "fmt.Sprintf" || strings.HasPrefix(f, "strings.To") || strings.HasPrefix(f, "strings.Trim") || f == "strconv.Itoa"
	case "slice":
		return n.stringy(e.A[0])
	}
	return false
}

func (n *Normaliser) concat(parts ...*Ex) *Ex {
	// an operand of a string concatenation that is itself `a + b` is a concatenation too
	var flat []*Ex
	var add func(p *Ex)
	add = func(p *Ex) {
		if p.Op == "concat" || (p.Op == "bin" && p.S == "+") {
			for _, a := range p.A {
				add(a)
			}
			return
		}
		flat = append(flat, p)
	}
	for _, p := range parts {
		add(p)
	}
	var out []*Ex
	for _, p := range flat {
		if p.Op == "lit" {
			if p.S == "" {
				continue
			}
			if len(out) > 0 && out[len(out)-1].Op == "lit" {
				out[len(out)-1] = lit(out[len(out)-1].S + p.S)
				continue
			}
		}
		out = append(out, p)
	}
	if len(out) == 0 {
		return lit("")
	}
	if len(out) == 1 {
		return out[0]
	}
	return &Ex{Op: "concat", A: out}
}

func (n *Normaliser) binary(op string, a, b *Ex) *Ex {
	if op == "+" && (n.stringy(a) || n.stringy(b)) {
		return n.concat(a, b)
	}
	switch op {
	case "==", "!=", "<", ">", "<=", ">=":
		return &Ex{Op: "cmp", S: op, A: []*Ex{a, b}}
	case "&&", "||":
		return &Ex{Op: "bool", S: op, A: []*Ex{a, b}}
	}
	return &Ex{Op: "bin", S: op, A: []*Ex{a, b}}
}

func (n *Normaliser) expr(e ast.Expr, st *state, ctx *execCtx) *Ex {
	switch x := e.(type) {
	case *ast.ParenExpr:
		return n.expr(x.X, st, ctx)
	case *ast.BasicLit:
		switch x.Kind {
		case token.STRING:
			s, err := strconv.Unquote(x.Value)
			if err != nil {
				n.fail("string literal %s", x.Value)
			}
			return lit(s)
		case token.INT:
			return &Ex{Op: "int", S: x.Value}
		case token.CHAR:
			return &Ex{Op: "char", S: x.Value}
		}
		return &Ex{Op: "num", S: x.Value}
	case *ast.Ident:
		if v, ok := st.lookup(x.Name); ok {
			return v
		}
		return ident(x.Name)
	case *ast.SelectorExpr:
		base := n.expr(x.X, st, ctx)
		if f := getField(base, x.Sel.Name); f != nil {
			return f
		}
		if (base.Op == "struct" || base.Op == "addr") && getField(base, x.Sel.Name) == nil && base.Op != "addr" {
			// unset field of a struct literal built here: zero value is unknown syntactically; keep a selector
		}
		return &Ex{Op: "sel", S: x.Sel.Name, A: []*Ex{base}}
	case *ast.StarExpr:
		v := n.expr(x.X, st, ctx)
		if v.Op == "addr" {
			return v.A[0]
		}
		return &Ex{Op: "deref", A: []*Ex{v}}
	case *ast.UnaryExpr:
		v := n.expr(x.X, st, ctx)
		switch x.Op {
		case token.AND:
			return &Ex{Op: "addr", A: []*Ex{v}}
		case token.NOT:
			return &Ex{Op: "not", A: []*Ex{v}}
		case token.SUB:
			if v.Op == "int" {
				return &Ex{Op: "int", S: "-" + v.S}
			}
		}
		return &Ex{Op: "un", S: x.Op.String(), A: []*Ex{v}}
	case *ast.BinaryExpr:
		return n.binary(x.Op.String(), n.expr(x.X, st, ctx), n.expr(x.Y, st, ctx))
	case *ast.IndexExpr:
		base, idx := n.expr(x.X, st, ctx), n.expr(x.Index, st, ctx)
		// xs[i] inside `for i := range xs` is the loop element
		if idx.Op == "elemidx" {
			for _, lp := range ctx.loops {
				if strconv.Itoa(lp.id) == idx.S && lp.rangeX != nil && lp.rangeX.eq(base) {
					return &Ex{Op: "elem", S: idx.S}
				}
			}
		}
		return &Ex{Op: "index", A: []*Ex{base, idx}}
	case *ast.SliceExpr:
		none := &Ex{Op: "none"}
		lo, hi := none, none
		if x.Low != nil {
			lo = n.expr(x.Low, st, ctx)
		}
		if x.High != nil {
			hi = n.expr(x.High, st, ctx)
		}
		if x.Max != nil {
			n.fail("3-index slice")
		}
		return &Ex{Op: "slice", A: []*Ex{n.expr(x.X, st, ctx), lo, hi}}
	case *ast.CompositeLit:
		typ := ""
		if x.Type != nil {
			typ = n.p.Src(x.Type)
		}
		out := &Ex{Op: "struct", S: typ}
		keyed := false
		for i, el := range x.Elts {
			if kv, ok := el.(*ast.KeyValueExpr); ok {
				keyed = true
				k := n.p.Src(kv.Key)
				if _, isId := kv.Key.(*ast.Ident); !isId {
					k = n.expr(kv.Key, st, ctx).String()
				}
				out.A = append(out.A, &Ex{Op: "kv", S: k, A: []*Ex{n.exprOrLit(kv.Value, st, ctx)}})
			} else {
				out.A = append(out.A, &Ex{Op: "kv", S: fmt.Sprintf("#%03d", i), A: []*Ex{n.exprOrLit(el, st, ctx)}})
			}
		}
		if keyed && !strings.HasPrefix(typ, "map[") && !strings.HasPrefix(typ, "[]") {
			sort.SliceStable(out.A, func(i, j int) bool { return out.A[i].S < out.A[j].S })
		}
		return out
	case *ast.CallExpr:
		return n.call(x, st, ctx)
	case *ast.FuncLit:
		return &Ex{Op: "opaque", S: norm(n.p.Src(x))}
	case *ast.TypeAssertExpr:
		return &Ex{Op: "assert", S: n.p.Src(x.Type), A: []*Ex{n.expr(x.X, st, ctx)}}
	case *ast.ArrayType, *ast.MapType, *ast.InterfaceType, *ast.StructType, *ast.ChanType:
		return &Ex{Op: "type", S: norm(n.p.Src(x))}
	case *ast.KeyValueExpr:
		return &Ex{Op: "kv", S: n.p.Src(x.Key), A: []*Ex{n.expr(x.Value, st, ctx)}}
	}
	n.fail("expression %T", e)
	return nil
}

// exprOrLit: elements of composite literals may be untyped composite literals themselves.
func (n *Normaliser) exprOrLit(e ast.Expr, st *state, ctx *execCtx) *Ex { return n.expr(e, st, ctx) }

func (n *Normaliser) call(x *ast.CallExpr, st *state, ctx *execCtx) *Ex {
	fun := n.p.Src(x.Fun)
	var args []*Ex
	for _, a := range x.Args {
		args = append(args, n.expr(a, st, ctx))
	}
	switch fun {
	case "len":
		if len(args) == 1 {
			if args[0].Op == "lit" {
				return &Ex{Op: "int", S: strconv.Itoa(len(args[0].S))}
			}
			return &Ex{Op: "len", A: args}
		}
	case "fmt.Errorf", "errors.New":
		return &Ex{Op: "error"} // the text of an error message is not part of the shape
	case "fmt.Sprintf":
		if c := n.sprintf(args); c != nil {
			return c
		}
	case "string":
		if len(args) == 1 && n.stringy(args[0]) {
			return args[0]
		}
	}
	// a private helper inside an expression: inline it when it is a single expression (or the min / max idiom)
	if id, ok := x.Fun.(*ast.Ident); ok {
		if fd, ok := n.funcs[id.Name]; ok && !ast.IsExported(id.Name) && fd.Body != nil {
			if _, shadow := st.lookup(id.Name); !shadow {
				if v := n.inlineExpr(fd, args); v != nil {
					return v
				}
			}
		}
	}
	var callee *Ex
	if sel, ok := x.Fun.(*ast.SelectorExpr); ok {
		if pk, ok := sel.X.(*ast.Ident); ok {
			if _, local := st.lookup(pk.Name); !local {
				callee = ident(pk.Name + "." + sel.Sel.Name)
			}
		}
	}
	if callee == nil {
		callee = n.expr(x.Fun, st, ctx)
	}
	return &Ex{Op: "call", A: append([]*Ex{callee}, args...)}
}

// inlineExpr: value of a private helper applied to args when its tree is one return leaf without effects, or
// `if a < b {return a}; return b` (min) / the symmetric max.
func (n *Normaliser) inlineExpr(fd *ast.FuncDecl, args []*Ex) *Ex {
	sub := &Normaliser{p: n.p, funcs: n.funcs, methods: n.methods, strings: n.strings, recvNames: n.recvNames}
	st := &state{stores: map[string]*Ex{}, facts: map[string]bool{}}
	st.frames = []*frame{{scopes: []scope{{}}}}
	nparams := 0
	for _, f := range fd.Type.Params.List {
		nparams += len(f.Names)
	}
	if nparams != len(args) || fd.Recv != nil {
		return nil
	}
	var tree *Node
	func() {
		defer func() {
			if r := recover(); r != nil {
				if _, ok := r.(unsupported); !ok {
					panic(r)
				}
				tree = nil
			}
		}()
		sub.bindParams(fd, st, args, nil)
		sub.initNamed(fd, st)
		ctx := &execCtx{depth: 1, named: namedResults(fd)}
		ctx.ret = func(st *state, vals []*Ex) *Node { return sub.leaf(st, "return", vals) }
		tree = sub.block(fd.Body.List, st, ctx, func(st *state) *Node { return sub.leaf(st, "return", nil) })
	}()
	if tree == nil {
		return nil
	}
	if tree.Cond == nil && len(tree.Ret) == 1 && len(tree.Events) == 0 && len(tree.Stores) == 0 {
		return tree.Ret[0]
	}
	if tree.Cond != nil && tree.Cond.Op == "lt" && tree.Then.Cond == nil && tree.Else.Cond == nil &&
		len(tree.Then.Ret) == 1 && len(tree.Else.Ret) == 1 && len(tree.Then.Events)+len(tree.Else.Events) == 0 {
		a, b := tree.Cond.A[0], tree.Cond.A[1]
		if tree.Then.Ret[0].eq(a) && tree.Else.Ret[0].eq(b) {
			return &Ex{Op: "min", A: []*Ex{a, b}}
		}
		if tree.Then.Ret[0].eq(b) && tree.Else.Ret[0].eq(a) {
			return &Ex{Op: "max", A: []*Ex{a, b}}
		}
	}
	return nil
}

// sprintf: a format made of %s verbs and literal text is the concatenation of its pieces.
func (n *Normaliser) sprintf(args []*Ex) *Ex {
	if len(args) == 0 || args[0].Op != "lit" {
		return nil
	}
	format := args[0].S
	rest := args[1:]
	var parts []*Ex
	cur := ""
	for i := 0; i < len(format); i++ {
		if format[i] != '%' {
			cur += string(format[i])
			continue
		}
		if i+1 < len(format) && format[i+1] == '%' {
			cur += "%"
			i++
			continue
		}
		if i+1 >= len(format) || format[i+1] != 's' || len(rest) == 0 {
			return nil
		}
		i++
		parts = append(parts, lit(cur), rest[0])
		cur = ""
		rest = rest[1:]
	}
	if len(rest) != 0 {
		return nil
	}
	parts = append(parts, lit(cur))
	return n.concat(parts...)
}
