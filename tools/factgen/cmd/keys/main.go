// factgen keys: regenerates lean/Galaxy/Generated/Keys.lean from
//
//	pkg/ipam/schedulerplugin/util/utils.go   key constants, genKey / PoolPrefix / PoolAppPrefix formats,
//	                                         ParseKey / resolvePodKey, GetAppTypePrefix / GetAppType tables, FormatKey
//	pkg/utils/page/page.go                   ParsePage / ParseSize clamps, paginationResult / pagin arithmetic
//	pkg/ipam/api/api.go                      convert field mapping, ReleaseIPs / ListIPs appType default and key wiring
//	pkg/ipam/schedulerplugin/bind.go         Release re-checks (ip, key) before releasing
//
// Every function is first NORMALISED (norm.go: a decision tree that is invariant under renaming, if/else vs guard
// clauses, switch vs if chains, Sprintf vs concatenation, extracted / inlined private helpers, log and comment changes,
// see /verif/harmless/NORMALISE.md) and then either
//
//   - a VALUE is read off the normal form (formats, tables, clamps, arithmetic, wiring facts) and emitted as a Lean def
//     the model uses, or
//   - the normal form is COMPARED with the normal form of the pinned reference source (ref/*.go.txt, a copy of the
//     functions the hand-written model transcribes).
//
// When an item is not recognised in the current source its message goes to `shapeErrors` (pinned to [] by
// Props.C11.fact_handler_shapes, so the proof obligation breaks) and the value is taken from the reference source: the
// driver still builds and the correspondence run + monitors can look for a concrete failing input.
package main

import (
	"embed"
	"fmt"
	"go/parser"
	"go/token"
	"sort"
	"strconv"
	"strings"

	"factgen/fg"
)

const (
	utilsGo = "pkg/ipam/schedulerplugin/util/utils.go"
	pageGo  = "pkg/utils/page/page.go"
	apiGo   = "pkg/ipam/api/api.go"
	bindGo  = "pkg/ipam/schedulerplugin/bind.go"
)

//go:embed ref/*.txt
var refFS embed.FS

func main() { fg.Run("keys", gen) }

// ---------- sources

type sources struct {
	u, pg, ap, bd *fg.Parsed
	consts        map[string]string
	isRef         bool
}

func loadRepo(repo string) (*sources, error) {
	s := &sources{}
	var err error
	if s.u, err = fg.ParseFile(repo, utilsGo); err != nil {
		return nil, err
	}
	if s.pg, err = fg.ParseFile(repo, pageGo); err != nil {
		return nil, err
	}
	if s.ap, err = fg.ParseFile(repo, apiGo); err != nil {
		return nil, err
	}
	if s.bd, err = fg.ParseFile(repo, bindGo); err != nil {
		return nil, err
	}
	return s, nil
}

func loadRef() (*sources, error) { return loadRefWith(nil) }

// loadRefWith parses the pinned reference sources after applying textual edits (old -> new per file; used by the
// unit tests to build harmless and harmful variants).
func loadRefWith(edit map[string][][2]string) (*sources, error) {
	s := &sources{isRef: edit == nil}
	one := func(name, path string) (*fg.Parsed, error) {
		b, err := refFS.ReadFile("ref/" + name)
		if err != nil {
			return nil, err
		}
		txt := string(b)
		for _, e := range edit[name] {
			if !strings.Contains(txt, e[0]) {
				return nil, fmt.Errorf("%s: edit source text not found: %q", name, e[0])
			}
			txt = strings.Replace(txt, e[0], e[1], 1)
		}
		fset := token.NewFileSet()
		f, err := parser.ParseFile(fset, path, txt, parser.ParseComments)
		if err != nil {
			return nil, err
		}
		return &fg.Parsed{Fset: fset, File: f, Path: path}, nil
	}
	var err error
	if s.u, err = one("utils.go.txt", utilsGo); err != nil {
		return nil, err
	}
	if s.pg, err = one("page.go.txt", pageGo); err != nil {
		return nil, err
	}
	if s.ap, err = one("api.go.txt", apiGo); err != nil {
		return nil, err
	}
	if s.bd, err = one("bind.go.txt", bindGo); err != nil {
		return nil, err
	}
	return s, nil
}

func tree(p *fg.Parsed, recv, name string) (*Node, error) {
	return NewNormaliser(p).Tree(recv, name)
}

// ---------- Lean emission helpers

func chars(s string) string {
	if s == "" {
		return "[]"
	}
	var parts []string
	for _, r := range s {
		switch r {
		case '\'':
			parts = append(parts, `'\''`)
		case '\\':
			parts = append(parts, `'\\'`)
		case '\n':
			parts = append(parts, `'\n'`)
		case '\t':
			parts = append(parts, `'\t'`)
		default:
			parts = append(parts, "'"+string(r)+"'")
		}
	}
	return "[" + strings.Join(parts, ", ") + "]"
}

func strList(l []string) string {
	q := make([]string, len(l))
	for i, s := range l {
		q[i] = fg.LeanStr(s)
	}
	return "[" + strings.Join(q, ", ") + "]"
}

func pairList(l [][2]string) string {
	var parts []string
	for _, kv := range l {
		parts = append(parts, "("+chars(kv[0])+", "+chars(kv[1])+")")
	}
	return "[" + strings.Join(parts, ",\n  ") + "]"
}

func norm(s string) string { return strings.Join(strings.Fields(s), " ") }

// Lean names of the string constants of utils.go
var constLean = map[string]string{"poolPrefix": "poolPrefix", "DeploymentPrefixKey": "dpPrefix", "StatefulsetPrefixKey": "stsPrefix",
	"NoRefAppName": "noRefAppName", "NoRefAppTypePrefix": "noRefAppTypePrefix"}

// Lean parameter names of the KeyObj fields
var fieldLean = map[string]string{"@recv.PoolName": "poolName", "@recv.AppTypePrefix": "tp", "@recv.Namespace": "ns", "@recv.AppName": "app",
	"@recv.PodName": "pod"}

// strLean renders a string-valued normal-form expression over KeyObj fields and constants as a Lean List-Char term;
// params collects the Lean parameters used, in first-use order.
func strLean(e *Ex, params *[]string) (string, error) {
	add := func(p string) {
		for _, q := range *params {
			if q == p {
				return
			}
		}
		*params = append(*params, p)
	}
	var one func(e *Ex) (string, error)
	one = func(e *Ex) (string, error) {
		switch e.Op {
		case "lit":
			return chars(e.S), nil
		case "id":
			if l, ok := constLean[e.S]; ok {
				return l, nil
			}
		case "sel":
			if l, ok := fieldLean[e.String()]; ok {
				add(l)
				return l, nil
			}
		case "concat":
			var parts []string
			for _, a := range e.A {
				s, err := one(a)
				if err != nil {
					return "", err
				}
				parts = append(parts, s)
			}
			return strings.Join(parts, " ++ "), nil
		}
		return "", fmt.Errorf("unsupported string expression %s", e)
	}
	return one(e)
}

func defStr(name string, params []string, body string) string {
	ps := ""
	if len(params) > 0 {
		ps = " (" + strings.Join(params, " ") + " : List Char)"
	}
	return fmt.Sprintf("def %s%s : List Char :=\n  %s\n", name, ps, body)
}

// intLean renders an integer / boolean normal-form expression; vars maps parameter ids (@0, …) and special
// expressions (by canonical string) to Lean names.
func intLean(e *Ex, vars map[string]string) (string, error) {
	if v, ok := vars[e.String()]; ok {
		return v, nil
	}
	bin := func(op string) (string, error) {
		a, err := intLean(e.A[0], vars)
		if err != nil {
			return "", err
		}
		b, err := intLean(e.A[1], vars)
		if err != nil {
			return "", err
		}
		if op == "tdiv" {
			return fmt.Sprintf("(Int.tdiv %s %s)", a, b), nil // Go integer division truncates toward zero
		}
		if op == "min" || op == "max" {
			return fmt.Sprintf("(%s %s %s)", op, a, b), nil
		}
		return fmt.Sprintf("(%s %s %s)", a, op, b), nil
	}
	switch e.Op {
	case "int":
		if strings.HasPrefix(e.S, "-") {
			return "(" + e.S + ")", nil
		}
		return e.S, nil
	case "id":
		if e.S == "DefaultSize" {
			return "defaultSize", nil
		}
	case "min", "max":
		return bin(e.Op)
	case "lt":
		return bin("<")
	case "eq":
		return bin("=")
	case "bin":
		switch e.S {
		case "+", "-", "*":
			return bin(e.S)
		case "/":
			return bin("tdiv")
		}
	case "cmp":
		switch e.S {
		case "==":
			return bin("=")
		case "!=":
			return bin("≠")
		case "<":
			return bin("<")
		case ">":
			return bin(">")
		case "<=":
			return bin("≤")
		case ">=":
			return bin("≥")
		}
	}
	return "", fmt.Errorf("unsupported integer expression %s", e)
}

// intTreeLean renders a decision tree with single-value return leaves as nested if-then-else.
func intTreeLean(n *Node, vars map[string]string) (string, error) {
	if n.Cond == nil {
		if len(n.Ret) != 1 || len(n.Events) != 0 || len(n.Stores) != 0 {
			return "", fmt.Errorf("leaf %s is not a single value", n)
		}
		return intLean(n.Ret[0], vars)
	}
	c, err := intLean(n.Cond, vars)
	if err != nil {
		return "", err
	}
	t, err := intTreeLean(n.Then, vars)
	if err != nil {
		return "", err
	}
	e, err := intTreeLean(n.Else, vars)
	if err != nil {
		return "", err
	}
	return fmt.Sprintf("if %s then %s else %s", c, t, e), nil
}

// ---------- items

type item struct {
	name string
	f    func(s *sources) (string, error)
}

func (s *sources) constVal(e *Ex) (string, bool) {
	switch e.Op {
	case "lit":
		return e.S, true
	case "id":
		v, ok := s.consts[e.S]
		return v, ok
	}
	return "", false
}

func itemConsts(s *sources) (string, error) {
	var b strings.Builder
	s.consts = map[string]string{}
	for _, c := range []string{"poolPrefix", "DeploymentPrefixKey", "StatefulsetPrefixKey", "NoRefAppName", "NoRefAppTypePrefix"} {
		v, err := s.u.ConstString(c)
		if err != nil {
			return "", err
		}
		s.consts[c] = v
		fmt.Fprintf(&b, "/-- `%s = %s` -/\ndef %s : List Char := %s\n", c, strconv.Quote(v), constLean[c], chars(v))
	}
	return b.String() + "\n", nil
}

const (
	cPool = `(eq @recv.PoolName "")`
	cApp  = `(eq @recv.AppName "")`
	cNs   = `(eq @recv.Namespace "")`
)

func keyStore(l *Node) (*Ex, bool) {
	if len(l.Stores) != 1 || len(l.Ret) != 0 || len(l.Events) != 0 {
		return nil, false
	}
	e, ok := l.StoreEx["@recv.KeyInDB"]
	return e, ok
}

// genKey: the key as a function of which of pool / app / namespace are empty.  Read off by evaluating the normal form
// on all 8 combinations: pool≠"" ∧ app="" ⇒ P(pool); pool="" ∧ app="" ∧ ns="" ⇒ ""; otherwise [P(pool) ++] F(type, ns, app, pod).
func itemGenKey(s *sources) (string, error) {
	t, err := tree(s.u, "KeyObj", "genKey")
	if err != nil {
		return "", err
	}
	vals := map[[3]bool]*Ex{}
	for _, pe := range []bool{true, false} {
		for _, ae := range []bool{true, false} {
			for _, ne := range []bool{true, false} {
				leaf, ok := t.Eval(map[string]bool{cPool: pe, cApp: ae, cNs: ne})
				if !ok {
					return "", fmt.Errorf("%s: genKey tests something else than the emptiness of PoolName / AppName / Namespace:\n%s", utilsGo, t.Pretty("  "))
				}
				e, ok := keyStore(leaf)
				if !ok {
					return "", fmt.Errorf("%s: genKey does more than assigning KeyInDB on some path: %s", utilsGo, leaf)
				}
				vals[[3]bool{pe, ae, ne}] = e
			}
		}
	}
	P := vals[[3]bool{false, true, true}]
	F := vals[[3]bool{true, false, false}]
	nc := NewNormaliser(s.u)
	for k, v := range vals {
		var want *Ex
		switch {
		case !k[0] && k[1]:
			want = P
		case k[0] && k[1] && k[2]:
			want = lit("")
		case k[0]:
			want = F
		default:
			want = nc.concat(P, F)
		}
		if !v.eq(want) {
			return "", fmt.Errorf("%s: genKey: for pool empty=%v app empty=%v namespace empty=%v the key is %s, expected %s", utilsGo, k[0], k[1], k[2], v, want)
		}
	}
	var pp, fp []string
	pl, err := strLean(P, &pp)
	if err != nil {
		return "", err
	}
	fl, err := strLean(F, &fp)
	if err != nil {
		return "", err
	}
	if strings.Join(pp, ",") != "poolName" || strings.Join(fp, ",") != "tp,ns,app,pod" {
		return "", fmt.Errorf("%s: genKey uses other fields than expected: pool prefix over %v, key over %v", utilsGo, pp, fp)
	}
	return "/-- genKey: the prefix when `PoolName != \"\"`; it is the whole key when `AppName == \"\"` -/\n" + defStr("genKeyPoolPrefix", pp, pl) +
		"/-- genKey: the full key; `\"\"` instead when pool, app and namespace are all empty -/\n" +
		defStr("genKeyFull", append([]string{"pfx"}, fp...), "pfx ++ "+fl), nil
}

func retStr(t *Node, truth map[string]bool) (*Ex, error) {
	leaf, ok := t.Eval(truth)
	if !ok || len(leaf.Ret) != 1 || len(leaf.Events) != 0 || len(leaf.Stores) != 0 {
		return nil, fmt.Errorf("not a single returned value under %v:\n%s", truth, t.Pretty("  "))
	}
	return leaf.Ret[0], nil
}

func itemPoolPrefixes(s *sources) (string, error) {
	t, err := tree(s.u, "KeyObj", "PoolPrefix")
	if err != nil {
		return "", err
	}
	pool, err := retStr(t, map[string]bool{cPool: false})
	if err != nil {
		return "", fmt.Errorf("%s: PoolPrefix: %v", utilsGo, err)
	}
	app, err := retStr(t, map[string]bool{cPool: true})
	if err != nil {
		return "", fmt.Errorf("%s: PoolPrefix: %v", utilsGo, err)
	}
	t2, err := tree(s.u, "KeyObj", "PoolAppPrefix")
	if err != nil {
		return "", err
	}
	pa, err := retStr(t2, map[string]bool{cPool: false})
	if err != nil {
		return "", fmt.Errorf("%s: PoolAppPrefix: %v", utilsGo, err)
	}
	pa0, err := retStr(t2, map[string]bool{cPool: true})
	if err != nil {
		return "", fmt.Errorf("%s: PoolAppPrefix: %v", utilsGo, err)
	}
	if !pa0.eq(app) {
		return "", fmt.Errorf("%s: PoolAppPrefix without a pool is %s, not PoolPrefix() = %s", utilsGo, pa0, app)
	}
	var p1, p2, p3 []string
	l1, err := strLean(pool, &p1)
	if err != nil {
		return "", err
	}
	l2, err := strLean(app, &p2)
	if err != nil {
		return "", err
	}
	l3, err := strLean(pa, &p3)
	if err != nil {
		return "", err
	}
	if strings.Join(p1, ",") != "poolName" || strings.Join(p2, ",") != "tp,ns,app" || strings.Join(p3, ",") != "poolName,tp,ns,app" {
		return "", fmt.Errorf("%s: PoolPrefix / PoolAppPrefix use other fields than expected: %v %v %v", utilsGo, p1, p2, p3)
	}
	return "/-- PoolPrefix(), `PoolName != \"\"` branch -/\n" + defStr("poolPrefixPool", p1, l1) +
		"/-- PoolPrefix(), no pool -/\n" + defStr("poolPrefixApp", p2, l2) +
		"/-- PoolAppPrefix(), `PoolName != \"\"` branch (else PoolPrefix()) -/\n" + defStr("poolAppPrefixPool", p3, l3) + "\n", nil
}

func itemResolvePodKey(s *sources) (string, error) {
	t, err := tree(s.u, "", "resolvePodKey")
	if err != nil {
		return "", err
	}
	bad := func() (string, error) {
		return "", fmt.Errorf("%s: resolvePodKey is no longer `parts := Split(key, sep); if len(parts) == n { return parts[i]+suffix, parts[j], parts[k], parts[l] }; return \"\",\"\",\"\",\"\"`:\n%s",
			utilsGo, t.Pretty("  "))
	}
	if t.Cond == nil || t.Cond.Op != "eq" || t.Then.Cond != nil || t.Else.Cond != nil || len(t.Then.Ret) != 4 || len(t.Else.Ret) != 4 {
		return bad()
	}
	ln, cnt := t.Cond.A[0], t.Cond.A[1]
	if ln.Op != "len" || cnt.Op != "int" || ln.A[0].Op != "call" || len(ln.A[0].A) != 3 || ln.A[0].A[0].String() != "strings.Split" ||
		ln.A[0].A[1].String() != "@0$" || ln.A[0].A[2].Op != "lit" {
		return bad()
	}
	split := ln.A[0]
	sep := split.A[2].S
	for _, r := range t.Else.Ret {
		if !r.eq(lit("")) {
			return bad()
		}
	}
	idx := func(e *Ex) (string, bool) {
		if e.Op == "index" && e.A[0].eq(split) && e.A[1].Op == "int" {
			return e.A[1].S, true
		}
		return "", false
	}
	r := t.Then.Ret
	if r[0].Op != "concat" || len(r[0].A) != 2 || r[0].A[1].Op != "lit" {
		return bad()
	}
	i0, ok0 := idx(r[0].A[0])
	i1, ok1 := idx(r[1])
	i2, ok2 := idx(r[2])
	i3, ok3 := idx(r[3])
	if !ok0 || !ok1 || !ok2 || !ok3 || len([]rune(sep)) != 1 {
		return bad()
	}
	var b strings.Builder
	fmt.Fprintf(&b, "/-- resolvePodKey: `strings.Split(key, %q)` -/\ndef sep : Char := %s\n", sep, strings.Trim(chars(sep), "[]"))
	fmt.Fprintf(&b, "/-- resolvePodKey: `len(parts) == %s` -/\ndef partCount : Nat := %s\n", cnt.S, cnt.S)
	fmt.Fprintf(&b, "/-- resolvePodKey returns (parts[%s]+suffix, parts[%s], parts[%s], parts[%s]): indices of\n    (appTypePrefix, appName, podName, namespace) -/\n", i0, i1, i2, i3)
	fmt.Fprintf(&b, "def resolveIdx : Nat × Nat × Nat × Nat := (%s, %s, %s, %s)\n", i0, i1, i2, i3)
	fmt.Fprintf(&b, "def resolveTypeSuffix : List Char := %s\n\n", chars(r[0].A[1].S))
	return b.String(), nil
}

// sameAsRef: the normal form of a function equals the normal form of the pinned reference source.
func sameAsRef(cur, ref *fg.Parsed, recv, name, what string) error {
	t, err := tree(cur, recv, name)
	if err != nil {
		return err
	}
	r, err := tree(ref, recv, name)
	if err != nil {
		return fmt.Errorf("reference source: %v", err)
	}
	if t.String() != r.String() {
		return fmt.Errorf("%s: %s no longer has the normal form of the pinned source (%s); first difference:\n%s", cur.Path, name, what, firstDiff(r, t))
	}
	return nil
}

func firstDiff(ref, cur *Node) string {
	a, b := strings.Split(ref.Pretty(""), "\n"), strings.Split(cur.Pretty(""), "\n")
	for i := 0; i < len(a) && i < len(b); i++ {
		if a[i] != b[i] {
			return fmt.Sprintf("  pinned:  %s\n  current: %s", clip(a[i]), clip(b[i]))
		}
	}
	return fmt.Sprintf("  pinned has %d lines, current %d", len(a), len(b))
}

func clip(s string) string {
	s = strings.TrimSpace(s)
	if len(s) > 400 {
		return s[:400] + "…"
	}
	return s
}

func itemAppTypePrefix(s *sources) (string, error) {
	t, err := tree(s.u, "", "GetAppTypePrefix")
	if err != nil {
		return "", err
	}
	bad := func(why string) (string, error) {
		return "", fmt.Errorf("%s: GetAppTypePrefix is no longer a chain of `kind == c` tests, then `ToLower(kind) == c` tests, then `ToLower(kind) + suffix` (%s):\n%s",
			utilsGo, why, t.Pretty("  "))
	}
	const lower = `(call strings.ToLower @0$)`
	var exact, low [][2]string
	n := t
	for n.Cond != nil {
		if n.Cond.Op != "eq" || n.Then.Cond != nil || len(n.Then.Ret) != 1 || len(n.Then.Events) != 0 {
			return bad("test " + n.Cond.String())
		}
		// the tested value may be on either side after canonical ordering
		x, c := n.Cond.A[0], n.Cond.A[1]
		if _, ok := s.constVal(c); !ok {
			x, c = c, x
		}
		cv, ok1 := s.constVal(c)
		rv, ok2 := s.constVal(n.Then.Ret[0])
		if !ok1 || !ok2 {
			return bad("test " + n.Cond.String())
		}
		switch x.String() {
		case "@0$":
			if len(low) > 0 {
				return bad("exact test after lower-case tests")
			}
			exact = append(exact, [2]string{cv, rv})
		case lower:
			low = append(low, [2]string{cv, rv})
		default:
			return bad("tested value " + x.String())
		}
		n = n.Else
	}
	if len(n.Ret) != 1 || n.Ret[0].Op != "concat" || len(n.Ret[0].A) != 2 || n.Ret[0].A[0].String() != lower || n.Ret[0].A[1].Op != "lit" {
		return bad("default " + n.String())
	}
	for _, tb := range [][][2]string{exact, low} {
		seen := map[string]bool{}
		for _, kv := range tb {
			if seen[kv[0]] {
				return bad("duplicate key " + kv[0])
			}
			seen[kv[0]] = true
		}
	}
	sort.Slice(exact, func(i, j int) bool { return exact[i][0] < exact[j][0] })
	sort.Slice(low, func(i, j int) bool { return low[i][0] < low[j][0] })
	var b strings.Builder
	b.WriteString("/-- GetAppTypePrefix: comparisons on the kind as given (before lower-casing), sorted by key -/\n")
	b.WriteString("def appTypePrefixExact : List (List Char × List Char) := " + pairList(exact) + "\n")
	b.WriteString("/-- GetAppTypePrefix: comparisons on `strings.ToLower(kind)`, sorted by key -/\n")
	b.WriteString("def appTypePrefixLower : List (List Char × List Char) := " + pairList(low) + "\n")
	b.WriteString("/-- GetAppTypePrefix: default `lower + suffix` -/\n")
	b.WriteString("def appTypePrefixSuffix : List Char := " + chars(n.Ret[0].A[1].S) + "\n")
	return b.String(), nil
}

func itemAppType(s *sources) (string, error) {
	t, err := tree(s.u, "", "GetAppType")
	if err != nil {
		return "", err
	}
	bad := func(why string) (string, error) {
		return "", fmt.Errorf("%s: GetAppType is no longer a chain of `prefix == c` tests, then `\"\"` for the empty prefix, else `prefix[:len(prefix)-d]` (%s):\n%s",
			utilsGo, why, t.Pretty("  "))
	}
	var tbl [][2]string
	n := t
	for n.Cond != nil && n.Cond.String() != `(eq @0$ "")` {
		if n.Cond.Op != "eq" || n.Then.Cond != nil || len(n.Then.Ret) != 1 {
			return bad("test " + n.Cond.String())
		}
		x, c := n.Cond.A[0], n.Cond.A[1]
		if x.String() != "@0$" {
			x, c = c, x
		}
		cv, ok1 := s.constVal(c)
		rv, ok2 := s.constVal(n.Then.Ret[0])
		if x.String() != "@0$" || !ok1 || !ok2 {
			return bad("test " + n.Cond.String())
		}
		tbl = append(tbl, [2]string{cv, rv})
		n = n.Else
	}
	if n.Cond == nil || n.Then.Cond != nil || n.Else.Cond != nil || len(n.Then.Ret) != 1 || !n.Then.Ret[0].eq(lit("")) || len(n.Else.Ret) != 1 {
		return bad("default")
	}
	sl := n.Else.Ret[0]
	if sl.Op != "slice" || sl.A[0].String() != "@0$" || sl.A[1].Op != "none" || sl.A[2].Op != "bin" || sl.A[2].S != "-" ||
		sl.A[2].A[0].String() != "(len @0$)" || sl.A[2].A[1].Op != "int" {
		return bad("default " + sl.String())
	}
	seen := map[string]bool{}
	for _, kv := range tbl {
		if seen[kv[0]] {
			return bad("duplicate key")
		}
		seen[kv[0]] = true
	}
	sort.Slice(tbl, func(i, j int) bool { return tbl[i][0] < tbl[j][0] })
	d := sl.A[2].A[1].S
	return "/-- GetAppType: the prefixes with a fixed name, sorted by key -/\n" +
		"def appTypeTable : List (List Char × List Char) := " + pairList(tbl) + "\n" +
		fmt.Sprintf("/-- GetAppType default: `appTypePrefix[:len(appTypePrefix)-%s]` when non-empty, else \"\" -/\ndef appTypeDrop : Nat := %s\n\n", d, d), nil
}

func itemFormatKey(s *sources, ref *sources) (string, error) {
	for _, fn := range []string{"FormatKey", "resolveDeploymentName", "ParseKey"} {
		if err := sameAsRef(s.u, ref.u, "", fn, "the model's formatKey / resolveDeploymentName / parseKey transcribe it"); err != nil {
			return "", err
		}
	}
	return "/-- FormatKey / resolveDeploymentName (normal form equal to the pinned source): the owner kinds compared\n    literally and the replica-set name cut; ParseKey: HasPrefix poolPrefix, SplitN(rest, sep, 2) with both parts\n    required, resolvePodKey assigned to (AppTypePrefix, AppName, PodName, Namespace) -/\n" +
		"def kindStatefulSet : List Char := " + chars("StatefulSet") + "\n" +
		"def kindReplicaSet : List Char := " + chars("ReplicaSet") + "\n" +
		"def rsCut : Char := '-'\n" +
		"def parseKeyAssign : List String := " + strList([]string{"AppTypePrefix", "AppName", "PodName", "Namespace"}) + "\n\n", nil
}

// NewKeyObj: parameter i is stored in which field; genKey is called on the object.
func itemNewKeyObj(s *sources) (string, error) {
	t, err := tree(s.u, "", "NewKeyObj")
	if err != nil {
		return "", err
	}
	bad := func() (string, error) {
		return "", fmt.Errorf("%s: NewKeyObj no longer stores its five parameters in fields of a fresh KeyObj and calls genKey on it:\n%s", utilsGo, t.Pretty("  "))
	}
	if t.Cond != nil || len(t.Ret) != 1 || len(t.Events) != 1 {
		return bad()
	}
	obj := t.Ret[0]
	if obj.Op != "addr" || obj.A[0].Op != "struct" || obj.A[0].S != "KeyObj" || len(obj.A[0].A) != 5 {
		return bad()
	}
	if t.Events[0].String() != "(call "+obj.String()+".genKey)" {
		return bad()
	}
	wiring := make([]string, 5)
	for _, kv := range obj.A[0].A {
		v := kv.A[0].String()
		if len(v) != 3 || v[0] != '@' || v[2] != '$' || v[1] < '0' || v[1] > '4' || wiring[v[1]-'0'] != "" {
			return bad()
		}
		wiring[v[1]-'0'] = kv.S
	}
	return "/-- NewKeyObj(p0 … p4): the KeyObj field each parameter is stored in (then genKey) -/\n" +
		"def newKeyObjWiring : List String := " + strList(wiring) + "\n\n", nil
}

func itemConvert(s *sources) (string, error) {
	t, err := tree(s.ap, "", "convert")
	if err != nil {
		return "", err
	}
	if t.Cond != nil || len(t.Ret) != 1 || t.Ret[0].Op != "struct" || len(t.Events) != 0 {
		return "", fmt.Errorf("%s: convert is no longer one FloatingIP literal:\n%s", apiGo, t.Pretty("  "))
	}
	var b strings.Builder
	b.WriteString("/-- convert: API entry field := normal-form expression over the record (`@0`) -/\n")
	b.WriteString("def convertFields : List (String × String) := [")
	first := true
	for _, want := range []string{"IP", "Namespace", "AppName", "PodName", "PoolName", "AppType"} {
		for _, kv := range t.Ret[0].A {
			if kv.S == want {
				if !first {
					b.WriteString(", ")
				}
				first = false
				fmt.Fprintf(&b, "(%s, %s)", fg.LeanStr(want), fg.LeanStr(kv.A[0].String()))
			}
		}
	}
	b.WriteString("]\n\n")
	return b.String(), nil
}

// keyWiring inspects a handler's normal form: every `util.NewKeyObj(a0,…,a4)` it evaluates, on which path.
//
//	prefixArgs   the distinct arguments Y of util.GetAppTypePrefix(Y) inside a0 (plus any other a0 that is neither
//	             that nor the statefulset constant — a helper or a normalising wrapper shows up here)
//	defaultsSts  on every path: a0 = util.StatefulsetPrefixKey when Y == "" holds, a0 = util.GetAppTypePrefix(Y) otherwise
//	keyArgs      a1 … a4
func keyWiring(p *fg.Parsed, fn string) (defaultsSts bool, prefixArgs, keyArgs []string, err error) {
	t, err := tree(p, "Controller", fn)
	if err != nil {
		return false, nil, nil, err
	}
	type occ struct {
		facts map[string]bool
		args  []*Ex
	}
	var occs []occ
	t.AllLeaves(func(facts map[string]bool, leaf *Node) {
		seen := map[string]bool{}
		leaf.Exprs(func(e *Ex) {
			if e.Op == "call" && e.A[0].String() == "util.NewKeyObj" && len(e.A) == 6 && !seen[e.String()] {
				seen[e.String()] = true
				occs = append(occs, occ{facts, e.A[1:]})
			}
		})
	})
	if len(occs) == 0 {
		return false, nil, nil, fmt.Errorf("%s: %s no longer builds a key with util.NewKeyObj", apiGo, fn)
	}
	ys := map[string]*Ex{}
	var other []string
	for _, o := range occs {
		a0 := o.args[0]
		switch {
		case a0.String() == "util.StatefulsetPrefixKey":
		case a0.Op == "call" && len(a0.A) == 2 && a0.A[0].String() == "util.GetAppTypePrefix":
			ys[a0.A[1].String()] = a0.A[1]
		default:
			other = append(other, a0.String())
		}
	}
	for y := range ys {
		prefixArgs = append(prefixArgs, y)
	}
	sort.Strings(prefixArgs)
	sort.Strings(other)
	for i, o := range other {
		if i == 0 || other[i-1] != o {
			prefixArgs = append(prefixArgs, o)
		}
	}
	rest := ""
	for _, o := range occs {
		var as []string
		for _, a := range o.args[1:] {
			as = append(as, a.String())
		}
		if rest != "" && rest != strings.Join(as, "\x00") {
			return false, prefixArgs, nil, fmt.Errorf("%s: %s builds keys from different fields on different paths", apiGo, fn)
		}
		rest = strings.Join(as, "\x00")
		keyArgs = as
	}
	defaultsSts = len(ys) == 1 && len(other) == 0
	if defaultsSts {
		var y *Ex
		for _, v := range ys {
			y = v
		}
		empty := mkEq(y, lit("")).String()
		sawEmpty, sawNonEmpty := false, false
		for _, o := range occs {
			isEmpty, known := o.facts[empty]
			if !known {
				defaultsSts = false
				continue
			}
			a0 := o.args[0].String()
			if isEmpty {
				sawEmpty = true
				defaultsSts = defaultsSts && a0 == "util.StatefulsetPrefixKey"
			} else {
				sawNonEmpty = true
				defaultsSts = defaultsSts && a0 != "util.StatefulsetPrefixKey"
			}
		}
		defaultsSts = defaultsSts && sawEmpty && sawNonEmpty
	}
	return defaultsSts, prefixArgs, keyArgs, nil
}

func itemHandlers(s *sources, ref *sources) (string, error) {
	var b strings.Builder
	rel, relY, relArgs, err := keyWiring(s.ap, "ReleaseIPs")
	if err != nil {
		return "", err
	}
	lst, lstY, lstArgs, err := keyWiring(s.ap, "ListIPs")
	if err != nil {
		return "", err
	}
	b.WriteString("/-- ReleaseIPs: on every path that builds a key the prefix is the statefulset constant when the entry's app type is\n    empty and `GetAppTypePrefix` of it otherwise -/\n")
	b.WriteString("def releaseDefaultsToSts : Bool := " + fg.LeanBool(rel) + "\n")
	b.WriteString("/-- ReleaseIPs: arguments 2–5 of `util.NewKeyObj(...)` (normal form; `elem#0` is the request entry) -/\n")
	b.WriteString("def releaseKeyArgs : List String := " + strList(relArgs) + "\n")
	b.WriteString("/-- ReleaseIPs / ListIPs: what util.GetAppTypePrefix is applied to (exactly the entry's / the query's app type);\n    any other way the prefix is obtained is listed too -/\n")
	b.WriteString("def releasePrefixArgs : List String := " + strList(relY) + "\n")
	b.WriteString("def listPrefixArgs : List String := " + strList(lstY) + "\n")
	b.WriteString("/-- ListIPs (query without keyword): same default -/\n")
	b.WriteString("def listDefaultsToSts : Bool := " + fg.LeanBool(lst) + "\n")
	b.WriteString("def listKeyArgs : List String := " + strList(lstArgs) + "\n\n")
	// Release: every path that reaches ipam.Release(key, ip) has established record.Key == key for the record re-read by ip
	t, err := tree(s.bd, "FloatingIPPlugin", "Release")
	if err != nil {
		return "", err
	}
	guard, sawRelease := true, false
	t.AllLeaves(func(facts map[string]bool, leaf *Node) {
		byIP := -1
		for i, ev := range leaf.Events {
			if ev.String() == "(call @recv.ipam.ByIP @0.IP)" && byIP < 0 {
				byIP = i
			}
			if ev.Op == "call" && ev.A[0].String() == "@recv.ipam.Release" {
				sawRelease = true
				if byIP < 0 || len(ev.A) != 3 || ev.A[2].String() != "@0.IP" {
					guard = false
					continue
				}
				rec := &Ex{Op: "sel", S: "Key", A: []*Ex{{Op: "proj", S: "0", A: []*Ex{{Op: "ev", S: strconv.Itoa(byIP)}}}}}
				if !facts[mkEq(ev.A[1], rec).String()] || ev.A[1].String() != "@0.KeyObj.KeyInDB" {
					guard = false
				}
			}
		}
	})
	if !sawRelease {
		return "", fmt.Errorf("%s: FloatingIPPlugin.Release no longer calls p.ipam.Release", bindGo)
	}
	b.WriteString("/-- FloatingIPPlugin.Release: every path reaching `ipam.Release(k.KeyInDB, r.IP)` re-read the record by ip and\n    established `record.Key == k.KeyInDB` first -/\n")
	b.WriteString("def releaseMatchesKey : Bool := " + fg.LeanBool(guard) + "\n\n")
	return b.String(), nil
}

func itemHandlerShapes(s *sources, ref *sources) (string, error) {
	for _, f := range []struct {
		cur, ref   *fg.Parsed
		recv, name string
		what       string
	}{
		{s.ap, ref.ap, "Controller", "ReleaseIPs", "two loops: pre-check + one fresh release request per releasable entry, then the releases in order"},
		{s.ap, ref.ap, "Controller", "ListIPs", "query key, sort, PagingParams + Pagination, fips[start:end]"},
		{s.pg, ref.pg, "", "PagingParams", "page / size go through ParsePage / ParseSize"},
	} {
		if err := sameAsRef(f.cur, f.ref, f.recv, f.name, f.what); err != nil {
			return "", err
		}
	}
	return "", nil
}

func clampItem(s *sources, fn, v string) (string, error) {
	t, err := tree(s.pg, "", fn)
	if err != nil {
		return "", err
	}
	bad := func(why string) (string, error) {
		return "", fmt.Errorf("%s: %s is no longer `\"\" ⇒ default; Atoi error ⇒ value; else a chain of comparisons on the parsed number` (%s):\n%s",
			pageGo, fn, why, t.Pretty("  "))
	}
	const atoi = `(call strconv.Atoi @0$)`
	if t.Cond == nil || t.Cond.String() != `(eq @0$ "")` || t.Then.Cond != nil || len(t.Then.Ret) != 1 {
		return bad("empty-string test")
	}
	vars := map[string]string{atoi + "#0": v}
	dflt, err := intLean(t.Then.Ret[0], vars)
	if err != nil {
		return bad(err.Error())
	}
	n := t.Else
	if n.Cond == nil || n.Cond.String() != "(eq "+atoi+"#1 nil)" || n.Else.Cond != nil || len(n.Else.Ret) != 1 {
		return bad("Atoi error test")
	}
	onErr, err := intLean(n.Else.Ret[0], vars)
	if err != nil {
		return bad(err.Error())
	}
	clamp, err := intTreeLean(n.Then, vars)
	if err != nil {
		return bad(err.Error())
	}
	name := strings.ToLower(fn[:1]) + fn[1:]
	return fmt.Sprintf("/-- %s: value when the parameter is empty -/\ndef %sDefault : Int := %s\n", fn, name, dflt) +
		fmt.Sprintf("/-- %s: what happens to a successfully parsed integer -/\ndef %sClamp (%s : Int) : Int :=\n  %s\n", fn, name, v, clamp) +
		fmt.Sprintf("/-- %s: value when Atoi fails -/\ndef %sOnError : Int := %s\n", fn, name, onErr), nil
}

func itemPage(s *sources) (string, error) {
	var b strings.Builder
	dsz, err := s.pg.ConstInt("DefaultSize")
	if err != nil {
		return "", err
	}
	fmt.Fprintf(&b, "/-- page.DefaultSize -/\ndef defaultSize : Int := %d\n", dsz)
	for _, c := range [][2]string{{"ParsePage", "page"}, {"ParseSize", "size"}} {
		txt, err := clampItem(s, c[0], c[1])
		if err != nil {
			return "", err
		}
		b.WriteString(txt)
	}
	b.WriteString("\n")
	// paginationResult(page, size, len) = (start, end, size)
	t, err := tree(s.pg, "", "paginationResult")
	if err != nil {
		return "", err
	}
	if t.Cond != nil || len(t.Ret) != 3 || len(t.Events) != 0 {
		return "", fmt.Errorf("%s: paginationResult no longer returns three expressions of (page, size, len):\n%s", pageGo, t.Pretty("  "))
	}
	vars := map[string]string{"@0": "page", "@1": "size", "@2": "len"}
	var rs []string
	for _, r := range t.Ret {
		l, err := intLean(r, vars)
		if err != nil {
			return "", fmt.Errorf("%s: paginationResult: %v", pageGo, err)
		}
		rs = append(rs, l)
	}
	b.WriteString("/-- paginationResult(page, size, len) = (start, end, size) -/\n")
	b.WriteString("def paginationResult (page size len : Int) : Int × Int × Int :=\n  (" + strings.Join(rs, ", ") + ")\n\n")
	// pagin(start, end, size, len) = Page{…}
	tp, err := tree(s.pg, "", "pagin")
	if err != nil {
		return "", err
	}
	if tp.Cond != nil || len(tp.Ret) != 1 || tp.Ret[0].Op != "struct" || tp.Ret[0].S != "Page" {
		return "", fmt.Errorf("%s: pagin no longer returns one Page literal:\n%s", pageGo, tp.Pretty("  "))
	}
	pv := map[string]string{"@0": "start", "@1": "end_", "@2": "size", "@3": "len"}
	fields := map[string]*Ex{}
	for _, kv := range tp.Ret[0].A {
		fields[kv.S] = kv.A[0]
	}
	for _, f := range []struct{ goName, lean, typ string }{
		{"TotalPages", "paginTotalPages", "Int"}, {"Number", "paginNumber", "Int"},
		{"NumberOfElements", "paginNumberOfElements", "Int"}, {"TotalElements", "paginTotalElements", "Int"},
		{"Size", "paginSize", "Int"}, {"Last", "paginLast", "Bool"}, {"First", "paginFirst", "Bool"}} {
		e, ok := fields[f.goName]
		if !ok {
			return "", fmt.Errorf("%s: pagin no longer sets Page.%s", pageGo, f.goName)
		}
		l, err := intLean(e, pv)
		if err != nil {
			return "", fmt.Errorf("%s: pagin: Page.%s: %v", pageGo, f.goName, err)
		}
		if f.typ == "Bool" {
			l = "decide " + l
		}
		fmt.Fprintf(&b, "/-- pagin: Page.%s -/\ndef %s (start end_ size len : Int) : %s := %s\n", f.goName, f.lean, f.typ, l)
	}
	// Pagination(page, size, len) = paginationResult followed by pagin
	tP, err := tree(s.pg, "", "Pagination")
	if err != nil {
		return "", err
	}
	if tP.Cond != nil || len(tP.Ret) != 3 || len(tP.Events) != 0 {
		return "", fmt.Errorf("%s: Pagination no longer returns (start, end, &page):\n%s", pageGo, tP.Pretty("  "))
	}
	sub := map[string]*Ex{"@0": t.Ret[0], "@1": t.Ret[1], "@2": t.Ret[2], "@3": ident("@2")}
	want := &Ex{Op: "addr", A: []*Ex{tp.Ret[0].subst(sub)}}
	if !tP.Ret[0].eq(t.Ret[0]) || !tP.Ret[1].eq(t.Ret[1]) || !tP.Ret[2].eq(want) {
		return "", fmt.Errorf("%s: Pagination is no longer paginationResult(page, size, len) followed by pagin(start, end, size, len):\n%s", pageGo, tP.Pretty("  "))
	}
	return b.String(), nil
}

// ---------- the translator

func gen(repo string) (map[string]string, error) {
	cur, err := loadRepo(repo)
	if err != nil {
		return nil, err
	}
	ref, err := loadRef()
	if err != nil {
		return nil, err
	}
	txt, _, err := generate(cur, ref)
	if err != nil {
		return nil, err
	}
	return map[string]string{"Keys.lean": txt}, nil
}

// generate returns the Lean text and the list of unrecognised shapes.
func generate(cur, ref *sources) (string, []string, error) {
	items := []item{
		{"constants", itemConsts},
		{"genKey", itemGenKey},
		{"PoolPrefix / PoolAppPrefix", itemPoolPrefixes},
		{"resolvePodKey", itemResolvePodKey},
		{"GetAppTypePrefix", itemAppTypePrefix},
		{"GetAppType", itemAppType},
		{"FormatKey / resolveDeploymentName / ParseKey", func(s *sources) (string, error) { return itemFormatKey(s, ref) }},
		{"NewKeyObj", itemNewKeyObj},
		{"convert", itemConvert},
		{"ReleaseIPs / ListIPs / Release wiring", func(s *sources) (string, error) { return itemHandlers(s, ref) }},
		{"handler shapes", func(s *sources) (string, error) { return itemHandlerShapes(s, ref) }},
		{"paging", itemPage},
	}
	var shapeErrs []string
	var b strings.Builder
	b.WriteString(fg.Header("key codec constants, formats, case tables; paging arithmetic; API list/release shape (C11)",
		utilsGo, pageGo, apiGo, bindGo))
	b.WriteString("set_option linter.unusedVariables false\nnamespace Galaxy.Generated.Keys\n\n")
	if _, err := itemConsts(ref); err != nil {
		return "", nil, fmt.Errorf("reference source: %v", err)
	}
	for _, it := range items {
		txt, err := it.f(cur)
		if err != nil {
			shapeErrs = append(shapeErrs, it.name+": "+firstLines(err.Error(), 6))
			if cur.consts == nil {
				cur.consts = ref.consts
			}
			txt, err = it.f(ref)
			if err != nil {
				return "", nil, fmt.Errorf("reference source, %s: %v", it.name, err)
			}
			txt = "-- NOT RECOGNISED in the current source (see shapeErrors); value of the pinned reference source:\n" + txt
		}
		b.WriteString(txt)
	}
	b.WriteString("\n/-- source shapes this translator did not recognise (must be empty; the defs concerned then come from the pinned\n    reference source) -/\n")
	b.WriteString("def shapeErrors : List String := " + strList(shapeErrs) + "\n")
	b.WriteString("\nend Galaxy.Generated.Keys\n")
	return b.String(), shapeErrs, nil
}

func firstLines(s string, n int) string {
	l := strings.Split(s, "\n")
	if len(l) > n {
		l = append(l[:n], "…")
	}
	return strings.Join(l, "\n")
}
