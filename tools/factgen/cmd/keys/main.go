// factgen keys: regenerates lean/Galaxy/Generated/Keys.lean from
//
//	pkg/ipam/schedulerplugin/util/utils.go   key constants, genKey / PoolPrefix / PoolAppPrefix formats,
//	                                         ParseKey / resolvePodKey shape, GetAppTypePrefix / GetAppType tables
//	pkg/utils/page/page.go                   ParsePage / ParseSize clamps, paginationResult / pagin arithmetic
//	pkg/ipam/api/api.go                      convert field mapping, ReleaseIPs / ListIPs appType default, NewKeyObj call
//	pkg/ipam/schedulerplugin/bind.go         Release re-checks (ip, key) before releasing
//
// Syntactic only (go/ast, no type checking).  Whenever a function no longer has the control skeleton this
// translator knows, it exits non-zero with a message naming the function.
package main

import (
	"fmt"
	"go/ast"
	"go/token"
	"regexp"
	"strconv"
	"strings"

	"factgen/fg"
)

const (
	utilsGo = "pkg/ipam/schedulerplugin/util/utils.go"
	pageGo  = "pkg/utils/page/page.go"
	apiGo   = "pkg/ipam/api/api.go"
	bindGo  = "pkg/ipam/schedulerplugin/bind.go"
)

func main() { fg.Run("keys", gen) }

// ---------- Lean emission helpers

func chars(s string) string {
	if s == "" {
		return "[]"
	}
	var parts []string
	for _, r := range s {
		switch r {
		case '\'':
			parts = append(parts, `'\''`)
		case '\\':
			parts = append(parts, `'\\'`)
		case '\n':
			parts = append(parts, `'\n'`)
		case '\t':
			parts = append(parts, `'\t'`)
		default:
			parts = append(parts, "'"+string(r)+"'")
		}
	}
	return "[" + strings.Join(parts, ", ") + "]"
}

func strList(l []string) string {
	q := make([]string, len(l))
	for i, s := range l {
		q[i] = fg.LeanStr(s)
	}
	return "[" + strings.Join(q, ", ") + "]"
}

func norm(s string) string { return strings.Join(strings.Fields(s), " ") }

// ---------- Sprintf translation: only %s verbs and literal text

var sprintfArgNames = map[string]string{
	"poolPrefix":      "poolPrefix",
	"prefix":          "pfx",
	"k.PoolName":      "poolName",
	"k.AppTypePrefix": "tp",
	"k.Namespace":     "ns",
	"k.AppName":       "app",
	"k.PodName":       "pod",
}

// sprintfLean turns fmt.Sprintf("<fmt>", args...) into a Lean List-Char append expression and returns the
// Lean parameter names it uses (in first-use order, constants excluded).
func sprintfLean(p *fg.Parsed, call *ast.CallExpr) (string, []string, error) {
	if p.Src(call.Fun) != "fmt.Sprintf" || len(call.Args) < 1 {
		return "", nil, fmt.Errorf("not a fmt.Sprintf call: %s", p.Src(call))
	}
	bl, ok := call.Args[0].(*ast.BasicLit)
	if !ok || bl.Kind != token.STRING {
		return "", nil, fmt.Errorf("Sprintf format is not a literal: %s", p.Src(call))
	}
	format, err := strconv.Unquote(bl.Value)
	if err != nil {
		return "", nil, err
	}
	args := call.Args[1:]
	var segs, params []string
	seen := map[string]bool{}
	lit := ""
	flush := func() {
		if lit != "" {
			segs = append(segs, chars(lit))
			lit = ""
		}
	}
	ai := 0
	for i := 0; i < len(format); i++ {
		if format[i] != '%' {
			lit += string(format[i])
			continue
		}
		if i+1 >= len(format) || format[i+1] != 's' {
			return "", nil, fmt.Errorf("unsupported verb in format %q", format)
		}
		i++
		if ai >= len(args) {
			return "", nil, fmt.Errorf("too few arguments for format %q", format)
		}
		flush()
		name, ok := sprintfArgNames[p.Src(args[ai])]
		if !ok {
			return "", nil, fmt.Errorf("unknown Sprintf argument %s in %s", p.Src(args[ai]), p.Src(call))
		}
		segs = append(segs, name)
		if name != "poolPrefix" && !seen[name] {
			seen[name] = true
			params = append(params, name)
		}
		ai++
	}
	flush()
	if ai != len(args) {
		return "", nil, fmt.Errorf("too many arguments for format %q", format)
	}
	if len(segs) == 0 {
		return "[]", params, nil
	}
	return strings.Join(segs, " ++ "), params, nil
}

// skeleton prints a block with every fmt.Sprintf(...) call replaced by §<n>; returns the calls.
func skeleton(p *fg.Parsed, body *ast.BlockStmt) (string, []*ast.CallExpr) {
	var calls []*ast.CallExpr
	ast.Inspect(body, func(n ast.Node) bool {
		if c, ok := n.(*ast.CallExpr); ok && p.Src(c.Fun) == "fmt.Sprintf" {
			calls = append(calls, c)
			return false
		}
		return true
	})
	src := p.Src(body)
	for i, c := range calls {
		src = strings.Replace(src, p.Src(c), fmt.Sprintf("§%d", i), 1)
	}
	return norm(src), calls
}

func defFn(name string, params []string, body string) string {
	ps := ""
	if len(params) > 0 {
		ps = " (" + strings.Join(params, " ") + " : List Char)"
	}
	return fmt.Sprintf("def %s%s : List Char :=\n  %s\n", name, ps, body)
}

// ---------- integer expression translation (page arithmetic)

func leanIdent(s string) string {
	switch s {
	case "end":
		return "end_"
	case "DefaultSize":
		return "defaultSize"
	}
	return s
}

func intExpr(p *fg.Parsed, e ast.Expr) (string, error) {
	switch x := e.(type) {
	case *ast.ParenExpr:
		return intExpr(p, x.X)
	case *ast.Ident:
		return leanIdent(x.Name), nil
	case *ast.BasicLit:
		if x.Kind == token.INT {
			return x.Value, nil
		}
	case *ast.CallExpr:
		if id, ok := x.Fun.(*ast.Ident); ok && id.Name == "min" && len(x.Args) == 2 {
			a, err := intExpr(p, x.Args[0])
			if err != nil {
				return "", err
			}
			b, err := intExpr(p, x.Args[1])
			if err != nil {
				return "", err
			}
			return fmt.Sprintf("(min %s %s)", a, b), nil
		}
	case *ast.BinaryExpr:
		a, err := intExpr(p, x.X)
		if err != nil {
			return "", err
		}
		b, err := intExpr(p, x.Y)
		if err != nil {
			return "", err
		}
		switch x.Op {
		case token.ADD:
			return fmt.Sprintf("(%s + %s)", a, b), nil
		case token.SUB:
			return fmt.Sprintf("(%s - %s)", a, b), nil
		case token.MUL:
			return fmt.Sprintf("(%s * %s)", a, b), nil
		case token.QUO:
			// Go integer division truncates toward zero
			return fmt.Sprintf("(Int.tdiv %s %s)", a, b), nil
		case token.LSS:
			return fmt.Sprintf("(%s < %s)", a, b), nil
		case token.LEQ:
			return fmt.Sprintf("(%s ≤ %s)", a, b), nil
		case token.GTR:
			return fmt.Sprintf("(%s > %s)", a, b), nil
		case token.GEQ:
			return fmt.Sprintf("(%s ≥ %s)", a, b), nil
		case token.EQL:
			return fmt.Sprintf("(%s = %s)", a, b), nil
		}
	}
	return "", fmt.Errorf("unsupported integer expression %s", p.Src(e))
}

// clampFn translates ParsePage / ParseSize:
//
//	var ( v = <default>; err error )
//	if s != "" { v, err = strconv.Atoi(s); if err != nil || C1 { v = E1 } else if C2 { v = E2 } }
//	return v
//
// into  default  and  clamp v := if C1 then E1 else if C2 then E2 else v.
func clampFn(p *fg.Parsed, fname, v, s string) (dflt, clamp string, err error) {
	fd, err := p.Fn("", fname)
	if err != nil {
		return "", "", err
	}
	bad := func(why string) (string, string, error) {
		return "", "", fmt.Errorf("%s: %s no longer has the shape `var %s = d; if %s != \"\" {%s, err = strconv.Atoi(%s); if err != nil || c {..} else if c {..}}; return %s` (%s)",
			pageGo, fname, v, s, v, s, v, why)
	}
	if len(fd.Body.List) != 3 {
		return bad("statement count")
	}
	ds, ok := fd.Body.List[0].(*ast.DeclStmt)
	if !ok {
		return bad("no var block")
	}
	for _, sp := range ds.Decl.(*ast.GenDecl).Specs {
		vs := sp.(*ast.ValueSpec)
		for i, n := range vs.Names {
			if n.Name == v && i < len(vs.Values) {
				dflt, err = intExpr(p, vs.Values[i])
				if err != nil {
					return "", "", err
				}
			}
		}
	}
	if dflt == "" {
		return bad("default value")
	}
	ifs, ok := fd.Body.List[1].(*ast.IfStmt)
	if !ok || norm(p.Src(ifs.Cond)) != s+` != ""` || ifs.Else != nil || len(ifs.Body.List) != 2 {
		return bad("outer if")
	}
	if norm(p.Src(ifs.Body.List[0])) != fmt.Sprintf("%s, err = strconv.Atoi(%s)", v, s) {
		return bad("Atoi assignment")
	}
	if norm(p.Src(fd.Body.List[2])) != "return "+v {
		return bad("return")
	}
	chain, ok := ifs.Body.List[1].(*ast.IfStmt)
	if !ok {
		return bad("clamp chain")
	}
	var out strings.Builder
	first := true
	for chain != nil {
		cond := chain.Cond
		if first {
			be, ok := cond.(*ast.BinaryExpr)
			if !ok || be.Op != token.LOR || norm(p.Src(be.X)) != "err != nil" {
				return bad("first condition must be `err != nil || ...`")
			}
			cond = be.Y
			first = false
		}
		c, err := intExpr(p, cond)
		if err != nil {
			return "", "", err
		}
		if len(chain.Body.List) != 1 {
			return bad("clamp body")
		}
		as, ok := chain.Body.List[0].(*ast.AssignStmt)
		if !ok || as.Tok != token.ASSIGN || len(as.Lhs) != 1 || p.Src(as.Lhs[0]) != v {
			return bad("clamp body assignment")
		}
		e, err := intExpr(p, as.Rhs[0])
		if err != nil {
			return "", "", err
		}
		fmt.Fprintf(&out, "if %s then %s else ", c, e)
		switch el := chain.Else.(type) {
		case nil:
			chain = nil
		case *ast.IfStmt:
			chain = el
		default:
			return bad("else branch")
		}
	}
	out.WriteString(v)
	return dflt, out.String(), nil
}

// ---------- the translator

func gen(repo string) (map[string]string, error) {
	u, err := fg.ParseFile(repo, utilsGo)
	if err != nil {
		return nil, err
	}
	pg, err := fg.ParseFile(repo, pageGo)
	if err != nil {
		return nil, err
	}
	ap, err := fg.ParseFile(repo, apiGo)
	if err != nil {
		return nil, err
	}
	bd, err := fg.ParseFile(repo, bindGo)
	if err != nil {
		return nil, err
	}
	// Shapes of the HTTP handlers (api.go) the model depends on only through Boolean facts are reported softly: the
	// fact becomes false and the message goes to `shapeErrors` (pinned to [] by Props.C11.fact_api_shape), so the
	// proof obligation breaks but the driver still builds and the monitors can look for a concrete failing input.
	var shapeErrs []string
	var b strings.Builder
	b.WriteString(fg.Header("key codec constants, formats, case tables; paging arithmetic; API list/release shape (C11)",
		utilsGo, pageGo, apiGo, bindGo))
	b.WriteString("set_option linter.unusedVariables false\nnamespace Galaxy.Generated.Keys\n\n")

	// --- constants
	consts := map[string]string{}
	for _, c := range []struct{ goName, lean string }{
		{"poolPrefix", "poolPrefix"}, {"DeploymentPrefixKey", "dpPrefix"}, {"StatefulsetPrefixKey", "stsPrefix"},
		{"NoRefAppName", "noRefAppName"}, {"NoRefAppTypePrefix", "noRefAppTypePrefix"}} {
		v, err := u.ConstString(c.goName)
		if err != nil {
			return nil, err
		}
		consts[c.goName] = v
		fmt.Fprintf(&b, "/-- `%s = %s` -/\ndef %s : List Char := %s\n", c.goName, strconv.Quote(v), c.lean, chars(v))
	}
	b.WriteString("\n")

	// --- genKey
	fd, err := u.Fn("KeyObj", "genKey")
	if err != nil {
		return nil, err
	}
	sk, calls := skeleton(u, fd.Body)
	wantGenKey := norm(`{ var prefix string
		if k.PoolName != "" { prefix = §0
			if k.AppName == "" { k.KeyInDB = prefix
				return } }
		if k.PoolName == "" && k.AppName == "" && k.Namespace == "" { k.KeyInDB = ""
			return }
		k.KeyInDB = §1 }`)
	if sk != wantGenKey || len(calls) != 2 {
		return nil, fmt.Errorf("%s: KeyObj.genKey no longer has the known control skeleton\n got: %s\nwant: %s", utilsGo, sk, wantGenKey)
	}
	e0, p0, err := sprintfLean(u, calls[0])
	if err != nil {
		return nil, err
	}
	e1, p1, err := sprintfLean(u, calls[1])
	if err != nil {
		return nil, err
	}
	if strings.Join(p0, ",") != "poolName" || strings.Join(p1, ",") != "pfx,tp,ns,app,pod" {
		return nil, fmt.Errorf("%s: genKey Sprintf arguments changed: %v %v", utilsGo, p0, p1)
	}
	b.WriteString("/-- genKey: `prefix = Sprintf(..)` when `PoolName != \"\"`; returned alone when `AppName == \"\"` -/\n")
	b.WriteString(defFn("genKeyPoolPrefix", p0, e0))
	b.WriteString("/-- genKey: the full key; `\"\"` instead when pool, app and namespace are all empty -/\n")
	b.WriteString(defFn("genKeyFull", p1, e1))

	// --- PoolPrefix / PoolAppPrefix
	fd, err = u.Fn("KeyObj", "PoolPrefix")
	if err != nil {
		return nil, err
	}
	sk, calls = skeleton(u, fd.Body)
	if sk != norm(`{ if k.PoolName != "" { return §0 }
		return §1 }`) || len(calls) != 2 {
		return nil, fmt.Errorf("%s: KeyObj.PoolPrefix no longer has the known control skeleton: %s", utilsGo, sk)
	}
	e0, p0, err = sprintfLean(u, calls[0])
	if err != nil {
		return nil, err
	}
	e1, p1, err = sprintfLean(u, calls[1])
	if err != nil {
		return nil, err
	}
	if strings.Join(p0, ",") != "poolName" || strings.Join(p1, ",") != "tp,ns,app" {
		return nil, fmt.Errorf("%s: PoolPrefix Sprintf arguments changed: %v %v", utilsGo, p0, p1)
	}
	b.WriteString("/-- PoolPrefix(), `PoolName != \"\"` branch -/\n" + defFn("poolPrefixPool", p0, e0))
	b.WriteString("/-- PoolPrefix(), no pool -/\n" + defFn("poolPrefixApp", p1, e1))
	fd, err = u.Fn("KeyObj", "PoolAppPrefix")
	if err != nil {
		return nil, err
	}
	sk, calls = skeleton(u, fd.Body)
	if sk != norm(`{ if k.PoolName != "" { return §0 }
		return k.PoolPrefix() }`) || len(calls) != 1 {
		return nil, fmt.Errorf("%s: KeyObj.PoolAppPrefix no longer has the known control skeleton: %s", utilsGo, sk)
	}
	e0, p0, err = sprintfLean(u, calls[0])
	if err != nil {
		return nil, err
	}
	if strings.Join(p0, ",") != "poolName,tp,ns,app" {
		return nil, fmt.Errorf("%s: PoolAppPrefix Sprintf arguments changed: %v", utilsGo, p0)
	}
	b.WriteString("/-- PoolAppPrefix(), `PoolName != \"\"` branch (else PoolPrefix()) -/\n" + defFn("poolAppPrefixPool", p0, e0))
	b.WriteString("\n")

	// --- resolvePodKey
	fd, err = u.Fn("", "resolvePodKey")
	if err != nil {
		return nil, err
	}
	src := norm(u.Src(fd.Body))
	re := regexp.MustCompile(`^\{ parts := strings\.Split\(key, ("(?:[^"\\]|\\.)*")\) if len\(parts\) == (\d+) \{ return parts\[(\d+)\] \+ ("(?:[^"\\]|\\.)*"), parts\[(\d+)\], parts\[(\d+)\], parts\[(\d+)\] \} return "", "", "", "" \}$`)
	m := re.FindStringSubmatch(src)
	if m == nil {
		return nil, fmt.Errorf("%s: resolvePodKey no longer has the shape `parts := strings.Split(key, sep); if len(parts) == n { return parts[i]+suffix, parts[j], parts[k], parts[l] }; return \"\",\"\",\"\",\"\"`: %s", utilsGo, src)
	}
	sepS, _ := strconv.Unquote(m[1])
	sufS, _ := strconv.Unquote(m[4])
	if len([]rune(sepS)) != 1 {
		return nil, fmt.Errorf("%s: resolvePodKey separator %q is not a single character", utilsGo, sepS)
	}
	fmt.Fprintf(&b, "/-- resolvePodKey: `strings.Split(key, %s)` -/\ndef sep : Char := %s\n", m[1], strings.Trim(chars(sepS), "[]"))
	fmt.Fprintf(&b, "/-- resolvePodKey: `len(parts) == %s` -/\ndef partCount : Nat := %s\n", m[2], m[2])
	fmt.Fprintf(&b, "/-- resolvePodKey returns (parts[%s]+suffix, parts[%s], parts[%s], parts[%s]): indices of\n    (appTypePrefix, appName, podName, namespace) -/\n", m[3], m[5], m[6], m[7])
	fmt.Fprintf(&b, "def resolveIdx : Nat × Nat × Nat × Nat := (%s, %s, %s, %s)\n", m[3], m[5], m[6], m[7])
	fmt.Fprintf(&b, "def resolveTypeSuffix : List Char := %s\n\n", chars(sufS))

	// --- ParseKey
	fd, err = u.Fn("", "ParseKey")
	if err != nil {
		return nil, err
	}
	src = norm(u.Src(fd.Body))
	wantParse := norm(`{ keyObj := &KeyObj{KeyInDB: key}
		removedPoolKey := key
		if strings.HasPrefix(key, poolPrefix) { parts := strings.SplitN(key[len(poolPrefix):], SEP, 2)
			if len(parts) != 2 { return keyObj }
			keyObj.PoolName = parts[0]
			removedPoolKey = parts[1] }
		keyObj.AppTypePrefix, keyObj.AppName, keyObj.PodName, keyObj.Namespace = resolvePodKey(removedPoolKey)
		return keyObj }`)
	// comments inside the body are not printed by go/printer for a sub-node; strip them defensively anyway
	src = regexp.MustCompile(`//[^\n]*`).ReplaceAllString(src, "")
	if norm(src) != strings.Replace(wantParse, "SEP", m[1], 1) {
		return nil, fmt.Errorf("%s: ParseKey no longer has the known shape (HasPrefix poolPrefix; SplitN(rest, sep, 2); resolvePodKey into AppTypePrefix, AppName, PodName, Namespace)\n got: %s", utilsGo, src)
	}
	b.WriteString("/-- ParseKey: `keyObj.AppTypePrefix, keyObj.AppName, keyObj.PodName, keyObj.Namespace = resolvePodKey(..)`,\n    pool split is `SplitN(key[len(poolPrefix):], sep, 2)` with both parts required -/\n")
	b.WriteString("def parseKeyAssign : List String := " + strList([]string{"AppTypePrefix", "AppName", "PodName", "Namespace"}) + "\n\n")

	// --- GetAppTypePrefix
	fd, err = u.Fn("", "GetAppTypePrefix")
	if err != nil {
		return nil, err
	}
	exact, lowerT, dfl, err := appTypePrefixTables(u, fd, consts)
	if err != nil {
		return nil, err
	}
	b.WriteString("/-- GetAppTypePrefix: comparisons on the kind as given (before lower-casing) -/\n")
	b.WriteString("def appTypePrefixExact : List (List Char × List Char) := " + pairList(exact) + "\n")
	b.WriteString("/-- GetAppTypePrefix: comparisons on `strings.ToLower(kind)` -/\n")
	b.WriteString("def appTypePrefixLower : List (List Char × List Char) := " + pairList(lowerT) + "\n")
	b.WriteString("/-- GetAppTypePrefix: default `lower + suffix` -/\n")
	b.WriteString("def appTypePrefixSuffix : List Char := " + chars(dfl) + "\n")

	// --- GetAppType
	fd, err = u.Fn("", "GetAppType")
	if err != nil {
		return nil, err
	}
	tbl, drop, err := appTypeTable(u, fd, consts)
	if err != nil {
		return nil, err
	}
	b.WriteString("/-- GetAppType: switch cases -/\n")
	b.WriteString("def appTypeTable : List (List Char × List Char) := " + pairList(tbl) + "\n")
	fmt.Fprintf(&b, "/-- GetAppType default: `appTypePrefix[:len(appTypePrefix)-%d]` when non-empty, else \"\" -/\ndef appTypeDrop : Nat := %d\n\n", drop, drop)

	// --- FormatKey: owner kinds compared
	fd, err = u.Fn("", "FormatKey")
	if err != nil {
		return nil, err
	}
	src = norm(u.Src(fd.Body))
	for _, need := range []string{
		`if len(pod.OwnerReferences) == 0 { keyObj.AppName = NoRefAppName keyObj.AppTypePrefix = NoRefAppTypePrefix }`,
		`if pod.OwnerReferences[0].Kind == "StatefulSet" { keyObj.AppName = pod.OwnerReferences[0].Name keyObj.AppTypePrefix = StatefulsetPrefixKey }`,
		`else if pod.OwnerReferences[0].Kind != "ReplicaSet" {`,
		`keyObj.AppTypePrefix = GetAppTypePrefix(pod.OwnerReferences[0].Kind)`,
		`deploymentName := resolveDeploymentName(pod) if deploymentName == "" { return keyObj, fmt.Errorf("unsupported app type") } keyObj.AppName = deploymentName`,
		`keyObj.AppTypePrefix = DeploymentPrefixKey`,
		`pool := constant.GetPool(pod.Annotations)`,
		`PoolName: pool, PodName: pod.Name, Namespace: pod.Namespace`,
	} {
		if !strings.Contains(src, need) {
			return nil, fmt.Errorf("%s: FormatKey no longer contains `%s`", utilsGo, need)
		}
	}
	fd, err = u.Fn("", "resolveDeploymentName")
	if err != nil {
		return nil, err
	}
	src = norm(regexp.MustCompile(`//[^\n]*`).ReplaceAllString(u.Src(fd.Body), ""))
	wantRDN := norm(`{ if len(pod.OwnerReferences) == 1 && pod.OwnerReferences[0].Kind == "ReplicaSet" {
		ownerName := pod.OwnerReferences[0].Name
		lastIndex := strings.LastIndex(ownerName, "-")
		if lastIndex == -1 { return ownerName }
		return ownerName[:lastIndex] }
		return "" }`)
	if src != wantRDN {
		return nil, fmt.Errorf("%s: resolveDeploymentName no longer has the known shape: %s", utilsGo, src)
	}
	b.WriteString("/-- FormatKey / resolveDeploymentName: the owner kinds compared literally and the replica-set name cut -/\n")
	b.WriteString("def kindStatefulSet : List Char := " + chars("StatefulSet") + "\n")
	b.WriteString("def kindReplicaSet : List Char := " + chars("ReplicaSet") + "\n")
	b.WriteString("def rsCut : Char := '-'\n\n")

	// --- NewKeyObj parameter wiring
	fd, err = u.Fn("", "NewKeyObj")
	if err != nil {
		return nil, err
	}
	var params []string
	for _, f := range fd.Type.Params.List {
		for _, n := range f.Names {
			params = append(params, n.Name)
		}
	}
	src = norm(u.Src(fd.Body))
	if !strings.Contains(src, "AppTypePrefix: appTypePrefix, AppName: appName, PodName: podName, Namespace: namespace, PoolName: poolName") ||
		!strings.Contains(src, "k.genKey()") {
		return nil, fmt.Errorf("%s: NewKeyObj no longer wires its parameters to the same-named fields and calls genKey: %s", utilsGo, src)
	}
	b.WriteString("/-- NewKeyObj(appTypePrefix, namespace, appName, podName, poolName): parameter order; each goes to the same-named field -/\n")
	b.WriteString("def newKeyObjParams : List String := " + strList(params) + "\n\n")

	// --- api.go: convert
	fd, err = ap.Fn("", "convert")
	if err != nil {
		return nil, err
	}
	src = norm(ap.Src(fd.Body))
	if !strings.Contains(src, "keyObj := util.ParseKey(fip.Key)") {
		shapeErrs = append(shapeErrs, fmt.Sprintf("%s: convert no longer parses fip.Key with util.ParseKey", apiGo))
	}
	var conv [][2]string
	ast.Inspect(fd.Body, func(n ast.Node) bool {
		if cl, ok := n.(*ast.CompositeLit); ok && ap.Src(cl.Type) == "FloatingIP" {
			for _, el := range cl.Elts {
				kv := el.(*ast.KeyValueExpr)
				k := ap.Src(kv.Key)
				switch k {
				case "Namespace", "AppName", "PodName", "PoolName", "AppType", "IP":
					conv = append(conv, [2]string{k, norm(ap.Src(kv.Value))})
				}
			}
			return false
		}
		return true
	})
	b.WriteString("/-- convert: API entry field := expression over the parsed key -/\n")
	b.WriteString("def convertFields : List (String × String) := [")
	for i, kv := range conv {
		if i > 0 {
			b.WriteString(", ")
		}
		fmt.Fprintf(&b, "(%s, %s)", fg.LeanStr(kv[0]), fg.LeanStr(kv[1]))
	}
	b.WriteString("]\n\n")

	// --- api.go: ReleaseIPs / ListIPs appType default
	rel, relArgs, err := appTypeDefault(ap, "ReleaseIPs", "temp.AppType", "temp.")
	if err != nil {
		shapeErrs = append(shapeErrs, err.Error())
		rel, relArgs = false, nil
	}
	if err := releaseLoopsShape(ap); err != nil {
		shapeErrs = append(shapeErrs, err.Error())
	}
	lst, lstArgs, err := appTypeDefault(ap, "ListIPs", "appType", "")
	if err != nil {
		shapeErrs = append(shapeErrs, err.Error())
		lst, lstArgs = false, nil
	}
	b.WriteString("/-- ReleaseIPs: `if temp.AppType == \"\" { prefix = sts } else { prefix = GetAppTypePrefix(temp.AppType) }` —\n    true iff the statefulset default survives (the GetAppTypePrefix assignment is in the else branch) -/\n")
	b.WriteString("def releaseDefaultsToSts : Bool := " + fg.LeanBool(rel) + "\n")
	b.WriteString("/-- ReleaseIPs: arguments of `util.NewKeyObj(...)` (entry fields, `temp.` stripped) -/\n")
	b.WriteString("def releaseKeyArgs : List String := " + strList(relArgs) + "\n")
	b.WriteString("/-- ReleaseIPs / ListIPs: the expressions handed to util.GetAppTypePrefix inside the handler (exactly one each:\n    the entry's / query's app type itself, with no normalisation in between); [] when the handler does not call it directly -/\n")
	b.WriteString("def releasePrefixArgs : List String := " + strList(prefixArgs(ap, "ReleaseIPs")) + "\n")
	b.WriteString("def listPrefixArgs : List String := " + strList(prefixArgs(ap, "ListIPs")) + "\n")
	b.WriteString("/-- ListIPs (query without keyword): same default -/\n")
	b.WriteString("def listDefaultsToSts : Bool := " + fg.LeanBool(lst) + "\n")
	b.WriteString("def listKeyArgs : List String := " + strList(lstArgs) + "\n\n")

	// --- bind.go Release: matches on (ip, key)
	fd, err = bd.Fn("FloatingIPPlugin", "Release")
	if err != nil {
		return nil, err
	}
	iByIP := bd.StmtIndex(fd.Body, "p.ipam.ByIP(r.IP)")
	iCmp := bd.StmtIndex(fd.Body, "fip.Key != k.KeyInDB")
	iRel := bd.StmtIndex(fd.Body, "p.ipam.Release(")
	exactRel := bd.StmtIndex(fd.Body, "p.ipam.Release(k.KeyInDB, r.IP)") == iRel
	iRes := bd.StmtIndex(fd.Body, "p.reserveIP(")
	guard := exactRel && iByIP >= 0 && iCmp > iByIP && iRel > iCmp && (iRes < 0 || iRes > iCmp)
	if guard {
		// the guard must return on mismatch in every branch
		ifs, ok := fd.Body.List[iCmp].(*ast.IfStmt)
		if !ok || norm(bd.Src(ifs.Cond)) != "fip.Key != k.KeyInDB" {
			guard = false
		} else if _, ok := ifs.Body.List[len(ifs.Body.List)-1].(*ast.ReturnStmt); !ok {
			guard = false
		}
	}
	if iRel < 0 {
		return nil, fmt.Errorf("%s: FloatingIPPlugin.Release no longer calls p.ipam.Release", bindGo)
	}
	b.WriteString("/-- FloatingIPPlugin.Release: re-reads the record by ip under the pod lock and returns unless `fip.Key == k.KeyInDB`\n    before any mutating call; the release itself is `ipam.Release(k.KeyInDB, r.IP)` -/\n")
	b.WriteString("def releaseMatchesKey : Bool := " + fg.LeanBool(guard) + "\n\n")

	// --- page.go
	dsz, err := pg.ConstInt("DefaultSize")
	if err != nil {
		return nil, err
	}
	fmt.Fprintf(&b, "/-- page.DefaultSize -/\ndef defaultSize : Int := %d\n", dsz)
	d, c, err := clampFn(pg, "ParsePage", "page", "pageStr")
	if err != nil {
		return nil, err
	}
	fmt.Fprintf(&b, "/-- ParsePage: value when the parameter is empty -/\ndef parsePageDefault : Int := %s\n", d)
	fmt.Fprintf(&b, "/-- ParsePage: what happens to a successfully parsed integer (Atoi error ⇒ first branch's value) -/\ndef parsePageClamp (page : Int) : Int :=\n  %s\n", c)
	pageErr, err := firstBranchValue(c)
	if err != nil {
		return nil, err
	}
	fmt.Fprintf(&b, "def parsePageOnError : Int := %s\n", pageErr)
	d, c, err = clampFn(pg, "ParseSize", "size", "sizeStr")
	if err != nil {
		return nil, err
	}
	fmt.Fprintf(&b, "/-- ParseSize: value when the parameter is empty -/\ndef parseSizeDefault : Int := %s\n", d)
	fmt.Fprintf(&b, "/-- ParseSize: what happens to a successfully parsed integer -/\ndef parseSizeClamp (size : Int) : Int :=\n  %s\n", c)
	sizeErr, err := firstBranchValue(c)
	if err != nil {
		return nil, err
	}
	fmt.Fprintf(&b, "def parseSizeOnError : Int := %s\n\n", sizeErr)

	// paginationResult
	fd, err = pg.Fn("", "paginationResult")
	if err != nil {
		return nil, err
	}
	if len(fd.Body.List) != 3 {
		return nil, fmt.Errorf("%s: paginationResult no longer is `start := ..; end := ..; return start, end, size`", pageGo)
	}
	var lets []string
	for i, want := range []string{"start", "end"} {
		as, ok := fd.Body.List[i].(*ast.AssignStmt)
		if !ok || as.Tok != token.DEFINE || len(as.Lhs) != 1 || pg.Src(as.Lhs[0]) != want {
			return nil, fmt.Errorf("%s: paginationResult statement %d is not `%s := ...`", pageGo, i, want)
		}
		e, err := intExpr(pg, as.Rhs[0])
		if err != nil {
			return nil, err
		}
		lets = append(lets, fmt.Sprintf("  let %s : Int := %s", leanIdent(want), e))
	}
	if norm(pg.Src(fd.Body.List[2])) != "return start, end, size" {
		return nil, fmt.Errorf("%s: paginationResult no longer returns start, end, size", pageGo)
	}
	var pnames []string
	for _, f := range fd.Type.Params.List {
		for _, n := range f.Names {
			pnames = append(pnames, n.Name)
		}
	}
	if strings.Join(pnames, ",") != "page,size,len" {
		return nil, fmt.Errorf("%s: paginationResult parameters changed: %v", pageGo, pnames)
	}
	b.WriteString("/-- paginationResult(page, size, len) = (start, end, size) -/\n")
	b.WriteString("def paginationResult (page size len : Int) : Int × Int × Int :=\n" + strings.Join(lets, "\n") + "\n  (start, end_, size)\n\n")

	// pagin
	fd, err = pg.Fn("", "pagin")
	if err != nil {
		return nil, err
	}
	pnames = nil
	for _, f := range fd.Type.Params.List {
		for _, n := range f.Names {
			pnames = append(pnames, n.Name)
		}
	}
	if strings.Join(pnames, ",") != "start,end,size,len" {
		return nil, fmt.Errorf("%s: pagin parameters changed: %v", pageGo, pnames)
	}
	fields := map[string]string{}
	ast.Inspect(fd.Body, func(n ast.Node) bool {
		if cl, ok := n.(*ast.CompositeLit); ok && pg.Src(cl.Type) == "Page" {
			for _, el := range cl.Elts {
				kv := el.(*ast.KeyValueExpr)
				e, err2 := intExpr(pg, kv.Value)
				if err2 != nil {
					err = err2
				}
				fields[pg.Src(kv.Key)] = e
			}
			return false
		}
		return true
	})
	if err != nil {
		return nil, err
	}
	for _, f := range []struct{ goName, lean, typ string }{
		{"TotalPages", "paginTotalPages", "Int"}, {"Number", "paginNumber", "Int"},
		{"NumberOfElements", "paginNumberOfElements", "Int"}, {"TotalElements", "paginTotalElements", "Int"},
		{"Size", "paginSize", "Int"}, {"Last", "paginLast", "Bool"}, {"First", "paginFirst", "Bool"}} {
		e, ok := fields[f.goName]
		if !ok {
			return nil, fmt.Errorf("%s: pagin no longer sets Page.%s", pageGo, f.goName)
		}
		if f.typ == "Bool" {
			e = "decide " + e
		}
		fmt.Fprintf(&b, "/-- pagin: Page.%s -/\ndef %s (start end_ size len : Int) : %s := %s\n", f.goName, f.lean, f.typ, e)
	}
	// Pagination wires paginationResult into pagin
	fd, err = pg.Fn("", "Pagination")
	if err != nil {
		return nil, err
	}
	if norm(pg.Src(fd.Body)) != norm(`{ start, end, size := paginationResult(page, size, len)
		pagination := pagin(start, end, size, len)
		return start, end, &pagination }`) {
		return nil, fmt.Errorf("%s: Pagination no longer is paginationResult followed by pagin", pageGo)
	}
	fd, err = pg.Fn("", "PagingParams")
	if err != nil {
		return nil, err
	}
	if !strings.Contains(norm(pg.Src(fd.Body)), `ParsePage(req.QueryParameter("page")), ParseSize(req.QueryParameter("size"))`) {
		return nil, fmt.Errorf("%s: PagingParams no longer passes page/size through ParsePage/ParseSize", pageGo)
	}
	// ListIPs uses PagingParams + Pagination + fips[start:end]
	fd, err = ap.Fn("Controller", "ListIPs")
	if err != nil {
		return nil, err
	}
	src = norm(ap.Src(fd.Body))
	for _, need := range []string{"sortParam, page, size := pageutil.PagingParams(req)",
		"start, end, pagin := pageutil.Pagination(page, size, len(fips))", "pagedFips := fips[start:end]"} {
		if !strings.Contains(src, need) {
			shapeErrs = append(shapeErrs, fmt.Sprintf("%s: ListIPs no longer contains `%s`", apiGo, need))
		}
	}
	b.WriteString("\n/-- handler shapes this translator no longer recognises (must be empty) -/\n")
	b.WriteString("def shapeErrors : List String := " + strList(shapeErrs) + "\n")
	b.WriteString("\nend Galaxy.Generated.Keys\n")
	return map[string]string{"Keys.lean": b.String()}, nil
}

func pairList(l [][2]string) string {
	var parts []string
	for _, kv := range l {
		parts = append(parts, "("+chars(kv[0])+", "+chars(kv[1])+")")
	}
	return "[" + strings.Join(parts, ",\n  ") + "]"
}

var firstBranchRe = regexp.MustCompile(`^if .*? then (\S+) else `)

func firstBranchValue(clamp string) (string, error) {
	m := firstBranchRe.FindStringSubmatch(clamp)
	if m == nil {
		return "", fmt.Errorf("%s: cannot find the error-branch value in %s", pageGo, clamp)
	}
	return m[1], nil
}

// resolveStr evaluates an expression that must be a string literal or one of the known constants.
func resolveStr(p *fg.Parsed, e ast.Expr, consts map[string]string) (string, error) {
	switch x := e.(type) {
	case *ast.BasicLit:
		if x.Kind == token.STRING {
			return strconv.Unquote(x.Value)
		}
	case *ast.Ident:
		if v, ok := consts[x.Name]; ok {
			return v, nil
		}
	}
	return "", fmt.Errorf("not a string literal or known constant: %s", p.Src(e))
}

// appTypePrefixTables reads GetAppTypePrefix:
//
//	[if kind == C { return R }]*          exact comparisons, before lower-casing
//	lower := strings.ToLower(kind)
//	if lower == A || lower == B { return R } else if ... { return R }
//	return lower + "suffix"
func appTypePrefixTables(p *fg.Parsed, fd *ast.FuncDecl, consts map[string]string) (exact, lower [][2]string, suffix string, err error) {
	bad := func(why string) ([][2]string, [][2]string, string, error) {
		return nil, nil, "", fmt.Errorf("%s: GetAppTypePrefix no longer has the known shape (%s): %s", utilsGo, why, norm(p.Src(fd.Body)))
	}
	seenLower := false
	var collect func(v string, e ast.Expr, ret string, out *[][2]string) error
	collect = func(v string, e ast.Expr, ret string, out *[][2]string) error {
		be, ok := e.(*ast.BinaryExpr)
		if !ok {
			return fmt.Errorf("condition %s", p.Src(e))
		}
		if be.Op == token.LOR {
			if err := collect(v, be.X, ret, out); err != nil {
				return err
			}
			return collect(v, be.Y, ret, out)
		}
		if be.Op != token.EQL || p.Src(be.X) != v {
			return fmt.Errorf("condition %s", p.Src(e))
		}
		s, err := resolveStr(p, be.Y, consts)
		if err != nil {
			return err
		}
		*out = append(*out, [2]string{s, ret})
		return nil
	}
	retOf := func(blk *ast.BlockStmt) (string, error) {
		// comments do not count as statements
		if len(blk.List) != 1 {
			return "", fmt.Errorf("branch body is not a single return")
		}
		rs, ok := blk.List[0].(*ast.ReturnStmt)
		if !ok || len(rs.Results) != 1 {
			return "", fmt.Errorf("branch body is not a single return")
		}
		return resolveStr(p, rs.Results[0], consts)
	}
	n := len(fd.Body.List)
	for i, st := range fd.Body.List {
		switch s := st.(type) {
		case *ast.IfStmt:
			v := "kind"
			out := &exact
			if seenLower {
				v = "lower"
				out = &lower
			}
			for chain := s; chain != nil; {
				r, err := retOf(chain.Body)
				if err != nil {
					return bad(err.Error())
				}
				if err := collect(v, chain.Cond, r, out); err != nil {
					return bad(err.Error())
				}
				switch el := chain.Else.(type) {
				case nil:
					chain = nil
				case *ast.IfStmt:
					chain = el
				default:
					return bad("else block")
				}
			}
		case *ast.AssignStmt:
			if norm(p.Src(s)) != "lower := strings.ToLower(kind)" || seenLower {
				return bad("assignment " + norm(p.Src(s)))
			}
			seenLower = true
		case *ast.ReturnStmt:
			if i != n-1 || !seenLower || len(s.Results) != 1 {
				return bad("return position")
			}
			be, ok := s.Results[0].(*ast.BinaryExpr)
			if !ok || be.Op != token.ADD || p.Src(be.X) != "lower" {
				return bad("default return")
			}
			suffix, err = resolveStr(p, be.Y, consts)
			if err != nil {
				return bad(err.Error())
			}
		default:
			return bad("statement " + norm(p.Src(st)))
		}
	}
	if suffix == "" || !seenLower {
		return bad("no default")
	}
	return exact, lower, suffix, nil
}

// appTypeTable reads GetAppType: switch appTypePrefix { case C: return "x" ... default: if len(p) > 0 { return p[:len(p)-1] } else { return "" } }
func appTypeTable(p *fg.Parsed, fd *ast.FuncDecl, consts map[string]string) ([][2]string, int, error) {
	bad := func(why string) ([][2]string, int, error) {
		return nil, 0, fmt.Errorf("%s: GetAppType no longer has the known shape (%s): %s", utilsGo, why, norm(p.Src(fd.Body)))
	}
	if len(fd.Body.List) != 1 {
		return bad("statement count")
	}
	sw, ok := fd.Body.List[0].(*ast.SwitchStmt)
	if !ok || p.Src(sw.Tag) != "appTypePrefix" {
		return bad("switch")
	}
	var tbl [][2]string
	drop := -1
	for _, c := range sw.Body.List {
		cc := c.(*ast.CaseClause)
		if cc.List == nil {
			want := regexp.MustCompile(`^if len\(appTypePrefix\) > 0 \{ return appTypePrefix\[:len\(appTypePrefix\)-(\d+)\] \} else \{ return "" \}$`)
			if len(cc.Body) != 1 {
				return bad("default body")
			}
			m := want.FindStringSubmatch(norm(p.Src(cc.Body[0])))
			if m == nil {
				return bad("default body")
			}
			drop, _ = strconv.Atoi(m[1])
			continue
		}
		if len(cc.Body) != 1 {
			return bad("case body")
		}
		rs, ok := cc.Body[0].(*ast.ReturnStmt)
		if !ok || len(rs.Results) != 1 {
			return bad("case body")
		}
		r, err := resolveStr(p, rs.Results[0], consts)
		if err != nil {
			return bad(err.Error())
		}
		for _, e := range cc.List {
			k, err := resolveStr(p, e, consts)
			if err != nil {
				return bad(err.Error())
			}
			tbl = append(tbl, [2]string{k, r})
		}
	}
	if drop < 0 {
		return bad("no default")
	}
	return tbl, drop, nil
}

// appTypeDefault inspects the handler `fn` of api.go for
//
//	var appTypePrefix string
//	if X == "" { appTypePrefix = util.StatefulsetPrefixKey } [else { appTypePrefix = util.GetAppTypePrefix(X) }]
//	[appTypePrefix = util.GetAppTypePrefix(X)]
//	... util.NewKeyObj(appTypePrefix, a, b, c, d)
//
// and reports whether the statefulset default survives, plus the NewKeyObj arguments.
func appTypeDefault(p *fg.Parsed, fn, x, strip string) (bool, []string, error) {
	fd, err := p.Fn("Controller", fn)
	if err != nil {
		return false, nil, err
	}
	var block *ast.BlockStmt
	var idx = -1
	var theIf *ast.IfStmt
	ast.Inspect(fd.Body, func(n ast.Node) bool {
		blk, ok := n.(*ast.BlockStmt)
		if !ok {
			return true
		}
		for i, st := range blk.List {
			if ifs, ok := st.(*ast.IfStmt); ok && norm(p.Src(ifs.Cond)) == x+` == ""` && theIf == nil {
				block, idx, theIf = blk, i, ifs
			}
		}
		return true
	})
	if theIf == nil {
		return false, nil, fmt.Errorf("%s: %s no longer tests `%s == \"\"`", apiGo, fn, x)
	}
	if norm(p.Src(theIf.Body)) != "{ appTypePrefix = util.StatefulsetPrefixKey }" {
		return false, nil, fmt.Errorf("%s: %s: the empty-appType branch no longer assigns util.StatefulsetPrefixKey: %s", apiGo, fn, norm(p.Src(theIf.Body)))
	}
	call := "appTypePrefix = util.GetAppTypePrefix(" + x + ")"
	inElse := false
	if theIf.Else != nil {
		if norm(p.Src(theIf.Else)) != "{ "+call+" }" {
			return false, nil, fmt.Errorf("%s: %s: unknown else branch of the appType default: %s", apiGo, fn, norm(p.Src(theIf.Else)))
		}
		inElse = true
	}
	overwritten := false
	var args []string
	for _, st := range block.List[idx+1:] {
		s := norm(p.Src(st))
		if as, ok := st.(*ast.AssignStmt); ok && len(as.Lhs) == 1 && p.Src(as.Lhs[0]) == "appTypePrefix" {
			if s != call {
				return false, nil, fmt.Errorf("%s: %s: unknown assignment to appTypePrefix: %s", apiGo, fn, s)
			}
			overwritten = true
		}
		ast.Inspect(st, func(n ast.Node) bool {
			if c, ok := n.(*ast.CallExpr); ok && p.Src(c.Fun) == "util.NewKeyObj" && args == nil {
				for _, a := range c.Args {
					args = append(args, strings.TrimPrefix(p.Src(a), strip))
				}
			}
			return true
		})
	}
	if !inElse && !overwritten {
		return false, nil, fmt.Errorf("%s: %s never calls util.GetAppTypePrefix(%s)", apiGo, fn, x)
	}
	if args == nil {
		return false, nil, fmt.Errorf("%s: %s no longer builds the key with util.NewKeyObj", apiGo, fn)
	}
	return inElse && !overwritten, args, nil
}

// releaseLoopsShape checks the two loops of ReleaseIPs the model's `releaseRequest` transcribes: every entry of the
// request is copied (`temp := releaseIPReq.IPs[i]`), a fresh KeyObj / ReleaseRequest is APPENDED per releasable entry,
// and the second loop calls c.releaseFunc for every collected request.
func releaseLoopsShape(p *fg.Parsed) error {
	fd, err := p.Fn("Controller", "ReleaseIPs")
	if err != nil {
		return err
	}
	src := norm(p.Src(fd.Body))
	for _, need := range []string{
		"for i := range releaseIPReq.IPs { temp := releaseIPReq.IPs[i]",
		"keyObj := util.NewKeyObj(appTypePrefix, temp.Namespace, temp.AppName, temp.PodName, temp.PoolName) unbindRequests = append(unbindRequests, &schedulerplugin.ReleaseRequest{IP: ip, KeyObj: keyObj})",
		"for _, req := range unbindRequests { if err := c.releaseFunc(req); err != nil { unreleasedIP = append(unreleasedIP, req.IP.String())",
		"releasable, status := c.checkReleasableAndStatus(&temp) if !releasable { unreleasedIP = append(unreleasedIP, temp.IP)",
		"res.Unreleased = unreleasedIP",
	} {
		if !strings.Contains(src, need) {
			return fmt.Errorf("%s: ReleaseIPs no longer contains `%s`", apiGo, need)
		}
	}
	return nil
}

// prefixArgs lists the printed arguments of every util.GetAppTypePrefix(...) call in handler fn, and, for every other
// call whose result is assigned to appTypePrefix, "<callee>(<args>)" — so a helper or a normalising wrapper shows up.
func prefixArgs(p *fg.Parsed, fn string) []string {
	fd, err := p.Fn("Controller", fn)
	if err != nil {
		return nil
	}
	var out []string
	ast.Inspect(fd.Body, func(n ast.Node) bool {
		switch x := n.(type) {
		case *ast.CallExpr:
			if p.Src(x.Fun) == "util.GetAppTypePrefix" {
				var a []string
				for _, e := range x.Args {
					a = append(a, norm(p.Src(e)))
				}
				out = append(out, strings.Join(a, ", "))
			}
		case *ast.AssignStmt:
			if len(x.Lhs) >= 1 && p.Src(x.Lhs[0]) == "appTypePrefix" && len(x.Rhs) == 1 {
				if c, ok := x.Rhs[0].(*ast.CallExpr); ok && p.Src(c.Fun) != "util.GetAppTypePrefix" {
					out = append(out, norm(p.Src(c)))
				}
			}
		}
		return true
	})
	return out
}
