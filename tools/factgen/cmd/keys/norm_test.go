package main

import (
	"go/parser"
	"go/token"
	"testing"

	"factgen/fg"
)

func parseSrc(t *testing.T, src string) *fg.Parsed {
	t.Helper()
	fset := token.NewFileSet()
	f, err := parser.ParseFile(fset, "snippet.go", "package x\n"+src, parser.ParseComments)
	if err != nil {
		t.Fatal(err)
	}
	return &fg.Parsed{Fset: fset, File: f, Path: "snippet.go"}
}

func treeOf(t *testing.T, src, fn string) string {
	t.Helper()
	n := NewNormaliser(parseSrc(t, src))
	recv := ""
	if _, ok := n.methods[fn]; ok {
		recv = "T"
	}
	tr, err := n.Tree(recv, fn)
	if err != nil {
		t.Fatalf("%s: %v", fn, err)
	}
	return tr.String()
}

// every pair: same function f written two ways; want=true means the normal forms must coincide
var pairs = []struct {
	name string
	a, b string
	same bool
}{
	{"switch vs if chain, default vs guard, len==0 vs len>0",
		`const D = "dp_"; const S = "sts_"
		func f(p string) string { switch p { case D: return "deployment"; case S: return "statefulset"; default:
			if len(p) > 0 { return p[:len(p)-1] } else { return "" } } }`,
		`const D = "dp_"; const S = "sts_"
		func f(x string) string { if x == D { return "deployment" }
			if x == S { return "statefulset" }
			if len(x) == 0 { return "" }
			// strip
			return x[:len(x)-1] }`, true},
	{"switch: changed constant", `func f(p string) string { switch p { case "a": return "x"; default: return "" } }`,
		`func f(p string) string { if p == "a" { return "y" }; return "" }`, false},
	{"switch multi-value case vs ||", `func f(p string) int { switch p { case "a", "b": return 1 }; return 2 }`,
		`func f(q string) int { if q == "a" || q == "b" { return 1 }; return 2 }`, true},
	{"Sprintf vs concatenation", `func f(a, b string) string { return fmt.Sprintf("%s_%s", a, b) }`,
		`func f(ns, name string) string { return ns + "_" + name }`, true},
	{"Sprintf vs concatenation: operand order matters", `func f(a, b string) string { return fmt.Sprintf("%s_%s", a, b) }`,
		`func f(a, b string) string { return b + "_" + a }`, false},
	{"Sprintf with a prefix local and constants", `const pp = "pool__"
		func f(pool, tp string) string { prefix := fmt.Sprintf("%s%s_", pp, pool); return fmt.Sprintf("%s%s", prefix, tp) }`,
		`const pp = "pool__"
		func f(p, t string) string { return pp + p + "_" + t }`, true},
	{"different separator", `func f(a, b string) string { return a + "_" + b }`, `func f(a, b string) string { return a + "-" + b }`, false},
	{"if/else vs guard clause, alpha renaming, named boolean", `func f(a string, n int) int { var r int
		if a == "" { r = 1 } else { r = n + 2 }
		return r }`,
		`func f(s string, k int) int { empty := s == ""
		if !empty { return k + 2 }
		return 1 }`, true},
	{"dropped guard", `func f(a string, n int) int { if a == "" { return 1 }; return n }`, `func f(a string, n int) int { return n }`, false},
	{"changed operator", `func f(a, b int) int { return a + b }`, `func f(a, b int) int { return a + b - 1 }`, false},
	{"changed comparison", `func f(a int) int { if a > 9 { return 9 }; return a }`, `func f(a int) int { if a >= 9 { return 9 }; return a }`, false},
	{"comparison written the other way round", `func f(a int) int { if a > 9 { return 9 }; return a }`,
		`func f(a int) int { if 9 < a { return 9 } else { return a } }`, true},
	{"&& vs nested if; conjunct order on disjoint tests is kept", `func f(a, b string) int { if a == "" && b == "" { return 1 }; return 2 }`,
		`func f(a, b string) int { if a == "" { if b == "" { return 1 } }; return 2 }`, true},
	{"extracted private helper (one level)", `func f(t string) string { var p string
		if t == "" { p = "sts_" } else { p = G(t) }
		if p == "" { return "bad" }
		return p + "x" }`,
		`func f(t string) string { p := orDefault(t)
		if p == "" { return "bad" }
		return p + "x" }
		func orDefault(t string) string { if t == "" { return "sts_" }; return G(t) }`, true},
	{"extracted helper that normalises its argument differs", `func f(t string) string { if t == "" { return "sts_" }; return G(t) }`,
		`func f(t string) string { return h(t) }
		func h(t string) string { if t == "" { return "sts_" }; return G(strings.TrimSuffix(t, "s")) }`, false},
	{"missing else (value overwritten) differs", `func f(t string) string { var p string
		if t == "" { p = "sts_" } else { p = G(t) }
		return p }`,
		`func f(t string) string { var p string
		if t == "" { p = "sts_" }
		p = G(t)
		return p }`, false},
	{"min helper is recognised; arithmetic kept", `func min(a, b int) int { if a < b { return a }; return b }
		func f(p, s, n int) (int, int) { start := min(p*s, n); end := min(start+s, n); return start, end }`,
		`func min(x, y int) int { if x < y { return x } else { return y } }
		func f(page, size, l int) (int, int) { st := min(page*size, l); return st, min(st+size, l) }`, true},
	{"off by one in arithmetic differs", `func min(a, b int) int { if a < b { return a }; return b }
		func f(p, s, n int) int { return min(p*s+s, n) }`,
		`func min(a, b int) int { if a < b { return a }; return b }
		func f(p, s, n int) int { return min(p*s+s-1, n) }`, false},
	{"range with index vs range with value; log lines and error text ignored", `func f(xs []T) error { for i := range xs { t := xs[i]
			glog.Infof("x %v", t)
			if t.A == "" { return fmt.Errorf("bad %v", t) }
			use(t.A) }
		return nil }`,
		`func f(items []T) error { for _, it := range items {
			if it.A == "" { return fmt.Errorf("empty field") }
			use(it.A) }
		return nil }`, true},
	{"reordered effectful calls differ", `func f() { a(); b() }`, `func f() { b(); a() }`, false},
	{"changed call argument differs", `func f(k K) error { return rel(k.Key, k.IP) }`, `func f(k K) error { return rel(k.Other, k.IP) }`, false},
	{"struct built field by field vs literal", `func f(a, b string) *K { k := &K{A: a}; k.B = b; return k }`,
		`func f(x, y string) *K { return &K{B: y, A: x} }`, true},
	{"method receiver renamed, stores to receiver field", `func (k *T) g() { if k.P != "" { k.Key = k.P + "_"; return }; k.Key = "" }`,
		`func (o *T) g() { if o.P == "" { o.Key = ""; return }
		o.Key = fmt.Sprintf("%s_", o.P) }`, true},
	{"nil vs non-nil error result differs", `func f(a string) error { if a == "" { return fmt.Errorf("x") }; return nil }`,
		`func f(a string) error { if a == "" { return nil }; return nil }`, false},
}

func TestNormalFormPairs(t *testing.T) {
	for _, p := range pairs {
		fn := "f"
		if p.name[:6] == "method" {
			fn = "g"
		}
		a, b := treeOf(t, p.a, fn), treeOf(t, p.b, fn)
		if (a == b) != p.same {
			t.Errorf("%s: same=%v expected %v\n a: %s\n b: %s", p.name, a == b, p.same, a, b)
		}
	}
}
