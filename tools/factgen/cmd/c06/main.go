// factgen c06: regenerates lean/Galaxy/Generated/C06.lean from the CURRENT source of the filter / bind / ipam code the
// C06 proofs (filter-approved nodes can be bound and get a routable IP) rely on:
//
//   - NodeSubnetsByIPRanges: what seeds the running intersection over the requested range lists (`i == 0` = first range
//     only; `subnetSet.Len() == 0` = the pre-fix re-seeding of D7), and that a range list without a free address ends
//     the walk with the empty set;
//   - getSubnet: what seeds the running intersection over the already owned addresses (a flag set at the first owned
//     address / the loop index / the set size) and what guards the final intersection (the flag / the set size);
//   - AllocateInSubnetsAndIPRange: the per-range pick is the first walk-order address that is unallocated, whose pool
//     lists the node subnet and which has not been picked for an earlier range; a non-matching address CONTINUES the
//     walk (`return false`), the first match stops it (`return true`);
//   - allocateIP (Bind): owned addresses are reused, only the range lists without an owned address are allocated, and
//     the owned addresses are queried again afterwards;
//   - toFloatingIPInfo: mask, vlan and gateway come from the pool of the address (`fip.pool`);
//   - ByKeyAndIPRanges without ranges returns the key's addresses sorted ascending;
//   - updateConfigMap drops the node-subnet cache after a configuration change (the deferred closure reads the variable
//     the result of ensureIPAMConf is assigned to).
//
// Purely syntactic (go/ast on single functions, conditions compared as printed text).  Every shape it does not know
// makes it fail loudly (non-zero exit), so a rewrite of these places breaks the check until a human has looked.
package main

import (
	"fmt"
	"go/ast"
	"go/token"
	"strings"

	"factgen/fg"
)

const (
	ipamFile   = "pkg/ipam/floatingip/ipam_crd.go"
	filterFile = "pkg/ipam/schedulerplugin/filter.go"
	bindFile   = "pkg/ipam/schedulerplugin/bind.go"
	pluginFile = "pkg/ipam/schedulerplugin/floatingip_plugin.go"
)

// ifsIn returns every if statement below n, in source order.
func ifsIn(n ast.Node) []*ast.IfStmt {
	var out []*ast.IfStmt
	ast.Inspect(n, func(x ast.Node) bool {
		if s, ok := x.(*ast.IfStmt); ok {
			out = append(out, s)
		}
		return true
	})
	return out
}

// rangeLoopOver finds the first `for … := range <expr>` below n whose ranged expression prints as expr.
func rangeLoopOver(p *fg.Parsed, n ast.Node, expr string) *ast.RangeStmt {
	var out *ast.RangeStmt
	ast.Inspect(n, func(x ast.Node) bool {
		if r, ok := x.(*ast.RangeStmt); ok && out == nil && p.Src(r.X) == expr {
			out = r
		}
		return out == nil
	})
	return out
}

// walkFns are the functions that walk the addresses of a requested range list in request order (ascending inside each
// range): walkIPRanges, and walkConfiguredIPRanges which skips the addresses outside the configured pools (they are
// in neither cache, so every callback below answers "continue" for them).
var walkFns = map[string]bool{"walkIPRanges": true, "ci.walkConfiguredIPRanges": true}

// walkCallback finds the function literal handed to a walk function below n.
func walkCallback(p *fg.Parsed, n ast.Node) *ast.FuncLit {
	var out *ast.FuncLit
	ast.Inspect(n, func(x ast.Node) bool {
		if c, ok := x.(*ast.CallExpr); ok && out == nil && walkFns[p.Src(c.Fun)] && len(c.Args) == 2 {
			if fl, ok := c.Args[1].(*ast.FuncLit); ok {
				out = fl
			}
		}
		return out == nil
	})
	return out
}

func norm(s string) string { return strings.Join(strings.Fields(s), " ") }

func elseText(p *fg.Parsed, s *ast.IfStmt) string {
	if s.Else == nil {
		return ""
	}
	return norm(p.Src(s.Else))
}

func gen(repo string) (map[string]string, error) {
	var b strings.Builder
	b.WriteString(fg.Header("structural facts of filter / bind / ipam the C06 proofs rely on", ipamFile, filterFile, bindFile))
	b.WriteString("namespace Galaxy.Generated.C06\n\n")
	ip, err := fg.ParseFile(repo, ipamFile)
	if err != nil {
		return nil, err
	}

	// ---- the walk over a requested range list
	walkOK := false
	if wf, err := ip.Fn("", "walkIPRanges"); err == nil {
		t := norm(ip.Src(wf.Body))
		walkOK = strings.Contains(t, "for _, r := range ranges {") && strings.Contains(t, "first <= last; first++") &&
			strings.Contains(t, "if f(ip) { return }")
	}
	if wc, err := ip.Fn("crdIpam", "walkConfiguredIPRanges"); err == nil {
		t := norm(ip.Src(wc.Body))
		walkOK = walkOK && strings.Contains(t, "for _, r := range ranges {") && strings.Contains(t, "sort.Slice(parts, func(i, j int) bool { return nets.IPToInt(parts[i].First) < nets.IPToInt(parts[j].First) })") &&
			strings.Contains(t, "walkIPRanges(parts, func(ip net.IP) bool { stopped = f(ip) return stopped })") &&
			strings.Contains(t, "if stopped { return }")
	}
	fmt.Fprintf(&b, "/-- the walk over a requested range list visits its ranges in list order, the addresses of a range in ascending order,\n    and stops when the callback answers true (addresses outside the configured pools may be skipped: they are in no cache) -/\ndef walkInRequestOrder : Bool := %s\n\n", fg.LeanBool(walkOK))

	// ---- NodeSubnetsByIPRanges
	ns, err := ip.Fn("crdIpam", "NodeSubnetsByIPRanges")
	if err != nil {
		return nil, err
	}
	loop := rangeLoopOver(ip, ns.Body, "ipranges")
	if loop == nil {
		return nil, fmt.Errorf("%s: NodeSubnetsByIPRanges no longer loops `for … := range ipranges`", ipamFile)
	}
	var seed *ast.IfStmt
	emptyEnds := false
	emptyBeforeSeed := false
	for _, s := range loop.Body.List {
		is, ok := s.(*ast.IfStmt)
		if !ok {
			continue
		}
		body := norm(ip.Src(is.Body))
		if norm(ip.Src(is.Cond)) == "poolIndexSet.Len() == 0" && strings.Contains(body, "return sets.NewString(), nil") {
			emptyEnds = true
			emptyBeforeSeed = seed == nil
		}
		if strings.Contains(body, "insertSubnet(poolIndexSet, subnetSet)") && seed == nil {
			seed = is
		}
	}
	if seed == nil {
		return nil, fmt.Errorf("%s: NodeSubnetsByIPRanges: the statement seeding the running intersection "+
			"(`if … { insertSubnet(poolIndexSet, subnetSet) } else { … Intersection … }`) was not found", ipamFile)
	}
	if !strings.Contains(elseText(ip, seed), "subnetSet = subnetSet.Intersection(partset)") ||
		!strings.Contains(elseText(ip, seed), "insertSubnet(poolIndexSet, partset)") {
		return nil, fmt.Errorf("%s: NodeSubnetsByIPRanges: the non-seeding branch no longer intersects with the "+
			"subnets of this range's pools: %s", ipamFile, elseText(ip, seed))
	}
	idx := ""
	if id, ok := loop.Key.(*ast.Ident); ok {
		idx = id.Name
	}
	var firstOnly bool
	switch c := norm(ip.Src(seed.Cond)); {
	case idx != "" && idx != "_" && c == idx+" == 0":
		firstOnly = true
	case c == "subnetSet.Len() == 0" || c == "len(subnetSet) == 0":
		firstOnly = false
	default:
		return nil, fmt.Errorf("%s: NodeSubnetsByIPRanges: unknown seeding condition `%s`", ipamFile, c)
	}
	fmt.Fprintf(&b, "/-- NodeSubnetsByIPRanges: the running intersection over the requested range lists is seeded by the FIRST range\n    list only (`i == 0`); false = re-seeded whenever it is empty (defect D7) -/\ndef nodeSubnetsSeedFirstIndexOnly : Bool := %s\n", fg.LeanBool(firstOnly))
	fmt.Fprintf(&b, "/-- NodeSubnetsByIPRanges: a range list without an unallocated address ends the walk with the empty set, before\n    the seeding statement -/\ndef nodeSubnetsEmptyRangeEndsWalk : Bool := %s\n", fg.LeanBool(emptyEnds && emptyBeforeSeed))
	cb := walkCallback(ip, loop.Body)
	collectsAll := false
	if cb != nil {
		t := norm(ip.Src(cb.Body))
		collectsAll = strings.Contains(t, "ci.unallocatedFIPs[ipStr]") && strings.Contains(t, "poolIndexSet.Insert(fip.pool.index)") &&
			!strings.Contains(t, "return true")
	}
	fmt.Fprintf(&b, "/-- NodeSubnetsByIPRanges: the pools of ALL unallocated addresses of the range list are collected (the walk never\n    stops early) -/\ndef nodeSubnetsCollectsAllFreePools : Bool := %s\n\n", fg.LeanBool(collectsAll))

	// ---- getSubnet
	fl, err := fg.ParseFile(repo, filterFile)
	if err != nil {
		return nil, err
	}
	gs, err := fl.Fn("FloatingIPPlugin", "getSubnet")
	if err != nil {
		return nil, err
	}
	iloop := rangeLoopOver(fl, gs.Body, "ipInfos")
	if iloop == nil {
		return nil, fmt.Errorf("%s: getSubnet no longer loops `for i := range ipInfos`", filterFile)
	}
	var gseed *ast.IfStmt
	for _, is := range ifsIn(iloop.Body) {
		if strings.Contains(norm(fl.Src(is.Body)), "allocatedSubnets.Insert(ipInfos[i].NodeSubnets.UnsortedList()...)") {
			gseed = is
			break
		}
	}
	if gseed == nil {
		return nil, fmt.Errorf("%s: getSubnet: the statement seeding the intersection of the owned addresses' subnets was not found", filterFile)
	}
	if !strings.Contains(elseText(fl, gseed), "allocatedSubnets = allocatedSubnets.Intersection(ipInfos[i].NodeSubnets)") {
		return nil, fmt.Errorf("%s: getSubnet: the non-seeding branch no longer intersects: %s", filterFile, elseText(fl, gseed))
	}
	gidx := ""
	if id, ok := iloop.Key.(*ast.Ident); ok {
		gidx = id.Name
	}
	seedRule := ""
	switch c := norm(fl.Src(gseed.Cond)); {
	case c == "!hasAllocated" && strings.Contains(norm(fl.Src(gseed.Body)), "hasAllocated = true"):
		seedRule = "flag"
	case gidx != "" && c == gidx+" == 0":
		seedRule = "index"
	case c == "allocatedSubnets.Len() == 0":
		seedRule = "empty"
	default:
		return nil, fmt.Errorf("%s: getSubnet: unknown seeding condition `%s`", filterFile, c)
	}
	// the seeding statement must sit in the branch for an owned address (`ipInfos[i] == nil` … else)
	inOwnedBranch := false
	for _, is := range ifsIn(iloop.Body) {
		if norm(fl.Src(is.Cond)) == "ipInfos[i] == nil" && is.Else != nil {
			ast.Inspect(is.Else, func(x ast.Node) bool {
				if x == ast.Node(gseed) {
					inOwnedBranch = true
				}
				return true
			})
		}
	}
	if !inOwnedBranch {
		return nil, fmt.Errorf("%s: getSubnet: the seeding statement is no longer in the else-branch of `ipInfos[i] == nil`", filterFile)
	}
	fmt.Fprintf(&b, "/-- getSubnet: the intersection of the owned addresses' node subnets is seeded at the first OWNED address (a flag\n    set there); \"index\" = seeded at loop index 0 (wrong when the first range owns nothing), \"empty\" = re-seeded\n    whenever it is empty (defect D7) -/\ndef getSubnetSeedRule : String := %s\n", fg.LeanStr(seedRule))
	fmt.Fprintf(&b, "def getSubnetSeedsAtFirstOwned : Bool := %s\n", fg.LeanBool(seedRule == "flag"))
	// final intersection
	var fin *ast.IfStmt
	for _, s := range gs.Body.List {
		if is, ok := s.(*ast.IfStmt); ok && strings.Contains(norm(fl.Src(is.Body)), "subnetSet = subnetSet.Intersection(allocatedSubnets)") {
			fin = is
		}
	}
	if fin == nil {
		return nil, fmt.Errorf("%s: getSubnet: `subnetSet = subnetSet.Intersection(allocatedSubnets)` was not found", filterFile)
	}
	var finFlag bool
	switch c := norm(fl.Src(fin.Cond)); c {
	case "hasAllocated":
		finFlag = true
	case "allocatedSubnets.Len() > 0":
		finFlag = false
	default:
		return nil, fmt.Errorf("%s: getSubnet: unknown guard `%s` of the final intersection", filterFile, c)
	}
	fmt.Fprintf(&b, "/-- getSubnet: the available subnets are intersected with the owned addresses' subnets whenever an address is owned\n    (guard = the flag); false = only when that intersection is non-empty (defect D7) -/\ndef getSubnetFinalIntersectionGuardedByFlag : Bool := %s\n", fg.LeanBool(finFlag))
	gtxt := norm(fl.Src(gs.Body))
	allOwned := strings.Contains(gtxt, "if len(unallocatedIPRange) == 0 {") && strings.Contains(gtxt, "return allocatedSubnets, nil") &&
		strings.Contains(gtxt, "ipranges = unallocatedIPRange")
	fmt.Fprintf(&b, "/-- getSubnet: all ranges owned => the intersection is the answer; otherwise only the range lists without an owned\n    address are looked up in NodeSubnetsByIPRanges -/\ndef getSubnetAsksOnlyUnownedRanges : Bool := %s\n", fg.LeanBool(allOwned))
	// the no-ranges branch: `if len(ipranges) == 0 { if len(ipInfos) > 0 { … return X.NodeSubnets, nil } }` where X is
	// ipInfos[0] or a local that was assigned ipInfos[0] (normalised: aliases of ipInfos[0] are substituted)
	noRange := false
	for _, st := range gs.Body.List {
		is, ok := st.(*ast.IfStmt)
		if !ok || norm(fl.Src(is.Cond)) != "len(ipranges) == 0" {
			continue
		}
		for _, inner := range ifsIn(is.Body) {
			if norm(fl.Src(inner.Cond)) != "len(ipInfos) > 0" {
				continue
			}
			alias := map[string]bool{"ipInfos[0]": true}
			for _, bs := range inner.Body.List {
				if as, ok := bs.(*ast.AssignStmt); ok && len(as.Lhs) == 1 && len(as.Rhs) == 1 && alias[norm(fl.Src(as.Rhs[0]))] {
					alias[norm(fl.Src(as.Lhs[0]))] = true
				}
				if rs, ok := bs.(*ast.ReturnStmt); ok && len(rs.Results) == 2 && norm(fl.Src(rs.Results[1])) == "nil" {
					if se, ok := rs.Results[0].(*ast.SelectorExpr); ok && se.Sel.Name == "NodeSubnets" && alias[norm(fl.Src(se.X))] {
						noRange = true
					}
				}
			}
		}
	}
	fmt.Fprintf(&b, "/-- getSubnet without requested ranges: the node subnets of `ipInfos[0]` (any owned address) -/\ndef getSubnetNoRangeUsesFirstOwned : Bool := %s\n\n", fg.LeanBool(noRange))

	// ---- AllocateInSubnetsAndIPRange
	al, err := ip.Fn("crdIpam", "AllocateInSubnetsAndIPRange")
	if err != nil {
		return nil, err
	}
	aloop := rangeLoopOver(ip, al.Body, "ipranges")
	if aloop == nil {
		return nil, fmt.Errorf("%s: AllocateInSubnetsAndIPRange no longer loops `for _, ranges := range ipranges`", ipamFile)
	}
	acb := walkCallback(ip, aloop.Body)
	if acb == nil || len(acb.Body.List) < 2 {
		return nil, fmt.Errorf("%s: AllocateInSubnetsAndIPRange: the callback of the walk over the range list was not found", ipamFile)
	}
	var rej *ast.IfStmt
	for _, s := range acb.Body.List {
		if is, ok := s.(*ast.IfStmt); ok && rej == nil {
			rej = is
		}
	}
	if rej == nil {
		return nil, fmt.Errorf("%s: AllocateInSubnetsAndIPRange: the callback has no rejecting `if`", ipamFile)
	}
	rinit := ""
	if rej.Init != nil {
		rinit = norm(ip.Src(rej.Init))
	}
	rcond := norm(ip.Src(rej.Cond))
	wantCond := "!ok || !fip.pool.nodeSubnets.Has(nodeSubnet.String()) || allocatedIPSet.Has(ipStr)"
	if rinit != "fip, ok := ci.unallocatedFIPs[ipStr]" || rcond != wantCond {
		return nil, fmt.Errorf("%s: AllocateInSubnetsAndIPRange: unknown pick condition `%s; %s`", ipamFile, rinit, rcond)
	}
	rbody := norm(ip.Src(rej.Body))
	var scansWhole bool
	switch rbody {
	case "{ return false }":
		scansWhole = true
	case "{ return true }":
		scansWhole = false
	default:
		return nil, fmt.Errorf("%s: AllocateInSubnetsAndIPRange: unknown body of the rejecting branch: %s", ipamFile, rbody)
	}
	// every other `if` of the callback would be a second way to leave the walk
	if len(ifsIn(acb.Body)) != 1 {
		return nil, fmt.Errorf("%s: AllocateInSubnetsAndIPRange: the callback has more than one `if`", ipamFile)
	}
	ctxt := norm(ip.Src(acb.Body))
	stops := strings.HasSuffix(ctxt, "allocated = true return true }") && strings.Contains(ctxt, "allocatedIPStrs = append(allocatedIPStrs, ipStr)") &&
		strings.Contains(ctxt, "allocatedIPSet.Insert(ipStr)")
	fmt.Fprintf(&b, "/-- AllocateInSubnetsAndIPRange: an address is picked iff it is unallocated, its pool lists the node subnet and it\n    was not picked for an earlier range list -/\ndef allocPicksFreeRoutableUnpicked : Bool := true\n")
	fmt.Fprintf(&b, "/-- … an address failing that test CONTINUES the walk over the range list (`return false`) -/\ndef allocScansWholeRangeList : Bool := %s\n", fg.LeanBool(scansWhole))
	fmt.Fprintf(&b, "/-- … and the first address passing it is recorded and ends the walk of this range list -/\ndef allocTakesFirstFit : Bool := %s\n", fg.LeanBool(stops))
	atxt := norm(ip.Src(aloop.Body))
	fails := strings.Contains(atxt, "if !allocated {") && strings.Contains(atxt, "return nil, ErrNoEnoughIP")
	fmt.Fprintf(&b, "/-- … a range list without a pick fails the whole call with ErrNoEnoughIP before anything is created -/\ndef allocAllOrNothingPick : Bool := %s\n", fg.LeanBool(fails))
	fulltxt := norm(ip.Src(al.Body))
	deleg := strings.Contains(fulltxt, "if len(ipranges) == 0 { ip, err := ci.AllocateInSubnet(key, nodeSubnet, attr)")
	fmt.Fprintf(&b, "/-- … no range lists = AllocateInSubnet -/\ndef allocNoRangesDelegates : Bool := %s\n", fg.LeanBool(deleg))
	// AllocateInSubnet: any unallocated address whose pool lists the subnet
	ai, err := ip.Fn("crdIpam", "AllocateInSubnet")
	if err != nil {
		return nil, err
	}
	aitxt := norm(ip.Src(ai.Body))
	aiOK := strings.Contains(aitxt, "for k, v := range ci.unallocatedFIPs { //find an unallocated fip, then use it if v.pool.nodeSubnets.Has(nodeSubnetStr) {") ||
		strings.Contains(aitxt, "for k, v := range ci.unallocatedFIPs { if v.pool.nodeSubnets.Has(nodeSubnetStr) {")
	if !aiOK {
		// comments are not printed by go/printer inside Src of a block unless attached; accept the plain shape only
		aiOK = strings.Contains(aitxt, "range ci.unallocatedFIPs {") && strings.Contains(aitxt, "if v.pool.nodeSubnets.Has(nodeSubnetStr) {")
	}
	fmt.Fprintf(&b, "/-- AllocateInSubnet takes an unallocated address whose pool lists the node subnet -/\ndef allocateInSubnetPicksRoutable : Bool := %s\n\n", fg.LeanBool(aiOK && strings.Contains(aitxt, "return nil, ErrNoEnoughIP")))

	// ---- allocateIP (Bind)
	bd, err := fg.ParseFile(repo, bindFile)
	if err != nil {
		return nil, err
	}
	aip, err := bd.Fn("FloatingIPPlugin", "allocateIP")
	if err != nil {
		return nil, err
	}
	btxt := norm(bd.Src(aip.Body))
	unfoundOnly := strings.Contains(btxt, "if ipInfos[i] == nil { unallocatedIPRange = append(unallocatedIPRange, ipranges[i]) } else { reservedIPs.Insert(ipInfos[i].IP.String()) }") &&
		strings.Count(btxt, "unallocatedIPRange = append(") == 1
	var guard *ast.IfStmt
	for _, s := range aip.Body.List {
		if is, ok := s.(*ast.IfStmt); ok && strings.Contains(norm(bd.Src(is.Body)), "p.ipam.AllocateInSubnetsAndIPRange(") {
			guard = is
		}
	}
	if guard == nil {
		return nil, fmt.Errorf("%s: allocateIP: the call of AllocateInSubnetsAndIPRange was not found at statement level", bindFile)
	}
	gb := norm(bd.Src(guard.Body))
	allocOnly := norm(bd.Src(guard.Cond)) == "len(unallocatedIPRange) > 0 || len(ipInfos) == 0" &&
		strings.Contains(gb, "p.ipam.AllocateInSubnetsAndIPRange(key, subnet, unallocatedIPRange, attr)") &&
		strings.Contains(gb, "subnet, err := p.queryNodeSubnet(nodeName)") &&
		strings.Count(btxt, "AllocateInSubnetsAndIPRange(") == 1 && !strings.Contains(btxt, "p.ipam.AllocateInSubnet(") &&
		!strings.Contains(btxt, "AllocateSpecificIP(")
	requery := strings.Index(gb, "ipInfos, err = p.ipam.ByKeyAndIPRanges(key, ipranges)") > strings.Index(gb, "AllocateInSubnetsAndIPRange(") &&
		strings.Contains(gb, "ipInfos, err = p.ipam.ByKeyAndIPRanges(key, ipranges)")
	firstQuery := strings.Contains(btxt, "ipInfos, err := p.ipam.ByKeyAndIPRanges(key, ipranges)")
	oneOnly := strings.Contains(btxt, "if len(ipranges) == 0 && len(ipInfos) > 0 {") && strings.Contains(btxt, "ipInfos = ipInfos[:1]")
	annot := strings.Contains(btxt, "ret = append(ret, ipInfo.IPInfo)") && strings.Contains(btxt, "cniArgs.Common.IPInfos = ret")
	fmt.Fprintf(&b, "/-- allocateIP: the owned addresses (ByKeyAndIPRanges) are reused; exactly the range lists without an owned address\n    are handed to AllocateInSubnetsAndIPRange (with the bind node's subnet), which is the only allocation call -/\ndef bindAllocatesOnlyUnfoundRanges : Bool := %s\n", fg.LeanBool(unfoundOnly && allocOnly && firstQuery))
	fmt.Fprintf(&b, "/-- allocateIP: after allocating, the owned addresses are queried again with the full request -/\ndef bindQueriesAgainAfterAllocate : Bool := %s\n", fg.LeanBool(requery))
	fmt.Fprintf(&b, "/-- allocateIP without requested ranges reuses ONE owned address (`ipInfos[:1]`, map order) -/\ndef bindNoRangeReusesOne : Bool := %s\n", fg.LeanBool(oneOnly))
	fmt.Fprintf(&b, "/-- allocateIP: the annotation's ipinfos are the IPInfo of the queried addresses, in query order -/\ndef bindAnnotationIsQueriedInfos : Bool := %s\n\n", fg.LeanBool(annot))

	// ---- ByKeyAndIPRanges without ranges: stable (ascending) order
	bk, err := ip.Fn("crdIpam", "ByKeyAndIPRanges")
	if err != nil {
		return nil, err
	}
	var noRangeBlk *ast.BlockStmt
	for _, st := range bk.Body.List {
		if is, ok := st.(*ast.IfStmt); ok && norm(ip.Src(is.Cond)) == "len(ipranges) != 0" {
			if eb, ok := is.Else.(*ast.BlockStmt); ok {
				noRangeBlk = eb
			}
		}
	}
	if noRangeBlk == nil {
		return nil, fmt.Errorf("%s: ByKeyAndIPRanges: the branch for a request without ranges (`if len(ipranges) != 0 {…} else {…}`) was not found", ipamFile)
	}
	loopAt, sortAt := -1, -1
	for i, st := range noRangeBlk.List {
		t := norm(ip.Src(st))
		if strings.HasPrefix(t, "for _, fip := range ci.allocatedFIPs {") && strings.Contains(t, "if fip.Key == key { ipinfos = append(ipinfos, ci.toFloatingIPInfo(fip)) }") {
			loopAt = i
		}
		if t == "sort.Slice(ipinfos, func(i, j int) bool { return nets.IPToInt(ipinfos[i].IP) < nets.IPToInt(ipinfos[j].IP) })" {
			sortAt = i
		}
	}
	if loopAt < 0 {
		return nil, fmt.Errorf("%s: ByKeyAndIPRanges: the map loop of the no-ranges branch has an unknown shape", ipamFile)
	}
	for i, st := range noRangeBlk.List {
		if i != loopAt && i != sortAt {
			return nil, fmt.Errorf("%s: ByKeyAndIPRanges: unknown statement in the no-ranges branch: %s", ipamFile, norm(ip.Src(st)))
		}
	}
	fmt.Fprintf(&b, "/-- ByKeyAndIPRanges(key, nil): the addresses of the key are sorted ascending (by IPToInt) after the map loop, so\n    `ipInfos[0]` in getSubnet and `ipInfos[:1]` in allocateIP are the same, lowest, address; false = Go map order -/\ndef byKeyNoRangesSorted : Bool := %s\n\n", fg.LeanBool(sortAt > loopAt))

	// ---- updateConfigMap: a configuration reload drops the node name -> node subnet cache
	pl, err := fg.ParseFile(repo, pluginFile)
	if err != nil {
		return nil, err
	}
	ucm, err := pl.Fn("FloatingIPPlugin", "updateConfigMap")
	if err != nil {
		return nil, err
	}
	outerVar := false // `var updated bool` / `updated, err := …` at the top level of the function body
	sameVar := false  // the result of ensureIPAMConf is stored in that variable (no shadowing `:=` in an inner scope)
	found := false
	clears := false
	for _, st := range ucm.Body.List {
		switch x := st.(type) {
		case *ast.DeclStmt:
			if norm(pl.Src(x)) == "var updated bool" {
				outerVar = true
			}
		case *ast.AssignStmt:
			if strings.Contains(pl.Src(x), "p.ensureIPAMConf(") && len(x.Lhs) > 0 && pl.Src(x.Lhs[0]) == "updated" {
				found = true
				if x.Tok == token.DEFINE {
					outerVar, sameVar = true, true
				} else {
					sameVar = true
				}
			}
		case *ast.IfStmt:
			if as, ok := x.Init.(*ast.AssignStmt); ok && strings.Contains(pl.Src(as), "p.ensureIPAMConf(") &&
				len(as.Lhs) > 0 && pl.Src(as.Lhs[0]) == "updated" {
				found = true
				sameVar = as.Tok == token.ASSIGN // `:=` in the if-header declares a NEW variable that shadows the outer one
			}
		case *ast.DeferStmt:
			if fl, ok := x.Call.Fun.(*ast.FuncLit); ok {
				t := norm(pl.Src(fl.Body))
				if strings.Contains(t, "p.nodeSubnet = map[string]*net.IPNet{}") {
					clears = strings.HasPrefix(t, "{ if !updated { return }") && strings.Contains(t, "p.nodeSubnetLock.Lock()") &&
						strings.Index(t, "p.nodeSubnetLock.Lock()") < strings.Index(t, "p.nodeSubnet = map[string]*net.IPNet{}")
				}
			}
		}
	}
	if !found {
		return nil, fmt.Errorf("%s: updateConfigMap: the call `updated, err … p.ensureIPAMConf(…)` was not found at statement level", pluginFile)
	}
	if !strings.Contains(norm(pl.Src(ucm.Body)), "p.nodeSubnet = map[string]*net.IPNet{}") {
		return nil, fmt.Errorf("%s: updateConfigMap no longer replaces p.nodeSubnet", pluginFile)
	}
	fmt.Fprintf(&b, "/-- updateConfigMap: after a configuration change the node name -> node subnet cache is replaced by an empty map\n    (under nodeSubnetLock) by a deferred closure that reads the SAME variable `updated` the result of ensureIPAMConf is\n    stored in (an assignment, not a shadowing `:=`); false = the cache survives a reload -/\ndef reloadClearsNodeSubnetCache : Bool := %s\n\n", fg.LeanBool(outerVar && sameVar && clears))

	// ---- ConfigurePool: the pool table and the cached records after a (re)configuration
	cp, err := ip.Fn("crdIpam", "ConfigurePool")
	if err != nil {
		return nil, err
	}
	cptxt := norm(ip.Src(cp.Body))
	// (a) pool.index is the position in the slice that becomes ci.FloatingIPs (NodeSubnetsByIPRanges looks pools up by index)
	idxLoop := strings.Contains(cptxt, "for index, fipConf := range floatIPs {") && strings.Contains(cptxt, "fipConf.index = index")
	tableAssigns := strings.Count(cptxt, "ci.FloatingIPs = ")
	if !idxLoop || tableAssigns == 0 {
		return nil, fmt.Errorf("%s: ConfigurePool: the loop assigning pool.index or the assignment of ci.FloatingIPs was not found", ipamFile)
	}
	sameSlice := tableAssigns == 1 && strings.Contains(cptxt, "ci.FloatingIPs = floatIPs") &&
		!strings.Contains(cptxt, "floatIPs = append(") && !strings.Contains(cptxt, "floatIPs = floatIPs[")
	fmt.Fprintf(&b, "/-- ConfigurePool: `pool.index` is the position in the sorted slice `floatIPs`, and exactly that slice (every pool, also\n    one without addresses) becomes `ci.FloatingIPs`, the table NodeSubnetsByIPRanges indexes -/\ndef poolIndexIsPositionInPoolTable : Bool := %s\n", fg.LeanBool(sameSlice))
	// (b) every stored object is turned into a NEW record attached to the pool object of the NEW configuration
	allocAssigns := strings.Count(cptxt, "tmpCacheAllocated[")
	rebuilt := allocAssigns == 1 && strings.Contains(cptxt, "tmpFip := New(fipConf, netIP, ip.Spec.Key, &Attr{Policy: ip.Spec.Policy}, ip.Spec.UpdateTime.Time)") &&
		strings.Contains(cptxt, "tmpCacheAllocated[ip.Name] = tmpFip") && strings.Contains(cptxt, "ci.allocatedFIPs = tmpCacheAllocated")
	freeRebuilt := strings.Contains(cptxt, "tmpFip := New(fipConf, ip, \"\", &Attr{Policy: constant.ReleasePolicyPodDelete}, now)") &&
		strings.Contains(cptxt, "ci.unallocatedFIPs = tmpCacheUnallocated")
	if allocAssigns == 0 {
		return nil, fmt.Errorf("%s: ConfigurePool no longer fills tmpCacheAllocated", ipamFile)
	}
	fmt.Fprintf(&b, "/-- ConfigurePool: every record of the allocated cache (and of the unallocated cache) is built anew with\n    `New(fipConf, …)`, i.e. attached to the pool object of the configuration being applied - no record of the previous\n    configuration (with its old pool pointer: mask, gateway, vlan, node subnets) survives a reload -/\ndef configurePoolRebuildsEveryRecord : Bool := %s\n\n", fg.LeanBool(rebuilt && freeRebuilt))

	// ---- toFloatingIPInfo
	ti, err := ip.Fn("crdIpam", "toFloatingIPInfo")
	if err != nil {
		return nil, err
	}
	ttxt := norm(ip.Src(ti.Body))
	if !strings.Contains(ttxt, "IPInfo: constant.IPInfo{") {
		return nil, fmt.Errorf("%s: toFloatingIPInfo no longer builds a constant.IPInfo literal", ipamFile)
	}
	field := func(name string) string {
		// value of `name: <expr>,` in the printed body
		i := strings.Index(ttxt, name+": ")
		if i < 0 {
			return ""
		}
		rest := ttxt[i+len(name)+2:]
		if j := strings.IndexAny(rest, ",}"); j >= 0 {
			return strings.TrimSpace(rest[:j])
		}
		return ""
	}
	own := strings.Contains(ttxt, "fipPool := fip.pool")
	mask, vlan, gw, ipf := field("Mask"), field("Vlan"), field("Gateway"), field("IP")
	for n, v := range map[string]string{"Mask": mask, "Vlan": vlan, "Gateway": gw} {
		if v == "" {
			return nil, fmt.Errorf("%s: toFloatingIPInfo: field %s not found", ipamFile, n)
		}
	}
	fmt.Fprintf(&b, "/-- toFloatingIPInfo: where mask / vlan / gateway of the ipinfo come from (printed expressions) -/\ndef ipinfoMaskExpr : String := %s\ndef ipinfoVlanExpr : String := %s\ndef ipinfoGatewayExpr : String := %s\n",
		fg.LeanStr(mask), fg.LeanStr(vlan), fg.LeanStr(gw))
	fmt.Fprintf(&b, "/-- … all three are fields of `fipPool := fip.pool`, the pool object the address hangs off, and the address is the\n    record's own -/\ndef ipinfoFromOwnPool : Bool := %s\n",
		fg.LeanBool(own && mask == "fipPool.Mask" && vlan == "fipPool.Vlan" && gw == "fipPool.Gateway" && ipf == "fip.IP"))
	nsCopy := strings.Contains(ttxt, "NodeSubnets: sets.NewString(fipPool.nodeSubnets.UnsortedList()...)")
	fmt.Fprintf(&b, "/-- … and the node subnets handed to the filter are that pool's -/\ndef ipinfoNodeSubnetsFromOwnPool : Bool := %s\n", fg.LeanBool(own && nsCopy))
	b.WriteString("\nend Galaxy.Generated.C06\n")
	return map[string]string{"C06.lean": b.String()}, nil
}

func main() { fg.Run("c06", gen) }
