// The structural facts, matched on normalised traces.
package main

import (
	"fmt"
	"go/ast"
	"go/parser"
	"strings"

	"factgen/fg"
)

func before(a, b int) bool { return a >= 0 && b >= 0 && a < b }

// tmpl canonicalises a Go expression written with placeholder identifiers (bound in env to canonical texts).
func tmpl(expr string, env map[string]string) string {
	e, err := parser.ParseExpr(expr)
	if err != nil {
		panic("tmpl: " + expr + ": " + err.Error())
	}
	w := newWalker(nil)
	w.depth = 1 // no helper lookups
	for k, v := range env {
		w.byName[k] = v
	}
	return w.canon(e)
}

func tmpls(env map[string]string, exprs ...string) []string {
	var out []string
	for _, e := range exprs {
		out = append(out, tmpl(e, env))
	}
	return out
}

// loopGuard: position (events before it) of a guard of the function itself inside a loop whose effective condition -
// relative to the loop body - is exactly req(el(range)), whose body always exits and exits only by the given
// statements; -1 if there is none.  A guard extracted into a boolean private helper is found too: the helper contains
// such a guard ending in `return true`, ends in `return false`, and the caller exits on the helper's answer.
func (t *Trace) loopGuard(req func(x, rng string) []string, rangeOK func(rng string) bool, closure int, terms ...string) (int, string) {
	for _, g := range t.Guards {
		if g.Loop == 0 || g.Closure != closure || !g.Terminates || !rangeOK(g.LoopRange) {
			continue
		}
		if !sameSet(g.Eff(), req("el("+g.LoopRange+")", g.LoopRange)) {
			continue
		}
		if g.Helper == "" {
			if termsWithin(g.Terms, terms...) {
				return g.At, g.LoopRange
			}
			continue
		}
		// lifted through a helper
		if !termsWithin(g.Terms, "return true") {
			continue
		}
		last := ""
		for _, e := range t.Events {
			if e.Helper == g.Helper && e.Kind == "hreturn" {
				last = e.Text
			}
		}
		if last != "return false" {
			continue
		}
		for _, o := range t.Guards {
			if o.Helper == "" && o.Closure == closure && o.Terminates && len(o.Own) == 1 &&
				(strings.Contains(o.Own[0], "."+g.Helper+"(") || strings.HasPrefix(o.Own[0], g.Helper+"(")) &&
				!strings.HasPrefix(o.Own[0], "!") && termsWithin(o.Terms, terms...) {
				return o.At, g.LoopRange
			}
		}
	}
	return -1, ""
}

// funcGuard: position of a guard of the function itself (outside helpers) whose nesting condition is exactly req,
// whose body always exits, by the given statements only.
func (t *Trace) funcGuard(req []string, closure int, terms ...string) int {
	for _, g := range t.Guards {
		if g.Helper != "" || g.Closure != closure || !g.Terminates {
			continue
		}
		if sameSet(g.Nest(), req) && termsWithin(g.Terms, terms...) {
			return g.At
		}
	}
	return -1
}

// gate: the position of the first exit (one of the given statements) of the function itself that is taken when cond
// does NOT hold - its path condition contains the negation of cond; -1 if there is none.  Whatever the control
// structure (if, nested ifs, guard clause, switch with or without tag), `holds` then says whether a later event is
// reached only if cond holds.
func (t *Trace) gate(closure int, cond string, exits ...string) int {
	neg := negAll(cond)
	for i, e := range t.Events {
		if e.Closure != closure || e.Helper != "" || (e.Kind != "return" && e.Kind != "continue" && e.Kind != "break") {
			continue
		}
		if !termsWithin([]string{e.Text}, exits...) {
			continue
		}
		var have []string
		for _, c := range e.Path {
			have = append(have, c.Text)
		}
		if subset(neg, saturate(have)) {
			return i
		}
	}
	return -1
}

// saturate: unit resolution on a path condition - from !(a && b) and a follows !b
func saturate(have []string) []string {
	set := map[string]bool{}
	for _, h := range have {
		set[h] = true
	}
	for changed := true; changed; {
		changed = false
		for h := range set {
			if !strings.HasPrefix(h, "!(") || !strings.HasSuffix(h, ")") || !balanced(h[2:len(h)-1]) {
				continue
			}
			parts := conjuncts(h[2 : len(h)-1])
			if len(parts) < 2 {
				continue
			}
			var open []string
			for _, p := range parts {
				if !set[p] {
					open = append(open, p)
				}
			}
			if len(open) == 1 {
				if n := negate(open[0]); !set[n] {
					set[n] = true
					changed = true
				}
			}
		}
	}
	var out []string
	for h := range set {
		out = append(out, h)
	}
	return out
}

// holds: event i is reached only if every conjunct of cond holds
func (t *Trace) holds(i int, cond string) bool {
	if i < 0 || i >= len(t.Events) {
		return false
	}
	var have []string
	for _, c := range t.Events[i].Path {
		have = append(have, c.Text)
	}
	return subset(conjuncts(cond), saturate(have))
}

// first event of the given kinds inside the closure (0 = the function itself) whose text satisfies pred
func (t *Trace) first(closure int, kinds string, pred func(string) bool) int {
	for i, e := range t.Events {
		if e.Closure != closure || !strings.Contains(kinds, e.Kind) {
			continue
		}
		if pred(e.Text) {
			return i
		}
	}
	return -1
}

func has(subs ...string) func(string) bool {
	return func(s string) bool {
		for _, x := range subs {
			if strings.Contains(s, x) {
				return true
			}
		}
		return false
	}
}

func is(text string) func(string) bool { return func(s string) bool { return s == text } }

// boolExpr: the function's result as one boolean expression, if its trace consists of returns only:
// `return e`, or `if c { return true }; return d` = c || d.
func (t *Trace) boolExpr() (string, bool) {
	var rets []Event
	for _, e := range t.Events {
		switch e.Kind {
		case "return":
			rets = append(rets, e)
		case "call":
		default:
			return "", false
		}
	}
	if len(rets) == 1 && len(rets[0].Path) == 0 {
		return strings.TrimPrefix(rets[0].Text, "return "), true
	}
	if len(rets) == 2 && len(rets[0].Path) == 1 && len(rets[1].Path) == 1 && rets[1].Path[0].Text == negate(rets[0].Path[0].Text) {
		c := rets[0].Path[0].Text
		a, b := strings.TrimPrefix(rets[0].Text, "return "), strings.TrimPrefix(rets[1].Text, "return ")
		if a == "true" {
			return orText(c, b), true
		}
		if a == "false" && b == "true" {
			return negate(c), true
		}
	}
	return "", false
}

var unbindMutations = []string{"cloudProviderUnAssignIP(", ".unbindDpPod(", ".unbindNoneDpPod(", ".releaseIP(", ".reserveIP(",
	".ipam.Release(", ".ipam.ReserveIP(", ".ipam.ReleaseIPs("}

type tracer func(p *fg.Parsed, recv, name string) (*Trace, error)

func unbindUidGuard(t *Trace) bool {
	g, _ := t.loopGuard(func(x, _ string) []string {
		return tmpls(map[string]string{"X": x}, `X.PodUid != ""`, `string(P0.GetUID()) != ""`, `X.PodUid != string(P0.GetUID())`)
	}, func(r string) bool {
		return strings.Contains(r, ".ipam.ByKeyAndIPRanges(") && strings.HasSuffix(r, ",nil)#1")
	}, 0, "return nil")
	mut := t.first(0, "call", has(unbindMutations...))
	return before(g, mut) && mut >= 0
}

func bindUidGuard(t *Trace) (present, wholeKey bool) {
	g, rng := t.loopGuard(func(x, _ string) []string {
		return tmpls(map[string]string{"X": x}, `X != nil`, `X.PodUid != ""`, `X.PodUid != string(P2.GetUID())`)
	}, func(r string) bool { return strings.Contains(r, ".ipam.ByKeyAndIPRanges(P0,") }, 0, "return nil,ERR")
	mut := t.first(0, "call", has(".ipam.AllocateInSubnetsAndIPRange(", "cloudProviderAssignIP(", ".ipam.UpdateAttr(", ".ipam.AllocateSpecificIP(", ".ipam.AllocateInSubnet("))
	present = before(g, mut) && mut >= 0
	wholeKey = present && rng == "R.ipam.ByKeyAndIPRanges(P0,nil)#1"
	return
}

func releaseRechecks(t *Trace) (ok bool, refuse, mut int) {
	env := map[string]string{"fip": "R.ipam.ByIP(P0.IP)#1", "k": "P0.KeyObj"}
	lk := t.first(0, "defer", has("R.lockPod("))
	rd := t.first(0, "call", is("R.ipam.ByIP(P0.IP)"))
	// a changed key ends the request (already released: nil; another owner: an error) ...
	sameKey := tmpl(`fip.Key == k.KeyInDB`, env)
	cmp := t.gate(0, sameKey, "return nil", "return ERR")
	released := t.first(0, "return", is("return nil"))
	other := -1
	for i, e := range t.Events {
		if e.Kind == "return" && e.Text == "return ERR" && e.Helper == "" && t.holds(i, tmpl(`fip.Key != k.KeyInDB && fip.Key != ""`, env)) {
			other = i
			break
		}
	}
	keyOK := cmp >= 0 && released >= 0 && t.holds(released, tmpl(`fip.Key != k.KeyInDB && fip.Key == ""`, env)) && other >= 0
	// ... and so does a running pod
	runText := tmpl(`R.podRunning(k.PodName, k.Namespace, fip.PodUid)`, env)
	run := t.first(0, "call", is(runText))
	refuse = t.gate(0, "!"+runText+"#1", "return ERR")
	mut = t.first(0, "call", has("cloudProviderUnAssignIP(", ".reserveIP(", ".ipam.Release(", ".releaseIP(", ".ipam.ReserveIP("))
	ok = lk >= 0 && before(lk, rd) && before(rd, cmp) && keyOK && before(cmp, run) && t.holds(run, sameKey) && before(run, refuse) &&
		before(refuse, mut) && mut >= 0 && t.holds(mut, "!"+runText+"#1")
	return
}

// the closure of resyncAllocatedIPs: its id in the trace (the first function literal), -1 if there is none
func resyncClosure(t *Trace) int {
	for _, e := range t.Events {
		if e.Closure != 0 {
			return e.Closure
		}
	}
	return -1
}

func resyncRechecks(t *Trace) (ok, lockFirst bool, skip, mut, c int) {
	c = resyncClosure(t)
	if c < 0 {
		return false, false, -1, -1, c
	}
	env := map[string]string{"obj": "el(P0.allocatedIPs)", "fip": "R.ipam.ByIP(el(P0.allocatedIPs).fip.IP)#1"}
	firstEv := t.first(c, "call defer assign send return", func(string) bool { return true })
	lockText := tmpl(`R.lockPod(obj.keyObj.PodName, obj.keyObj.Namespace)`, env)
	lk := t.first(c, "defer", is("defer "+lockText+"()"))
	lockFirst = lk >= 0 && firstEv >= 0 && t.Events[firstEv].Text == lockText && lk == firstEv+1
	rd := t.first(c, "call", is(tmpl(`R.ipam.ByIP(obj.fip.IP)`, env)))
	sameKey := tmpl(`fip.Key == obj.fip.Key`, env)
	cmp := t.gate(c, sameKey, "return")
	asg := t.first(c, "assign", is(tmpl(`obj.fip`, env)+"="+env["fip"]))
	runText := tmpl(`R.podRunning(obj.keyObj.PodName, obj.keyObj.Namespace, obj.fip.PodUid)`, env)
	run := t.first(c, "call", is(runText))
	skip = t.gate(c, "!"+runText+"#1", "return")
	mut = t.first(c, "call", has("cloudProviderUnAssignIP(", ".reserveIP(", ".unbindNoneDpPod(", ".unbindDpPod(", ".releaseIP(", ".ipam.Release("))
	ok = lk >= 0 && before(lk, rd) && before(rd, cmp) && before(cmp, asg) && t.holds(asg, sameKey) && before(asg, run) && before(run, skip) &&
		before(skip, mut) && mut >= 0 && t.holds(mut, "!"+runText+"#1")
	return
}

// keyOwnedByRunningPod(keyObj, podUid): an error keeps the key (true); true iff some record of the key with another
// stored uid belongs to a running pod; false otherwise
func keyOwnedHelper(t *Trace) (shape, skipsEmptyUid bool) {
	all := "R.ipam.ByKeyAndIPRanges(P0.KeyInDB,nil)"
	errG := t.funcGuard([]string{all + "#2!=nil"}, 0, "return true")
	find := func(extra ...string) int {
		for _, suffix := range []string{"", "#1"} { // the answer of podRunning is its first result
			g, _ := t.loopGuard(func(x, _ string) []string {
				env := map[string]string{"X": x}
				req := append(tmpls(env, `X != nil`, `X.PodUid != P1`), tmpl(`R.podRunning(P0.PodName, P0.Namespace, X.PodUid)`, env)+suffix)
				return append(req, tmpls(env, extra...)...)
			}, func(r string) bool { return r == all+"#1" }, 0, "return true")
			if g >= 0 {
				return g
			}
		}
		return -1
	}
	g := find(`X.PodUid != ""`) // records without a stored uid are skipped
	skipsEmptyUid = g >= 0
	if g < 0 {
		g = find()
	}
	last := ""
	for _, e := range t.Events {
		if e.Kind == "return" {
			last = e.Text
		}
	}
	lastFree := false
	for _, e := range t.Events {
		if e.Kind == "return" && e.Text == "return false" && e.Loop == 0 && len(relConds(e.Path, 0)) == 0 {
			lastFree = true
		}
	}
	shape = errG >= 0 && g >= 0 && errG < g && last == "return false" && lastFree
	return shape, shape && skipsEmptyUid
}

func podRunningOrder(t *Trace) bool {
	lister := "R.PodLister.Pods(P1).Get(P0)"
	l1 := t.first(0, "call", is(lister))
	a1 := t.first(0, "call", has("R.Client.CoreV1().Pods(P1).Get("))
	if l1 < 0 || a1 < 0 || a1 < l1 {
		return false
	}
	api := t.Events[a1].Text
	g1 := t.funcGuard([]string{"runningAndUidMatch(P2," + lister + "#1," + lister + "#2)#1"}, 0, "return true*")
	g2 := t.funcGuard([]string{"runningAndUidMatch(P2," + api + "#1," + api + "#2)#1"}, 0, "return true*")
	// "not running" is answered only after both: no `return false` between the lister's answer and the second
	// verdict, and the final answer is `return false…`
	final := -1
	for i, e := range t.Events {
		if e.Kind == "return" && e.Helper == "" && strings.HasPrefix(e.Text, "return false") {
			if i > l1 && (g2 < 0 || i < g2) {
				return false
			}
			final = i
		}
	}
	return before(l1, g1) && before(g1, a1) && before(a1, g2) && before(g2, final)
}

func runningAndUidMatchShape(t *Trace) bool {
	// an unknown error keeps the ip
	errKeeps := false
	for _, e := range t.Events {
		if e.Kind == "return" && strings.HasPrefix(e.Text, "return true") {
			for _, c := range e.Path {
				if c.Text == "P2!=nil" {
					errKeeps = true
				}
			}
		}
	}
	u := t.funcGuard(tmpls(nil, `P0 != ""`, `P0 != string(P1.GetUID())`), 0, "return false*")
	tr, fa := -1, -1
	for i, e := range t.Events {
		if e.Kind != "return" || i < u {
			continue
		}
		for _, c := range e.Path {
			if c.Text == "!finished(P1)" && strings.HasPrefix(e.Text, "return true") {
				tr = i
			}
			if c.Text == "finished(P1)" && strings.HasPrefix(e.Text, "return false") {
				fa = i
			}
		}
	}
	return errKeeps && u >= 0 && tr > u && fa > u
}

// ConfigurePool: in the loop over the configured pools (P0) there is exactly one way out, a `break` that is reached
// iff the pool's pod subnet AND its ranges contain the address, right after `found` is set and the record is cached.
func configurePoolLookup(t *Trace) bool {
	loops := map[int][]int{}
	for i, e := range t.Events {
		if e.Kind == "break" && e.Helper == "" && e.LoopRange == "P0" {
			loops[e.Loop] = append(loops[e.Loop], i)
		}
	}
	for loop, brs := range loops {
		if len(brs) != 1 {
			continue
		}
		br := t.Events[brs[0]]
		eff := relConds(br.Path, br.LoopStart)
		if len(eff) != 2 {
			continue
		}
		n := ""
		for _, c := range eff {
			if strings.HasPrefix(c, "el(P0).Contains(") && strings.HasSuffix(c, ")") {
				n = c[len("el(P0).Contains(") : len(c)-1]
			}
		}
		if n == "" || !sameSet(eff, []string{"el(P0).Contains(" + n + ")", "el(P0).IPNet().Contains(" + n + ")"}) {
			continue
		}
		foundSet, cached := false, false
		for i, e := range t.Events {
			if e.Loop != loop || e.Kind != "assign" || i > brs[0] || !sameSet(relConds(e.Path, e.LoopStart), eff) {
				continue
			}
			if strings.HasSuffix(e.Text, "=true") {
				foundSet = true
			}
			if strings.Contains(e.Text, ".Name]=") {
				cached = true
			}
		}
		if foundSet && cached {
			return true
		}
	}
	return false
}

var keyAccess = []string{"R.ipam.", "R.Client.", "R.getSubnet(", "R.allocateIP(", "R.syncIP(", "R.podRunning(", "R.releaseIP(",
	"R.reserveIP(", "R.unbindDpPod(", "R.unbindNoneDpPod(", "R.keyOwnedByRunningPod(", "cloudProvider", "R.PodLister.", "R.queryNodeSubnet("}

// lockBefore: `defer p.lockPod(..)()` comes before the first use; early: something touching the pod's key (directly or
// inside a private helper) happens before the lock
func lockBefore(t *Trace, closure int, firstUse []string, allowLister bool) (locked, early bool) {
	lk := t.first(closure, "defer", has("R.lockPod("))
	use := t.first(closure, "call", has(firstUse...))
	locked = lk >= 0 && before(lk, use) && use >= 0
	for i, e := range t.Events {
		if lk >= 0 && i >= lk {
			break
		}
		if e.Closure != closure || (e.Kind != "call" && e.Kind != "send") {
			continue
		}
		callee := e.Text
		if i := strings.IndexByte(callee, '('); i >= 0 {
			callee = callee[:i+1]
		}
		for _, k := range keyAccess {
			if strings.Contains(callee, k) && !(allowLister && strings.HasPrefix(callee, "R.PodLister.")) {
				early = true
			}
		}
	}
	if lk < 0 {
		early = true
	}
	return
}

func bindAnswerReaction(t *Trace) bool {
	sends := 0
	for _, e := range t.Events {
		if e.Kind != "send" || !strings.HasPrefix(e.Text, "R.unreleased<-") {
			continue
		}
		sends++
		if e.Helper != "" || e.Closure != 0 {
			return false
		}
		v := ""
		for _, c := range e.Path {
			if c.Tag != 'E' {
				continue
			}
			if strings.HasPrefix(c.Text, "apierrors.IsNotFound(V") && strings.HasSuffix(c.Text, ")") && v == "" {
				v = c.Text[len("apierrors.IsNotFound(") : len(c.Text)-1]
				continue
			}
			if !strings.HasSuffix(c.Text, "!=nil") {
				return false
			}
		}
		if v == "" {
			return false
		}
		// v holds the error of the pods/binding call and nothing else
		n := 0
		for _, a := range t.Events {
			if a.Kind == "assign" && strings.HasPrefix(a.Text, v+"=") {
				n++
				rhs := a.Text[len(v)+1:]
				if !strings.HasPrefix(rhs, "R.Client.CoreV1().Pods(") || !strings.Contains(rhs, ").Bind(") {
					return false
				}
			}
		}
		if n != 1 {
			return false
		}
	}
	return sends >= 1
}

// listFloatingIPs: the only source of the returned list is `client.….FloatingIPs().List(…)`; nothing that smells of a
// cache (informer, lister, indexer, store) is called, and every non-error return hands out that call's result
func listsApiserver(t *Trace) bool {
	list := ""
	for _, e := range t.Events {
		if e.Kind != "call" {
			continue
		}
		for _, bad := range []string{"Informer", "Lister", "Indexer", "GetStore", "HasSynced"} {
			if strings.Contains(e.Text, bad) {
				return false
			}
		}
		if strings.HasPrefix(e.Text, "R.client.GalaxyV1alpha1().FloatingIPs().List(") {
			list = e.Text
		}
	}
	if list == "" {
		return false
	}
	okReturn := false
	for _, e := range t.Events {
		if e.Kind != "return" {
			continue
		}
		switch {
		case strings.HasPrefix(e.Text, "return nil,"):
		case e.Text == "return "+list+"#1,nil", e.Text == "return "+list+"#1,"+list+"#2", e.Text == "return "+list:
			okReturn = true
		default:
			return false
		}
	}
	return okReturn
}

// allocateIP: the reply (`Common.IPInfos`) is built by appending, unconditionally and in index order, the entries of
// the list `ByKeyAndIPRanges(key, <requested ranges>)` returned (queried again after the allocation) - request order
func replyInRequestOrder(t *Trace) bool {
	v := ""
	for _, e := range t.Events {
		if e.Kind == "assign" && e.Helper == "" {
			if i := strings.Index(e.Text, ".Common.IPInfos="); i >= 0 {
				v = e.Text[i+len(".Common.IPInfos="):]
			}
		}
	}
	if v == "" {
		return false
	}
	x, n := "", 0
	for _, e := range t.Events {
		if e.Kind == "assign" && strings.HasPrefix(e.Text, v+"=") {
			n++
			if e.Loop == 0 || e.Text != v+"=append("+v+",el("+e.LoopRange+").IPInfo)" || len(relConds(e.Path, e.LoopStart)) != 0 {
				return false
			}
			x = e.LoopRange
		}
	}
	if n != 1 {
		return false
	}
	query := "R.ipam.ByKeyAndIPRanges(P0,"
	if strings.HasPrefix(x, query) {
		return strings.HasSuffix(x, ")#1")
	}
	// a variable: everything it is ever assigned is that query's list (or its first element when no range is asked)
	asg := 0
	for _, e := range t.Events {
		if e.Kind == "assign" && strings.HasPrefix(e.Text, x+"=") {
			asg++
			rhs := e.Text[len(x)+1:]
			if !strings.HasPrefix(rhs, query) || !(strings.HasSuffix(rhs, ")#1") || strings.HasSuffix(rhs, ")#1[:1]")) {
				return false
			}
		}
	}
	return asg >= 1 && strings.HasPrefix(x, "V")
}

// serverFacts: the start order of the galaxy-ipam daemon (pkg/ipam/server/server.go) - hypotheses of the model's
// faithfulness that no model move covers:
//   - the allocation cache is (re)built from the store - plugin.Init, i.e. the first ConfigurePool - only once the
//     process may act: on the OnStartedLeading path of the leader election, or directly when no election is configured;
//     nothing builds it earlier (the model's `init` / `restart` = memory rebuilt from the store AT TAKE-OVER TIME);
//   - the plugin (hence NewCrdIPAM and its AddEventHandler on the FloatingIP informer) is constructed BEFORE the informer
//     factories are started, so the FloatingIP informer exists and the administrator's reservation events are delivered
//     (the model's `adminReserve` / `adminUnreserve` moves);
//   - the API's release function is the plugin's Release, the pool API's lock function the plugin's LockDpPool.
func serverFacts(trace tracer, sv *fg.Parsed) (string, error) {
	var b strings.Builder
	tStart, err := trace(sv, "Server", "Start")
	if err != nil {
		return "", err
	}
	tRun, err := trace(sv, "Server", "Run")
	if err != nil {
		return "", err
	}
	tInit, err := trace(sv, "Server", "init")
	if err != nil {
		return "", err
	}
	tK8s, err := trace(sv, "Server", "initk8sClient")
	if err != nil {
		return "", err
	}
	tAPI, err := trace(sv, "Server", "startAPIServer")
	if err != nil {
		return "", err
	}
	isInit := func(s string) bool { return s == "R.plugin.Init()" }
	// Run: Init first, before the plugin's routines and the servers
	runInit := tRun.first(0, "call", isInit)
	runOK := runInit >= 0 && tRun.first(0, "call", has("R.plugin.", "R.startAPIServer(", "R.startServer(")) == runInit
	// Start: Init only through Run, and Run only when there is no election to win
	elect := tmpl(`R.LeaderElection.LeaderElect && R.leaderElectionConfig != nil`, nil)
	startOK := tStart.first(0, "call", is("R.Run()")) >= 0
	for i, e := range tStart.Events {
		if e.Kind != "call" {
			continue
		}
		if isInit(e.Text) && e.Helper != "Run" {
			startOK = false
		}
		if e.Text == "R.Run()" && e.Helper == "" {
			if !tStart.holds(i, "!("+elect+")") || tStart.holds(i, elect) {
				startOK = false
			}
		}
		if strings.Contains(e.Text, "ConfigurePool(") {
			startOK = false
		}
	}
	// with an election: RunOrDie under the election condition, Run from OnStartedLeading
	ro := tStart.first(0, "call", has("leaderelection.RunOrDie("))
	electOK := ro >= 0 && tStart.holds(ro, elect)
	leading := false
	for _, e := range tK8s.Events {
		if e.Kind == "call" && e.Closure != 0 && e.Text == "R.Run()" {
			leading = true
		}
		if e.Kind == "call" && isInit(e.Text) {
			leading = false
			break
		}
	}
	noEarly := tInit.first(0, "call", isInit) < 0 && tInit.first(0, "call", has("ConfigurePool(")) < 0
	fmt.Fprintf(&b, "\n/-- galaxy-ipam start order: plugin.Init (the first ConfigurePool: the allocation cache rebuilt from the store) runs only in Server.Run, first thing; Start reaches Run only without an election, otherwise through leaderelection.RunOrDie -> OnStartedLeading; nothing rebuilds the cache earlier -/\ndef initRunsAfterLeadershipAcquired : Bool := %s\n",
		fg.LeanBool(runOK && startOK && electOK && leading && noEarly))
	// the plugin is constructed before the informer factories start
	np := tStart.first(0, "call", has("schedulerplugin.NewFloatingIPPlugin("))
	si := tStart.first(0, "call", has("R.StartInformers("))
	early := false
	for i, e := range tStart.Events {
		if e.Kind == "call" && (strings.Contains(e.Text, "StartInformers(") || strings.Contains(e.Text, "nformerFactory.Start(")) && i < np {
			early = true
		}
	}
	fmt.Fprintf(&b, "/-- galaxy-ipam start order: NewFloatingIPPlugin (hence NewCrdIPAM's AddEventHandler on the FloatingIP informer) precedes StartInformers -/\ndef informersStartAfterPluginConstructed : Bool := %s\n", fg.LeanBool(before(np, si) && !early))
	rel := tAPI.first(0, "call", is("api.NewController(R.plugin.GetIpam(),R.PodLister,R.plugin.Release)")) >= 0
	fmt.Fprintf(&b, "/-- the release function of the API controller is the plugin's Release -/\ndef releaseFuncIsPluginRelease : Bool := %s\n", fg.LeanBool(rel))
	lockFn := false
	for _, e := range tAPI.Events {
		if strings.Contains(e.Text, "LockPoolFunc:R.plugin.LockDpPool") {
			lockFn = true
		}
	}
	fmt.Fprintf(&b, "/-- the lock function of the pool API is the plugin's LockDpPool -/\ndef lockPoolFuncIsPluginLockDpPool : Bool := %s\n\n", fg.LeanBool(lockFn))
	return b.String(), nil
}

func checklistSkipsNonPodKeys(t *Trace) bool {
	ok := false
	for _, e := range t.Events {
		if (e.Kind == "assign" || e.Kind == "call") && strings.Contains(e.Text, ".allocatedIPs=append(") {
			if e.Loop == 0 || e.LoopRange != `R.ipam.ByPrefix("")#1` {
				return false
			}
			want := tmpl(`util.ParseKey(X.Key).PodName != ""`, map[string]string{"X": "el(" + e.LoopRange + ")"})
			found := false
			for _, c := range e.Path[e.LoopStart:] {
				if c.Text == want {
					found = true
				}
			}
			if !found {
				return false
			}
			ok = true
		}
	}
	return ok
}

func facts(trace tracer, bd, rs, fl, fp, pf, ic, ev *fg.Parsed) (string, error) {
	var b strings.Builder
	tUnbind, err := trace(bd, "FloatingIPPlugin", "unbind")
	if err != nil {
		return "", err
	}
	fmt.Fprintf(&b, "/-- unbind: an event whose pod UID differs from a stored non-empty UID is ignored before any provider/IPAM mutation -/\ndef unbindChecksUID : Bool := %s\n", fg.LeanBool(unbindUidGuard(tUnbind)))

	tAlloc, err := trace(bd, "FloatingIPPlugin", "allocateIP")
	if err != nil {
		return "", err
	}
	present, whole := bindUidGuard(tAlloc)
	fmt.Fprintf(&b, "/-- allocateIP: refuses to reuse an IP stored under another non-empty UID before allocating / assigning / updating -/\ndef bindChecksUID : Bool := %s\n", fg.LeanBool(present))
	fmt.Fprintf(&b, "/-- allocateIP: the binding annotation's ipinfos are the entries of ByKeyAndIPRanges(key, requested ranges) - queried again after the allocation - appended in index order, unconditionally: request order -/\ndef bindReplyInRequestOrder : Bool := %s\n", fg.LeanBool(replyInRequestOrder(tAlloc)))
	fmt.Fprintf(&b, "/-- allocateIP: that check ranges over ALL records of the key (ByKeyAndIPRanges(key, nil)), not only the requested ranges -/\ndef bindUidGuardCoversWholeKey : Bool := %s\n", fg.LeanBool(whole))

	tRel, err := trace(bd, "FloatingIPPlugin", "Release")
	if err != nil {
		return "", err
	}
	relOK, rRefuse, rMut := releaseRechecks(tRel)
	fmt.Fprintf(&b, "/-- Release: lockPod, re-read ByIP, compare keys, ask podRunning and refuse when running - all before the first mutation -/\ndef releaseRechecksUnderLock : Bool := %s\n", fg.LeanBool(relOK))

	tRes, err := trace(rs, "FloatingIPPlugin", "resyncAllocatedIPs")
	if err != nil {
		return "", err
	}
	resOK, resyncLock, cSkip, cMut, cl := resyncRechecks(tRes)
	fmt.Fprintf(&b, "/-- resync closure: lockPod, re-read ByIP, compare keys, podRunning with the re-read UID - before the first mutation -/\ndef resyncRechecksUnderLock : Bool := %s\n", fg.LeanBool(resOK))

	wkOK, skipsEmpty := false, false
	if tKo, err := trace(rs, "FloatingIPPlugin", "keyOwnedByRunningPod"); err == nil && cl >= 0 {
		cOwned := "R.keyOwnedByRunningPod(el(P0.allocatedIPs).keyObj,el(P0.allocatedIPs).fip.PodUid)"
		rOwned := "R.keyOwnedByRunningPod(P0.KeyObj,R.ipam.ByIP(P0.IP)#1.PodUid)"
		cKey := tRes.gate(cl, "!"+cOwned, "return")
		rKey := tRel.gate(0, "!"+rOwned, "return ERR")
		var helper bool
		helper, skipsEmpty = keyOwnedHelper(tKo)
		wkOK = helper && before(cSkip, cKey) && before(cKey, cMut) && cMut >= 0 && tRes.holds(cMut, "!"+cOwned) &&
			before(rRefuse, rKey) && before(rKey, rMut) && rMut >= 0 && tRel.holds(rMut, "!"+rOwned)
	}
	fmt.Fprintf(&b, "/-- resync closure and Release: after \"not running\" and before any mutation they leave the key alone while another record of it (other stored uid) belongs to a running pod -/\ndef resyncAndReleaseCheckWholeKey : Bool := %s\n", fg.LeanBool(wkOK))

	fmt.Fprintf(&b, "/-- keyOwnedByRunningPod skips the records of the key that carry no uid (reserved for the key, bound to no pod) -/\ndef keyOwnedSkipsEmptyUid : Bool := %s\n", fg.LeanBool(skipsEmpty))

	tPr, err := trace(rs, "FloatingIPPlugin", "podRunning")
	if err != nil {
		return "", err
	}
	fmt.Fprintf(&b, "/-- podRunning: lister first; \"not running\" is answered only after the API server said so too -/\ndef podRunningAsksApiServerSecond : Bool := %s\n", fg.LeanBool(podRunningOrder(tPr)))

	tRm, err := trace(rs, "", "runningAndUidMatch")
	if err != nil {
		return "", err
	}
	fmt.Fprintf(&b, "/-- runningAndUidMatch: unknown errors keep the ip; a different stored UID means \"not this pod\"; then finished(pod) -/\ndef runningAndUidMatchChecksUID : Bool := %s\n\n", fg.LeanBool(runningAndUidMatchShape(tRm)))

	tCp, err := trace(ic, "crdIpam", "ConfigurePool")
	if err != nil {
		return "", err
	}
	fmt.Fprintf(&b, "/-- ConfigurePool: a listed object is kept for the first pool whose pod subnet AND ip ranges contain its address -/\ndef configurePoolMatchesSubnetAndRanges : Bool := %s\n\n", fg.LeanBool(configurePoolLookup(tCp)))

	// ---- lockPod at the entry points
	type ep struct {
		p           *fg.Parsed
		name        string
		firstUse    []string
		allowLister bool
	}
	locks := []string{}
	all, noEarly := true, true
	for _, e := range []ep{
		{fl, "Filter", []string{"R.getSubnet("}, false},
		{bd, "Bind", []string{"R.allocateIP("}, true}, // Bind reads the pod from the lister to know whose lock to take
		{bd, "unbind", []string{"R.ipam.", "cloudProviderUnAssignIP("}, false},
		{bd, "Release", []string{"R.ipam."}, false},
		{rs, "syncPodIP", []string{"R.syncIP("}, false},
	} {
		t, err := trace(e.p, "FloatingIPPlugin", e.name)
		if err != nil {
			return "", err
		}
		locked, early := lockBefore(t, 0, e.firstUse, e.allowLister)
		all = all && locked
		noEarly = noEarly && !early
		locks = append(locks, fmt.Sprintf("(%s, %s)", fg.LeanStr(e.name), fg.LeanBool(locked)))
	}
	all = all && resyncLock
	locks = append(locks, fmt.Sprintf("(%s, %s)", fg.LeanStr("resyncAllocatedIPs.closure"), fg.LeanBool(resyncLock)))
	if cl >= 0 {
		_, early := lockBefore(tRes, cl, []string{"R.ipam."}, false)
		noEarly = noEarly && !early
	}
	fmt.Fprintf(&b, "/-- no IPAM / apiserver / provider access (or helper doing one) precedes `defer p.lockPod(..)()` in the six entry points -/\ndef noKeyAccessBeforePodLock : Bool := %s\n", fg.LeanBool(noEarly && cl >= 0))

	// every entry point locks the SAME key: lockPod(name, namespace) = "<namespace>_<name>", called with (…Name, …Namespace)
	tLp, err := trace(fp, "FloatingIPPlugin", "lockPod")
	if err != nil {
		return "", err
	}
	lockKey := 0
	for _, e := range tLp.Events {
		if e.Kind == "call" && strings.HasPrefix(e.Text, "R.podLockPool.LockKey(") {
			lockKey++
			if e.Text != `R.podLockPool.LockKey(P1+"_"+P0)` || e.Closure != 0 || len(e.Path) != 0 {
				lockKey = -100
			}
		}
	}
	uniform := lockKey == 1
	calls, lockKeyCalls := 0, 0
	for _, f := range []*fg.Parsed{fl, bd, rs, fp, ev, pf} {
		ast.Inspect(f.File, func(n ast.Node) bool {
			c, ok := n.(*ast.CallExpr)
			if !ok {
				return true
			}
			sel, ok := c.Fun.(*ast.SelectorExpr)
			if !ok {
				return true
			}
			switch sel.Sel.Name {
			case "lockPod":
				calls++
				if len(c.Args) != 2 {
					uniform = false
					break
				}
				a0, a1 := f.Src(c.Args[0]), f.Src(c.Args[1])
				if !(strings.HasSuffix(a0, ".Name") || strings.HasSuffix(a0, ".PodName")) || !strings.HasSuffix(a1, ".Namespace") {
					uniform = false
				}
			case "LockKey":
				if strings.HasSuffix(f.Src(sel.X), ".podLockPool") {
					lockKeyCalls++
				}
			}
			return true
		})
	}
	fmt.Fprintf(&b, "/-- lockPod(name, namespace) locks \"<namespace>_<name>\"; all its call sites (Filter, Bind, unbind, Release, syncPodIP, resync closure) pass (…Name, …Namespace) in that order and nothing else locks the pod pool -/\ndef podLockKeyUniform : Bool := %s\n\n", fg.LeanBool(uniform && calls >= 6 && lockKeyCalls == 1))
	fmt.Fprintf(&b, "/-- `defer p.lockPod(..)()` dominates the first IPAM use of each entry point -/\ndef underPodLock : List (String × Bool) := [%s]\ndef allUnderPodLock : Bool := %s\n\n",
		strings.Join(locks, ", "), fg.LeanBool(all))

	skipsNonPod := false
	if t, err := trace(rs, "FloatingIPPlugin", "fetchChecklist"); err == nil {
		skipsNonPod = checklistSkipsNonPodKeys(t)
	}
	fmt.Fprintf(&b, "/-- fetchChecklist: a record whose key has no pod name never enters the resync checklist -/\ndef resyncSkipsKeysWithoutPodName : Bool := %s\n", fg.LeanBool(skipsNonPod))

	preemptUnlocked := false
	if t, err := trace(pf, "FloatingIPPlugin", "Preempt"); err == nil {
		preemptUnlocked = t.first(0, "call", is("R.getSubnet(P0.Pod)")) >= 0 && t.first(0, "call defer", has(".lockPod(")) < 0
	}
	fmt.Fprintf(&b, "/-- Preempt calls getSubnet (which may allocate) and does not take the pod lock -/\ndef preemptCallsGetSubnetUnlocked : Bool := %s\n", fg.LeanBool(preemptUnlocked))

	tBind, err := trace(bd, "FloatingIPPlugin", "Bind")
	if err != nil {
		return "", err
	}
	lister := "R.PodLister.Pods(P0.PodNamespace).Get(P0.PodName)"
	li := tBind.first(0, "call", is(lister))
	lk := tBind.first(0, "defer", has("R.lockPod("))
	fromLister := li >= 0 && before(li, lk) && lk >= 0 && tBind.first(0, "call", has("R.Client.CoreV1().Pods(P0.PodNamespace).Get(")) < 0
	fmt.Fprintf(&b, "/-- Bind reads the pod object from the pod lister (the model's `vPods`) -/\ndef bindReadsPodFromLister : Bool := %s\n", fg.LeanBool(fromLister))
	lg := tBind.funcGuard(tmpls(map[string]string{"pod": lister + "#1"}, `P0.PodUID != ""`, `pod.UID != ""`, `pod.UID != P0.PodUID`), 0, "return ERR")
	firstUse := tBind.first(0, "call", has("R.lockPod(", "R.allocateIP(", "R.ipam."))
	fmt.Fprintf(&b, "/-- Bind refuses (before the pod lock and any IPAM call) when the lister's pod has another non-empty UID than args.PodUID -/\ndef bindChecksListerUID : Bool := %s\n", fg.LeanBool(before(li, lg) && before(lg, firstUse) && firstUse >= 0))
	fmt.Fprintf(&b, "/-- Bind: every send of a release event (`p.unreleased <-`) sits under `if apierrors.IsNotFound(err1)`, err1 being the error of the pods/binding call -/\ndef bindEnqueuesReleaseOnlyOnNotFound : Bool := %s\n", fg.LeanBool(bindAnswerReaction(tBind)))

	phaseOnly := false
	if t, err := trace(fp, "", "finished"); err == nil {
		e, ok := t.boolExpr()
		phaseOnly = ok && e == tmpl(`P0.Status.Phase == corev1.PodFailed || P0.Status.Phase == corev1.PodSucceeded`, nil)
	}
	fmt.Fprintf(&b, "/-- finished(pod) is exactly `return pod.Status.Phase == corev1.PodFailed || pod.Status.Phase == corev1.PodSucceeded` -/\ndef finishedChecksPhaseOnly : Bool := %s\n", fg.LeanBool(phaseOnly))
	return b.String(), nil
}
