// Normaliser: turns a Go function into a name-independent TRACE - the calls, assignments, sends, defers and exits of
// the body in source order, each with its canonical text and its path condition - so that the facts can be matched
// semantically instead of textually (see /verif/harmless/NORMALISE.md):
//
//   - locals disappear: every use of a local prints the canonical text of the value it holds at that point (cheap value
//     numbering: `x := e` makes x print as e; `x, err := f(a)` makes x print as `f(a)#1`, err as `f(a)#2`; the element
//     variable of `for _, v := range X` and `X[i]` under `for i := range X` both print as `el(X)`); parameters print as
//     P0, P1, …, the receiver as R; a variable whose value is not known statically (assigned in a loop, in a closure or
//     in a branch that falls through) prints as V1, V2, … in order of declaration.  Renaming, hoisting a conversion into
//     a local, naming a boolean: no effect on the trace;
//   - conditions are sets of conjuncts: `a && b`, `if a { if b {…} }` and guard clauses (`if !a { continue }` before the
//     rest) give the same path condition; `!(x == y)` is `x != y`; the operands of == / != and of && / || are sorted;
//     `if c { return x }; return y` and `if c { return x } else { return y }` give the same paths; a `switch` is the
//     if / else-if chain on equality with its tag;
//   - glog / klog / log / fmt.Print* statements and comments are dropped, the text of an error message is dropped
//     (`fmt.Errorf(…)`, `errors.New(…)` print as ERR), `fmt.Sprintf` with plain verbs prints as the concatenation;
//   - private helpers of the files given are followed one level: a helper that is a single `return e` is substituted
//     into the expression; the events of any other helper called in statement position are spliced in after the call
//     (marked), so a guard or a mutation moved into a helper stays visible.
//
// What still changes the trace: another operator, constant or operand, a dropped or moved guard, a call moved across
// another call, a changed error class (nil / non-nil), a changed argument of a call.
package main

import (
	"go/ast"
	"go/token"
	"sort"
	"strconv"
	"strings"

	"factgen/fg"
)

// Cond is one conjunct of a path condition.  Tag 'E': condition of an enclosing `if` (then-branch) or `case`;
// 'S': negation of an earlier exit or of the branches before (else, code after a guard clause).
type Cond struct {
	Text string
	Tag  byte
}

// Event is one step of the trace.
type Event struct {
	Kind      string // call | assign | send | defer | return | continue | break | stmt
	Text      string // canonical text
	Path      []Cond // conjuncts from the start of the function (or closure) body
	LoopStart int    // index into Path where the body of the innermost loop begins (0 outside loops)
	Loop      int    // id of the innermost loop, 0 = none
	LoopRange string // canonical range expression of the innermost loop ("" for a plain for)
	Closure   int    // id of the innermost function literal, 0 = none
	Helper    string // name of the helper this event was spliced in from ("" = the function itself)
}

// Guard is an `if` (or `case`) of the trace.
type Guard struct {
	At         int      // number of events emitted before the `if`
	Own        []string // conjuncts of its own condition
	Path       []Cond   // path condition in front of it
	LoopStart  int
	Loop       int
	LoopRange  string
	Closure    int
	Helper     string
	Terminates bool     // every path through the body exits (return / continue / break / panic)
	Terms      []string // canonical texts of the exits directly in the body
	From, To   int      // events[From:To] are the events of the body
}

type Trace struct {
	Events []Event
	Guards []Guard
}

type loopInfo struct {
	id        int
	rng       string
	pathStart int
}

type walker struct {
	files   []*fg.Parsed // where helpers are looked up
	env     map[*ast.Object]string
	params  map[*ast.Object]string
	vnames  map[*ast.Object]string
	byName  map[string]string      // free identifiers bound by the caller of a helper (parameter name -> text)
	rangeIx map[*ast.Object]string // key variable of `for i := range X` -> canonical X
	tr      *Trace
	path    []Cond
	loops   []loopInfo
	nloops  int
	closure int
	ncl     int
	depth   int    // helper nesting
	helper  string // name of the helper being spliced
	inExpr  bool   // collecting call events inside an expression
}

var logPrefixes = []string{"glog.", "klog.", "log.", "fmt.Print", "fmt.Fprint"}

func isLogCall(p string) bool {
	for _, l := range logPrefixes {
		if strings.HasPrefix(p, l) {
			return true
		}
	}
	return false
}

var builtinFuncs = map[string]bool{"string": true, "int": true, "int32": true, "int64": true, "uint32": true, "uint64": true,
	"len": true, "cap": true, "append": true, "make": true, "new": true, "uint8": true, "byte": true, "float64": true, "uint": true, "uint16": true}

// NormaliseFunc builds the trace of a function declaration.  files: where private helpers may be found.
func NormaliseFunc(fd *ast.FuncDecl, files []*fg.Parsed) *Trace {
	w := newWalker(files)
	w.bindParams(fd)
	if fd.Body != nil {
		w.block(fd.Body.List)
	}
	return w.tr
}

func newWalker(files []*fg.Parsed) *walker {
	return &walker{files: files, env: map[*ast.Object]string{}, params: map[*ast.Object]string{}, vnames: map[*ast.Object]string{},
		byName: map[string]string{}, rangeIx: map[*ast.Object]string{}, tr: &Trace{}}
}

func (w *walker) bindParams(fd *ast.FuncDecl) {
	if fd.Recv != nil {
		for _, f := range fd.Recv.List {
			for _, n := range f.Names {
				if n.Obj != nil {
					w.params[n.Obj] = "R"
				}
			}
		}
	}
	i := 0
	for _, f := range fd.Type.Params.List {
		for _, n := range f.Names {
			if n.Obj != nil {
				w.params[n.Obj] = "P" + strconv.Itoa(i)
			}
			i++
		}
		if len(f.Names) == 0 {
			i++
		}
	}
}

// ---- canonical expressions

func (w *walker) vname(o *ast.Object) string {
	if n, ok := w.vnames[o]; ok {
		return n
	}
	n := "V" + strconv.Itoa(len(w.vnames)+1)
	w.vnames[o] = n
	return n
}

func negate(c string) string {
	if strings.HasPrefix(c, "!(") && strings.HasSuffix(c, ")") && balanced(c[2:len(c)-1]) {
		return c[2 : len(c)-1]
	}
	if strings.HasPrefix(c, "!") && !strings.ContainsAny(c[1:], "&|=<> ") {
		return c[1:]
	}
	// top-level comparison?
	if op, l, r, ok := splitCmp(c); ok {
		switch op {
		case "==":
			return l + "!=" + r
		case "!=":
			return l + "==" + r
		case "<":
			return sortedCmp(r, "<=", l)
		case "<=":
			return sortedCmp(r, "<", l)
		}
	}
	if strings.ContainsAny(c, "&|=<>+-") {
		return "!(" + c + ")"
	}
	return "!" + c
}

func sortedCmp(l, op, r string) string { return l + op + r }

func balanced(s string) bool {
	d := 0
	for _, c := range s {
		switch c {
		case '(', '[', '{':
			d++
		case ')', ']', '}':
			d--
			if d < 0 {
				return false
			}
		}
	}
	return d == 0
}

// splitCmp splits a canonical text at its top-level comparison operator (texts are built by canon, so a top-level
// operator is one at bracket depth 0 outside string literals and there is at most one).
func splitCmp(c string) (op, l, r string, ok bool) {
	d := 0
	inStr := false
	for i := 0; i < len(c); i++ {
		ch := c[i]
		if ch == '"' && (i == 0 || c[i-1] != '\\') {
			inStr = !inStr
		}
		if inStr {
			continue
		}
		switch ch {
		case '(', '[', '{':
			d++
		case ')', ']', '}':
			d--
		}
		if d != 0 {
			continue
		}
		for _, o := range []string{"&&", "||"} {
			if strings.HasPrefix(c[i:], o) {
				return "", "", "", false
			}
		}
	}
	d, inStr = 0, false
	for i := 0; i < len(c); i++ {
		ch := c[i]
		if ch == '"' && (i == 0 || c[i-1] != '\\') {
			inStr = !inStr
		}
		if inStr {
			continue
		}
		switch ch {
		case '(', '[', '{':
			d++
		case ')', ']', '}':
			d--
		}
		if d != 0 {
			continue
		}
		for _, o := range []string{"==", "!=", "<=", "<"} {
			if strings.HasPrefix(c[i:], o) {
				if o == "<" && i+1 < len(c) && c[i+1] == '-' {
					continue
				}
				return o, c[:i], c[i+len(o):], true
			}
		}
	}
	return "", "", "", false
}

func (w *walker) canon(e ast.Expr) string {
	switch x := e.(type) {
	case nil:
		return ""
	case *ast.ParenExpr:
		return w.canon(x.X)
	case *ast.Ident:
		if x.Obj != nil {
			if t, ok := w.params[x.Obj]; ok {
				return t
			}
			if t, ok := w.env[x.Obj]; ok {
				return t
			}
			if x.Obj.Kind == ast.Var {
				return w.vname(x.Obj)
			}
			return x.Name
		}
		if t, ok := w.byName[x.Name]; ok {
			return t
		}
		return x.Name
	case *ast.BasicLit:
		return x.Value
	case *ast.SelectorExpr:
		// (&v).f is v.f
		return strings.TrimPrefix(w.canon(x.X), "&") + "." + x.Sel.Name
	case *ast.StarExpr:
		if in := w.canon(x.X); strings.HasPrefix(in, "&") {
			return in[1:]
		}
		return "*" + w.canon(x.X)
	case *ast.IndexExpr:
		if id, ok := x.Index.(*ast.Ident); ok && id.Obj != nil {
			if r, ok := w.rangeIx[id.Obj]; ok && r == w.canon(x.X) {
				return "el(" + r + ")"
			}
		}
		return w.canon(x.X) + "[" + w.canon(x.Index) + "]"
	case *ast.SliceExpr:
		return w.canon(x.X) + "[" + w.canon(x.Low) + ":" + w.canon(x.High) + "]"
	case *ast.TypeAssertExpr:
		return w.canon(x.X) + ".(" + w.canon(x.Type) + ")"
	case *ast.UnaryExpr:
		switch x.Op {
		case token.NOT:
			return negate(w.canon(x.X))
		case token.AND:
			inner := w.canon(x.X)
			return "&" + inner
		}
		return x.Op.String() + w.canon(x.X)
	case *ast.BinaryExpr:
		return w.canonBinary(x)
	case *ast.CallExpr:
		return w.canonCall(x)
	case *ast.CompositeLit:
		var parts []string
		for _, el := range x.Elts {
			parts = append(parts, w.canon(el))
		}
		return w.canon(x.Type) + "{" + strings.Join(parts, ",") + "}"
	case *ast.KeyValueExpr:
		return w.canon(x.Key) + ":" + w.canon(x.Value)
	case *ast.FuncLit:
		return "FUNC"
	case *ast.ArrayType:
		return "[]" + w.canon(x.Elt)
	case *ast.MapType:
		return "map[" + w.canon(x.Key) + "]" + w.canon(x.Value)
	case *ast.InterfaceType:
		return "interface{}"
	case *ast.ChanType:
		return "chan " + w.canon(x.Value)
	case *ast.Ellipsis:
		return "..." + w.canon(x.Elt)
	}
	return "?"
}

func flatten(w *walker, e ast.Expr, op token.Token, out *[]string) {
	if p, ok := e.(*ast.ParenExpr); ok {
		flatten(w, p.X, op, out)
		return
	}
	if b, ok := e.(*ast.BinaryExpr); ok && b.Op == op {
		flatten(w, b.X, op, out)
		flatten(w, b.Y, op, out)
		return
	}
	*out = append(*out, w.canon(e))
}

func (w *walker) canonBinary(x *ast.BinaryExpr) string {
	switch x.Op {
	case token.LAND, token.LOR:
		var parts []string
		flatten(w, x, x.Op, &parts)
		sort.Strings(parts)
		parts = uniq(parts)
		for i, p := range parts {
			if x.Op == token.LAND && topLevelHas(p, "||") || x.Op == token.LOR && topLevelHas(p, "&&") {
				parts[i] = "(" + p + ")"
			}
		}
		return strings.Join(parts, x.Op.String())
	case token.EQL, token.NEQ:
		l, r := orderOperands(w.canon(x.X), w.canon(x.Y))
		return l + x.Op.String() + r
	case token.GTR:
		return w.canon(x.Y) + "<" + w.canon(x.X)
	case token.GEQ:
		return w.canon(x.Y) + "<=" + w.canon(x.X)
	case token.ADD:
		var parts []string
		flatten(w, x, token.ADD, &parts)
		return joinConcat(parts)
	}
	return w.canon(x.X) + x.Op.String() + w.canon(x.Y)
}

// orderOperands: the operands of == / != in canonical order - literals (nil, "", numbers, true/false) right, else by text
func orderOperands(l, r string) (string, string) {
	rank := func(s string) int {
		if s == "nil" || s == "true" || s == "false" || isStrLit(s) || (len(s) > 0 && s[0] >= '0' && s[0] <= '9') {
			return 1
		}
		return 0
	}
	if rank(l) > rank(r) || (rank(l) == rank(r) && r < l) {
		return r, l
	}
	return l, r
}

func topLevelHas(s, op string) bool {
	d := 0
	for i := 0; i+len(op) <= len(s); i++ {
		switch s[i] {
		case '(', '[', '{':
			d++
		case ')', ']', '}':
			d--
		}
		if d == 0 && strings.HasPrefix(s[i:], op) {
			return true
		}
	}
	return false
}

func uniq(s []string) []string {
	var out []string
	for i, x := range s {
		if i == 0 || x != s[i-1] {
			out = append(out, x)
		}
	}
	return out
}

// joinConcat joins the operands of a + chain, merging adjacent string literals.
func joinConcat(parts []string) string {
	var out []string
	for _, p := range parts {
		if n := len(out); n > 0 && isStrLit(out[n-1]) && isStrLit(p) {
			a, _ := strconv.Unquote(out[n-1])
			b, _ := strconv.Unquote(p)
			out[n-1] = strconv.Quote(a + b)
			continue
		}
		if p == `""` {
			continue
		}
		out = append(out, p)
	}
	if len(out) == 0 {
		return `""`
	}
	return strings.Join(out, "+")
}

func isStrLit(s string) bool {
	if len(s) < 2 || s[0] != '"' {
		return false
	}
	_, err := strconv.Unquote(s)
	return err == nil
}

// sprintfConcat: fmt.Sprintf with a literal format made of plain verbs only = the concatenation.
func (w *walker) sprintfConcat(args []ast.Expr) (string, bool) {
	if len(args) == 0 {
		return "", false
	}
	bl, ok := args[0].(*ast.BasicLit)
	if !ok || bl.Kind != token.STRING {
		return "", false
	}
	f, err := strconv.Unquote(bl.Value)
	if err != nil {
		return "", false
	}
	var parts []string
	rest := args[1:]
	for len(f) > 0 {
		i := strings.IndexByte(f, '%')
		if i < 0 {
			parts = append(parts, strconv.Quote(f))
			break
		}
		if i > 0 {
			parts = append(parts, strconv.Quote(f[:i]))
		}
		if i+1 >= len(f) {
			return "", false
		}
		switch f[i+1] {
		case 's', 'd', 'v':
			if len(rest) == 0 {
				return "", false
			}
			parts = append(parts, w.canon(rest[0]))
			rest = rest[1:]
		case '%':
			parts = append(parts, `"%"`)
		default:
			return "", false
		}
		f = f[i+2:]
	}
	if len(rest) != 0 {
		return "", false
	}
	return joinConcat(parts), true
}

func (w *walker) printedFun(f ast.Expr) string {
	switch x := f.(type) {
	case *ast.Ident:
		return x.Name
	case *ast.SelectorExpr:
		return w.printedFun(x.X) + "." + x.Sel.Name
	case *ast.CallExpr:
		return w.printedFun(x.Fun) + "()"
	case *ast.ParenExpr:
		return w.printedFun(x.X)
	}
	return ""
}

func (w *walker) canonCall(c *ast.CallExpr) string {
	raw := w.printedFun(c.Fun)
	switch raw {
	case "fmt.Errorf", "errors.New":
		return "ERR"
	case "fmt.Sprintf":
		if s, ok := w.sprintfConcat(c.Args); ok {
			return s
		}
		return "SPRINTF"
	case "strconv.Itoa":
		if len(c.Args) == 1 {
			return w.canon(c.Args[0])
		}
	}
	// a private helper that is a single `return e`: substitute
	if w.depth == 0 {
		if hd, recv := w.lookupHelper(c); hd != nil {
			if e, ok := w.helperExpr(hd, recv, c.Args); ok {
				return e
			}
		}
	}
	var args []string
	for _, a := range c.Args {
		args = append(args, w.canon(a))
	}
	return w.canon(c.Fun) + "(" + strings.Join(args, ",") + ")"
}

// lookupHelper: the declaration of a lower-case function / method called as `h(..)` or `<recv>.h(..)` found in the
// files; recv is the canonical text of the receiver expression ("" for a plain function).
func (w *walker) lookupHelper(c *ast.CallExpr) (*ast.FuncDecl, string) {
	name, recv := "", ""
	hasRecv := false
	switch f := c.Fun.(type) {
	case *ast.Ident:
		name = f.Name
	case *ast.SelectorExpr:
		if id, ok := f.X.(*ast.Ident); ok && id.Obj != nil {
			if _, isParam := w.params[id.Obj]; isParam {
				name, hasRecv = f.Sel.Name, true
				recv = w.canon(f.X)
			}
		}
	}
	if name == "" || !(name[0] >= 'a' && name[0] <= 'z') || builtinFuncs[name] {
		return nil, ""
	}
	for _, p := range w.files {
		for _, d := range p.File.Decls {
			fd, ok := d.(*ast.FuncDecl)
			if !ok || fd.Name.Name != name || fd.Body == nil {
				continue
			}
			if (fd.Recv != nil) == hasRecv {
				return fd, recv
			}
		}
	}
	return nil, ""
}

func (w *walker) subWalker(hd *ast.FuncDecl, recv string, args []ast.Expr) *walker {
	s := newWalker(w.files)
	s.depth = w.depth + 1
	s.helper = hd.Name.Name
	if hd.Recv != nil {
		for _, f := range hd.Recv.List {
			for _, n := range f.Names {
				if n.Obj != nil {
					s.params[n.Obj] = recv
				}
			}
		}
	}
	i := 0
	for _, f := range hd.Type.Params.List {
		for _, n := range f.Names {
			if n.Obj != nil && i < len(args) {
				s.params[n.Obj] = w.canon(args[i])
			}
			i++
		}
	}
	// V-names of the helper must not clash with the caller's
	for o, n := range w.vnames {
		s.vnames[o] = n
	}
	return s
}

// helperExpr: if the helper's trace is a single `return e`, e in the caller's terms.
func (w *walker) helperExpr(hd *ast.FuncDecl, recv string, args []ast.Expr) (string, bool) {
	if hd.Type.Results == nil || len(hd.Type.Results.List) != 1 || len(hd.Type.Results.List[0].Names) > 1 {
		return "", false
	}
	s := w.subWalker(hd, recv, args)
	s.block(hd.Body.List)
	var rets []Event
	for _, e := range s.tr.Events {
		switch e.Kind {
		case "return":
			rets = append(rets, e)
		case "call":
			// pure calls inside the returned expression are fine; anything else is not an expression helper
			if !strings.HasPrefix(e.Text, "apierrors.") && !strings.HasPrefix(e.Text, "strings.") {
				return "", false
			}
		default:
			return "", false
		}
	}
	if len(rets) == 1 && len(rets[0].Path) == 0 {
		return strings.TrimPrefix(rets[0].Text, "return "), true
	}
	// `if c { return true }; return d`  =  c || d   (and the dual)
	if len(rets) == 2 && len(rets[0].Path) == 1 && len(rets[1].Path) == 1 && rets[1].Path[0].Text == negate(rets[0].Path[0].Text) {
		c := rets[0].Path[0].Text
		a, b := strings.TrimPrefix(rets[0].Text, "return "), strings.TrimPrefix(rets[1].Text, "return ")
		switch {
		case a == "true":
			return orText(c, b), true
		case a == "false" && b == "true":
			return negate(c), true
		}
	}
	return "", false
}

func orText(a, b string) string {
	if b == "false" {
		return a
	}
	parts := append(splitTop(a, "||"), splitTop(b, "||")...)
	sort.Strings(parts)
	return strings.Join(uniq(parts), "||")
}

func splitTop(s, op string) []string {
	var out []string
	d, last := 0, 0
	for i := 0; i+len(op) <= len(s); i++ {
		switch s[i] {
		case '(', '[', '{':
			d++
		case ')', ']', '}':
			d--
		}
		if d == 0 && strings.HasPrefix(s[i:], op) {
			out = append(out, s[last:i])
			last = i + len(op)
			i += len(op) - 1
		}
	}
	return append(out, s[last:])
}

// conjuncts of a canonical condition text
func conjuncts(c string) []string {
	parts := splitTop(c, "&&")
	for i, p := range parts {
		if strings.HasPrefix(p, "(") && strings.HasSuffix(p, ")") && balanced(p[1:len(p)-1]) {
			parts[i] = p[1 : len(p)-1]
		}
	}
	return parts
}

// ---- events

func (w *walker) emit(kind, text string) {
	li := loopInfo{}
	if n := len(w.loops); n > 0 {
		li = w.loops[n-1]
	}
	w.tr.Events = append(w.tr.Events, Event{Kind: kind, Text: text, Path: append([]Cond(nil), w.path...), LoopStart: li.pathStart,
		Loop: li.id, LoopRange: li.rng, Closure: w.closure, Helper: w.helper})
}

// calls emits the call events inside an expression, innermost first; function literals are walked as closures.
func (w *walker) calls(e ast.Expr) {
	if e == nil {
		return
	}
	switch x := e.(type) {
	case *ast.CallExpr:
		raw := w.printedFun(x.Fun)
		if isLogCall(raw) {
			return
		}
		if fl, ok := x.Fun.(*ast.FuncLit); ok {
			w.closureBody(fl)
		} else {
			w.calls(x.Fun)
		}
		for _, a := range x.Args {
			w.calls(a)
		}
		if id, ok := x.Fun.(*ast.Ident); ok && builtinFuncs[id.Name] {
			return
		}
		if raw == "fmt.Errorf" || raw == "errors.New" || raw == "fmt.Sprintf" {
			return
		}
		text := w.canonCall(x)
		w.emit("call", text)
		w.spliceHelper(x)
	case *ast.FuncLit:
		w.closureBody(x)
	case *ast.ParenExpr:
		w.calls(x.X)
	case *ast.SelectorExpr:
		w.calls(x.X)
	case *ast.StarExpr:
		w.calls(x.X)
	case *ast.UnaryExpr:
		w.calls(x.X)
	case *ast.BinaryExpr:
		w.calls(x.X)
		w.calls(x.Y)
	case *ast.IndexExpr:
		w.calls(x.X)
		w.calls(x.Index)
	case *ast.SliceExpr:
		w.calls(x.X)
	case *ast.TypeAssertExpr:
		w.calls(x.X)
	case *ast.CompositeLit:
		for _, el := range x.Elts {
			w.calls(el)
		}
	case *ast.KeyValueExpr:
		w.calls(x.Value)
	}
}

// spliceHelper appends the events and guards of a private helper called here (one level).
func (w *walker) spliceHelper(c *ast.CallExpr) {
	if w.depth != 0 {
		return
	}
	hd, recv := w.lookupHelper(c)
	if hd == nil {
		return
	}
	s := w.subWalker(hd, recv, c.Args)
	s.block(hd.Body.List)
	base := len(w.tr.Events)
	li := loopInfo{}
	if n := len(w.loops); n > 0 {
		li = w.loops[n-1]
	}
	for _, e := range s.tr.Events {
		if e.Kind == "return" {
			e.Kind = "hreturn"
		}
		e.Helper = hd.Name.Name
		e.Path = append(append([]Cond(nil), w.path...), e.Path...)
		if e.Loop == 0 {
			e.Loop, e.LoopRange, e.LoopStart = li.id, li.rng, li.pathStart
		} else {
			e.Loop += 1000 * (base + 1)
			e.LoopStart += len(w.path)
		}
		if e.Closure == 0 {
			e.Closure = w.closure
		}
		w.tr.Events = append(w.tr.Events, e)
	}
	for _, g := range s.tr.Guards {
		g.At += base
		g.From += base
		g.To += base
		g.Helper = hd.Name.Name
		g.Path = append(append([]Cond(nil), w.path...), g.Path...)
		if g.Loop != 0 {
			g.Loop += 1000 * (base + 1)
			g.LoopStart += len(w.path)
		}
		w.tr.Guards = append(w.tr.Guards, g)
	}
	for o, n := range s.vnames {
		w.vnames[o] = n
	}
}

func (w *walker) closureBody(fl *ast.FuncLit) {
	savedPath, savedLoops, savedClosure := w.path, w.loops, w.closure
	w.ncl++
	w.closure = w.ncl
	w.path, w.loops = nil, nil
	for o := range assignedIn(fl.Body) {
		delete(w.env, o)
	}
	w.block(fl.Body.List)
	w.path, w.loops, w.closure = savedPath, savedLoops, savedClosure
	// the closure may run any number of times, at any time: what it assigns is unknown afterwards
	for o := range assignedIn(fl.Body) {
		delete(w.env, o)
	}
}

// assignedIn: the variables (declared outside or inside) that are assigned somewhere in n.
func assignedIn(n ast.Node) map[*ast.Object]bool {
	out := map[*ast.Object]bool{}
	mark := func(e ast.Expr) {
		for {
			switch x := e.(type) {
			case *ast.Ident:
				if x.Obj != nil {
					out[x.Obj] = true
				}
				return
			case *ast.ParenExpr:
				e = x.X
			default:
				return
			}
		}
	}
	ast.Inspect(n, func(x ast.Node) bool {
		switch s := x.(type) {
		case *ast.AssignStmt:
			for _, l := range s.Lhs {
				mark(l)
			}
		case *ast.IncDecStmt:
			mark(s.X)
		case *ast.RangeStmt:
			if s.Key != nil {
				mark(s.Key)
			}
			if s.Value != nil {
				mark(s.Value)
			}
		case *ast.UnaryExpr:
			if s.Op == token.AND {
				mark(s.X) // address taken: may be written through the pointer
			}
		}
		return true
	})
	return out
}

func isLogStmt(w *walker, s ast.Stmt) bool {
	es, ok := s.(*ast.ExprStmt)
	if !ok {
		return false
	}
	c, ok := es.X.(*ast.CallExpr)
	return ok && isLogCall(w.printedFun(c.Fun))
}

// terminates: every path through the statements ends in return / continue / break / goto / panic.
func (w *walker) terminates(list []ast.Stmt) bool {
	for i := len(list) - 1; i >= 0; i-- {
		s := list[i]
		if isLogStmt(w, s) {
			continue
		}
		switch x := s.(type) {
		case *ast.ReturnStmt, *ast.BranchStmt:
			return true
		case *ast.ExprStmt:
			if c, ok := x.X.(*ast.CallExpr); ok {
				f := w.printedFun(c.Fun)
				return f == "panic" || f == "os.Exit" || strings.HasSuffix(f, ".Fatalf") || strings.HasSuffix(f, ".Fatal")
			}
			return false
		case *ast.BlockStmt:
			return w.terminates(x.List)
		case *ast.IfStmt:
			if x.Else == nil {
				return false
			}
			var el []ast.Stmt
			switch e := x.Else.(type) {
			case *ast.BlockStmt:
				el = e.List
			default:
				el = []ast.Stmt{e}
			}
			return w.terminates(x.Body.List) && w.terminates(el)
		case *ast.SwitchStmt:
			hasDefault := false
			for _, c := range x.Body.List {
				cc := c.(*ast.CaseClause)
				if cc.List == nil {
					hasDefault = true
				}
				if !w.terminates(cc.Body) {
					return false
				}
			}
			return hasDefault
		default:
			return false
		}
	}
	return false
}

func (w *walker) copyEnv() map[*ast.Object]string {
	c := make(map[*ast.Object]string, len(w.env))
	for k, v := range w.env {
		c[k] = v
	}
	return c
}

func (w *walker) invalidate(assigned map[*ast.Object]bool) {
	for o := range assigned {
		delete(w.env, o)
	}
}

func stmtsNode(list []ast.Stmt) ast.Node { return &ast.BlockStmt{List: list} }

// branch walks a branch with the extra conjuncts; returns the recorded body range and what the branch itself learnt
// on its way (the negations of its own guard clauses) - true behind the branch if the branch is the only way there.
func (w *walker) branch(list []ast.Stmt, extra []Cond) (from, to int, learnt []Cond) {
	saved := w.path
	savedEnv := w.copyEnv()
	w.path = append(append([]Cond(nil), w.path...), extra...)
	n := len(w.path)
	from = len(w.tr.Events)
	w.block(list)
	to = len(w.tr.Events)
	for _, c := range w.path[n:] {
		learnt = append(learnt, Cond{c.Text, 'S'})
	}
	w.path = saved
	w.env = savedEnv
	return
}

func tagged(cs []string, tag byte) []Cond {
	out := make([]Cond, len(cs))
	for i, c := range cs {
		out[i] = Cond{c, tag}
	}
	return out
}

// negAll: the negation of a condition as conjuncts - !(a || b) is !a, !b; !(a && b) stays one conjunct
func negAll(c string) []string {
	cs := conjuncts(c)
	if len(cs) == 1 {
		if alts := splitTop(cs[0], "||"); len(alts) > 1 {
			var out []string
			for _, a := range alts {
				if strings.HasPrefix(a, "(") && strings.HasSuffix(a, ")") && balanced(a[1:len(a)-1]) {
					a = a[1 : len(a)-1]
				}
				out = append(out, negAll(a)...)
			}
			return out
		}
		return []string{negate(cs[0])}
	}
	return []string{"!(" + c + ")"}
}

func (w *walker) directTerms(from, to int, closure int) []string {
	var out []string
	for _, e := range w.tr.Events[from:to] {
		if e.Closure != closure || e.Helper != w.helper {
			continue
		}
		switch e.Kind {
		case "return", "continue", "break":
			out = append(out, e.Text)
		}
	}
	return out
}

func (w *walker) recordGuard(at int, own []string, pathBefore []Cond, term bool, from, to int) {
	li := loopInfo{}
	if n := len(w.loops); n > 0 {
		li = w.loops[n-1]
	}
	w.tr.Guards = append(w.tr.Guards, Guard{At: at, Own: own, Path: append([]Cond(nil), pathBefore...), LoopStart: li.pathStart, Loop: li.id,
		LoopRange: li.rng, Closure: w.closure, Helper: w.helper, Terminates: term, Terms: w.directTerms(from, to, w.closure), From: from, To: to})
}

// exit emits a return / continue / break and records it as a guard of its own: the guard-clause style puts the exit
// behind the negated conditions instead of inside an `if`.
func (w *walker) exit(kind, text string) {
	at := len(w.tr.Events)
	w.emit(kind, text)
	w.recordGuard(at, nil, w.path, true, at, at+1)
}

func (w *walker) ifStmt(x *ast.IfStmt) {
	if x.Init != nil {
		w.stmt(x.Init)
	}
	w.calls(x.Cond)
	c := w.canon(x.Cond)
	own := conjuncts(c)
	at := len(w.tr.Events)
	pathBefore := append([]Cond(nil), w.path...)
	bodyTerm := w.terminates(x.Body.List)
	from, to, bodyLearnt := w.branch(x.Body.List, tagged(own, 'E'))
	w.recordGuard(at, own, pathBefore, bodyTerm, from, to)
	neg := tagged(negAll(c), 'S')
	elseTerm := false
	var elseList []ast.Stmt
	var elseLearnt []Cond
	if x.Else != nil {
		switch e := x.Else.(type) {
		case *ast.BlockStmt:
			elseList = e.List
		default:
			elseList = []ast.Stmt{e}
		}
		elseTerm = w.terminates(elseList)
		_, _, elseLearnt = w.branch(elseList, neg)
	}
	// what the code after the `if` knows, and which assignments it must forget
	if !bodyTerm {
		w.invalidate(assignedIn(x.Body))
	}
	if x.Else != nil && !elseTerm {
		w.invalidate(assignedIn(stmtsNode(elseList)))
	}
	switch {
	case bodyTerm && !elseTerm:
		w.path = append(append(w.path, neg...), elseLearnt...)
	case elseTerm && !bodyTerm && x.Else != nil:
		w.path = append(append(w.path, tagged(own, 'S')...), bodyLearnt...)
	}
}

func (w *walker) switchStmt(x *ast.SwitchStmt) {
	if x.Init != nil {
		w.stmt(x.Init)
	}
	tag := ""
	if x.Tag != nil {
		w.calls(x.Tag)
		tag = w.canon(x.Tag)
	}
	// a switch (with or without tag) is the if / else-if chain on its case conditions, `default` last
	var before []Cond // negations of the cases so far
	allAssigned := map[*ast.Object]bool{}
	var deflt *ast.CaseClause
	clauses := []*ast.CaseClause{}
	for _, c := range x.Body.List {
		cc := c.(*ast.CaseClause)
		if cc.List == nil {
			deflt = cc
			continue
		}
		clauses = append(clauses, cc)
	}
	type arm struct {
		term   bool
		before []Cond // what holds when the arm is tried
		own    []Cond // its own condition (nil for default)
		learnt []Cond
	}
	var arms []arm
	for _, cc := range clauses {
		var alts []string
		for _, v := range cc.List {
			w.calls(v)
			if tag != "" {
				l, r := orderOperands(tag, w.canon(v))
				alts = append(alts, l+"=="+r)
			} else {
				alts = append(alts, w.canon(v))
			}
		}
		sort.Strings(alts)
		cond := strings.Join(alts, "||")
		own := []string{cond}
		if len(alts) == 1 {
			own = conjuncts(cond)
		}
		at := len(w.tr.Events)
		pathBefore := append(append([]Cond(nil), w.path...), before...)
		term := w.terminates(cc.Body)
		from, to, learnt := w.branch(cc.Body, append(append([]Cond(nil), before...), tagged(own, 'E')...))
		w.recordGuard(at, own, pathBefore, term, from, to)
		arms = append(arms, arm{term, append([]Cond(nil), before...), tagged(own, 'S'), learnt})
		before = append(before, tagged(negAll(cond), 'S')...)
		if !term {
			for o := range assignedIn(stmtsNode(cc.Body)) {
				allAssigned[o] = true
			}
		}
	}
	if deflt != nil {
		term := w.terminates(deflt.Body)
		_, _, learnt := w.branch(deflt.Body, before)
		arms = append(arms, arm{term, append([]Cond(nil), before...), nil, learnt})
		if !term {
			for o := range assignedIn(stmtsNode(deflt.Body)) {
				allAssigned[o] = true
			}
		}
	} else {
		// no default: falling through all cases is an (empty) arm that goes on
		arms = append(arms, arm{false, append([]Cond(nil), before...), nil, nil})
	}
	w.invalidate(allAssigned)
	// what the code behind the switch knows
	var open []arm
	for _, a := range arms {
		if !a.term {
			open = append(open, a)
		}
	}
	if len(open) == 1 {
		// the only way on: everything that arm knows
		w.path = append(append(append(w.path, open[0].before...), open[0].own...), open[0].learnt...)
		return
	}
	// otherwise only the negations of the leading arms that all exit
	for _, a := range arms {
		if !a.term || a.own == nil {
			break
		}
		var txt []string
		for _, c := range a.own {
			txt = append(txt, c.Text)
		}
		w.path = append(w.path, tagged(negAll(strings.Join(txt, "&&")), 'S')...)
	}
}

func (w *walker) loop(body *ast.BlockStmt, rng string) {
	w.invalidate(assignedIn(body))
	w.nloops++
	w.loops = append(w.loops, loopInfo{id: w.nloops, rng: rng, pathStart: len(w.path)})
	savedPath := w.path
	savedEnv := w.copyEnv()
	w.block(body.List)
	w.path = savedPath
	w.env = savedEnv
	w.invalidate(assignedIn(body))
	w.loops = w.loops[:len(w.loops)-1]
}

func (w *walker) assign(lhs []ast.Expr, rhs []ast.Expr, define bool) {
	for _, r := range rhs {
		w.calls(r)
	}
	if len(lhs) == len(rhs) {
		texts := make([]string, len(rhs))
		for i, r := range rhs {
			texts[i] = w.canon(r)
		}
		for i, l := range lhs {
			if id, ok := l.(*ast.Ident); ok {
				if id.Name == "_" || id.Obj == nil {
					continue
				}
				w.env[id.Obj] = texts[i]
				if !define || w.closure != 0 {
					// a plain assignment (or one inside a closure) is an event: somebody may look for it
					w.emit("assign", w.lhsName(id)+"="+texts[i])
				}
				continue
			}
			w.emit("assign", w.canon(l)+"="+texts[i])
		}
		return
	}
	// x, y := f(..)
	if len(rhs) == 1 {
		t := w.canon(rhs[0])
		for i, l := range lhs {
			if id, ok := l.(*ast.Ident); ok {
				if id.Name == "_" || id.Obj == nil {
					continue
				}
				w.env[id.Obj] = t + "#" + strconv.Itoa(i+1)
				if !define || w.closure != 0 {
					w.emit("assign", w.lhsName(id)+"="+t+"#"+strconv.Itoa(i+1))
				}
				continue
			}
			w.emit("assign", w.canon(l)+"="+t+"#"+strconv.Itoa(i+1))
		}
	}
}

// lhsName: how an assigned variable is called in an assign event - its V-name (stable), not its value.
func (w *walker) lhsName(id *ast.Ident) string {
	if t, ok := w.params[id.Obj]; ok {
		return t
	}
	return w.vname(id.Obj)
}

func (w *walker) block(list []ast.Stmt) {
	saved := w.path
	for _, s := range list {
		w.stmt(s)
	}
	_ = saved
}

func (w *walker) stmt(s ast.Stmt) {
	switch x := s.(type) {
	case *ast.ExprStmt:
		w.calls(x.X)
	case *ast.AssignStmt:
		if x.Tok == token.DEFINE || x.Tok == token.ASSIGN {
			w.assign(x.Lhs, x.Rhs, x.Tok == token.DEFINE)
		} else {
			for _, r := range x.Rhs {
				w.calls(r)
			}
			for _, l := range x.Lhs {
				if id, ok := l.(*ast.Ident); ok && id.Obj != nil {
					delete(w.env, id.Obj)
				}
			}
			w.emit("stmt", "opassign")
		}
	case *ast.DeclStmt:
		if gd, ok := x.Decl.(*ast.GenDecl); ok && gd.Tok == token.VAR {
			for _, sp := range gd.Specs {
				vs := sp.(*ast.ValueSpec)
				if len(vs.Values) > 0 {
					var lhs []ast.Expr
					for _, n := range vs.Names {
						lhs = append(lhs, n)
					}
					w.assign(lhs, vs.Values, true)
				} else {
					for _, n := range vs.Names {
						if n.Obj != nil {
							w.env[n.Obj] = "zero"
						}
					}
				}
			}
		}
	case *ast.IfStmt:
		w.ifStmt(x)
	case *ast.SwitchStmt:
		w.switchStmt(x)
	case *ast.TypeSwitchStmt:
		w.emit("stmt", "typeswitch")
		w.invalidate(assignedIn(x.Body))
	case *ast.SelectStmt:
		w.emit("stmt", "select")
		for _, c := range x.Body.List {
			if cc, ok := c.(*ast.CommClause); ok {
				w.branch(cc.Body, nil)
			}
		}
		w.invalidate(assignedIn(x.Body))
	case *ast.ForStmt:
		if x.Init != nil {
			w.stmt(x.Init)
		}
		if x.Cond != nil {
			w.calls(x.Cond)
		}
		w.loop(x.Body, "")
	case *ast.RangeStmt:
		w.calls(x.X)
		r := w.canon(x.X)
		w.invalidate(assignedIn(x.Body))
		if id, ok := x.Value.(*ast.Ident); ok && id.Obj != nil && id.Name != "_" {
			w.env[id.Obj] = "el(" + r + ")"
		}
		if id, ok := x.Key.(*ast.Ident); ok && id.Obj != nil && id.Name != "_" {
			w.rangeIx[id.Obj] = r
			w.env[id.Obj] = "ix(" + r + ")"
		}
		// the loop variables are re-bound every iteration but never "assigned in the body"
		keep := map[*ast.Object]string{}
		for _, v := range []ast.Expr{x.Key, x.Value} {
			if id, ok := v.(*ast.Ident); ok && id.Obj != nil {
				if t, ok := w.env[id.Obj]; ok {
					keep[id.Obj] = t
				}
			}
		}
		w.nloops++
		w.loops = append(w.loops, loopInfo{id: w.nloops, rng: r, pathStart: len(w.path)})
		savedPath := w.path
		savedEnv := w.copyEnv()
		for o, t := range keep {
			w.env[o] = t
		}
		w.block(x.Body.List)
		w.path = savedPath
		w.env = savedEnv
		w.invalidate(assignedIn(x.Body))
		w.loops = w.loops[:len(w.loops)-1]
	case *ast.ReturnStmt:
		var parts []string
		for _, r := range x.Results {
			w.calls(r)
			parts = append(parts, w.canon(r))
		}
		t := "return"
		if len(parts) > 0 {
			t += " " + strings.Join(parts, ",")
		}
		w.exit("return", t)
	case *ast.BranchStmt:
		w.exit(x.Tok.String(), x.Tok.String())
	case *ast.DeferStmt:
		// `defer f(args)()` : f(args) runs now, its result at exit
		if inner, ok := x.Call.Fun.(*ast.CallExpr); ok {
			w.calls(inner)
			w.emit("defer", "defer "+w.canon(inner)+"()")
			return
		}
		if fl, ok := x.Call.Fun.(*ast.FuncLit); ok {
			w.emit("defer", "defer FUNC")
			w.closureBody(fl)
			return
		}
		for _, a := range x.Call.Args {
			w.calls(a)
		}
		w.emit("defer", "defer "+w.canonCall(x.Call))
	case *ast.GoStmt:
		w.emit("stmt", "go "+w.canon(x.Call.Fun))
		if fl, ok := x.Call.Fun.(*ast.FuncLit); ok {
			w.closureBody(fl)
		}
	case *ast.SendStmt:
		w.calls(x.Value)
		w.emit("send", w.canon(x.Chan)+"<-"+w.canon(x.Value))
	case *ast.IncDecStmt:
		if id, ok := x.X.(*ast.Ident); ok && id.Obj != nil {
			delete(w.env, id.Obj)
		}
		w.emit("stmt", "incdec")
	case *ast.BlockStmt:
		w.block(x.List)
	case *ast.LabeledStmt:
		w.stmt(x.Stmt)
	}
}

// ---- queries on a trace

// Rel: the path condition of an event relative to its innermost loop (all of it outside loops), without the
// conjuncts that only say "the earlier error checks passed" (`…==nil` from an earlier exit).
func relConds(path []Cond, start int) []string {
	var out []string
	for _, c := range path[start:] {
		if c.Tag == 'S' && strings.HasSuffix(c.Text, "==nil") {
			continue
		}
		out = append(out, c.Text)
	}
	sort.Strings(out)
	return uniq(out)
}

func sameSet(a, b []string) bool {
	a, b = append([]string(nil), a...), append([]string(nil), b...)
	sort.Strings(a)
	sort.Strings(b)
	a, b = uniq(a), uniq(b)
	if len(a) != len(b) {
		return false
	}
	for i := range a {
		if a[i] != b[i] {
			return false
		}
	}
	return true
}

func subset(a, b []string) bool {
	m := map[string]bool{}
	for _, x := range b {
		m[x] = true
	}
	for _, x := range a {
		if !m[x] {
			return false
		}
	}
	return true
}

// FirstCall: index of the first call / defer / send event whose text contains one of the markers, or -1.
func (t *Trace) FirstCall(markers ...string) int {
	for i, e := range t.Events {
		if e.Kind != "call" && e.Kind != "defer" && e.Kind != "send" {
			continue
		}
		for _, m := range markers {
			if strings.Contains(e.Text, m) {
				return i
			}
		}
	}
	return -1
}

// effective condition of a guard: what holds when its body runs, relative to the innermost loop.
func (g *Guard) Eff() []string {
	out := relConds(g.Path, g.LoopStart)
	out = append(out, g.Own...)
	sort.Strings(out)
	return uniq(out)
}

// positive nesting of a guard: the conditions of the enclosing ifs plus its own (no negated earlier exits)
func (g *Guard) Nest() []string {
	var out []string
	for _, c := range g.Path[g.LoopStart:] {
		if c.Tag == 'E' {
			out = append(out, c.Text)
		}
	}
	out = append(out, g.Own...)
	sort.Strings(out)
	return uniq(out)
}

func termsWithin(terms []string, allowedPrefixes ...string) bool {
	if len(terms) == 0 {
		return false
	}
	for _, t := range terms {
		ok := false
		for _, a := range allowedPrefixes {
			if t == a || strings.HasPrefix(t, a+",") || (strings.HasSuffix(a, "*") && strings.HasPrefix(t, strings.TrimSuffix(a, "*"))) {
				ok = true
			}
		}
		if !ok {
			return false
		}
	}
	return true
}
