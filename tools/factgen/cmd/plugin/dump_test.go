package main

import (
	"fmt"
	"os"
	"strings"
	"testing"

	"factgen/fg"
)

func dumpTrace(t *Trace) string {
	var b strings.Builder
	for i, e := range t.Events {
		var cs []string
		for _, c := range e.Path {
			cs = append(cs, string(c.Tag)+":"+c.Text)
		}
		fmt.Fprintf(&b, "%3d %-8s L%d C%d H[%s] %s   | %s   range=%s\n", i, e.Kind, e.Loop, e.Closure, e.Helper, e.Text, strings.Join(cs, " ; "), e.LoopRange)
	}
	for _, g := range t.Guards {
		fmt.Fprintf(&b, "G at=%d own=%v eff=%v term=%v terms=%v H[%s] C%d range=%s\n", g.At, g.Own, g.Eff(), g.Terminates, g.Terms, g.Helper, g.Closure, g.LoopRange)
	}
	return b.String()
}

// TestDumpRepo prints the trace of one function of /repo (debugging aid): GX_DUMP=file.go:Recv.name
func TestDumpRepo(t *testing.T) {
	spec := os.Getenv("GX_DUMP")
	if spec == "" {
		t.Skip("GX_DUMP not set")
	}
	parts := strings.SplitN(spec, ":", 2)
	fn := strings.SplitN(parts[1], ".", 2)
	p, err := fg.ParseFile("/repo", parts[0])
	if err != nil {
		t.Fatal(err)
	}
	fd, err := p.Fn(fn[0], fn[1])
	if err != nil {
		t.Fatal(err)
	}
	fmt.Println(dumpTrace(NormaliseFunc(fd, []*fg.Parsed{p})))
}
