// factgen plugin: regenerates lean/Galaxy/Generated/Plugin.lean from the CURRENT source of the galaxy-ipam scheduler
// plugin: the constants the model M4-core uses (key prefixes, sentinel app name, policy enum, retry limit) and the
// structural facts its shape and the C01/C04 proofs rely on (UID guards present before any mutation, re-read under
// the pod lock, lister-then-apiserver in podRunning, lockPod at the six entry points).  The facts are matched on the
// NORMALISED trace of each function (normalise.go): names of locals, hoisted sub-expressions, named booleans, nested
// ifs versus && versus guard clauses, switch versus if-chains, log lines, error texts and one level of private helpers
// make no difference; a dropped, moved or weakened guard does.  It fails loudly when a function it looks at is gone.
package main

import (
	"fmt"
	"go/ast"
	"go/token"
	"strconv"
	"strings"

	"factgen/fg"
)

const dir = "pkg/ipam/schedulerplugin/"

func gen(repo string) (map[string]string, error) {
	var b strings.Builder
	b.WriteString(fg.Header("constants and structural facts of the scheduler plugin (model M4-core)",
		dir+"bind.go", "pkg/ipam/floatingip/ipam_crd.go", "pkg/ipam/floatingip/store_crd.go", "pkg/ipam/server/server.go", dir+"resync.go", dir+"filter.go", dir+"event.go", dir+"util/utils.go", "pkg/api/galaxy/constant/constant.go"))
	b.WriteString("namespace Galaxy.Generated.Plugin\n\n")

	// ---- constants
	ut, err := fg.ParseFile(repo, dir+"util/utils.go")
	if err != nil {
		return nil, err
	}
	for _, c := range [][2]string{{"poolPrefix", "poolPrefix"}, {"DeploymentPrefixKey", "deploymentPrefixKey"},
		{"StatefulsetPrefixKey", "statefulsetPrefixKey"}, {"NoRefAppName", "noRefAppName"}, {"NoRefAppTypePrefix", "noRefAppTypePrefix"}} {
		v, err := ut.ConstString(c[0])
		if err != nil {
			return nil, err
		}
		fmt.Fprintf(&b, "def %s : String := %s\n", c[1], fg.LeanStr(v))
	}
	cs, err := fg.ParseFile(repo, "pkg/api/galaxy/constant/constant.go")
	if err != nil {
		return nil, err
	}
	// release policy enum: iota block PodDelete, Immutable, Never
	enum := []string{}
	for _, d := range cs.File.Decls {
		gd, ok := d.(*ast.GenDecl)
		if !ok || gd.Tok != token.CONST {
			continue
		}
		for _, s := range gd.Specs {
			vs := s.(*ast.ValueSpec)
			for _, n := range vs.Names {
				if strings.HasPrefix(n.Name, "ReleasePolicy") && n.Name != "ReleasePolicyAnnotation" {
					enum = append(enum, n.Name)
				}
			}
		}
	}
	if strings.Join(enum, ",") != "ReleasePolicyPodDelete,ReleasePolicyImmutable,ReleasePolicyNever" {
		return nil, fmt.Errorf("constant.go: release policy enum changed: %v", enum)
	}
	b.WriteString("def releasePolicyPodDelete : Nat := 0\ndef releasePolicyImmutable : Nat := 1\ndef releasePolicyNever : Nat := 2\n")
	for _, c := range [][2]string{{"Immutable", "immutableStr"}, {"Never", "neverStr"}} {
		v, err := cs.ConstString(c[0])
		if err != nil {
			return nil, err
		}
		fmt.Fprintf(&b, "def %s : String := %s\n", c[1], fg.LeanStr(v))
	}

	// ---- event.go: retry limit of the release-event loop
	ev, err := fg.ParseFile(repo, dir+"event.go")
	if err != nil {
		return nil, err
	}
	loop, err := ev.Fn("FloatingIPPlugin", "loop")
	if err != nil {
		return nil, err
	}
	limit := -1
	ast.Inspect(loop, func(n ast.Node) bool {
		if be, ok := n.(*ast.BinaryExpr); ok && be.Op == token.GTR && strings.Contains(ev.Src(be.X), "retryTimes") {
			if bl, ok := be.Y.(*ast.BasicLit); ok {
				limit, _ = strconv.Atoi(bl.Value)
			}
		}
		return true
	})
	if limit < 0 {
		return nil, fmt.Errorf("event.go: loop no longer has the shape `event.retryTimes > N`")
	}
	fmt.Fprintf(&b, "def unbindMaxRetries : Nat := %d\n\n", limit)

	// ---- the traces
	bd, err := fg.ParseFile(repo, dir+"bind.go")
	if err != nil {
		return nil, err
	}
	rs, err := fg.ParseFile(repo, dir+"resync.go")
	if err != nil {
		return nil, err
	}
	fl, err := fg.ParseFile(repo, dir+"filter.go")
	if err != nil {
		return nil, err
	}
	fp, err := fg.ParseFile(repo, dir+"floatingip_plugin.go")
	if err != nil {
		return nil, err
	}
	pf, err := fg.ParseFile(repo, dir+"preempt.go")
	if err != nil {
		return nil, err
	}
	ic, err := fg.ParseFile(repo, "pkg/ipam/floatingip/ipam_crd.go")
	if err != nil {
		return nil, err
	}
	trace := func(p *fg.Parsed, recv, name string) (*Trace, error) {
		fd, err := p.Fn(recv, name)
		if err != nil {
			return nil, err
		}
		return NormaliseFunc(fd, []*fg.Parsed{p}), nil
	}
	sc, err := fg.ParseFile(repo, "pkg/ipam/floatingip/store_crd.go")
	if err != nil {
		return nil, err
	}
	f, err := facts(trace, bd, rs, fl, fp, pf, ic, ev)
	if err != nil {
		return nil, err
	}
	b.WriteString(f)
	sv, err := fg.ParseFile(repo, "pkg/ipam/server/server.go")
	if err != nil {
		return nil, err
	}
	sf, err := serverFacts(trace, sv)
	if err != nil {
		return nil, err
	}
	b.WriteString(sf)
	tl, err := trace(sc, "crdIpam", "listFloatingIPs")
	if err != nil {
		return nil, err
	}
	fmt.Fprintf(&b, "/-- listFloatingIPs (ConfigurePool's view of the store) is a LIST against the API server: no informer / lister is consulted -/\ndef reloadListsApiserver : Bool := %s\n", fg.LeanBool(listsApiserver(tl)))
	b.WriteString("\nend Galaxy.Generated.Plugin\n")
	return map[string]string{"Plugin.lean": b.String()}, nil
}

func main() { fg.Run("plugin", gen) }
