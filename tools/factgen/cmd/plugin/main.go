// factgen plugin: regenerates lean/Galaxy/Generated/Plugin.lean from the CURRENT source of the galaxy-ipam scheduler
// plugin: the constants the model M4-core uses (key prefixes, sentinel app name, policy enum, retry limit) and the
// structural facts its shape and the C01/C04 proofs rely on (UID guards present before any mutation, re-read under
// the pod lock, lister-then-apiserver in podRunning, lockPod at the six entry points).  Purely syntactic (go/ast on
// single functions); it fails loudly when a function it looks at is gone.
package main

import (
	"fmt"
	"go/ast"
	"go/token"
	"strconv"
	"strings"

	"factgen/fg"
)

const dir = "pkg/ipam/schedulerplugin/"

// firstIdx: index of the first top-level statement of body whose text contains any of subs (or -1).
func firstIdx(p *fg.Parsed, body *ast.BlockStmt, subs ...string) int {
	best := -1
	for _, s := range subs {
		if i := p.StmtIndex(body, s); i >= 0 && (best < 0 || i < best) {
			best = i
		}
	}
	return best
}

// guardIdx: index of the first top-level statement that contains an `if` whose condition mentions all of conds and
// whose body returns; wantNilReturn selects `return nil` (ignore) versus an error return.
func guardIdx(p *fg.Parsed, body *ast.BlockStmt, conds []string, returnsContain string) int {
	for i, s := range body.List {
		found := false
		ast.Inspect(s, func(n ast.Node) bool {
			ifs, ok := n.(*ast.IfStmt)
			if !ok || found {
				return !found
			}
			c := p.Src(ifs.Cond)
			for _, want := range conds {
				if !strings.Contains(c, want) {
					return true
				}
			}
			for _, bs := range ifs.Body.List {
				if r, ok := bs.(*ast.ReturnStmt); ok && strings.Contains(p.Src(r), returnsContain) {
					found = true
				}
			}
			return !found
		})
		if found {
			return i
		}
	}
	return -1
}

// wholeKeyGuardIdx: index of the top-level `for _, x := range V` statement that contains the UID guard, where V was
// assigned from `ByKeyAndIPRanges(key, nil)` (all records of the key) by an earlier top-level statement; -1 otherwise.
func wholeKeyGuardIdx(p *fg.Parsed, body *ast.BlockStmt, conds []string, returnsContain string) int {
	all := map[string]bool{}
	for i, s := range body.List {
		if as, ok := s.(*ast.AssignStmt); ok && len(as.Rhs) == 1 && len(as.Lhs) >= 1 &&
			strings.Contains(p.Src(as.Rhs[0]), "ByKeyAndIPRanges(key, nil)") {
			if id, ok := as.Lhs[0].(*ast.Ident); ok {
				all[id.Name] = true
			}
		}
		rs, ok := s.(*ast.RangeStmt)
		if !ok || !all[p.Src(rs.X)] {
			continue
		}
		if guardIdx(p, &ast.BlockStmt{List: []ast.Stmt{rs}}, conds, returnsContain) == 0 {
			return i
		}
	}
	return -1
}

func hasDeferLockPod(p *fg.Parsed, body *ast.BlockStmt) int {
	for i, s := range body.List {
		if d, ok := s.(*ast.DeferStmt); ok && strings.Contains(p.Src(d), "p.lockPod(") {
			return i
		}
	}
	return -1
}

// before: a >= 0 and (b < 0 or a < b)
// skipsNonPodKeys: the (first) range loop of the body parses the record's key and `continue`s on an empty pod name
// before it appends the record to the checklist.
func skipsNonPodKeys(p *fg.Parsed, body *ast.BlockStmt) bool {
	res := false
	done := false
	ast.Inspect(body, func(n ast.Node) bool {
		fr, ok := n.(*ast.RangeStmt)
		if !ok || done {
			return !done
		}
		done = true
		skipAt, appendAt, parseAt := -1, -1, -1
		for i, st := range fr.Body.List {
			if ifs, ok := st.(*ast.IfStmt); ok && skipAt < 0 && p.Src(ifs.Cond) == `keyObj.PodName == ""` && len(ifs.Body.List) == 1 && ifs.Else == nil {
				if br, ok := ifs.Body.List[0].(*ast.BranchStmt); ok && br.Tok.String() == "continue" {
					skipAt = i
				}
			}
			if parseAt < 0 && strings.Contains(p.Src(st), "keyObj := util.ParseKey(fip.Key)") {
				parseAt = i
			}
			if appendAt < 0 && strings.Contains(p.Src(st), "meta.allocatedIPs = append(") {
				appendAt = i
			}
		}
		res = parseAt >= 0 && skipAt > parseAt && appendAt > skipAt
		return false
	})
	return res
}

// enqueuesOnlyOnNotFound: the body sends to p.unreleased at least once, every such send is (directly) inside the body
// of an `if` whose condition is exactly `apierrors.IsNotFound(err1)`, and err1 is assigned exactly once, from the error
// of the pods/binding call (`if err := …Pods(…).Bind(…); err != nil { err1 = err … }`).
func enqueuesOnlyOnNotFound(p *fg.Parsed, body *ast.BlockStmt) bool {
	sends, guarded := 0, 0
	ast.Inspect(body, func(n ast.Node) bool {
		if _, ok := n.(*ast.SendStmt); ok && strings.HasPrefix(p.Src(n), "p.unreleased <-") {
			sends++
		}
		if ifs, ok := n.(*ast.IfStmt); ok && p.Src(ifs.Cond) == "apierrors.IsNotFound(err1)" && ifs.Else == nil {
			for _, st := range ifs.Body.List {
				if _, ok := st.(*ast.SendStmt); ok && strings.HasPrefix(p.Src(st), "p.unreleased <-") {
					guarded++
				}
			}
		}
		return true
	})
	assigns, fromBinding := 0, 0
	ast.Inspect(body, func(n ast.Node) bool {
		if as, ok := n.(*ast.AssignStmt); ok && len(as.Lhs) == 1 && p.Src(as.Lhs[0]) == "err1" {
			assigns++
		}
		if ifs, ok := n.(*ast.IfStmt); ok && ifs.Init != nil && strings.Contains(p.Src(ifs.Init), ".Bind(context.TODO(), &corev1.Binding{") &&
			strings.HasPrefix(p.Src(ifs.Init), "err := p.Client.CoreV1().Pods(") && p.Src(ifs.Cond) == "err != nil" {
			for _, st := range ifs.Body.List {
				if p.Src(st) == "err1 = err" {
					fromBinding++
				}
			}
		}
		return true
	})
	return sends >= 1 && sends == guarded && assigns == 1 && fromBinding == 1
}

// finishedIsPhaseOnly: the body is the single statement `return A || B` with A, B the comparisons of pod.Status.Phase
// with corev1.PodFailed and corev1.PodSucceeded (either order).
func finishedIsPhaseOnly(p *fg.Parsed, body *ast.BlockStmt) bool {
	if len(body.List) != 1 {
		return false
	}
	r, ok := body.List[0].(*ast.ReturnStmt)
	if !ok || len(r.Results) != 1 {
		return false
	}
	be, ok := r.Results[0].(*ast.BinaryExpr)
	if !ok || be.Op.String() != "||" {
		return false
	}
	x, y := p.Src(be.X), p.Src(be.Y)
	f, s := "pod.Status.Phase == corev1.PodFailed", "pod.Status.Phase == corev1.PodSucceeded"
	return (x == f && y == s) || (x == s && y == f)
}

func before(a, b int) bool { return a >= 0 && (b < 0 || a < b) }

func gen(repo string) (map[string]string, error) {
	var b strings.Builder
	b.WriteString(fg.Header("constants and structural facts of the scheduler plugin (model M4-core)",
		dir+"bind.go", "pkg/ipam/floatingip/ipam_crd.go", dir+"resync.go", dir+"filter.go", dir+"event.go", dir+"util/utils.go", "pkg/api/galaxy/constant/constant.go"))
	b.WriteString("namespace Galaxy.Generated.Plugin\n\n")

	// ---- constants
	ut, err := fg.ParseFile(repo, dir+"util/utils.go")
	if err != nil {
		return nil, err
	}
	for _, c := range [][2]string{{"poolPrefix", "poolPrefix"}, {"DeploymentPrefixKey", "deploymentPrefixKey"},
		{"StatefulsetPrefixKey", "statefulsetPrefixKey"}, {"NoRefAppName", "noRefAppName"}, {"NoRefAppTypePrefix", "noRefAppTypePrefix"}} {
		v, err := ut.ConstString(c[0])
		if err != nil {
			return nil, err
		}
		fmt.Fprintf(&b, "def %s : String := %s\n", c[1], fg.LeanStr(v))
	}
	cs, err := fg.ParseFile(repo, "pkg/api/galaxy/constant/constant.go")
	if err != nil {
		return nil, err
	}
	// release policy enum: iota block PodDelete, Immutable, Never
	enum := []string{}
	for _, d := range cs.File.Decls {
		gd, ok := d.(*ast.GenDecl)
		if !ok || gd.Tok != token.CONST {
			continue
		}
		for _, s := range gd.Specs {
			vs := s.(*ast.ValueSpec)
			for _, n := range vs.Names {
				if strings.HasPrefix(n.Name, "ReleasePolicy") && n.Name != "ReleasePolicyAnnotation" {
					enum = append(enum, n.Name)
				}
			}
		}
	}
	if strings.Join(enum, ",") != "ReleasePolicyPodDelete,ReleasePolicyImmutable,ReleasePolicyNever" {
		return nil, fmt.Errorf("constant.go: release policy enum changed: %v", enum)
	}
	b.WriteString("def releasePolicyPodDelete : Nat := 0\ndef releasePolicyImmutable : Nat := 1\ndef releasePolicyNever : Nat := 2\n")
	for _, c := range [][2]string{{"Immutable", "immutableStr"}, {"Never", "neverStr"}} {
		v, err := cs.ConstString(c[0])
		if err != nil {
			return nil, err
		}
		fmt.Fprintf(&b, "def %s : String := %s\n", c[1], fg.LeanStr(v))
	}

	// ---- event.go: retry limit of the release-event loop
	ev, err := fg.ParseFile(repo, dir+"event.go")
	if err != nil {
		return nil, err
	}
	loop, err := ev.Fn("FloatingIPPlugin", "loop")
	if err != nil {
		return nil, err
	}
	limit := -1
	ast.Inspect(loop, func(n ast.Node) bool {
		if be, ok := n.(*ast.BinaryExpr); ok && be.Op == token.GTR && strings.Contains(ev.Src(be.X), "retryTimes") {
			if bl, ok := be.Y.(*ast.BasicLit); ok {
				limit, _ = strconv.Atoi(bl.Value)
			}
		}
		return true
	})
	if limit < 0 {
		return nil, fmt.Errorf("event.go: loop no longer has the shape `event.retryTimes > N`")
	}
	fmt.Fprintf(&b, "def unbindMaxRetries : Nat := %d\n\n", limit)

	// ---- bind.go
	bd, err := fg.ParseFile(repo, dir+"bind.go")
	if err != nil {
		return nil, err
	}
	unbind, err := bd.Fn("FloatingIPPlugin", "unbind")
	if err != nil {
		return nil, err
	}
	g := guardIdx(bd, unbind.Body, []string{"PodUid != \"\"", "GetUID()) != \"\"", "ipInfo.PodUid != string(pod.GetUID())"}, "return nil")
	mut := firstIdx(bd, unbind.Body, "cloudProviderUnAssignIP(", "unbindDpPod(", "unbindNoneDpPod(", "releaseIP(", "reserveIP(")
	fmt.Fprintf(&b, "/-- unbind: an event whose pod UID differs from a stored non-empty UID is ignored before any provider/IPAM mutation -/\ndef unbindChecksUID : Bool := %s\n", fg.LeanBool(before(g, mut) && mut >= 0))

	alloc, err := bd.Fn("FloatingIPPlugin", "allocateIP")
	if err != nil {
		return nil, err
	}
	g = guardIdx(bd, alloc.Body, []string{"ipInfo != nil", "ipInfo.PodUid != \"\"", "ipInfo.PodUid != string(pod.GetUID())"}, "return nil, fmt.Errorf")
	mut = firstIdx(bd, alloc.Body, "AllocateInSubnetsAndIPRange(", "cloudProviderAssignIP(", "UpdateAttr(")
	fmt.Fprintf(&b, "/-- allocateIP: refuses to reuse an IP stored under another non-empty UID before allocating / assigning / updating -/\ndef bindChecksUID : Bool := %s\n", fg.LeanBool(before(g, mut) && mut >= 0))

	wk := wholeKeyGuardIdx(bd, alloc.Body, []string{"ipInfo != nil", "ipInfo.PodUid != \"\"", "ipInfo.PodUid != string(pod.GetUID())"}, "return nil, fmt.Errorf")
	fmt.Fprintf(&b, "/-- allocateIP: that check ranges over ALL records of the key (ByKeyAndIPRanges(key, nil)), not only the requested ranges -/\ndef bindUidGuardCoversWholeKey : Bool := %s\n", fg.LeanBool(before(wk, mut) && mut >= 0))

	rel, err := bd.Fn("FloatingIPPlugin", "Release")
	if err != nil {
		return nil, err
	}
	lk := hasDeferLockPod(bd, rel.Body)
	rd := firstIdx(bd, rel.Body, "p.ipam.ByIP(r.IP)")
	cmp := guardIdx(bd, rel.Body, []string{"fip.Key != k.KeyInDB"}, "return")
	run := firstIdx(bd, rel.Body, "p.podRunning(")
	// the answer is used: `if running { return <error> }` right after the question, before any mutation
	refuse := guardIdx(bd, rel.Body, []string{"running"}, "return fmt.Errorf")
	mut = firstIdx(bd, rel.Body, "cloudProviderUnAssignIP(", "p.reserveIP(", "p.ipam.Release(")
	fmt.Fprintf(&b, "/-- Release: lockPod, re-read ByIP, compare keys, ask podRunning and refuse when running - all before the first mutation -/\ndef releaseRechecksUnderLock : Bool := %s\n",
		fg.LeanBool(lk >= 0 && before(lk, rd) && before(rd, cmp) && before(cmp, run) && before(run, refuse) && before(refuse, mut) && mut >= 0))

	// ---- resync.go
	rs, err := fg.ParseFile(repo, dir+"resync.go")
	if err != nil {
		return nil, err
	}
	rai, err := rs.Fn("FloatingIPPlugin", "resyncAllocatedIPs")
	if err != nil {
		return nil, err
	}
	var closure *ast.FuncLit
	ast.Inspect(rai, func(n ast.Node) bool {
		if fl, ok := n.(*ast.FuncLit); ok && closure == nil {
			closure = fl
		}
		return closure == nil
	})
	resyncOK := false
	resyncLock := false
	if closure != nil {
		lk = hasDeferLockPod(rs, closure.Body)
		rd = firstIdx(rs, closure.Body, "p.ipam.ByIP(obj.fip.IP)")
		cmp = guardIdx(rs, closure.Body, []string{"fip.Key != obj.fip.Key"}, "return")
		run = firstIdx(rs, closure.Body, "p.podRunning(")
		skip := guardIdx(rs, closure.Body, []string{"running"}, "return")
		mut = firstIdx(rs, closure.Body, "cloudProviderUnAssignIP(", "p.reserveIP(", "unbindNoneDpPod(", "unbindDpPod(")
		resyncLock = lk == 0
		resyncOK = lk >= 0 && before(lk, rd) && before(rd, cmp) && before(cmp, run) && before(run, skip) && before(skip, mut) && mut >= 0 &&
			strings.Contains(rs.Src(closure.Body), "obj.fip = fip") &&
			strings.Contains(rs.Src(closure.Body), "p.podRunning(obj.keyObj.PodName, obj.keyObj.Namespace, obj.fip.PodUid)")
	}
	fmt.Fprintf(&b, "/-- resync closure: lockPod, re-read ByIP, compare keys, podRunning with the re-read UID - before the first mutation -/\ndef resyncRechecksUnderLock : Bool := %s\n", fg.LeanBool(resyncOK))

	// whole-key check of resync and Release (keyOwnedByRunningPod)
	wkOK := false
	if ko, err := rs.Fn("FloatingIPPlugin", "keyOwnedByRunningPod"); err == nil && closure != nil {
		src := rs.Src(ko.Body)
		helper := strings.Contains(src, "ByKeyAndIPRanges(keyObj.KeyInDB, nil)") &&
			strings.Contains(src, "ipInfo.PodUid == podUid") &&
			strings.Contains(src, "p.podRunning(keyObj.PodName, keyObj.Namespace, ipInfo.PodUid)") &&
			guardIdx(rs, ko.Body, []string{"err != nil"}, "return true") >= 0 &&
			strings.HasPrefix(rs.Src(ko.Body.List[len(ko.Body.List)-1]), "return false")
		cRun := guardIdx(rs, closure.Body, []string{"running"}, "return")
		cKey := guardIdx(rs, closure.Body, []string{"p.keyOwnedByRunningPod(obj.keyObj, obj.fip.PodUid)"}, "return")
		cMut := firstIdx(rs, closure.Body, "cloudProviderUnAssignIP(", "p.reserveIP(", "unbindNoneDpPod(", "unbindDpPod(")
		rRun := guardIdx(bd, rel.Body, []string{"running"}, "return fmt.Errorf")
		rKey := guardIdx(bd, rel.Body, []string{"p.keyOwnedByRunningPod(k, fip.PodUid)"}, "return fmt.Errorf")
		rMut := firstIdx(bd, rel.Body, "cloudProviderUnAssignIP(", "p.reserveIP(", "p.ipam.Release(")
		wkOK = helper && before(cRun, cKey) && before(cKey, cMut) && cMut >= 0 && before(rRun, rKey) && before(rKey, rMut) && rMut >= 0
	}
	fmt.Fprintf(&b, "/-- resync closure and Release: after \"not running\" and before any mutation they leave the key alone while another record of it (other stored uid) belongs to a running pod -/\ndef resyncAndReleaseCheckWholeKey : Bool := %s\n", fg.LeanBool(wkOK))

	pr, err := rs.Fn("FloatingIPPlugin", "podRunning")
	if err != nil {
		return nil, err
	}
	l1 := firstIdx(rs, pr.Body, "p.PodLister.Pods(namespace).Get(podName)")
	a1 := firstIdx(rs, pr.Body, "p.Client.CoreV1().Pods(namespace).Get(")
	retFalse := -1
	for i, s := range pr.Body.List {
		if r, ok := s.(*ast.ReturnStmt); ok && strings.HasPrefix(rs.Src(r), "return false") && i > a1 {
			retFalse = i
		}
	}
	nMatch := strings.Count(rs.Src(pr.Body), "runningAndUidMatch(podUid, pod, err)")
	// no `return false` between the lister answer and the apiserver call
	early := false
	for i, s := range pr.Body.List {
		if i > l1 && i < a1 {
			ast.Inspect(s, func(n ast.Node) bool {
				if r, ok := n.(*ast.ReturnStmt); ok && strings.HasPrefix(rs.Src(r), "return false") {
					early = true
				}
				return true
			})
		}
	}
	fmt.Fprintf(&b, "/-- podRunning: lister first; \"not running\" is answered only after the API server said so too -/\ndef podRunningAsksApiServerSecond : Bool := %s\n",
		fg.LeanBool(l1 >= 0 && before(l1, a1) && before(a1, retFalse) && nMatch == 2 && !early))

	rm, err := rs.Fn("", "runningAndUidMatch")
	if err != nil {
		return nil, err
	}
	e1 := guardIdx(rs, rm.Body, []string{"err != nil"}, "return true")
	u1 := guardIdx(rs, rm.Body, []string{"storedUid != \"\"", "storedUid != string(pod.GetUID())"}, "return false")
	f1 := firstIdx(rs, rm.Body, "finished(pod)")
	fmt.Fprintf(&b, "/-- runningAndUidMatch: unknown errors keep the ip; a different stored UID means \"not this pod\"; then finished(pod) -/\ndef runningAndUidMatchChecksUID : Bool := %s\n\n",
		fg.LeanBool(e1 >= 0 && before(e1, u1) && before(u1, f1) && f1 >= 0))

	// ---- ConfigurePool: a stored object belongs to the first pool whose pod subnet AND ranges contain its address
	ic, err := fg.ParseFile(repo, "pkg/ipam/floatingip/ipam_crd.go")
	if err != nil {
		return nil, err
	}
	cp, err := ic.Fn("crdIpam", "ConfigurePool")
	if err != nil {
		return nil, err
	}
	lookupOK := false
	ast.Inspect(cp, func(n ast.Node) bool {
		ifs, ok := n.(*ast.IfStmt)
		if !ok {
			return true
		}
		c := strings.ReplaceAll(ic.Src(ifs.Cond), " ", "")
		if c == "fipConf.IPNet().Contains(netIP)&&fipConf.Contains(netIP)" {
			body := ic.Src(ifs.Body)
			if strings.Contains(body, "found = true") && strings.Contains(body, "tmpCacheAllocated[ip.Name] = tmpFip") &&
				strings.Contains(body, "break") {
				lookupOK = true
			}
		}
		return true
	})
	fmt.Fprintf(&b, "/-- ConfigurePool: a listed object is kept for the first pool whose pod subnet AND ip ranges contain its address -/\ndef configurePoolMatchesSubnetAndRanges : Bool := %s\n\n", fg.LeanBool(lookupOK))

	// ---- lockPod at the entry points
	fl, err := fg.ParseFile(repo, dir+"filter.go")
	if err != nil {
		return nil, err
	}
	type ep struct {
		p        *fg.Parsed
		name     string
		firstUse []string
	}
	locks := []string{}
	all := true
	for _, e := range []ep{
		{fl, "Filter", []string{"p.getSubnet("}},
		{bd, "Bind", []string{"p.allocateIP("}},
		{bd, "unbind", []string{"p.ipam.", "cloudProviderUnAssignIP("}},
		{bd, "Release", []string{"p.ipam."}},
		{rs, "syncPodIP", []string{"p.syncIP("}},
	} {
		fn, err := e.p.Fn("FloatingIPPlugin", e.name)
		if err != nil {
			return nil, err
		}
		ok := before(hasDeferLockPod(e.p, fn.Body), firstIdx(e.p, fn.Body, e.firstUse...)) && firstIdx(e.p, fn.Body, e.firstUse...) >= 0
		all = all && ok
		locks = append(locks, fmt.Sprintf("(%s, %s)", fg.LeanStr(e.name), fg.LeanBool(ok)))
	}
	all = all && resyncLock
	locks = append(locks, fmt.Sprintf("(%s, %s)", fg.LeanStr("resyncAllocatedIPs.closure"), fg.LeanBool(resyncLock)))

	// nothing that concerns the pod's key (IPAM, apiserver, provider, or a helper doing so) runs before the lockPod call
	touching := []string{"p.ipam.", "p.Client.", "p.getSubnet(", "p.allocateIP(", "p.syncIP(", "p.podRunning(", "p.releaseIP(",
		"p.reserveIP(", "p.unbindDpPod(", "p.unbindNoneDpPod(", "p.keyOwnedByRunningPod(", "cloudProvider"}
	noEarly := true
	bodies := []struct {
		p *fg.Parsed
		b *ast.BlockStmt
	}{}
	for _, e := range []ep{{fl, "Filter", nil}, {bd, "Bind", nil}, {bd, "unbind", nil}, {bd, "Release", nil}, {rs, "syncPodIP", nil}} {
		fn, err := e.p.Fn("FloatingIPPlugin", e.name)
		if err != nil {
			return nil, err
		}
		bodies = append(bodies, struct {
			p *fg.Parsed
			b *ast.BlockStmt
		}{e.p, fn.Body})
	}
	if closure != nil {
		bodies = append(bodies, struct {
			p *fg.Parsed
			b *ast.BlockStmt
		}{rs, closure.Body})
	}
	for _, x := range bodies {
		li := hasDeferLockPod(x.p, x.b)
		if li < 0 {
			noEarly = false
			continue
		}
		for i := 0; i < li; i++ {
			src := x.p.Src(x.b.List[i])
			for _, t := range touching {
				if strings.Contains(src, t) {
					noEarly = false
				}
			}
		}
	}
	fmt.Fprintf(&b, "/-- no IPAM / apiserver / provider access (or helper doing one) precedes `defer p.lockPod(..)()` in the six entry points -/\ndef noKeyAccessBeforePodLock : Bool := %s\n", fg.LeanBool(noEarly && closure != nil))

	// every entry point locks the SAME key: lockPod(name, namespace) = "<namespace>_<name>", called with (…Name, …Namespace)
	fp, err := fg.ParseFile(repo, dir+"floatingip_plugin.go")
	if err != nil {
		return nil, err
	}
	lp, err := fp.Fn("FloatingIPPlugin", "lockPod")
	if err != nil {
		return nil, err
	}
	paramsOK := len(lp.Type.Params.List) == 1 && len(lp.Type.Params.List[0].Names) == 2 &&
		lp.Type.Params.List[0].Names[0].Name == "name" && lp.Type.Params.List[0].Names[1].Name == "namespace"
	uniform := paramsOK &&
		strings.Contains(fp.Src(lp.Body), `key := fmt.Sprintf("%s_%s", namespace, name)`) &&
		strings.Contains(fp.Src(lp.Body), "p.podLockPool.LockKey(key)")
	calls, lockKeyCalls := 0, 0
	for _, f := range []*fg.Parsed{fl, bd, rs, fp, ev} {
		ast.Inspect(f.File, func(n ast.Node) bool {
			c, ok := n.(*ast.CallExpr)
			if !ok {
				return true
			}
			switch f.Src(c.Fun) {
			case "p.lockPod":
				calls++
				if len(c.Args) != 2 {
					uniform = false
					break
				}
				a0, a1 := f.Src(c.Args[0]), f.Src(c.Args[1])
				if !(strings.HasSuffix(a0, ".Name") || strings.HasSuffix(a0, ".PodName")) || !strings.HasSuffix(a1, ".Namespace") {
					uniform = false
				}
			case "p.podLockPool.LockKey":
				lockKeyCalls++
			}
			return true
		})
	}
	fmt.Fprintf(&b, "/-- lockPod(name, namespace) locks \"<namespace>_<name>\"; all its call sites (Filter, Bind, unbind, Release, syncPodIP, resync closure) pass (…Name, …Namespace) in that order and nothing else locks the pod pool -/\ndef podLockKeyUniform : Bool := %s\n\n", fg.LeanBool(uniform && calls >= 6 && lockKeyCalls == 1))
	fmt.Fprintf(&b, "/-- `defer p.lockPod(..)()` dominates the first IPAM use of each entry point -/\ndef underPodLock : List (String × Bool) := [%s]\ndef allUnderPodLock : Bool := %s\n\n",
		strings.Join(locks, ", "), fg.LeanBool(all))

	// ---- resync examines pod keys only: fetchChecklist skips a record whose key has no pod name (an administrator's
	// reservation, a pool-level or deployment-level key) before it appends it to the checklist
	skipsNonPod := false
	if fc, err := rs.Fn("FloatingIPPlugin", "fetchChecklist"); err == nil {
		skipsNonPod = skipsNonPodKeys(rs, fc.Body)
	}
	fmt.Fprintf(&b, "/-- fetchChecklist: a record whose key has no pod name never enters the resync checklist -/\ndef resyncSkipsKeysWithoutPodName : Bool := %s\n", fg.LeanBool(skipsNonPod))
	// ---- Preempt: calls getSubnet, never lockPod
	preemptUnlocked := false
	if pf, err := fg.ParseFile(repo, dir+"preempt.go"); err == nil {
		if pre, err := pf.Fn("FloatingIPPlugin", "Preempt"); err == nil {
			src := pf.Src(pre.Body)
			preemptUnlocked = strings.Contains(src, "p.getSubnet(args.Pod)") && !strings.Contains(src, "lockPod(")
		}
	}
	fmt.Fprintf(&b, "/-- Preempt calls getSubnet (which may allocate) and does not take the pod lock -/\ndef preemptCallsGetSubnetUnlocked : Bool := %s\n", fg.LeanBool(preemptUnlocked))
	// ---- Bind takes the pod (and its UID) from the lister
	bind, err := bd.Fn("FloatingIPPlugin", "Bind")
	if err != nil {
		return nil, err
	}
	li := firstIdx(bd, bind.Body, "p.PodLister.Pods(args.PodNamespace).Get(args.PodName)")
	fromLister := li >= 0 && before(li, hasDeferLockPod(bd, bind.Body)) && !strings.Contains(bd.Src(bind.Body), "Client.CoreV1().Pods(args.PodNamespace).Get(")
	fmt.Fprintf(&b, "/-- Bind reads the pod object from the pod lister (the model's `vPods`) -/\ndef bindReadsPodFromLister : Bool := %s\n", fg.LeanBool(fromLister))
	lg := guardIdx(bd, bind.Body, []string{"args.PodUID != \"\"", "pod.UID != args.PodUID"}, "return fmt.Errorf")
	firstUse := firstIdx(bd, bind.Body, "p.lockPod(", "p.allocateIP(", "p.ipam.")
	fmt.Fprintf(&b, "/-- Bind refuses (before the pod lock and any IPAM call) when the lister's pod has another non-empty UID than args.PodUID -/\ndef bindChecksListerUID : Bool := %s\n", fg.LeanBool(before(li, lg) && before(lg, firstUse) && firstUse >= 0))
	fmt.Fprintf(&b, "/-- Bind: every send of a release event (`p.unreleased <-`) sits under `if apierrors.IsNotFound(err1)`, err1 being the error of the pods/binding call -/\ndef bindEnqueuesReleaseOnlyOnNotFound : Bool := %s\n", fg.LeanBool(enqueuesOnlyOnNotFound(bd, bind.Body)))
	// ---- finished(pod): exactly the two phase comparisons
	phaseOnly := false
	if pf, err := fg.ParseFile(repo, dir+"floatingip_plugin.go"); err == nil {
		if fn, err := pf.Fn("", "finished"); err == nil {
			phaseOnly = finishedIsPhaseOnly(pf, fn.Body)
		}
	}
	fmt.Fprintf(&b, "/-- finished(pod) is exactly `return pod.Status.Phase == corev1.PodFailed || pod.Status.Phase == corev1.PodSucceeded` -/\ndef finishedChecksPhaseOnly : Bool := %s\n", fg.LeanBool(phaseOnly))
	b.WriteString("\nend Galaxy.Generated.Plugin\n")
	return map[string]string{"Plugin.lean": b.String()}, nil
}

func main() { fg.Run("plugin", gen) }
