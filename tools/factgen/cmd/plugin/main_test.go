package main

import (
	"go/ast"
	"os"
	"path/filepath"
	"testing"

	"factgen/fg"
)

func parseBody(t *testing.T, src string) (*fg.Parsed, *ast.BlockStmt) {
	t.Helper()
	dir := t.TempDir()
	if err := os.WriteFile(filepath.Join(dir, "x.go"), []byte("package x\n"+src), 0o644); err != nil {
		t.Fatal(err)
	}
	p, err := fg.ParseFile(dir, "x.go")
	if err != nil {
		t.Fatal(err)
	}
	fn, err := p.Fn("", "f")
	if err != nil {
		t.Fatal(err)
	}
	return p, fn.Body
}

var uidConds = []string{"ipInfo != nil", `ipInfo.PodUid != ""`, "ipInfo.PodUid != string(pod.GetUID())"}

func TestWholeKeyGuard(t *testing.T) {
	// the fixed shape: the guard ranges over the result of ByKeyAndIPRanges(key, nil)
	p, b := parseBody(t, `func f() (int, error) {
	ipInfos, err := ipam.ByKeyAndIPRanges(key, ipranges)
	allIPInfos, err := ipam.ByKeyAndIPRanges(key, nil)
	for _, ipInfo := range allIPInfos {
		if ipInfo != nil && ipInfo.PodUid != "" && ipInfo.PodUid != string(pod.GetUID()) {
			return nil, fmt.Errorf("waiting")
		}
	}
	ipam.AllocateInSubnetsAndIPRange(key)
	return 0, nil
}`)
	if g := wholeKeyGuardIdx(p, b, uidConds, "return nil, fmt.Errorf"); g != 2 {
		t.Fatalf("whole-key guard not recognised: %d", g)
	}
	if g := guardIdx(p, b, uidConds, "return nil, fmt.Errorf"); !before(g, firstIdx(p, b, "AllocateInSubnetsAndIPRange(")) {
		t.Fatalf("guard must precede the allocation")
	}
	// the pre-fix shape: the guard only sees the records found for the requested ranges
	p, b = parseBody(t, `func f() (int, error) {
	ipInfos, err := ipam.ByKeyAndIPRanges(key, ipranges)
	for _, ipInfo := range ipInfos {
		if ipInfo != nil && ipInfo.PodUid != "" && ipInfo.PodUid != string(pod.GetUID()) {
			return nil, fmt.Errorf("waiting")
		}
	}
	return 0, nil
}`)
	if g := wholeKeyGuardIdx(p, b, uidConds, "return nil, fmt.Errorf"); g != -1 {
		t.Fatalf("narrow guard accepted as whole-key guard: %d", g)
	}
	if g := guardIdx(p, b, uidConds, "return nil, fmt.Errorf"); g != 1 {
		t.Fatalf("narrow guard not found by guardIdx: %d", g)
	}
}

func TestGuardOrder(t *testing.T) {
	// a guard that comes after the first mutation does not count
	p, b := parseBody(t, `func f() error {
	cloudProviderUnAssignIP(x)
	for _, ipInfo := range ipInfos {
		if ipInfo.PodUid != "" && string(pod.GetUID()) != "" && ipInfo.PodUid != string(pod.GetUID()) {
			return nil
		}
	}
	return nil
}`)
	g := guardIdx(p, b, []string{`PodUid != ""`, "ipInfo.PodUid != string(pod.GetUID())"}, "return nil")
	m := firstIdx(p, b, "cloudProviderUnAssignIP(")
	if g != 1 || m != 0 || before(g, m) {
		t.Fatalf("g=%d m=%d before=%v", g, m, before(g, m))
	}
	// a guard whose body does not return is no guard
	p, b = parseBody(t, `func f() error {
	if args.PodUID != "" && pod.UID != args.PodUID {
		log("mismatch")
	}
	defer p.lockPod(a, b)()
	return nil
}`)
	if g := guardIdx(p, b, []string{`args.PodUID != ""`, "pod.UID != args.PodUID"}, "return fmt.Errorf"); g != -1 {
		t.Fatalf("non-returning if accepted: %d", g)
	}
	if hasDeferLockPod(p, b) != 1 {
		t.Fatalf("defer lockPod not found")
	}
}

func TestSkipsNonPodKeys(t *testing.T) {
	good := `func f() error {
	for i := range all {
		fip := all[i]
		keyObj := util.ParseKey(fip.Key)
		if keyObj.PodName == "" {
			continue
		}
		meta.allocatedIPs = append(meta.allocatedIPs, resyncObj{keyObj: keyObj, fip: fip.FloatingIP})
	}
	return nil
}`
	p, b := parseBody(t, good)
	if !skipsNonPodKeys(p, b) {
		t.Fatalf("skip not recognised")
	}
	// the skip comes after the append
	p, b = parseBody(t, `func f() error {
	for i := range all {
		fip := all[i]
		keyObj := util.ParseKey(fip.Key)
		meta.allocatedIPs = append(meta.allocatedIPs, resyncObj{keyObj: keyObj, fip: fip.FloatingIP})
		if keyObj.PodName == "" {
			continue
		}
	}
	return nil
}`)
	if skipsNonPodKeys(p, b) {
		t.Fatalf("late skip accepted")
	}
	// the if does not skip
	p, b = parseBody(t, `func f() error {
	for i := range all {
		fip := all[i]
		keyObj := util.ParseKey(fip.Key)
		if keyObj.PodName == "" {
			log("no pod name")
		}
		meta.allocatedIPs = append(meta.allocatedIPs, resyncObj{keyObj: keyObj, fip: fip.FloatingIP})
	}
	return nil
}`)
	if skipsNonPodKeys(p, b) {
		t.Fatalf("non-skipping if accepted")
	}
	// no skip at all
	p, b = parseBody(t, `func f() error {
	for i := range all {
		fip := all[i]
		keyObj := util.ParseKey(fip.Key)
		meta.allocatedIPs = append(meta.allocatedIPs, resyncObj{keyObj: keyObj, fip: fip.FloatingIP})
	}
	return nil
}`)
	if skipsNonPodKeys(p, b) {
		t.Fatalf("missing skip accepted")
	}
}

func TestEnqueuesOnlyOnNotFound(t *testing.T) {
	tmpl := func(cond string, extra string) string {
		return `func f() error {
	var err1 error
	if err := wait.PollImmediate(a, b, func() (bool, error) {
		if err := p.Client.CoreV1().Pods(args.PodNamespace).Bind(context.TODO(), &corev1.Binding{
			Target: corev1.ObjectReference{Kind: "Node", Name: args.Node},
		}, v1.CreateOptions{}); err != nil {
			err1 = err
			if apierrors.IsNotFound(err) {
				return false, err
			}
			return false, nil
		}
		return true, nil
	}); err != nil {
		if ` + cond + ` {
			p.unreleased <- &releaseEvent{pod: pod}
		}
		` + extra + `
		return fmt.Errorf("update pod: %w", err1)
	}
	return nil
}`
	}
	p, b := parseBody(t, tmpl("apierrors.IsNotFound(err1)", ""))
	if !enqueuesOnlyOnNotFound(p, b) {
		t.Fatalf("original shape not recognised")
	}
	// a helper that also accepts Conflict
	p, b = parseBody(t, tmpl("podGone(err1)", ""))
	if enqueuesOnlyOnNotFound(p, b) {
		t.Fatalf("helper condition accepted")
	}
	p, b = parseBody(t, tmpl("apierrors.IsNotFound(err1) || apierrors.IsConflict(err1)", ""))
	if enqueuesOnlyOnNotFound(p, b) {
		t.Fatalf("wider condition accepted")
	}
	// a second, unguarded send
	p, b = parseBody(t, tmpl("apierrors.IsNotFound(err1)", "p.unreleased <- &releaseEvent{pod: pod}"))
	if enqueuesOnlyOnNotFound(p, b) {
		t.Fatalf("unguarded send accepted")
	}
	// err1 assigned from somewhere else as well
	p, b = parseBody(t, tmpl("apierrors.IsNotFound(err1)", "err1 = other"))
	if enqueuesOnlyOnNotFound(p, b) {
		t.Fatalf("second assignment of err1 accepted")
	}
}

func TestFinishedIsPhaseOnly(t *testing.T) {
	p, b := parseBody(t, `func f(pod *corev1.Pod) bool {
	return pod.Status.Phase == corev1.PodFailed || pod.Status.Phase == corev1.PodSucceeded
}`)
	if !finishedIsPhaseOnly(p, b) {
		t.Fatalf("original shape not recognised")
	}
	p, b = parseBody(t, `func f(pod *corev1.Pod) bool {
	if pod.DeletionTimestamp != nil {
		return true
	}
	return pod.Status.Phase == corev1.PodFailed || pod.Status.Phase == corev1.PodSucceeded
}`)
	if finishedIsPhaseOnly(p, b) {
		t.Fatalf("deletionTimestamp variant accepted")
	}
	p, b = parseBody(t, `func f(pod *corev1.Pod) bool {
	return pod.Status.Phase == corev1.PodFailed || pod.Status.Phase == corev1.PodSucceeded || pod.DeletionTimestamp != nil
}`)
	if finishedIsPhaseOnly(p, b) {
		t.Fatalf("three-way disjunction accepted")
	}
	p, b = parseBody(t, `func f(pod *corev1.Pod) bool {
	return pod.Status.Phase == corev1.PodFailed
}`)
	if finishedIsPhaseOnly(p, b) {
		t.Fatalf("single comparison accepted")
	}
}
