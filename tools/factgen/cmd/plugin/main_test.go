package main

import (
	"os"
	"os/exec"
	"path/filepath"
	"sort"
	"strings"
	"testing"

	"factgen/fg"
)

// parse writes the snippet (function declarations) into a file and returns the parsed file.
func parse(t *testing.T, src string) *fg.Parsed {
	t.Helper()
	dir := t.TempDir()
	if err := os.WriteFile(filepath.Join(dir, "x.go"), []byte("package x\n"+src), 0o644); err != nil {
		t.Fatal(err)
	}
	p, err := fg.ParseFile(dir, "x.go")
	if err != nil {
		t.Fatal(err)
	}
	return p
}

func traceOf(t *testing.T, src, recv, name string) *Trace {
	t.Helper()
	p := parse(t, src)
	fd, err := p.Fn(recv, name)
	if err != nil {
		t.Fatal(err)
	}
	return NormaliseFunc(fd, []*fg.Parsed{p})
}

// shape: the trace without the bookkeeping - kind, text and the loop-relative path condition of every event
func shape(tr *Trace) string {
	var b strings.Builder
	for _, e := range tr.Events {
		if e.Kind == "call" && (strings.HasPrefix(e.Text, "P") || strings.HasPrefix(e.Text, "el(")) && strings.HasSuffix(e.Text, "()") {
			continue // getters
		}
		b.WriteString(e.Kind + " " + e.Text + " | " + strings.Join(relConds(e.Path, e.LoopStart), " & ") + "\n")
	}
	return b.String()
}

const unbindHead = `
func (p *T) unbind(pod *Pod) error {
	defer p.lockPod(pod.Name, pod.Namespace)()
	keyObj, err := util.FormatKey(pod)
	if err != nil {
		return err
	}
	key := keyObj.KeyInDB
	ipInfos, err := p.ipam.ByKeyAndIPRanges(key, nil)
	if err != nil {
		return fmt.Errorf("query floating ip by key %s: %v", key, err)
	}
`
const unbindTail = `
	if p.cloudProvider != nil {
		for _, ipInfo := range ipInfos {
			if err = p.cloudProviderUnAssignIP(&Req{NodeName: ipInfo.NodeName}); err != nil {
				return fmt.Errorf("failed to unassign ip")
			}
		}
	}
	return p.unbindNoneDpPod(keyObj, policy, "during unbinding pod")
}
`

func TestUnbindGuardVariants(t *testing.T) {
	accepted := map[string]string{
		"original": `
	for _, ipInfo := range ipInfos {
		if ipInfo.PodUid != "" && string(pod.GetUID()) != "" && ipInfo.PodUid != string(pod.GetUID()) {
			glog.Infof("ignore unbind event of pod %s", key)
			return nil
		}
	}`,
		"hoisted conversion, named booleans, other names (H05)": `
	podUid := string(pod.GetUID())
	for _, info := range ipInfos {
		bothUidsKnown := info.PodUid != "" && podUid != ""
		uidMismatch := info.PodUid != podUid
		if bothUidsKnown && uidMismatch {
			glog.Infof("ignoring unbind event of pod %s (uid %s)", key, podUid)
			return nil
		}
	}`,
		"nested ifs, commuted operands": `
	for _, ipInfo := range ipInfos {
		if "" != ipInfo.PodUid {
			if string(pod.GetUID()) != ipInfo.PodUid && "" != string(pod.GetUID()) {
				return nil
			}
		}
	}`,
		"guard clauses": `
	uid := string(pod.GetUID())
	for _, ipInfo := range ipInfos {
		if ipInfo.PodUid == "" {
			continue
		}
		if uid == "" {
			continue
		}
		if ipInfo.PodUid == uid {
			continue
		}
		return nil
	}`,
		"index loop, negated equality": `
	for i := range ipInfos {
		ipInfo := ipInfos[i]
		if ipInfo.PodUid != "" && string(pod.GetUID()) != "" && !(ipInfo.PodUid == string(pod.GetUID())) {
			return nil
		}
	}`,
		"extracted boolean helper": `
	if p.staleEvent(ipInfos, pod) {
		glog.Infof("ignore")
		return nil
	}`,
	}
	helper := `
func (p *T) staleEvent(infos []*Info, pod *Pod) bool {
	uid := string(pod.GetUID())
	for _, in := range infos {
		if in.PodUid != "" && uid != "" && in.PodUid != uid {
			return true
		}
	}
	return false
}
`
	for name, loop := range accepted {
		tr := traceOf(t, unbindHead+loop+unbindTail+helper, "T", "unbind")
		if !unbindUidGuard(tr) {
			t.Errorf("%s: guard not recognised", name)
		}
	}
	rejected := map[string]string{
		"no guard": ``,
		"a conjunct dropped": `
	for _, ipInfo := range ipInfos {
		if ipInfo.PodUid != "" && ipInfo.PodUid != string(pod.GetUID()) {
			return nil
		}
	}`,
		"operator changed": `
	for _, ipInfo := range ipInfos {
		if ipInfo.PodUid != "" && string(pod.GetUID()) != "" && ipInfo.PodUid == string(pod.GetUID()) {
			return nil
		}
	}`,
		"weakened by an extra condition": `
	for _, ipInfo := range ipInfos {
		if p.strict && ipInfo.PodUid != "" && string(pod.GetUID()) != "" && ipInfo.PodUid != string(pod.GetUID()) {
			return nil
		}
	}`,
		"weakened by an earlier skip": `
	for _, ipInfo := range ipInfos {
		if ipInfo.NodeName == "" {
			continue
		}
		if ipInfo.PodUid != "" && string(pod.GetUID()) != "" && ipInfo.PodUid != string(pod.GetUID()) {
			return nil
		}
	}`,
		"does not exit": `
	for _, ipInfo := range ipInfos {
		if ipInfo.PodUid != "" && string(pod.GetUID()) != "" && ipInfo.PodUid != string(pod.GetUID()) {
			glog.Infof("stale")
		}
	}`,
		"compares another field": `
	for _, ipInfo := range ipInfos {
		if ipInfo.PodUid != "" && string(pod.GetUID()) != "" && ipInfo.NodeName != string(pod.GetUID()) {
			return nil
		}
	}`,
		"ranges over other records": `
	others, _ := p.ipam.ByKeyAndIPRanges(key, pod.ranges)
	for _, ipInfo := range others {
		if ipInfo.PodUid != "" && string(pod.GetUID()) != "" && ipInfo.PodUid != string(pod.GetUID()) {
			return nil
		}
	}`,
		"helper that hides a weaker guard": `
	if p.staleEvent2(ipInfos, pod) {
		return nil
	}`,
	}
	helper2 := `
func (p *T) staleEvent2(infos []*Info, pod *Pod) bool {
	for _, in := range infos {
		if in.PodUid != "" && in.PodUid != string(pod.GetUID()) {
			return true
		}
	}
	return false
}
`
	for name, loop := range rejected {
		tr := traceOf(t, unbindHead+loop+unbindTail+helper2, "T", "unbind")
		if unbindUidGuard(tr) {
			t.Errorf("%s: accepted", name)
		}
	}
	// the guard after the first mutation does not count
	moved := strings.Replace(unbindHead+unbindTail, "\treturn p.unbindNoneDpPod(", accepted["original"]+"\n\treturn p.unbindNoneDpPod(", 1)
	if unbindUidGuard(traceOf(t, moved, "T", "unbind")) {
		t.Errorf("guard behind the provider call accepted")
	}
}

func TestEquivalentForms(t *testing.T) {
	pairs := [][2]string{
		{ // if / else  ==  guard clause + fallthrough
			`func f(a *A) (bool, string) {
	if !done(a) {
		return true, ""
	} else {
		return false, "pod finished"
	}
}`,
			`func f(pod *A) (bool, string) {
	if done(pod) {
		return false, "pod finished"
	}
	return true, ""
}`},
		{ // switch  ==  if / else-if chain; else dropped after a branch that returns
			`func (p *T) f(k *K, policy int) error {
	key, prefixKey := k.KeyInDB, k.PoolPrefix()
	if policy == PodDelete {
		return p.releaseIP(key, fmt.Sprintf("%s %s", a, b))
	} else if policy == Never {
		if key != prefixKey {
			return p.reserveIP(key, prefixKey, "never")
		}
		return nil
	}
	n, err := p.count(k)
	if err != nil {
		return err
	}
	if n > 3 {
		return p.releaseIP(key, "x")
	} else {
		if key != prefixKey {
			return p.reserveIP(key, prefixKey, "y")
		}
	}
	return nil
}`,
			`func (q *T) f(keyObj *K, pol int) error {
	key, prefixKey := keyObj.KeyInDB, keyObj.PoolPrefix()
	switch pol {
	case PodDelete:
		return q.releaseIP(key, a+" "+b)
	case Never:
		if key != prefixKey {
			return q.reserveIP(key, prefixKey, "never")
		}
		return nil
	}
	// any other policy
	replicas, err := q.count(keyObj)
	if err != nil {
		return err
	}
	if replicas > 3 {
		return q.releaseIP(key, "x")
	}
	if key != prefixKey {
		return q.reserveIP(key, prefixKey, "y")
	}
	return nil
}`},
		{ // index loop + element copy  ==  value loop; pointer to the element hoisted; log lines and error texts differ
			`func (p *T) f(nodes []N, set S) ([]N, M) {
	out, failed := []N{}, M{}
	for i := range nodes {
		nodeName := nodes[i].Name
		subnet, err := p.getNodeSubnet(&nodes[i])
		if err != nil {
			failed[nodes[i].Name] = err.Error()
			continue
		}
		if set.Has(subnet.String()) {
			out = append(out, nodes[i])
		} else {
			failed[nodeName] = "NoFIPLeft"
		}
	}
	return out, failed
}`,
			`func (p *T) f(nodes []N, set S) ([]N, M) {
	out, failed := []N{}, M{}
	for i := range nodes {
		// take the address of the slice element
		node := &nodes[i]
		nodeName := node.Name
		nodeSubnet, err := p.getNodeSubnet(node)
		glog.V(4).Infof("node %s", nodeName)
		if err != nil {
			failed[nodeName] = err.Error()
			continue
		}
		if set.Has(nodeSubnet.String()) {
			out = append(out, *node)
		} else {
			failed[nodeName] = "NoFIPLeft"
		}
	}
	return out, failed
}`},
	}
	for i, pr := range pairs {
		a, b := shape(traceOf(t, pr[0], recvOf(pr[0]), "f")), shape(traceOf(t, pr[1], recvOf(pr[1]), "f"))
		// `*node` with node = &nodes[i] is nodes[i]
		b = strings.ReplaceAll(b, "*&", "")
		if sortLines(a) != sortLines(b) {
			t.Errorf("pair %d: traces differ\n--- a\n%s--- b\n%s", i, a, b)
		}
	}
	// ... and a real difference shows
	x := shape(traceOf(t, pairs[0][0], "", "f"))
	y := shape(traceOf(t, strings.Replace(pairs[0][1], "if done(pod)", "if done(pod) || pod.Deleting", 1), "", "f"))
	if x == y {
		t.Errorf("a widened condition left the trace unchanged")
	}
}

// (the exits of two branches may come in either order)
func sortLines(s string) string {
	l := strings.Split(s, "\n")
	sort.Strings(l)
	return strings.Join(l, "\n")
}

func recvOf(src string) string {
	if strings.Contains(src, "*T) f(") {
		return "T"
	}
	return ""
}

func TestFinishedShape(t *testing.T) {
	want := tmpl(`P0.Status.Phase == corev1.PodFailed || P0.Status.Phase == corev1.PodSucceeded`, nil)
	ok := []string{
		`func finished(pod *P) bool { return pod.Status.Phase == corev1.PodFailed || pod.Status.Phase == corev1.PodSucceeded }`,
		`func finished(p *P) bool {
	phase := p.Status.Phase
	return corev1.PodSucceeded == phase || phase == corev1.PodFailed
}`,
		`func finished(pod *P) bool {
	if pod.Status.Phase == corev1.PodFailed {
		return true
	}
	return pod.Status.Phase == corev1.PodSucceeded
}`,
	}
	for i, s := range ok {
		e, good := traceOf(t, s, "", "finished").boolExpr()
		if !good || e != want {
			t.Errorf("variant %d not recognised: %q", i, e)
		}
	}
	bad := []string{
		`func finished(pod *P) bool {
	if pod.DeletionTimestamp != nil {
		return true
	}
	return pod.Status.Phase == corev1.PodFailed || pod.Status.Phase == corev1.PodSucceeded
}`,
		`func finished(pod *P) bool { return pod.Status.Phase == corev1.PodFailed }`,
		`func finished(pod *P) bool { return pod.Status.Phase == corev1.PodFailed || pod.Status.Phase == corev1.PodSucceeded || pod.DeletionTimestamp != nil }`,
		`func finished(pod *P) bool { return pod.Status.Phase != corev1.PodFailed || pod.Status.Phase == corev1.PodSucceeded }`,
	}
	for i, s := range bad {
		if e, good := traceOf(t, s, "", "finished").boolExpr(); good && e == want {
			t.Errorf("bad variant %d accepted", i)
		}
	}
}

const bindSrc = `
func (p *T) Bind(args *Args) error {
	pod, err := p.PodLister.Pods(args.PodNamespace).Get(args.PodName)
	if err != nil {
		return fmt.Errorf("failed to find pod")
	}
	defer p.lockPod(pod.Name, pod.Namespace)()
	var err1 error
	if err := wait.PollImmediate(a, b, func() (bool, error) {
		if err := p.Client.CoreV1().Pods(args.PodNamespace).Bind(context.TODO(), &corev1.Binding{Target: args.Node}, v1.CreateOptions{}); err != nil {
			err1 = err
			if apierrors.IsNotFound(err) {
				return false, err
			}
			return false, nil
		}
		return true, nil
	}); err != nil {
		COND
		return fmt.Errorf("update pod: %w", err1)
	}
	return nil
}
func notFound(e error) bool { return apierrors.IsNotFound(e) }
func podGone(err error) bool { return apierrors.IsNotFound(err) || apierrors.IsConflict(err) }
`

func TestBindAnswerReaction(t *testing.T) {
	for cond, want := range map[string]bool{
		`if apierrors.IsNotFound(err1) { glog.Infof("x"); p.unreleased <- &releaseEvent{pod: pod} }`: true,
		`gone := apierrors.IsNotFound(err1)
		if gone { p.unreleased <- &releaseEvent{pod: pod} }`: true,
		`if notFound(err1) { p.unreleased <- &releaseEvent{pod: pod} }`: true,
		`if !apierrors.IsNotFound(err1) { return err1 }
		p.unreleased <- &releaseEvent{pod: pod}`: false, // (a different statement order: kept strict)
		`if podGone(err1) { p.unreleased <- &releaseEvent{pod: pod} }`:                                            false,
		`if apierrors.IsNotFound(err1) || apierrors.IsConflict(err1) { p.unreleased <- &releaseEvent{pod: pod} }`: false,
		`p.unreleased <- &releaseEvent{pod: pod}`:                                                                 false,
		`if apierrors.IsNotFound(err) { p.unreleased <- &releaseEvent{pod: pod} }`:                                false,
		`if apierrors.IsNotFound(err1) { p.unreleased <- &releaseEvent{pod: pod} }
		if apierrors.IsConflict(err1) { p.unreleased <- &releaseEvent{pod: pod} }`: false,
	} {
		tr := traceOf(t, strings.Replace(bindSrc, "COND", cond, 1), "T", "Bind")
		if got := bindAnswerReaction(tr); got != want {
			t.Errorf("%q: got %v want %v", cond, got, want)
		}
	}
}

const cpSrc = `
func (ci *C) ConfigurePool(floatIPs []*Pool) error {
	ips, err := ci.client.List()
	if err != nil {
		return err
	}
	tmp := make(map[string]*F)
	var deleting []string
	for _, ip := range ips.Items {
		netIP := net.ParseIP(ip.Name)
		found := false
		LOOP
		if !found {
			deleting = append(deleting, ip.Name)
		}
	}
	return nil
}
`

func TestConfigurePoolLookup(t *testing.T) {
	for loop, want := range map[string]bool{
		`for _, fipConf := range floatIPs {
			if fipConf.IPNet().Contains(netIP) && fipConf.Contains(netIP) {
				found = true
				tmp[ip.Name] = New(fipConf, netIP)
				break
			}
		}`: true,
		`for i := range floatIPs {
			pool := floatIPs[i]
			inSubnet := pool.IPNet().Contains(netIP)
			if !inSubnet {
				continue
			}
			if !pool.Contains(netIP) {
				continue
			}
			found = true
			tmp[ip.Name] = New(pool, netIP)
			break
		}`: true,
		// the first pool with a matching subnet decides (seeded change)
		`for _, fipConf := range floatIPs {
			if !fipConf.IPNet().Contains(netIP) {
				continue
			}
			if fipConf.Contains(netIP) {
				found = true
				tmp[ip.Name] = New(fipConf, netIP)
			}
			break
		}`: false,
		`for _, fipConf := range floatIPs {
			if fipConf.Contains(netIP) {
				found = true
				tmp[ip.Name] = New(fipConf, netIP)
				break
			}
		}`: false,
		`for _, fipConf := range floatIPs {
			if fipConf.IPNet().Contains(netIP) || fipConf.Contains(netIP) {
				found = true
				tmp[ip.Name] = New(fipConf, netIP)
				break
			}
		}`: false,
	} {
		tr := traceOf(t, strings.Replace(cpSrc, "LOOP", loop, 1), "C", "ConfigurePool")
		if got := configurePoolLookup(tr); got != want {
			t.Errorf("got %v want %v for\n%s\n%s", got, want, loop, dumpTrace(tr))
		}
	}
}

func TestCanonicalText(t *testing.T) {
	tr := traceOf(t, `func (p *T) lockPod(name, namespace string) func() {
	key := fmt.Sprintf("%s_%s", namespace, name)
	p.pool.LockKey(key)
	return nil
}`, "T", "lockPod")
	tr2 := traceOf(t, `func (p *T) lockPod(n, ns string) func() {
	p.pool.LockKey(ns + "_" + n)
	return nil
}`, "T", "lockPod")
	if shape(tr) != shape(tr2) || !strings.Contains(shape(tr), `R.pool.LockKey(P1+"_"+P0)`) {
		t.Errorf("Sprintf and concatenation differ:\n%s%s", shape(tr), shape(tr2))
	}
	// swapped arguments are a real change
	tr3 := traceOf(t, `func (p *T) lockPod(n, ns string) func() {
	p.pool.LockKey(n + "_" + ns)
	return nil
}`, "T", "lockPod")
	if shape(tr) == shape(tr3) {
		t.Errorf("swapped key parts not noticed")
	}
	// a variable assigned in a branch that falls through has no known value afterwards
	tr4 := traceOf(t, `func f(a, b string) string {
	x := a
	if a == "" {
		x = b
	}
	return x
}`, "", "f")
	if !strings.Contains(shape(tr4), "return V1") {
		t.Errorf("merged value printed as a definite one:\n%s", shape(tr4))
	}
}

// the facts of the tree itself: nothing may be false on the unchanged source
func TestRepoFactsAllTrue(t *testing.T) {
	if _, err := os.Stat("/repo/pkg/ipam/schedulerplugin/bind.go"); err != nil {
		t.Skip("no /repo")
	}
	out, err := gen("/repo")
	if err != nil {
		t.Fatal(err)
	}
	for _, l := range strings.Split(out["Plugin.lean"], "\n") {
		if strings.Contains(l, ": Bool := false") || strings.Contains(l, ", false)") {
			t.Errorf("fact false on /repo: %s", l)
		}
	}
}

var sourceFiles = []string{"pkg/ipam/server/server.go", "pkg/ipam/floatingip/store_crd.go", dir + "util/utils.go", "pkg/api/galaxy/constant/constant.go", dir + "event.go", dir + "bind.go", dir + "resync.go",
	dir + "filter.go", dir + "floatingip_plugin.go", dir + "preempt.go", "pkg/ipam/floatingip/ipam_crd.go"}

// patched copies the files the translator reads out of /repo and applies a patch from testdata ("" = none).
func patched(t *testing.T, patch string) string {
	t.Helper()
	tmp := t.TempDir()
	for _, f := range sourceFiles {
		b, err := os.ReadFile(filepath.Join("/repo", f))
		if err != nil {
			t.Skip("no /repo: " + err.Error())
		}
		os.MkdirAll(filepath.Dir(filepath.Join(tmp, f)), 0o755)
		os.WriteFile(filepath.Join(tmp, f), b, 0o644)
	}
	if patch != "" {
		abs, _ := filepath.Abs(filepath.Join("testdata", patch))
		cmd := exec.Command("git", "apply", abs)
		cmd.Dir = tmp
		if out, err := cmd.CombinedOutput(); err != nil {
			t.Logf("%s does not apply to the current /repo (left out): %s", patch, out)
			return ""
		}
	}
	return tmp
}

// behaviour-preserving rewrites of every function the facts look at leave the generated file as it is ...
func TestHarmlessRewritesKeepFacts(t *testing.T) {
	base, err := gen(patched(t, ""))
	if err != nil {
		t.Fatal(err)
	}
	applied := 0
	defer func() {
		if applied < 4 {
			t.Errorf("only %d of the harmless patches apply to the current /repo: refresh testdata", applied)
		}
	}()
	for _, p := range []string{"H05.diff", "H07.diff", "H18.diff", "H21.diff", "H22.diff", "H25.diff", "harmless-rewrites.diff"} {
		dir := patched(t, p)
		if dir == "" {
			continue
		}
		applied++
		got, err := gen(dir)
		if err != nil {
			t.Fatalf("%s: %v", p, err)
		}
		if got["Plugin.lean"] != base["Plugin.lean"] {
			t.Errorf("%s changes the facts", p)
		}
	}
}

// ... and the seeded changes still flip theirs
func TestSeededChangesFlipFacts(t *testing.T) {
	for p, fact := range map[string]string{
		"seeded-C04-3.diff":  "bindEnqueuesReleaseOnlyOnNotFound",
		"seeded-C01-3.diff":  "finishedChecksPhaseOnly",
		"seeded-C04-4.diff":  "configurePoolMatchesSubnetAndRanges",
		"seeded-C04-5.diff":  "bindEnqueuesReleaseOnlyOnNotFound",
		"seeded-C01-5.diff":  "unbindChecksUID",
		"seeded-C01-7.diff":  "reloadListsApiserver",
		"seeded-C08-7.diff":  "bindReplyInRequestOrder",
		"seeded-C01-11.diff": "initRunsAfterLeadershipAcquired",
		"seeded-C05-11.diff": "informersStartAfterPluginConstructed",
		"seeded-C03-11.diff": "finishedChecksPhaseOnly",
	} {
		dir := patched(t, p)
		if dir == "" {
			continue
		}
		got, err := gen(dir)
		if err != nil {
			t.Fatalf("%s: %v", p, err)
		}
		if !strings.Contains(got["Plugin.lean"], "def "+fact+" : Bool := false") {
			t.Errorf("%s: %s is not false", p, fact)
		}
	}
}

const releaseSrc = `
func (p *T) Release(r *Req) error {
	k := r.KeyObj
	defer p.lockPod(k.PodName, k.Namespace)()
	fip, err := p.ipam.ByIP(r.IP)
	if err != nil {
		return err
	}
	DECISION
	running, reason := p.podRunning(k.PodName, k.Namespace, fip.PodUid)
	if running {
		return fmt.Errorf("running")
	}
	glog.Infof("not running %s", reason)
	PROVIDER {
		if err := p.cloudProviderUnAssignIP(&Req{NodeName: fip.NodeName}); err != nil {
			return fmt.Errorf("unassign")
		}
	}
	if err := p.ipam.Release(k.KeyInDB, r.IP); err != nil {
		return fmt.Errorf("release ip: %v", err)
	}
	return nil
}
`

// the two-level decision of Release (key unchanged: go on; released meanwhile: nil; another owner: error) in its
// nested-if, flat tagless-switch and guard-clause forms, the provider guard with either operand order
func TestReleaseDecisionForms(t *testing.T) {
	mk := func(dec, prov string) *Trace {
		return traceOf(t, strings.Replace(strings.Replace(releaseSrc, "DECISION", dec, 1), "PROVIDER", prov, 1), "T", "Release")
	}
	good := []string{
		`if fip.Key != k.KeyInDB {
		if fip.Key == "" {
			glog.Infof("already released")
			return nil
		}
		return fmt.Errorf("ip allocated to another pod %s", fip.Key)
	}`,
		`switch {
	case fip.Key == k.KeyInDB:
		// still owned by the key, go on
	case fip.Key == "":
		glog.Infof("already released")
		return nil
	default:
		return fmt.Errorf("other owner")
	}`,
		`if k.KeyInDB != fip.Key && fip.Key == "" {
		return nil
	}
	if k.KeyInDB != fip.Key {
		return fmt.Errorf("other owner")
	}`,
		`if fip.Key == k.KeyInDB {
		glog.V(5).Infof("unchanged")
	} else if fip.Key == "" {
		return nil
	} else {
		return fmt.Errorf("other owner")
	}`,
	}
	for i, d := range good {
		for _, prov := range []string{`if p.cloudProvider != nil && fip.NodeName != ""`, `if fip.NodeName != "" && p.cloudProvider != nil`} {
			if ok, _, _ := releaseRechecks(mk(d, prov)); !ok {
				t.Errorf("form %d (%s) not recognised\n%s", i, prov, dumpTrace(mk(d, prov)))
			}
		}
	}
	// the same control flow on both forms
	a, b := shape(mk(good[0], `if p.cloudProvider != nil && fip.NodeName != ""`)), shape(mk(good[1], `if fip.NodeName != "" && p.cloudProvider != nil`))
	if sortLines(a) != sortLines(b) {
		t.Errorf("nested-if and tagless-switch forms differ\n--- a\n%s--- b\n%s", a, b)
	}
	bad := []string{
		``, // no comparison at all
		`if fip.Key != k.KeyInDB {
		glog.Infof("key changed")
	}`,
		`switch {
	case fip.Key == k.KeyInDB:
	case fip.Key == "":
		return nil
	}`, // another owner goes on
		`if fip.Key != k.KeyInDB && fip.Key != "" {
		return fmt.Errorf("other owner")
	}`, // released meanwhile goes on
		`if fip.Key != k.KeyInDB {
		return nil
	}`, // another owner is answered "ok"
		`switch {
	case fip.Key == "":
		return nil
	case fip.Key == k.PodName:
	default:
		return fmt.Errorf("other owner")
	}`, // compares with something else
	}
	for i, d := range bad {
		if ok, _, _ := releaseRechecks(mk(d, `if p.cloudProvider != nil && fip.NodeName != ""`)); ok {
			t.Errorf("bad form %d accepted", i)
		}
	}
}

func TestListsApiserver(t *testing.T) {
	for src, want := range map[string]bool{
		`func (ci *C) listFloatingIPs() (*L, error) {
	fips, err := ci.client.GalaxyV1alpha1().FloatingIPs().List(context.TODO(), metav1.ListOptions{})
	if err != nil {
		return nil, err
	}
	return fips, nil
}`: true,
		`func (c *C) listFloatingIPs() (*L, error) {
	return c.client.GalaxyV1alpha1().FloatingIPs().List(context.TODO(), metav1.ListOptions{})
}`: true,
		`func (ci *C) listFloatingIPs() (*L, error) {
	if ci.fipInformer != nil && ci.fipInformer.Informer().HasSynced() {
		if cached, err := ci.fipInformer.Lister().List(labels.Everything()); err == nil {
			return wrap(cached), nil
		}
	}
	fips, err := ci.client.GalaxyV1alpha1().FloatingIPs().List(context.TODO(), metav1.ListOptions{})
	if err != nil {
		return nil, err
	}
	return fips, nil
}`: false,
		`func (ci *C) listFloatingIPs() (*L, error) {
	fips, err := ci.client.GalaxyV1alpha1().FloatingIPs().List(context.TODO(), metav1.ListOptions{})
	if err != nil {
		return nil, err
	}
	return ci.lastList, nil
}`: false,
	} {
		if got := listsApiserver(traceOf(t, src, "C", "listFloatingIPs")); got != want {
			t.Errorf("got %v want %v for\n%s", got, want, src)
		}
	}
}

func TestKeyOwnedHelperShapes(t *testing.T) {
	mk := func(body string) *Trace {
		return traceOf(t, `func (p *T) keyOwnedByRunningPod(keyObj *K, podUid string) bool {
	ipInfos, err := p.ipam.ByKeyAndIPRanges(keyObj.KeyInDB, nil)
	if err != nil {
		return true
	}
	for _, ipInfo := range ipInfos {
`+body+`
	}
	return false
}`, "T", "keyOwnedByRunningPod")
	}
	for body, want := range map[string][2]bool{
		`		if ipInfo == nil || ipInfo.PodUid == podUid || ipInfo.PodUid == "" {
			continue
		}
		if running, _ := p.podRunning(keyObj.PodName, keyObj.Namespace, ipInfo.PodUid); running {
			return true
		}`: {true, true},
		`		if ipInfo != nil && ipInfo.PodUid != "" && podUid != ipInfo.PodUid {
			r, _ := p.podRunning(keyObj.PodName, keyObj.Namespace, ipInfo.PodUid)
			if r {
				return true
			}
		}`: {true, true},
		// before the fix: a record without uid is judged by the name alone
		`		if ipInfo == nil || ipInfo.PodUid == podUid {
			continue
		}
		if running, _ := p.podRunning(keyObj.PodName, keyObj.Namespace, ipInfo.PodUid); running {
			return true
		}`: {true, false},
		// no uid comparison at all: not the whole-key check
		`		if ipInfo == nil {
			continue
		}
		if running, _ := p.podRunning(keyObj.PodName, keyObj.Namespace, ipInfo.PodUid); running {
			return true
		}`: {false, false},
		// asks about another pod
		`		if ipInfo == nil || ipInfo.PodUid == podUid || ipInfo.PodUid == "" {
			continue
		}
		if running, _ := p.podRunning(keyObj.PodName, keyObj.Namespace, podUid); running {
			return true
		}`: {false, false},
	} {
		shape, skips := keyOwnedHelper(mk(body))
		if shape != want[0] || skips != want[1] {
			t.Errorf("got (%v, %v) want %v for\n%s", shape, skips, want, body)
		}
	}
}
