package main

import (
	"fmt"
	"os"
	"sort"
	"strings"

	"go/ast"

	"factgen/fg"
)

// the private functions of the pinned tree: a call to any OTHER private function of the package is an extracted helper
// and is looked into (inlined one level) before matching
var knownPrivate = strings.Fields(`allocateDuringFilter allocateIP allocateInSubnet allocateInSubnetWithKey assign checkAppAndReplicas
 cloudProviderAssignIP cloudProviderUnAssignIP createFloatingIP deleteFloatingIP ensureIPAMConf fetchChecklist finished fipCheck
 getAvailableSubnet getCaller getDpReplicas getNodeIP getNodeSubnet getNodeSubnetfromIPAM getPodCniArgs getReplicasOfDeployment
 getStsReplicas getSubnet handleFIPAssign handleFIPUnassign hasResourceName keyOwnedByRunningPod listFloatingIPs listWantedPods
 lockPod loop parsePodIndex parseReleasePolicy podRunning popularCache queryNodeSubnet releaseIP reserveIP resyncAllocatedIPs
 resyncPod runningAndUidMatch shouldRelease supportReserveIPPolicy syncCacheAfterCreate syncCacheAfterDel syncIP syncPodIP
 syncPodIPsIntoDB toFloatingIPInfo tryMerge unbind unbindDpPod unbindNoneDpPod unmarshalAttr updateConfigMap updateFloatingIP
 validate walkConfiguredIPRanges walkIPRanges getLister replicasOfCustomResource panic len string int int32 int64 uint16 make append delete`)

func newNormaliser(files ...*fg.Parsed) *Normaliser {
	nz := &Normaliser{Funcs: map[string]*ast.FuncDecl{}, Known: map[string]bool{},
		CalleeResults: map[string][]string{
			"getReplicasOfDeployment": {"replicas", "err"},
			"ByPrefix":                {"fips", "err"},
			"parsePodIndex":           {"index", "err"},
			"checkAppAndReplicas":     {"appExist", "replicas", "err"},
			"shouldRelease":           {"shouldRelease", "reason", "err"},
			"ByIP":                    {"fip", "err"},
			"ByKeyAndIPRanges":        {"ipInfos", "err"},
			"FormatKey":               {"keyObj", "err"},
			"getPodCniArgs":           {"cniArgs", "err"},
			"getAvailableSubnet":      {"subnetSet", "reserve", "err"},
			"ParseCIDR":               {"", "ipNet", "err"},
			"GetReplicas":             {"replica", "err"},
			"Get":                     {"obj", "err"},
			"ForResource":             {"informer"},
		},
		RangeVars: map[string][2]string{
			"ips":               {"", "ip"},
			"all":               {"", "fip"},
			"ci.allocatedFIPs":  {"k", "v"},
			"ipInfos":           {"i", "ipInfo"},
			"meta.allocatedIPs": {"", "obj"},
		},
		Pure: map[string]bool{"PoolPrefix": true, "PoolAppPrefix": true, "Deployment": true, "StatefulSet": true, "string": true,
			"len": true, "int": true, "int32": true, "int64": true, "uint16": true, "ReleasePolicy": true, "GetPool": true,
			"UnixNano": true, "Has": true, "Len": true, "HasPrefix": true, "GetUID": true, "IsNotFound": true, "String": true},
	}
	for _, k := range knownPrivate {
		nz.Known[k] = true
	}
	for _, p := range files {
		nz.RegisterFuncs(p.Fset, p.File)
	}
	return nz
}

// dump prints the canonical form of every function the translator looks at (debugging aid: FACTGEN_C03_DUMP=1).
func dump(forms map[string]*NF) {
	if os.Getenv("FACTGEN_C03_DUMP") == "" {
		return
	}
	var names []string
	for n := range forms {
		names = append(names, n)
	}
	sort.Strings(names)
	for _, n := range names {
		fmt.Fprintf(os.Stderr, "== %s\n%s\n", n, printNode(forms[n].Fset, forms[n].Decl))
	}
}
