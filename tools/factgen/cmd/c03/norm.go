// Normaliser of the c03 translator (harmless/NORMALISE.md): a function body is brought into a canonical form before any
// fact is matched, so that behaviour-preserving rewrites leave the facts alone while a changed operator, operand
// order, guard, lock scope or call order still changes what is matched.
//
// Canonical form of a function (steps in this order):
//  1. log statements (glog / klog / fmt.Print*) and comments are dropped; the TEXT of error / log messages is dropped
//     (`fmt.Errorf(…)`, `fmt.Sprintf(…)`, `errors.New(…)` lose their arguments; that an error is built stays);
//  2. calls to private helpers of the same package that the translator does not know by name are inlined one level
//     (helper with a single trailing return; parameters substituted);
//  3. `switch tag { case a, b: … default: … }` becomes the if / else-if chain `tag == a || tag == b`;
//  4. an `else` after a branch that always leaves (return / continue / break / panic) is dropped, its body follows the
//     `if`; blocks nested for no reason are spliced;
//  5. `for i := range xs { v := xs[i]; … }` becomes `for _, v := range xs { … }`;
//  6. alpha-renaming: receiver and parameters are renamed by position to the names given in the FuncSpec, locals
//     defined by a call are renamed by the callee (table), range variables by the ranged expression (table);
//  7. single-assignment locals with a side-effect-free right-hand side are inlined into their uses;
//  8. `!(a == b)` is `a != b`, `!(a != b)` is `a == b`, double negation is removed, parentheses around atoms are dropped.
//
// Everything is syntactic (go/ast, no type checking): renaming is by identifier name inside one function.
package main

import (
	"fmt"
	"go/ast"
	"go/parser"
	"go/printer"
	"go/token"
	"reflect"
	"strings"

	"bytes"
)

// FuncSpec tells the normaliser the canonical names of one function.
type FuncSpec struct {
	Recv   string   // canonical receiver name ("" = keep)
	Params []string // canonical parameter names by position ("" = keep)
}

// Normaliser holds the package context: every function of the files read (for helper inlining) and the tables.
type Normaliser struct {
	Funcs map[string]*ast.FuncDecl // by name (methods and functions of the parsed files)
	Known map[string]bool          // private callees the facts know by name: never inlined
	// locals defined by `a, b := <callee>(…)` are renamed to these names (by position)
	CalleeResults map[string][]string
	// range variables: ranged expression (canonical text) -> key, value names
	RangeVars map[string][2]string
	Pure      map[string]bool // method / function names whose calls are side-effect free (for inlining of locals)
}

// NF is a normalised function: re-parsed canonical source.
type NF struct {
	Fset *token.FileSet
	Decl *ast.FuncDecl
	Text string
}

func (f *NF) Src(n ast.Node) string {
	var b bytes.Buffer
	printer.Fprint(&b, f.Fset, n)
	return strings.Join(strings.Fields(b.String()), " ")
}

func printNode(fset *token.FileSet, n ast.Node) string {
	var b bytes.Buffer
	printer.Fprint(&b, fset, n)
	return b.String()
}

func reparse(src string) (*token.FileSet, *ast.FuncDecl, error) {
	fset := token.NewFileSet()
	f, err := parser.ParseFile(fset, "n.go", "package n\n"+src, 0)
	if err != nil {
		return nil, nil, fmt.Errorf("normaliser: re-parse failed: %v\n%s", err, src)
	}
	for _, d := range f.Decls {
		if fd, ok := d.(*ast.FuncDecl); ok {
			return fset, fd, nil
		}
	}
	return nil, nil, fmt.Errorf("normaliser: no function in %q", src)
}

// Normalise returns the canonical form of fd.
func (nz *Normaliser) Normalise(fset *token.FileSet, fd *ast.FuncDecl, spec FuncSpec) (*NF, error) {
	// work on a private copy without comments
	fs, d, err := reparse(printNode(fset, &ast.FuncDecl{Recv: fd.Recv, Name: fd.Name, Type: fd.Type, Body: fd.Body}))
	if err != nil {
		return nil, err
	}
	stripMessages(d.Body)
	d.Body.List = dropLogs(d.Body.List)
	nz.inlineHelpers(fs, d)
	// the inlined bodies may contain logs / switches of their own
	fs, d, err = reparse(printNode(fs, d))
	if err != nil {
		return nil, err
	}
	stripMessages(d.Body)
	d.Body.List = dropLogs(d.Body.List)
	d.Body.List = switchToIf(d.Body.List)
	simplifyConds(d.Body) // before orienting: `!(a == b)` is a comparison, not a negation
	for i := 0; i < 8; i++ {
		d.Body.List = flatten(d.Body.List)
	}
	d.Body.List = rangeIndexToValue(fs, d.Body.List)
	nz.rename(fs, d, spec)
	fs, d, err = reparse(printNode(fs, d))
	if err != nil {
		return nil, err
	}
	nz.inlineLocals(fs, d)
	simplifyConds(d.Body)
	// forget where the pieces came from: the printer then lays the function out in its own canonical way
	fs, d, err = reparse(printNode(fs, d))
	if err != nil {
		return nil, err
	}
	clearPos(reflect.ValueOf(d))
	fs, d, err = reparse(printNode(token.NewFileSet(), d))
	if err != nil {
		return nil, err
	}
	return &NF{Fset: fs, Decl: d, Text: strings.Join(strings.Fields(printNode(fs, d.Body)), " ")}, nil
}

// ---- 1. logs and message texts ---------------------------------------------------------------------------------

func calleeText(c *ast.CallExpr) string {
	switch f := c.Fun.(type) {
	case *ast.Ident:
		return f.Name
	case *ast.SelectorExpr:
		var parts []string
		var e ast.Expr = f
		for {
			if s, ok := e.(*ast.SelectorExpr); ok {
				parts = append([]string{s.Sel.Name}, parts...)
				e = s.X
				continue
			}
			if id, ok := e.(*ast.Ident); ok {
				parts = append([]string{id.Name}, parts...)
			} else if c2, ok := e.(*ast.CallExpr); ok {
				parts = append([]string{calleeText(c2) + "()"}, parts...)
			}
			break
		}
		return strings.Join(parts, ".")
	}
	return ""
}

func isLogCall(c *ast.CallExpr) bool {
	t := calleeText(c)
	return strings.HasPrefix(t, "glog.") || strings.HasPrefix(t, "klog.") || strings.HasPrefix(t, "fmt.Print") ||
		strings.HasPrefix(t, "log.Print")
}

func dropLogs(list []ast.Stmt) []ast.Stmt {
	var out []ast.Stmt
	for _, s := range list {
		if es, ok := s.(*ast.ExprStmt); ok {
			if c, ok := es.X.(*ast.CallExpr); ok && isLogCall(c) {
				continue
			}
		}
		// `if glog.V(5) { … only logging … }` disappears with its body
		if is, ok := s.(*ast.IfStmt); ok {
			if c, ok := is.Cond.(*ast.CallExpr); ok && strings.HasPrefix(calleeText(c), "glog.V") {
				continue
			}
		}
		forBlocks(s, func(b *ast.BlockStmt) { b.List = dropLogs(b.List) })
		out = append(out, s)
	}
	return out
}

// forBlocks calls f on the blocks directly nested in s (not recursively: f recurses itself).
func forBlocks(s ast.Stmt, f func(b *ast.BlockStmt)) {
	switch x := s.(type) {
	case *ast.BlockStmt:
		f(x)
	case *ast.IfStmt:
		f(x.Body)
		if x.Else != nil {
			if eb, ok := x.Else.(*ast.BlockStmt); ok {
				f(eb)
			} else {
				forBlocks(x.Else, f)
			}
		}
	case *ast.ForStmt:
		f(x.Body)
	case *ast.RangeStmt:
		f(x.Body)
	case *ast.SwitchStmt:
		for _, c := range x.Body.List {
			cc := c.(*ast.CaseClause)
			b := &ast.BlockStmt{List: cc.Body}
			f(b)
			cc.Body = b.List
		}
	case *ast.ExprStmt:
		ast.Inspect(x, func(n ast.Node) bool {
			if fl, ok := n.(*ast.FuncLit); ok {
				f(fl.Body)
				return false
			}
			return true
		})
	case *ast.DeferStmt, *ast.GoStmt, *ast.AssignStmt, *ast.ReturnStmt:
		ast.Inspect(x, func(n ast.Node) bool {
			if fl, ok := n.(*ast.FuncLit); ok {
				f(fl.Body)
				return false
			}
			return true
		})
	}
}

// stripMessages empties the argument lists of message builders.
func stripMessages(n ast.Node) {
	ast.Inspect(n, func(x ast.Node) bool {
		if c, ok := x.(*ast.CallExpr); ok {
			switch calleeText(c) {
			case "fmt.Errorf", "fmt.Sprintf", "errors.New", "fmt.Sprint":
				c.Args = nil
			}
		}
		return true
	})
}

// ---- 2. helper inlining ---------------------------------------------------------------------------------------------

func isPrivate(name string) bool { return name != "" && name[0] >= 'a' && name[0] <= 'z' }

// helperOf returns the declaration of a private, unknown helper the call refers to.
func (nz *Normaliser) helperOf(c *ast.CallExpr, recv string) *ast.FuncDecl {
	name := ""
	switch f := c.Fun.(type) {
	case *ast.Ident:
		name = f.Name
	case *ast.SelectorExpr:
		if id, ok := f.X.(*ast.Ident); ok && id.Name == recv && recv != "" {
			name = f.Sel.Name
		}
	}
	if !isPrivate(name) || nz.Known[name] {
		return nil
	}
	h := nz.Funcs[name]
	if h == nil || h.Body == nil || len(h.Body.List) == 0 {
		return nil
	}
	// single trailing return (or none)
	rets := 0
	ast.Inspect(h.Body, func(n ast.Node) bool {
		if _, ok := n.(*ast.FuncLit); ok {
			return false
		}
		if _, ok := n.(*ast.ReturnStmt); ok {
			rets++
		}
		return true
	})
	if rets > 1 {
		return nil
	}
	if rets == 1 {
		if _, ok := h.Body.List[len(h.Body.List)-1].(*ast.ReturnStmt); !ok {
			return nil
		}
	}
	return h
}

func recvName(fd *ast.FuncDecl) string {
	if fd.Recv != nil && len(fd.Recv.List) == 1 && len(fd.Recv.List[0].Names) == 1 {
		return fd.Recv.List[0].Names[0].Name
	}
	return ""
}

func paramNames(fd *ast.FuncDecl) []string {
	var out []string
	for _, f := range fd.Type.Params.List {
		for _, n := range f.Names {
			out = append(out, n.Name)
		}
	}
	return out
}

// renameIdents renames every identifier use (not selector field names, not struct-literal keys) per the map.
func renameIdents(n ast.Node, m map[string]string) {
	if len(m) == 0 {
		return
	}
	skip := map[*ast.Ident]bool{}
	ast.Inspect(n, func(x ast.Node) bool {
		switch v := x.(type) {
		case *ast.SelectorExpr:
			skip[v.Sel] = true
		case *ast.KeyValueExpr:
			if id, ok := v.Key.(*ast.Ident); ok {
				skip[id] = true
			}
		}
		return true
	})
	ast.Inspect(n, func(x ast.Node) bool {
		if id, ok := x.(*ast.Ident); ok && !skip[id] {
			if to, ok := m[id.Name]; ok {
				id.Name = to
			}
		}
		return true
	})
}

func (nz *Normaliser) inlineHelpers(fset *token.FileSet, fd *ast.FuncDecl) {
	recv := recvName(fd)
	var walk func(list []ast.Stmt) []ast.Stmt
	walk = func(list []ast.Stmt) []ast.Stmt {
		var out []ast.Stmt
		for _, s := range list {
			forBlocks(s, func(b *ast.BlockStmt) { b.List = walk(b.List) })
			var call *ast.CallExpr
			var lhs []ast.Expr
			var tok token.Token
			isRet := false
			switch x := s.(type) {
			case *ast.AssignStmt:
				if len(x.Rhs) == 1 {
					if c, ok := x.Rhs[0].(*ast.CallExpr); ok {
						call, lhs, tok = c, x.Lhs, x.Tok
					}
				}
			case *ast.ExprStmt:
				if c, ok := x.X.(*ast.CallExpr); ok {
					call = c
				}
			case *ast.ReturnStmt:
				if len(x.Results) == 1 {
					if c, ok := x.Results[0].(*ast.CallExpr); ok {
						call, isRet = c, true
					}
				}
			}
			var h *ast.FuncDecl
			if call != nil {
				h = nz.helperOf(call, recv)
			}
			if h == nil {
				out = append(out, s)
				continue
			}
			// private copy of the helper, parameters and receiver substituted by the arguments
			_, hc, err := reparse(printNode(fset0(h), &ast.FuncDecl{Recv: h.Recv, Name: h.Name, Type: h.Type, Body: h.Body}))
			if err != nil {
				out = append(out, s)
				continue
			}
			ps := paramNames(hc)
			if len(ps) != len(call.Args) {
				out = append(out, s)
				continue
			}
			m := map[string]string{}
			var pre []ast.Stmt
			for i, p := range ps {
				if id, ok := call.Args[i].(*ast.Ident); ok {
					m[p] = id.Name
				} else {
					// not a plain name: bind it to a local named like the parameter
					pre = append(pre, &ast.AssignStmt{Lhs: []ast.Expr{ast.NewIdent(p)}, Tok: token.DEFINE, Rhs: []ast.Expr{call.Args[i]}})
				}
			}
			if r := recvName(hc); r != "" && recv != "" {
				m[r] = recv
			}
			renameIdents(hc.Body, m)
			body := hc.Body.List
			var results []ast.Expr
			if n := len(body); n > 0 {
				if r, ok := body[n-1].(*ast.ReturnStmt); ok {
					results, body = r.Results, body[:n-1]
				}
			}
			out = append(out, pre...)
			out = append(out, body...)
			switch {
			case isRet:
				out = append(out, &ast.ReturnStmt{Results: results})
			case len(lhs) > 0 && len(lhs) == len(results):
				same := true
				for i := range lhs {
					a, ok1 := lhs[i].(*ast.Ident)
					b, ok2 := results[i].(*ast.Ident)
					if !ok1 || !ok2 || a.Name != b.Name {
						same = false
					}
				}
				if !same {
					out = append(out, &ast.AssignStmt{Lhs: lhs, Tok: tok, Rhs: results})
				}
			}
		}
		return out
	}
	fd.Body.List = walk(fd.Body.List)
}

var posFset = map[*ast.FuncDecl]*token.FileSet{}

// fset0 returns the file set a declaration was parsed with (registered by RegisterFuncs).
func fset0(fd *ast.FuncDecl) *token.FileSet {
	if fs, ok := posFset[fd]; ok {
		return fs
	}
	return token.NewFileSet()
}

// RegisterFuncs adds every function of a parsed file to the package context.
func (nz *Normaliser) RegisterFuncs(fset *token.FileSet, f *ast.File) {
	for _, d := range f.Decls {
		if fd, ok := d.(*ast.FuncDecl); ok {
			nz.Funcs[fd.Name.Name] = fd
			posFset[fd] = fset
		}
	}
}

// ---- 3. switch -> if chain -----------------------------------------------------------------------------------------

func switchToIf(list []ast.Stmt) []ast.Stmt {
	var out []ast.Stmt
	for _, s := range list {
		forBlocks(s, func(b *ast.BlockStmt) { b.List = switchToIf(b.List) })
		sw, ok := s.(*ast.SwitchStmt)
		if !ok || sw.Tag == nil || sw.Init != nil {
			out = append(out, s)
			continue
		}
		hasFall := false
		ast.Inspect(sw.Body, func(n ast.Node) bool {
			if b, ok := n.(*ast.BranchStmt); ok && (b.Tok == token.FALLTHROUGH || b.Tok == token.BREAK) {
				hasFall = true
			}
			return true
		})
		if hasFall {
			out = append(out, s)
			continue
		}
		var first, cur *ast.IfStmt
		var def *ast.BlockStmt
		for _, c := range sw.Body.List {
			cc := c.(*ast.CaseClause)
			body := &ast.BlockStmt{List: switchToIf(cc.Body)}
			if cc.List == nil {
				def = body
				continue
			}
			var cond ast.Expr
			for _, v := range cc.List {
				eq := &ast.BinaryExpr{X: sw.Tag, Op: token.EQL, Y: v}
				if cond == nil {
					cond = eq
				} else {
					cond = &ast.BinaryExpr{X: cond, Op: token.LOR, Y: eq}
				}
			}
			is := &ast.IfStmt{Cond: cond, Body: body}
			if first == nil {
				first = is
			} else {
				cur.Else = is
			}
			cur = is
		}
		switch {
		case first == nil && def != nil:
			out = append(out, def.List...)
		case first != nil:
			if def != nil {
				cur.Else = def
			}
			out = append(out, first)
		}
	}
	return out
}

// ---- 4. flattening ---------------------------------------------------------------------------------------------------

// leaves: the statement list always leaves the enclosing sequence (return / continue / break / goto / panic).
func leaves(list []ast.Stmt) bool {
	if len(list) == 0 {
		return false
	}
	switch x := list[len(list)-1].(type) {
	case *ast.ReturnStmt:
		return true
	case *ast.BranchStmt:
		return x.Tok == token.CONTINUE || x.Tok == token.BREAK || x.Tok == token.GOTO
	case *ast.ExprStmt:
		if c, ok := x.X.(*ast.CallExpr); ok && calleeText(c) == "panic" {
			return true
		}
	case *ast.IfStmt:
		if x.Else == nil {
			return false
		}
		var el []ast.Stmt
		switch e := x.Else.(type) {
		case *ast.BlockStmt:
			el = e.List
		default:
			el = []ast.Stmt{e}
		}
		return leaves(x.Body.List) && leaves(el)
	case *ast.BlockStmt:
		return leaves(x.List)
	}
	return false
}

// positive orientation: `if !x { return A }; return B` is `if x { return B }; return A` (both branches plain returns)
func orient(list []ast.Stmt) []ast.Stmt {
	n := len(list)
	if n < 2 {
		return list
	}
	is, ok := list[n-2].(*ast.IfStmt)
	if !ok || is.Else != nil || is.Init != nil || len(is.Body.List) != 1 {
		return list
	}
	u, ok := is.Cond.(*ast.UnaryExpr)
	if !ok || u.Op != token.NOT {
		return list
	}
	r1, ok1 := is.Body.List[0].(*ast.ReturnStmt)
	r2, ok2 := list[n-1].(*ast.ReturnStmt)
	if !ok1 || !ok2 {
		return list
	}
	inner := u.X
	if p, ok := inner.(*ast.ParenExpr); ok {
		inner = p.X
	}
	out := append([]ast.Stmt(nil), list[:n-2]...)
	return append(out, &ast.IfStmt{Cond: inner, Body: &ast.BlockStmt{List: []ast.Stmt{r2}}}, r1)
}

func flatten(list []ast.Stmt) []ast.Stmt {
	list = flatten0(list)
	return orient(list)
}

func flatten0(list []ast.Stmt) []ast.Stmt {
	var out []ast.Stmt
	for _, s := range list {
		forBlocks(s, func(b *ast.BlockStmt) { b.List = flatten(b.List) })
		switch x := s.(type) {
		case *ast.BlockStmt: // a bare block that declares nothing visible afterwards is spliced
			out = append(out, x.List...)
			continue
		case *ast.IfStmt:
			if x.Else != nil && x.Init == nil && leaves(x.Body.List) {
				el := x.Else
				x.Else = nil
				out = append(out, x)
				switch e := el.(type) {
				case *ast.BlockStmt:
					out = append(out, e.List...)
				default:
					out = append(out, e)
				}
				continue
			}
			// `else { if … }` with nothing else inside is `else if …`
			if eb, ok := x.Else.(*ast.BlockStmt); ok && len(eb.List) == 1 {
				if inner, ok := eb.List[0].(*ast.IfStmt); ok && inner.Init == nil {
					x.Else = inner
				}
			}
		}
		out = append(out, s)
	}
	return out
}

// ---- 5. range over indices -----------------------------------------------------------------------------------------

func rangeIndexToValue(fset *token.FileSet, list []ast.Stmt) []ast.Stmt {
	for _, s := range list {
		forBlocks(s, func(b *ast.BlockStmt) { b.List = rangeIndexToValue(fset, b.List) })
		r, ok := s.(*ast.RangeStmt)
		if !ok || r.Key == nil || r.Value != nil || len(r.Body.List) == 0 {
			continue
		}
		k, ok := r.Key.(*ast.Ident)
		if !ok || k.Name == "_" {
			continue
		}
		as, ok := r.Body.List[0].(*ast.AssignStmt)
		if !ok || as.Tok != token.DEFINE || len(as.Lhs) != 1 || len(as.Rhs) != 1 {
			continue
		}
		ix, ok := as.Rhs[0].(*ast.IndexExpr)
		if !ok || printNode(fset, ix.X) != printNode(fset, r.X) || printNode(fset, ix.Index) != k.Name {
			continue
		}
		// the index must not be used elsewhere in the body
		used := false
		for _, b := range r.Body.List[1:] {
			ast.Inspect(b, func(n ast.Node) bool {
				if id, ok := n.(*ast.Ident); ok && id.Name == k.Name {
					used = true
				}
				return true
			})
		}
		if used {
			continue
		}
		r.Key, r.Value = ast.NewIdent("_"), as.Lhs[0]
		r.Body.List = r.Body.List[1:]
	}
	return list
}

// ---- 6. alpha-renaming -----------------------------------------------------------------------------------------------

func (nz *Normaliser) rename(fset *token.FileSet, fd *ast.FuncDecl, spec FuncSpec) {
	m := map[string]string{}
	if r := recvName(fd); r != "" && spec.Recv != "" && r != spec.Recv {
		m[r] = spec.Recv
	}
	for i, p := range paramNames(fd) {
		if i < len(spec.Params) && spec.Params[i] != "" && p != spec.Params[i] && p != "_" {
			m[p] = spec.Params[i]
		}
	}
	renameIdents(fd, m)
	// locals defined from a call, range variables: one pass in source order (later definitions see earlier renames);
	// a rename whose target name is already in use in the function is skipped (two calls of one callee)
	inUse := func(name string) bool {
		found := false
		ast.Inspect(fd, func(n ast.Node) bool {
			if id, ok := n.(*ast.Ident); ok && id.Name == name {
				found = true
			}
			return !found
		})
		return found
	}
	safe := func(mm map[string]string) map[string]string {
		out := map[string]string{}
		for from, to := range mm {
			if !inUse(to) {
				out[from] = to
			}
		}
		return out
	}
	ast.Inspect(fd.Body, func(n ast.Node) bool {
		switch x := n.(type) {
		case *ast.AssignStmt:
			if x.Tok == token.DEFINE && len(x.Rhs) == 1 {
				if c, ok := x.Rhs[0].(*ast.CallExpr); ok {
					t := calleeText(c)
					if i := strings.LastIndex(t, "."); i >= 0 {
						t = t[i+1:]
					}
					if want, ok := nz.CalleeResults[t]; ok && len(want) == len(x.Lhs) {
						mm := map[string]string{}
						for i, l := range x.Lhs {
							if id, ok := l.(*ast.Ident); ok && id.Name != "_" && want[i] != "" && id.Name != want[i] {
								mm[id.Name] = want[i]
							}
						}
						renameIdents(fd.Body, safe(mm))
					}
				}
			}
		case *ast.RangeStmt:
			if want, ok := nz.RangeVars[strings.Join(strings.Fields(printNode(fset, x.X)), " ")]; ok {
				mm := map[string]string{}
				if id, ok := x.Key.(*ast.Ident); ok && id.Name != "_" && want[0] != "" && id.Name != want[0] {
					mm[id.Name] = want[0]
				}
				if id, ok := x.Value.(*ast.Ident); ok && id.Name != "_" && want[1] != "" && id.Name != want[1] {
					mm[id.Name] = want[1]
				}
				renameIdents(fd.Body, safe(mm))
			}
		}
		return true
	})
}

// ---- 7. inlining of single-assignment locals ------------------------------------------------------------------------

func (nz *Normaliser) pureExpr(e ast.Expr) bool {
	pure := true
	ast.Inspect(e, func(n ast.Node) bool {
		switch x := n.(type) {
		case *ast.CallExpr:
			t := calleeText(x)
			if i := strings.LastIndex(t, "."); i >= 0 {
				t = t[i+1:]
			}
			if !nz.Pure[t] {
				pure = false
			}
		case *ast.FuncLit, *ast.UnaryExpr:
			if u, ok := x.(*ast.UnaryExpr); ok && (u.Op == token.NOT || u.Op == token.SUB || u.Op == token.AND) {
				if u.Op == token.AND { // taking an address is not a value to duplicate
					pure = false
				}
				return true
			}
			if _, ok := x.(*ast.FuncLit); ok {
				pure = false
			}
		}
		return pure
	})
	return pure
}

func (nz *Normaliser) inlineLocals(fset *token.FileSet, fd *ast.FuncDecl) {
	// number of assignments per name (definition included); names whose address is taken
	assigns := map[string]int{}
	defined := map[string]int{}
	addr := map[string]bool{}
	ast.Inspect(fd.Body, func(n ast.Node) bool {
		switch x := n.(type) {
		case *ast.AssignStmt:
			for _, l := range x.Lhs {
				if id, ok := l.(*ast.Ident); ok {
					assigns[id.Name]++
					if x.Tok == token.DEFINE {
						defined[id.Name]++
					}
				}
			}
		case *ast.IncDecStmt:
			if id, ok := x.X.(*ast.Ident); ok {
				assigns[id.Name] += 2
			}
		case *ast.RangeStmt:
			for _, e := range []ast.Expr{x.Key, x.Value} {
				if id, ok := e.(*ast.Ident); ok {
					assigns[id.Name]++
					defined[id.Name] += 2 // never an inlining target
				}
			}
		case *ast.ValueSpec:
			for _, id := range x.Names {
				defined[id.Name] += 2
			}
		case *ast.UnaryExpr:
			if x.Op == token.AND {
				if id, ok := x.X.(*ast.Ident); ok {
					addr[id.Name] = true
				}
			}
		}
		return true
	})
	for _, p := range paramNames(fd) {
		defined[p] += 2
	}
	if fd.Type.Results != nil {
		for _, f := range fd.Type.Results.List {
			for _, n := range f.Names {
				defined[n.Name] += 2
			}
		}
	}
	// the value of the right-hand side must not change between definition and use: every name in it is assigned at most once
	stable := func(e ast.Expr) bool {
		ok := true
		ast.Inspect(e, func(n ast.Node) bool {
			if id, isId := n.(*ast.Ident); isId && assigns[id.Name] > 1 {
				ok = false
			}
			return ok
		})
		return ok
	}
	var walk func(list []ast.Stmt) []ast.Stmt
	walk = func(list []ast.Stmt) []ast.Stmt {
		var out []ast.Stmt
		for i := 0; i < len(list); i++ {
			s := list[i]
			as, ok := s.(*ast.AssignStmt)
			if ok && as.Tok == token.DEFINE && len(as.Lhs) == len(as.Rhs) {
				all := true
				for j, l := range as.Lhs {
					id, isId := l.(*ast.Ident)
					if !isId || id.Name == "_" || assigns[id.Name] != 1 || defined[id.Name] != 1 || addr[id.Name] ||
						!nz.pureExpr(as.Rhs[j]) || !stable(as.Rhs[j]) {
						all = false
					}
				}
				if all {
					for j, l := range as.Lhs {
						name := l.(*ast.Ident).Name
						rhs := as.Rhs[j]
						for _, rest := range list[i+1:] {
							substIdent(rest, name, rhs)
						}
					}
					continue
				}
			}
			forBlocks(s, func(b *ast.BlockStmt) { b.List = walk(b.List) })
			out = append(out, s)
		}
		return out
	}
	fd.Body.List = walk(fd.Body.List)
}

// substIdent replaces uses of the identifier by (a parenthesised copy of) the expression.
func substIdent(n ast.Node, name string, e ast.Expr) {
	repl := func(x ast.Expr) ast.Expr {
		if id, ok := x.(*ast.Ident); ok && id.Name == name {
			switch e.(type) {
			case *ast.Ident, *ast.SelectorExpr, *ast.CallExpr, *ast.BasicLit, *ast.IndexExpr:
				return e
			}
			return &ast.ParenExpr{X: e}
		}
		return x
	}
	ast.Inspect(n, func(x ast.Node) bool {
		switch v := x.(type) {
		case *ast.BinaryExpr:
			v.X, v.Y = repl(v.X), repl(v.Y)
		case *ast.UnaryExpr:
			v.X = repl(v.X)
		case *ast.ParenExpr:
			v.X = repl(v.X)
		case *ast.CallExpr:
			for i := range v.Args {
				v.Args[i] = repl(v.Args[i])
			}
			if _, ok := v.Fun.(*ast.Ident); !ok {
				v.Fun = repl(v.Fun)
			}
		case *ast.SelectorExpr:
			v.X = repl(v.X)
		case *ast.IndexExpr:
			v.X, v.Index = repl(v.X), repl(v.Index)
		case *ast.SliceExpr:
			v.X = repl(v.X)
		case *ast.StarExpr:
			v.X = repl(v.X)
		case *ast.KeyValueExpr:
			v.Value = repl(v.Value)
		case *ast.CompositeLit:
			for i := range v.Elts {
				v.Elts[i] = repl(v.Elts[i])
			}
		case *ast.ReturnStmt:
			for i := range v.Results {
				v.Results[i] = repl(v.Results[i])
			}
		case *ast.AssignStmt:
			for i := range v.Rhs {
				v.Rhs[i] = repl(v.Rhs[i])
			}
		case *ast.IfStmt:
			v.Cond = repl(v.Cond)
		case *ast.RangeStmt:
			v.X = repl(v.X)
		case *ast.ExprStmt:
			v.X = repl(v.X)
		case *ast.SwitchStmt:
			if v.Tag != nil {
				v.Tag = repl(v.Tag)
			}
		case *ast.DeferStmt:
			for i := range v.Call.Args {
				v.Call.Args[i] = repl(v.Call.Args[i])
			}
		}
		return true
	})
}

// ---- 8. conditions -------------------------------------------------------------------------------------------------------

func simplifyExpr(e ast.Expr) ast.Expr {
	switch x := e.(type) {
	case *ast.ParenExpr:
		in := simplifyExpr(x.X)
		switch in.(type) {
		case *ast.Ident, *ast.SelectorExpr, *ast.CallExpr, *ast.BasicLit, *ast.ParenExpr:
			return in
		}
		x.X = in
		return x
	case *ast.UnaryExpr:
		x.X = simplifyExpr(x.X)
		if x.Op == token.NOT {
			in := x.X
			if p, ok := in.(*ast.ParenExpr); ok {
				in = p.X
			}
			switch y := in.(type) {
			case *ast.BinaryExpr:
				switch y.Op {
				case token.EQL:
					y.Op = token.NEQ
					return y
				case token.NEQ:
					y.Op = token.EQL
					return y
				}
			case *ast.UnaryExpr:
				if y.Op == token.NOT {
					return y.X
				}
			}
		}
		return x
	case *ast.BinaryExpr:
		x.X, x.Y = simplifyExpr(x.X), simplifyExpr(x.Y)
		return x
	}
	return e
}

func simplifyConds(n ast.Node) {
	ast.Inspect(n, func(x ast.Node) bool {
		if is, ok := x.(*ast.IfStmt); ok {
			is.Cond = simplifyExpr(is.Cond)
		}
		return true
	})
}

var posType = reflect.TypeOf(token.NoPos)

// clearPos sets every position of an AST to NoPos.
func clearPos(v reflect.Value) {
	switch v.Kind() {
	case reflect.Ptr, reflect.Interface:
		if !v.IsNil() {
			clearPos(v.Elem())
		}
	case reflect.Struct:
		for i := 0; i < v.NumField(); i++ {
			f := v.Field(i)
			if f.Type() == posType {
				if f.CanSet() {
					f.SetInt(0)
				}
				continue
			}
			if v.Type().Field(i).Name == "Obj" || v.Type().Field(i).Name == "Scope" || v.Type().Field(i).Name == "Unresolved" {
				continue
			}
			clearPos(f)
		}
	case reflect.Slice:
		for i := 0; i < v.Len(); i++ {
			clearPos(v.Index(i))
		}
	}
}
