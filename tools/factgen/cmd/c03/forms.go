package main

import (
	"factgen/fg"
)

type fnRef struct {
	file, recv, name string
	spec             FuncSpec
}

// the functions the facts are about, with their canonical receiver / parameter names
var fnRefs = []fnRef{
	{"pkg/api/galaxy/constant/constant.go", "", "ConvertReleasePolicy", FuncSpec{"", []string{"policyStr"}}},
	{dir + "floatingip_plugin.go", "", "parseReleasePolicy", FuncSpec{"", []string{"meta"}}},
	{dir + "floatingip_plugin.go", "FloatingIPPlugin", "supportReserveIPPolicy", FuncSpec{"p", []string{"obj", "policy"}}},
	{dir + "statefulset.go", "FloatingIPPlugin", "shouldRelease", FuncSpec{"p", []string{"keyObj", "parentAppExist", "replicas"}}},
	{dir + "statefulset.go", "FloatingIPPlugin", "unbindNoneDpPod", FuncSpec{"p", []string{"keyObj", "policy", "when"}}},
	{dir + "statefulset.go", "FloatingIPPlugin", "getStsReplicas", FuncSpec{"p", []string{"keyObj"}}},
	{dir + "statefulset.go", "FloatingIPPlugin", "checkAppAndReplicas", FuncSpec{"p", []string{"keyObj"}}},
	{dir + "deployment.go", "FloatingIPPlugin", "unbindDpPod", FuncSpec{"p", []string{"keyObj", "policy", "when"}}},
	{dir + "deployment.go", "FloatingIPPlugin", "getReplicasOfDeployment", FuncSpec{"p", []string{"keyObj"}}},
	{dir + "deployment.go", "FloatingIPPlugin", "getDpReplicas", FuncSpec{"p", []string{"keyObj"}}},
	{dir + "ipam.go", "FloatingIPPlugin", "getAvailableSubnet", FuncSpec{"p", []string{"keyObj", "policy", "replicas", "isPoolSizeDefined", "ipranges"}}},
	{dir + "ipam.go", "FloatingIPPlugin", "reserveIP", FuncSpec{"p", []string{"key", "prefixKey", "reason"}}},
	{dir + "filter.go", "FloatingIPPlugin", "getSubnet", FuncSpec{"p", []string{"pod"}}},
	{dir + "filter.go", "FloatingIPPlugin", "allocateDuringFilter", FuncSpec{"p", []string{"keyObj", "reserve", "isPoolSizeDefined", "reserveSubnet", "policy", "uid"}}},
	{dir + "resync.go", "FloatingIPPlugin", "fetchChecklist", FuncSpec{"p", []string{"meta"}}},
	{dir + "resync.go", "FloatingIPPlugin", "resyncAllocatedIPs", FuncSpec{"p", []string{"meta"}}},
	{dir + "bind.go", "FloatingIPPlugin", "unbind", FuncSpec{"p", []string{"pod"}}},
	{dir + "bind.go", "FloatingIPPlugin", "allocateIP", FuncSpec{"p", []string{"key", "nodeName", "pod"}}},
	{"pkg/ipam/floatingip/ipam_crd.go", "crdIpam", "ReserveIP", FuncSpec{"ci", []string{"oldK", "newK", "attr"}}},
	{"pkg/ipam/floatingip/ipam_crd.go", "crdIpam", "AllocateInSubnetWithKey", FuncSpec{"ci", []string{"oldK", "newK", "subnet", "attr"}}},
	{"pkg/ipam/crd/crdcache.go", "crdCache", "getLister", FuncSpec{"c", []string{"gvr"}}},
	{"pkg/ipam/crd/crdcache.go", "crdCache", "GetReplicas", FuncSpec{"c", []string{"gvr", "namespace", "name"}}},
	{"pkg/ipam/floatingip/floatingip.go", "FloatingIP", "Assign", FuncSpec{"f", []string{"key", "attr", "updateAt"}}},
	{"pkg/ipam/floatingip/floatingip.go", "FloatingIP", "CloneWith", FuncSpec{"f", []string{"key", "attr", "updateAt"}}},
}

// canonicalForms parses the files and normalises every function of fnRefs.
func canonicalForms(repo string) (map[string]*NF, error) {
	parsed := map[string]*fg.Parsed{}
	var all []*fg.Parsed
	for _, r := range fnRefs {
		if parsed[r.file] == nil {
			p, err := fg.ParseFile(repo, r.file)
			if err != nil {
				return nil, err
			}
			parsed[r.file] = p
			all = append(all, p)
		}
	}
	// one normaliser per package (helpers are looked up in the same package only)
	byPkg := map[string]*Normaliser{}
	pkgOf := func(file string) string {
		i := len(file) - 1
		for i >= 0 && file[i] != '/' {
			i--
		}
		return file[:i]
	}
	for f, p := range parsed {
		k := pkgOf(f)
		if byPkg[k] == nil {
			byPkg[k] = newNormaliser()
		}
		byPkg[k].RegisterFuncs(p.Fset, p.File)
	}
	out := map[string]*NF{}
	for _, r := range fnRefs {
		p := parsed[r.file]
		fd, err := p.Fn(r.recv, r.name)
		if err != nil {
			return nil, err
		}
		nf, err := byPkg[pkgOf(r.file)].Normalise(p.Fset, fd, r.spec)
		if err != nil {
			return nil, err
		}
		out[r.name] = nf
	}
	return out, nil
}
