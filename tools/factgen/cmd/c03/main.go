// factgen c03: regenerates lean/Galaxy/Generated/C03.lean from the CURRENT text of the release / reserve decision code
// of the galaxy-ipam scheduler plugin (properties C03 and C02):
//
//	schedulerplugin/statefulset.go  shouldRelease, unbindNoneDpPod, getStsReplicas, checkAppAndReplicas
//	schedulerplugin/deployment.go   unbindDpPod, getReplicasOfDeployment, getDpReplicas
//	schedulerplugin/ipam.go         getAvailableSubnet, reserveIP
//	schedulerplugin/filter.go       getSubnet, allocateDuringFilter
//	schedulerplugin/resync.go       fetchChecklist, resyncAllocatedIPs (closure)
//	schedulerplugin/bind.go         unbind, allocateIP
//	schedulerplugin/floatingip_plugin.go  parseReleasePolicy, supportReserveIPPolicy
//	floatingip/ipam_crd.go          ReserveIP, AllocateInSubnetWithKey;  floatingip/floatingip.go  Assign, CloneWith
//	api/galaxy/constant/constant.go policy enum, ConvertReleasePolicy, annotation strings
//
// Every function is first brought into a CANONICAL FORM (norm.go, harmless/NORMALISE.md: logs and message texts dropped,
// unknown private helpers inlined one level, switch = if-chain, else after a leaving branch dropped, index-range =
// value-range, alpha-renaming by position / callee / ranged expression, pure single-assignment locals inlined,
// negated comparisons simplified), then matched.  Three kinds of output (DESIGN.md section 3.1):
//
//	(a) comparison expressions with their operator and operand order, kept strictly, as Lean `def`s over Int
//	    (`replicas < int32(index)+1`, `len(fips) > replicas`, `replicas == 0`, `usedCount >= replicas`) and the
//	    reachability condition of `usedCount++` / of the unused-subnet insert inside the loop of getAvailableSubnet
//	    as a Boolean function of named atoms (guard clauses and nesting are the same thing here);
//	(b) constants and decision lists (policy enum, annotation strings; unbindDpPod / unbindNoneDpPod /
//	    supportReserveIPPolicy / shouldRelease as ordered (condition, action) lists that also carry the position of
//	    the pool lock and of the count);
//	(c) structural facts (lock scopes, policy copy in ReserveIP, re-read record in resync, no fall-through).
//
// A missing function makes the translator fail; a function whose canonical form is not the expected one yields
// `false` / a different list, so that the `fact_*` theorems stop building while the harness can still look for a
// failing input.
package main

import (
	"fmt"
	"go/ast"
	"go/token"
	"os"
	"path/filepath"
	"strings"

	"factgen/fg"
)

const dir = "pkg/ipam/schedulerplugin/"

func norm(s string) string { return strings.Join(strings.Fields(s), " ") }

// ---- (a) expression translation ------------------------------------------------------------------------------

// intExpr translates an integer Go expression over the named variables to a Lean Int term.
func intExpr(f *NF, e ast.Expr, vars map[string]string) (string, error) {
	switch x := e.(type) {
	case *ast.ParenExpr:
		return intExpr(f, x.X, vars)
	case *ast.BasicLit:
		if x.Kind == token.INT {
			return x.Value, nil
		}
	case *ast.Ident:
		if v, ok := vars[x.Name]; ok {
			return v, nil
		}
	case *ast.CallExpr:
		fn := f.Src(x.Fun)
		if (fn == "int32" || fn == "int" || fn == "int64") && len(x.Args) == 1 {
			return intExpr(f, x.Args[0], vars) // widening conversions of small non-negative numbers
		}
		if fn == "len" && len(x.Args) == 1 {
			if v, ok := vars["len("+f.Src(x.Args[0])+")"]; ok {
				return v, nil
			}
		}
	case *ast.BinaryExpr:
		var op string
		switch x.Op {
		case token.ADD:
			op = "+"
		case token.SUB:
			op = "-"
		case token.MUL:
			op = "*"
		default:
			return "", fmt.Errorf("unsupported integer operator %s in %s", x.Op, f.Src(e))
		}
		a, err := intExpr(f, x.X, vars)
		if err != nil {
			return "", err
		}
		b, err := intExpr(f, x.Y, vars)
		if err != nil {
			return "", err
		}
		return "(" + a + " " + op + " " + b + ")", nil
	}
	return "", fmt.Errorf("cannot translate integer expression %q", f.Src(e))
}

// cmpExpr translates a comparison `a <op> b` to a Lean Bool term, keeping operator and operand order.
func cmpExpr(f *NF, e ast.Expr, vars map[string]string) (string, error) {
	if pe, ok := e.(*ast.ParenExpr); ok {
		return cmpExpr(f, pe.X, vars)
	}
	be, ok := e.(*ast.BinaryExpr)
	if !ok {
		return "", fmt.Errorf("not a comparison: %q", f.Src(e))
	}
	var op string
	switch be.Op {
	case token.LSS:
		op = "<"
	case token.LEQ:
		op = "≤"
	case token.GTR:
		op = ">"
	case token.GEQ:
		op = "≥"
	case token.EQL:
		op = "="
	case token.NEQ:
		op = "≠"
	default:
		return "", fmt.Errorf("not a comparison: %q", f.Src(e))
	}
	a, err := intExpr(f, be.X, vars)
	if err != nil {
		return "", err
	}
	b, err := intExpr(f, be.Y, vars)
	if err != nil {
		return "", err
	}
	return "decide (" + a + " " + op + " " + b + ")", nil
}

// boolExpr translates a condition built from the named atoms with ! && ||.
func boolExpr(f *NF, e ast.Expr, atoms map[string]string) (string, error) {
	if v, ok := atoms[f.Src(e)]; ok {
		return v, nil
	}
	switch x := e.(type) {
	case *ast.ParenExpr:
		return boolExpr(f, x.X, atoms)
	case *ast.UnaryExpr:
		if x.Op == token.NOT {
			a, err := boolExpr(f, x.X, atoms)
			if err != nil {
				return "", err
			}
			return "(!" + a + ")", nil
		}
	case *ast.BinaryExpr:
		if x.Op == token.LAND || x.Op == token.LOR {
			a, err := boolExpr(f, x.X, atoms)
			if err != nil {
				return "", err
			}
			b, err := boolExpr(f, x.Y, atoms)
			if err != nil {
				return "", err
			}
			op := "&&"
			if x.Op == token.LOR {
				op = "||"
			}
			return "(" + a + " " + op + " " + b + ")", nil
		}
	}
	return "", fmt.Errorf("unknown condition atom %q", f.Src(e))
}

func conj(a, b string) string {
	switch {
	case a == "true":
		return b
	case b == "true":
		return a
	}
	return "(" + a + " && " + b + ")"
}

// reach computes the condition (over atoms) under which a statement whose text contains target is executed inside the
// statement list, which is entered under the condition `live`.  Guard clauses (`if c { continue }`) restrict what
// follows them; if / else trees nest.
func reach(f *NF, list []ast.Stmt, target string, atoms map[string]string, live string) (string, bool, error) {
	var alts []string
	for _, s := range list {
		is, ok := s.(*ast.IfStmt)
		if !ok {
			if strings.Contains(f.Src(s), target) {
				alts = append(alts, live)
			}
			continue
		}
		if is.Init != nil {
			if strings.Contains(f.Src(is.Init), target) {
				alts = append(alts, live) // `if err := <target>(…); err != nil { … }`: the call itself runs under `live`
			} else if strings.Contains(f.Src(is), target) {
				return "", false, fmt.Errorf("if with init around %q", target)
			}
			continue
		}
		inThen := strings.Contains(f.Src(is.Body), target)
		inElse := is.Else != nil && strings.Contains(f.Src(is.Else), target)
		thenLeaves := leaves(is.Body.List)
		if !inThen && !inElse && !thenLeaves {
			continue
		}
		c, err := boolExpr(f, is.Cond, atoms)
		if err != nil {
			if !inThen && !inElse {
				continue // a guard about something else (error plumbing): it only makes the target rarer
			}
			return "", false, err
		}
		if inThen {
			r, ok, err := reach(f, is.Body.List, target, atoms, conj(live, c))
			if err != nil {
				return "", false, err
			}
			if ok {
				alts = append(alts, r)
			}
		}
		if inElse {
			var el []ast.Stmt
			switch eb := is.Else.(type) {
			case *ast.BlockStmt:
				el = eb.List
			default:
				el = []ast.Stmt{eb}
			}
			r, ok, err := reach(f, el, target, atoms, conj(live, "(!"+c+")"))
			if err != nil {
				return "", false, err
			}
			if ok {
				alts = append(alts, r)
			}
		}
		if thenLeaves && is.Else == nil {
			live = conj(live, "(!"+c+")")
		}
	}
	if len(alts) == 0 {
		return "", false, nil
	}
	if len(alts) == 1 {
		return alts[0], true, nil
	}
	return "(" + strings.Join(alts, " || ") + ")", true, nil
}

// reachableUnder: can a statement containing target be executed when the named conditions have the given values
// (all other conditions are free)?
func reachableUnder(f *NF, list []ast.Stmt, target string, env map[string]bool) bool {
	r, _ := reachableRec(f, list, target, env)
	return r
}

// returns (target reachable, the list may be left by falling off its end)
func reachableRec(f *NF, list []ast.Stmt, target string, env map[string]bool) (bool, bool) {
	for _, s := range list {
		is, ok := s.(*ast.IfStmt)
		if !ok {
			if strings.Contains(f.Src(s), target) {
				return true, true
			}
			if leaves([]ast.Stmt{s}) {
				return false, false
			}
			continue
		}
		if is.Init != nil && strings.Contains(f.Src(is.Init), target) {
			return true, true
		}
		val, known := evalCond(f, is.Cond, env)
		thenFalls, elseFalls := false, true
		if !known || val {
			r, falls := reachableRec(f, is.Body.List, target, env)
			if r {
				return true, true
			}
			thenFalls = falls
		}
		if is.Else != nil && (!known || !val) {
			var el []ast.Stmt
			switch eb := is.Else.(type) {
			case *ast.BlockStmt:
				el = eb.List
			default:
				el = []ast.Stmt{eb}
			}
			r, falls := reachableRec(f, el, target, env)
			if r {
				return true, true
			}
			elseFalls = falls
		}
		if known && val && !thenFalls {
			return false, false
		}
		if known && !val && is.Else != nil && !elseFalls {
			return false, false
		}
		if !known && !thenFalls && is.Else != nil && !elseFalls {
			return false, false
		}
	}
	return false, true
}

func evalCond(f *NF, e ast.Expr, env map[string]bool) (bool, bool) {
	if v, ok := env[f.Src(e)]; ok {
		return v, true
	}
	switch x := e.(type) {
	case *ast.ParenExpr:
		return evalCond(f, x.X, env)
	case *ast.UnaryExpr:
		if x.Op == token.NOT {
			v, k := evalCond(f, x.X, env)
			return !v, k
		}
	case *ast.BinaryExpr:
		a, ka := evalCond(f, x.X, env)
		b, kb := evalCond(f, x.Y, env)
		switch x.Op {
		case token.LAND:
			if (ka && !a) || (kb && !b) {
				return false, true
			}
			return a && b, ka && kb
		case token.LOR:
			if (ka && a) || (kb && b) {
				return true, true
			}
			return a || b, ka && kb
		}
	}
	return false, false
}

// ---- decision lists ------------------------------------------------------------------------------------------------

// actionOfReturn names what a return statement does.
func actionOfReturn(f *NF, r *ast.ReturnStmt) string {
	t := f.Src(r)
	switch {
	case strings.Contains(t, "p.releaseIP(keyObj.KeyInDB"):
		return "release"
	case strings.Contains(t, "p.reserveIP(keyObj.KeyInDB, keyObj.PoolPrefix()"):
		return "reserve-prefix"
	case strings.Contains(t, "p.reserveIP(keyObj.KeyInDB, keyObj.KeyInDB"):
		return "reserve-own"
	case t == "return nil":
		return "nil"
	case t == "return":
		return "return"
	}
	if len(r.Results) > 0 {
		first := f.Src(r.Results[0])
		last := f.Src(r.Results[len(r.Results)-1])
		if first == "true" || first == "false" {
			if last == "nil" || len(r.Results) == 1 {
				return first
			}
			return "error"
		}
		if last != "nil" && (strings.Contains(last, "err") || strings.Contains(last, "fmt.Errorf") ||
			last == "NotStatefulWorkload" || last == "NoReplicas") {
			return "error"
		}
	}
	return t
}

// decisions lists a canonical statement sequence as (condition, action) pairs: `if c { … }` gives (c, summary of the
// body); calls that define locals give ("let", text); defers ("defer", text); a return gives ("otherwise", action).
func decisions(f *NF, list []ast.Stmt) [][2]string {
	var out [][2]string
	for _, s := range list {
		switch x := s.(type) {
		case *ast.IfStmt:
			cur := x
			for cur != nil {
				cond := f.Src(cur.Cond)
				if cur.Init != nil {
					cond = f.Src(cur.Init) + "; " + cond
				}
				out = append(out, [2]string{cond, summary(f, cur.Body.List)})
				switch e := cur.Else.(type) {
				case *ast.IfStmt:
					cur = e
				case *ast.BlockStmt:
					out = append(out, [2]string{"else", summary(f, e.List)})
					cur = nil
				default:
					cur = nil
				}
			}
		case *ast.AssignStmt:
			if len(x.Rhs) == 1 {
				if c, ok := x.Rhs[0].(*ast.CallExpr); ok && !strings.HasPrefix(calleeText(c), "fmt.") {
					out = append(out, [2]string{"let", f.Src(x)})
				}
			}
		case *ast.DeferStmt:
			out = append(out, [2]string{"defer", strings.TrimPrefix(f.Src(x), "defer ")})
		case *ast.ReturnStmt:
			out = append(out, [2]string{"otherwise", actionOfReturn(f, x)})
		case *ast.RangeStmt:
			out = append(out, [2]string{"for", f.Src(x.X)})
		}
	}
	return out
}

func summary(f *NF, list []ast.Stmt) string {
	var parts []string
	for _, d := range decisions(f, list) {
		switch d[0] {
		case "otherwise":
			parts = append(parts, d[1])
		case "let", "defer", "for":
			parts = append(parts, "["+d[0]+" "+d[1]+"]")
		default:
			if d[1] != "" {
				parts = append(parts, "["+d[0]+" -> "+d[1]+"]")
			}
		}
	}
	return strings.Join(parts, " ")
}

func leanPairs(ps [][2]string) string {
	var l []string
	for _, x := range ps {
		l = append(l, "("+fg.LeanStr(x[0])+", "+fg.LeanStr(x[1])+")")
	}
	return "[" + strings.Join(l, ",\n   ") + "]"
}

func indexOf(ps [][2]string, kind, sub string) int {
	for i, p := range ps {
		if (kind == "" || p[0] == kind) && strings.Contains(p[0]+" "+p[1], sub) {
			return i
		}
	}
	return -1
}

// findIf returns the first if statement (any depth) inside n whose condition text contains all of subs.
func findIf(f *NF, n ast.Node, subs ...string) *ast.IfStmt {
	var out *ast.IfStmt
	ast.Inspect(n, func(x ast.Node) bool {
		if out != nil {
			return false
		}
		if is, ok := x.(*ast.IfStmt); ok {
			c := f.Src(is.Cond)
			all := true
			for _, s := range subs {
				if !strings.Contains(c, s) {
					all = false
				}
			}
			if all {
				out = is
				return false
			}
		}
		return true
	})
	return out
}

func stmtIdx(f *NF, list []ast.Stmt, sub string) int {
	for i, s := range list {
		if strings.Contains(f.Src(s), sub) {
			return i
		}
	}
	return -1
}

func blockReturns(f *NF, b *ast.BlockStmt, sub string) bool {
	if b == nil {
		return false
	}
	for _, s := range b.List {
		if r, ok := s.(*ast.ReturnStmt); ok && strings.Contains(f.Src(r), sub) {
			return true
		}
	}
	return false
}

func before(a, b int) bool { return a >= 0 && b >= 0 && a < b }

func gen(repo string) (map[string]string, error) {
	var b strings.Builder
	b.WriteString(fg.Header("release / reserve decision code of the scheduler plugin (properties C03, C02)",
		dir+"statefulset.go", dir+"deployment.go", dir+"ipam.go", dir+"filter.go", dir+"resync.go", dir+"bind.go",
		dir+"floatingip_plugin.go", "pkg/ipam/floatingip/ipam_crd.go", "pkg/ipam/floatingip/floatingip.go",
		"pkg/api/galaxy/constant/constant.go"))
	b.WriteString("set_option linter.unusedVariables false\nnamespace Galaxy.Generated.C03\n\n")
	say := func(doc, def string) { fmt.Fprintf(&b, "/-- %s -/\n%s\n\n", doc, def) }
	fact := func(doc, name string, v bool) { say(doc, fmt.Sprintf("def %s : Bool := %s", name, fg.LeanBool(v))) }

	forms, err := canonicalForms(repo)
	if err != nil {
		return nil, err
	}
	dump(forms)

	// ---------------------------------------------------------------- constants
	cs, err := fg.ParseFile(repo, "pkg/api/galaxy/constant/constant.go")
	if err != nil {
		return nil, err
	}
	var enum []string
	for _, d := range cs.File.Decls {
		gd, ok := d.(*ast.GenDecl)
		if !ok || gd.Tok != token.CONST {
			continue
		}
		iota := false
		for i, s := range gd.Specs {
			vs := s.(*ast.ValueSpec)
			if i == 0 && len(vs.Values) == 1 && cs.Src(vs.Values[0]) == "iota" && cs.Src(vs.Type) == "ReleasePolicy" {
				iota = true
			}
			if iota {
				if i > 0 && len(vs.Values) != 0 {
					return nil, fmt.Errorf("constant.go: release policy enum is no longer a plain iota block")
				}
				for _, n := range vs.Names {
					enum = append(enum, n.Name)
				}
			}
		}
	}
	if len(enum) != 3 {
		return nil, fmt.Errorf("constant.go: release policy enum has %d members: %v", len(enum), enum)
	}
	val := map[string]int{}
	for i, n := range enum {
		val[n] = i
	}
	for _, n := range []string{"ReleasePolicyPodDelete", "ReleasePolicyImmutable", "ReleasePolicyNever"} {
		v, ok := val[n]
		if !ok {
			return nil, fmt.Errorf("constant.go: %s is gone", n)
		}
		fmt.Fprintf(&b, "def %s : Nat := %d\n", strings.ToLower(n[:1])+n[1:], v)
	}
	for _, c := range [][2]string{{"ReleasePolicyAnnotation", "releasePolicyAnnotation"}, {"Immutable", "immutableStr"}, {"Never", "neverStr"}} {
		v, err := cs.ConstString(c[0])
		if err != nil {
			return nil, err
		}
		fmt.Fprintf(&b, "def %s : String := %s\n", c[1], fg.LeanStr(v))
	}
	// ConvertReleasePolicy (canonical: an if chain on `policyStr == <const>`)
	conv := forms["ConvertReleasePolicy"]
	var convTbl []string
	convDefault := -1
	for _, d := range decisions(conv, conv.Decl.Body.List) {
		ret := strings.TrimPrefix(strings.TrimPrefix(d[1], "return "), "constant.")
		v, ok := val[ret]
		if !ok {
			v = -1
		}
		if d[0] == "otherwise" || d[0] == "else" {
			convDefault = v
			continue
		}
		for _, alt := range strings.Split(d[0], "||") {
			alt = strings.TrimSpace(alt)
			if !strings.HasPrefix(alt, "policyStr == ") {
				return nil, fmt.Errorf("constant.go: ConvertReleasePolicy has an untranslatable case %q", d[0])
			}
			s, err := cs.ConstString(strings.TrimPrefix(alt, "policyStr == "))
			if err != nil {
				s = "?" + alt
			}
			convTbl = append(convTbl, fmt.Sprintf("(%s, %d)", fg.LeanStr(s), v))
		}
	}
	if convDefault < 0 {
		return nil, fmt.Errorf("constant.go: ConvertReleasePolicy has no translatable default case")
	}
	say("`ConvertReleasePolicy`: annotation value to policy; any other value gives `convertDefault`",
		fmt.Sprintf("def convertTable : List (String × Nat) := [%s]\ndef convertDefault : Nat := %d", strings.Join(convTbl, ", "), convDefault))
	poolAnn := ""
	if ents, err := os.ReadDir(filepath.Join(repo, "pkg/api/galaxy/constant")); err == nil {
		for _, e := range ents {
			if strings.HasSuffix(e.Name(), ".go") && !strings.HasSuffix(e.Name(), "_test.go") {
				if q, err := fg.ParseFile(repo, "pkg/api/galaxy/constant/"+e.Name()); err == nil {
					if v, err := q.ConstString("IPPoolAnnotation"); err == nil {
						poolAnn = v
					}
				}
			}
		}
	}
	if poolAnn == "" {
		return nil, fmt.Errorf("package constant: IPPoolAnnotation not found")
	}
	fmt.Fprintf(&b, "def ipPoolAnnotation : String := %s\n\n", fg.LeanStr(poolAnn))

	// ---------------------------------------------------------------- parseReleasePolicy
	prp := forms["parseReleasePolicy"]
	pd := decisions(prp, prp.Decl.Body.List)
	poolI := indexOf(pd, "", `constant.GetPool(meta.Annotations) != ""`)
	convI := indexOf(pd, "otherwise", "constant.ConvertReleasePolicy(meta.Annotations[constant.ReleasePolicyAnnotation])")
	fact("`parseReleasePolicy`: a non-empty pool annotation returns ReleasePolicyNever BEFORE the release-policy annotation is looked at",
		"poolAnnotationForcesNever", before(poolI, convI) && strings.Contains(pd[poolI][1], "constant.ReleasePolicyNever"))

	// ---------------------------------------------------------------- supportReserveIPPolicy
	sup := forms["supportReserveIPPolicy"]
	say("`supportReserveIPPolicy` as a decision list: (condition, result)",
		"def supportReserveTable : List (String × String) :=\n  "+leanPairs(decisions(sup, sup.Decl.Body.List)))

	// ---------------------------------------------------------------- statefulset.go
	sr := forms["shouldRelease"]
	var scaled *ast.IfStmt
	for _, s := range sr.Decl.Body.List {
		if is, ok := s.(*ast.IfStmt); ok && blockReturns(sr, is.Body, "return true, deletedAndScaledDownAppPod") {
			scaled = is
		}
	}
	if scaled == nil {
		return nil, fmt.Errorf("statefulset.go: shouldRelease no longer has an `if <cmp> { return true, deletedAndScaledDownAppPod, nil }`")
	}
	c, err := cmpExpr(sr, scaled.Cond, map[string]string{"replicas": "replicas", "index": "index"})
	if err != nil {
		return nil, fmt.Errorf("statefulset.go shouldRelease: %v", err)
	}
	say("`shouldRelease`: the scaled-down test, source text `"+sr.Src(scaled.Cond)+"`",
		"def shouldReleaseScaledDown (replicas index : Int) : Bool := "+c)
	srd := decisions(sr, sr.Decl.Body.List)
	for i := range srd {
		if srd[i][0] == sr.Src(scaled.Cond) {
			srd[i][0] = "<scaled-down test>"
		}
	}
	say("`shouldRelease` as a decision list (the comparison itself is `shouldReleaseScaledDown`)",
		"def shouldReleaseTable : List (String × String) :=\n  "+leanPairs(srd))

	und := forms["unbindNoneDpPod"]
	say("`unbindNoneDpPod` as a decision list: (condition, actions)",
		"def unbindNoneDpTable : List (String × String) :=\n  "+leanPairs(decisions(und, und.Decl.Body.List)))
	gsr := forms["getStsReplicas"]
	fact("`getStsReplicas`: NotFound means the app does not exist (no error); found means appExist with spec.replicas (default 1)",
		"stsReplicasShape", strings.Contains(gsr.Text, "if err != nil { if !metaErrs.IsNotFound(err) { retErr = err return } } else { appExist = true replicas = 1 if obj.Spec.Replicas != nil { replicas = *obj.Spec.Replicas } }"))
	car := forms["checkAppAndReplicas"]
	cd := decisions(car, car.Decl.Body.List)
	fact("`checkAppAndReplicas`: statefulset lister, else the replicas of a scalable custom resource, else error",
		"checkAppAndReplicasShape", len(cd) >= 3 && cd[0][0] == "keyObj.StatefulSet()" && strings.Contains(car.Src(car.Decl.Body.List[0]), "return p.getStsReplicas(keyObj)") &&
			strings.HasPrefix(cd[1][0], "gvr := p.crdKey.GetGroupVersionResource(keyObj.AppTypePrefix); gvr != nil") && cd[2][0] == "else" &&
			strings.Contains(car.Text, "p.crdCache.GetReplicas(*gvr, keyObj.Namespace, keyObj.AppName)"))

	// ---------------------------------------------------------------- deployment.go
	ub := forms["unbindDpPod"]
	zero := findIf(ub, ub.Decl.Body, "replicas", "0")
	exceed := findIf(ub, ub.Decl.Body, "len(fips)", "replicas")
	if zero == nil || exceed == nil {
		return nil, fmt.Errorf("deployment.go: unbindDpPod no longer has the `replicas == 0` / `len(fips) > replicas` tests")
	}
	cz, err := cmpExpr(ub, zero.Cond, map[string]string{"replicas": "replicas"})
	if err != nil {
		return nil, fmt.Errorf("deployment.go unbindDpPod: %v", err)
	}
	ce, err := cmpExpr(ub, exceed.Cond, map[string]string{"replicas": "replicas", "len(fips)": "nFips"})
	if err != nil {
		return nil, fmt.Errorf("deployment.go unbindDpPod: %v", err)
	}
	say("`unbindDpPod` (immutable): release at once when `"+ub.Src(zero.Cond)+"`", "def dpNoReplicas (replicas : Int) : Bool := "+cz)
	say("`unbindDpPod` (immutable): release the exceeding part when `"+ub.Src(exceed.Cond)+"` (nFips = number of records under the pool / app prefix)",
		"def dpExceeds (nFips replicas : Int) : Bool := "+ce)
	ud := decisions(ub, ub.Decl.Body.List)
	for i := range ud {
		switch ud[i][0] {
		case ub.Src(zero.Cond):
			ud[i][0] = "<no-replicas test>"
		case ub.Src(exceed.Cond):
			ud[i][0] = "<exceeds test>"
		}
	}
	say("`unbindDpPod` as a decision list: policy branches, replicas lookup, pool lock, count, decision - in source order (the two comparisons are `dpNoReplicas` / `dpExceeds`)",
		"def unbindDpTable : List (String × String) :=\n  "+leanPairs(ud))
	lockI := indexOf(ud, "defer", "p.LockDpPool(keyObj.PoolPrefix())()")
	byI := indexOf(ud, "let", "p.ipam.ByPrefix(keyObj.PoolPrefix())")
	exI := indexOf(ud, "<exceeds test>", "")
	lastReserve := -1
	for i, d := range ud {
		if strings.Contains(d[1], "reserve-prefix") || strings.Contains(d[1], "release") {
			lastReserve = i
		}
	}
	zeroI := indexOf(ud, "<no-replicas test>", "")
	fact("`unbindDpPod`: `defer p.LockDpPool(PoolPrefix())()` comes before the `ByPrefix(PoolPrefix())` count, which comes before the release / reserve decision of the immutable branch; the `replicas == 0` shortcut precedes the lock",
		"unbindDpCountAndDecisionUnderPoolLock", before(lockI, byI) && before(byI, exI) && before(zeroI, lockI) && exI <= lastReserve &&
			strings.Count(ub.Text, "LockDpPool(") == 1)
	grd := forms["getReplicasOfDeployment"]
	fact("`getReplicasOfDeployment`: a deployment the lister does not know has 0 replicas (no error)",
		"dpMissingMeansZeroReplicas", strings.Contains(grd.Text, "replicas := 0 if err != nil { if !metaErrs.IsNotFound(err) { return 0, err } } else { replicas = int(*obj.Spec.Replicas) } return replicas, nil"))
	gdr := forms["getDpReplicas"]
	fact("`getDpReplicas`: a named pool with a Pool object gives (pool.Size, true); otherwise the deployment's replicas and false",
		"dpReplicasShape", strings.Contains(gdr.Text, `if keyObj.PoolName != ""`) && strings.Contains(gdr.Text, "return obj.Size, true, nil") &&
			strings.Contains(gdr.Text, "return replicas, false, nil"))

	gdd := decisions(gdr, gdr.Decl.Body.List)
	letI := indexOf(gdd, "let", "replicas, err := p.getReplicasOfDeployment(keyObj)")
	retI := indexOf(gdd, "otherwise", "return replicas, false, nil")
	fact("the quota of a deployment without sized pool is `spec.replicas` and nothing else: getReplicasOfDeployment assigns `int(*obj.Spec.Replicas)` (0 when unknown) and getDpReplicas returns exactly that value (`return replicas, false, nil`)",
		"dpReplicasIsSpecReplicas", before(letI, retI) && retI == len(gdd)-1 && strings.Count(gdr.Text, "replicas") == strings.Count(gdr.Text, "replicas, err := p.getReplicasOfDeployment(keyObj)")+strings.Count(gdr.Text, "return replicas, false, nil") &&
			strings.Count(grd.Text, "replicas =") == 1 && strings.Contains(grd.Text, "replicas = int(*obj.Spec.Replicas)") && strings.Contains(grd.Text, "replicas := 0") &&
			strings.HasSuffix(grd.Text, "return replicas, nil }"))

	// ---------------------------------------------------------------- ipam.go getAvailableSubnet
	gas := forms["getAvailableSubnet"]
	outer := findIf(gas, gas.Decl.Body, "keyObj.Deployment()", "policy")
	if outer == nil {
		return nil, fmt.Errorf("ipam.go: getAvailableSubnet lost its deployment / policy guard")
	}
	gc, err := boolExpr(gas, outer.Cond, map[string]string{"keyObj.Deployment()": "isDp",
		"policy != constant.ReleasePolicyPodDelete": "(policy != releasePolicyPodDelete)",
		"policy == constant.ReleasePolicyPodDelete": "(policy == releasePolicyPodDelete)"})
	if err != nil {
		return nil, fmt.Errorf("ipam.go getAvailableSubnet guard: %v", err)
	}
	say("`getAvailableSubnet`: the reserved-IP lookup applies when `"+gas.Src(outer.Cond)+"`",
		"def reserveLookupApplies (isDp : Bool) (policy : Nat) : Bool := "+gc)
	limit := findIf(gas, outer.Body, "usedCount", "replicas")
	if limit == nil {
		return nil, fmt.Errorf("ipam.go: getAvailableSubnet lost the usedCount / replicas test")
	}
	cl, err := cmpExpr(gas, limit.Cond, map[string]string{"usedCount": "usedCount", "replicas": "replicas"})
	if err != nil {
		return nil, fmt.Errorf("ipam.go getAvailableSubnet: %v", err)
	}
	say("`getAvailableSubnet`: no more IPs for the app / pool when `"+gas.Src(limit.Cond)+"`",
		"def sizeLimitReached (usedCount replicas : Int) : Bool := "+cl)
	var loop *ast.RangeStmt
	for _, s := range outer.Body.List {
		if r, ok := s.(*ast.RangeStmt); ok && gas.Src(r.X) == "ips" {
			loop = r
		}
	}
	if loop == nil {
		return nil, fmt.Errorf("ipam.go: getAvailableSubnet lost `for _, ip := range ips`")
	}
	atoms := map[string]string{"ip.Key != keyObj.PoolPrefix()": "(!keyIsPrefix)", "ip.Key == keyObj.PoolPrefix()": "keyIsPrefix",
		"isPoolSizeDefined": "sized", `keyObj.PoolName == ""`: "noPool", `keyObj.PoolName != ""`: "(!noPool)",
		"strings.HasPrefix(ip.Key, keyObj.PoolAppPrefix())": "hasAppPrefix"}
	used, ok, err := reach(gas, loop.Body.List, "usedCount++", atoms, "true")
	if err != nil || !ok {
		return nil, fmt.Errorf("ipam.go getAvailableSubnet: cannot translate when `usedCount++` runs: %v", err)
	}
	unused, ok, err := reach(gas, loop.Body.List, "unusedSubnetSet.Insert(", atoms, "true")
	if err != nil || !ok {
		return nil, fmt.Errorf("ipam.go getAvailableSubnet: cannot translate when the unused subnets are collected: %v", err)
	}
	say("`getAvailableSubnet`: a record under the pool prefix counts as USED iff … (keyIsPrefix: key = pool prefix; sized: a Pool object defines the size; noPool: the pod names no pool; hasAppPrefix: the key starts with this app's prefix inside the pool)",
		"def countsAsUsed (keyIsPrefix sized noPool hasAppPrefix : Bool) : Bool := "+used)
	say("`getAvailableSubnet`: a record contributes its node subnets to the reserved (unused) set iff …",
		"def countsAsUnused (keyIsPrefix sized noPool hasAppPrefix : Bool) : Bool := "+unused)
	od := decisions(gas, outer.Body.List)
	rangesI := indexOf(od, "len(ipranges) > 0", "error")
	byPrefixI := indexOf(od, "let", "p.ipam.ByPrefix(keyObj.PoolPrefix())")
	loopI := indexOf(od, "for", "ips")
	limitI := indexOf(od, gas.Src(limit.Cond), "error")
	unusedI := -1
	for i, s := range outer.Body.List {
		if is, ok := s.(*ast.IfStmt); ok && strings.Contains(gas.Src(is.Cond), "unusedSubnetSet.Len() > 0") && blockReturns(gas, is.Body, "return unusedSubnetSet, true, nil") {
			unusedI = i
		}
	}
	limitStmtI, outerI := -1, -1
	for i, s := range outer.Body.List {
		if s == ast.Stmt(limit) {
			limitStmtI = i
		}
	}
	for i, s := range gas.Decl.Body.List {
		if s == ast.Stmt(outer) {
			outerI = i
		}
	}
	fallback := stmtIdx(gas, gas.Decl.Body.List, "p.ipam.NodeSubnetsByIPRanges(ipranges)")
	fact("`getAvailableSubnet`: requested ranges are refused; ByPrefix(PoolPrefix()); the count loop; the size limit returns an error; THEN the reserved subnets are returned with reserve=true; only otherwise the free subnets (reserve=false)",
		"availableSubnetShape", before(rangesI, byPrefixI) && before(byPrefixI, loopI) && before(loopI, limitI) && before(limitStmtI, unusedI) &&
			before(outerI, fallback))
	rip := forms["reserveIP"]
	fact("plugin `reserveIP(key, prefixKey)` calls `ReserveIP(key, prefixKey, floatingip.Attr{})`: node and uid are cleared, the policy field of the argument is NOT what is stored (see reserveCopiesStoredPolicy)",
		"reserveIPPassesEmptyAttr", strings.Contains(rip.Text, "p.ipam.ReserveIP(key, prefixKey, floatingip.Attr{})"))

	// ---------------------------------------------------------------- filter.go
	gsn := forms["getSubnet"]
	var dpIf *ast.IfStmt
	dpIfI := -1
	for i, s := range gsn.Decl.Body.List {
		if is, ok := s.(*ast.IfStmt); ok && gsn.Src(is.Cond) == "keyObj.Deployment()" {
			dpIf, dpIfI = is, i
		}
	}
	lockOK := false
	if dpIf != nil {
		dd := decisions(gsn, dpIf.Body.List)
		lockOK = indexOf(dd, "defer", "p.LockDpPool(keyObj.PoolPrefix())()") >= 0 && indexOf(dd, "let", "p.getDpReplicas(keyObj)") >= 0
	}
	availI := stmtIdx(gsn, gsn.Decl.Body.List, "p.getAvailableSubnet(keyObj, policy, replicas, isPoolSizeDefined, ipranges)")
	allocI := stmtIdx(gsn, gsn.Decl.Body.List, "p.allocateDuringFilter(")
	fact("`getSubnet`: for deployment pods `defer p.LockDpPool(keyObj.PoolPrefix())()` is taken before getAvailableSubnet (the count) and allocateDuringFilter (the allocation) - both inside the lock scope",
		"getSubnetCountAndAllocateUnderPoolLock", lockOK && before(dpIfI, availI) && before(availI, allocI))
	allocWhen, ok, err := reach(gsn, gsn.Decl.Body.List, "p.allocateDuringFilter(", map[string]string{"reserve": "reserve",
		"isPoolSizeDefined": "sized", "subnetSet.Len() > 0": "nonEmpty", "subnetSet.Len() == 0": "(!nonEmpty)",
		"subnetSet.Len() != 0": "nonEmpty"}, "true")
	if err != nil || !ok {
		return nil, fmt.Errorf("filter.go getSubnet: cannot translate when allocateDuringFilter runs: %v", err)
	}
	say("`getSubnet`: the allocation during filter runs iff … (nonEmpty: the subnet set is not empty)",
		"def filterAllocatesWhen (reserve sized nonEmpty : Bool) : Bool := "+allocWhen)
	allocErr := false
	ast.Inspect(gsn.Decl.Body, func(n ast.Node) bool {
		if is, ok := n.(*ast.IfStmt); ok && is.Init != nil && strings.Contains(gsn.Src(is.Init), "p.allocateDuringFilter(") &&
			gsn.Src(is.Cond) == "err != nil" && blockReturns(gsn, is.Body, "return nil, err") {
			allocErr = true
		}
		return true
	})
	fact("`getSubnet`: the allocation during filter happens in the first subnet of the sorted list, and the error of allocateDuringFilter is returned (no nodes are offered then)",
		"getSubnetReturnsAllocError", allocErr && strings.Contains(gsn.Text, "subnetSet.List()[0]") &&
			strings.Count(gsn.Text, "p.allocateDuringFilter(") == 1)
	fact("`getSubnet`: without requested ranges a pod whose key already owns an address is answered with that address' node subnets (`ipInfos[0].NodeSubnets`) before anything else is looked at",
		"getSubnetAnswersOwnedFirst", strings.Contains(gsn.Text, "if len(ipranges) == 0 { if len(ipInfos) > 0 { return ipInfos[0].NodeSubnets, nil } }") &&
			before(stmtIdx(gsn, gsn.Decl.Body.List, "if len(ipranges) == 0 {"), stmtIdx(gsn, gsn.Decl.Body.List, "p.supportReserveIPPolicy(")))
	adf := forms["allocateDuringFilter"]
	body := adf.Decl.Body.List
	// the error of the re-keying is returned: `if err := f(); err != nil { return err }` or `return f()`
	errReturned := false
	ast.Inspect(adf.Decl.Body, func(n ast.Node) bool {
		switch x := n.(type) {
		case *ast.IfStmt:
			if x.Init != nil && strings.Contains(adf.Src(x.Init), "p.allocateInSubnetWithKey(keyObj.PoolPrefix(), keyObj.KeyInDB, reserveSubnet,") &&
				adf.Src(x.Cond) == "err != nil" && blockReturns(adf, x.Body, "return err") {
				errReturned = true
			}
		case *ast.ReturnStmt:
			if strings.HasPrefix(adf.Src(x), "return p.allocateInSubnetWithKey(keyObj.PoolPrefix(), keyObj.KeyInDB, reserveSubnet,") {
				errReturned = true
			}
		}
		return true
	})
	noFall := errReturned &&
		reachableUnder(adf, body, "p.allocateInSubnetWithKey(", map[string]bool{"reserve": true}) &&
		!reachableUnder(adf, body, "p.allocateInSubnet(", map[string]bool{"reserve": true}) &&
		!reachableUnder(adf, body, "p.allocateInSubnetWithKey(", map[string]bool{"reserve": false}) &&
		strings.Count(adf.Text, "p.allocateInSubnetWithKey(") == 1
	fact("`allocateDuringFilter`: with reserve=true the only allocation is allocateInSubnetWithKey(PoolPrefix → key); its error is returned; a fresh allocation (allocateInSubnet) is reachable only when reserve=false",
		"allocateDuringFilterNoFallThrough", noFall)
	fact("`allocateDuringFilter`: the attributes written are (policy of the pod, node \"\", uid of the pod)",
		"allocateDuringFilterAttr", strings.Count(adf.Text, `floatingip.Attr{Policy: policy, NodeName: "", Uid: uid}`) >= 1 &&
			!strings.Contains(strings.ReplaceAll(adf.Text, `floatingip.Attr{Policy: policy, NodeName: "", Uid: uid}`, ""), "floatingip.Attr{"))

	// ---------------------------------------------------------------- resync.go
	fc := forms["fetchChecklist"]
	noPod := findIf(fc, fc.Decl.Body, `keyObj.PodName == ""`)
	fact("`fetchChecklist`: records whose key has no pod name (app / pool prefix keys) are skipped - the root of the known finding dp-prefix-ip-never-reevaluated",
		"resyncSkipsKeysWithoutPodName", noPod != nil && fc.Src(noPod.Cond) == `keyObj.PodName == ""` && strings.Contains(fc.Src(noPod.Body), "continue"))
	neverSkip := findIf(fc, fc.Decl.Body, "fip.PodUid", "fip.NodeName", "ReleasePolicyNever")
	if neverSkip == nil {
		return nil, fmt.Errorf("resync.go: fetchChecklist lost the never-policy skip")
	}
	ns, err := boolExpr(fc, neverSkip.Cond, map[string]string{`fip.PodUid == ""`: "uidEmpty", `fip.NodeName == ""`: "nodeEmpty",
		"keyObj.Deployment()": "isDp", "constant.ReleasePolicy(fip.Policy) == constant.ReleasePolicyNever": "(policy == releasePolicyNever)"})
	if err != nil {
		return nil, fmt.Errorf("resync.go fetchChecklist: %v", err)
	}
	say("`fetchChecklist`: a record is skipped (never re-checked) when `"+fc.Src(neverSkip.Cond)+"`",
		"def resyncSkipsReserved (uidEmpty nodeEmpty isDp : Bool) (policy : Nat) : Bool := "+ns)
	rai := forms["resyncAllocatedIPs"]
	var closure *ast.FuncLit
	ast.Inspect(rai.Decl, func(n ast.Node) bool {
		if f, ok := n.(*ast.FuncLit); ok && closure == nil {
			closure = f
		}
		return closure == nil
	})
	resOK := false
	if closure != nil {
		cl := closure.Body.List
		rd := stmtIdx(rai, cl, "p.ipam.ByIP(obj.fip.IP)")
		as := -1
		for i, s := range cl {
			if rai.Src(s) == "obj.fip = fip" {
				as = i
			}
		}
		u1 := stmtIdx(rai, cl, "p.unbindNoneDpPod(")
		cb := rai.Src(closure.Body)
		resOK = before(rd, as) && before(as, u1) &&
			strings.Contains(cb, `p.unbindNoneDpPod(obj.keyObj, constant.ReleasePolicy(obj.fip.Policy), "during resync")`) &&
			strings.Contains(cb, `p.unbindDpPod(obj.keyObj, constant.ReleasePolicy(obj.fip.Policy), "during resync")`) &&
			strings.Contains(cb, "if !obj.keyObj.Deployment()") && strings.Count(cb, "p.unbindDpPod(")+strings.Count(cb, "p.unbindNoneDpPod(") == 2
	}
	fact("resync closure: the record is re-read (`ByIP`), stored into `obj.fip`, and the decision functions get `constant.ReleasePolicy(obj.fip.Policy)` - the STORED policy of the re-read record",
		"resyncUsesRereadRecordAndStoredPolicy", resOK)

	// ---------------------------------------------------------------- bind.go unbind
	unb := forms["unbind"]
	fact("`unbind` (event path): the policy is parsed from the event's pod object; deployment keys go to unbindDpPod, all others to unbindNoneDpPod",
		"unbindUsesPodPolicy", strings.Contains(unb.Text, "policy := parseReleasePolicy(&pod.ObjectMeta)") &&
			strings.Contains(unb.Text, `if keyObj.Deployment() { return p.unbindDpPod(keyObj, policy, "during unbinding pod") } return p.unbindNoneDpPod(keyObj, policy, "during unbinding pod")`))

	// ---------------------------------------------------------------- floatingip: ReserveIP, Assign, CloneWith
	rsv := forms["ReserveIP"]
	copyOK := false
	ast.Inspect(rsv.Decl, func(n ast.Node) bool {
		blk, ok := n.(*ast.BlockStmt)
		if !ok {
			return true
		}
		cp, cw, up, as := -1, -1, -1, -1
		otherPolicyWrite := false
		for i, s := range blk.List {
			t := rsv.Src(s)
			switch {
			case t == "attr.Policy = constant.ReleasePolicy(v.Policy)":
				cp = i
			case strings.Contains(t, "ci.updateFloatingIP(") && strings.Contains(t, "return false, err"):
				up = i
				if strings.Contains(t, "v.CloneWith(newK, &attr, date)") {
					cw = i
				}
			case strings.Contains(t, "v.CloneWith(newK, &attr, date)"):
				cw = i
			case t == "v.Assign(newK, &attr, date)":
				as = i
			case strings.Contains(t, "Policy =") || strings.Contains(t, "attr ="):
				otherPolicyWrite = true
			}
		}
		if before(cp, cw) && cw <= up && before(up, as) && !otherPolicyWrite {
			copyOK = true
		}
		return true
	})
	fact("`ReserveIP`: `attr.Policy = constant.ReleasePolicy(v.Policy)` precedes BOTH the persisted clone `updateFloatingIP(v.CloneWith(newK, &attr, date))` (error returned) and the cached record `v.Assign(newK, &attr, date)`; nothing else writes a policy in between",
		"reserveCopiesStoredPolicy", copyOK)
	var rloop *ast.RangeStmt
	for _, s := range rsv.Decl.Body.List {
		if r, ok := s.(*ast.RangeStmt); ok && rsv.Src(r.X) == "ci.allocatedFIPs" {
			rloop = r
		}
	}
	if rloop == nil {
		return nil, fmt.Errorf("ipam_crd.go: ReserveIP lost its loop over ci.allocatedFIPs")
	}
	touches, ok, err := reach(rsv, rloop.Body.List, "v.Assign(newK, &attr, date)", map[string]string{"v.Key == oldK": "keyMatches",
		"v.Key != oldK": "(!keyMatches)", "oldK == newK": "sameKey", "v.PodUid == attr.Uid": "sameUid", "v.NodeName == attr.NodeName": "sameNode"}, "true")
	if err != nil || !ok {
		return nil, fmt.Errorf("ipam_crd.go ReserveIP: cannot translate which records are re-assigned: %v", err)
	}
	say("`ReserveIP`: a cached record is re-assigned iff … (keyMatches: v.Key == oldK; sameKey: oldK == newK; sameUid / sameNode: the record already carries the attributes)",
		"def reserveTouches (keyMatches sameKey sameUid sameNode : Bool) : Bool := "+touches)
	fact("`ReserveIP`: runs under cacheLock from its first statement to its end",
		"reserveShape", strings.HasPrefix(rsv.Text, "{ ci.cacheLock.Lock() defer ci.cacheLock.Unlock()") && strings.Count(rsv.Text, "cacheLock.Unlock()") == 1)
	asg, cw := forms["Assign"], forms["CloneWith"]
	fact("`FloatingIP.Assign` writes key, `Policy = uint16(attr.Policy)`, node, uid, time; `CloneWith` builds the clone through Assign",
		"assignWritesPolicyFromAttr", strings.Contains(asg.Text, "f.Key = key") && strings.Contains(asg.Text, "f.Policy = uint16(attr.Policy)") &&
			strings.Contains(asg.Text, "f.NodeName = attr.NodeName") && strings.Contains(asg.Text, "f.PodUid = attr.Uid") &&
			strings.Contains(cw.Text, ".Assign(key, attr, updateAt)"))
	awk := forms["AllocateInSubnetWithKey"]
	latest := findIf(awk, awk.Decl.Body, "v.UpdatedAt.UnixNano()", "recordTs")
	latestCmp := ""
	if latest != nil {
		latestCmp = awk.Src(latest.Cond)
	}
	fact("`AllocateInSubnetWithKey`: under cacheLock; among the records with `v.Key == oldK` routable from the subnet the one with the greatest UpdatedAt is re-keyed (strict `>` from 0); store update first, error returned, then the cache",
		"allocateWithKeyTakesLatest", strings.HasPrefix(awk.Text, "{ ci.cacheLock.Lock() defer ci.cacheLock.Unlock()") &&
			strings.Contains(awk.Text, "if v.Key == oldK && v.pool.nodeSubnets.Has(subnet)") &&
			latestCmp == "v.UpdatedAt.UnixNano() > recordTs" && strings.Contains(awk.Text, "latest = v recordTs = v.UpdatedAt.UnixNano()") &&
			strings.Contains(awk.Text, "cloned := latest.CloneWith(newK, &attr, date) if err := ci.updateFloatingIP(cloned); err != nil { return err } latest.Assign(newK, &attr, date) return nil"))

	// ---------------------------------------------------------------- crd/crdcache.go getLister
	gl := forms["getLister"]
	gld := decisions(gl, gl.Decl.Body.List)
	lockI2 := stmtIdx(gl, gl.Decl.Body.List, "c.lock.Lock()")
	deferI2 := stmtIdx(gl, gl.Decl.Body.List, "defer c.lock.Unlock()")
	var startIf *ast.IfStmt
	startI := -1
	for i, s := range gl.Decl.Body.List {
		if is, ok := s.(*ast.IfStmt); ok && strings.Contains(gl.Src(is), "c.startedInformers[gvr]") && strings.Contains(gl.Src(is.Body), "cache.WaitForCacheSync(") {
			startIf, startI = is, i
		}
	}
	syncOK := false
	if startIf != nil {
		runI := stmtIdx(gl, startIf.Body.List, "informer.Informer().Run(")
		waitI := stmtIdx(gl, startIf.Body.List, "cache.WaitForCacheSync(stopCh, informer.Informer().HasSynced)")
		setI := stmtIdx(gl, startIf.Body.List, "c.startedInformers[gvr] = true")
		// the flag is read, the informer started and waited for, and the flag written inside ONE lock scope that lasts
		// to the end of the function (so a second caller can see the flag only after the first one's wait returned)
		syncOK = before(lockI2, deferI2) && before(deferI2, startI) && before(runI, waitI) && setI >= 0 &&
			strings.Count(gl.Text, "c.lock.Unlock()") == 1 && strings.Count(gl.Text, "c.startedInformers[gvr]") == 2 &&
			stmtIdx(gl, gl.Decl.Body.List, "return informer.Lister()") > startI
	}
	_ = gld
	fact("crd cache `getLister`: the started flag of a resource's informer is read and written, and the informer is started AND waited for (WaitForCacheSync), inside one `c.lock` scope that lasts to the end of the function - a caller sees a lister only after its initial LIST has been stored",
		"crdListerHandedOutOnlyAfterSync", syncOK)
	grp := forms["GetReplicas"]
	fact("crd cache `GetReplicas`: the object is looked up in the lister returned by getLister; a lister error (NotFound) is returned as is",
		"crdGetReplicasReadsSyncedLister", strings.Contains(grp.Text, "obj, err := c.getLister(gvr).ByNamespace(namespace).Get(name) if err != nil { return 0, err }") ||
			strings.Contains(grp.Text, "lister := c.getLister(gvr) obj, err := lister.ByNamespace(namespace).Get(name) if err != nil { return 0, err }"))

	// ---------------------------------------------------------------- bind.go allocateIP (C02)
	alc := forms["allocateIP"]
	fact("`allocateIP`: looks up `ByKeyAndIPRanges(key, ipranges)` first; without requested ranges only `ipInfos[:1]` is reused; a new allocation happens only for unallocated ranges or when the key owns nothing; the annotation lists the ipInfos in order",
		"allocateIPReusesOwned", strings.Contains(alc.Text, "ipInfos, err := p.ipam.ByKeyAndIPRanges(key, cniArgs.RequestIPRange)") &&
			strings.Contains(alc.Text, "if len(cniArgs.RequestIPRange) == 0 && len(ipInfos) > 0 { ipInfos = ipInfos[:1] }") &&
			strings.Contains(alc.Text, "cniArgs.Common.IPInfos = ret"))
	fact("`allocateIP`: `AllocateInSubnetsAndIPRange` is guarded by `len(unallocatedIPRange) > 0 || len(ipInfos) == 0`",
		"allocateIPAllocatesOnlyMissing", strings.Contains(alc.Text, "if len(unallocatedIPRange) > 0 || len(ipInfos) == 0 {") &&
			strings.Count(alc.Text, "p.ipam.AllocateInSubnetsAndIPRange(") == 1)

	b.WriteString("end Galaxy.Generated.C03\n")
	return map[string]string{"C03.lean": b.String()}, nil
}

func main() { fg.Run("c03", gen) }
