// factgen c03: regenerates lean/Galaxy/Generated/C03.lean from the CURRENT text of the release / reserve decision code
// of the galaxy-ipam scheduler plugin (properties C03 and C02):
//
//	schedulerplugin/statefulset.go  shouldRelease, unbindNoneDpPod, getStsReplicas, checkAppAndReplicas
//	schedulerplugin/deployment.go   unbindDpPod, getReplicasOfDeployment, getDpReplicas
//	schedulerplugin/ipam.go         getAvailableSubnet, reserveIP
//	schedulerplugin/filter.go       getSubnet, allocateDuringFilter
//	schedulerplugin/resync.go       fetchChecklist, resyncAllocatedIPs (closure)
//	schedulerplugin/bind.go         unbind
//	schedulerplugin/floatingip_plugin.go  parseReleasePolicy, supportReserveIPPolicy
//	floatingip/ipam_crd.go          ReserveIP;  floatingip/floatingip.go  Assign, CloneWith
//	api/galaxy/constant/constant.go policy enum, ConvertReleasePolicy, annotation strings
//
// Three kinds of output (DESIGN.md section 3.1):
//  (a) comparison expressions with their operator and operand order as Lean `def`s over Int
//      (`replicas < int32(index)+1`, `len(fips) > replicas`, `replicas == 0`, `usedCount >= replicas`) and the
//      reachability condition of `usedCount++` / of the unused-subnet insert inside the loop of getAvailableSubnet
//      as a Boolean function of named atoms;
//  (b) constants and case tables (policy enum, annotation strings, branch tables of unbindDpPod / unbindNoneDpPod /
//      supportReserveIPPolicy as ordered (condition, action) lists);
//  (c) structural facts (lock scopes, policy copy in ReserveIP, re-read record in resync, no fall-through).
//
// Purely syntactic (go/ast on single functions).  A missing function makes the translator fail; a function whose
// shape is not the expected one yields `false` / a different table, so that the `fact_*` theorems stop building
// while the harness can still look for a failing input.
package main

import (
	"fmt"
	"go/ast"
	"go/token"
	"os"
	"path/filepath"
	"strings"

	"factgen/fg"
)

const dir = "pkg/ipam/schedulerplugin/"

func norm(s string) string { return strings.Join(strings.Fields(s), " ") }

// ---- (a) expression translation ------------------------------------------------------------------------------

// intExpr translates an integer Go expression over the named variables to a Lean Int term.
func intExpr(p *fg.Parsed, e ast.Expr, vars map[string]string) (string, error) {
	switch x := e.(type) {
	case *ast.ParenExpr:
		return intExpr(p, x.X, vars)
	case *ast.BasicLit:
		if x.Kind == token.INT {
			return x.Value, nil
		}
	case *ast.Ident:
		if v, ok := vars[x.Name]; ok {
			return v, nil
		}
	case *ast.CallExpr:
		fn := p.Src(x.Fun)
		if (fn == "int32" || fn == "int" || fn == "int64") && len(x.Args) == 1 {
			return intExpr(p, x.Args[0], vars) // widening conversions of small non-negative numbers
		}
		if fn == "len" && len(x.Args) == 1 {
			if v, ok := vars["len("+p.Src(x.Args[0])+")"]; ok {
				return v, nil
			}
		}
	case *ast.BinaryExpr:
		var op string
		switch x.Op {
		case token.ADD:
			op = "+"
		case token.SUB:
			op = "-"
		case token.MUL:
			op = "*"
		default:
			return "", fmt.Errorf("unsupported integer operator %s in %s", x.Op, p.Src(e))
		}
		a, err := intExpr(p, x.X, vars)
		if err != nil {
			return "", err
		}
		b, err := intExpr(p, x.Y, vars)
		if err != nil {
			return "", err
		}
		return "(" + a + " " + op + " " + b + ")", nil
	}
	return "", fmt.Errorf("cannot translate integer expression %q", p.Src(e))
}

// cmpExpr translates a comparison `a <op> b` to a Lean Bool term, keeping operator and operand order.
func cmpExpr(p *fg.Parsed, e ast.Expr, vars map[string]string) (string, error) {
	if pe, ok := e.(*ast.ParenExpr); ok {
		return cmpExpr(p, pe.X, vars)
	}
	be, ok := e.(*ast.BinaryExpr)
	if !ok {
		return "", fmt.Errorf("not a comparison: %q", p.Src(e))
	}
	var op string
	switch be.Op {
	case token.LSS:
		op = "<"
	case token.LEQ:
		op = "≤"
	case token.GTR:
		op = ">"
	case token.GEQ:
		op = "≥"
	case token.EQL:
		op = "="
	case token.NEQ:
		op = "≠"
	default:
		return "", fmt.Errorf("not a comparison: %q", p.Src(e))
	}
	a, err := intExpr(p, be.X, vars)
	if err != nil {
		return "", err
	}
	b, err := intExpr(p, be.Y, vars)
	if err != nil {
		return "", err
	}
	return "decide (" + a + " " + op + " " + b + ")", nil
}

// boolExpr translates a condition built from the named atoms with ! && ||.
func boolExpr(p *fg.Parsed, e ast.Expr, atoms map[string]string) (string, error) {
	if v, ok := atoms[norm(p.Src(e))]; ok {
		return v, nil
	}
	switch x := e.(type) {
	case *ast.ParenExpr:
		return boolExpr(p, x.X, atoms)
	case *ast.UnaryExpr:
		if x.Op == token.NOT {
			a, err := boolExpr(p, x.X, atoms)
			if err != nil {
				return "", err
			}
			return "(!" + a + ")", nil
		}
	case *ast.BinaryExpr:
		if x.Op == token.LAND || x.Op == token.LOR {
			a, err := boolExpr(p, x.X, atoms)
			if err != nil {
				return "", err
			}
			b, err := boolExpr(p, x.Y, atoms)
			if err != nil {
				return "", err
			}
			op := "&&"
			if x.Op == token.LOR {
				op = "||"
			}
			return "(" + a + " " + op + " " + b + ")", nil
		}
	}
	return "", fmt.Errorf("unknown condition atom %q", norm(p.Src(e)))
}

// reach computes the condition (over atoms) under which a statement whose text contains target is executed inside
// the statement list (if / else trees only, no early exits inside).
func reach(p *fg.Parsed, list []ast.Stmt, target string, atoms map[string]string) (string, bool, error) {
	var alts []string
	for _, s := range list {
		switch x := s.(type) {
		case *ast.IfStmt:
			if x.Init != nil {
				if strings.Contains(p.Src(x), target) {
					return "", false, fmt.Errorf("if with init around %q", target)
				}
				continue
			}
			c, err := boolExpr(p, x.Cond, atoms)
			inThen, inElse := strings.Contains(p.Src(x.Body), target), x.Else != nil && strings.Contains(p.Src(x.Else), target)
			if !inThen && !inElse {
				continue
			}
			if err != nil {
				return "", false, err
			}
			if inThen {
				r, ok, err := reach(p, x.Body.List, target, atoms)
				if err != nil {
					return "", false, err
				}
				if ok {
					if r == "true" {
						alts = append(alts, c)
					} else {
						alts = append(alts, "("+c+" && "+r+")")
					}
				}
			}
			if inElse {
				var el []ast.Stmt
				switch eb := x.Else.(type) {
				case *ast.BlockStmt:
					el = eb.List
				default:
					el = []ast.Stmt{eb}
				}
				r, ok, err := reach(p, el, target, atoms)
				if err != nil {
					return "", false, err
				}
				if ok {
					if r == "true" {
						alts = append(alts, "(!"+c+")")
					} else {
						alts = append(alts, "((!"+c+") && "+r+")")
					}
				}
			}
		default:
			if strings.Contains(p.Src(s), target) {
				alts = append(alts, "true")
			}
		}
	}
	if len(alts) == 0 {
		return "", false, nil
	}
	if len(alts) == 1 {
		return alts[0], true, nil
	}
	return "(" + strings.Join(alts, " || ") + ")", true, nil
}

// ---- AST helpers -----------------------------------------------------------------------------------------------

// findIf returns the first if statement (any depth) inside n whose condition text contains all of subs.
func findIf(p *fg.Parsed, n ast.Node, subs ...string) *ast.IfStmt {
	var out *ast.IfStmt
	ast.Inspect(n, func(x ast.Node) bool {
		if out != nil {
			return false
		}
		if is, ok := x.(*ast.IfStmt); ok {
			c := norm(p.Src(is.Cond))
			all := true
			for _, s := range subs {
				if !strings.Contains(c, s) {
					all = false
				}
			}
			if all {
				out = is
				return false
			}
		}
		return true
	})
	return out
}

func topIndex(p *fg.Parsed, body *ast.BlockStmt, sub string) int { return p.StmtIndex(body, sub) }

func blockReturns(p *fg.Parsed, b *ast.BlockStmt, sub string) bool {
	if b == nil {
		return false
	}
	for _, s := range b.List {
		if r, ok := s.(*ast.ReturnStmt); ok && strings.Contains(norm(p.Src(r)), sub) {
			return true
		}
	}
	return false
}

// chain lists the (condition, action) pairs of an if / else-if chain that starts at statement `first`; action is the
// summary of the branch body given by summarise.
func chain(p *fg.Parsed, first *ast.IfStmt, summarise func(b *ast.BlockStmt) string) [][2]string {
	var out [][2]string
	cur := first
	for cur != nil {
		out = append(out, [2]string{norm(p.Src(cur.Cond)), summarise(cur.Body)})
		switch e := cur.Else.(type) {
		case *ast.IfStmt:
			cur = e
		case *ast.BlockStmt:
			out = append(out, [2]string{"else", summarise(e)})
			cur = nil
		default:
			cur = nil
		}
	}
	return out
}

// actionOf summarises a block by the release / reserve calls it contains, in order, with nested conditions.
func actionOf(p *fg.Parsed) func(b *ast.BlockStmt) string {
	var f func(b *ast.BlockStmt) string
	f = func(b *ast.BlockStmt) string {
		var parts []string
		for _, s := range b.List {
			switch x := s.(type) {
			case *ast.ReturnStmt:
				t := norm(p.Src(x))
				switch {
				case strings.Contains(t, "p.releaseIP(key"):
					parts = append(parts, "release")
				case strings.Contains(t, "p.reserveIP(key, prefixKey"):
					parts = append(parts, "reserve-prefix")
				case strings.Contains(t, "p.reserveIP(key, key"):
					parts = append(parts, "reserve-own")
				case t == "return nil":
					parts = append(parts, "nil")
				case strings.HasPrefix(t, "return err") || strings.Contains(t, "fmt.Errorf") || strings.Contains(t, "return NotStatefulWorkload") || strings.Contains(t, "return NoReplicas"):
					parts = append(parts, "error")
				default:
					parts = append(parts, "return?")
				}
			case *ast.IfStmt:
				for _, c := range chain(p, x, f) {
					if c[1] != "" {
						parts = append(parts, "["+c[0]+" -> "+c[1]+"]")
					}
				}
			}
		}
		return strings.Join(parts, " ")
	}
	return f
}

func leanPairs(ps [][2]string) string {
	var l []string
	for _, x := range ps {
		l = append(l, "("+fg.LeanStr(x[0])+", "+fg.LeanStr(x[1])+")")
	}
	return "[" + strings.Join(l, ",\n   ") + "]"
}

func deferIdx(p *fg.Parsed, list []ast.Stmt, sub string) int {
	for i, s := range list {
		if d, ok := s.(*ast.DeferStmt); ok && strings.Contains(norm(p.Src(d)), sub) {
			return i
		}
	}
	return -1
}

func before(a, b int) bool { return a >= 0 && b >= 0 && a < b }

func gen(repo string) (map[string]string, error) {
	var b strings.Builder
	b.WriteString(fg.Header("release / reserve decision code of the scheduler plugin (properties C03, C02)",
		dir+"statefulset.go", dir+"deployment.go", dir+"ipam.go", dir+"filter.go", dir+"resync.go", dir+"bind.go",
		dir+"floatingip_plugin.go", "pkg/ipam/floatingip/ipam_crd.go", "pkg/ipam/floatingip/floatingip.go",
		"pkg/api/galaxy/constant/constant.go"))
	b.WriteString("set_option linter.unusedVariables false\nnamespace Galaxy.Generated.C03\n\n")
	say := func(doc, def string) { fmt.Fprintf(&b, "/-- %s -/\n%s\n\n", doc, def) }
	fact := func(doc, name string, v bool) { say(doc, fmt.Sprintf("def %s : Bool := %s", name, fg.LeanBool(v))) }

	// ---------------------------------------------------------------- constants
	cs, err := fg.ParseFile(repo, "pkg/api/galaxy/constant/constant.go")
	if err != nil {
		return nil, err
	}
	var enum []string
	for _, d := range cs.File.Decls {
		gd, ok := d.(*ast.GenDecl)
		if !ok || gd.Tok != token.CONST {
			continue
		}
		iota := false
		for i, s := range gd.Specs {
			vs := s.(*ast.ValueSpec)
			if i == 0 && len(vs.Values) == 1 && cs.Src(vs.Values[0]) == "iota" && cs.Src(vs.Type) == "ReleasePolicy" {
				iota = true
			}
			if iota {
				if i > 0 && len(vs.Values) != 0 {
					return nil, fmt.Errorf("constant.go: release policy enum is no longer a plain iota block")
				}
				for _, n := range vs.Names {
					enum = append(enum, n.Name)
				}
			}
		}
	}
	if len(enum) != 3 {
		return nil, fmt.Errorf("constant.go: release policy enum has %d members: %v", len(enum), enum)
	}
	val := map[string]int{}
	for i, n := range enum {
		val[n] = i
	}
	for _, n := range []string{"ReleasePolicyPodDelete", "ReleasePolicyImmutable", "ReleasePolicyNever"} {
		v, ok := val[n]
		if !ok {
			return nil, fmt.Errorf("constant.go: %s is gone", n)
		}
		fmt.Fprintf(&b, "def %s : Nat := %d\n", strings.ToLower(n[:1])+n[1:], v)
	}
	for _, c := range [][2]string{{"ReleasePolicyAnnotation", "releasePolicyAnnotation"}, {"Immutable", "immutableStr"}, {"Never", "neverStr"}} {
		v, err := cs.ConstString(c[0])
		if err != nil {
			return nil, err
		}
		fmt.Fprintf(&b, "def %s : String := %s\n", c[1], fg.LeanStr(v))
	}
	// ConvertReleasePolicy: switch policyStr { case Never: …; case Immutable: …; default: … }
	conv, err := cs.Fn("", "ConvertReleasePolicy")
	if err != nil {
		return nil, err
	}
	var convTbl []string
	convDefault := -1
	ast.Inspect(conv, func(n ast.Node) bool {
		cc, ok := n.(*ast.CaseClause)
		if !ok {
			return true
		}
		ret := ""
		for _, s := range cc.Body {
			if r, ok := s.(*ast.ReturnStmt); ok && len(r.Results) == 1 {
				ret = cs.Src(r.Results[0])
			}
		}
		v, ok := val[ret]
		if !ok {
			v = -1
		}
		if cc.List == nil {
			convDefault = v
			return true
		}
		for _, e := range cc.List {
			s, err := cs.ConstString(cs.Src(e))
			if err != nil {
				s = "?" + cs.Src(e)
			}
			convTbl = append(convTbl, fmt.Sprintf("(%s, %d)", fg.LeanStr(s), v))
		}
		return true
	})
	if convDefault < 0 {
		return nil, fmt.Errorf("constant.go: ConvertReleasePolicy has no translatable default case")
	}
	say("`ConvertReleasePolicy`: annotation value to policy; any other value gives `convertDefault`",
		fmt.Sprintf("def convertTable : List (String × Nat) := [%s]\ndef convertDefault : Nat := %d", strings.Join(convTbl, ", "), convDefault))
	poolAnn := ""
	if ents, err := os.ReadDir(filepath.Join(repo, "pkg/api/galaxy/constant")); err == nil {
		for _, e := range ents {
			if strings.HasSuffix(e.Name(), ".go") && !strings.HasSuffix(e.Name(), "_test.go") {
				if q, err := fg.ParseFile(repo, "pkg/api/galaxy/constant/"+e.Name()); err == nil {
					if v, err := q.ConstString("IPPoolAnnotation"); err == nil {
						poolAnn = v
					}
				}
			}
		}
	}
	if poolAnn == "" {
		return nil, fmt.Errorf("package constant: IPPoolAnnotation not found")
	}
	fmt.Fprintf(&b, "def ipPoolAnnotation : String := %s\n\n", fg.LeanStr(poolAnn))

	// ---------------------------------------------------------------- parseReleasePolicy
	fp, err := fg.ParseFile(repo, dir+"floatingip_plugin.go")
	if err != nil {
		return nil, err
	}
	prp, err := fp.Fn("", "parseReleasePolicy")
	if err != nil {
		return nil, err
	}
	poolIf := findIf(fp, prp, `pool != ""`)
	poolIdx, convIdx := -1, topIndex(fp, prp.Body, "constant.ConvertReleasePolicy(meta.Annotations[constant.ReleasePolicyAnnotation])")
	for i, s := range prp.Body.List {
		if s == ast.Stmt(poolIf) {
			poolIdx = i
		}
	}
	fact("`parseReleasePolicy`: a non-empty pool annotation returns ReleasePolicyNever BEFORE the release-policy annotation is looked at",
		"poolAnnotationForcesNever", poolIf != nil && blockReturns(fp, poolIf.Body, "constant.ReleasePolicyNever") && before(poolIdx, convIdx) &&
			strings.Contains(norm(fp.Src(prp.Body)), "pool := constant.GetPool(meta.Annotations)"))

	// ---------------------------------------------------------------- supportReserveIPPolicy
	sup, err := fp.Fn("FloatingIPPlugin", "supportReserveIPPolicy")
	if err != nil {
		return nil, err
	}
	var supTbl [][2]string
	for _, s := range sup.Body.List {
		switch x := s.(type) {
		case *ast.IfStmt:
			supTbl = append(supTbl, [2]string{norm(fp.Src(x.Cond)), actionOf(fp)(x.Body)})
		case *ast.ReturnStmt:
			supTbl = append(supTbl, [2]string{"otherwise", norm(fp.Src(x))})
		case *ast.AssignStmt:
			supTbl = append(supTbl, [2]string{"let", norm(fp.Src(x))})
		}
	}
	say("`supportReserveIPPolicy`, statement by statement: (condition, result)",
		"def supportReserveTable : List (String × String) :=\n  "+leanPairs(supTbl))

	// ---------------------------------------------------------------- statefulset.go
	st, err := fg.ParseFile(repo, dir+"statefulset.go")
	if err != nil {
		return nil, err
	}
	sr, err := st.Fn("FloatingIPPlugin", "shouldRelease")
	if err != nil {
		return nil, err
	}
	scaled := (*ast.IfStmt)(nil)
	appGuard, idxParse, idxScaled := -1, topIndex(st, sr.Body, "parsePodIndex(keyObj.KeyInDB)"), -1
	for i, s := range sr.Body.List {
		if is, ok := s.(*ast.IfStmt); ok {
			if norm(st.Src(is.Cond)) == "!parentAppExist" && blockReturns(st, is.Body, "return true") {
				appGuard = i
			}
			if blockReturns(st, is.Body, "return true, deletedAndScaledDownAppPod") {
				scaled, idxScaled = is, i
			}
		}
	}
	if scaled == nil {
		return nil, fmt.Errorf("statefulset.go: shouldRelease no longer has an `if <cmp> { return true, deletedAndScaledDownAppPod, nil }`")
	}
	c, err := cmpExpr(st, scaled.Cond, map[string]string{"replicas": "replicas", "index": "index"})
	if err != nil {
		return nil, fmt.Errorf("statefulset.go shouldRelease: %v", err)
	}
	say("`shouldRelease`: the scaled-down test, source text `"+norm(st.Src(scaled.Cond))+"`",
		"def shouldReleaseScaledDown (replicas index : Int) : Bool := "+c)
	last := sr.Body.List[len(sr.Body.List)-1]
	fact("`shouldRelease`: a missing parent app returns true first; then the pod index is parsed from the key (error = no decision); then the scaled-down test; otherwise false",
		"shouldReleaseShape", before(appGuard, idxParse) && before(idxParse, idxScaled) && idxScaled == len(sr.Body.List)-2 &&
			strings.HasPrefix(norm(st.Src(last)), "return false"))

	und, err := st.Fn("FloatingIPPlugin", "unbindNoneDpPod")
	if err != nil {
		return nil, err
	}
	var first *ast.IfStmt
	for _, s := range und.Body.List {
		if is, ok := s.(*ast.IfStmt); ok && first == nil {
			first = is
		}
	}
	if first == nil {
		return nil, fmt.Errorf("statefulset.go: unbindNoneDpPod has no if chain")
	}
	say("`unbindNoneDpPod`: the if / else-if chain as (condition, actions)",
		"def unbindNoneDpTable : List (String × String) :=\n  "+leanPairs(chain(st, first, actionOf(st))))
	gsr, err := st.Fn("FloatingIPPlugin", "getStsReplicas")
	if err != nil {
		return nil, err
	}
	gs := norm(st.Src(gsr.Body))
	fact("`getStsReplicas`: NotFound means the app does not exist (no error); found means appExist with spec.replicas (default 1)",
		"stsReplicasShape", strings.Contains(gs, "if !metaErrs.IsNotFound(err) { retErr = err return }") &&
			strings.Contains(gs, "appExist = true replicas = 1 if ss.Spec.Replicas != nil { replicas = *ss.Spec.Replicas }"))
	car, err := st.Fn("FloatingIPPlugin", "checkAppAndReplicas")
	if err != nil {
		return nil, err
	}
	var carFirst *ast.IfStmt
	for _, s := range car.Body.List {
		if is, ok := s.(*ast.IfStmt); ok && carFirst == nil {
			carFirst = is
		}
	}
	carOK := false
	if carFirst != nil {
		ch := chain(st, carFirst, func(bl *ast.BlockStmt) string { return "" })
		carOK = len(ch) == 3 && ch[0][0] == "keyObj.StatefulSet()" && ch[1][0] == "gvr != nil" && ch[2][0] == "else" &&
			strings.Contains(norm(st.Src(car.Body)), "else if gvr := p.crdKey.GetGroupVersionResource(keyObj.AppTypePrefix); gvr != nil") &&
			strings.Contains(norm(st.Src(carFirst.Body)), "return p.getStsReplicas(keyObj)") &&
			strings.Contains(norm(st.Src(car.Body)), "p.crdCache.GetReplicas(*gvr, keyObj.Namespace, keyObj.AppName)")
	}
	fact("`checkAppAndReplicas`: statefulset lister, else the replicas of a scalable custom resource, else error",
		"checkAppAndReplicasShape", carOK)

	// ---------------------------------------------------------------- deployment.go
	dp, err := fg.ParseFile(repo, dir+"deployment.go")
	if err != nil {
		return nil, err
	}
	ub, err := dp.Fn("FloatingIPPlugin", "unbindDpPod")
	if err != nil {
		return nil, err
	}
	zero := findIf(dp, ub, "replicas", "0")
	exceed := findIf(dp, ub, "len(fips)", "replicas")
	if zero == nil || exceed == nil {
		return nil, fmt.Errorf("deployment.go: unbindDpPod no longer has the `replicas == 0` / `len(fips) > replicas` tests")
	}
	cz, err := cmpExpr(dp, zero.Cond, map[string]string{"replicas": "replicas"})
	if err != nil {
		return nil, fmt.Errorf("deployment.go unbindDpPod: %v", err)
	}
	ce, err := cmpExpr(dp, exceed.Cond, map[string]string{"replicas": "replicas", "len(fips)": "nFips"})
	if err != nil {
		return nil, fmt.Errorf("deployment.go unbindDpPod: %v", err)
	}
	say("`unbindDpPod` (immutable): release at once when `"+norm(dp.Src(zero.Cond))+"`", "def dpNoReplicas (replicas : Int) : Bool := "+cz)
	say("`unbindDpPod` (immutable): release the exceeding part when `"+norm(dp.Src(exceed.Cond))+"` (nFips = number of records under the pool / app prefix)",
		"def dpExceeds (nFips replicas : Int) : Bool := "+ce)
	var polFirst *ast.IfStmt
	for _, s := range ub.Body.List {
		if is, ok := s.(*ast.IfStmt); ok && polFirst == nil {
			polFirst = is
		}
	}
	act := actionOf(dp)
	var dpTbl [][2]string
	if polFirst != nil {
		dpTbl = append(dpTbl, chain(dp, polFirst, act)...)
	}
	dpTbl = append(dpTbl, [2]string{norm(dp.Src(zero.Cond)), act(zero.Body)})
	dpTbl = append(dpTbl, chain(dp, exceed, act)...)
	say("`unbindDpPod`: policy chain, then the immutable branch, as (condition, actions)",
		"def unbindDpTable : List (String × String) :=\n  "+leanPairs(dpTbl))
	idx := func(s ast.Stmt) int {
		for i, x := range ub.Body.List {
			if x == s {
				return i
			}
		}
		return -1
	}
	lockI := deferIdx(dp, ub.Body.List, "p.LockDpPool(prefixKey)()")
	byI := topIndex(dp, ub.Body, "p.ipam.ByPrefix(prefixKey)")
	fact("`unbindDpPod`: `defer p.LockDpPool(prefixKey)()` comes before the `ByPrefix(prefixKey)` count, which comes before the release / reserve decision; prefixKey is keyObj.PoolPrefix()",
		"unbindDpCountAndDecisionUnderPoolLock", before(lockI, byI) && before(byI, idx(exceed)) && before(idx(zero), lockI) &&
			strings.Contains(norm(dp.Src(ub.Body)), "key, prefixKey := keyObj.KeyInDB, keyObj.PoolPrefix()"))
	grd, err := dp.Fn("FloatingIPPlugin", "getReplicasOfDeployment")
	if err != nil {
		return nil, err
	}
	g := norm(dp.Src(grd.Body))
	fact("`getReplicasOfDeployment`: a deployment the lister does not know has 0 replicas (no error)",
		"dpMissingMeansZeroReplicas", strings.Contains(g, "replicas := 0 if err != nil { if !metaErrs.IsNotFound(err) { return 0, err } } else { replicas = int(*dp.Spec.Replicas) } return replicas, nil"))
	gdr, err := dp.Fn("FloatingIPPlugin", "getDpReplicas")
	if err != nil {
		return nil, err
	}
	g = norm(dp.Src(gdr.Body))
	fact("`getDpReplicas`: a named pool with a Pool object gives (pool.Size, true); otherwise the deployment's replicas and false",
		"dpReplicasShape", strings.Contains(g, `if keyObj.PoolName != ""`) && strings.Contains(g, "return pool.Size, true, nil") &&
			strings.Contains(g, "return replicas, false, nil"))

	// ---------------------------------------------------------------- ipam.go getAvailableSubnet
	ip, err := fg.ParseFile(repo, dir+"ipam.go")
	if err != nil {
		return nil, err
	}
	gas, err := ip.Fn("FloatingIPPlugin", "getAvailableSubnet")
	if err != nil {
		return nil, err
	}
	outer := findIf(ip, gas, "keyObj.Deployment()", "policy")
	if outer == nil {
		return nil, fmt.Errorf("ipam.go: getAvailableSubnet lost its deployment / policy guard")
	}
	gc, err := boolExpr(ip, outer.Cond, map[string]string{"keyObj.Deployment()": "isDp",
		"policy != constant.ReleasePolicyPodDelete": "(policy != releasePolicyPodDelete)",
		"policy == constant.ReleasePolicyPodDelete": "(policy == releasePolicyPodDelete)"})
	if err != nil {
		return nil, fmt.Errorf("ipam.go getAvailableSubnet guard: %v", err)
	}
	say("`getAvailableSubnet`: the reserved-IP lookup applies when `"+norm(ip.Src(outer.Cond))+"`",
		"def reserveLookupApplies (isDp : Bool) (policy : Nat) : Bool := "+gc)
	limit := findIf(ip, outer.Body, "usedCount", "replicas")
	if limit == nil {
		return nil, fmt.Errorf("ipam.go: getAvailableSubnet lost the usedCount / replicas test")
	}
	cl, err := cmpExpr(ip, limit.Cond, map[string]string{"usedCount": "usedCount", "replicas": "replicas"})
	if err != nil {
		return nil, fmt.Errorf("ipam.go getAvailableSubnet: %v", err)
	}
	say("`getAvailableSubnet`: no more IPs for the app / pool when `"+norm(ip.Src(limit.Cond))+"`",
		"def sizeLimitReached (usedCount replicas : Int) : Bool := "+cl)
	var loop *ast.RangeStmt
	for _, s := range outer.Body.List {
		if r, ok := s.(*ast.RangeStmt); ok && norm(ip.Src(r.X)) == "ips" {
			loop = r
		}
	}
	if loop == nil {
		return nil, fmt.Errorf("ipam.go: getAvailableSubnet lost `for _, ip := range ips`")
	}
	atoms := map[string]string{"ip.Key != poolPrefix": "(!keyIsPrefix)", "ip.Key == poolPrefix": "keyIsPrefix",
		"isPoolSizeDefined": "sized", `keyObj.PoolName == ""`: "noPool", `keyObj.PoolName != ""`: "(!noPool)",
		"strings.HasPrefix(ip.Key, poolAppPrefix)": "hasAppPrefix"}
	used, ok, err := reach(ip, loop.Body.List, "usedCount++", atoms)
	if err != nil || !ok {
		return nil, fmt.Errorf("ipam.go getAvailableSubnet: cannot translate when `usedCount++` runs: %v", err)
	}
	unused, ok, err := reach(ip, loop.Body.List, "unusedSubnetSet.Insert(", atoms)
	if err != nil || !ok {
		return nil, fmt.Errorf("ipam.go getAvailableSubnet: cannot translate when the unused subnets are collected: %v", err)
	}
	say("`getAvailableSubnet`: a record under the pool prefix counts as USED iff … (keyIsPrefix: key = pool prefix; sized: a Pool object defines the size; noPool: the pod names no pool; hasAppPrefix: the key starts with this app's prefix inside the pool)",
		"def countsAsUsed (keyIsPrefix sized noPool hasAppPrefix : Bool) : Bool := "+used)
	say("`getAvailableSubnet`: a record contributes its node subnets to the reserved (unused) set iff …",
		"def countsAsUnused (keyIsPrefix sized noPool hasAppPrefix : Bool) : Bool := "+unused)
	oi := func(s ast.Stmt) int {
		for i, x := range outer.Body.List {
			if x == s {
				return i
			}
		}
		return -1
	}
	unusedRet := -1
	for i, s := range outer.Body.List {
		if is, ok := s.(*ast.IfStmt); ok && strings.Contains(norm(ip.Src(is.Cond)), "unusedSubnetSet.Len() > 0") && blockReturns(ip, is.Body, "return unusedSubnetSet, true, nil") {
			unusedRet = i
		}
	}
	rangesErr := findIf(ip, outer.Body, "len(ipranges) > 0")
	byPrefixI := -1
	for i, s := range outer.Body.List {
		if strings.Contains(norm(ip.Src(s)), "p.ipam.ByPrefix(poolPrefix)") {
			byPrefixI = i
			break
		}
	}
	fallback := topIndex(ip, gas.Body, "p.ipam.NodeSubnetsByIPRanges(ipranges)")
	outerI := -1
	for i, s := range gas.Body.List {
		if s == ast.Stmt(outer) {
			outerI = i
		}
	}
	fact("`getAvailableSubnet`: requested ranges are refused; ByPrefix(poolPrefix); the count loop; the size limit returns an error; THEN the reserved subnets are returned with reserve=true; only otherwise the free subnets (reserve=false)",
		"availableSubnetShape", rangesErr != nil && blockReturns(ip, rangesErr.Body, "return nil, false, fmt.Errorf") &&
			before(oi(rangesErr), byPrefixI) && before(byPrefixI, oi(loop)) && before(oi(loop), oi(limit)) && before(oi(limit), unusedRet) &&
			before(outerI, fallback) && strings.Contains(norm(ip.Src(limit.Body)), "return nil, false, fmt.Errorf") &&
			strings.Contains(norm(ip.Src(outer.Body)), "poolPrefix := keyObj.PoolPrefix()") &&
			strings.Contains(norm(ip.Src(outer.Body)), "poolAppPrefix := keyObj.PoolAppPrefix()"))
	rip, err := ip.Fn("FloatingIPPlugin", "reserveIP")
	if err != nil {
		return nil, err
	}
	fact("plugin `reserveIP(key, prefixKey)` calls `ReserveIP(key, prefixKey, floatingip.Attr{})`: node and uid are cleared, the policy field of the argument is NOT what is stored (see reserveCopiesStoredPolicy)",
		"reserveIPPassesEmptyAttr", strings.Contains(norm(ip.Src(rip.Body)), "p.ipam.ReserveIP(key, prefixKey, floatingip.Attr{})"))

	// ---------------------------------------------------------------- filter.go
	fl, err := fg.ParseFile(repo, dir+"filter.go")
	if err != nil {
		return nil, err
	}
	gsn, err := fl.Fn("FloatingIPPlugin", "getSubnet")
	if err != nil {
		return nil, err
	}
	dpIf := (*ast.IfStmt)(nil)
	dpIfI := -1
	for i, s := range gsn.Body.List {
		if is, ok := s.(*ast.IfStmt); ok && norm(fl.Src(is.Cond)) == "keyObj.Deployment()" {
			dpIf, dpIfI = is, i
		}
	}
	lockOK := false
	if dpIf != nil {
		li := deferIdx(fl, dpIf.Body.List, "p.LockDpPool(keyObj.PoolPrefix())()")
		ri := -1
		for i, s := range dpIf.Body.List {
			if strings.Contains(norm(fl.Src(s)), "p.getDpReplicas(keyObj)") {
				ri = i
			}
		}
		lockOK = li >= 0 && ri >= 0
	}
	availI := topIndex(fl, gsn.Body, "p.getAvailableSubnet(keyObj, policy, replicas, isPoolSizeDefined, ipranges)")
	allocI := topIndex(fl, gsn.Body, "p.allocateDuringFilter(")
	fact("`getSubnet`: for deployment pods `defer p.LockDpPool(keyObj.PoolPrefix())()` is taken before getAvailableSubnet (the count) and allocateDuringFilter (the allocation) - both inside the lock scope",
		"getSubnetCountAndAllocateUnderPoolLock", lockOK && before(dpIfI, availI) && before(availI, allocI))
	allocIf := findIf(fl, gsn.Body, "reserve || isPoolSizeDefined", "subnetSet.Len() > 0")
	allocErr := false
	if allocIf != nil {
		for _, s := range allocIf.Body.List {
			if is, ok := s.(*ast.IfStmt); ok && is.Init != nil && strings.Contains(norm(fl.Src(is.Init)), "p.allocateDuringFilter(") &&
				norm(fl.Src(is.Cond)) == "err != nil" && blockReturns(fl, is.Body, "return nil, err") {
				allocErr = true
			}
		}
	}
	fact("`getSubnet`: allocates during filter iff `(reserve || isPoolSizeDefined) && subnetSet.Len() > 0`, in the first subnet of the sorted list, and returns the error of allocateDuringFilter (no nodes are offered then)",
		"getSubnetReturnsAllocError", allocIf != nil && allocErr && strings.Contains(norm(fl.Src(allocIf.Body)), "reserveSubnet := subnetSet.List()[0]"))
	adf, err := fl.Fn("FloatingIPPlugin", "allocateDuringFilter")
	if err != nil {
		return nil, err
	}
	resIf := (*ast.IfStmt)(nil)
	for _, s := range adf.Body.List {
		if is, ok := s.(*ast.IfStmt); ok && norm(fl.Src(is.Cond)) == "reserve" {
			resIf = is
		}
	}
	noFall := false
	if resIf != nil && len(resIf.Body.List) == 1 {
		if is, ok := resIf.Body.List[0].(*ast.IfStmt); ok && is.Init != nil &&
			strings.Contains(norm(fl.Src(is.Init)), "p.allocateInSubnetWithKey(keyObj.PoolPrefix(), keyObj.KeyInDB, reserveSubnet, attr") &&
			norm(fl.Src(is.Cond)) == "err != nil" && blockReturns(fl, is.Body, "return err") {
			// allocateInSubnet( must not be reachable on the reserve path: only in the else branch
			noFall = !strings.Contains(fl.Src(resIf.Body), "p.allocateInSubnet(") && resIf.Else != nil &&
				strings.Contains(fl.Src(resIf.Else), "p.allocateInSubnet(keyObj.KeyInDB")
			last := adf.Body.List[len(adf.Body.List)-1]
			noFall = noFall && norm(fl.Src(last)) == "return nil" && strings.Count(fl.Src(adf.Body), "p.allocateInSubnet(") == 1
		}
	}
	fact("`allocateDuringFilter`: with reserve=true the only allocation is allocateInSubnetWithKey(PoolPrefix → key); its error is returned; a fresh allocation (allocateInSubnet) is reachable only when reserve=false",
		"allocateDuringFilterNoFallThrough", noFall)
	fact("`allocateDuringFilter`: the attributes written are (policy of the pod, node \"\", uid of the pod)",
		"allocateDuringFilterAttr", strings.Contains(norm(fl.Src(adf.Body)), `attr := floatingip.Attr{Policy: policy, NodeName: "", Uid: uid}`))

	// ---------------------------------------------------------------- resync.go
	rs, err := fg.ParseFile(repo, dir+"resync.go")
	if err != nil {
		return nil, err
	}
	fc, err := rs.Fn("FloatingIPPlugin", "fetchChecklist")
	if err != nil {
		return nil, err
	}
	noPod := findIf(rs, fc, `keyObj.PodName == ""`)
	fact("`fetchChecklist`: records whose key has no pod name (app / pool prefix keys) are skipped - the root of the known finding dp-prefix-ip-never-reevaluated",
		"resyncSkipsKeysWithoutPodName", noPod != nil && strings.Contains(norm(rs.Src(noPod.Body)), "continue"))
	neverSkip := findIf(rs, fc, "fip.PodUid", "fip.NodeName", "ReleasePolicyNever")
	if neverSkip == nil {
		return nil, fmt.Errorf("resync.go: fetchChecklist lost the never-policy skip")
	}
	ns, err := boolExpr(rs, neverSkip.Cond, map[string]string{`fip.PodUid == ""`: "uidEmpty", `fip.NodeName == ""`: "nodeEmpty",
		"keyObj.Deployment()": "isDp", "constant.ReleasePolicy(fip.Policy) == constant.ReleasePolicyNever": "(policy == releasePolicyNever)"})
	if err != nil {
		return nil, fmt.Errorf("resync.go fetchChecklist: %v", err)
	}
	say("`fetchChecklist`: a record is skipped (never re-checked) when `"+norm(rs.Src(neverSkip.Cond))+"`",
		"def resyncSkipsReserved (uidEmpty nodeEmpty isDp : Bool) (policy : Nat) : Bool := "+ns)
	rai, err := rs.Fn("FloatingIPPlugin", "resyncAllocatedIPs")
	if err != nil {
		return nil, err
	}
	var closure *ast.FuncLit
	ast.Inspect(rai, func(n ast.Node) bool {
		if f, ok := n.(*ast.FuncLit); ok && closure == nil {
			closure = f
		}
		return closure == nil
	})
	resOK := false
	if closure != nil {
		rd := topIndex(rs, closure.Body, "p.ipam.ByIP(obj.fip.IP)")
		as := -1
		for i, s := range closure.Body.List {
			if norm(rs.Src(s)) == "obj.fip = fip" {
				as = i
			}
		}
		pol := topIndex(rs, closure.Body, "releasePolicy := constant.ReleasePolicy(obj.fip.Policy)")
		cb := norm(rs.Src(closure.Body))
		resOK = before(rd, as) && before(as, pol) &&
			strings.Contains(cb, `p.unbindNoneDpPod(obj.keyObj, releasePolicy, "during resync")`) &&
			strings.Contains(cb, `p.unbindDpPod(obj.keyObj, releasePolicy, "during resync")`) &&
			strings.Contains(cb, "if !obj.keyObj.Deployment()")
	}
	fact("resync closure: the record is re-read (`ByIP`), stored into `obj.fip`, and the decision functions get `constant.ReleasePolicy(obj.fip.Policy)` - the STORED policy of the re-read record",
		"resyncUsesRereadRecordAndStoredPolicy", resOK)

	// ---------------------------------------------------------------- bind.go unbind
	bd, err := fg.ParseFile(repo, dir+"bind.go")
	if err != nil {
		return nil, err
	}
	unb, err := bd.Fn("FloatingIPPlugin", "unbind")
	if err != nil {
		return nil, err
	}
	ubs := norm(bd.Src(unb.Body))
	fact("`unbind` (event path): the policy is parsed from the event's pod object; deployment keys go to unbindDpPod, all others to unbindNoneDpPod",
		"unbindUsesPodPolicy", strings.Contains(ubs, "policy := parseReleasePolicy(&pod.ObjectMeta)") &&
			strings.Contains(ubs, `if keyObj.Deployment() { return p.unbindDpPod(keyObj, policy, "during unbinding pod") } return p.unbindNoneDpPod(keyObj, policy, "during unbinding pod")`))

	// ---------------------------------------------------------------- floatingip: ReserveIP, Assign, CloneWith
	ic, err := fg.ParseFile(repo, "pkg/ipam/floatingip/ipam_crd.go")
	if err != nil {
		return nil, err
	}
	rsv, err := ic.Fn("crdIpam", "ReserveIP")
	if err != nil {
		return nil, err
	}
	copyOK := false
	ast.Inspect(rsv, func(n ast.Node) bool {
		blk, ok := n.(*ast.BlockStmt)
		if !ok {
			return true
		}
		cp, up, as := -1, -1, -1
		for i, s := range blk.List {
			t := norm(ic.Src(s))
			switch {
			case t == "attr.Policy = constant.ReleasePolicy(v.Policy)":
				cp = i
			case strings.HasPrefix(t, "if err := ci.updateFloatingIP(v.CloneWith(newK, &attr, date)); err != nil") && strings.Contains(t, "return false, err"):
				up = i
			case t == "v.Assign(newK, &attr, date)":
				as = i
			}
		}
		if before(cp, up) && before(up, as) {
			copyOK = true
		}
		return true
	})
	fact("`ReserveIP`: `attr.Policy = constant.ReleasePolicy(v.Policy)` precedes BOTH the persisted clone `updateFloatingIP(v.CloneWith(newK, &attr, date))` (error returned) and the cached record `v.Assign(newK, &attr, date)`",
		"reserveCopiesStoredPolicy", copyOK)
	rsvS := norm(ic.Src(rsv.Body))
	fact("`ReserveIP`: runs under cacheLock; touches exactly the records with `v.Key == oldK`; skips when nothing would change (`oldK == newK && v.PodUid == attr.Uid && v.NodeName == attr.NodeName`)",
		"reserveShape", strings.Contains(rsvS, "ci.cacheLock.Lock() defer ci.cacheLock.Unlock()") && strings.Contains(rsvS, "if v.Key == oldK {") &&
			strings.Contains(rsvS, "if oldK == newK && v.PodUid == attr.Uid && v.NodeName == attr.NodeName { continue }"))
	ff, err := fg.ParseFile(repo, "pkg/ipam/floatingip/floatingip.go")
	if err != nil {
		return nil, err
	}
	asg, err := ff.Fn("FloatingIP", "Assign")
	if err != nil {
		return nil, err
	}
	cw, err := ff.Fn("FloatingIP", "CloneWith")
	if err != nil {
		return nil, err
	}
	fact("`FloatingIP.Assign` writes key, `Policy = uint16(attr.Policy)`, node, uid, time; `CloneWith` builds the clone through Assign",
		"assignWritesPolicyFromAttr", strings.Contains(norm(ff.Src(asg.Body)), "f.Key = key f.Policy = uint16(attr.Policy)") &&
			strings.Contains(norm(ff.Src(asg.Body)), "f.NodeName = attr.NodeName f.PodUid = attr.Uid") &&
			strings.Contains(norm(ff.Src(cw.Body)), "return fip.Assign(key, attr, updateAt)"))
	awk, err := ic.Fn("crdIpam", "AllocateInSubnetWithKey")
	if err != nil {
		return nil, err
	}
	aw := norm(ic.Src(awk.Body))
	latest := findIf(ic, awk, "v.UpdatedAt.UnixNano()", "recordTs")
	latestCmp := ""
	if latest != nil {
		latestCmp = norm(ic.Src(latest.Cond))
	}
	fact("`AllocateInSubnetWithKey`: among the records with `v.Key == oldK` routable from the subnet the one with the greatest UpdatedAt is re-keyed (strict `>` from 0); store update first, error returned, then the cache",
		"allocateWithKeyTakesLatest", strings.Contains(aw, "if v.Key == oldK && v.pool.nodeSubnets.Has(subnet)") &&
			latestCmp == "v.UpdatedAt.UnixNano() > recordTs" && strings.Contains(aw, "latest = v recordTs = v.UpdatedAt.UnixNano()") &&
			strings.Contains(aw, "cloned := latest.CloneWith(newK, &attr, date) if err := ci.updateFloatingIP(cloned); err != nil") &&
			strings.Contains(aw, "return err } latest.Assign(newK, &attr, date) return nil"))

	// ---------------------------------------------------------------- bind.go allocateIP (C02)
	alc, err := bd.Fn("FloatingIPPlugin", "allocateIP")
	if err != nil {
		return nil, err
	}
	al := norm(bd.Src(alc.Body))
	fact("`allocateIP`: looks up `ByKeyAndIPRanges(key, ipranges)` first; without requested ranges only `ipInfos[:1]` is reused; a new allocation happens only for unallocated ranges or when the key owns nothing; the annotation lists the ipInfos in order",
		"allocateIPReusesOwned", strings.Contains(al, "ipInfos, err := p.ipam.ByKeyAndIPRanges(key, ipranges)") &&
			strings.Contains(al, "if len(ipranges) == 0 && len(ipInfos) > 0 { ipInfos = ipInfos[:1] }") &&
			strings.Contains(al, "cniArgs.Common.IPInfos = ret"))
	fact("`allocateIP`: `AllocateInSubnetsAndIPRange` is guarded by `len(unallocatedIPRange) > 0 || len(ipInfos) == 0`",
		"allocateIPAllocatesOnlyMissing", strings.Contains(al, "if len(unallocatedIPRange) > 0 || len(ipInfos) == 0 {") &&
			strings.Count(al, "p.ipam.AllocateInSubnetsAndIPRange(") == 1)

	b.WriteString("end Galaxy.Generated.C03\n")
	return map[string]string{"C03.lean": b.String()}, nil
}

func main() { fg.Run("c03", gen) }
