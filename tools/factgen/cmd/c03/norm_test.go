package main

import (
	"go/ast"
	"go/parser"
	"go/token"
	"os"
	"testing"
)

// canon normalises function `f` of a miniature source (other functions of the snippet are its package).
func canon(t *testing.T, src string, spec FuncSpec) string {
	t.Helper()
	fset := token.NewFileSet()
	file, err := parser.ParseFile(fset, "x.go", "package x\n"+src, parser.ParseComments)
	if err != nil {
		t.Fatal(err)
	}
	nz := newNormaliser()
	nz.RegisterFuncs(fset, file)
	var fd *ast.FuncDecl
	for _, d := range file.Decls {
		if x, ok := d.(*ast.FuncDecl); ok && x.Name.Name == "f" {
			fd = x
		}
	}
	nf, err := nz.Normalise(fset, fd, spec)
	if err != nil {
		t.Fatal(err)
	}
	return nf.Text
}

func same(t *testing.T, what, a, b string, spec FuncSpec) {
	t.Helper()
	ca, cb := canon(t, a, spec), canon(t, b, spec)
	if ca != cb {
		t.Errorf("%s: canonical forms differ\n A: %s\n B: %s", what, ca, cb)
	}
}

func differ(t *testing.T, what, a, b string, spec FuncSpec) {
	t.Helper()
	if ca, cb := canon(t, a, spec), canon(t, b, spec); ca == cb {
		t.Errorf("%s: canonical forms must differ, both are\n %s", what, ca)
	}
}

var none = FuncSpec{}

func TestSwitchIsIfChain(t *testing.T) {
	a := `func f(policy int) int {
	if policy == A { return 1 } else if policy == B || policy == C { return 2 }
	return 3 }`
	b := `func f(policy int) int {
	switch policy {
	case A:
		return 1
	case B, C:
		return 2
	}
	return 3 }`
	same(t, "switch vs if chain", a, b, none)
	same(t, "if chain vs switch", b, a, none)
	c := `func f(policy int) int {
	switch policy {
	case A:
		return 1
	case B:
		return 2
	}
	return 3 }`
	differ(t, "dropped case value", b, c, none)
	d := `func f(policy int) int {
	switch policy {
	case A:
		return 1
	default:
		return 3
	}
}`
	e := `func f(policy int) int { if policy == A { return 1 }; return 3 }`
	same(t, "default clause vs trailing return", d, e, none)
}

func TestElseAfterLeavingBranch(t *testing.T) {
	a := `func f(n, r int) error {
	if n > r { return rel() } else { if k != p { return res() } }
	return nil }`
	b := `func f(n, r int) error {
	if n > r { return rel() }
	if k != p { return res() }
	return nil }`
	same(t, "flattened else", a, b, none)
	c := `func f(n, r int) error {
	if n >= r { return rel() }
	if k != p { return res() }
	return nil }`
	differ(t, "changed operator", b, c, none)
	d := `func f(n, r int) error {
	if r > n { return rel() }
	if k != p { return res() }
	return nil }`
	differ(t, "swapped operands", b, d, none)
	e := `func f(n, r int) error {
	if k != p { return res() }
	if n > r { return rel() }
	return nil }`
	differ(t, "reordered guards", b, e, none)
}

func TestHelperInlinedOneLevel(t *testing.T) {
	a := `func (ci *T) f(oldK, newK string) error {
	ci.mu.Lock()
	defer ci.mu.Unlock()
	var latest *R
	for _, v := range ci.m { if v.Key == oldK { latest = v } }
	if latest == nil { return fmt.Errorf("none for %s", oldK) }
	return ci.update(latest) }`
	b := `func (ci *T) f(oldK, newK string) error {
	ci.mu.Lock()
	defer ci.mu.Unlock()
	latest := ci.latestOf(oldK)
	if latest == nil { return fmt.Errorf("nothing found") }
	return ci.update(latest) }
// latestOf: caller holds the lock
func (c *T) latestOf(key string) *R {
	var latest *R
	for _, v := range c.m { if v.Key == key { latest = v } }
	return latest }`
	same(t, "extracted helper", a, b, FuncSpec{Recv: "ci"})
	c := `func (ci *T) f(oldK, newK string) error {
	latest := ci.latestOf(oldK)
	ci.mu.Lock()
	defer ci.mu.Unlock()
	if latest == nil { return fmt.Errorf("nothing found") }
	return ci.update(latest) }
func (c *T) latestOf(key string) *R {
	var latest *R
	for _, v := range c.m { if v.Key == key { latest = v } }
	return latest }`
	differ(t, "helper call moved across the lock", b, c, FuncSpec{Recv: "ci"})
	// a helper the translator knows by name stays a call
	d := `func (p *T) f(k string) error { return p.releaseIP(k) }
func (p *T) releaseIP(k string) error { x := 1; _ = x; return nil }`
	if got := canon(t, d, none); got != "{ return p.releaseIP(k) }" {
		t.Errorf("known helper was inlined: %s", got)
	}
}

func TestAlphaRenamingAndInlinedLocals(t *testing.T) {
	a := `func (p *P) f(keyObj *K, policy int) error {
	key, prefixKey := keyObj.KeyInDB, keyObj.PoolPrefix()
	replicas, err := p.getReplicasOfDeployment(keyObj)
	if err != nil { return err }
	if replicas == 0 { return p.releaseIP(key) }
	if key != prefixKey { return p.reserveIP(key, prefixKey) }
	return nil }`
	b := `func (plugin *P) f(ko *K, pol int) error {
	n, e := plugin.getReplicasOfDeployment(ko)
	if e != nil { return e }
	if n == 0 { return plugin.releaseIP(ko.KeyInDB) }
	pre := ko.PoolPrefix()
	if !(ko.KeyInDB == pre) { return plugin.reserveIP(ko.KeyInDB, pre) }
	return nil }`
	spec := FuncSpec{Recv: "p", Params: []string{"keyObj", "policy"}}
	same(t, "renamed + inlined", a, b, spec)
	c := `func (p *P) f(keyObj *K, policy int) error {
	key, prefixKey := keyObj.KeyInDB, keyObj.PoolPrefix()
	replicas, err := p.getReplicasOfDeployment(keyObj)
	if err != nil { return err }
	if replicas == 0 { return p.releaseIP(prefixKey) }
	if key != prefixKey { return p.reserveIP(key, prefixKey) }
	return nil }`
	differ(t, "changed argument of a side-effecting call", a, c, spec)
	// a local whose right-hand side changes before the use is NOT inlined
	d := `func f(s Set) string { first := s.List()[0]; s = New(first); return first }`
	if got := canon(t, d, none); got != "{ first := s.List()[0] s = New(first) return first }" {
		t.Errorf("unstable local inlined: %s", got)
	}
}

func TestLogsMessagesAndRangeForms(t *testing.T) {
	a := `func f(all []*R) error {
	for i := range all {
		fip := all[i]
		if fip.Key == "" { glog.Warningf("empty %v", fip); continue }
		use(fip)
	}
	return fmt.Errorf("failed: %s", "x") }`
	b := `func f(all []*R) error {
	// reworded
	for _, fip := range all {
		if fip.Key == "" { continue }
		use(fip)
	}
	return fmt.Errorf("it failed") }`
	same(t, "index range, logs, message text", a, b, none)
	c := `func f(all []*R) error {
	for _, fip := range all {
		if fip.Key == "" { continue }
		use(fip)
	}
	return nil }`
	differ(t, "error became nil", b, c, none)
	d := `func f(all []*R) error {
	for _, fip := range all {
		use(fip)
	}
	return fmt.Errorf("it failed") }`
	differ(t, "dropped guard", b, d, none)
}

func TestReachWithGuardClauses(t *testing.T) {
	nested := `func f() { for _, ip := range ips {
	if ip.Key != pre { if sized || noPool { usedCount++ } else { if has(ip) { usedCount++ } } } else { unused.Insert(ip) } } }`
	guards := `func f() { for _, ip := range ips {
	if ip.Key == pre { unused.Insert(ip); continue }
	if sized || noPool { usedCount++; continue }
	if has(ip) { usedCount++ } } }`
	atoms := map[string]string{"ip.Key != pre": "(!k)", "ip.Key == pre": "k", "sized": "s", "noPool": "n", "has(ip)": "h"}
	eval := func(src string) [16]bool {
		fset := token.NewFileSet()
		file, err := parser.ParseFile(fset, "x.go", "package x\n"+src, 0)
		if err != nil {
			t.Fatal(err)
		}
		nz := newNormaliser()
		nf, err := nz.Normalise(fset, file.Decls[0].(*ast.FuncDecl), none)
		if err != nil {
			t.Fatal(err)
		}
		loop := nf.Decl.Body.List[0].(*ast.RangeStmt)
		expr, ok, err := reach(nf, loop.Body.List, "usedCount++", atoms, "true")
		if err != nil || !ok {
			t.Fatalf("reach: %v %v", ok, err)
		}
		var out [16]bool
		for m := 0; m < 16; m++ {
			out[m] = evalBool(t, expr, map[string]bool{"k": m&1 != 0, "s": m&2 != 0, "n": m&4 != 0, "h": m&8 != 0})
		}
		return out
	}
	if eval(nested) != eval(guards) {
		t.Errorf("guard-clause form and nested form give different reach conditions")
	}
}

// evalBool evaluates the Lean-syntax Boolean expressions reach produces (atoms, !, &&, ||, parentheses).
func evalBool(t *testing.T, s string, env map[string]bool) bool {
	pos := 0
	var or func() bool
	skip := func() {
		for pos < len(s) && s[pos] == ' ' {
			pos++
		}
	}
	var atom func() bool
	atom = func() bool {
		skip()
		switch {
		case s[pos] == '(':
			pos++
			v := or()
			skip()
			pos++
			return v
		case s[pos] == '!':
			pos++
			return !atom()
		}
		st := pos
		for pos < len(s) && (s[pos] >= 'a' && s[pos] <= 'z') {
			pos++
		}
		name := s[st:pos]
		if name == "true" {
			return true
		}
		v, ok := env[name]
		if !ok {
			t.Fatalf("unknown atom %q in %q", name, s)
		}
		return v
	}
	and := func() bool {
		v := atom()
		for skip(); pos+1 < len(s) && s[pos:pos+2] == "&&"; skip() {
			pos += 2
			w := atom()
			v = v && w
		}
		return v
	}
	or = func() bool {
		v := and()
		for skip(); pos+1 < len(s) && s[pos:pos+2] == "||"; skip() {
			pos += 2
			w := and()
			v = v || w
		}
		return v
	}
	return or()
}

func TestNoFallThroughReachability(t *testing.T) {
	mk := func(src string) (*NF, []ast.Stmt) {
		fset := token.NewFileSet()
		file, err := parser.ParseFile(fset, "x.go", "package x\n"+src, 0)
		if err != nil {
			t.Fatal(err)
		}
		nf, err := newNormaliser().Normalise(fset, file.Decls[0].(*ast.FuncDecl), none)
		if err != nil {
			t.Fatal(err)
		}
		return nf, nf.Decl.Body.List
	}
	good := `func f(reserve, sized bool) error {
	if reserve { if err := p.allocateInSubnetWithKey(); err != nil { return err } } else if sized { if err := p.allocateInSubnet(); err != nil { return err } }
	return nil }`
	alsoGood := `func f(reserve, sized bool) error {
	if reserve { return p.allocateInSubnetWithKey() }
	if sized { return p.allocateInSubnet() }
	return nil }`
	bad := `func f(reserve, sized bool) error {
	if reserve { err := p.allocateInSubnetWithKey(); if err == nil { return nil }; if !sized { return err } }
	if sized { return p.allocateInSubnet() }
	return nil }`
	for name, c := range map[string]struct {
		src  string
		want bool
	}{"pinned": {good, false}, "early returns": {alsoGood, false}, "fall through": {bad, true}} {
		nf, body := mk(c.src)
		if got := reachableUnder(nf, body, "p.allocateInSubnet(", map[string]bool{"reserve": true}); got != c.want {
			t.Errorf("%s: fresh allocation reachable with reserve=true: got %v want %v", name, got, c.want)
		}
	}
}

// the canonical forms of the pinned tree must be reproducible and every fact must hold on it
func TestPinnedTree(t *testing.T) {
	repo := "/repo"
	if r := os.Getenv("GALAXY_REPO"); r != "" {
		repo = r
	}
	if _, err := os.Stat(repo + "/pkg/ipam/schedulerplugin/deployment.go"); err != nil {
		t.Skip("no repository")
	}
	out, err := gen(repo)
	if err != nil {
		t.Fatal(err)
	}
	if want, err := os.ReadFile("../../golden/c03/C03.lean"); err == nil && os.Getenv("GALAXY_REPO") == "" && string(want) != out["C03.lean"] {
		t.Errorf("output differs from tools/factgen/golden/c03/C03.lean (regenerate the golden copy if the change is intended)")
	}
}

func TestOrientation(t *testing.T) {
	a := `func f(shouldRelease bool) error { if !shouldRelease { return reserve() } else { return release() } }`
	b := `func f(shouldRelease bool) error { if shouldRelease { return release() }; return reserve() }`
	same(t, "inverted two-way return", a, b, none)
	c := `func f(shouldRelease bool) error { if shouldRelease { return reserve() }; return release() }`
	differ(t, "swapped actions", b, c, none)
}
