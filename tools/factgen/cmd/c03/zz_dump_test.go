package main

import (
	"os"
	"testing"

	"factgen/fg"
)

func TestDump(t *testing.T) {
	repo := "/repo"
	if r := os.Getenv("GALAXY_REPO"); r != "" {
		repo = r
	}
	forms, err := canonicalForms(repo)
	if err != nil {
		t.Fatal(err)
	}
	os.Setenv("FACTGEN_C03_DUMP", "1")
	dump(forms)
	_ = fg.LeanBool
}
