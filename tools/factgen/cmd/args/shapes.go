package main

// Semantic shape recognition for the C13 translator: every function is first normalised (factgen/semnorm: alpha-renaming,
// inlining of single-assignment locals, conditions as sets of conjuncts, guard clauses, Sprintf ≡ concatenation,
// pre-allocation ≡ nil slice, log statements and error texts dropped) and the facts are read off the normal form.

import (
	"fmt"
	"go/ast"
	"go/token"
	"regexp"
	"strconv"
	"strings"

	"factgen/semnorm"
)

const strRe = `"((?:[^"\\]|\\.)*)"`

func unq(s string) string {
	u, err := strconv.Unquote(`"` + s + `"`)
	if err != nil {
		return s
	}
	return u
}

func dump(es []semnorm.Effect) string {
	var b strings.Builder
	for _, e := range es {
		b.WriteString("\n    " + e.String())
	}
	return b.String()
}

func contains(set []string, x string) bool {
	for _, s := range set {
		if s == x {
			return true
		}
	}
	return false
}

func subset(a, b []string) bool {
	for _, x := range a {
		if !contains(b, x) {
			return false
		}
	}
	return true
}

var (
	reAppend = regexp.MustCompile(`^\$1 = append\(\$1, concat\(key\(\$0\), ` + strRe + `, elem\(\$0\)\)\)$`)
	reJoin   = regexp.MustCompile(`^return strings\.Join\(\$1, ` + strRe + `\)$`)
)

// buildShape: BuildCNIArgs(m) = Join([k + <kv> + v for k, v in range m], <entry>), starting from an empty slice.
func buildShape(fset *token.FileSet, fd *ast.FuncDecl) (kv, entry string, err error) {
	es := semnorm.Analyze(fset, fd, nil)
	bad := func(why string) (string, string, error) {
		return "", "", fmt.Errorf("BuildCNIArgs: %s; normal form:%s", why, dump(es))
	}
	if len(es) != 3 {
		return bad("expected three effects (empty slice, append in a range loop over the map, return of strings.Join)")
	}
	if es[0].Text != "$1 = empty([]string)" || len(es[0].Loops)+len(es[0].Conds) != 0 {
		return bad("the entries do not start as an empty []string")
	}
	m := reAppend.FindStringSubmatch(es[1].Text)
	if m == nil || len(es[1].Loops) != 1 || es[1].Loops[0] != "range $0" || len(es[1].Conds) != 0 {
		return bad("the loop does not append key + <sep> + value for every entry of the parameter")
	}
	j := reJoin.FindStringSubmatch(es[2].Text)
	if j == nil || len(es[2].Loops)+len(es[2].Conds) != 0 {
		return bad("the result is not strings.Join(entries, <sep>)")
	}
	return unq(m[1]), unq(j[1]), nil
}

var (
	reSplit  = regexp.MustCompile(`^range (strings\.Split\(\$0, ` + strRe + `\))$`)
	reSplitN = regexp.MustCompile(`strings\.SplitN\(elem\(strings\.Split\(\$0, ` + strRe + `\)\), ` + strRe + `, (\d+)\)`)
)

// parseShape: ParseCNIArgs splits on <entry>, each piece with SplitN(<kv>, 2); a piece without <kv> is skipped;
// m[TrimSpace(part[0])] = TrimSpace(part[1]) in order (later entries overwrite).
func parseShape(fset *token.FileSet, fd *ast.FuncDecl) (entry, kv string, skips, trims bool, err error) {
	es := semnorm.Analyze(fset, fd, nil)
	bad := func(why string) (string, string, bool, bool, error) {
		return "", "", false, false, fmt.Errorf("ParseCNIArgs: %s; normal form:%s", why, dump(es))
	}
	var loopEff []semnorm.Effect
	for _, e := range es {
		if len(e.Loops) > 0 {
			loopEff = append(loopEff, e)
		}
	}
	if len(loopEff) != 1 || len(loopEff[0].Loops) != 1 {
		return bad("expected exactly one effect inside exactly one loop (the map assignment)")
	}
	e := loopEff[0]
	sm := reSplit.FindStringSubmatch(e.Loops[0])
	if sm == nil {
		return bad("the loop does not range over strings.Split(<param>, <sep>)")
	}
	split := sm[1]
	entry = unq(sm[2])
	nm := reSplitN.FindAllStringSubmatch(e.Text+" "+strings.Join(e.Conds, " "), -1)
	if len(nm) == 0 {
		return bad("no strings.SplitN(<piece>, <sep>, n) on the loop element")
	}
	for _, x := range nm {
		if x[0] != nm[0][0] {
			return bad("more than one kind of SplitN call")
		}
	}
	if nm[0][3] != "2" {
		return bad("SplitN count is " + nm[0][3] + ", expected 2")
	}
	kv = unq(nm[0][2])
	part := nm[0][0]
	skips = contains(e.Conds, "len("+part+") == 2")
	// every other condition must be independent of the piece (early returns before the loop)
	for _, c := range e.Conds {
		if c != "len("+part+") == 2" && strings.Contains(c, "elem(") {
			return bad("an additional condition on the piece: " + c)
		}
	}
	trims = e.Text == "$1[strings.TrimSpace("+part+"[0])] = strings.TrimSpace("+part+"[1])"
	// the map is what is returned
	ret := false
	for _, x := range es {
		if len(x.Loops) == 0 && x.Text == "return $1, nil" && !strings.Contains(strings.Join(x.Conds, " "), "elem(") {
			ret = true
		}
	}
	if !ret || !strings.HasPrefix(es[0].Text, "$1 = make(map[string]string") {
		return bad("the result is not the freshly made map")
	}
	_ = split
	return entry, kv, skips, trims, nil
}

var reAcc = regexp.MustCompile(`^\$0\.Args = strings\.TrimRight\(concat\(\$0\.Args, ` + strRe + `, BuildCNIArgs\(elem\(\$1\)\.Args\)\), ` + strRe + `\)$`)

// accShape: CmdAdd, for every network in order: args = TrimRight(args + <sep> + BuildCNIArgs(network args), <cutset>),
// then DelegateAdd with the accumulated args, the accumulation being no more guarded than the delegate call.
func accShape(fset *token.FileSet, fd *ast.FuncDecl) (sep, cutset string, err error) {
	es := semnorm.Analyze(fset, fd, nil)
	acc, del := -1, -1
	for i, e := range es {
		if len(e.Loops) == 1 && e.Loops[0] == "range $1" {
			if reAcc.MatchString(e.Text) && acc < 0 {
				acc = i
			}
			if strings.Contains(e.Text, "DelegateAdd(elem($1).Conf, $0, ") && del < 0 {
				del = i
			}
		}
	}
	if acc < 0 {
		return "", "", fmt.Errorf("CmdAdd: no `args = TrimRight(args + <sep> + BuildCNIArgs(network.Args), <cutset>)` in the loop over the networks; normal form:%s", dump(es))
	}
	if del < acc || !subset(es[acc].Conds, es[del].Conds) {
		return "", "", fmt.Errorf("CmdAdd: DelegateAdd is not called with the accumulated args after the accumulation; normal form:%s", dump(es))
	}
	m := reAcc.FindStringSubmatch(es[acc].Text)
	return unq(m[1]), unq(m[2]), nil
}

var reCopy = regexp.MustCompile(`^elem\((\$\d+)\)\.Args\[key\((.+)\)\] = string\(elem\((.+)\)\)$`)

// resolveCopies: resolveNetworks copies every common.* member into every network's Args, unconditionally (apart
// from the error returns in front), and returns those networks.
func resolveCopies(fset *token.FileSet, fd *ast.FuncDecl) (bool, string) {
	es := semnorm.Analyze(fset, fd, nil)
	for _, e := range es {
		m := reCopy.FindStringSubmatch(e.Text)
		if m == nil || len(e.Loops) != 2 || m[2] != m[3] {
			continue
		}
		if e.Loops[0] != "range "+m[1] || e.Loops[1] != "range "+m[2] || !strings.HasPrefix(m[2], "parseExtendedCNIArgs(") {
			continue
		}
		for _, c := range e.Conds {
			if strings.Contains(c, "elem(") || strings.Contains(c, "key(") {
				return false, "the copy is guarded by " + c
			}
		}
		for _, r := range es {
			if len(r.Loops) == 0 && r.Text == "return "+m[1]+", nil" {
				return true, ""
			}
		}
		return false, "the networks the args were copied into are not what is returned"
	}
	return false, "no `networkInfos[i].Args[k] = string(v)` for every network and every member of parseExtendedCNIArgs(pod); normal form:" + dump(es)
}

// allocateShape: cni/ipam.Allocate decodes ParseCNIArgs(args.Args)[constant.IPInfosKey] as []constant.IPInfo and
// returns one result + vlan per element, in order.
func allocateShape(fset *token.FileSet, fd *ast.FuncDecl) (bool, string) {
	es := semnorm.Analyze(fset, fd, nil)
	val := "cniutil.ParseCNIArgs($1.Args)#0[constant.IPInfosKey]"
	reDecl := regexp.MustCompile(`^(\$\d+) = empty\(\[\]constant\.IPInfo\)$`)
	lst := ""
	for _, e := range es {
		if m := reDecl.FindStringSubmatch(e.Text); m != nil {
			lst = m[1]
		}
	}
	if lst == "" {
		return false, "no []constant.IPInfo to decode into"
	}
	unm, res, vl, ret := false, "", "", false
	reRes := regexp.MustCompile(`^(\$\d+) = append\((\$\d+), cniutil\.IPInfoToResult\(&elem\(` + regexp.QuoteMeta(lst) + `\)\)\)$`)
	reVl := regexp.MustCompile(`^(\$\d+) = append\((\$\d+), elem\(` + regexp.QuoteMeta(lst) + `\)\.Vlan\)$`)
	for _, e := range es {
		if e.Text == "call json.Unmarshal([]byte("+val+"), &"+lst+")" && contains(e.Conds, val+` != ""`) {
			unm = true
		}
		if m := reRes.FindStringSubmatch(e.Text); m != nil && m[1] == m[2] && len(e.Loops) == 1 && e.Loops[0] == "range "+lst {
			res = m[1]
		}
		if m := reVl.FindStringSubmatch(e.Text); m != nil && m[1] == m[2] && len(e.Loops) == 1 && e.Loops[0] == "range "+lst {
			vl = m[1]
		}
		if res != "" && vl != "" && len(e.Loops) == 0 && e.Text == "return "+vl+", "+res+", nil" && contains(e.Conds, val+` != ""`) {
			ret = true
		}
	}
	if !unm || res == "" || vl == "" || !ret {
		return false, fmt.Sprintf("unmarshal=%v results=%q vlans=%q returned=%v; normal form:%s", unm, res, vl, ret, dump(es))
	}
	return true, ""
}

// effectContains: some effect of the normalised function contains all the given fragments (in its text).
func effectContains(fset *token.FileSet, fd *ast.FuncDecl, frags ...string) bool {
	for _, e := range semnorm.Analyze(fset, fd, nil) {
		all := true
		for _, f := range frags {
			if !strings.Contains(e.Text, f) {
				all = false
			}
		}
		if all {
			return true
		}
	}
	return false
}
