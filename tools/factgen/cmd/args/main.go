// factgen translator "args" (property C13): regenerates lean/Galaxy/Generated/Args.lean from the CURRENT text of
//
//	pkg/api/cniutil/cni.go               BuildCNIArgs / ParseCNIArgs / the accumulation statement of CmdAdd
//	pkg/api/galaxy/constant/constant.go  IPInfosKey, annotation name, json tags of CniArgs/CommonCniArgs/IPInfo
//	pkg/galaxy/server.go                 parseExtendedCNIArgs (annotation + "common" tag), resolveNetworks (arg copy)
//	cni/ipam/ipam.go                     Allocate: ParseCNIArgs -> kvMap[IPInfosKey] -> []constant.IPInfo
//	pkg/utils/nets/ip.go                 IPNet JSON = CIDR string, host bits preserved on decode
//	pkg/api/k8s/k8s.go                   K8S_POD_* argument names
//
// Syntactic only (go/ast, stdlib); fails loudly when a function no longer has the shape it can translate.
package main

import (
	"fmt"
	"go/ast"
	"go/token"
	"reflect"
	"strconv"
	"strings"

	"factgen/fg"
)

func main() { fg.Run("args", gen) }

// calls returns every call expression below n whose printed callee equals name.
func calls(p *fg.Parsed, n ast.Node, name string) []*ast.CallExpr {
	var out []*ast.CallExpr
	ast.Inspect(n, func(x ast.Node) bool {
		if c, ok := x.(*ast.CallExpr); ok && p.Src(c.Fun) == name {
			out = append(out, c)
		}
		return true
	})
	return out
}

func strLit(e ast.Expr) (string, bool) {
	bl, ok := e.(*ast.BasicLit)
	if !ok || bl.Kind != token.STRING {
		return "", false
	}
	s, err := strconv.Unquote(bl.Value)
	return s, err == nil
}

func oneChar(what, s string) (rune, error) {
	r := []rune(s)
	if len(r) != 1 {
		return 0, fmt.Errorf("%s: expected a one-character separator, got %q", what, s)
	}
	return r[0], nil
}

func leanChar(r rune) string { return fmt.Sprintf("Char.ofNat %d", r) }

// structFields returns (field name, printed type, json tag name, omitempty) of a named struct type in file p.
type field struct {
	Name, Type, Tag string
	OmitEmpty       bool
}

func structOf(p *fg.Parsed, st *ast.StructType) ([]field, error) {
	var out []field
	for _, f := range st.Fields.List {
		if len(f.Names) != 1 {
			return nil, fmt.Errorf("%s: struct field without a single name (%s)", p.Path, p.Src(f))
		}
		fl := field{Name: f.Names[0].Name, Type: p.Src(f.Type), Tag: f.Names[0].Name}
		if f.Tag != nil {
			raw, err := strconv.Unquote(f.Tag.Value)
			if err != nil {
				return nil, err
			}
			if js, ok := reflect.StructTag(raw).Lookup("json"); ok {
				parts := strings.Split(js, ",")
				if parts[0] == "-" {
					return nil, fmt.Errorf("%s: field %s is excluded from JSON", p.Path, fl.Name)
				}
				if parts[0] != "" {
					fl.Tag = parts[0]
				}
				for _, o := range parts[1:] {
					if o == "omitempty" {
						fl.OmitEmpty = true
					} else {
						return nil, fmt.Errorf("%s: field %s: json option %q not handled", p.Path, fl.Name, o)
					}
				}
			}
		}
		out = append(out, fl)
	}
	return out, nil
}

func namedStruct(p *fg.Parsed, name string) ([]field, error) {
	for _, d := range p.File.Decls {
		gd, ok := d.(*ast.GenDecl)
		if !ok || gd.Tok != token.TYPE {
			continue
		}
		for _, s := range gd.Specs {
			ts := s.(*ast.TypeSpec)
			if ts.Name.Name != name {
				continue
			}
			st, ok := ts.Type.(*ast.StructType)
			if !ok {
				return nil, fmt.Errorf("%s: type %s is not a struct", p.Path, name)
			}
			return structOf(p, st)
		}
	}
	return nil, fmt.Errorf("%s: struct type %s not found", p.Path, name)
}

func gen(repo string) (map[string]string, error) {
	var b strings.Builder
	b.WriteString(fg.Header("CNI argument codec constants and structural facts (C13)",
		"pkg/api/cniutil/cni.go", "pkg/api/galaxy/constant/constant.go", "pkg/galaxy/server.go",
		"cni/ipam/ipam.go", "pkg/utils/nets/ip.go", "pkg/api/k8s/k8s.go"))
	b.WriteString("namespace Galaxy.Generated.Args\n\n")
	def := func(name, typ, val, comment string) {
		fmt.Fprintf(&b, "/-- %s -/\ndef %s : %s := %s\n\n", comment, name, typ, val)
	}
	// structural facts are translated to a Bool: `false` (with the reason) when the source no longer has the shape —
	// the pinned `fact_structure` theorem then fails; only constants that cannot be extracted make the translator fail.
	fact := func(name string, holds bool, comment, why string) {
		if !holds {
			comment += " — NOT FOUND in the current source: " + why
		}
		def(name, "Bool", fg.LeanBool(holds), comment)
	}

	// ---------------------------------------------------------------- cniutil
	cni, err := fg.ParseFile(repo, "pkg/api/cniutil/cni.go")
	if err != nil {
		return nil, err
	}
	// BuildCNIArgs(m) = Join([k + <kv> + v …], <entry>) — read off the normal form (shapes.go)
	bf, err := cni.Fn("", "BuildCNIArgs")
	if err != nil {
		return nil, err
	}
	bkv, bentry, err := buildShape(cni.Fset, bf)
	if err != nil {
		return nil, err
	}
	buildKv, err := oneChar("BuildCNIArgs key/value separator", bkv)
	if err != nil {
		return nil, err
	}
	buildEntry, err := oneChar("BuildCNIArgs join separator", bentry)
	if err != nil {
		return nil, err
	}
	def("buildKvSep", "Char", leanChar(buildKv), fmt.Sprintf("BuildCNIArgs: every entry is key + %q + value", bkv))
	def("buildEntrySep", "Char", leanChar(buildEntry), fmt.Sprintf("BuildCNIArgs: strings.Join(entries, %q)", bentry))

	// ParseCNIArgs
	pf, err := cni.Fn("", "ParseCNIArgs")
	if err != nil {
		return nil, err
	}
	ps, pk, skip, assign, err := parseShape(cni.Fset, pf)
	if err != nil {
		return nil, err
	}
	parseEntry, err := oneChar("ParseCNIArgs split separator", ps)
	if err != nil {
		return nil, err
	}
	parseKv, err := oneChar("ParseCNIArgs SplitN separator", pk)
	if err != nil {
		return nil, err
	}
	def("parseEntrySep", "Char", leanChar(parseEntry), fmt.Sprintf("ParseCNIArgs: strings.Split(args, %q)", ps))
	def("parseKvSep", "Char", leanChar(parseKv), fmt.Sprintf("ParseCNIArgs: strings.SplitN(kv, %q, 2)", pk))
	fact("parseSkipsEntryWithoutKv", skip, "ParseCNIArgs: a piece is used only if `len(part) == 2` (`if len(part) != 2 { continue }`)",
		"the map assignment is not guarded by len(part) == 2")
	fact("parseTrimsKeyAndValue", assign,
		"ParseCNIArgs: `kvMap[strings.TrimSpace(part[0])] = strings.TrimSpace(part[1])` (later entries overwrite)",
		"the loop's effect is not that assignment")

	// CmdAdd accumulation: cmdArgs.Args = TrimRight(cmdArgs.Args + <sep> + BuildCNIArgs(networkInfo.Args), <cutset>), then DelegateAdd
	af, err := cni.Fn("", "CmdAdd")
	if err != nil {
		return nil, err
	}
	asep, acut, err := accShape(cni.Fset, af)
	if err != nil {
		return nil, err
	}
	accSep, err := oneChar("CmdAdd accumulation separator", asep)
	if err != nil {
		return nil, err
	}
	cutc, err := oneChar("CmdAdd TrimRight cutset", acut)
	if err != nil {
		return nil, err
	}
	def("accSep", "Char", leanChar(accSep), fmt.Sprintf("CmdAdd: cmdArgs.Args = TrimRight(cmdArgs.Args + %q + BuildCNIArgs(networkInfo.Args), %q), before DelegateAdd", asep, acut))
	def("accTrimChar", "Char", leanChar(cutc), "CmdAdd: TrimRight cutset")
	// DelegateAdd passes args.Args as PluginArgsStr
	df, err := cni.Fn("", "DelegateAdd")
	if err != nil {
		return nil, err
	}
	fact("delegateAddPassesArgsVerbatim", effectContains(cni.Fset, df, "return invoke.ExecPluginWithResult(", "PluginArgsStr: $1.Args,"),
		"DelegateAdd: the plugin is executed with invoke.Args{PluginArgsStr: args.Args}", "PluginArgsStr is no longer args.Args")

	// ---------------------------------------------------------------- constant.go
	cst, err := fg.ParseFile(repo, "pkg/api/galaxy/constant/constant.go")
	if err != nil {
		return nil, err
	}
	ipInfosKey, err := cst.ConstString("IPInfosKey")
	if err != nil {
		return nil, err
	}
	annName, err := cst.ConstString("ExtendedCNIArgsAnnotation")
	if err != nil {
		return nil, err
	}
	def("ipInfosKey", "String", fg.LeanStr(ipInfosKey), "constant.IPInfosKey (the CNI_ARGS key the plugins look up)")
	def("annotationName", "String", fg.LeanStr(annName), "constant.ExtendedCNIArgsAnnotation")
	cniArgsT, err := namedStruct(cst, "CniArgs")
	if err != nil {
		return nil, err
	}
	tagCommon := ""
	for _, f := range cniArgsT {
		if f.Name == "Common" {
			if f.Type != "CommonCniArgs" || f.OmitEmpty {
				return nil, fmt.Errorf("CniArgs.Common: type %s omitempty=%v not handled", f.Type, f.OmitEmpty)
			}
			tagCommon = f.Tag
		}
	}
	if tagCommon == "" {
		return nil, fmt.Errorf("CniArgs has no field Common")
	}
	def("tagCommon", "String", fg.LeanStr(tagCommon), "json name of CniArgs.Common (written by galaxy-ipam)")
	commonT, err := namedStruct(cst, "CommonCniArgs")
	if err != nil {
		return nil, err
	}
	if len(commonT) != 1 || commonT[0].Name != "IPInfos" || commonT[0].Type != "[]IPInfo" {
		return nil, fmt.Errorf("CommonCniArgs is no longer { IPInfos []IPInfo }")
	}
	def("tagIPInfos", "String", fg.LeanStr(commonT[0].Tag), "json name of CommonCniArgs.IPInfos (becomes the CNI_ARGS key)")
	def("ipInfosOmitEmpty", "Bool", fg.LeanBool(commonT[0].OmitEmpty), "CommonCniArgs.IPInfos has omitempty")
	ipInfoT, err := namedStruct(cst, "IPInfo")
	if err != nil {
		return nil, err
	}
	var rows []string
	for _, f := range ipInfoT {
		if f.OmitEmpty {
			return nil, fmt.Errorf("IPInfo.%s: omitempty not handled", f.Name)
		}
		rows = append(rows, fmt.Sprintf("(%s, %s, %s)", fg.LeanStr(f.Name), fg.LeanStr(f.Type), fg.LeanStr(f.Tag)))
	}
	def("ipInfoFields", "List (String × String × String)", "["+strings.Join(rows, ", ")+"]",
		"IPInfo struct: (Go field, Go type, json name) in declaration order = order of the members encoding/json writes")
	want := []struct{ n, t, d string }{{"IP", "*nets.IPNet", "tagIP"}, {"Vlan", "uint16", "tagVlan"}, {"Gateway", "net.IP", "tagGateway"}}
	if len(ipInfoT) != len(want) {
		return nil, fmt.Errorf("IPInfo has %d fields, translator knows IP/Vlan/Gateway", len(ipInfoT))
	}
	for i, w := range want {
		if ipInfoT[i].Name != w.n || ipInfoT[i].Type != w.t {
			return nil, fmt.Errorf("IPInfo field %d is %s %s, expected %s %s", i, ipInfoT[i].Name, ipInfoT[i].Type, w.n, w.t)
		}
		def(w.d, "String", fg.LeanStr(ipInfoT[i].Tag), "json name of IPInfo."+w.n)
	}
	// MarshalCniArgs: CniArgs{Common: CommonCniArgs{IPInfos: ipInfos}} -> json.Marshal
	mf, err := cst.Fn("", "MarshalCniArgs")
	if err != nil {
		return nil, err
	}
	fact("marshalCniArgsShape", effectContains(cst.Fset, mf, "$1 = CniArgs{Common: CommonCniArgs{IPInfos: $0}}") &&
		effectContains(cst.Fset, mf, "return string(json.Marshal($1)#0), nil"),
		"MarshalCniArgs = json.Marshal(CniArgs{Common: CommonCniArgs{IPInfos: ipInfos}})", "normal form changed")

	// ---------------------------------------------------------------- server.go
	srv, err := fg.ParseFile(repo, "pkg/galaxy/server.go")
	if err != nil {
		return nil, err
	}
	pe, err := srv.Fn("", "parseExtendedCNIArgs")
	if err != nil {
		return nil, err
	}
	if !effectContains(srv.Fset, pe, "call json.Unmarshal([]byte($0.Annotations[constant.ExtendedCNIArgsAnnotation]), &$1)") {
		return nil, fmt.Errorf("parseExtendedCNIArgs no longer decodes pod.Annotations[constant.ExtendedCNIArgsAnnotation]")
	}
	var daemonTag string
	ast.Inspect(pe.Body, func(x ast.Node) bool {
		if st, ok := x.(*ast.StructType); ok && daemonTag == "" {
			fs, e := structOf(srv, st)
			if e == nil && len(fs) == 1 && fs[0].Type == "map[string]json.RawMessage" {
				daemonTag = fs[0].Tag
			}
		}
		return true
	})
	if daemonTag == "" {
		return nil, fmt.Errorf("parseExtendedCNIArgs: anonymous struct { Common map[string]json.RawMessage `json:…` } not found")
	}
	if !effectContains(srv.Fset, pe, "return $1.Common, nil") {
		return nil, fmt.Errorf("parseExtendedCNIArgs no longer returns cniArgs.Common")
	}
	def("tagCommonDaemon", "String", fg.LeanStr(daemonTag), "json name galaxy (daemon) reads the common args from: map[string]json.RawMessage, members kept as raw text")
	rn, err := srv.Fn("Galaxy", "resolveNetworks")
	if err != nil {
		return nil, err
	}
	copies, whyCopies := resolveCopies(srv.Fset, rn)
	fact("resolveCopiesCommonToEveryNetwork", copies, "resolveNetworks copies every common.* member (raw text) into every network's Args",
		whyCopies)
	ca, err := srv.Fn("Galaxy", "cmdAdd")
	if err != nil {
		return nil, err
	}
	fact("cmdAddDelegatesResolvedNetworks", effectContains(srv.Fset, ca, "return cniutil.CmdAdd($0.CmdArgs, recv.resolveNetworks($0, $1)#0)"),
		"Galaxy.cmdAdd = resolveNetworks, then cniutil.CmdAdd(req.CmdArgs, networkInfos)", "cmdAdd normal form changed")

	// getPod: the pod of a CNI request comes from the API server (client…Pods(ns).Get), not from a lister / informer
	// cache which may still hold an earlier incarnation of the same name
	gp, err := srv.Fn("Galaxy", "getPod")
	if err != nil {
		return nil, err
	}
	recvName := ""
	if gp.Recv != nil && len(gp.Recv.List) == 1 && len(gp.Recv.List[0].Names) == 1 {
		recvName = gp.Recv.List[0].Names[0].Name
	}
	onlyClient, apiGet, other := true, false, ""
	ast.Inspect(gp.Body, func(x ast.Node) bool {
		switch n := x.(type) {
		case *ast.SelectorExpr:
			if id, ok := n.X.(*ast.Ident); ok && id.Name == recvName && n.Sel.Name != "client" {
				onlyClient, other = false, recvName+"."+n.Sel.Name
			}
			low := strings.ToLower(n.Sel.Name)
			if strings.Contains(low, "lister") || strings.Contains(low, "informer") || strings.Contains(low, "indexer") || strings.Contains(low, "cache") {
				onlyClient, other = false, srv.Src(n)
			}
		case *ast.CallExpr:
			c := strings.Join(strings.Fields(srv.Src(n.Fun)), "")
			if strings.HasPrefix(c, recvName+".client.CoreV1().Pods(") && strings.HasSuffix(c, ").Get") {
				apiGet = true
			}
		}
		return true
	})
	fact("getPodReadsApiserver", recvName != "" && onlyClient && apiGet,
		"Galaxy.getPod obtains the pod through g.client.CoreV1().Pods(ns).Get and uses nothing else of the daemon (no lister / informer / cache)",
		"getPod also uses "+other)

	// ---------------------------------------------------------------- cni/ipam/ipam.go
	ipm, err := fg.ParseFile(repo, "cni/ipam/ipam.go")
	if err != nil {
		return nil, err
	}
	al, err := ipm.Fn("", "Allocate")
	if err != nil {
		return nil, err
	}
	allocOK, allocWhy := allocateShape(ipm.Fset, al)
	fact("allocateDecodesIPInfosKey", allocOK,
		"cni/ipam.Allocate: ParseCNIArgs(args.Args)[constant.IPInfosKey] -> json.Unmarshal into []constant.IPInfo -> one result + vlan per element, in order",
		allocWhy)
	// IPInfoToResult keeps IP and Gateway
	itr, err := cni.Fn("", "IPInfoToResult")
	if err != nil {
		return nil, err
	}
	fact("ipInfoToResultCopiesIPAndGateway", effectContains(cni.Fset, itr, "return &t020.Result{IP4: &t020.IPConfig{IP: net.IPNet(*$0.IP), Gateway: $0.Gateway,"),
		"cniutil.IPInfoToResult: IP4.IP = *ipInfo.IP, IP4.Gateway = ipInfo.Gateway", "normal form changed")

	// ---------------------------------------------------------------- nets/ip.go
	nt, err := fg.ParseFile(repo, "pkg/utils/nets/ip.go")
	if err != nil {
		return nil, err
	}
	mj, err := nt.Fn("IPNet", "MarshalJSON")
	if err != nil {
		return nil, err
	}
	uj, err := nt.Fn("IPNet", "UnmarshalJSON")
	if err != nil {
		return nil, err
	}
	cidr := "net.ParseCIDR(string($0[1:len($0) - 1]))"
	fact("ipNetJSONIsCIDRStringKeepingHostBits",
		effectContains(nt.Fset, mj, "return json.Marshal(recv.ToIPNet().String())") &&
			effectContains(nt.Fset, uj, cidr+"#1.IP = "+cidr+"#0") && effectContains(nt.Fset, uj, "*recv = IPNet(*"+cidr+"#1)"),
		"nets.IPNet: MarshalJSON = quoted net.IPNet.String(); UnmarshalJSON = net.ParseCIDR of the text between the quotes, IP = the unmasked address",
		"MarshalJSON / UnmarshalJSON normal forms changed")

	// ---------------------------------------------------------------- k8s.go
	k8, err := fg.ParseFile(repo, "pkg/api/k8s/k8s.go")
	if err != nil {
		return nil, err
	}
	for _, n := range []struct{ c, d string }{{"K8S_POD_NAMESPACE", "podNamespaceArg"}, {"K8S_POD_NAME", "podNameArg"},
		{"K8S_POD_INFRA_CONTAINER_ID", "podInfraContainerArg"}} {
		v, err := k8.ConstString(n.c)
		if err != nil {
			return nil, err
		}
		def(n.d, "String", fg.LeanStr(v), "k8s."+n.c)
	}

	b.WriteString("end Galaxy.Generated.Args\n")
	return map[string]string{"Args.lean": b.String()}, nil
}
