// factgen translator "args" (property C13): regenerates lean/Galaxy/Generated/Args.lean from the CURRENT text of
//
//	pkg/api/cniutil/cni.go               BuildCNIArgs / ParseCNIArgs / the accumulation statement of CmdAdd
//	pkg/api/galaxy/constant/constant.go  IPInfosKey, annotation name, json tags of CniArgs/CommonCniArgs/IPInfo
//	pkg/galaxy/server.go                 parseExtendedCNIArgs (annotation + "common" tag), resolveNetworks (arg copy)
//	cni/ipam/ipam.go                     Allocate: ParseCNIArgs -> kvMap[IPInfosKey] -> []constant.IPInfo
//	pkg/utils/nets/ip.go                 IPNet JSON = CIDR string, host bits preserved on decode
//	pkg/api/k8s/k8s.go                   K8S_POD_* argument names
//
// Syntactic only (go/ast, stdlib); fails loudly when a function no longer has the shape it can translate.
package main

import (
	"fmt"
	"go/ast"
	"go/token"
	"reflect"
	"strconv"
	"strings"

	"factgen/fg"
)

func main() { fg.Run("args", gen) }

// calls returns every call expression below n whose printed callee equals name.
func calls(p *fg.Parsed, n ast.Node, name string) []*ast.CallExpr {
	var out []*ast.CallExpr
	ast.Inspect(n, func(x ast.Node) bool {
		if c, ok := x.(*ast.CallExpr); ok && p.Src(c.Fun) == name {
			out = append(out, c)
		}
		return true
	})
	return out
}

func strLit(e ast.Expr) (string, bool) {
	bl, ok := e.(*ast.BasicLit)
	if !ok || bl.Kind != token.STRING {
		return "", false
	}
	s, err := strconv.Unquote(bl.Value)
	return s, err == nil
}

func oneChar(what, s string) (rune, error) {
	r := []rune(s)
	if len(r) != 1 {
		return 0, fmt.Errorf("%s: expected a one-character separator, got %q", what, s)
	}
	return r[0], nil
}

func leanChar(r rune) string { return fmt.Sprintf("Char.ofNat %d", r) }

// structFields returns (field name, printed type, json tag name, omitempty) of a named struct type in file p.
type field struct {
	Name, Type, Tag string
	OmitEmpty       bool
}

func structOf(p *fg.Parsed, st *ast.StructType) ([]field, error) {
	var out []field
	for _, f := range st.Fields.List {
		if len(f.Names) != 1 {
			return nil, fmt.Errorf("%s: struct field without a single name (%s)", p.Path, p.Src(f))
		}
		fl := field{Name: f.Names[0].Name, Type: p.Src(f.Type), Tag: f.Names[0].Name}
		if f.Tag != nil {
			raw, err := strconv.Unquote(f.Tag.Value)
			if err != nil {
				return nil, err
			}
			if js, ok := reflect.StructTag(raw).Lookup("json"); ok {
				parts := strings.Split(js, ",")
				if parts[0] == "-" {
					return nil, fmt.Errorf("%s: field %s is excluded from JSON", p.Path, fl.Name)
				}
				if parts[0] != "" {
					fl.Tag = parts[0]
				}
				for _, o := range parts[1:] {
					if o == "omitempty" {
						fl.OmitEmpty = true
					} else {
						return nil, fmt.Errorf("%s: field %s: json option %q not handled", p.Path, fl.Name, o)
					}
				}
			}
		}
		out = append(out, fl)
	}
	return out, nil
}

func namedStruct(p *fg.Parsed, name string) ([]field, error) {
	for _, d := range p.File.Decls {
		gd, ok := d.(*ast.GenDecl)
		if !ok || gd.Tok != token.TYPE {
			continue
		}
		for _, s := range gd.Specs {
			ts := s.(*ast.TypeSpec)
			if ts.Name.Name != name {
				continue
			}
			st, ok := ts.Type.(*ast.StructType)
			if !ok {
				return nil, fmt.Errorf("%s: type %s is not a struct", p.Path, name)
			}
			return structOf(p, st)
		}
	}
	return nil, fmt.Errorf("%s: struct type %s not found", p.Path, name)
}

func gen(repo string) (map[string]string, error) {
	var b strings.Builder
	b.WriteString(fg.Header("CNI argument codec constants and structural facts (C13)",
		"pkg/api/cniutil/cni.go", "pkg/api/galaxy/constant/constant.go", "pkg/galaxy/server.go",
		"cni/ipam/ipam.go", "pkg/utils/nets/ip.go", "pkg/api/k8s/k8s.go"))
	b.WriteString("namespace Galaxy.Generated.Args\n\n")
	def := func(name, typ, val, comment string) {
		fmt.Fprintf(&b, "/-- %s -/\ndef %s : %s := %s\n\n", comment, name, typ, val)
	}
	// structural facts are translated to a Bool: `false` (with the reason) when the source no longer has the shape —
	// the pinned `fact_structure` theorem then fails; only constants that cannot be extracted make the translator fail.
	fact := func(name string, holds bool, comment, why string) {
		if !holds {
			comment += " — NOT FOUND in the current source: " + why
		}
		def(name, "Bool", fg.LeanBool(holds), comment)
	}

	// ---------------------------------------------------------------- cniutil
	cni, err := fg.ParseFile(repo, "pkg/api/cniutil/cni.go")
	if err != nil {
		return nil, err
	}
	// BuildCNIArgs: for k, v := range args { entries = append(entries, fmt.Sprintf("%s=%s", k, v)) }; strings.Join(entries, ";")
	bf, err := cni.Fn("", "BuildCNIArgs")
	if err != nil {
		return nil, err
	}
	var rng *ast.RangeStmt
	for _, s := range bf.Body.List {
		if r, ok := s.(*ast.RangeStmt); ok {
			if rng != nil {
				return nil, fmt.Errorf("BuildCNIArgs: more than one range loop")
			}
			rng = r
		}
	}
	if rng == nil || rng.Key == nil || rng.Value == nil || len(bf.Type.Params.List) != 1 ||
		cni.Src(rng.X) != bf.Type.Params.List[0].Names[0].Name {
		return nil, fmt.Errorf("BuildCNIArgs: expected `for k, v := range <param>`")
	}
	kName, vName := cni.Src(rng.Key), cni.Src(rng.Value)
	sp := calls(cni, rng.Body, "fmt.Sprintf")
	if len(sp) != 1 || len(sp[0].Args) != 3 || cni.Src(sp[0].Args[1]) != kName || cni.Src(sp[0].Args[2]) != vName {
		return nil, fmt.Errorf("BuildCNIArgs: expected exactly one fmt.Sprintf(format, %s, %s) in the loop", kName, vName)
	}
	format, ok := strLit(sp[0].Args[0])
	if !ok || !strings.HasPrefix(format, "%s") || !strings.HasSuffix(format, "%s") || len(format) < 5 ||
		strings.Contains(format[2:len(format)-2], "%") {
		return nil, fmt.Errorf("BuildCNIArgs: entry format %q is not \"%%s<sep>%%s\"", format)
	}
	buildKv, err := oneChar("BuildCNIArgs entry format", format[2:len(format)-2])
	if err != nil {
		return nil, err
	}
	jn := calls(cni, bf.Body, "strings.Join")
	if len(jn) != 1 || len(jn[0].Args) != 2 {
		return nil, fmt.Errorf("BuildCNIArgs: expected exactly one strings.Join(entries, sep)")
	}
	js, ok := strLit(jn[0].Args[1])
	if !ok {
		return nil, fmt.Errorf("BuildCNIArgs: join separator is not a string literal")
	}
	buildEntry, err := oneChar("BuildCNIArgs join separator", js)
	if err != nil {
		return nil, err
	}
	if _, ok := bf.Body.List[len(bf.Body.List)-1].(*ast.ReturnStmt); !ok || !cni.ContainsCall(bf.Body.List[len(bf.Body.List)-1], "strings.Join") {
		return nil, fmt.Errorf("BuildCNIArgs: does not return the strings.Join result")
	}
	def("buildKvSep", "Char", leanChar(buildKv), fmt.Sprintf("BuildCNIArgs: entry format %q", format))
	def("buildEntrySep", "Char", leanChar(buildEntry), fmt.Sprintf("BuildCNIArgs: strings.Join(entries, %q)", js))

	// ParseCNIArgs
	pf, err := cni.Fn("", "ParseCNIArgs")
	if err != nil {
		return nil, err
	}
	spl := calls(cni, pf.Body, "strings.Split")
	if len(spl) != 1 || len(spl[0].Args) != 2 {
		return nil, fmt.Errorf("ParseCNIArgs: expected exactly one strings.Split")
	}
	ps, ok := strLit(spl[0].Args[1])
	if !ok {
		return nil, fmt.Errorf("ParseCNIArgs: split separator is not a literal")
	}
	parseEntry, err := oneChar("ParseCNIArgs split separator", ps)
	if err != nil {
		return nil, err
	}
	spn := calls(cni, pf.Body, "strings.SplitN")
	if len(spn) != 1 || len(spn[0].Args) != 3 {
		return nil, fmt.Errorf("ParseCNIArgs: expected exactly one strings.SplitN")
	}
	pk, ok := strLit(spn[0].Args[1])
	if !ok {
		return nil, fmt.Errorf("ParseCNIArgs: SplitN separator is not a literal")
	}
	parseKv, err := oneChar("ParseCNIArgs SplitN separator", pk)
	if err != nil {
		return nil, err
	}
	if cni.Src(spn[0].Args[2]) != "2" {
		return nil, fmt.Errorf("ParseCNIArgs: SplitN count is %s, expected 2", cni.Src(spn[0].Args[2]))
	}
	def("parseEntrySep", "Char", leanChar(parseEntry), fmt.Sprintf("ParseCNIArgs: strings.Split(args, %q)", ps))
	def("parseKvSep", "Char", leanChar(parseKv), fmt.Sprintf("ParseCNIArgs: strings.SplitN(kv, %q, 2)", pk))
	// loop body shape: if len(part) != 2 { continue }; kvMap[TrimSpace(part[0])] = TrimSpace(part[1])
	var prng *ast.RangeStmt
	for _, s := range pf.Body.List {
		if r, ok := s.(*ast.RangeStmt); ok {
			prng = r
		}
	}
	partName := ""
	if prng == nil || len(prng.Body.List) != 3 {
		prng = &ast.RangeStmt{Body: &ast.BlockStmt{List: []ast.Stmt{&ast.EmptyStmt{}, &ast.EmptyStmt{}, &ast.EmptyStmt{}}}}
	}
	if as, ok := prng.Body.List[0].(*ast.AssignStmt); ok && len(as.Lhs) == 1 && cni.ContainsCall(as, "strings.SplitN") {
		partName = cni.Src(as.Lhs[0])
	}
	skip := false
	if ifs, ok := prng.Body.List[1].(*ast.IfStmt); ok && ifs.Else == nil && ifs.Init == nil &&
		cni.Src(ifs.Cond) == "len("+partName+") != 2" && len(ifs.Body.List) == 1 && cni.Src(ifs.Body.List[0]) == "continue" {
		skip = true
	}
	assign := false
	if as, ok := prng.Body.List[2].(*ast.AssignStmt); ok && len(as.Lhs) == 1 && len(as.Rhs) == 1 && as.Tok == token.ASSIGN {
		l, r := cni.Src(as.Lhs[0]), cni.Src(as.Rhs[0])
		if strings.HasSuffix(l, "[strings.TrimSpace("+partName+"[0])]") && r == "strings.TrimSpace("+partName+"[1])" {
			assign = true
		}
	}
	fact("parseSkipsEntryWithoutKv", partName != "" && skip, "ParseCNIArgs: `if len(part) != 2 { continue }`",
		"second statement of the loop is not that skip")
	fact("parseTrimsKeyAndValue", partName != "" && assign,
		"ParseCNIArgs: `kvMap[strings.TrimSpace(part[0])] = strings.TrimSpace(part[1])` (later entries overwrite)",
		"third statement of the loop is not that assignment")

	// CmdAdd accumulation: cmdArgs.Args = strings.TrimRight(fmt.Sprintf("%s;%s", cmdArgs.Args, BuildCNIArgs(networkInfo.Args)), ";")
	af, err := cni.Fn("", "CmdAdd")
	if err != nil {
		return nil, err
	}
	var accStmt *ast.AssignStmt
	var accLoop *ast.RangeStmt
	ast.Inspect(af.Body, func(x ast.Node) bool {
		if r, ok := x.(*ast.RangeStmt); ok && accLoop == nil {
			for _, s := range r.Body.List {
				if as, ok := s.(*ast.AssignStmt); ok && len(as.Lhs) == 1 && cni.Src(as.Lhs[0]) == "cmdArgs.Args" {
					accStmt, accLoop = as, r
				}
			}
		}
		return true
	})
	if accStmt == nil || cni.Src(accLoop.X) != "networkInfos" {
		return nil, fmt.Errorf("CmdAdd: no `cmdArgs.Args = …` statement inside `range networkInfos`")
	}
	tr, ok := accStmt.Rhs[0].(*ast.CallExpr)
	if !ok || cni.Src(tr.Fun) != "strings.TrimRight" || len(tr.Args) != 2 {
		return nil, fmt.Errorf("CmdAdd: accumulation is not strings.TrimRight(…, cutset)")
	}
	cut, ok := strLit(tr.Args[1])
	if !ok {
		return nil, fmt.Errorf("CmdAdd: TrimRight cutset is not a literal")
	}
	cutc, err := oneChar("CmdAdd TrimRight cutset", cut)
	if err != nil {
		return nil, err
	}
	in, ok := tr.Args[0].(*ast.CallExpr)
	if !ok || cni.Src(in.Fun) != "fmt.Sprintf" || len(in.Args) != 3 || cni.Src(in.Args[1]) != "cmdArgs.Args" ||
		cni.Src(in.Args[2]) != "BuildCNIArgs("+cni.Src(accLoop.Value)+".Args)" {
		return nil, fmt.Errorf("CmdAdd: accumulation is not fmt.Sprintf(f, cmdArgs.Args, BuildCNIArgs(<elem>.Args)): %s", cni.Src(accStmt))
	}
	accFormat, ok := strLit(in.Args[0])
	if !ok || !strings.HasPrefix(accFormat, "%s") || !strings.HasSuffix(accFormat, "%s") || len(accFormat) < 5 ||
		strings.Contains(accFormat[2:len(accFormat)-2], "%") {
		return nil, fmt.Errorf("CmdAdd: accumulation format %q is not \"%%s<sep>%%s\"", accFormat)
	}
	accSep, err := oneChar("CmdAdd accumulation format", accFormat[2:len(accFormat)-2])
	if err != nil {
		return nil, err
	}
	// the accumulated string must be what DelegateAdd hands to the plugin: DelegateAdd(networkInfo.Conf, cmdArgs, …) after it
	accIdx, delIdx := -1, -1
	for i, s := range accLoop.Body.List {
		if s == ast.Stmt(accStmt) {
			accIdx = i
		}
		if delIdx < 0 && cni.ContainsCall(s, "DelegateAdd") {
			delIdx = i
		}
	}
	if accIdx < 0 || delIdx < accIdx {
		return nil, fmt.Errorf("CmdAdd: DelegateAdd is not called after the argument accumulation")
	}
	def("accSep", "Char", leanChar(accSep), fmt.Sprintf("CmdAdd: cmdArgs.Args = TrimRight(Sprintf(%q, cmdArgs.Args, BuildCNIArgs(networkInfo.Args)), %q), before DelegateAdd", accFormat, cut))
	def("accTrimChar", "Char", leanChar(cutc), "CmdAdd: TrimRight cutset")
	// DelegateAdd passes args.Args as PluginArgsStr
	df, err := cni.Fn("", "DelegateAdd")
	if err != nil {
		return nil, err
	}
	fact("delegateAddPassesArgsVerbatim", strings.Contains(strings.Join(strings.Fields(cni.Src(df.Body)), " "), "PluginArgsStr: args.Args,"),
		"DelegateAdd: invoke.Args{PluginArgsStr: args.Args}", "PluginArgsStr is no longer args.Args")

	// ---------------------------------------------------------------- constant.go
	cst, err := fg.ParseFile(repo, "pkg/api/galaxy/constant/constant.go")
	if err != nil {
		return nil, err
	}
	ipInfosKey, err := cst.ConstString("IPInfosKey")
	if err != nil {
		return nil, err
	}
	annName, err := cst.ConstString("ExtendedCNIArgsAnnotation")
	if err != nil {
		return nil, err
	}
	def("ipInfosKey", "String", fg.LeanStr(ipInfosKey), "constant.IPInfosKey (the CNI_ARGS key the plugins look up)")
	def("annotationName", "String", fg.LeanStr(annName), "constant.ExtendedCNIArgsAnnotation")
	cniArgsT, err := namedStruct(cst, "CniArgs")
	if err != nil {
		return nil, err
	}
	tagCommon := ""
	for _, f := range cniArgsT {
		if f.Name == "Common" {
			if f.Type != "CommonCniArgs" || f.OmitEmpty {
				return nil, fmt.Errorf("CniArgs.Common: type %s omitempty=%v not handled", f.Type, f.OmitEmpty)
			}
			tagCommon = f.Tag
		}
	}
	if tagCommon == "" {
		return nil, fmt.Errorf("CniArgs has no field Common")
	}
	def("tagCommon", "String", fg.LeanStr(tagCommon), "json name of CniArgs.Common (written by galaxy-ipam)")
	commonT, err := namedStruct(cst, "CommonCniArgs")
	if err != nil {
		return nil, err
	}
	if len(commonT) != 1 || commonT[0].Name != "IPInfos" || commonT[0].Type != "[]IPInfo" {
		return nil, fmt.Errorf("CommonCniArgs is no longer { IPInfos []IPInfo }")
	}
	def("tagIPInfos", "String", fg.LeanStr(commonT[0].Tag), "json name of CommonCniArgs.IPInfos (becomes the CNI_ARGS key)")
	def("ipInfosOmitEmpty", "Bool", fg.LeanBool(commonT[0].OmitEmpty), "CommonCniArgs.IPInfos has omitempty")
	ipInfoT, err := namedStruct(cst, "IPInfo")
	if err != nil {
		return nil, err
	}
	var rows []string
	for _, f := range ipInfoT {
		if f.OmitEmpty {
			return nil, fmt.Errorf("IPInfo.%s: omitempty not handled", f.Name)
		}
		rows = append(rows, fmt.Sprintf("(%s, %s, %s)", fg.LeanStr(f.Name), fg.LeanStr(f.Type), fg.LeanStr(f.Tag)))
	}
	def("ipInfoFields", "List (String × String × String)", "["+strings.Join(rows, ", ")+"]",
		"IPInfo struct: (Go field, Go type, json name) in declaration order = order of the members encoding/json writes")
	want := []struct{ n, t, d string }{{"IP", "*nets.IPNet", "tagIP"}, {"Vlan", "uint16", "tagVlan"}, {"Gateway", "net.IP", "tagGateway"}}
	if len(ipInfoT) != len(want) {
		return nil, fmt.Errorf("IPInfo has %d fields, translator knows IP/Vlan/Gateway", len(ipInfoT))
	}
	for i, w := range want {
		if ipInfoT[i].Name != w.n || ipInfoT[i].Type != w.t {
			return nil, fmt.Errorf("IPInfo field %d is %s %s, expected %s %s", i, ipInfoT[i].Name, ipInfoT[i].Type, w.n, w.t)
		}
		def(w.d, "String", fg.LeanStr(ipInfoT[i].Tag), "json name of IPInfo."+w.n)
	}
	// MarshalCniArgs: CniArgs{Common: CommonCniArgs{IPInfos: ipInfos}} -> json.Marshal
	mf, err := cst.Fn("", "MarshalCniArgs")
	if err != nil {
		return nil, err
	}
	msrc := strings.Join(strings.Fields(cst.Src(mf.Body)), " ")
	fact("marshalCniArgsShape", strings.Contains(msrc, "CniArgs{Common: CommonCniArgs{ IPInfos: ipInfos, }}") && strings.Contains(msrc, "json.Marshal(cniArgs)"),
		"MarshalCniArgs = json.Marshal(CniArgs{Common: CommonCniArgs{IPInfos: ipInfos}})", "body is now "+msrc)

	// ---------------------------------------------------------------- server.go
	srv, err := fg.ParseFile(repo, "pkg/galaxy/server.go")
	if err != nil {
		return nil, err
	}
	pe, err := srv.Fn("", "parseExtendedCNIArgs")
	if err != nil {
		return nil, err
	}
	if !strings.Contains(srv.Src(pe.Body), "pod.Annotations[constant.ExtendedCNIArgsAnnotation]") {
		return nil, fmt.Errorf("parseExtendedCNIArgs no longer reads pod.Annotations[constant.ExtendedCNIArgsAnnotation]")
	}
	var daemonTag string
	ast.Inspect(pe.Body, func(x ast.Node) bool {
		if st, ok := x.(*ast.StructType); ok && daemonTag == "" {
			fs, e := structOf(srv, st)
			if e == nil && len(fs) == 1 && fs[0].Type == "map[string]json.RawMessage" {
				daemonTag = fs[0].Tag
			}
		}
		return true
	})
	if daemonTag == "" {
		return nil, fmt.Errorf("parseExtendedCNIArgs: anonymous struct { Common map[string]json.RawMessage `json:…` } not found")
	}
	if !strings.Contains(srv.Src(pe.Body), "return cniArgs.Common, nil") {
		return nil, fmt.Errorf("parseExtendedCNIArgs no longer returns cniArgs.Common")
	}
	def("tagCommonDaemon", "String", fg.LeanStr(daemonTag), "json name galaxy (daemon) reads the common args from: map[string]json.RawMessage, members kept as raw text")
	rn, err := srv.Fn("Galaxy", "resolveNetworks")
	if err != nil {
		return nil, err
	}
	copies := false
	ast.Inspect(rn.Body, func(x ast.Node) bool {
		outer, ok := x.(*ast.RangeStmt)
		if !ok || srv.Src(outer.X) != "networkInfos" || outer.Key == nil || len(outer.Body.List) != 1 {
			return true
		}
		inner, ok := outer.Body.List[0].(*ast.RangeStmt)
		if !ok || srv.Src(inner.X) != "extendedCNIArgs" || len(inner.Body.List) != 1 {
			return true
		}
		want := fmt.Sprintf("networkInfos[%s].Args[%s] = string(%s)", srv.Src(outer.Key), srv.Src(inner.Key), srv.Src(inner.Value))
		if srv.Src(inner.Body.List[0]) == want {
			copies = true
		}
		return true
	})
	fact("resolveCopiesCommonToEveryNetwork", copies, "resolveNetworks copies every common.* member (raw text) into every network's Args",
		"`for i := range networkInfos { for k, v := range extendedCNIArgs { networkInfos[i].Args[k] = string(v) } }`")
	ca, err := srv.Fn("Galaxy", "cmdAdd")
	if err != nil {
		return nil, err
	}
	fact("cmdAddDelegatesResolvedNetworks", strings.Contains(srv.Src(ca.Body), "g.resolveNetworks(req, pod)") &&
		strings.Contains(srv.Src(ca.Body), "cniutil.CmdAdd(req.CmdArgs, networkInfos)"),
		"Galaxy.cmdAdd = resolveNetworks, then cniutil.CmdAdd(req.CmdArgs, networkInfos)", "cmdAdd body changed")

	// ---------------------------------------------------------------- cni/ipam/ipam.go
	ipm, err := fg.ParseFile(repo, "cni/ipam/ipam.go")
	if err != nil {
		return nil, err
	}
	al, err := ipm.Fn("", "Allocate")
	if err != nil {
		return nil, err
	}
	asrc := strings.Join(strings.Fields(ipm.Src(al.Body)), " ")
	allocOK, missing := true, ""
	for _, need := range []string{"cniutil.ParseCNIArgs(args.Args)", "kvMap[constant.IPInfosKey]", "var ipInfos []constant.IPInfo",
		"json.Unmarshal([]byte(ipInfoStr), &ipInfos)", "cniutil.IPInfoToResult(&ipInfos[j])", "vlanIDs = append(vlanIDs, ipInfos[j].Vlan)"} {
		if !strings.Contains(asrc, need) {
			allocOK, missing = false, need
		}
	}
	fact("allocateDecodesIPInfosKey", allocOK,
		"cni/ipam.Allocate: ParseCNIArgs(args.Args)[constant.IPInfosKey] -> json.Unmarshal into []constant.IPInfo -> one result + vlan per element, in order",
		"expected `"+missing+"`")
	// IPInfoToResult keeps IP and Gateway
	itr, err := cni.Fn("", "IPInfoToResult")
	if err != nil {
		return nil, err
	}
	isrc := strings.Join(strings.Fields(cni.Src(itr.Body)), " ")
	fact("ipInfoToResultCopiesIPAndGateway", strings.Contains(isrc, "net.IPNet(*ipInfo.IP)") && strings.Contains(isrc, "Gateway: ipInfo.Gateway"),
		"cniutil.IPInfoToResult: IP4.IP = *ipInfo.IP, IP4.Gateway = ipInfo.Gateway", "body changed")

	// ---------------------------------------------------------------- nets/ip.go
	nt, err := fg.ParseFile(repo, "pkg/utils/nets/ip.go")
	if err != nil {
		return nil, err
	}
	mj, err := nt.Fn("IPNet", "MarshalJSON")
	if err != nil {
		return nil, err
	}
	uj, err := nt.Fn("IPNet", "UnmarshalJSON")
	if err != nil {
		return nil, err
	}
	usrc := strings.Join(strings.Fields(nt.Src(uj.Body)), " ")
	fact("ipNetJSONIsCIDRStringKeepingHostBits",
		strings.Join(strings.Fields(nt.Src(mj.Body)), " ") == "{ return json.Marshal(ipNet.ToIPNet().String()) }" &&
			strings.Contains(usrc, "net.ParseCIDR(string(data[1 : len(data)-1]))") && strings.Contains(usrc, "netIPNet.IP = ip"),
		"nets.IPNet: MarshalJSON = quoted net.IPNet.String(); UnmarshalJSON = net.ParseCIDR of the text between the quotes, IP = the unmasked address",
		"MarshalJSON / UnmarshalJSON bodies changed")

	// ---------------------------------------------------------------- k8s.go
	k8, err := fg.ParseFile(repo, "pkg/api/k8s/k8s.go")
	if err != nil {
		return nil, err
	}
	for _, n := range []struct{ c, d string }{{"K8S_POD_NAMESPACE", "podNamespaceArg"}, {"K8S_POD_NAME", "podNameArg"},
		{"K8S_POD_INFRA_CONTAINER_ID", "podInfraContainerArg"}} {
		v, err := k8.ConstString(n.c)
		if err != nil {
			return nil, err
		}
		def(n.d, "String", fg.LeanStr(v), "k8s."+n.c)
	}

	b.WriteString("end Galaxy.Generated.Args\n")
	return map[string]string{"Args.lean": b.String()}, nil
}
