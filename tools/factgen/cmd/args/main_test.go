package main

import (
	"go/ast"
	"go/parser"
	"go/token"
	"strings"
	"testing"
)

func fn(t *testing.T, src string) (*token.FileSet, *ast.FuncDecl) {
	t.Helper()
	fset := token.NewFileSet()
	f, err := parser.ParseFile(fset, "x.go", "package x\n"+src, 0)
	if err != nil {
		t.Fatal(err)
	}
	for _, d := range f.Decls {
		if fd, ok := d.(*ast.FuncDecl); ok {
			return fset, fd
		}
	}
	t.Fatal("no function")
	return nil, nil
}

const buildOrig = `func BuildCNIArgs(args map[string]string) string {
	var entries []string
	for k, v := range args {
		entries = append(entries, fmt.Sprintf("%s=%s", k, v))
	}
	return strings.Join(entries, ";")
}`

func TestBuildShape(t *testing.T) {
	variants := map[string]string{
		"original": buildOrig,
		"harmless/H12: pre-allocated, renamed, concatenation, comment": `func BuildCNIArgs(args map[string]string) string {
	// the order of the entries is the (random) map iteration order
	entries := make([]string, 0, len(args))
	for key, val := range args {
		entries = append(entries, key+"="+val)
	}
	return strings.Join(entries, ";")
}`,
		"named entry and result, empty literal": `func BuildCNIArgs(m map[string]string) string {
	list := []string{}
	for name, value := range m {
		entry := name + "=" + value
		list = append(list, entry)
	}
	joined := strings.Join(list, ";")
	return joined
}`,
	}
	for name, src := range variants {
		fset, fd := fn(t, src)
		kv, entry, err := buildShape(fset, fd)
		if err != nil || kv != "=" || entry != ";" {
			t.Errorf("%s: kv=%q entry=%q err=%v", name, kv, entry, err)
		}
	}
	// a changed separator is extracted as such (the pinned fact theorem then fails)
	fset, fd := fn(t, strings.Replace(buildOrig, `";"`, `","`, 1))
	if _, entry, err := buildShape(fset, fd); err != nil || entry != "," {
		t.Errorf("changed join separator: entry=%q err=%v", entry, err)
	}
	fset, fd = fn(t, strings.Replace(buildOrig, `%s=%s`, `%s:%s`, 1))
	if kv, _, err := buildShape(fset, fd); err != nil || kv != ":" {
		t.Errorf("changed kv separator: kv=%q err=%v", kv, err)
	}
	// shapes that are NOT the same function must not be accepted
	for name, src := range map[string]string{
		"value before key":        strings.Replace(buildOrig, `k, v))`, `v, k))`, 1),
		"entries filtered":        strings.Replace(buildOrig, "\t\tentries = append", "\t\tif v == \"\" {\n\t\t\tcontinue\n\t\t}\n\t\tentries = append", 1),
		"non-empty initial slice": strings.Replace(buildOrig, "var entries []string", `entries := []string{"x=y"}`, 1),
		"sorted before joining":   strings.Replace(buildOrig, "\treturn strings.Join", "\tsort.Strings(entries)\n\treturn strings.Join", 1),
	} {
		fset, fd := fn(t, src)
		if kv, entry, err := buildShape(fset, fd); err == nil {
			t.Errorf("%s: accepted with kv=%q entry=%q", name, kv, entry)
		}
	}
}

const parseOrig = `func ParseCNIArgs(args string) (map[string]string, error) {
	kvMap := make(map[string]string)
	kvs := strings.Split(args, ";")
	if len(kvs) == 0 {
		return kvMap, fmt.Errorf("invalid args %s", args)
	}
	for _, kv := range kvs {
		part := strings.SplitN(kv, "=", 2)
		if len(part) != 2 {
			continue
		}
		kvMap[strings.TrimSpace(part[0])] = strings.TrimSpace(part[1])
	}
	return kvMap, nil
}`

func TestParseShape(t *testing.T) {
	rewritten := `func ParseCNIArgs(s string) (map[string]string, error) {
	result := make(map[string]string)
	pieces := strings.Split(s, ";")
	if len(pieces) == 0 {
		return result, errors.New("no args")
	}
	for i := range pieces {
		kv := strings.SplitN(pieces[i], "=", 2)
		if len(kv) == 2 {
			key := strings.TrimSpace(kv[0])
			result[key] = strings.TrimSpace(kv[1])
		} else {
			glog.V(5).Infof("ignoring %q", pieces[i])
		}
	}
	return result, nil
}`
	for name, src := range map[string]string{"original": parseOrig, "nested if, index loop, renamed, named key, log, other error text": rewritten} {
		fset, fd := fn(t, src)
		e, kv, skips, trims, err := parseShape(fset, fd)
		if err != nil || e != ";" || kv != "=" || !skips || !trims {
			t.Errorf("%s: entry=%q kv=%q skips=%v trims=%v err=%v", name, e, kv, skips, trims, err)
		}
	}
	fset, fd := fn(t, strings.Replace(parseOrig, "= strings.TrimSpace(part[1])", "= part[1]", 1))
	if _, _, _, trims, err := parseShape(fset, fd); err != nil || trims {
		t.Errorf("value no longer trimmed: trims=%v err=%v", trims, err)
	}
	fset, fd = fn(t, strings.Replace(parseOrig, "\t\tif len(part) != 2 {\n\t\t\tcontinue\n\t\t}\n", "", 1))
	if _, _, skips, _, err := parseShape(fset, fd); err != nil || skips {
		t.Errorf("guard dropped: skips=%v err=%v", skips, err)
	}
	fset, fd = fn(t, strings.Replace(parseOrig, `"=", 2)`, `"=", -1)`, 1))
	if _, _, _, _, err := parseShape(fset, fd); err == nil {
		t.Errorf("SplitN count -1 accepted")
	}
}

const accOrig = `func CmdAdd(cmdArgs *skel.CmdArgs, networkInfos []*NetworkInfo) (types.Result, error) {
	var (
		err    error
		result types.Result
	)
	for idx, networkInfo := range networkInfos {
		cmdArgs.Args = strings.TrimRight(fmt.Sprintf("%s;%s", cmdArgs.Args, BuildCNIArgs(networkInfo.Args)), ";")
		result, err = DelegateAdd(networkInfo.Conf, cmdArgs, networkInfo.IfName)
		if err != nil {
			CmdDel(cmdArgs, idx)
			return nil, err
		}
	}
	return result, nil
}`

func TestAccShape(t *testing.T) {
	concat := strings.Replace(accOrig, `fmt.Sprintf("%s;%s", cmdArgs.Args, BuildCNIArgs(networkInfo.Args))`, `cmdArgs.Args+";"+BuildCNIArgs(networkInfo.Args)`, 1)
	named := strings.Replace(accOrig, "\t\tcmdArgs.Args = strings.TrimRight(fmt.Sprintf(\"%s;%s\", cmdArgs.Args, BuildCNIArgs(networkInfo.Args)), \";\")",
		"\t\textra := BuildCNIArgs(networkInfo.Args)\n\t\tcmdArgs.Args = strings.TrimRight(cmdArgs.Args+\";\"+extra, \";\")", 1)
	for name, src := range map[string]string{"original": accOrig, "concatenation": concat, "named local": named} {
		fset, fd := fn(t, src)
		sep, cut, err := accShape(fset, fd)
		if err != nil || sep != ";" || cut != ";" {
			t.Errorf("%s: sep=%q cut=%q err=%v", name, sep, cut, err)
		}
	}
	// accumulation after the delegate call: the plugin does not see this network's args
	moved := strings.Replace(accOrig, "\t\tcmdArgs.Args = strings.TrimRight(fmt.Sprintf(\"%s;%s\", cmdArgs.Args, BuildCNIArgs(networkInfo.Args)), \";\")\n", "", 1)
	moved = strings.Replace(moved, "\t\tif err != nil {", "\t\tcmdArgs.Args = strings.TrimRight(fmt.Sprintf(\"%s;%s\", cmdArgs.Args, BuildCNIArgs(networkInfo.Args)), \";\")\n\t\tif err != nil {", 1)
	fset, fd := fn(t, moved)
	if _, _, err := accShape(fset, fd); err == nil {
		t.Errorf("accumulation moved behind DelegateAdd was accepted")
	}
	fset, fd = fn(t, strings.Replace(accOrig, `"%s;%s"`, `"%s,%s"`, 1))
	if sep, _, err := accShape(fset, fd); err != nil || sep != "," {
		t.Errorf("changed accumulation separator: sep=%q err=%v", sep, err)
	}
}
