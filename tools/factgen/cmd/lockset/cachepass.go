package main

// Pass 2 of the lockset translator: objects obtained from a lister / informer cache are SHARED (the informer hands the
// same pointer to every reader) and must never be written.
//
//   - sources: the result of `<…Lister…>.Get(..)` / `.List(..)` (any receiver chain whose text contains "lister",
//     case-insensitive), the parameters of informer event handlers (methods AddPod/UpdatePod/DeletePod/AddPolicy/
//     UpdatePolicy/DeletePolicy/OnAdd/OnUpdate/OnDelete and closures stored under AddFunc/UpdateFunc/DeleteFunc);
//   - propagation: plain copies, type assertions, index / range over a tainted slice, &x, *x, selector chains rooted in a
//     tainted variable, and arguments of calls to functions of the same package (parameter taint, to a fixpoint);
//   - `x.DeepCopy()` (and any other call result) is clean;
//   - a WRITE is an assignment / ++ / -- / delete() through a selector, index or deref chain rooted in a tainted variable.
//
// No type information is needed (the kubernetes types are not resolvable with the fake importer): the rule is syntactic
// over local variables (go/types objects of the package's own scopes).

import (
	"fmt"
	"go/ast"
	"go/token"
	"go/types"
	"path/filepath"
	"sort"
	"strings"
)

type cacheUse struct {
	fn, kind, what, pos string // kind: obtained | passed | written
}

var handlerMethods = map[string]bool{"AddPod": true, "UpdatePod": true, "DeletePod": true, "AddPolicy": true, "UpdatePolicy": true,
	"DeletePolicy": true, "OnAdd": true, "OnUpdate": true, "OnDelete": true}
var handlerKeys = map[string]bool{"AddFunc": true, "UpdateFunc": true, "DeleteFunc": true}

type cachePass struct {
	repo       string
	uses       []cacheUse
	paramTaint map[string]map[int]string // function id -> parameter index -> origin
	changed    bool
}

func rootIdent(e ast.Expr) (*ast.Ident, int) {
	depth := 0
	for {
		switch v := e.(type) {
		case *ast.ParenExpr:
			e = v.X
		case *ast.SelectorExpr:
			e = v.X
			depth++
		case *ast.IndexExpr:
			e = v.X
			depth++
		case *ast.StarExpr:
			e = v.X
			depth++
		case *ast.TypeAssertExpr:
			e = v.X
		case *ast.UnaryExpr:
			if v.Op != token.AND {
				return nil, 0
			}
			e = v.X
		case *ast.SliceExpr:
			e = v.X
		case *ast.Ident:
			return v, depth
		default:
			return nil, 0
		}
	}
}

// listerCall: X.Get(..) / X.List(..) where the text of X mentions a lister
func listerCall(p *pkgInfo, e ast.Expr) (string, bool) {
	call, ok := unparen(e).(*ast.CallExpr)
	if !ok {
		return "", false
	}
	sel, ok := call.Fun.(*ast.SelectorExpr)
	if !ok || (sel.Sel.Name != "Get" && sel.Sel.Name != "List") {
		return "", false
	}
	text := exprStr(p.fset, sel.X)
	low := strings.ToLower(text)
	i := strings.Index(low, "lister")
	if i < 0 {
		return "", false
	}
	// name of the lister: the path element that contains "lister"
	for _, part := range strings.Split(text, ".") {
		if strings.Contains(strings.ToLower(part), "lister") {
			return strings.TrimSuffix(part, "()"), true
		}
	}
	return "lister", true
}

func (cp *cachePass) fnBody(p *pkgInfo, id string, ft *ast.FuncType, body *ast.BlockStmt, taint map[types.Object]string) {
	pos := func(n ast.Node) string {
		ps := p.fset.Position(n.Pos())
		rel, _ := filepath.Rel(cp.repo, ps.Filename)
		return fmt.Sprintf("%s:%d", rel, ps.Line)
	}
	obj := func(id *ast.Ident) types.Object {
		if o := p.info.Defs[id]; o != nil {
			return o
		}
		return p.info.Uses[id]
	}
	taintedRoot := func(e ast.Expr) (string, int, bool) {
		id, depth := rootIdent(e)
		if id == nil {
			return "", 0, false
		}
		o := obj(id)
		if o == nil {
			return "", 0, false
		}
		origin, ok := taint[o]
		return origin, depth, ok
	}
	write := func(e ast.Expr, n ast.Node) {
		if origin, depth, ok := taintedRoot(e); ok && depth > 0 {
			if _, isTA := unparen(e).(*ast.TypeAssertExpr); !isTA {
				cp.uses = append(cp.uses, cacheUse{fn: id, kind: "written", what: origin, pos: pos(n)})
			}
		}
	}
	bind := func(lhs ast.Expr, rhs ast.Expr) {
		lid, ok := lhs.(*ast.Ident)
		if !ok || lid.Name == "_" {
			return
		}
		o := obj(lid)
		if o == nil {
			return
		}
		if name, ok := listerCall(p, rhs); ok {
			taint[o] = name
			cp.uses = append(cp.uses, cacheUse{fn: id, kind: "obtained", what: name, pos: pos(rhs)})
			return
		}
		if _, isCall := unparen(rhs).(*ast.CallExpr); isCall {
			delete(taint, o) // DeepCopy() or any other call result: not the cache object
			return
		}
		if origin, _, ok := taintedRoot(rhs); ok {
			taint[o] = origin
			return
		}
		delete(taint, o)
	}
	ast.Inspect(body, func(n ast.Node) bool {
		switch v := n.(type) {
		case *ast.FuncLit:
			// closures share the variables of the enclosing function; handler closures taint their parameters
			return true
		case *ast.KeyValueExpr:
			if k, ok := v.Key.(*ast.Ident); ok && handlerKeys[k.Name] {
				if lit, ok := v.Value.(*ast.FuncLit); ok {
					for _, f := range lit.Type.Params.List {
						for _, nm := range f.Names {
							if o := p.info.Defs[nm]; o != nil {
								taint[o] = "event:" + k.Name
							}
						}
					}
				}
			}
		case *ast.AssignStmt:
			for _, l := range v.Lhs {
				if v.Tok != token.DEFINE {
					write(l, v)
				} else if _, isId := l.(*ast.Ident); !isId {
					write(l, v)
				}
			}
			if len(v.Lhs) == len(v.Rhs) {
				for i := range v.Lhs {
					bind(v.Lhs[i], v.Rhs[i])
				}
			} else if len(v.Rhs) == 1 {
				bind(v.Lhs[0], v.Rhs[0]) // x, err := lister.Get() ; v, ok := x.(*T)
			}
		case *ast.ValueSpec:
			if len(v.Names) == len(v.Values) {
				for i := range v.Names {
					bind(v.Names[i], v.Values[i])
				}
			} else if len(v.Values) == 1 && len(v.Names) > 0 {
				bind(v.Names[0], v.Values[0])
			}
		case *ast.IncDecStmt:
			write(v.X, v)
		case *ast.RangeStmt:
			if origin, _, ok := taintedRoot(v.X); ok {
				if vid, ok := v.Value.(*ast.Ident); ok && v.Value != nil {
					if o := obj(vid); o != nil {
						taint[o] = origin
					}
				}
			} else if name, ok := listerCall(p, v.X); ok {
				if vid, ok := v.Value.(*ast.Ident); ok && v.Value != nil {
					if o := obj(vid); o != nil {
						taint[o] = name
						cp.uses = append(cp.uses, cacheUse{fn: id, kind: "obtained", what: name, pos: pos(v.X)})
					}
				}
			}
		case *ast.CallExpr:
			if fid, ok := v.Fun.(*ast.Ident); ok && fid.Name == "delete" && len(v.Args) == 2 {
				if origin, _, ok := taintedRoot(v.Args[0]); ok {
					cp.uses = append(cp.uses, cacheUse{fn: id, kind: "written", what: origin, pos: pos(v)})
				}
			}
			// arguments handed to a function of this package taint its parameters
			c := &fctx{p: p}
			if callee, _ := c.localFunc(v.Fun); callee != "" {
				for i, a := range v.Args {
					if origin, _, ok := taintedRoot(a); ok {
						if cp.paramTaint[callee] == nil {
							cp.paramTaint[callee] = map[int]string{}
						}
						if _, had := cp.paramTaint[callee][i]; !had {
							cp.paramTaint[callee][i] = origin
							cp.changed = true
						}
						cp.uses = append(cp.uses, cacheUse{fn: id, kind: "passed", what: origin + "->" + callee, pos: pos(a)})
					}
				}
			}
		}
		return true
	})
}

func (cp *cachePass) pkg(p *pkgInfo) {
	for _, f := range p.files {
		for _, d := range f.Decls {
			fd, ok := d.(*ast.FuncDecl)
			if !ok || fd.Body == nil {
				continue
			}
			id, _ := funcID(p, fd)
			taint := map[types.Object]string{}
			idx := 0
			for _, fl := range fd.Type.Params.List {
				names := fl.Names
				if len(names) == 0 {
					idx++
					continue
				}
				for _, nm := range names {
					if o := p.info.Defs[nm]; o != nil {
						if handlerMethods[fd.Name.Name] && fd.Recv != nil {
							taint[o] = "event:" + fd.Name.Name
						} else if origin, ok := cp.paramTaint[id][idx]; ok {
							taint[o] = origin
						}
					}
					idx++
				}
			}
			cp.fnBody(p, id, fd.Type, fd.Body, taint)
		}
	}
}

// cacheObjectUses runs the pass over the packages to a fixpoint of the parameter taint.
func cacheObjectUses(repo string, pkgs []*pkgInfo) []cacheUse {
	cp := &cachePass{repo: repo, paramTaint: map[string]map[int]string{}}
	for round := 0; round < 8; round++ {
		cp.uses = nil
		cp.changed = false
		for _, p := range pkgs {
			cp.pkg(p)
		}
		if !cp.changed {
			break
		}
	}
	seen := map[cacheUse]bool{}
	var out []cacheUse
	for _, u := range cp.uses {
		if !seen[u] {
			seen[u] = true
			out = append(out, u)
		}
	}
	sort.Slice(out, func(i, j int) bool {
		if out[i].pos != out[j].pos {
			return out[i].pos < out[j].pos
		}
		return out[i].kind+out[i].what < out[j].kind+out[j].what
	})
	return out
}
