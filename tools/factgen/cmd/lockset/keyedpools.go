package main

// Keyed lock pools: a keyed lock wrapper (lockPod, LockDpPool, …) locks `recv.<poolField>.LockKey(key)`; the pool field is
// a hashed table of mutexes (keymutex.NewHashed(n): key -> mutexes[hash(key) % n]).  Two keys of ONE table may be the
// same mutex, so holding a keyed lock of a table while taking another keyed lock of the same table can self-deadlock.
// Every wrapper is tied to its pool field, every pool field to the allocation site of its table.

import (
	"fmt"
	"go/ast"
	"path/filepath"
	"strings"
)

// wrapper aliases across packages: a function-typed field that is assigned a wrapper of another package
// (pkg/ipam/server wires `LockPoolFunc: s.plugin.LockDpPool`; checked against the source in keyedAliasesHold)
var keyedAliases = map[string]string{"keyed:api.LockPoolFunc": "keyed:schedulerplugin.LockDpPool"}

func (a *analysis) collectPools() {
	a.poolField = map[string]string{}
	a.poolSite = map[string]string{}
	for pass := 0; pass < 2; pass++ {
		a.collectPoolsPass(pass)
	}
}

func (a *analysis) collectPoolsPass(pass int) {
	for _, p := range a.pkgs {
		pos := func(n ast.Node) string {
			ps := p.fset.Position(n.Pos())
			rel, _ := filepath.Rel(a.repo, ps.Filename)
			return fmt.Sprintf("%s:%d:%d", rel, ps.Line, ps.Column)
		}
		for _, f := range p.files {
			for _, d := range f.Decls {
				fd, ok := d.(*ast.FuncDecl)
				if !ok || fd.Body == nil {
					continue
				}
				// wrapper body: recv.<field>.LockKey(..)
				if pass == 0 && keyedWrappers[fd.Name.Name] {
					ast.Inspect(fd.Body, func(n ast.Node) bool {
						call, ok := n.(*ast.CallExpr)
						if !ok {
							return true
						}
						sel, ok := call.Fun.(*ast.SelectorExpr)
						if !ok || sel.Sel.Name != "LockKey" {
							return true
						}
						if inner, ok := sel.X.(*ast.SelectorExpr); ok {
							c := &fctx{a: a, p: p}
							field := inner.Sel.Name
							if s := p.info.Selections[inner]; s != nil {
								if tn := c.typeName(s.Recv()); tn != "" {
									field = tn + "." + inner.Sel.Name
								}
							}
							a.poolField["keyed:"+p.name+"."+fd.Name.Name] = field
						}
						return true
					})
				}
				if pass == 0 {
					continue
				}
				// allocation sites: `field: expr` in a composite literal of a local struct / `x.field = expr`
				locals := map[string]ast.Expr{} // local variable -> defining expression
				ast.Inspect(fd.Body, func(n ast.Node) bool {
					switch v := n.(type) {
					case *ast.AssignStmt:
						if len(v.Lhs) == 1 && len(v.Rhs) == 1 {
							if id, ok := v.Lhs[0].(*ast.Ident); ok {
								locals[id.Name] = v.Rhs[0]
							}
							if sel, ok := v.Lhs[0].(*ast.SelectorExpr); ok {
								a.notePoolAlloc(p, sel.Sel.Name, v.Rhs[0], locals, pos)
							}
						}
					case *ast.CompositeLit:
						tn := ""
						if id, ok := v.Type.(*ast.Ident); ok {
							tn = p.name + "." + id.Name
						}
						for _, el := range v.Elts {
							if kv, ok := el.(*ast.KeyValueExpr); ok {
								if k, ok := kv.Key.(*ast.Ident); ok && tn != "" {
									a.notePoolAllocNamed(tn+"."+k.Name, kv.Value, locals, pos)
								}
							}
						}
					}
					return true
				})
			}
		}
	}
}

func (a *analysis) notePoolAlloc(p *pkgInfo, field string, e ast.Expr, locals map[string]ast.Expr, pos func(ast.Node) string) {
	for _, pf := range a.poolFieldsSeen() {
		if strings.HasSuffix(pf, "."+field) && strings.HasPrefix(pf, p.name+".") {
			a.notePoolAllocNamed(pf, e, locals, pos)
		}
	}
}

func (a *analysis) poolFieldsSeen() []string {
	var out []string
	for _, f := range a.poolField {
		out = append(out, f)
	}
	return out
}

// notePoolAllocNamed: the allocation site is the position of the expression that creates the table; a local variable is
// followed to its definition (so two fields initialised from one variable share one site).
func (a *analysis) notePoolAllocNamed(field string, e ast.Expr, locals map[string]ast.Expr, pos func(ast.Node) string) {
	for i := 0; i < 4; i++ {
		id, ok := unparen(e).(*ast.Ident)
		if !ok {
			break
		}
		def, ok := locals[id.Name]
		if !ok {
			break
		}
		e = def
	}
	a.poolSite[field] = pos(e)
}

// keyedPools: keyed lock name -> allocation site of the table it locks ("" entries are dropped)
func keyedPools(a *analysis) map[string]string {
	if a.poolField == nil {
		a.collectPools()
	}
	out := map[string]string{}
	for lock, field := range a.poolField {
		if site, ok := a.poolSite[field]; ok {
			out[lock] = site
		} else {
			out[lock] = "unknown-allocation:" + field // every unknown table is its own (conservatively shared per field)
		}
	}
	for alias, target := range keyedAliases {
		if site, ok := out[target]; ok {
			out[alias] = site
			a.poolField[alias] = a.poolField[target] + " (through " + target + ")"
		}
	}
	return out
}
