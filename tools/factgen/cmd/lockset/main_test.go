package main

// Unit tests of the extraction rules (DESIGN.md Appendix C) on a miniature package.

import (
	"os"
	"path/filepath"
	"strings"
	"testing"
)

const mini = `package mini

import "sync"

type T struct {
	mu   sync.Mutex
	rw   *sync.RWMutex
	m    map[string]int
	once sync.Once
	late int
	cfg  string
}

type E struct {
	sync.Mutex
	n int
}

func New() *T {
	t := &T{m: map[string]int{}}
	t.cfg = "x" // fresh object: not an access
	return t
}

func (t *T) Deferred(k string) int {
	t.mu.Lock()
	defer t.mu.Unlock()
	return t.m[k]
}

func (t *T) Explicit(k string) {
	t.mu.Lock()
	t.m[k] = 1
	t.mu.Unlock()
	delete(t.m, k) // after the unlock: unguarded write
}

func (t *T) Shared(k string) int {
	t.rw.RLock()
	defer t.rw.RUnlock()
	return t.m[k]
}

func (t *T) helper(k string) { t.m[k]++ }

func (t *T) CallsHelperLocked(k string) {
	t.mu.Lock()
	defer t.mu.Unlock()
	t.helper(k)
}

func (t *T) helper2(k string) { t.m[k] = 2 }

func (t *T) CallsHelper2Locked(k string) {
	t.mu.Lock()
	t.helper2(k)
	t.mu.Unlock()
}

func (t *T) CallsHelper2Unlocked(k string) { t.helper2(k) }

func (t *T) Branch(c bool, k string) {
	t.mu.Lock()
	if c {
		t.mu.Unlock()
		return
	}
	t.m[k] = 3
	t.mu.Unlock()
}

func (t *T) Leak(c bool) {
	t.mu.Lock()
	if c {
		return
	}
	t.mu.Unlock()
}

func (t *T) Closures(k string) {
	t.mu.Lock()
	defer t.mu.Unlock()
	defer func() { _ = t.m[k] }() // runs before the deferred unlock: guarded
	f := func() { t.m[k] = 4 }
	f()              // analysed at the call: guarded
	go func() { t.m[k] = 5 }() // other goroutine: unguarded
}

func (t *T) DeferBeforeLock(k string) {
	defer func() { t.m[k] = 6 }() // registered before the lock: runs after the unlock
	t.mu.Lock()
	defer t.mu.Unlock()
}

func (t *T) Once() {
	t.once.Do(func() { t.late = 1 })
}

func (t *T) Addr() { set(&t.cfg) }

func set(p *string) { *p = "y" }

func (e *E) Embedded() {
	e.Lock()
	defer e.Unlock()
	e.n++
}

func (t *T) lockKey(k string) func() { return func() {} }

func (t *T) KeyedDefer(k string) {
	defer t.lockKey(k)()
	t.m[k] = 9
}

func (t *T) KeyedHandle(k string, c bool) error {
	unlock := t.lockKey(k)
	if c {
		unlock()
		return nil
	}
	t.m[k] = 10
	unlock()
	return nil
}

func (t *T) KeyedHandleDeferred(k string) {
	unlock := t.lockKey(k)
	defer unlock()
	t.m[k] = 11
}

// seeded defect class 1: explicit unlock, an early return in between leaks the lock
func (t *T) KeyedLeak(k string, c bool) error {
	unlock := t.lockKey(k)
	if c {
		return nil
	}
	unlock()
	return nil
}

// seeded defect class 2: deferred unlock plus an explicit one on some path
func (t *T) KeyedDouble(k string, c bool) {
	unlock := t.lockKey(k)
	defer unlock()
	if c {
		unlock()
	}
}

func (t *T) KeyedDropped(k string) { t.lockKey(k) }

// re-entrant acquisition
func (t *T) ReadA(k string) int {
	t.rw.RLock()
	defer t.rw.RUnlock()
	return t.ReadB(k) // RLock inside RLock through a call: deadlocks once a writer is queued
}

func (t *T) ReadB(k string) int {
	t.rw.RLock()
	defer t.rw.RUnlock()
	return t.m[k]
}

func (t *T) viaHelper() { t.lockedHelper() }

func (t *T) lockedHelper() {
	t.mu.Lock()
	defer t.mu.Unlock()
}

func (t *T) Outer() {
	t.mu.Lock()
	defer t.mu.Unlock()
	t.viaHelper() // transitively locks mu again
}

func (t *T) ReleasedFirst() {
	t.mu.Lock()
	t.mu.Unlock()
	t.lockedHelper() // fine: not held any more
}

func (t *T) Twice() {
	t.mu.Lock()
	t.mu.Lock()
	t.mu.Unlock()
	t.mu.Unlock()
}

// objects from a lister / informer cache
type obj struct {
	Size int
	Tags map[string]string
	List []int
}

func (o *obj) DeepCopy() *obj { c := *o; return &c }

type lister struct{}

func (lister) Get(name string) (*obj, error) { return &obj{}, nil }
func (lister) List() ([]*obj, error)         { return nil, nil }

type C struct{ PoolLister lister }

func (c *C) ReadsOnly() int {
	o, _ := c.PoolLister.Get("a")
	return o.Size
}

func (c *C) Mutates() {
	o, err := c.PoolLister.Get("a")
	if err != nil {
		return
	}
	o.Size = 3 // write through the cache object
}

func (c *C) CopiesFirst() {
	o, _ := c.PoolLister.Get("a")
	cp := o.DeepCopy()
	cp.Size = 3
	cp.Tags["x"] = "y"
}

func (c *C) MutatesElement() {
	os, _ := c.PoolLister.List()
	for _, o := range os {
		o.Tags["x"] = "y"
	}
	os[0].List = append(os[0].List, 1)
}

func (c *C) PassesOn() {
	o, _ := c.PoolLister.Get("a")
	bump(o)
}

func bump(o *obj) { o.Size++ }

func (c *C) UpdatePod(oldPod, newPod *obj) { newPod.Size = 1 }

// lazily initialised field: written inside once.Do, read after a call that went through it
type L struct {
	init sync.Once
	cl   *int
}

func (l *L) connect() {
	l.init.Do(func() { v := 1; l.cl = &v })
}

func (l *L) Use() int {
	l.connect()
	return *l.cl
}

// the Once removed: check-then-set
type L2 struct{ cl *int }

func (l *L2) connect() {
	if l.cl != nil {
		return
	}
	v := 1
	l.cl = &v
}

func (l *L2) Use() int {
	l.connect()
	return *l.cl
}

func (t *T) Loop(ks []string) {
	for _, k := range ks {
		t.mu.Lock()
		t.m[k] = 7
		t.mu.Unlock()
	}
	for range ks {
		select {
		case <-make(chan int):
			t.mu.Lock()
			t.m["x"] = 8
			t.mu.Unlock()
		default:
		}
	}
}
`

func analyseMini(t *testing.T) (*analysis, map[string]heldSet) {
	t.Helper()
	dir := t.TempDir()
	if err := os.MkdirAll(filepath.Join(dir, "mini"), 0o755); err != nil {
		t.Fatal(err)
	}
	if err := os.WriteFile(filepath.Join(dir, "mini", "mini.go"), []byte(mini), 0o644); err != nil {
		t.Fatal(err)
	}
	saved := trackedTypes
	savedLF := lockFields
	savedKW := keyedWrappers
	defer func() { trackedTypes, lockFields, keyedWrappers = saved, savedLF, savedKW }()
	keyedWrappers = map[string]bool{"lockKey": true}
	fz := frozen
	trackedTypes = map[string]*typeSpec{
		"mini.T":  {fields: map[string]guard{"m": lk("mini.T.mu"), "late": lk("once:mini.T.once")}, others: &fz},
		"mini.E":  {fields: map[string]guard{"n": lk("mini.E.Mutex")}},
		"mini.L":  {fields: map[string]guard{"cl": lk("once:mini.L.init")}},
		"mini.L2": {fields: map[string]guard{"cl": lk("once:mini.L2.init")}},
	}
	lockFields = map[string]bool{"mini.T.mu": true, "mini.T.rw": true, "mini.T.once": true, "mini.L.init": true}
	a, err := analyseAll(dir, []string{"mini"})
	if err != nil {
		t.Fatal(err)
	}
	return a, entrySets(a)
}

func heldStr(h [][2]string) string {
	var p []string
	for _, x := range h {
		p = append(p, x[0]+"/"+x[1])
	}
	return strings.Join(p, ",")
}

func find(a *analysis, fn, field, kind string) []access {
	var out []access
	for _, ac := range a.accesses {
		if ac.fn == fn && ac.field == field && ac.kind == kind {
			out = append(out, ac)
		}
	}
	return out
}

func TestLockScopes(t *testing.T) {
	a, entry := analyseMini(t)
	expect := func(fn, field, kind, held string, n int) {
		t.Helper()
		got := find(a, fn, field, kind)
		if len(got) != n {
			t.Fatalf("%s %s %s: %d entries, want %d (%v)", fn, kind, field, len(got), n, got)
		}
		for _, g := range got {
			if heldStr(g.held) != held {
				t.Errorf("%s %s %s at %s: held %q, want %q", fn, kind, field, g.pos, heldStr(g.held), held)
			}
		}
	}
	expect("mini.T.Deferred", "mini.T.m", "read", "mini.T.mu/excl", 1)
	expect("mini.T.Shared", "mini.T.m", "read", "mini.T.rw/shared", 1)
	// explicit unlock: the write before it is guarded, the delete after it is not
	ex := find(a, "mini.T.Explicit", "mini.T.m", "write")
	if len(ex) != 2 || heldStr(ex[0].held) != "mini.T.mu/excl" || heldStr(ex[1].held) != "" {
		t.Errorf("Explicit: %v", ex)
	}
	// helper: locally no lock, entry set from its only (locked) call site
	expect("mini.T.helper", "mini.T.m", "write", "", 1)
	if e := entry["mini.T.helper"]; e["mini.T.mu"] != "excl" {
		t.Errorf("entry(helper) = %v", e)
	}
	// helper2 is also called without the lock: nothing may be assumed
	if e := entry["mini.T.helper2"]; len(e) != 0 {
		t.Errorf("entry(helper2) = %v, want empty", e)
	}
	// branch with early unlock+return: the write on the fall-through path is guarded
	expect("mini.T.Branch", "mini.T.m", "write", "mini.T.mu/excl", 1)
	// closures
	expect("mini.T.Closures", "mini.T.m", "read", "mini.T.mu/excl", 1)  // deferred closure
	expect("mini.T.Closures", "mini.T.m", "write", "mini.T.mu/excl", 1) // local closure at its call
	var goWrite *access
	for i := range a.accesses {
		if strings.HasPrefix(a.accesses[i].fn, "mini.T.Closures$go") {
			goWrite = &a.accesses[i]
		}
	}
	if goWrite == nil || heldStr(goWrite.held) != "" || !a.roots[goWrite.fn] {
		t.Errorf("go closure: %v", goWrite)
	}
	expect("mini.T.DeferBeforeLock", "mini.T.m", "write", "", 1)
	// Once.Do closure holds the pseudo lock
	expect("mini.T.Once", "mini.T.late", "write", "once:mini.T.once/excl", 1)
	// &field escapes: read + write
	expect("mini.T.Addr", "mini.T.cfg", "read", "", 1)
	expect("mini.T.Addr", "mini.T.cfg", "write", "", 1)
	// fresh object in the constructor is skipped
	if got := find(a, "mini.New", "mini.T.cfg", "write"); len(got) != 0 {
		t.Errorf("constructor write on a fresh object recorded: %v", got)
	}
	// embedded mutex
	expect("mini.E.Embedded", "mini.E.n", "write", "mini.E.Mutex/excl", 1)
	// locks taken and released inside loop bodies / select clauses
	expect("mini.T.Loop", "mini.T.m", "write", "mini.T.mu/excl", 2)
}

func TestBalance(t *testing.T) {
	a, _ := analyseMini(t)
	how := map[string][]string{}
	for _, b := range a.bals {
		how[b.fn] = append(how[b.fn], b.how)
	}
	check := func(fn string, want ...string) {
		t.Helper()
		if strings.Join(how[fn], ",") != strings.Join(want, ",") {
			t.Errorf("balance of %s = %v, want %v", fn, how[fn], want)
		}
	}
	check("mini.T.Deferred", "deferred")
	check("mini.T.Explicit", "matched")
	check("mini.T.Branch", "matched")
	check("mini.T.Leak", "leaked")
	check("mini.E.Embedded", "deferred")
	check("mini.T.Loop", "matched", "matched")
	check("mini.T.KeyedDefer", "deferred")
	check("mini.T.KeyedHandle", "matched")
	check("mini.T.KeyedHandleDeferred", "deferred")
	check("mini.T.KeyedLeak", "leaked")
	check("mini.T.KeyedDouble", "deferred", "unheld")
	check("mini.T.KeyedDropped", "leaked")
}

func TestReentrant(t *testing.T) {
	a, entry := analyseMini(t)
	got := strings.Join(reentrantCalls(a, entry), " ")
	for _, want := range []string{
		"reentrant-lock:mini.T.rw@mini.T.ReadA->mini.T.ReadB",
		"reentrant-lock:mini.T.mu@mini.T.Outer->mini.T.viaHelper",
		"reentrant-lock:mini.T.mu@mini.T.Twice->mini.T.Twice",
	} {
		if !strings.Contains(got, want) {
			t.Errorf("missing %s in %q", want, got)
		}
	}
	for _, not := range []string{"ReleasedFirst", "CallsHelperLocked", "mini.T.helper", "KeyedDefer"} {
		if strings.Contains(got, "@mini.T."+not+"->") {
			t.Errorf("false positive for %s in %q", not, got)
		}
	}
}

func TestCacheObjects(t *testing.T) {
	a, _ := analyseMini(t)
	written := map[string]int{}
	for _, u := range cacheObjectUses(a.repo, a.pkgs) {
		if u.kind == "written" {
			written[u.fn]++
		}
	}
	want := map[string]int{"mini.C.Mutates": 1, "mini.C.MutatesElement": 2, "mini.bump": 1, "mini.C.UpdatePod": 1}
	for f, n := range want {
		if written[f] != n {
			t.Errorf("%s: %d writes through cache objects, want %d", f, written[f], n)
		}
	}
	for f := range written {
		if _, ok := want[f]; !ok {
			t.Errorf("false positive: write through a cache object reported in %s", f)
		}
	}
}

// keyed lock pools: one shared hashed table, two tables, two tables taken in both orders
const poolsTmpl = `package pools

type KM struct{}

func NewHashed(n int) *KM        { return &KM{} }
func (k *KM) LockKey(s string)   {}
func (k *KM) UnlockKey(s string) {}

type P struct {
	podPool *KM
	dpPool  *KM
}

func NewP() *P {
	%s
}

func (p *P) lockPod(k string) func() { p.podPool.LockKey(k); return func() { p.podPool.UnlockKey(k) } }
func (p *P) lockDp(k string) func()  { p.dpPool.LockKey(k); return func() { p.dpPool.UnlockKey(k) } }

func (p *P) Filter(k string) {
	defer p.lockPod(k)()
	p.inner(k)
}

func (p *P) inner(k string) { defer p.lockDp("dp_" + k)() }

%s
`

func analysePools(t *testing.T, ctor, extra string) (*analysis, map[string]heldSet) {
	t.Helper()
	dir := t.TempDir()
	os.MkdirAll(filepath.Join(dir, "pools"), 0o755)
	src := strings.Replace(strings.Replace(poolsTmpl, "%s", ctor, 1), "%s", extra, 1)
	if err := os.WriteFile(filepath.Join(dir, "pools", "p.go"), []byte(src), 0o644); err != nil {
		t.Fatal(err)
	}
	savedT, savedKW, savedAl := trackedTypes, keyedWrappers, keyedAliases
	defer func() { trackedTypes, keyedWrappers, keyedAliases = savedT, savedKW, savedAl }()
	trackedTypes = map[string]*typeSpec{}
	keyedWrappers = map[string]bool{"lockPod": true, "lockDp": true}
	keyedAliases = map[string]string{}
	a, err := analyseAll(dir, []string{"pools"})
	if err != nil {
		t.Fatal(err)
	}
	entry := entrySets(a)
	keyedPools(a)
	return a, entry
}

func TestKeyedPools(t *testing.T) {
	two := "return &P{podPool: NewHashed(10), dpPool: NewHashed(10)}"
	shared := "km := NewHashed(10)\n\treturn &P{podPool: km, dpPool: km}"
	// two tables: nesting across distinct tables, nothing re-entrant
	a, entry := analysePools(t, two, "")
	pools := keyedPools(a)
	if pools["keyed:pools.lockPod"] == pools["keyed:pools.lockDp"] || len(pools) != 2 {
		t.Fatalf("two tables expected, got %v", pools)
	}
	if r := reentrantCalls(a, entry); len(r) != 0 {
		t.Errorf("two tables: unexpected re-entrant acquisitions %v", r)
	}
	ns := keyedNestingPairs(a, entry)
	if len(ns) == 0 {
		t.Errorf("nesting pod->dp not found")
	}
	for _, n := range ns {
		parts := strings.SplitN(strings.SplitN(n, "@", 2)[0], "->", 2)
		if parts[0] == parts[1] {
			t.Errorf("two tables: nesting inside one table: %s", n)
		}
	}
	// one shared table: the same nesting is now inside one table and counts as a possible re-acquisition
	a, entry = analysePools(t, shared, "")
	pools = keyedPools(a)
	if pools["keyed:pools.lockPod"] != pools["keyed:pools.lockDp"] {
		t.Fatalf("shared table expected, got %v", pools)
	}
	got := strings.Join(reentrantCalls(a, entry), " ")
	if !strings.Contains(got, "reentrant-lock:keyed:pools.lockPod@pools.P.Filter->pools.P.inner") {
		t.Errorf("shared table: nesting not flagged: %q", got)
	}
	// two tables, but one function takes them in the reverse order: both order edges exist (a cycle)
	a, entry = analysePools(t, two, "func (p *P) Reverse(k string) {\n\tdefer p.lockDp(k)()\n\tdefer p.lockPod(k)()\n}")
	ns = keyedNestingPairs(a, entry)
	edges := map[string]bool{}
	for _, n := range ns {
		edges[strings.SplitN(n, "@", 2)[0]] = true
	}
	cyc := false
	for e := range edges {
		p := strings.SplitN(e, "->", 2)
		if edges[p[1]+"->"+p[0]] {
			cyc = true
		}
	}
	if !cyc {
		t.Errorf("reversed order not visible in the nestings: %v", ns)
	}
}

func TestLazyInit(t *testing.T) {
	a, entry := analyseMini(t)
	ok := func(ac access) bool {
		h := toSet(ac.held)
		for l, m := range entry[ac.fn] {
			if h[l] != "excl" {
				h[l] = m
			}
		}
		once := "once:" + strings.TrimSuffix(ac.field, ".cl") + ".init"
		if ac.kind == "write" {
			return h[once] == "excl"
		}
		return h[once] != ""
	}
	bad := map[string]int{}
	n := 0
	for _, ac := range a.accesses {
		if strings.HasSuffix(ac.field, ".cl") {
			n++
			if !ok(ac) {
				bad[ac.fn+":"+ac.kind]++
			}
		}
	}
	if n < 5 {
		t.Fatalf("only %d accesses of the lazily initialised fields", n)
	}
	for k := range bad {
		if strings.HasPrefix(k, "mini.L.") {
			t.Errorf("Once-guarded lazy field reported unguarded: %s", k)
		}
	}
	for _, want := range []string{"mini.L2.connect:write", "mini.L2.connect:read", "mini.L2.Use:read"} {
		if bad[want] == 0 {
			t.Errorf("Once removed: %s not reported (bad = %v)", want, bad)
		}
	}
}
