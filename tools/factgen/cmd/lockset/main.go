// factgen lockset: regenerates lean/Galaxy/Generated/Lockset.lean — the ACCESS TABLE of M9 / C19 — from
// the current source of /repo.
//
// For every package in `pkgDirs` it parses the non-test, non-verif-hook files, type-checks them with
// go/types against EMPTY fake imports (so only the package's own types resolve — which is all that is
// needed to tell which struct field a selector denotes and which local function a call reaches), and
// walks every function body with a lock-scope tracker (DESIGN.md Appendix C):
//
//   - X.Lock()/RLock() adds a lock, X.Unlock()/RUnlock() removes it, `defer X.Unlock()` keeps it to the end;
//     `defer r.lockPod(..)()`-style wrappers (a call of a call) are keyed lock scopes;
//   - if/switch/select/for merge by intersection over the branches that fall through;
//   - closures: `defer func(){..}()` runs with the locks whose unlock was deferred EARLIER; a closure
//     bound to a local variable is analysed at each of its calls; a closure passed to a known synchronous
//     higher-order function (walkIPRanges, wait.Poll*, Once.Do, local helpers) runs with the caller's
//     locks; `go ...`, closures stored in composite literals (event handlers) or returned run with no
//     locks, as separate pseudo-functions that are roots of the call graph;
//   - every selector resolving to a field of a tracked type is an access: assignment LHS, map-index
//     assignment, ++/--, delete(), are writes; &field is read+write; everything else a read;
//   - accesses through a pointer that was created in the same function (&T{..}, New(..), CloneWith(..))
//     are on an unpublished object and are skipped; methods of value-like tracked types (FloatingIP) are
//     summarised and replayed at their call sites;
//   - every call of a function of the same package is a call site (callee, caller, locks held).
//
// The assumed entry lock set of each function ("caller holds the lock") is the greatest fixpoint of
// entry(f) = ⋂ over call sites (held at site ∪ entry(caller)), ∅ for roots; it is emitted and RE-CHECKED in
// Lean (`sitesOk`), so the proof trusts only the extraction, not the fixpoint.
//
// Blind spots (trusted, see checklib/props_d/C19.py): aliasing beyond the rules above, calls through
// interfaces / function values inside one package, reflection, the Go memory model's finer points.
package main

import (
	"encoding/json"
	"fmt"
	"go/ast"
	"go/parser"
	"go/token"
	"go/types"
	"os"
	"path/filepath"
	"sort"
	"strings"

	"factgen/fg"
)

// ---------------------------------------------------------------- configuration

var pkgDirs = []string{
	"pkg/ipam/floatingip",
	"pkg/ipam/schedulerplugin",
	"pkg/ipam/crd",
	"pkg/ipam/api",
	"pkg/network/portmapping",
	"pkg/policy",
	"pkg/galaxy",
	"pkg/utils/iptables",
	"pkg/ipam/cloudprovider",
}

type guard struct {
	kind string // "lock" | "frozen"
	lock string
}

func lk(l string) guard { return guard{"lock", l} }

var frozen = guard{"frozen", ""}

// tracked types: pkgname.Type -> explicit field guards; `others` = guard of every field not listed
// (nil: fields not listed are not tracked).
type typeSpec struct {
	fields map[string]guard
	others *guard
	// pointer-only: accesses count only through an expression of type *T (values are private copies)
	pointerOnly bool
	// summarise: methods of this type are not analysed as functions; their receiver accesses are replayed at call sites
	summarise bool
}

const cacheLock = "floatingip.crdIpam.cacheLock"

var trackedTypes = map[string]*typeSpec{
	"floatingip.crdIpam": {fields: map[string]guard{
		"allocatedFIPs": lk(cacheLock), "unallocatedFIPs": lk(cacheLock), "FloatingIPs": lk(cacheLock)},
		others: &frozen},
	"floatingip.FloatingIP": {fields: map[string]guard{
		"Key": lk(cacheLock), "UpdatedAt": lk(cacheLock), "Labels": lk(cacheLock), "Policy": lk(cacheLock),
		"NodeName": lk(cacheLock), "PodUid": lk(cacheLock), "IP": frozen, "pool": frozen},
		pointerOnly: true, summarise: true},
	"floatingip.FloatingIPPool": {fields: map[string]guard{
		"nodeSubnets": lk(cacheLock), "index": lk(cacheLock)}, pointerOnly: true},
	"schedulerplugin.FloatingIPPlugin": {fields: map[string]guard{
		"nodeSubnet": lk("schedulerplugin.FloatingIPPlugin.nodeSubnetLock"),
		"lastIPConf": lk("thread:schedulerplugin.FloatingIPPlugin.configPoller")},
		others: &frozen},
	"schedulerplugin.crdKey": {fields: map[string]guard{"keyToGVR": lk("schedulerplugin.crdKey.Mutex")}, others: &frozen},
	"crd.crdCache":           {fields: map[string]guard{"startedInformers": lk("crd.crdCache.lock")}, others: &frozen},
	"portmapping.PortMappingHandler": {fields: map[string]guard{"podPortMap": lk("portmapping.PortMappingHandler.Mutex")},
		others: &frozen},
	"policy.PolicyManager": {fields: map[string]guard{
		"policies":        lk("policy.PolicyManager.Mutex"),
		"namespaceLister": lk("once:policy.PolicyManager.podInformerOnce")},
		others: &frozen},
	"galaxy.Galaxy": {fields: map[string]guard{"netConf": frozen}},
	// lazily initialised: written only inside init.Do, read only after a call that went through init.Do
	"cloudprovider.grpcCloudProvider": {fields: map[string]guard{"client": lk("once:cloudprovider.grpcCloudProvider.init")},
		others: &frozen},
}

// element locations: a local variable bound from an index / range of this field aliases the element
var elemLoc = map[string]string{"galaxy.Galaxy.netConf": "galaxy.Galaxy.netConf[]"}
var elemGuard = map[string]guard{"galaxy.Galaxy.netConf[]": frozen}

// fields that are locks / once themselves: not memory locations of interest
var lockFields = map[string]bool{
	"floatingip.crdIpam.cacheLock": true, "schedulerplugin.FloatingIPPlugin.nodeSubnetLock": true,
	"schedulerplugin.FloatingIPPlugin.dpLockPool": true, "schedulerplugin.FloatingIPPlugin.podLockPool": true,
	"crd.crdCache.lock": true, "policy.PolicyManager.podInformerOnce": true,
	"cloudprovider.grpcCloudProvider.init": true,
}

// functions whose result is a fresh (unpublished) pointer to a tracked type
var freshCallees = map[string]bool{"New": true, "CloneWith": true, "NewCrdIPAM": true}

// the designated entry points of the init phase (run before the object is visible to other goroutines)
var initRoots = []string{
	"galaxy.Galaxy.Init", "galaxy.Galaxy.Start", "galaxy.NewGalaxy",
	"policy.New", "policy.PolicyManager.initInformers",
}

// thread-confined functions: their body runs on one designated goroutine only; modelled as a pseudo lock
// held throughout.  The callers are emitted (`confinedCallers`) and pinned by a theorem.
var confined = map[string]string{
	"schedulerplugin.FloatingIPPlugin.updateConfigMap": "thread:schedulerplugin.FloatingIPPlugin.configPoller",
}

// known synchronous higher-order callees (a closure argument runs before the call returns)
var syncHO = map[string]bool{
	"wait.Poll": true, "wait.PollInfinite": true, "wait.PollImmediate": true, "sort.Slice": true, "sort.SliceStable": true,
}

// higher-order callees that only STORE the closure (it runs later, on another goroutine)
var asyncHO = map[string]bool{"grpc.WithDialer": true}

// keyed lock wrappers: `defer recv.<name>(..)()`
var keyedWrappers = map[string]bool{"lockPod": true, "LockDpPool": true, "LockPoolFunc": true}

// ---------------------------------------------------------------- data

type held struct {
	mode     string // "excl" | "shared"
	deferred bool
	site     int // index into bals (acquisition site), -1 for assumed
}

type state map[string]held

func (s state) clone() state {
	n := state{}
	for k, v := range s {
		n[k] = v
	}
	return n
}

func intersect(a, b state) state {
	n := state{}
	for k, v := range a {
		if w, ok := b[k]; ok && w.mode == v.mode {
			v.deferred = v.deferred && w.deferred
			n[k] = v
		}
	}
	return n
}

type access struct {
	fn    string
	field string
	kind  string // read|write
	held  [][2]string
	pos   string
}

type callSite struct {
	callee, caller string
	held           [][2]string
	pos            string
}

// acqEvent: function fn acquires `lock` while holding `held` (locally; the entry set of fn is added in Lean)
type acqEvent struct {
	fn, lock string
	held     [][2]string
	pos      string
}

type bal struct {
	fn, lock, mode, how, pos string
}

type fake struct{}

func (fake) Import(path string) (*types.Package, error) {
	name := path
	if i := strings.LastIndex(path, "/"); i >= 0 {
		name = path[i+1:]
	}
	p := types.NewPackage(path, name)
	p.MarkComplete()
	return p, nil
}

type pkgInfo struct {
	name  string
	dir   string
	fset  *token.FileSet
	files []*ast.File
	info  *types.Info
	pkg   *types.Package
}

type analysis struct {
	repo        string
	accesses    []access
	sites       []callSite
	bals        []bal
	funcs       map[string]string // id -> "file:line"
	roots       map[string]bool
	exported    map[string]bool
	pseudo      int
	confCallers []string
	summaries   map[string][][2]string // method id -> (field, kind) on receiver
	pkgs        []*pkgInfo
	events      []acqEvent        // every acquisition with the locks held just before it
	ensurers    map[string]string // function id -> once pseudo lock its body unconditionally goes through (X.once.Do at top level)
	poolField   map[string]string // keyed lock name -> pool field it locks
	poolSite    map[string]string // pool field -> allocation site of the hashed mutex table
	errs        []string
}

func (a *analysis) fail(format string, args ...interface{}) {
	a.errs = append(a.errs, fmt.Sprintf(format, args...))
}

// ---------------------------------------------------------------- loading

func load(repo, dir string) (*pkgInfo, error) {
	fset := token.NewFileSet()
	ents, err := os.ReadDir(filepath.Join(repo, dir))
	if err != nil {
		return nil, err
	}
	var files []*ast.File
	pkgName := ""
	for _, e := range ents {
		n := e.Name()
		if !strings.HasSuffix(n, ".go") || strings.HasSuffix(n, "_test.go") || strings.HasPrefix(n, "verif_hooks") {
			continue
		}
		f, err := parser.ParseFile(fset, filepath.Join(repo, dir, n), nil, parser.ParseComments)
		if err != nil {
			return nil, err
		}
		// skip files excluded by build constraints we do not build with (verif, windows, !linux …)
		skip := false
		for _, cg := range f.Comments {
			if cg.Pos() > f.Package {
				break
			}
			for _, c := range cg.List {
				t := c.Text
				if strings.HasPrefix(t, "//go:build") || strings.HasPrefix(t, "// +build") {
					if strings.Contains(t, "verif") || strings.Contains(t, "windows") || strings.Contains(t, "!linux") ||
						strings.Contains(t, "ignore") {
						skip = true
					}
				}
			}
		}
		if skip {
			continue
		}
		if pkgName == "" {
			pkgName = f.Name.Name
		}
		if f.Name.Name != pkgName {
			continue
		}
		files = append(files, f)
	}
	if len(files) == 0 {
		return nil, fmt.Errorf("%s: no Go files", dir)
	}
	info := &types.Info{
		Types:      map[ast.Expr]types.TypeAndValue{},
		Defs:       map[*ast.Ident]types.Object{},
		Uses:       map[*ast.Ident]types.Object{},
		Selections: map[*ast.SelectorExpr]*types.Selection{},
	}
	conf := types.Config{Importer: fake{}, Error: func(error) {}, DisableUnusedImportCheck: true}
	pkg, _ := conf.Check(dir, fset, files, info)
	return &pkgInfo{name: pkgName, dir: dir, fset: fset, files: files, info: info, pkg: pkg}, nil
}

func namedOf(t types.Type) *types.Named {
	for {
		switch u := t.(type) {
		case *types.Pointer:
			t = u.Elem()
			continue
		case *types.Named:
			return u
		}
		return nil
	}
}

func isPointer(t types.Type) bool {
	_, ok := t.(*types.Pointer)
	return ok
}

// ---------------------------------------------------------------- walker

type fctx struct {
	a        *analysis
	p        *pkgInfo
	fn       string // function id accesses / call sites are attributed to
	fresh    map[types.Object]bool
	closures map[types.Object]*ast.FuncLit
	aliases  map[types.Object]string // local var -> element location
	handles  map[types.Object]string // local var holding the unlock closure of a keyed lock wrapper -> lock name
	depth    int
	// exits: states at return statements / end (for balance)
	firstBal int
}

func (c *fctx) pos(n ast.Node) string {
	p := c.p.fset.Position(n.Pos())
	rel, err := filepath.Rel(c.a.repo, p.Filename)
	if err != nil {
		rel = p.Filename
	}
	return fmt.Sprintf("%s:%d", rel, p.Line)
}

func heldList(s state) [][2]string {
	var out [][2]string
	for k, v := range s {
		out = append(out, [2]string{k, v.mode})
	}
	sort.Slice(out, func(i, j int) bool { return out[i][0] < out[j][0] })
	return out
}

func (c *fctx) typeName(t types.Type) string {
	n := namedOf(t)
	if n == nil || n.Obj().Pkg() != c.p.pkg {
		return ""
	}
	return c.p.name + "." + n.Obj().Name()
}

// lockName resolves the receiver expression of a Lock/Unlock call.
func (c *fctx) lockName(x ast.Expr) string {
	x = unparen(x)
	if sel, ok := x.(*ast.SelectorExpr); ok {
		if s := c.p.info.Selections[sel]; s != nil && s.Kind() == types.FieldVal {
			if tn := c.typeName(s.Recv()); tn != "" {
				return tn + "." + sel.Sel.Name
			}
		}
	}
	if tv, ok := c.p.info.Types[x]; ok {
		if tn := c.typeName(tv.Type); tn != "" {
			// embedded mutex
			if st, ok := namedOf(tv.Type).Underlying().(*types.Struct); ok {
				for i := 0; i < st.NumFields(); i++ {
					f := st.Field(i)
					if f.Embedded() && (f.Name() == "Mutex" || f.Name() == "RWMutex") {
						return tn + "." + f.Name()
					}
				}
			}
			return tn + ".<embedded-lock>"
		}
	}
	return "?" + exprStr(c.p.fset, x)
}

func unparen(e ast.Expr) ast.Expr {
	for {
		p, ok := e.(*ast.ParenExpr)
		if !ok {
			return e
		}
		e = p.X
	}
}

func exprStr(fset *token.FileSet, e ast.Expr) string {
	switch v := e.(type) {
	case *ast.Ident:
		return v.Name
	case *ast.SelectorExpr:
		return exprStr(fset, v.X) + "." + v.Sel.Name
	case *ast.CallExpr:
		return exprStr(fset, v.Fun) + "()"
	case *ast.StarExpr:
		return "*" + exprStr(fset, v.X)
	case *ast.ParenExpr:
		return exprStr(fset, v.X)
	case *ast.IndexExpr:
		return exprStr(fset, v.X) + "[]"
	}
	return fmt.Sprintf("%T", e)
}

// lockOp recognises X.Lock() etc.
func lockOp(call *ast.CallExpr) (x ast.Expr, op string, ok bool) {
	sel, isSel := call.Fun.(*ast.SelectorExpr)
	if !isSel || len(call.Args) != 0 {
		return nil, "", false
	}
	switch sel.Sel.Name {
	case "Lock", "Unlock", "RLock", "RUnlock":
		return sel.X, sel.Sel.Name, true
	}
	return nil, "", false
}

func (c *fctx) record(field, kind string, st state, n ast.Node) {
	c.a.accesses = append(c.a.accesses, access{fn: c.fn, field: field, kind: kind, held: heldList(st), pos: c.pos(n)})
}

// trackedField: does this selector denote a tracked field?  returns location name.
func (c *fctx) trackedField(sel *ast.SelectorExpr) (loc string, ok bool) {
	s := c.p.info.Selections[sel]
	if s == nil || s.Kind() != types.FieldVal {
		return "", false
	}
	// the struct that declares the field (walk the embedding path)
	recv := s.Recv()
	idx := s.Index()
	t := recv
	var owner *types.Named
	for _, i := range idx {
		n := namedOf(t)
		if n == nil {
			return "", false
		}
		st, isSt := n.Underlying().(*types.Struct)
		if !isSt {
			return "", false
		}
		owner = n
		t = st.Field(i).Type()
	}
	if owner == nil || owner.Obj().Pkg() != c.p.pkg {
		return "", false
	}
	tn := c.p.name + "." + owner.Obj().Name()
	spec := trackedTypes[tn]
	if spec == nil {
		return "", false
	}
	name := tn + "." + sel.Sel.Name
	if lockFields[name] {
		return "", false
	}
	if _, listed := spec.fields[sel.Sel.Name]; !listed && spec.others == nil {
		return "", false
	}
	if spec.pointerOnly {
		// only through a pointer (direct), and not through a fresh one
		if len(idx) != 1 || !isPointer(recv) {
			return "", false
		}
	}
	if c.isFresh(sel.X) {
		return "", false
	}
	return name, true
}

func (c *fctx) isFresh(x ast.Expr) bool {
	x = unparen(x)
	if id, ok := x.(*ast.Ident); ok {
		if obj := c.p.info.Uses[id]; obj != nil && c.fresh[obj] {
			return true
		}
	}
	return false
}

func (c *fctx) freshExpr(e ast.Expr) bool {
	e = unparen(e)
	switch v := e.(type) {
	case *ast.UnaryExpr:
		if v.Op == token.AND {
			_, ok := unparen(v.X).(*ast.CompositeLit)
			return ok
		}
	case *ast.CompositeLit:
		return true
	case *ast.CallExpr:
		switch f := v.Fun.(type) {
		case *ast.Ident:
			return f.Name == "new" || freshCallees[f.Name]
		case *ast.SelectorExpr:
			return freshCallees[f.Sel.Name]
		}
	}
	return false
}

// localFunc resolves a call target to a function of this package.
func (c *fctx) localFunc(fun ast.Expr) (id string, obj *types.Func) {
	fun = unparen(fun)
	switch v := fun.(type) {
	case *ast.Ident:
		if f, ok := c.p.info.Uses[v].(*types.Func); ok && f.Pkg() == c.p.pkg {
			return c.p.name + "." + f.Name(), f
		}
	case *ast.SelectorExpr:
		if s := c.p.info.Selections[v]; s != nil && s.Kind() == types.MethodVal {
			if f, ok := s.Obj().(*types.Func); ok && f.Pkg() == c.p.pkg {
				sig := f.Type().(*types.Signature)
				if sig.Recv() != nil {
					if n := namedOf(sig.Recv().Type()); n != nil {
						if _, isIface := n.Underlying().(*types.Interface); isIface {
							return "", nil
						}
						return c.p.name + "." + n.Obj().Name() + "." + f.Name(), f
					}
				}
			}
		}
	}
	return "", nil
}

func calleeText(fun ast.Expr) string {
	fun = unparen(fun)
	if s, ok := fun.(*ast.SelectorExpr); ok {
		if id, ok := s.X.(*ast.Ident); ok {
			return id.Name + "." + s.Sel.Name
		}
		return "." + s.Sel.Name
	}
	if id, ok := fun.(*ast.Ident); ok {
		return id.Name
	}
	return ""
}

// async analyses a closure body as a separate pseudo-function (root, no locks held).
func (c *fctx) async(lit *ast.FuncLit, why string) {
	c.a.pseudo++
	id := fmt.Sprintf("%s$%s%d", c.fn, why, c.a.pseudo)
	c.a.funcs[id] = c.pos(lit)
	c.a.roots[id] = true
	n := &fctx{a: c.a, p: c.p, fn: id, fresh: c.fresh, closures: c.closures, aliases: c.aliases, handles: c.handles, depth: c.depth + 1}
	n.body(lit.Body, state{})
}

func (c *fctx) asyncCall(call *ast.CallExpr, why string) {
	// `go f(args)`: args are evaluated by the caller (handled by the caller); the call itself runs with no locks
	c.a.pseudo++
	id := fmt.Sprintf("%s$%s%d", c.fn, why, c.a.pseudo)
	c.a.funcs[id] = c.pos(call)
	c.a.roots[id] = true
	n := &fctx{a: c.a, p: c.p, fn: id, fresh: c.fresh, closures: c.closures, aliases: c.aliases, handles: c.handles, depth: c.depth + 1}
	n.call(call, state{}, true)
}

// body walks a function body in a fresh balance scope.
func (c *fctx) body(b *ast.BlockStmt, st state) {
	c.firstBal = len(c.a.bals)
	out, term := c.block(b.List, st)
	if !term {
		c.exit(out, b.Rbrace)
	}
}

// exit: a function exit is reached with state st
func (c *fctx) exit(st state, pos token.Pos) {
	for _, h := range st {
		if h.site >= c.firstBal && !h.deferred {
			c.a.bals[h.site].how = "leaked"
		}
	}
}

func (c *fctx) block(stmts []ast.Stmt, st state) (state, bool) {
	for _, s := range stmts {
		var term bool
		st, term = c.stmt(s, st)
		if term {
			return st, true
		}
	}
	return st, false
}

func (c *fctx) acquire(x ast.Expr, op string, st state, n ast.Node) state {
	name := c.lockName(x)
	mode := "excl"
	if op == "RLock" {
		mode = "shared"
	}
	c.a.events = append(c.a.events, acqEvent{fn: c.fn, lock: name, held: heldList(st), pos: c.pos(n)})
	st = st.clone()
	c.a.bals = append(c.a.bals, bal{fn: c.fn, lock: name, mode: mode, how: "matched", pos: c.pos(n)})
	st[name] = held{mode: mode, site: len(c.a.bals) - 1}
	return st
}

func (c *fctx) release(x ast.Expr, op string, st state, n ast.Node, deferred bool) state {
	mode := "excl"
	if op == "RUnlock" {
		mode = "shared"
	}
	return c.releaseName(c.lockName(x), mode, st, n, deferred)
}

// releaseName: every lock must be released exactly once on every path — a deferred release XOR explicit ones.
func (c *fctx) releaseName(name, mode string, st state, n ast.Node, deferred bool) state {
	h, ok := st[name]
	if !ok || h.mode != mode {
		c.a.bals = append(c.a.bals, bal{fn: c.fn, lock: name, mode: mode, how: "unheld", pos: c.pos(n)})
		return st
	}
	st = st.clone()
	if deferred {
		if h.deferred {
			// a second deferred release of the same acquisition
			c.a.bals = append(c.a.bals, bal{fn: c.fn, lock: name, mode: mode, how: "unheld", pos: c.pos(n)})
		}
		h.deferred = true
		st[name] = h
		if h.site >= 0 {
			c.a.bals[h.site].how = "deferred"
		}
	} else {
		if h.deferred {
			// explicit release although the release is already deferred: the deferred one releases an unheld lock
			c.a.bals = append(c.a.bals, bal{fn: c.fn, lock: name, mode: mode, how: "unheld", pos: c.pos(n)})
		}
		delete(st, name)
	}
	return st
}

// keyedWrapperCall: `recv.lockPod(..)` / `lockPod(..)` — a call of a wrapper that locks and returns the unlock closure
func (c *fctx) keyedWrapperCall(e ast.Expr) (call *ast.CallExpr, name string, ok bool) {
	call, isCall := unparen(e).(*ast.CallExpr)
	if !isCall {
		return nil, "", false
	}
	switch f := unparen(call.Fun).(type) {
	case *ast.SelectorExpr:
		if keyedWrappers[f.Sel.Name] {
			return call, "keyed:" + c.p.name + "." + f.Sel.Name, true
		}
	case *ast.Ident:
		if keyedWrappers[f.Name] {
			return call, "keyed:" + c.p.name + "." + f.Name, true
		}
	}
	return nil, "", false
}

// handleOf: is this expression a local variable that holds the unlock closure of a keyed lock?
func (c *fctx) handleOf(e ast.Expr) (string, bool) {
	id, ok := unparen(e).(*ast.Ident)
	if !ok {
		return "", false
	}
	obj := c.p.info.Uses[id]
	if obj == nil {
		return "", false
	}
	name, ok := c.handles[obj]
	return name, ok
}

func deferredOnly(st state) state {
	n := state{}
	for k, v := range st {
		if v.deferred {
			n[k] = v
		}
	}
	return n
}

func (c *fctx) stmt(s ast.Stmt, st state) (state, bool) {
	switch v := s.(type) {
	case nil:
		return st, false
	case *ast.ExprStmt:
		if call, ok := unparen(v.X).(*ast.CallExpr); ok {
			if x, op, ok := lockOp(call); ok {
				if op == "Lock" || op == "RLock" {
					return c.acquire(x, op, st, call), false
				}
				return c.release(x, op, st, call, false), false
			}
			if id, ok := call.Fun.(*ast.Ident); ok && id.Name == "panic" {
				c.exprs(st, call.Args...)
				return st, true
			}
			// immediately invoked closure: inline
			if lit, ok := unparen(call.Fun).(*ast.FuncLit); ok {
				c.exprs(st, call.Args...)
				return c.inline(lit, st), false
			}
			// u() where u := recv.lockPod(..): explicit release of the keyed lock
			if name, ok := c.handleOf(call.Fun); ok && len(call.Args) == 0 {
				return c.releaseName(name, "excl", st, call, false), false
			}
			// recv.lockPod(..)() as a statement: locked and released at once
			if inner, _, ok := c.keyedWrapperCall(call.Fun); ok && len(call.Args) == 0 {
				c.exprs(st, inner.Args...)
				return st, false
			}
			// recv.lockPod(..) as a statement: the unlock closure is dropped, the lock can never be released
			if inner, name, ok := c.keyedWrapperCall(call); ok {
				c.exprs(st, inner.Args...)
				c.a.bals = append(c.a.bals, bal{fn: c.fn, lock: name, mode: "excl", how: "leaked", pos: c.pos(call)})
				return st, false
			}
		}
		c.expr(v.X, st)
		if call, ok := unparen(v.X).(*ast.CallExpr); ok {
			// a call that went through `once.Do` (directly, or a function whose body starts with it) orders everything after it
			// behind the initialisation: the rest of the function holds the once pseudo lock SHARED
			once := ""
			if sel, ok := unparen(call.Fun).(*ast.SelectorExpr); ok && sel.Sel.Name == "Do" {
				once = c.onceName(call.Fun)
			}
			if id, _ := c.localFunc(call.Fun); id != "" && c.a.ensurers[id] != "" {
				once = c.a.ensurers[id]
			}
			if once != "" {
				if _, held0 := st[once]; !held0 {
					st = st.clone()
					st[once] = held{mode: "shared", deferred: true, site: -1}
				}
			}
		}
		return st, false
	case *ast.DeferStmt:
		call := v.Call
		if x, op, ok := lockOp(call); ok {
			if op == "Unlock" || op == "RUnlock" {
				return c.release(x, op, st, call, true), false
			}
			c.a.fail("%s: deferred %s", c.pos(call), op)
			return st, false
		}
		// defer wrapper(..)()  — keyed lock scope
		if inner, ok := unparen(call.Fun).(*ast.CallExpr); ok {
			if sel, ok := unparen(inner.Fun).(*ast.SelectorExpr); ok && keyedWrappers[sel.Sel.Name] {
				c.exprs(st, inner.Args...)
				c.expr(sel.X, st)
				name := "keyed:" + c.p.name + "." + sel.Sel.Name
				c.a.events = append(c.a.events, acqEvent{fn: c.fn, lock: name, held: heldList(st), pos: c.pos(call)})
				st = st.clone()
				c.a.bals = append(c.a.bals, bal{fn: c.fn, lock: name, mode: "excl", how: "deferred", pos: c.pos(call)})
				st[name] = held{mode: "excl", deferred: true, site: len(c.a.bals) - 1}
				return st, false
			}
		}
		if name, ok := c.handleOf(call.Fun); ok && len(call.Args) == 0 {
			return c.releaseName(name, "excl", st, call, true), false
		}
		if lit, ok := unparen(call.Fun).(*ast.FuncLit); ok {
			c.exprs(st, call.Args...)
			// runs at exit, before the unlocks that were deferred earlier
			n := &fctx{a: c.a, p: c.p, fn: c.fn, fresh: c.fresh, closures: c.closures, aliases: c.aliases, handles: c.handles, depth: c.depth + 1}
			n.body(lit.Body, deferredOnly(st))
			return st, false
		}
		// defer f(args): the call runs at exit with the earlier-deferred locks
		c.exprs(st, call.Args...)
		c.call(call, deferredOnly(st), true)
		return st, false
	case *ast.GoStmt:
		call := v.Call
		for _, a := range call.Args {
			if _, isLit := unparen(a).(*ast.FuncLit); !isLit {
				c.expr(a, st)
			}
		}
		if lit, ok := unparen(call.Fun).(*ast.FuncLit); ok {
			c.async(lit, "go")
			return st, false
		}
		// go wait.Until(func(){..}, ..) : closure arguments run asynchronously
		hasLit := false
		for _, a := range call.Args {
			if lit, ok := unparen(a).(*ast.FuncLit); ok {
				hasLit = true
				c.async(lit, "go")
			}
		}
		if id, ok := unparen(call.Fun).(*ast.Ident); ok {
			if lit := c.closures[c.p.info.Uses[id]]; lit != nil {
				c.async(lit, "go")
				return st, false
			}
		}
		if !hasLit {
			c.asyncCall(call, "go")
		} else if sel, ok := unparen(call.Fun).(*ast.SelectorExpr); ok {
			c.expr(sel.X, st)
		}
		return st, false
	case *ast.AssignStmt:
		// closures bound to local names are analysed at their calls
		if len(v.Lhs) == 1 && len(v.Rhs) == 1 {
			if lit, ok := unparen(v.Rhs[0]).(*ast.FuncLit); ok {
				if id, ok := v.Lhs[0].(*ast.Ident); ok {
					obj := c.p.info.Defs[id]
					if obj == nil {
						obj = c.p.info.Uses[id]
					}
					if obj != nil {
						c.closures[obj] = lit
						return st, false
					}
				}
			}
		}
		if len(v.Lhs) == 1 && len(v.Rhs) == 1 {
			if inner, name, ok := c.keyedWrapperCall(v.Rhs[0]); ok {
				if id, ok := v.Lhs[0].(*ast.Ident); ok {
					obj := c.p.info.Defs[id]
					if obj == nil {
						obj = c.p.info.Uses[id]
					}
					if obj != nil {
						c.exprs(st, inner.Args...)
						if sel, ok := unparen(inner.Fun).(*ast.SelectorExpr); ok {
							c.expr(sel.X, st)
						}
						c.handles[obj] = name
						c.a.events = append(c.a.events, acqEvent{fn: c.fn, lock: name, held: heldList(st), pos: c.pos(inner)})
						st = st.clone()
						c.a.bals = append(c.a.bals, bal{fn: c.fn, lock: name, mode: "excl", how: "matched", pos: c.pos(inner)})
						st[name] = held{mode: "excl", site: len(c.a.bals) - 1}
						return st, false
					}
				}
			}
		}
		for _, r := range v.Rhs {
			c.expr(r, st)
		}
		for i, l := range v.Lhs {
			c.lhs(l, st)
			// freshness / aliases of newly bound names
			if id, ok := l.(*ast.Ident); ok {
				obj := c.p.info.Defs[id]
				if obj == nil {
					obj = c.p.info.Uses[id]
				}
				if obj == nil {
					continue
				}
				var rhs ast.Expr
				if len(v.Rhs) == len(v.Lhs) {
					rhs = v.Rhs[i]
				} else if i == 0 && len(v.Rhs) == 1 {
					rhs = v.Rhs[0]
				}
				if rhs != nil {
					if c.freshExpr(rhs) {
						c.fresh[obj] = true
					} else if v.Tok == token.ASSIGN {
						delete(c.fresh, obj)
					}
					if ix, ok := unparen(rhs).(*ast.IndexExpr); ok {
						if sel, ok := unparen(ix.X).(*ast.SelectorExpr); ok {
							if loc, ok := c.trackedField(sel); ok && elemLoc[loc] != "" {
								c.aliases[obj] = elemLoc[loc]
							}
						}
					}
				}
			}
		}
		return st, false
	case *ast.IncDecStmt:
		c.lhs(v.X, st)
		return st, false
	case *ast.DeclStmt:
		if gd, ok := v.Decl.(*ast.GenDecl); ok {
			for _, sp := range gd.Specs {
				if vs, ok := sp.(*ast.ValueSpec); ok {
					for i, val := range vs.Values {
						c.expr(val, st)
						if i < len(vs.Names) && c.freshExpr(val) {
							if obj := c.p.info.Defs[vs.Names[i]]; obj != nil {
								c.fresh[obj] = true
							}
						}
					}
				}
			}
		}
		return st, false
	case *ast.ReturnStmt:
		for _, r := range v.Results {
			if lit, ok := unparen(r).(*ast.FuncLit); ok {
				c.async(lit, "ret")
				continue
			}
			c.expr(r, st)
		}
		c.exit(st, v.Pos())
		return st, true
	case *ast.BranchStmt:
		// break / continue / goto: the rest of the block is not reached on this path
		return st, true
	case *ast.BlockStmt:
		return c.block(v.List, st)
	case *ast.LabeledStmt:
		return c.stmt(v.Stmt, st)
	case *ast.IfStmt:
		st, _ = c.stmt(v.Init, st)
		c.expr(v.Cond, st)
		s1, t1 := c.block(v.Body.List, st)
		s2, t2 := st, false
		if v.Else != nil {
			s2, t2 = c.stmt(v.Else, st)
		}
		switch {
		case t1 && t2:
			return st, true
		case t1:
			return s2, false
		case t2:
			return s1, false
		}
		return intersect(s1, s2), false
	case *ast.ForStmt:
		st, _ = c.stmt(v.Init, st)
		if v.Cond != nil {
			c.expr(v.Cond, st)
		}
		s1, t1 := c.block(v.Body.List, st)
		entry := st
		if !t1 {
			entry = intersect(st, s1)
			if len(entry) != len(st) {
				// the body releases a lock it did not take: second pass with the weaker entry state
				c.block(v.Body.List, entry)
			}
		}
		c.stmt(v.Post, entry)
		if v.Cond == nil && !hasBreak(v.Body) {
			return entry, true // for { } without break never falls through
		}
		return entry, false
	case *ast.RangeStmt:
		c.rangeExpr(v, st)
		if v.Key != nil {
			c.lhs(v.Key, st)
		}
		if v.Value != nil {
			c.lhs(v.Value, st)
		}
		s1, t1 := c.block(v.Body.List, st)
		entry := st
		if !t1 {
			entry = intersect(st, s1)
			if len(entry) != len(st) {
				c.block(v.Body.List, entry)
			}
		}
		return entry, false
	case *ast.SwitchStmt:
		st, _ = c.stmt(v.Init, st)
		if v.Tag != nil {
			c.expr(v.Tag, st)
		}
		return c.clauses(v.Body, st, true)
	case *ast.TypeSwitchStmt:
		st, _ = c.stmt(v.Init, st)
		st, _ = c.stmt(v.Assign, st)
		return c.clauses(v.Body, st, true)
	case *ast.SelectStmt:
		return c.clauses(v.Body, st, false)
	case *ast.SendStmt:
		c.expr(v.Chan, st)
		c.expr(v.Value, st)
		return st, false
	case *ast.EmptyStmt:
		return st, false
	}
	c.a.fail("%s: unsupported statement %T", c.pos(s), s)
	return st, false
}

func hasBreak(b *ast.BlockStmt) bool {
	found := false
	ast.Inspect(b, func(n ast.Node) bool {
		switch v := n.(type) {
		case *ast.BranchStmt:
			if v.Tok == token.BREAK || v.Tok == token.GOTO {
				found = true
			}
		case *ast.FuncLit:
			return false
		}
		return !found
	})
	return found
}

func (c *fctx) clauses(body *ast.BlockStmt, st state, mayFallThroughAll bool) (state, bool) {
	var outs []state
	hasDefault := false
	for _, cl := range body.List {
		var stmts []ast.Stmt
		cst := st
		switch v := cl.(type) {
		case *ast.CaseClause:
			if v.List == nil {
				hasDefault = true
			}
			for _, e := range v.List {
				c.expr(e, st)
			}
			stmts = v.Body
		case *ast.CommClause:
			if v.Comm == nil {
				hasDefault = true
			} else {
				cst, _ = c.stmt(v.Comm, st)
			}
			stmts = v.Body
		}
		s1, t1 := c.block(stmts, cst)
		// a `break` inside a case terminates the block but leaves the switch: treat as fallthrough with s1
		if !t1 || endsWithBreak(stmts) {
			outs = append(outs, s1)
		}
	}
	if !hasDefault && mayFallThroughAll {
		outs = append(outs, st)
	}
	if len(outs) == 0 {
		return st, len(body.List) > 0
	}
	out := outs[0]
	for _, o := range outs[1:] {
		out = intersect(out, o)
	}
	return out, false
}

func endsWithBreak(stmts []ast.Stmt) bool {
	if len(stmts) == 0 {
		return false
	}
	b, ok := stmts[len(stmts)-1].(*ast.BranchStmt)
	return ok && b.Tok == token.BREAK && b.Label == nil
}

// inline analyses a synchronous closure with the current locks; locks taken and released inside stay inside.
func (c *fctx) inline(lit *ast.FuncLit, st state) state {
	if c.depth > 8 {
		c.a.fail("%s: closure nesting too deep", c.pos(lit))
		return st
	}
	n := &fctx{a: c.a, p: c.p, fn: c.fn, fresh: c.fresh, closures: c.closures, aliases: c.aliases, handles: c.handles, depth: c.depth + 1}
	// the closure's own deferred unlocks are its own business: mark the outer locks as deferred for its scope
	inner := state{}
	for k, v := range st {
		v.deferred = true
		inner[k] = v
	}
	n.body(lit.Body, inner)
	return st
}

func (c *fctx) rangeExpr(v *ast.RangeStmt, st state) {
	x := unparen(v.X)
	if id, ok := x.(*ast.Ident); ok {
		if loc := c.aliases[c.p.info.Uses[id]]; loc != "" {
			c.record(loc, "read", st, id)
			return
		}
	}
	if sel, ok := x.(*ast.SelectorExpr); ok {
		if loc, ok := c.trackedField(sel); ok && elemLoc[loc] != "" && v.Value != nil {
			if id, ok := v.Value.(*ast.Ident); ok {
				if obj := c.p.info.Defs[id]; obj != nil {
					c.aliases[obj] = elemLoc[loc]
				}
			}
		}
	}
	c.expr(v.X, st)
}

func (c *fctx) exprs(st state, es ...ast.Expr) {
	for _, e := range es {
		c.expr(e, st)
	}
}

// lhs: an expression in assignment position
func (c *fctx) lhs(e ast.Expr, st state) {
	e = unparen(e)
	switch v := e.(type) {
	case *ast.Ident:
		return
	case *ast.SelectorExpr:
		if loc, ok := c.trackedField(v); ok {
			c.record(loc, "write", st, v)
			c.expr(v.X, st)
			return
		}
		c.expr(v.X, st)
	case *ast.IndexExpr:
		c.expr(v.Index, st)
		base := unparen(v.X)
		if sel, ok := base.(*ast.SelectorExpr); ok {
			if loc, ok := c.trackedField(sel); ok {
				c.record(loc, "write", st, sel)
				c.expr(sel.X, st)
				return
			}
		}
		if id, ok := base.(*ast.Ident); ok {
			if loc := c.aliases[c.p.info.Uses[id]]; loc != "" {
				c.record(loc, "write", st, id)
				return
			}
		}
		// x.f[i][j] = v : write to the element of x.f[i]
		if ix, ok := base.(*ast.IndexExpr); ok {
			if sel, ok := unparen(ix.X).(*ast.SelectorExpr); ok {
				if loc, ok := c.trackedField(sel); ok && elemLoc[loc] != "" {
					c.record(elemLoc[loc], "write", st, sel)
				}
			}
		}
		c.expr(v.X, st)
	case *ast.StarExpr:
		c.expr(v.X, st)
	default:
		c.expr(e, st)
	}
}

// expr: an expression in read position
func (c *fctx) expr(e ast.Expr, st state) {
	if e == nil {
		return
	}
	switch v := e.(type) {
	case *ast.Ident:
		if obj := c.p.info.Uses[v]; obj != nil {
			if loc := c.aliases[obj]; loc != "" {
				// an alias used in any way we do not understand escapes: the element may be written elsewhere
				c.record(loc, "write", st, v)
			}
			if f, ok := obj.(*types.Func); ok && f.Pkg() == c.p.pkg {
				c.a.roots[c.p.name+"."+f.Name()] = true // function value
			}
			if c.closures[obj] != nil {
				c.a.fail("%s: local closure %s used as a value", c.pos(v), v.Name)
			}
		}
	case *ast.ParenExpr:
		c.expr(v.X, st)
	case *ast.SelectorExpr:
		if loc, ok := c.trackedField(v); ok {
			c.record(loc, "read", st, v)
		} else if s := c.p.info.Selections[v]; s != nil && s.Kind() == types.MethodVal {
			// method value (not in call position): the method can be called from anywhere
			if id, _ := c.localFunc(v); id != "" {
				c.a.roots[id] = true
			}
		}
		c.expr(v.X, st)
	case *ast.StarExpr:
		// *p where p is a (non fresh) pointer to a summarised type: reads every field
		if tv, ok := c.p.info.Types[v.X]; ok && isPointer(tv.Type) {
			if tn := c.typeName(tv.Type); tn != "" {
				if spec := trackedTypes[tn]; spec != nil && spec.summarise && !c.isFresh(v.X) {
					for _, f := range sortedKeys(spec.fields) {
						c.record(tn+"."+f, "read", st, v)
					}
				}
			}
		}
		c.expr(v.X, st)
	case *ast.UnaryExpr:
		if v.Op == token.AND {
			if sel, ok := unparen(v.X).(*ast.SelectorExpr); ok {
				if loc, ok := c.trackedField(sel); ok {
					// the address escapes to the callee: it may read and write through it during the call
					c.record(loc, "read", st, sel)
					c.record(loc, "write", st, sel)
					c.expr(sel.X, st)
					return
				}
			}
		}
		c.expr(v.X, st)
	case *ast.BinaryExpr:
		c.expr(v.X, st)
		c.expr(v.Y, st)
	case *ast.IndexExpr:
		if id, ok := unparen(v.X).(*ast.Ident); ok {
			if loc := c.aliases[c.p.info.Uses[id]]; loc != "" {
				c.record(loc, "read", st, id)
				c.expr(v.Index, st)
				return
			}
		}
		c.expr(v.X, st)
		c.expr(v.Index, st)
	case *ast.SliceExpr:
		c.expr(v.X, st)
		c.exprs(st, v.Low, v.High, v.Max)
	case *ast.TypeAssertExpr:
		c.expr(v.X, st)
	case *ast.KeyValueExpr:
		c.expr(v.Value, st)
	case *ast.CompositeLit:
		for _, el := range v.Elts {
			if kv, ok := el.(*ast.KeyValueExpr); ok {
				el = kv.Value
			}
			if lit, ok := unparen(el).(*ast.FuncLit); ok {
				c.async(lit, "cb") // stored callback
				continue
			}
			c.expr(el, st)
		}
	case *ast.FuncLit:
		// a closure in a position we have no rule for
		c.a.fail("%s: closure in unsupported position", c.pos(v))
	case *ast.CallExpr:
		c.call(v, st, false)
	case *ast.BasicLit, *ast.ArrayType, *ast.MapType, *ast.ChanType, *ast.FuncType, *ast.StructType, *ast.InterfaceType, *ast.Ellipsis:
	default:
		c.a.fail("%s: unsupported expression %T", c.pos(e), e)
	}
}

func sortedKeys(m map[string]guard) []string {
	var ks []string
	for k := range m {
		ks = append(ks, k)
	}
	sort.Strings(ks)
	return ks
}

// call: argsDone = arguments were already visited by the caller
func (c *fctx) call(call *ast.CallExpr, st state, argsDone bool) {
	if _, _, ok := lockOp(call); ok {
		if _, isMutexLike := call.Fun.(*ast.SelectorExpr); isMutexLike {
			// a lock operation outside statement position (e.g. in an if-init): not translatable
			c.a.fail("%s: lock operation in expression position", c.pos(call))
			return
		}
	}
	fun := unparen(call.Fun)
	// builtins with write semantics
	if id, ok := fun.(*ast.Ident); ok {
		if _, isBuiltin := c.p.info.Uses[id].(*types.Builtin); isBuiltin || c.p.info.Uses[id] == nil {
			switch id.Name {
			case "delete":
				if len(call.Args) == 2 {
					c.lhs(&ast.IndexExpr{X: call.Args[0], Index: call.Args[1]}, st)
					return
				}
			case "len", "cap":
				if len(call.Args) == 1 {
					if aid, ok := unparen(call.Args[0]).(*ast.Ident); ok {
						if loc := c.aliases[c.p.info.Uses[aid]]; loc != "" {
							c.record(loc, "read", st, aid)
							return
						}
					}
				}
			}
		}
		// call of a local closure variable: analyse the closure here
		if lit := c.closures[c.p.info.Uses[id]]; lit != nil {
			if !argsDone {
				c.exprs(st, call.Args...)
			}
			c.inline(lit, st)
			return
		}
	}
	// immediately invoked closure in expression position
	if lit, ok := fun.(*ast.FuncLit); ok {
		if !argsDone {
			c.exprs(st, call.Args...)
		}
		c.inline(lit, st)
		return
	}
	id, fobj := c.localFunc(fun)
	text := calleeText(fun)
	// closure arguments
	for _, a := range call.Args {
		lit, ok := unparen(a).(*ast.FuncLit)
		if !ok {
			if !argsDone {
				c.expr(a, st)
			}
			continue
		}
		switch {
		case id != "" || syncHO[text]:
			c.inline(lit, st)
		case strings.HasSuffix(text, ".Do") && c.onceName(fun) != "":
			inner := st.clone()
			inner[c.onceName(fun)] = held{mode: "excl", deferred: true, site: -1}
			c.inline(lit, inner)
		case asyncHO[text]:
			c.async(lit, "cb") // stored and called later, from another goroutine
		default:
			c.a.fail("%s: closure passed to unknown higher-order function %s", c.pos(call), text)
		}
	}
	// the callee expression itself (receiver chain)
	switch f := fun.(type) {
	case *ast.SelectorExpr:
		// summarised methods: replay the receiver accesses here
		if id != "" && fobj != nil {
			sig := fobj.Type().(*types.Signature)
			if sig.Recv() != nil {
				tn := c.typeName(sig.Recv().Type())
				if spec := trackedTypes[tn]; spec != nil && spec.summarise {
					if tv, ok := c.p.info.Types[f.X]; ok && isPointer(tv.Type) && !c.isFresh(f.X) {
						if !isPointer(sig.Recv().Type()) {
							for _, fl := range sortedKeys(spec.fields) {
								c.record(tn+"."+fl, "read", st, call)
							}
						}
						for _, fk := range c.a.summaries[id] {
							c.record(fk[0], fk[1], st, call)
						}
					}
					c.expr(f.X, st)
					return
				}
			}
		}
		c.expr(f.X, st)
	case *ast.Ident:
	case *ast.CallExpr:
		c.call(f, st, false)
	case *ast.ArrayType, *ast.MapType, *ast.InterfaceType, *ast.ChanType, *ast.FuncType, *ast.StarExpr, *ast.IndexExpr:
		// conversion / generic instantiation
	default:
		c.a.fail("%s: unsupported callee %T", c.pos(call), fun)
	}
	if id != "" {
		c.a.sites = append(c.a.sites, callSite{callee: id, caller: c.fn, held: heldList(st), pos: c.pos(call)})
		if _, ok := confined[id]; ok {
			c.a.confCallers = append(c.a.confCallers, id+"<-"+c.fn)
		}
	}
}

func (c *fctx) onceName(fun ast.Expr) string {
	sel, ok := fun.(*ast.SelectorExpr)
	if !ok {
		return ""
	}
	if inner, ok := unparen(sel.X).(*ast.SelectorExpr); ok {
		if s := c.p.info.Selections[inner]; s != nil && s.Kind() == types.FieldVal {
			if tn := c.typeName(s.Recv()); tn != "" {
				return "once:" + tn + "." + inner.Sel.Name
			}
		}
	}
	return ""
}

// ---------------------------------------------------------------- per package

func funcID(p *pkgInfo, fd *ast.FuncDecl) (id string, recvType string) {
	if fd.Recv != nil && len(fd.Recv.List) == 1 {
		t := fd.Recv.List[0].Type
		if s, ok := t.(*ast.StarExpr); ok {
			t = s.X
		}
		if idt, ok := t.(*ast.Ident); ok {
			return p.name + "." + idt.Name + "." + fd.Name.Name, p.name + "." + idt.Name
		}
	}
	return p.name + "." + fd.Name.Name, ""
}

func (a *analysis) analysePkg(p *pkgInfo) {
	// pass 0: summaries of methods of summarised types (receiver field accesses)
	type decl struct {
		fd   *ast.FuncDecl
		id   string
		recv string
	}
	var decls []decl
	for _, f := range p.files {
		for _, d := range f.Decls {
			fd, ok := d.(*ast.FuncDecl)
			if !ok || fd.Body == nil {
				continue
			}
			id, recv := funcID(p, fd)
			decls = append(decls, decl{fd, id, recv})
		}
	}
	for _, d := range decls {
		spec := trackedTypes[d.recv]
		if spec == nil || !spec.summarise {
			continue
		}
		// receiver object
		var recvObj types.Object
		if names := d.fd.Recv.List[0].Names; len(names) == 1 {
			recvObj = p.info.Defs[names[0]]
		}
		seen := map[[2]string]bool{}
		var sum [][2]string
		var visit func(n ast.Node, write bool)
		onSel := func(sel *ast.SelectorExpr, kind string) {
			id, ok := unparen(sel.X).(*ast.Ident)
			if !ok || p.info.Uses[id] != recvObj || recvObj == nil {
				return
			}
			if _, listed := spec.fields[sel.Sel.Name]; !listed {
				return
			}
			k := [2]string{d.recv + "." + sel.Sel.Name, kind}
			if !seen[k] {
				seen[k] = true
				sum = append(sum, k)
			}
		}
		visit = func(n ast.Node, write bool) {}
		_ = visit
		ast.Inspect(d.fd.Body, func(n ast.Node) bool {
			switch v := n.(type) {
			case *ast.AssignStmt:
				for _, l := range v.Lhs {
					if sel, ok := unparen(l).(*ast.SelectorExpr); ok {
						onSel(sel, "write")
					} else if ix, ok := unparen(l).(*ast.IndexExpr); ok {
						if sel, ok := unparen(ix.X).(*ast.SelectorExpr); ok {
							onSel(sel, "write")
						}
					}
				}
				for _, r := range v.Rhs {
					ast.Inspect(r, func(m ast.Node) bool {
						if sel, ok := m.(*ast.SelectorExpr); ok {
							onSel(sel, "read")
						}
						return true
					})
				}
				return false
			case *ast.SelectorExpr:
				onSel(v, "read")
			}
			return true
		})
		sort.Slice(sum, func(i, j int) bool { return sum[i][0]+sum[i][1] < sum[j][0]+sum[j][1] })
		a.summaries[d.id] = sum
	}
	// once-ensuring functions: a top-level statement of the body is `recv.<once>.Do(func)`
	if a.ensurers == nil {
		a.ensurers = map[string]string{}
	}
	for _, d := range decls {
		c := &fctx{a: a, p: p, fn: d.id}
		for _, st := range d.fd.Body.List {
			es, ok := st.(*ast.ExprStmt)
			if !ok {
				continue
			}
			call, ok := unparen(es.X).(*ast.CallExpr)
			if !ok {
				continue
			}
			if sel, ok := unparen(call.Fun).(*ast.SelectorExpr); ok && sel.Sel.Name == "Do" {
				if once := c.onceName(call.Fun); once != "" {
					a.ensurers[d.id] = once
				}
			}
		}
	}
	// pass 1: walk every function
	for _, d := range decls {
		if spec := trackedTypes[d.recv]; spec != nil && spec.summarise {
			continue
		}
		a.funcs[d.id] = func() string {
			ps := p.fset.Position(d.fd.Pos())
			rel, _ := filepath.Rel(a.repo, ps.Filename)
			return fmt.Sprintf("%s:%d", rel, ps.Line)
		}()
		if ast.IsExported(d.fd.Name.Name) || d.fd.Name.Name == "main" || d.fd.Name.Name == "init" {
			a.roots[d.id] = true
			a.exported[d.id] = true
		}
		c := &fctx{a: a, p: p, fn: d.id, fresh: map[types.Object]bool{}, closures: map[types.Object]*ast.FuncLit{},
			aliases: map[types.Object]string{}, handles: map[types.Object]string{}}
		st := state{}
		if pl, ok := confined[d.id]; ok {
			st[pl] = held{mode: "excl", deferred: true, site: -1}
		}
		c.body(d.fd.Body, st)
	}
}

// ---------------------------------------------------------------- fixpoint + emission

type heldSet map[string]string // lock -> mode

func toSet(h [][2]string) heldSet {
	s := heldSet{}
	for _, x := range h {
		if s[x[0]] != "excl" {
			s[x[0]] = x[1]
		}
	}
	return s
}

// meet: locks held on both sides, with the weaker mode
func meet(a, b heldSet) heldSet {
	n := heldSet{}
	for l, m := range a {
		if m2, ok := b[l]; ok {
			if m == "shared" || m2 == "shared" {
				n[l] = "shared"
			} else {
				n[l] = "excl"
			}
		}
	}
	return n
}

func sameSet(a, b heldSet) bool {
	if len(a) != len(b) {
		return false
	}
	for l, m := range a {
		if b[l] != m {
			return false
		}
	}
	return true
}

// analyseAll parses and walks the given package directories of the source tree.
func analyseAll(repo string, dirs []string) (*analysis, error) {
	a := &analysis{repo: repo, funcs: map[string]string{}, roots: map[string]bool{}, exported: map[string]bool{},
		summaries: map[string][][2]string{}}
	for _, dir := range dirs {
		p, err := load(repo, dir)
		if err != nil {
			return nil, err
		}
		a.pkgs = append(a.pkgs, p)
		a.analysePkg(p)
	}
	if len(a.errs) > 0 {
		return nil, fmt.Errorf("source has a shape the lockset translator cannot handle:\n  %s", strings.Join(a.errs, "\n  "))
	}
	// functions without any call site are entry points as far as we can see
	called := map[string]bool{}
	for _, s := range a.sites {
		called[s.callee] = true
	}
	for f := range a.funcs {
		if !called[f] {
			a.roots[f] = true
		}
	}
	return a, nil
}

// entrySets: greatest fixpoint of entry(f) = meet over call sites (held at site + entry(caller)), empty for roots.
func entrySets(a *analysis) map[string]heldSet {
	entry := map[string]heldSet{} // missing = TOP
	for f := range a.roots {
		entry[f] = heldSet{}
	}
	for changed := true; changed; {
		changed = false
		for f := range a.funcs {
			if a.roots[f] {
				continue
			}
			var acc heldSet
			top := true
			for _, s := range a.sites {
				if s.callee != f {
					continue
				}
				ce, known := entry[s.caller]
				if !known {
					continue // caller still TOP: contributes nothing yet
				}
				at := toSet(s.held)
				for l, m := range ce {
					if at[l] != "excl" {
						at[l] = m
					}
				}
				if top {
					acc, top = at, false
				} else {
					acc = meet(acc, at)
				}
			}
			if top {
				continue
			}
			old, had := entry[f]
			if !had || !sameSet(old, acc) {
				entry[f] = acc
				changed = true
			}
		}
	}
	for f := range a.funcs {
		if _, ok := entry[f]; !ok {
			entry[f] = heldSet{} // unreachable cycle: assume nothing
		}
	}
	return entry
}

// acquiredLocks: the locks each function acquires itself, and transitively through its (synchronous) same-package calls.
func acquiredLocks(a *analysis) (direct, trans map[string]map[string]bool) {
	direct = map[string]map[string]bool{}
	for _, bl := range a.bals {
		if bl.how == "unheld" {
			continue
		}
		if direct[bl.fn] == nil {
			direct[bl.fn] = map[string]bool{}
		}
		direct[bl.fn][bl.lock] = true
	}
	trans = map[string]map[string]bool{}
	for f, ls := range direct {
		trans[f] = map[string]bool{}
		for l := range ls {
			trans[f][l] = true
		}
	}
	for changed := true; changed; {
		changed = false
		for _, st := range a.sites {
			for l := range trans[st.callee] {
				if trans[st.caller] == nil {
					trans[st.caller] = map[string]bool{}
				}
				if !trans[st.caller][l] {
					trans[st.caller][l] = true
					changed = true
				}
			}
		}
	}
	return direct, trans
}

// reentrantCalls mirrors the Lean check `noReentrant` (used by the unit tests and for the error text only).
func reentrantCalls(a *analysis, entry map[string]heldSet) []string {
	_, trans := acquiredLocks(a)
	var out []string
	pools := keyedPools(a)
	same := func(x, y string) bool {
		if x == y {
			return true
		}
		px, ok1 := pools[x]
		py, ok2 := pools[y]
		return ok1 && ok2 && px == py
	}
	withEntry := func(fn string, held [][2]string) heldSet {
		heldAt := toSet(held)
		for l, m := range entry[fn] {
			if heldAt[l] != "excl" {
				heldAt[l] = m
			}
		}
		return heldAt
	}
	for _, st := range a.sites {
		for l := range withEntry(st.caller, st.held) {
			for t := range trans[st.callee] {
				if same(l, t) {
					out = append(out, "reentrant-lock:"+l+"@"+st.caller+"->"+st.callee)
				}
			}
		}
	}
	for _, ev := range a.events {
		for l := range withEntry(ev.fn, ev.held) {
			if same(l, ev.lock) {
				out = append(out, "reentrant-lock:"+l+"@"+ev.fn+"->"+ev.fn)
			}
		}
	}
	sort.Strings(out)
	return out
}

// keyedNestingPairs mirrors the Lean `keyedNestings` / `poolOrder` (unit tests only): "outerSite->innerSite@fn"
func keyedNestingPairs(a *analysis, entry map[string]heldSet) []string {
	_, trans := acquiredLocks(a)
	pools := keyedPools(a)
	seen := map[string]bool{}
	add := func(fn, outer, inner string) {
		po, ok1 := pools[outer]
		pi, ok2 := pools[inner]
		if ok1 && ok2 {
			seen[po+"->"+pi+"@"+fn] = true
		}
	}
	total := func(fn string, held [][2]string) heldSet {
		h := toSet(held)
		for l, m := range entry[fn] {
			if h[l] != "excl" {
				h[l] = m
			}
		}
		return h
	}
	for _, ev := range a.events {
		for l := range total(ev.fn, ev.held) {
			add(ev.fn, l, ev.lock)
		}
	}
	for _, st := range a.sites {
		for l := range total(st.caller, st.held) {
			for t := range trans[st.callee] {
				add(st.caller, l, t)
			}
		}
	}
	var out []string
	for k := range seen {
		out = append(out, k)
	}
	sort.Strings(out)
	return out
}

func gen(repo string) (map[string]string, error) {
	a, err := analyseAll(repo, pkgDirs)
	if err != nil {
		return nil, err
	}
	entry := entrySets(a)
	// the cross-package wrapper alias must still be what the server wires
	if src, err := os.ReadFile(filepath.Join(repo, "pkg/ipam/server/server.go")); err != nil ||
		!strings.Contains(strings.Join(strings.Fields(string(src)), " "), "LockPoolFunc: s.plugin.LockDpPool") {
		return nil, fmt.Errorf("pkg/ipam/server/server.go no longer wires `LockPoolFunc: s.plugin.LockDpPool` (keyed lock alias of the pool API)")
	}
	// init phase: least fixpoint from the designated roots
	initFns := map[string]bool{}
	for _, r := range initRoots {
		if _, ok := a.funcs[r]; !ok {
			return nil, fmt.Errorf("init root %s not found in the source", r)
		}
		initFns[r] = true
	}
	for changed := true; changed; {
		changed = false
		for f := range a.funcs {
			if initFns[f] || a.roots[f] {
				continue
			}
			all, any := true, false
			for _, s := range a.sites {
				if s.callee == f {
					any = true
					if !initFns[s.caller] {
						all = false
					}
				}
			}
			if any && all {
				initFns[f] = true
				changed = true
			}
		}
	}
	for f := range confined {
		if _, ok := a.funcs[f]; !ok {
			return nil, fmt.Errorf("thread-confined function %s not found in the source", f)
		}
	}

	// ---- numbering
	funcNames := make([]string, 0, len(a.funcs))
	for f := range a.funcs {
		funcNames = append(funcNames, f)
	}
	sort.Strings(funcNames)
	fnID := map[string]int{}
	for i, f := range funcNames {
		fnID[f] = i
	}
	fieldGuard := map[string]guard{}
	for tn, spec := range trackedTypes {
		for f, g := range spec.fields {
			fieldGuard[tn+"."+f] = g
		}
	}
	for l, g := range elemGuard {
		fieldGuard[l] = g
	}
	fieldSet := map[string]bool{}
	for f := range fieldGuard {
		fieldSet[f] = true
	}
	for _, ac := range a.accesses {
		fieldSet[ac.field] = true
	}
	var fieldNames []string
	for f := range fieldSet {
		fieldNames = append(fieldNames, f)
	}
	sort.Strings(fieldNames)
	fieldID := map[string]int{}
	for i, f := range fieldNames {
		fieldID[f] = i
	}
	guardFor := func(f string) guard {
		if g, ok := fieldGuard[f]; ok {
			return g
		}
		// "others" of its type
		i := strings.LastIndex(f, ".")
		if spec := trackedTypes[f[:i]]; spec != nil && spec.others != nil {
			return *spec.others
		}
		return guard{"unknown", ""}
	}
	lockSet := map[string]bool{}
	for _, f := range fieldNames {
		if g := guardFor(f); g.kind == "lock" {
			lockSet[g.lock] = true
		}
	}
	addHeld := func(h [][2]string) {
		for _, x := range h {
			lockSet[x[0]] = true
		}
	}
	for _, ac := range a.accesses {
		addHeld(ac.held)
	}
	for _, s := range a.sites {
		addHeld(s.held)
	}
	for _, b := range a.bals {
		lockSet[b.lock] = true
	}
	var lockNames []string
	for l := range lockSet {
		lockNames = append(lockNames, l)
	}
	sort.Strings(lockNames)
	lockID := map[string]int{}
	for i, l := range lockNames {
		lockID[l] = i
	}

	// ---- allow list from known_findings.d/C19.json
	allow := [][2]int{}
	var allowSigs []string
	for _, sig := range readAllow() {
		// unguarded:<field>@<func>
		body := strings.TrimPrefix(sig, "unguarded:")
		at := strings.LastIndex(body, "@")
		if at < 0 {
			continue
		}
		fi, ok1 := fieldID[body[:at]]
		fu, ok2 := fnID[body[at+1:]]
		if ok1 && ok2 {
			allow = append(allow, [2]int{fi, fu})
			allowSigs = append(allowSigs, sig)
		}
	}

	// ---- emit
	var b strings.Builder
	b.WriteString(fg.Header("M9 access table: every syntactic access of the tracked shared fields with the locks held, "+
		"call sites, entry lock sets, init phase, lock balance", pkgDirs...))
	b.WriteString("import Galaxy.Model.Lockset\n\nnamespace Galaxy.Generated.Lockset\nopen Galaxy.Lockset\n\n")
	strList := func(name string, xs []string) {
		fmt.Fprintf(&b, "def %s : List String := [\n", name)
		for i, x := range xs {
			sep := ","
			if i == len(xs)-1 {
				sep = ""
			}
			fmt.Fprintf(&b, "  %s%s  -- %d\n", fg.LeanStr(x), sep, i)
		}
		b.WriteString("]\n\n")
	}
	strList("lockNames", lockNames)
	strList("fieldNames", fieldNames)
	strList("funcNames", funcNames)
	san := func(x string) string {
		var sb strings.Builder
		for _, r := range x {
			if (r >= 'a' && r <= 'z') || (r >= 'A' && r <= 'Z') || (r >= '0' && r <= '9') {
				sb.WriteRune(r)
			} else {
				sb.WriteByte('_')
			}
		}
		return sb.String()
	}
	b.WriteString("/-! named ids (stable names for the theorems; the numbers follow the sorted name tables) -/\n")
	for i, l := range lockNames {
		fmt.Fprintf(&b, "def L_%s : Lock := %d\n", san(l), i)
	}
	for i, f := range fieldNames {
		fmt.Fprintf(&b, "def F_%s : Loc := %d\n", san(f), i)
	}
	b.WriteString("\n")
	var funcPos []string
	for _, f := range funcNames {
		funcPos = append(funcPos, a.funcs[f])
	}
	strList("funcPos", funcPos)
	heldLean := func(h [][2]string) string {
		var parts []string
		for _, x := range h {
			parts = append(parts, fmt.Sprintf("(%d, .%s)", lockID[x[0]], x[1]))
		}
		return "[" + strings.Join(parts, ", ") + "]"
	}
	b.WriteString("def guards : List (Loc × Guard) := [\n")
	for i, f := range fieldNames {
		g := guardFor(f)
		gl := "." + g.kind
		if g.kind == "lock" {
			gl = fmt.Sprintf(".lock %d", lockID[g.lock])
		}
		sep := ","
		if i == len(fieldNames)-1 {
			sep = ""
		}
		fmt.Fprintf(&b, "  (%d, %s)%s  -- %s", i, gl, sep, f)
		if g.kind == "lock" {
			fmt.Fprintf(&b, " guarded by %s", g.lock)
		}
		b.WriteString("\n")
	}
	b.WriteString("]\n\n")
	b.WriteString("def entry : List (Nat × Held) := [\n")
	first := true
	for _, f := range funcNames {
		e := entry[f]
		if len(e) == 0 {
			continue
		}
		var h [][2]string
		for l, m := range e {
			h = append(h, [2]string{l, m})
		}
		sort.Slice(h, func(i, j int) bool { return h[i][0] < h[j][0] })
		if !first {
			b.WriteString(",\n")
		}
		first = false
		fmt.Fprintf(&b, "  (%d, %s)  /- %s -/", fnID[f], heldLean(h), f)
	}
	b.WriteString("\n]\n\n")
	natList := func(name string, set map[string]bool) {
		var ids []int
		for f := range set {
			if i, ok := fnID[f]; ok {
				ids = append(ids, i)
			}
		}
		sort.Ints(ids)
		var parts []string
		for _, i := range ids {
			parts = append(parts, fmt.Sprint(i))
		}
		fmt.Fprintf(&b, "def %s : List Nat := [%s]\n\n", name, strings.Join(parts, ", "))
	}
	natList("roots", a.roots)
	natList("initFns", initFns)
	ir := map[string]bool{}
	for _, r := range initRoots {
		ir[r] = true
	}
	natList("initRoots", ir)
	strList("initRootNames", initRoots)
	sort.Strings(a.confCallers)
	strList("confinedCallers", a.confCallers)
	b.WriteString("def sites : List CallSite := [\n")
	for i, s := range a.sites {
		sep := ","
		if i == len(a.sites)-1 {
			sep = ""
		}
		fmt.Fprintf(&b, "  ⟨%d, %d, %s, %s⟩%s\n", fnID[s.callee], fnID[s.caller], heldLean(s.held), fg.LeanStr(s.pos), sep)
	}
	b.WriteString("]\n\n")
	// accesses in chunks (so that `decide` can be split if needed)
	sort.SliceStable(a.accesses, func(i, j int) bool {
		if a.accesses[i].field != a.accesses[j].field {
			return a.accesses[i].field < a.accesses[j].field
		}
		return a.accesses[i].pos < a.accesses[j].pos
	})
	b.WriteString("def accesses : List Access := [\n")
	for i, ac := range a.accesses {
		sep := ","
		if i == len(a.accesses)-1 {
			sep = ""
		}
		fmt.Fprintf(&b, "  ⟨%d, %d, .%s, %s, %s⟩%s  -- %s %s in %s\n", fnID[ac.fn], fieldID[ac.field], ac.kind,
			heldLean(ac.held), fg.LeanStr(ac.pos), sep, ac.kind, ac.field, ac.fn)
	}
	b.WriteString("]\n\n")
	b.WriteString("def allow : List (Loc × Nat) := [")
	for i, al := range allow {
		if i > 0 {
			b.WriteString(", ")
		}
		fmt.Fprintf(&b, "(%d, %d)", al[0], al[1])
	}
	b.WriteString("]\n\n")
	strList("allowSignatures", allowSigs)
	b.WriteString("def table : Table :=\n  { guards := guards, entry := entry, roots := roots, initFns := initFns, initRoots := initRoots,\n" +
		"    sites := sites, accesses := accesses, allow := allow }\n\n")
	// ---- re-entrant acquisition: locks each function acquires itself / transitively through same-package calls
	direct, trans := acquiredLocks(a)
	emitAcq := func(name string, m map[string]map[string]bool) {
		fmt.Fprintf(&b, "def %s : List (Nat × List Lock) := [\n", name)
		first := true
		for _, f := range funcNames {
			if len(m[f]) == 0 {
				continue
			}
			var ids []int
			for l := range m[f] {
				ids = append(ids, lockID[l])
			}
			sort.Ints(ids)
			var parts []string
			for _, i := range ids {
				parts = append(parts, fmt.Sprint(i))
			}
			if !first {
				b.WriteString(",\n")
			}
			first = false
			fmt.Fprintf(&b, "  (%d, [%s])  /- %s -/", fnID[f], strings.Join(parts, ", "), f)
		}
		b.WriteString("\n]\n\n")
	}
	emitAcq("acqDirect", direct)
	emitAcq("acqTrans", trans)
	var lazy []string
	for _, l := range lockNames {
		if strings.HasPrefix(l, "once:") {
			lazy = append(lazy, fmt.Sprint(lockID[l]))
		}
	}
	fmt.Fprintf(&b, "/-- the pseudo locks of sync.Once values: a field guarded by one is lazily initialised -/\ndef lazyLocks : List Lock := [%s]\n\n", strings.Join(lazy, ", "))
	var ens []string
	for f, o := range a.ensurers {
		ens = append(ens, f+" -> "+o)
	}
	sort.Strings(ens)
	strList("onceEnsurers", ens)
	b.WriteString("def acqEvents : List AcqEvent := [\n")
	for i, ev := range a.events {
		sep := ","
		if i == len(a.events)-1 {
			sep = ""
		}
		fmt.Fprintf(&b, "  ⟨%d, %d, %s, %s⟩%s  -- %s in %s\n", fnID[ev.fn], lockID[ev.lock], heldLean(ev.held), fg.LeanStr(ev.pos), sep, ev.lock, ev.fn)
	}
	b.WriteString("]\n\n")
	// ---- keyed lock pools: wrapper -> pool field -> allocation site
	pools := keyedPools(a)
	var siteNames []string
	siteID := map[string]int{}
	var poolLocks []string
	for l := range pools {
		poolLocks = append(poolLocks, l)
	}
	sort.Strings(poolLocks)
	for _, l := range poolLocks {
		if _, ok := siteID[pools[l]]; !ok {
			siteID[pools[l]] = len(siteNames)
			siteNames = append(siteNames, pools[l])
		}
	}
	strList("keyedPoolSites", siteNames)
	var poolFields []string
	for _, l := range poolLocks {
		poolFields = append(poolFields, l+" -> "+a.poolField[l]+" -> "+pools[l])
	}
	strList("keyedLockPoolNames", poolFields)
	b.WriteString("def keyedLockPools : List (Lock × Nat) := [")
	for i, l := range poolLocks {
		if i > 0 {
			b.WriteString(", ")
		}
		fmt.Fprintf(&b, "(%d, %d)", lockID[l], siteID[pools[l]])
	}
	b.WriteString("]\n\n")
	// ---- objects from a lister / informer cache
	uses := cacheObjectUses(repo, a.pkgs)
	b.WriteString("def cacheUses : List CacheUse := [\n")
	for i, u := range uses {
		sep := ","
		if i == len(uses)-1 {
			sep = ""
		}
		fi, ok := fnID[u.fn]
		if !ok {
			fi = 0
		}
		fmt.Fprintf(&b, "  ⟨%d, .%s, %s, %s⟩%s  -- %s\n", fi, u.kind, fg.LeanStr(u.what), fg.LeanStr(u.pos), sep, u.fn)
	}
	b.WriteString("]\n\n")
	b.WriteString("def balance : List Bal := [\n")
	for i, bl := range a.bals {
		sep := ","
		if i == len(a.bals)-1 {
			sep = ""
		}
		fmt.Fprintf(&b, "  ⟨%d, %d, .%s, .%s, %s⟩%s  -- %s in %s\n", fnID[bl.fn], lockID[bl.lock], bl.mode, bl.how,
			fg.LeanStr(bl.pos), sep, bl.lock, bl.fn)
	}
	b.WriteString("]\n\n")
	// method summaries of the value-like types
	var sums []string
	for m, s := range a.summaries {
		var parts []string
		for _, x := range s {
			parts = append(parts, x[1]+" "+x[0])
		}
		sums = append(sums, m+": "+strings.Join(parts, ", "))
	}
	sort.Strings(sums)
	strList("methodSummaries", sums)
	fmt.Fprintf(&b, "def numAccesses : Nat := %d\ndef numSites : Nat := %d\ndef numFuncs : Nat := %d\n\n",
		len(a.accesses), len(a.sites), len(funcNames))
	b.WriteString("end Galaxy.Generated.Lockset\n")
	return map[string]string{"Lockset.lean": b.String()}, nil
}

func readAllow() []string {
	root := os.Getenv("VERIF_ROOT")
	if root == "" {
		if exe, err := os.Executable(); err == nil {
			root = filepath.Dir(filepath.Dir(filepath.Dir(exe))) // <root>/out/bin/factgen_lockset
		}
	}
	for _, r := range []string{root, "/verif"} {
		data, err := os.ReadFile(filepath.Join(r, "known_findings.d", "C19.json"))
		if err != nil {
			continue
		}
		var kf struct {
			Findings []struct {
				Property  string `json:"property"`
				Signature string `json:"signature"`
			} `json:"findings"`
		}
		if json.Unmarshal(data, &kf) != nil {
			return nil
		}
		var out []string
		for _, f := range kf.Findings {
			if f.Property == "C19" && strings.HasPrefix(f.Signature, "unguarded:") {
				out = append(out, f.Signature)
			}
		}
		sort.Strings(out)
		return out
	}
	return nil
}

func main() { fg.Run("lockset", gen) }
