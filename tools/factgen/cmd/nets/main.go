// factgen nets: translates the straight-line integer code of pkg/utils/nets/ip.go,
// pkg/ipam/floatingip/floatingip.go (Minus, fipCheck adjacency, Less) and
// pkg/ipam/floatingip/ipam_crd.go (walkIPRanges' loop) to Lean definitions over
// BitVec 32 / BitVec 64 EXACTLY as written in the source (operator, operand
// order, integer width, conversions), plus a few structural pins (json field
// table, guard conditions of the pool decoder and of ensureIPAMConf).
//
// Typing rules of the tiny expression translator (anything else: loud failure):
//
//	IPToInt(x)              : uint32, `x` must be one of the named operands of the function
//	uint64(e) / uint32(e)   : zero-extension / truncation (BitVec.setWidth)
//	int64(e) of a uint32    : zero-extension to 64 bits, two's complement afterwards
//	e1 + e2, e1 - e2        : wrap-around arithmetic at the operands' width
//	< <= > >= == !=         : unsigned comparison at the operands' width (no int64 comparisons occur)
//	&& || !                 : Bool
//	integer literal         : takes the width of the other operand
package main

import (
	"fmt"
	"go/ast"
	"go/token"
	"os"
	"reflect"
	"strconv"
	"strings"

	"factgen/fg"
)

type ty int

const (
	tLit ty = iota
	tU32
	tU64
	tI64
	tBool
)

func (t ty) String() string {
	return [...]string{"literal", "uint32", "uint64", "int64", "bool"}[t]
}

func (t ty) bits() int {
	switch t {
	case tU32:
		return 32
	case tU64, tI64:
		return 64
	}
	return 0
}

func (t ty) lean() string {
	switch t {
	case tU32:
		return "BitVec 32"
	case tU64, tI64:
		return "BitVec 64"
	case tBool:
		return "Bool"
	}
	return "?"
}

type val struct {
	lean string
	t    ty
}

// env: how the leaves of an expression are named on the Lean side.
type env struct {
	p     *fg.Parsed
	fn    string
	ips   map[string]string // printed argument of IPToInt(...)  -> Lean parameter (uint32)
	vars  map[string]val    // Go local identifier               -> Lean term
	calls map[string]val    // printed call expression            -> Lean term (e.g. "ipr.Size()")
}

func (e *env) errf(n ast.Node, format string, a ...interface{}) error {
	return fmt.Errorf("%s: %s: %s: `%s`", e.p.Path, e.fn, fmt.Sprintf(format, a...), e.p.Src(n))
}

func isIPToInt(s string) bool { return s == "IPToInt" || s == "nets.IPToInt" }
func isIntToIP(s string) bool { return s == "IntToIP" || s == "nets.IntToIP" }

func (e *env) expr(x ast.Expr) (val, error) {
	switch n := x.(type) {
	case *ast.ParenExpr:
		return e.expr(n.X)
	case *ast.BasicLit:
		if n.Kind != token.INT {
			return val{}, e.errf(n, "unsupported literal kind")
		}
		v, err := strconv.ParseInt(n.Value, 0, 64)
		if err != nil || v < 0 {
			return val{}, e.errf(n, "unsupported integer literal")
		}
		return val{strconv.FormatInt(v, 10), tLit}, nil
	case *ast.Ident:
		if v, ok := e.vars[n.Name]; ok {
			return v, nil
		}
		return val{}, e.errf(n, "unknown identifier")
	case *ast.CallExpr:
		src := e.p.Src(n)
		if v, ok := e.calls[src]; ok {
			return v, nil
		}
		fun := e.p.Src(n.Fun)
		if len(n.Args) != 1 {
			return val{}, e.errf(n, "unsupported call")
		}
		switch {
		case isIPToInt(fun):
			key := e.p.Src(n.Args[0])
			if name, ok := e.ips[key]; ok {
				return val{name, tU32}, nil
			}
			if v, ok := e.vars[key]; ok && v.t == tU32 {
				return v, nil
			}
			return val{}, e.errf(n, "IPToInt of an operand this translator does not know")
		case isIntToIP(fun):
			a, err := e.expr(n.Args[0])
			if err != nil {
				return val{}, err
			}
			if a.t != tU32 {
				return val{}, e.errf(n, "IntToIP of a %s", a.t)
			}
			return a, nil
		case fun == "uint64" || fun == "uint32" || fun == "int64":
			a, err := e.expr(n.Args[0])
			if err != nil {
				return val{}, err
			}
			switch {
			case fun == "uint64" && a.t == tU32:
				return val{"(" + a.lean + ".setWidth 64)", tU64}, nil
			case fun == "uint64" && a.t == tU64:
				return a, nil
			case fun == "uint32" && a.t == tU64:
				return val{"(" + a.lean + ".setWidth 32)", tU32}, nil
			case fun == "uint32" && a.t == tU32:
				return a, nil
			case fun == "int64" && a.t == tU32:
				// uint32 -> int64 zero-extends; the value is kept in two's complement (BitVec 64, read with .toInt)
				return val{"(" + a.lean + ".setWidth 64)", tI64}, nil
			}
			return val{}, e.errf(n, "unsupported conversion %s of a %s", fun, a.t)
		}
		return val{}, e.errf(n, "unsupported call")
	case *ast.UnaryExpr:
		if n.Op != token.NOT {
			return val{}, e.errf(n, "unsupported unary operator %s", n.Op)
		}
		a, err := e.expr(n.X)
		if err != nil {
			return val{}, err
		}
		if a.t != tBool {
			return val{}, e.errf(n, "! of a %s", a.t)
		}
		return val{"(!" + a.lean + ")", tBool}, nil
	case *ast.BinaryExpr:
		a, err := e.expr(n.X)
		if err != nil {
			return val{}, err
		}
		b, err := e.expr(n.Y)
		if err != nil {
			return val{}, err
		}
		switch n.Op {
		case token.LAND, token.LOR:
			if a.t != tBool || b.t != tBool {
				return val{}, e.errf(n, "%s of %s and %s", n.Op, a.t, b.t)
			}
			return val{"(" + a.lean + " " + n.Op.String() + " " + b.lean + ")", tBool}, nil
		}
		// numeric: unify literal with the other side
		if a.t == tLit && b.t == tLit {
			return val{}, e.errf(n, "constant expression not supported")
		}
		if a.t == tLit {
			a = val{a.lean + "#" + strconv.Itoa(b.t.bits()), b.t}
		}
		if b.t == tLit {
			b = val{b.lean + "#" + strconv.Itoa(a.t.bits()), a.t}
		}
		if a.t != b.t || a.t == tBool {
			return val{}, e.errf(n, "operands of %s have types %s and %s", n.Op, a.t, b.t)
		}
		switch n.Op {
		case token.ADD, token.SUB:
			return val{"(" + a.lean + " " + n.Op.String() + " " + b.lean + ")", a.t}, nil
		case token.LSS, token.LEQ, token.GTR, token.GEQ, token.EQL, token.NEQ:
			if a.t == tI64 {
				return val{}, e.errf(n, "signed comparison not supported")
			}
			op := map[token.Token]string{token.LSS: "<", token.LEQ: "≤", token.GTR: ">", token.GEQ: "≥",
				token.EQL: "=", token.NEQ: "≠"}[n.Op]
			return val{"decide (" + a.lean + " " + op + " " + b.lean + ")", tBool}, nil
		}
		return val{}, e.errf(n, "unsupported binary operator %s", n.Op)
	}
	return val{}, e.errf(x, "unsupported expression form %s", reflect.TypeOf(x))
}

func (e *env) typed(x ast.Expr, want ty) (string, error) {
	v, err := e.expr(x)
	if err != nil {
		return "", err
	}
	if v.t != want {
		return "", e.errf(x, "expected a %s expression, found %s", want, v.t)
	}
	return v.lean, nil
}

func resultType(p *fg.Parsed, fd *ast.FuncDecl) string {
	if fd.Type.Results == nil || len(fd.Type.Results.List) != 1 {
		return ""
	}
	return p.Src(fd.Type.Results.List[0].Type)
}

func goTy(s string) (ty, bool) {
	switch s {
	case "uint32":
		return tU32, true
	case "uint64":
		return tU64, true
	case "int64":
		return tI64, true
	case "bool":
		return tBool, true
	}
	return 0, false
}

// singleReturn expects stmt to be `return <expr>` and returns the expression.
func singleReturn(e *env, s ast.Stmt) (ast.Expr, error) {
	r, ok := s.(*ast.ReturnStmt)
	if !ok || len(r.Results) != 1 {
		return nil, e.errf(s, "expected `return <expr>`")
	}
	return r.Results[0], nil
}

func norm(s string) string { return strings.Join(strings.Fields(s), " ") }

type out struct {
	b    strings.Builder
	pins []string
}

// pin records a structural expectation about the source text.  A failed pin does NOT stop the translation (the
// driver and the harness must keep running so that the monitors can look for a concrete failing input): it is
// emitted as `def pin_<name> : Bool := false` and the theorem `fact_pin_<name>` of Props/C20.lean stops checking.
func (o *out) pin(name, what string, ok bool, have, want string) {
	doc := what
	if !ok {
		doc += "\n    SOURCE CHANGED.\n    have: " + strings.ReplaceAll(have, "-/", "- /") + "\n    want: " + strings.ReplaceAll(want, "-/", "- /")
		fmt.Fprintf(os.Stderr, "factgen nets: pin %s failed (%s)\n  have: %s\n  want: %s\n", name, what, have, want)
	}
	o.def(doc, "pin_"+name+" : Bool", fg.LeanBool(ok))
	o.pins = append(o.pins, fmt.Sprintf("(%s, pin_%s)", fg.LeanStr(name), name))
}

func (o *out) def(doc, sig, body string) {
	fmt.Fprintf(&o.b, "/-- %s -/\ndef %s :=\n  %s\n\n", doc, sig, body)
}

// ---------------------------------------------------------------- nets/ip.go

func genIPGo(repo string, o *out) error {
	p, err := fg.ParseFile(repo, "pkg/utils/nets/ip.go")
	if err != nil {
		return err
	}
	sep, err := p.ConstString("IPRangeSeparator")
	if err != nil {
		return err
	}
	if len(sep) != 1 {
		return fmt.Errorf("%s: IPRangeSeparator %q is not a single character (the model splits on one character)", p.Path, sep)
	}
	o.def("`nets.IPRangeSeparator`", "ipRangeSeparator : String", fg.LeanStr(sep))
	o.def("`nets.IPRangeSeparator` as the character `ParseIPRange` splits on and `IPRange.String` joins with",
		"ipRangeSepChar : Char", fmt.Sprintf("Char.ofNat %d", sep[0]))

	// --- IPRange.Size
	fd, err := p.Fn("IPRange", "Size")
	if err != nil {
		return err
	}
	e := &env{p: p, fn: "IPRange.Size", ips: map[string]string{"ipr.First": "first", "ipr.Last": "last"}}
	if resultType(p, fd) != "uint32" || len(fd.Body.List) == 0 {
		return e.errf(fd.Type, "expected `func (ipr IPRange) Size() uint32` ending with one return")
	}
	var guards []string
	for _, st := range fd.Body.List[:len(fd.Body.List)-1] {
		guards = append(guards, norm(p.Src(st)))
	}
	const wantGuard = "if len(ipr.First) == 0 || len(ipr.Last) == 0 { return 0 }"
	o.pin("rangeSizeGuard", "`IPRange.Size` returns 0 for a nil First / Last and otherwise its last statement",
		strings.Join(guards, " ; ") == wantGuard, strings.Join(guards, " ; "), wantGuard)
	rx, err := singleReturn(e, fd.Body.List[len(fd.Body.List)-1])
	if err != nil {
		return err
	}
	s, err := e.typed(rx, tU32)
	if err != nil {
		return err
	}
	o.def("`IPRange.Size` (uint32, wraps): `return "+p.Src(rx)+"` (for non-nil First/Last)",
		"rangeSize (first last : BitVec 32) : BitVec 32", s)

	// --- IPRange.Contains
	fd, err = p.Fn("IPRange", "Contains")
	if err != nil {
		return err
	}
	e = &env{p: p, fn: "IPRange.Contains", ips: map[string]string{"ipr.First": "first", "ipr.Last": "last", "ip": "ip"},
		vars: map[string]val{}}
	if resultType(p, fd) != "bool" {
		return e.errf(fd.Type, "expected result type bool")
	}
	body, err := straightLine(e, fd.Body.List, tBool)
	if err != nil {
		return err
	}
	o.def("`IPRange.Contains`: "+norm(p.Src(fd.Body)), "rangeContains (first last ip : BitVec 32) : Bool", body)

	// --- SparseSubnet.Size
	fd, err = p.Fn("SparseSubnet", "Size")
	if err != nil {
		return err
	}
	e = &env{p: p, fn: "SparseSubnet.Size", vars: map[string]val{"size": {"size", tU32}},
		calls: map[string]val{"ipr.Size()": {"rsize", tU32}}}
	if resultType(p, fd) != "uint32" || len(fd.Body.List) != 3 {
		return e.errf(fd.Type, "expected `var size uint32; for … { size += ipr.Size() }; return size`")
	}
	if norm(p.Src(fd.Body.List[0])) != "var size uint32" {
		return e.errf(fd.Body.List[0], "expected `var size uint32`")
	}
	rs, ok := fd.Body.List[1].(*ast.RangeStmt)
	if !ok || norm(p.Src(rs.X)) != "subnet.IPRanges" || rs.Key == nil || p.Src(rs.Key) != "_" || rs.Value == nil ||
		p.Src(rs.Value) != "ipr" || len(rs.Body.List) != 1 {
		return e.errf(fd.Body.List[1], "expected `for _, ipr := range subnet.IPRanges { <one statement> }`")
	}
	as, ok := rs.Body.List[0].(*ast.AssignStmt)
	if !ok || len(as.Lhs) != 1 || len(as.Rhs) != 1 || p.Src(as.Lhs[0]) != "size" {
		return e.errf(rs.Body.List[0], "expected `size += ipr.Size()`")
	}
	var step ast.Expr
	switch as.Tok {
	case token.ADD_ASSIGN:
		step = &ast.BinaryExpr{X: as.Lhs[0], Op: token.ADD, Y: as.Rhs[0]}
	case token.SUB_ASSIGN:
		step = &ast.BinaryExpr{X: as.Lhs[0], Op: token.SUB, Y: as.Rhs[0]}
	case token.ASSIGN:
		step = as.Rhs[0]
	default:
		return e.errf(as, "unsupported assignment operator %s", as.Tok)
	}
	s, err = e.typed(step, tU32)
	if err != nil {
		return err
	}
	if norm(p.Src(fd.Body.List[2])) != "return size" {
		return e.errf(fd.Body.List[2], "expected `return size`")
	}
	o.def("`SparseSubnet.Size`: zero value of `var size uint32`", "sparseSizeInit : BitVec 32", "0#32")
	o.def("`SparseSubnet.Size`: loop body `"+norm(p.Src(as))+"` (uint32, wraps); `rsize` = `ipr.Size()`",
		"sparseSizeStep (size rsize : BitVec 32) : BitVec 32", s)

	// --- ParseIPRange: the order check, everything else pinned textually
	fd, err = p.Fn("", "ParseIPRange")
	if err != nil {
		return err
	}
	e = &env{p: p, fn: "ParseIPRange", ips: map[string]string{"first": "first", "last": "last"}}
	var orderIf *ast.IfStmt
	nOrder := 0
	ast.Inspect(fd.Body, func(n ast.Node) bool {
		if is, ok := n.(*ast.IfStmt); ok && strings.Contains(p.Src(is.Cond), "IPToInt") {
			nOrder++
			orderIf = is
		}
		return true
	})
	shape := norm(p.Src(fd.Body))
	switch {
	case nOrder == 0:
		// no comparison of the two ends at all: ParseIPRange never rejects on the order
		o.def("`ParseIPRange`: the source has NO order check of `first` and `last` (nothing is rejected on the order)",
			"parseRangeReject (first last : BitVec 32) : Bool", "false")
	case nOrder == 1 && norm(p.Src(orderIf.Body)) == "{ return nil }" && orderIf.Else == nil && orderIf.Init == nil:
		s, err = e.typed(orderIf.Cond, tBool)
		if err != nil {
			return err
		}
		o.def("`ParseIPRange`: `if "+p.Src(orderIf.Cond)+" { return nil }`",
			"parseRangeReject (first last : BitVec 32) : Bool", s)
		shape = strings.Replace(shape, norm(p.Src(orderIf)), "<ORDER-CHECK>", 1)
	default:
		return e.errf(fd.Body, "expected at most one `if <comparison of IPToInt(first), IPToInt(last)> { return nil }`")
	}
	const wantShape = `{ if strings.Contains(ipr, IPRangeSeparator) { strs := strings.SplitN(ipr, IPRangeSeparator, 2) ` +
		`first := net.ParseIP(strs[0]) if first == nil { return nil } last := net.ParseIP(strs[1]) if last == nil { return nil } ` +
		`<ORDER-CHECK> return &IPRange{first, last} } else { ip := net.ParseIP(ipr) if len(ip) == 0 { return nil } ` +
		`return &IPRange{ip, ip} } }`
	o.pin("parseIPRangeShape", "`ParseIPRange`: split on the first separator, net.ParseIP both halves, order check, else a single address",
		shape == wantShape, shape, wantShape)

	// --- IPRange.String pinned textually (single address printed without separator)
	fd, err = p.Fn("IPRange", "String")
	if err != nil {
		return err
	}
	const wantString = `{ if ipr.First.Equal(ipr.Last) { return ipr.First.String() } ` +
		`return fmt.Sprintf("%s%s%s", ipr.First.String(), IPRangeSeparator, ipr.Last.String()) }`
	o.pin("rangeStringShape", "`IPRange.String`: a single address alone, otherwise first + separator + last",
		norm(p.Src(fd.Body)) == wantString, norm(p.Src(fd.Body)), wantString)

	// --- IPToInt / IntToIP: big-endian low 32 bits; pinned textually, slice bounds extracted
	fd, err = p.Fn("", "IPToInt")
	if err != nil {
		return err
	}
	const wantIPToInt = `{ if len(ip) == net.IPv6len { return binary.BigEndian.Uint32(ip[12:16]) } else if len(ip) == net.IPv4len ` +
		`{ return binary.BigEndian.Uint32(ip) } return 0 }`
	o.pin("ipToIntShape", "`IPToInt` is the big-endian uint32 of the last four bytes",
		norm(p.Src(fd.Body)) == wantIPToInt, norm(p.Src(fd.Body)), wantIPToInt)
	fd, err = p.Fn("", "IntToIP")
	if err != nil {
		return err
	}
	const wantIntToIP = `{ ip := make(net.IP, net.IPv4len) binary.BigEndian.PutUint32(ip, i) return ip }`
	o.pin("intToIPShape", "`IntToIP` writes the four bytes big-endian",
		norm(p.Src(fd.Body)) == wantIntToIP, norm(p.Src(fd.Body)), wantIntToIP)
	return nil
}

// straightLine translates `x := e; …; return e` into nested lets.
func straightLine(e *env, stmts []ast.Stmt, want ty) (string, error) {
	var lets []string
	for i, s := range stmts {
		if i == len(stmts)-1 {
			rx, err := singleReturn(e, s)
			if err != nil {
				return "", err
			}
			r, err := e.typed(rx, want)
			if err != nil {
				return "", err
			}
			return strings.Join(append(lets, r), "\n  "), nil
		}
		as, ok := s.(*ast.AssignStmt)
		if !ok || as.Tok != token.DEFINE || len(as.Lhs) != 1 || len(as.Rhs) != 1 {
			return "", e.errf(s, "expected `x := <expr>`")
		}
		name := e.p.Src(as.Lhs[0])
		v, err := e.expr(as.Rhs[0])
		if err != nil {
			return "", err
		}
		lets = append(lets, fmt.Sprintf("let %s : %s := %s", name, v.t.lean(), v.lean))
		e.vars[name] = val{name, v.t}
	}
	return "", fmt.Errorf("%s: empty body", e.fn)
}

// ---------------------------------------------------------------- floatingip.go

func genFloatingIP(repo string, o *out) error {
	p, err := fg.ParseFile(repo, "pkg/ipam/floatingip/floatingip.go")
	if err != nil {
		return err
	}
	// --- Minus
	fd, err := p.Fn("", "Minus")
	if err != nil {
		return err
	}
	e := &env{p: p, fn: "Minus", ips: map[string]string{"a": "a", "b": "b"}}
	if resultType(p, fd) != "int64" || len(fd.Body.List) != 1 {
		return e.errf(fd.Type, "expected `func Minus(a, b net.IP) int64 { return … }`")
	}
	rx, err := singleReturn(e, fd.Body.List[0])
	if err != nil {
		return err
	}
	s, err := e.typed(rx, tI64)
	if err != nil {
		return err
	}
	o.def("`floatingip.Minus` (int64 kept in two's complement, read with `.toInt`): `return "+p.Src(rx)+"`",
		"minus (a b : BitVec 32) : BitVec 64", s)

	// --- FloatingIPSlice.Less
	fd, err = p.Fn("FloatingIPSlice", "Less")
	if err != nil {
		return err
	}
	e = &env{p: p, fn: "FloatingIPSlice.Less", ips: map[string]string{"s[i].Gateway": "gi", "s[j].Gateway": "gj"}}
	if resultType(p, fd) != "bool" || len(fd.Body.List) != 1 {
		return e.errf(fd.Type, "expected a single return")
	}
	rx, err = singleReturn(e, fd.Body.List[0])
	if err != nil {
		return err
	}
	s, err = e.typed(rx, tBool)
	if err != nil {
		return err
	}
	o.def("`FloatingIPSlice.Less` (the order `ConfigurePool` sorts the pools in): `return "+p.Src(rx)+"`",
		"poolLess (gi gj : BitVec 32) : Bool", s)

	// --- fipCheck
	fd, err = p.Fn("", "fipCheck")
	if err != nil {
		return err
	}
	e = &env{p: p, fn: "fipCheck", ips: map[string]string{"fip.IPRanges[i].First": "first", "fip.IPRanges[i-1].Last": "prevLast"}}
	var adj *ast.IfStmt
	var conds []string
	ast.Inspect(fd.Body, func(n ast.Node) bool {
		if is, ok := n.(*ast.IfStmt); ok {
			c := norm(p.Src(is.Cond))
			if strings.Contains(c, "IPToInt") {
				if adj == nil {
					adj = is
				} else {
					conds = append(conds, "<second IPToInt comparison>")
				}
				conds = append(conds, "<ADJ>")
			} else {
				conds = append(conds, c)
			}
		}
		return true
	})
	wantConds := []string{
		"fip.Gateway.To4() == nil || len(fip.Mask) != net.IPv4len",
		"fip.IPRanges[i].First.To4() == nil || fip.IPRanges[i].Last.To4() == nil",
		"!net.Contains(fip.IPRanges[i].First) || !net.Contains(fip.IPRanges[i].Last)",
		"i != 0",
		"<ADJ>",
	}
	o.pin("fipCheckGuards", "`fipCheck` checks: ipv4 only, both ends of every range inside the gateway's subnet, adjacency for i != 0",
		reflect.DeepEqual(conds, wantConds), strings.Join(conds, " ; "), strings.Join(wantConds, " ; "))
	skel := norm(p.Src(fd.Body))
	if adj != nil {
		skel = strings.Replace(skel, norm(p.Src(adj.Cond)), "<ADJ>", 1)
	}
	skelOK := true
	musts := []string{
		"net := net.IPNet{IP: fip.Gateway, Mask: fip.Mask}",
		"for i := range fip.IPRanges {",
		"if i != 0 { if <ADJ> { return fmt.Errorf(",
		"} return nil }",
	}
	for _, must := range musts {
		if !strings.Contains(skel, must) {
			skelOK = false
		}
	}
	o.pin("fipCheckSkeleton", "`fipCheck`: the subnet is {Gateway, Mask}; one loop over the ranges; the adjacency test returns an error",
		skelOK, skel, "contains each of: "+strings.Join(musts, " | "))
	if adj == nil {
		o.def("`fipCheck`: the source has NO adjacency comparison (no range is rejected for order / mergeability)",
			"fipAdjReject (first prevLast : BitVec 32) : Bool", "false")
	} else {
		s, err = e.typed(adj.Cond, tBool)
		if err != nil {
			return err
		}
		o.def("`fipCheck`: a range is rejected (mergeable with / not after the previous one) iff `"+norm(p.Src(adj.Cond))+"`",
			"fipAdjReject (first prevLast : BitVec 32) : Bool", s)
	}

	// --- FloatingIPPoolConf: json field table
	var fields []string
	vlanBits := 0
	for _, d := range p.File.Decls {
		gd, ok := d.(*ast.GenDecl)
		if !ok || gd.Tok != token.TYPE {
			continue
		}
		for _, sp := range gd.Specs {
			ts := sp.(*ast.TypeSpec)
			st, ok := ts.Type.(*ast.StructType)
			if !ok || ts.Name.Name != "FloatingIPPoolConf" {
				continue
			}
			for _, f := range st.Fields.List {
				tag := ""
				if f.Tag != nil {
					t, _ := strconv.Unquote(f.Tag.Value)
					tag = reflect.StructTag(t).Get("json")
				}
				for _, n := range f.Names {
					fields = append(fields, fmt.Sprintf("(%s, %s, %s)", fg.LeanStr(n.Name), fg.LeanStr(p.Src(f.Type)), fg.LeanStr(tag)))
					if n.Name == "Vlan" {
						switch p.Src(f.Type) {
						case "uint8":
							vlanBits = 8
						case "uint16":
							vlanBits = 16
						case "uint32":
							vlanBits = 32
						}
					}
				}
			}
		}
	}
	if len(fields) == 0 || vlanBits == 0 {
		return fmt.Errorf("%s: struct FloatingIPPoolConf with an unsigned Vlan field not found", p.Path)
	}
	o.def("`FloatingIPPoolConf`: (Go field, Go type, json tag) in declaration order",
		"confFields : List (String × String × String)", "[\n    "+strings.Join(fields, ",\n    ")+"]")
	o.def("width of `FloatingIPPoolConf.Vlan` (encoding/json rejects numbers which overflow it)", "vlanBits : Nat",
		strconv.Itoa(vlanBits))

	// --- UnmarshalJSON: the guard conditions in source order
	fd, err = p.Fn("FloatingIPPool", "UnmarshalJSON")
	if err != nil {
		return err
	}
	conds = nil
	ast.Inspect(fd.Body, func(n ast.Node) bool {
		if is, ok := n.(*ast.IfStmt); ok {
			c := norm(p.Src(is.Cond))
			if is.Init != nil {
				c = norm(p.Src(is.Init)) + "; " + c
			}
			conds = append(conds, fg.LeanStr(c))
		}
		return true
	})
	last := fd.Body.List[len(fd.Body.List)-1]
	o.pin("unmarshalEndsWithFipCheck", "`FloatingIPPool.UnmarshalJSON` ends with `return fipCheck(fip)`",
		norm(p.Src(last)) == "return fipCheck(fip)", norm(p.Src(last)), "return fipCheck(fip)")
	o.def("`FloatingIPPool.UnmarshalJSON`: every `if` condition in source order (the function ends with `return fipCheck(fip)`)",
		"unmarshalGuards : List String", "[\n    "+strings.Join(conds, ",\n    ")+"]")

	// --- MarshalJSON pinned: which fields are written from what
	fd, err = p.Fn("FloatingIPPool", "MarshalJSON")
	if err != nil {
		return err
	}
	var assigns []string
	ast.Inspect(fd.Body, func(n ast.Node) bool {
		if as, ok := n.(*ast.AssignStmt); ok && len(as.Lhs) == 1 && strings.HasPrefix(p.Src(as.Lhs[0]), "conf.") {
			assigns = append(assigns, fg.LeanStr(norm(p.Src(as))))
		}
		return true
	})
	o.def("`FloatingIPPool.MarshalJSON`: the assignments to the fields of the written `FloatingIPPoolConf`, in source order",
		"marshalAssigns : List String", "[\n    "+strings.Join(assigns, ",\n    ")+"]")
	return nil
}

// ---------------------------------------------------------------- ipam_crd.go

func genWalk(repo string, o *out) error {
	p, err := fg.ParseFile(repo, "pkg/ipam/floatingip/ipam_crd.go")
	if err != nil {
		return err
	}
	fd, err := p.Fn("", "walkIPRanges")
	if err != nil {
		return err
	}
	e := &env{p: p, fn: "walkIPRanges", ips: map[string]string{"r.First": "x", "r.Last": "x"}, vars: map[string]val{}}
	bad := func(n ast.Node) error {
		return e.errf(n, "expected `for _, r := range ranges { first := …; last := …; for ; <cond>; first++ { ip := nets.IntToIP(…); "+
			"if f(ip) { return } } }`")
	}
	if len(fd.Body.List) != 1 {
		return bad(fd.Body)
	}
	rs, ok := fd.Body.List[0].(*ast.RangeStmt)
	if !ok || p.Src(rs.X) != "ranges" || rs.Value == nil || p.Src(rs.Value) != "r" || len(rs.Body.List) != 3 {
		return bad(fd.Body.List[0])
	}
	var inits [2]val
	for k, name := range []string{"first", "last"} {
		as, ok := rs.Body.List[k].(*ast.AssignStmt)
		if !ok || as.Tok != token.DEFINE || len(as.Lhs) != 1 || len(as.Rhs) != 1 || p.Src(as.Lhs[0]) != name {
			return bad(rs.Body.List[k])
		}
		if !strings.Contains(p.Src(as.Rhs[0]), map[string]string{"first": "r.First", "last": "r.Last"}[name]) {
			return bad(as)
		}
		v, err := e.expr(as.Rhs[0])
		if err != nil {
			return err
		}
		inits[k] = v
	}
	if inits[0] != inits[1] || (inits[0].t != tU32 && inits[0].t != tU64) {
		return e.errf(rs.Body, "`first` and `last` are not initialised by the same conversion of an unsigned integer")
	}
	ct := inits[0].t
	fs, ok := rs.Body.List[2].(*ast.ForStmt)
	if !ok || fs.Init != nil || fs.Cond == nil || fs.Post == nil || len(fs.Body.List) != 2 {
		return bad(rs.Body.List[2])
	}
	e.vars["first"] = val{"first", ct}
	e.vars["last"] = val{"last", ct}
	cond, err := e.typed(fs.Cond, tBool)
	if err != nil {
		return err
	}
	inc, ok := fs.Post.(*ast.IncDecStmt)
	if !ok || p.Src(inc.X) != "first" {
		return bad(fs.Post)
	}
	stepOp := "+"
	if inc.Tok == token.DEC {
		stepOp = "-"
	}
	as, ok := fs.Body.List[0].(*ast.AssignStmt)
	if !ok || as.Tok != token.DEFINE || len(as.Lhs) != 1 || len(as.Rhs) != 1 || p.Src(as.Lhs[0]) != "ip" {
		return bad(fs.Body.List[0])
	}
	call, ok := as.Rhs[0].(*ast.CallExpr)
	if !ok || !isIntToIP(p.Src(call.Fun)) {
		return bad(as)
	}
	ipx, err := e.typed(as.Rhs[0], tU32)
	if err != nil {
		return err
	}
	if norm(p.Src(fs.Body.List[1])) != "if f(ip) { return }" {
		return bad(fs.Body.List[1])
	}
	fmt.Fprintf(&o.b, "/-- `walkIPRanges`: type of the loop counter `first` (`%s`) -/\nabbrev WalkCtr := %s\n\n", ct, ct.lean())
	o.def("`walkIPRanges`: width of the loop counter", "walkCtrBits : Nat", strconv.Itoa(ct.bits()))
	o.def("`walkIPRanges`: `first := "+norm(p.Src(rs.Body.List[0].(*ast.AssignStmt).Rhs[0]))+"` (and likewise `last`)",
		"walkInit (x : BitVec 32) : WalkCtr", inits[0].lean)
	o.def("`walkIPRanges`: loop condition `"+p.Src(fs.Cond)+"`", "walkCond (first last : WalkCtr) : Bool", cond)
	o.def("`walkIPRanges`: loop post statement `"+p.Src(fs.Post)+"` (wraps at the counter's width)",
		"walkStep (first : WalkCtr) : WalkCtr", fmt.Sprintf("(first %s 1#%d)", stepOp, ct.bits()))
	o.def("`walkIPRanges`: the address handed to the callback, `"+p.Src(as.Rhs[0])+"`", "walkIP (first : WalkCtr) : BitVec 32", ipx)
	return nil
}

// ---------------------------------------------------------------- schedulerplugin/ipam.go

func genEnsure(repo string, o *out) error {
	p, err := fg.ParseFile(repo, "pkg/ipam/schedulerplugin/ipam.go")
	if err != nil {
		return err
	}
	fd, err := p.Fn("FloatingIPPlugin", "ensureIPAMConf")
	if err != nil {
		return err
	}
	// skeleton: one entry per top-level statement; `if` = its init+condition and whether its body returns
	var sk []string
	for _, s := range fd.Body.List {
		switch n := s.(type) {
		case *ast.IfStmt:
			c := norm(p.Src(n.Cond))
			if n.Init != nil {
				c = norm(p.Src(n.Init)) + "; " + c
			}
			ret := "no-return"
			if len(n.Body.List) > 0 {
				if r, ok := n.Body.List[len(n.Body.List)-1].(*ast.ReturnStmt); ok {
					ret = "return " + resultsHead(p, r)
				}
			}
			sk = append(sk, "if "+c+" -> "+ret)
		case *ast.ForStmt, *ast.RangeStmt:
			inner := ""
			ast.Inspect(n, func(x ast.Node) bool {
				if is, ok := x.(*ast.IfStmt); ok {
					inner = norm(p.Src(is.Cond))
					if len(is.Body.List) > 0 {
						if r, ok := is.Body.List[len(is.Body.List)-1].(*ast.ReturnStmt); ok {
							inner += " -> return " + resultsHead(p, r)
						}
					}
				}
				return true
			})
			sk = append(sk, "for: if "+inner)
		case *ast.ReturnStmt:
			sk = append(sk, "return "+resultsHead(p, n))
		case *ast.ExprStmt:
			if strings.HasPrefix(p.Src(n), "glog.") {
				continue
			}
			sk = append(sk, norm(p.Src(n)))
		default:
			sk = append(sk, norm(p.Src(n)))
		}
	}
	var q []string
	for _, s := range sk {
		q = append(q, fg.LeanStr(s))
	}
	o.def("`ensureIPAMConf`: top-level statements (logging dropped); an `if` is shown as `init; cond -> what its body returns`",
		"ensureConfSkeleton : List String", "[\n    "+strings.Join(q, ",\n    ")+"]")
	return nil
}

func resultsHead(p *fg.Parsed, r *ast.ReturnStmt) string {
	var parts []string
	for _, x := range r.Results {
		s := norm(p.Src(x))
		if strings.HasPrefix(s, "fmt.Errorf(") {
			s = "error"
		}
		parts = append(parts, s)
	}
	return strings.Join(parts, ", ")
}

func main() {
	fg.Run("nets", func(repo string) (map[string]string, error) {
		o := &out{}
		o.b.WriteString(fg.Header("integer code of IP ranges / pools / the range walk, as written in the source",
			"pkg/utils/nets/ip.go", "pkg/ipam/floatingip/floatingip.go", "pkg/ipam/floatingip/ipam_crd.go",
			"pkg/ipam/schedulerplugin/ipam.go"))
		o.b.WriteString("namespace Galaxy.Generated.Nets\n\n")
		for _, g := range []func(string, *out) error{genIPGo, genFloatingIP, genWalk, genEnsure} {
			if err := g(repo, o); err != nil {
				return nil, err
			}
		}
		o.def("all structural pins (name, holds)", "pins : List (String × Bool)", "[\n    "+strings.Join(o.pins, ",\n    ")+"]")
		o.b.WriteString("end Galaxy.Generated.Nets\n")
		return map[string]string{"Nets.lean": o.b.String()}, nil
	})
}
