// factgen nets: translates the straight-line integer code of pkg/utils/nets/ip.go,
// pkg/ipam/floatingip/floatingip.go (Minus, fipCheck adjacency, Less) and
// pkg/ipam/floatingip/ipam_crd.go (walkIPRanges' loop) to Lean definitions over
// BitVec 32 / BitVec 64 EXACTLY as written in the source (operator, operand
// order, integer width, conversions), plus a few structural pins (json field
// table, guard conditions of the pool decoder and of ensureIPAMConf).
//
// Typing rules of the tiny expression translator (anything else: loud failure):
//
//	IPToInt(x)              : uint32, `x` must be one of the named operands of the function
//	uint64(e) / uint32(e)   : zero-extension / truncation (BitVec.setWidth)
//	int64(e) of a uint32    : zero-extension to 64 bits, two's complement afterwards
//	e1 + e2, e1 - e2        : wrap-around arithmetic at the operands' width
//	< <= > >= == !=         : unsigned comparison at the operands' width (no int64 comparisons occur)
//	&& || !                 : Bool
//	integer literal         : takes the width of the other operand
package main

import (
	"fmt"
	"go/ast"
	"go/token"
	"os"
	"reflect"
	"strconv"
	"strings"

	"factgen/fg"
)

type ty int

const (
	tLit ty = iota
	tU32
	tU64
	tI64
	tBool
)

func (t ty) String() string {
	return [...]string{"literal", "uint32", "uint64", "int64", "bool"}[t]
}

func (t ty) bits() int {
	switch t {
	case tU32:
		return 32
	case tU64, tI64:
		return 64
	}
	return 0
}

func (t ty) lean() string {
	switch t {
	case tU32:
		return "BitVec 32"
	case tU64, tI64:
		return "BitVec 64"
	case tBool:
		return "Bool"
	}
	return "?"
}

type val struct {
	lean string
	t    ty
}

// env: how the leaves of an expression are named on the Lean side.
type env struct {
	p     *fg.Parsed
	fn    string
	ips   map[string]string // printed argument of IPToInt(...)  -> Lean parameter (uint32)
	vars  map[string]val    // Go local identifier               -> Lean term
	calls map[string]val    // printed call expression            -> Lean term (e.g. "ipr.Size()")
}

func (e *env) errf(n ast.Node, format string, a ...interface{}) error {
	return fmt.Errorf("%s: %s: %s: `%s`", e.p.Path, e.fn, fmt.Sprintf(format, a...), e.p.Src(n))
}

func isIPToInt(s string) bool { return s == "IPToInt" || s == "nets.IPToInt" }
func isIntToIP(s string) bool { return s == "IntToIP" || s == "nets.IntToIP" }

func (e *env) expr(x ast.Expr) (val, error) {
	switch n := x.(type) {
	case *ast.ParenExpr:
		return e.expr(n.X)
	case *ast.BasicLit:
		if n.Kind != token.INT {
			return val{}, e.errf(n, "unsupported literal kind")
		}
		v, err := strconv.ParseInt(n.Value, 0, 64)
		if err != nil || v < 0 {
			return val{}, e.errf(n, "unsupported integer literal")
		}
		return val{strconv.FormatInt(v, 10), tLit}, nil
	case *ast.Ident:
		if v, ok := e.vars[n.Name]; ok {
			return v, nil
		}
		return val{}, e.errf(n, "unknown identifier")
	case *ast.CallExpr:
		src := norm(e.p.Src(n))
		if v, ok := e.calls[src]; ok {
			return v, nil
		}
		fun := norm(e.p.Src(n.Fun))
		if len(n.Args) != 1 {
			return val{}, e.errf(n, "unsupported call")
		}
		switch {
		case isIPToInt(fun):
			key := norm(e.p.Src(n.Args[0]))
			if name, ok := e.ips[key]; ok {
				return val{name, tU32}, nil
			}
			if v, ok := e.vars[key]; ok && v.t == tU32 {
				return v, nil
			}
			return val{}, e.errf(n, "IPToInt of an operand this translator does not know (key %q, known %v)", key, e.ips)
		case isIntToIP(fun):
			a, err := e.expr(n.Args[0])
			if err != nil {
				return val{}, err
			}
			if a.t != tU32 {
				return val{}, e.errf(n, "IntToIP of a %s", a.t)
			}
			return a, nil
		case fun == "uint64" || fun == "uint32" || fun == "int64":
			a, err := e.expr(n.Args[0])
			if err != nil {
				return val{}, err
			}
			switch {
			case fun == "uint64" && a.t == tU32:
				return val{"(" + a.lean + ".setWidth 64)", tU64}, nil
			case fun == "uint64" && a.t == tU64:
				return a, nil
			case fun == "uint32" && a.t == tU64:
				return val{"(" + a.lean + ".setWidth 32)", tU32}, nil
			case fun == "uint32" && a.t == tU32:
				return a, nil
			case fun == "int64" && a.t == tU32:
				// uint32 -> int64 zero-extends; the value is kept in two's complement (BitVec 64, read with .toInt)
				return val{"(" + a.lean + ".setWidth 64)", tI64}, nil
			}
			return val{}, e.errf(n, "unsupported conversion %s of a %s", fun, a.t)
		}
		return val{}, e.errf(n, "unsupported call")
	case *ast.UnaryExpr:
		if n.Op != token.NOT {
			return val{}, e.errf(n, "unsupported unary operator %s", n.Op)
		}
		a, err := e.expr(n.X)
		if err != nil {
			return val{}, err
		}
		if a.t != tBool {
			return val{}, e.errf(n, "! of a %s", a.t)
		}
		return val{"(!" + a.lean + ")", tBool}, nil
	case *ast.BinaryExpr:
		a, err := e.expr(n.X)
		if err != nil {
			return val{}, err
		}
		b, err := e.expr(n.Y)
		if err != nil {
			return val{}, err
		}
		switch n.Op {
		case token.LAND, token.LOR:
			if a.t != tBool || b.t != tBool {
				return val{}, e.errf(n, "%s of %s and %s", n.Op, a.t, b.t)
			}
			return val{"(" + a.lean + " " + n.Op.String() + " " + b.lean + ")", tBool}, nil
		}
		// numeric: unify literal with the other side
		if a.t == tLit && b.t == tLit {
			return val{}, e.errf(n, "constant expression not supported")
		}
		if a.t == tLit {
			a = val{a.lean + "#" + strconv.Itoa(b.t.bits()), b.t}
		}
		if b.t == tLit {
			b = val{b.lean + "#" + strconv.Itoa(a.t.bits()), a.t}
		}
		if a.t != b.t || a.t == tBool {
			return val{}, e.errf(n, "operands of %s have types %s and %s", n.Op, a.t, b.t)
		}
		switch n.Op {
		case token.ADD, token.SUB:
			return val{"(" + a.lean + " " + n.Op.String() + " " + b.lean + ")", a.t}, nil
		case token.LSS, token.LEQ, token.GTR, token.GEQ, token.EQL, token.NEQ:
			if a.t == tI64 {
				return val{}, e.errf(n, "signed comparison not supported")
			}
			op := map[token.Token]string{token.LSS: "<", token.LEQ: "≤", token.GTR: ">", token.GEQ: "≥",
				token.EQL: "=", token.NEQ: "≠"}[n.Op]
			return val{"decide (" + a.lean + " " + op + " " + b.lean + ")", tBool}, nil
		}
		return val{}, e.errf(n, "unsupported binary operator %s", n.Op)
	}
	return val{}, e.errf(x, "unsupported expression form %s", reflect.TypeOf(x))
}

func (e *env) typed(x ast.Expr, want ty) (string, error) {
	v, err := e.expr(x)
	if err != nil {
		return "", err
	}
	if v.t != want {
		return "", e.errf(x, "expected a %s expression, found %s", want, v.t)
	}
	return v.lean, nil
}

func resultType(p *fg.Parsed, fd *ast.FuncDecl) string {
	if fd.Type.Results == nil || len(fd.Type.Results.List) != 1 {
		return ""
	}
	return p.Src(fd.Type.Results.List[0].Type)
}

func goTy(s string) (ty, bool) {
	switch s {
	case "uint32":
		return tU32, true
	case "uint64":
		return tU64, true
	case "int64":
		return tI64, true
	case "bool":
		return tBool, true
	}
	return 0, false
}

// singleReturn expects stmt to be `return <expr>` and returns the expression.
func singleReturn(e *env, s ast.Stmt) (ast.Expr, error) {
	r, ok := s.(*ast.ReturnStmt)
	if !ok || len(r.Results) != 1 {
		return nil, e.errf(s, "expected `return <expr>`")
	}
	return r.Results[0], nil
}

func norm(s string) string { return strings.Join(strings.Fields(s), " ") }

type out struct {
	b    strings.Builder
	pins []string
}

// pin records a structural expectation about the source text.  A failed pin does NOT stop the translation (the
// driver and the harness must keep running so that the monitors can look for a concrete failing input): it is
// emitted as `def pin_<name> : Bool := false` and the theorem `fact_pin_<name>` of Props/C20.lean stops checking.
func (o *out) pin(name, what string, ok bool, have, want string) {
	doc := what
	if !ok {
		doc += "\n    SOURCE CHANGED.\n    have: " + strings.ReplaceAll(have, "-/", "- /") + "\n    want: " + strings.ReplaceAll(want, "-/", "- /")
		fmt.Fprintf(os.Stderr, "factgen nets: pin %s failed (%s)\n  have: %s\n  want: %s\n", name, what, have, want)
	}
	o.def(doc, "pin_"+name+" : Bool", fg.LeanBool(ok))
	o.pins = append(o.pins, fmt.Sprintf("(%s, pin_%s)", fg.LeanStr(name), name))
}

func (o *out) def(doc, sig, body string) {
	fmt.Fprintf(&o.b, "/-- %s -/\ndef %s :=\n  %s\n\n", doc, sig, body)
}

// ---------------------------------------------------------------- normalised functions

// nfunc is a function of the source after normalisation (normalise.go): locals inlined, guard clauses / else
// branches / switch in one canonical shape, range loops with an element variable.  The arithmetic inside is
// exactly as written; operands are found by ROLE (receiver, parameters, loop variables), not by name.
type nfunc struct {
	p  *fg.Parsed
	fd *ast.FuncDecl
	n  *normer
}

func load(p *fg.Parsed, recv, name string) (*nfunc, error) {
	fd, err := p.Fn(recv, name)
	if err != nil {
		return nil, err
	}
	return &nfunc{p, fd, Normalise(p.Fset, fd)}, nil
}

func (f *nfunc) recv() string {
	if f.fd.Recv != nil && len(f.fd.Recv.List) == 1 && len(f.fd.Recv.List[0].Names) == 1 {
		return f.fd.Recv.List[0].Names[0].Name
	}
	return "?receiver"
}

func (f *nfunc) params() []string {
	var out []string
	for _, fl := range f.fd.Type.Params.List {
		for _, n := range fl.Names {
			out = append(out, n.Name)
		}
	}
	return out
}

func (f *nfunc) param(i int) string {
	if ps := f.params(); i < len(ps) {
		return ps[i]
	}
	return fmt.Sprintf("?param%d", i)
}

func (f *nfunc) body() []ast.Stmt { return f.fd.Body.List }

// pinShape compares the canonical text of f (destroys f: call it last) with the canonical text of wantSrc's function.
func (o *out) pinShape(name, what string, f *nfunc, recv, fn string) error {
	want, err := CanonSource(wantSrc, recv, fn)
	if err != nil {
		return fmt.Errorf("wantSrc: %v", err)
	}
	have := f.n.Canon()
	o.pin(name, what, have == want, have, want)
	return nil
}

func identName(e ast.Expr) string {
	if id, ok := e.(*ast.Ident); ok {
		return id.Name
	}
	return ""
}

// ---------------------------------------------------------------- nets/ip.go

func genIPGo(repo string, o *out) error {
	p, err := fg.ParseFile(repo, "pkg/utils/nets/ip.go")
	if err != nil {
		return err
	}
	sep, err := p.ConstString("IPRangeSeparator")
	if err != nil {
		return err
	}
	if len(sep) != 1 {
		return fmt.Errorf("%s: IPRangeSeparator %q is not a single character (the model splits on one character)", p.Path, sep)
	}
	o.def("`nets.IPRangeSeparator`", "ipRangeSeparator : String", fg.LeanStr(sep))
	o.def("`nets.IPRangeSeparator` as the character `ParseIPRange` splits on and `IPRange.String` joins with",
		"ipRangeSepChar : Char", fmt.Sprintf("Char.ofNat %d", sep[0]))

	// --- IPRange.Size
	f, err := load(p, "IPRange", "Size")
	if err != nil {
		return err
	}
	r := f.recv()
	e := &env{p: p, fn: "IPRange.Size", ips: map[string]string{r + ".First": "first", r + ".Last": "last"}, vars: map[string]val{}}
	if resultType(p, f.fd) != "uint32" || len(f.body()) == 0 {
		return e.errf(f.fd.Type, "expected `func (ipr IPRange) Size() uint32` ending with one return")
	}
	rx, err := singleReturn(e, f.body()[len(f.body())-1])
	if err != nil {
		return err
	}
	s, err := e.typed(rx, tU32)
	if err != nil {
		return err
	}
	o.def("`IPRange.Size` (uint32, wraps): `return "+p.Src(rx)+"` (for non-nil First/Last)",
		"rangeSize (first last : BitVec 32) : BitVec 32", s)
	if err := o.pinShape("rangeSizeGuard", "`IPRange.Size` returns 0 for a nil First / Last and otherwise the arithmetic above",
		f, "IPRange", "Size"); err != nil {
		return err
	}

	// --- IPRange.Contains
	f, err = load(p, "IPRange", "Contains")
	if err != nil {
		return err
	}
	r = f.recv()
	e = &env{p: p, fn: "IPRange.Contains", ips: map[string]string{r + ".First": "first", r + ".Last": "last", f.param(0): "ip"},
		vars: map[string]val{}}
	if resultType(p, f.fd) != "bool" {
		return e.errf(f.fd.Type, "expected result type bool")
	}
	body, err := straightLine(e, f.body(), tBool)
	if err != nil {
		return err
	}
	o.def("`IPRange.Contains`: "+norm(p.Src(f.fd.Body)), "rangeContains (first last ip : BitVec 32) : Bool", body)

	// --- SparseSubnet.Size: accumulator, one loop over the ranges adding each range's Size(), return
	f, err = load(p, "SparseSubnet", "Size")
	if err != nil {
		return err
	}
	r = f.recv()
	e = &env{p: p, fn: "SparseSubnet.Size", vars: map[string]val{}, calls: map[string]val{}}
	bad := func(n ast.Node) error {
		return e.errf(n, "expected `var size uint32; for _, ipr := range subnet.IPRanges { size += ipr.Size() }; return size`")
	}
	if resultType(p, f.fd) != "uint32" || len(f.body()) != 3 {
		return bad(f.fd.Body)
	}
	acc := ""
	switch t := f.body()[0].(type) {
	case *ast.DeclStmt:
		if gd, ok := t.Decl.(*ast.GenDecl); ok && gd.Tok == token.VAR && len(gd.Specs) == 1 {
			vs := gd.Specs[0].(*ast.ValueSpec)
			if len(vs.Names) == 1 && vs.Type != nil && p.Src(vs.Type) == "uint32" &&
				(len(vs.Values) == 0 || (len(vs.Values) == 1 && p.Src(vs.Values[0]) == "0")) {
				acc = vs.Names[0].Name
			}
		}
	case *ast.AssignStmt:
		if t.Tok == token.DEFINE && len(t.Lhs) == 1 && len(t.Rhs) == 1 && p.Src(t.Rhs[0]) == "uint32(0)" {
			acc = identName(t.Lhs[0])
		}
	}
	if acc == "" {
		return bad(f.body()[0])
	}
	rs, ok := f.body()[1].(*ast.RangeStmt)
	if !ok || norm(p.Src(rs.X)) != r+".IPRanges" || !isBlank(rs.Key) || identName(rs.Value) == "" || isBlank(rs.Value) ||
		len(rs.Body.List) != 1 {
		return bad(f.body()[1])
	}
	e.vars[acc] = val{"size", tU32}
	e.calls[identName(rs.Value)+".Size()"] = val{"rsize", tU32}
	as, ok := rs.Body.List[0].(*ast.AssignStmt)
	if !ok || len(as.Lhs) != 1 || len(as.Rhs) != 1 || p.Src(as.Lhs[0]) != acc {
		return bad(rs.Body.List[0])
	}
	var step ast.Expr
	switch as.Tok {
	case token.ADD_ASSIGN:
		step = &ast.BinaryExpr{X: as.Lhs[0], Op: token.ADD, Y: as.Rhs[0]}
	case token.SUB_ASSIGN:
		step = &ast.BinaryExpr{X: as.Lhs[0], Op: token.SUB, Y: as.Rhs[0]}
	case token.ASSIGN:
		step = as.Rhs[0]
	default:
		return e.errf(as, "unsupported assignment operator %s", as.Tok)
	}
	s, err = e.typed(step, tU32)
	if err != nil {
		return err
	}
	if norm(p.Src(f.body()[2])) != "return "+acc {
		return bad(f.body()[2])
	}
	o.def("`SparseSubnet.Size`: zero value of `var size uint32`", "sparseSizeInit : BitVec 32", "0#32")
	o.def("`SparseSubnet.Size`: loop body `"+norm(p.Src(as))+"` (uint32, wraps); `rsize` = the range's `Size()`",
		"sparseSizeStep (size rsize : BitVec 32) : BitVec 32", s)

	// --- ParseIPRange: the order check is arithmetic, the rest is a shape pin
	f, err = load(p, "", "ParseIPRange")
	if err != nil {
		return err
	}
	e = &env{p: p, fn: "ParseIPRange", ips: map[string]string{}, vars: map[string]val{}}
	// the two addresses: locals assigned from net.ParseIP(<parts>[0]) and net.ParseIP(<parts>[1])
	ast.Inspect(f.fd.Body, func(x ast.Node) bool {
		as, ok := x.(*ast.AssignStmt)
		if !ok || len(as.Lhs) != 1 || len(as.Rhs) != 1 {
			return true
		}
		c, ok := as.Rhs[0].(*ast.CallExpr)
		if !ok || p.Src(c.Fun) != "net.ParseIP" || len(c.Args) != 1 {
			return true
		}
		if ix, ok := c.Args[0].(*ast.IndexExpr); ok {
			switch p.Src(ix.Index) {
			case "0":
				e.ips[identName(as.Lhs[0])] = "first"
			case "1":
				e.ips[identName(as.Lhs[0])] = "last"
			}
		}
		return true
	})
	var orderIf *ast.IfStmt
	nOrder := 0
	ast.Inspect(f.fd.Body, func(n ast.Node) bool {
		if is, ok := n.(*ast.IfStmt); ok && isArith(is.Cond) {
			nOrder++
			orderIf = is
		}
		return true
	})
	switch {
	case nOrder == 0:
		// no comparison of the two ends at all: ParseIPRange never rejects on the order
		o.def("`ParseIPRange`: the source has NO order check of `first` and `last` (nothing is rejected on the order)",
			"parseRangeReject (first last : BitVec 32) : Bool", "false")
	case nOrder == 1 && norm(p.Src(orderIf.Body)) == "{ return nil }" && orderIf.Else == nil:
		s, err = e.typed(orderIf.Cond, tBool)
		if err != nil {
			return err
		}
		o.def("`ParseIPRange`: `if "+p.Src(orderIf.Cond)+" { return nil }`",
			"parseRangeReject (first last : BitVec 32) : Bool", s)
	default:
		return e.errf(f.fd.Body, "expected at most one `if <comparison of IPToInt(first), IPToInt(last)> { return nil }`")
	}
	if err := o.pinShape("parseIPRangeShape", "`ParseIPRange`: split on the first separator, net.ParseIP both halves, order check, else a single address",
		f, "", "ParseIPRange"); err != nil {
		return err
	}

	// --- IPRange.String, IPToInt, IntToIP: shape pins
	for _, sp := range []struct{ pin, what, recv, fn string }{
		{"rangeStringShape", "`IPRange.String`: a single address alone, otherwise first + separator + last", "IPRange", "String"},
		{"ipToIntShape", "`IPToInt` is the big-endian uint32 of the last four bytes", "", "IPToInt"},
		{"intToIPShape", "`IntToIP` writes the four bytes big-endian", "", "IntToIP"},
	} {
		f, err = load(p, sp.recv, sp.fn)
		if err != nil {
			return err
		}
		if err := o.pinShape(sp.pin, sp.what, f, sp.recv, sp.fn); err != nil {
			return err
		}
	}
	return nil
}

// straightLine translates `x := e; …; return e` into nested lets.
func straightLine(e *env, stmts []ast.Stmt, want ty) (string, error) {
	var lets []string
	for i, s := range stmts {
		if i == len(stmts)-1 {
			rx, err := singleReturn(e, s)
			if err != nil {
				return "", err
			}
			r, err := e.typed(rx, want)
			if err != nil {
				return "", err
			}
			return strings.Join(append(lets, r), "\n  "), nil
		}
		as, ok := s.(*ast.AssignStmt)
		if !ok || as.Tok != token.DEFINE || len(as.Lhs) != 1 || len(as.Rhs) != 1 {
			return "", e.errf(s, "expected `x := <expr>`")
		}
		name := e.p.Src(as.Lhs[0])
		v, err := e.expr(as.Rhs[0])
		if err != nil {
			return "", err
		}
		lets = append(lets, fmt.Sprintf("let %s : %s := %s", name, v.t.lean(), v.lean))
		e.vars[name] = val{name, v.t}
	}
	return "", fmt.Errorf("%s: empty body", e.fn)
}

// ---------------------------------------------------------------- floatingip.go

func genFloatingIP(repo string, o *out) error {
	p, err := fg.ParseFile(repo, "pkg/ipam/floatingip/floatingip.go")
	if err != nil {
		return err
	}
	// --- Minus
	f, err := load(p, "", "Minus")
	if err != nil {
		return err
	}
	e := &env{p: p, fn: "Minus", ips: map[string]string{f.param(0): "a", f.param(1): "b"}, vars: map[string]val{}}
	if resultType(p, f.fd) != "int64" {
		return e.errf(f.fd.Type, "expected `func Minus(a, b net.IP) int64`")
	}
	s, err := straightLine(e, f.body(), tI64)
	if err != nil {
		return err
	}
	o.def("`floatingip.Minus` (int64 kept in two's complement, read with `.toInt`): "+norm(p.Src(f.fd.Body)),
		"minus (a b : BitVec 32) : BitVec 64", s)

	// --- FloatingIPSlice.Less
	f, err = load(p, "FloatingIPSlice", "Less")
	if err != nil {
		return err
	}
	r := f.recv()
	e = &env{p: p, fn: "FloatingIPSlice.Less", vars: map[string]val{},
		ips: map[string]string{r + "[" + f.param(0) + "].Gateway": "gi", r + "[" + f.param(1) + "].Gateway": "gj"}}
	if resultType(p, f.fd) != "bool" {
		return e.errf(f.fd.Type, "expected result type bool")
	}
	s, err = straightLine(e, f.body(), tBool)
	if err != nil {
		return err
	}
	o.def("`FloatingIPSlice.Less` (the order `ConfigurePool` sorts the pools in): "+norm(p.Src(f.fd.Body)),
		"poolLess (gi gj : BitVec 32) : Bool", s)

	// --- fipCheck: the adjacency comparison is arithmetic, the rest is a shape pin
	f, err = load(p, "", "fipCheck")
	if err != nil {
		return err
	}
	pool := f.param(0)
	e = &env{p: p, fn: "fipCheck", ips: map[string]string{}, vars: map[string]val{}}
	var adj ast.Expr
	nAdj := 0
	ast.Inspect(f.fd.Body, func(x ast.Node) bool {
		rs, ok := x.(*ast.RangeStmt)
		if !ok || norm(p.Src(rs.X)) != pool+".IPRanges" {
			return true
		}
		// current range = the element variable (or an explicit index), previous range = index key-1
		if v := identName(rs.Value); v != "" && v != "_" {
			e.ips[v+".First"] = "first"
		}
		if k := identName(rs.Key); k != "" && k != "_" {
			e.ips[pool+".IPRanges["+k+"].First"] = "first"
			e.ips[pool+".IPRanges["+k+"-1].Last"] = "prevLast"
			e.ips[pool+".IPRanges["+k+" - 1].Last"] = "prevLast"
		}
		ast.Inspect(rs.Body, func(y ast.Node) bool {
			if is, ok := y.(*ast.IfStmt); ok && isArith(is.Cond) {
				var ops []ast.Expr
				flatten(is.Cond, token.LAND, &ops)
				for _, c := range ops {
					if isArith(c) {
						nAdj++
						adj = c
					}
				}
			}
			return true
		})
		return true
	})
	switch nAdj {
	case 0:
		o.def("`fipCheck`: the source has NO adjacency comparison (no range is rejected for order / mergeability)",
			"fipAdjReject (first prevLast : BitVec 32) : Bool", "false")
	case 1:
		s, err = e.typed(adj, tBool)
		if err != nil {
			return err
		}
		o.def("`fipCheck`: a range is rejected (mergeable with / not after the previous one) iff `"+norm(p.Src(adj))+"`",
			"fipAdjReject (first prevLast : BitVec 32) : Bool", s)
	default:
		return e.errf(f.fd.Body, "expected one comparison of IPToInt values in the loop over the ranges")
	}
	if err := o.pinShape("fipCheckShape", "`fipCheck`: ipv4 only; the subnet is {Gateway, Mask}; BOTH ends of every range inside it; "+
		"adjacency test against the previous range for every range but the first; each failure returns an error",
		f, "", "fipCheck"); err != nil {
		return err
	}

	// --- FloatingIPPoolConf: json field table
	var fields []string
	vlanBits := 0
	for _, d := range p.File.Decls {
		gd, ok := d.(*ast.GenDecl)
		if !ok || gd.Tok != token.TYPE {
			continue
		}
		for _, sp := range gd.Specs {
			ts := sp.(*ast.TypeSpec)
			st, ok := ts.Type.(*ast.StructType)
			if !ok || ts.Name.Name != "FloatingIPPoolConf" {
				continue
			}
			for _, fl := range st.Fields.List {
				tag := ""
				if fl.Tag != nil {
					t, _ := strconv.Unquote(fl.Tag.Value)
					tag = reflect.StructTag(t).Get("json")
				}
				for _, n := range fl.Names {
					fields = append(fields, fmt.Sprintf("(%s, %s, %s)", fg.LeanStr(n.Name), fg.LeanStr(p.Src(fl.Type)), fg.LeanStr(tag)))
					if n.Name == "Vlan" {
						switch p.Src(fl.Type) {
						case "uint8":
							vlanBits = 8
						case "uint16":
							vlanBits = 16
						case "uint32":
							vlanBits = 32
						}
					}
				}
			}
		}
	}
	if len(fields) == 0 || vlanBits == 0 {
		return fmt.Errorf("%s: struct FloatingIPPoolConf with an unsigned Vlan field not found", p.Path)
	}
	o.def("`FloatingIPPoolConf`: (Go field, Go type, json tag) in declaration order",
		"confFields : List (String × String × String)", "[\n    "+strings.Join(fields, ",\n    ")+"]")
	o.def("width of `FloatingIPPoolConf.Vlan` (encoding/json rejects numbers which overflow it)", "vlanBits : Nat",
		strconv.Itoa(vlanBits))

	// --- UnmarshalJSON / MarshalJSON: shape pins (guards, their order, what is assigned from what)
	for _, sp := range []struct{ pin, what, fn string }{
		{"unmarshalJSONShape", "`FloatingIPPool.UnmarshalJSON`: json decode; node subnet mandatory; routableSubnet wins, else every " +
			"node subnet non-null, masked, de-duplicated; gateway and subnet mandatory; every range through ParseIPRange; ends with fipCheck",
			"UnmarshalJSON"},
		{"marshalJSONShape", "`FloatingIPPool.MarshalJSON`: node subnets, subnet = IPNet(), gateway, vlan, one string per range", "MarshalJSON"},
	} {
		f, err = load(p, "FloatingIPPool", sp.fn)
		if err != nil {
			return err
		}
		if err := o.pinShape(sp.pin, sp.what, f, "FloatingIPPool", sp.fn); err != nil {
			return err
		}
	}
	return nil
}

// ---------------------------------------------------------------- ipam_crd.go

func genWalk(repo string, o *out) error {
	p, err := fg.ParseFile(repo, "pkg/ipam/floatingip/ipam_crd.go")
	if err != nil {
		return err
	}
	f, err := load(p, "", "walkIPRanges")
	if err != nil {
		return err
	}
	e := &env{p: p, fn: "walkIPRanges", ips: map[string]string{}, vars: map[string]val{}, calls: map[string]val{}}
	bad := func(n ast.Node) error {
		return e.errf(n, "expected (after normalisation) `for _, r := range ranges { first := <conv of IPToInt(r.First)>; "+
			"for ; first <cmp> <conv of IPToInt(r.Last)>; first++ { if f(nets.IntToIP(<conv of first>)) { return } } }`")
	}
	ranges, cb := f.param(0), f.param(1)
	if len(f.body()) != 1 {
		return bad(f.fd.Body)
	}
	rs, ok := f.body()[0].(*ast.RangeStmt)
	rv := ""
	if ok {
		rv = identName(rs.Value)
	}
	if !ok || p.Src(rs.X) != ranges || rv == "" || rv == "_" || len(rs.Body.List) != 2 {
		return bad(f.body()[0])
	}
	e.ips[rv+".First"], e.ips[rv+".Last"] = "x", "x"
	as, ok := rs.Body.List[0].(*ast.AssignStmt)
	if !ok || as.Tok != token.DEFINE || len(as.Lhs) != 1 || len(as.Rhs) != 1 || !strings.Contains(p.Src(as.Rhs[0]), rv+".First") {
		return bad(rs.Body.List[0])
	}
	ctr := identName(as.Lhs[0])
	init, err := e.expr(as.Rhs[0])
	if err != nil {
		return err
	}
	if init.t != tU32 && init.t != tU64 {
		return e.errf(as, "the loop counter is not an unsigned integer")
	}
	ct := init.t
	fs, ok := rs.Body.List[1].(*ast.ForStmt)
	if !ok || fs.Init != nil || fs.Cond == nil || fs.Post == nil || len(fs.Body.List) != 1 {
		return bad(rs.Body.List[1])
	}
	// the bound: either a local initialised like the counter (when it could not be inlined) or that expression itself
	cmp, ok := fs.Cond.(*ast.BinaryExpr)
	if !ok || identName(cmp.X) != ctr || !strings.Contains(p.Src(cmp.Y), rv+".Last") {
		return bad(fs.Cond)
	}
	bound, err := e.expr(cmp.Y)
	if err != nil {
		return err
	}
	if bound != init {
		return e.errf(fs.Cond, "the counter and its bound are not initialised by the same conversion (%s vs %s)", init.lean, bound.lean)
	}
	e.vars[ctr] = val{"first", ct}
	e.calls[norm(p.Src(cmp.Y))] = val{"last", ct}
	cond, err := e.typed(fs.Cond, tBool)
	if err != nil {
		return err
	}
	inc, ok := fs.Post.(*ast.IncDecStmt)
	if !ok || identName(inc.X) != ctr {
		return bad(fs.Post)
	}
	stepOp := "+"
	if inc.Tok == token.DEC {
		stepOp = "-"
	}
	is, ok := fs.Body.List[0].(*ast.IfStmt)
	if !ok || is.Else != nil || norm(p.Src(is.Body)) != "{ return }" {
		return bad(fs.Body.List[0])
	}
	call, ok := is.Cond.(*ast.CallExpr)
	if !ok || p.Src(call.Fun) != cb || len(call.Args) != 1 {
		return bad(is.Cond)
	}
	if c2, ok := call.Args[0].(*ast.CallExpr); !ok || !isIntToIP(p.Src(c2.Fun)) {
		return bad(is.Cond)
	}
	ipx, err := e.typed(call.Args[0], tU32)
	if err != nil {
		return err
	}
	fmt.Fprintf(&o.b, "/-- `walkIPRanges`: type of the loop counter (`%s`) -/\nabbrev WalkCtr := %s\n\n", ct, ct.lean())
	o.def("`walkIPRanges`: width of the loop counter", "walkCtrBits : Nat", strconv.Itoa(ct.bits()))
	o.def("`walkIPRanges`: the counter starts at `"+norm(p.Src(as.Rhs[0]))+"` (and is bounded by the same conversion of the last address)",
		"walkInit (x : BitVec 32) : WalkCtr", init.lean)
	o.def("`walkIPRanges`: loop condition `"+p.Src(fs.Cond)+"`", "walkCond (first last : WalkCtr) : Bool", cond)
	o.def("`walkIPRanges`: loop post statement `"+p.Src(fs.Post)+"` (wraps at the counter's width)",
		"walkStep (first : WalkCtr) : WalkCtr", fmt.Sprintf("(first %s 1#%d)", stepOp, ct.bits()))
	o.def("`walkIPRanges`: the address handed to the callback, `"+p.Src(call.Args[0])+"`", "walkIP (first : WalkCtr) : BitVec 32", ipx)
	return nil
}

// ---------------------------------------------------------------- schedulerplugin/ipam.go

func genEnsure(repo string, o *out) error {
	p, err := fg.ParseFile(repo, "pkg/ipam/schedulerplugin/ipam.go")
	if err != nil {
		return err
	}
	f, err := load(p, "FloatingIPPlugin", "ensureIPAMConf")
	if err != nil {
		return err
	}
	return o.pinShape("ensureIPAMConfShape", "`ensureIPAMConf`: unchanged text -> (false, nil); decode error -> error before ConfigurePool; "+
		"null pool -> error before ConfigurePool; ConfigurePool error -> error; `*lastConf = newConf` only after all of that; (true, nil)",
		f, "FloatingIPPlugin", "ensureIPAMConf")
}

func main() {
	fg.Run("nets", func(repo string) (map[string]string, error) {
		o := &out{}
		o.b.WriteString(fg.Header("integer code of IP ranges / pools / the range walk, as written in the source",
			"pkg/utils/nets/ip.go", "pkg/ipam/floatingip/floatingip.go", "pkg/ipam/floatingip/ipam_crd.go",
			"pkg/ipam/schedulerplugin/ipam.go"))
		o.b.WriteString("namespace Galaxy.Generated.Nets\n\n")
		for _, g := range []func(string, *out) error{genIPGo, genFloatingIP, genWalk, genEnsure} {
			if err := g(repo, o); err != nil {
				return nil, err
			}
		}
		o.def("all structural pins (name, holds)", "pins : List (String × Bool)", "[\n    "+strings.Join(o.pins, ",\n    ")+"]")
		o.b.WriteString("end Galaxy.Generated.Nets\n")
		return map[string]string{"Nets.lean": o.b.String()}, nil
	})
}
