package main

// wantSrc: the functions whose SHAPE (not arithmetic) the model mirrors, as they were when the model was written.
// A shape pin holds iff the current source normalises (normalise.go) to the same canonical text as the function
// here: behaviour-preserving rewrites keep the pin, a dropped / moved guard, a changed call or operand does not.
const wantSrc = `package want

func (ipr IPRange) Size() uint32 {
	if len(ipr.First) == 0 || len(ipr.Last) == 0 {
		return 0
	}
	return IPToInt(ipr.Last) - IPToInt(ipr.First) + 1
}

func (ipr IPRange) String() string {
	if ipr.First.Equal(ipr.Last) {
		return ipr.First.String()
	}
	return fmt.Sprintf("%s%s%s", ipr.First.String(), IPRangeSeparator, ipr.Last.String())
}

func ParseIPRange(ipr string) *IPRange {
	if strings.Contains(ipr, IPRangeSeparator) {
		strs := strings.SplitN(ipr, IPRangeSeparator, 2)
		first := net.ParseIP(strs[0])
		if first == nil {
			return nil
		}
		last := net.ParseIP(strs[1])
		if last == nil {
			return nil
		}
		if IPToInt(first) > IPToInt(last) {
			return nil
		}
		return &IPRange{first, last}
	} else {
		ip := net.ParseIP(ipr)
		if len(ip) == 0 {
			return nil
		}
		return &IPRange{ip, ip}
	}
}

func IPToInt(ip net.IP) uint32 {
	if len(ip) == net.IPv6len {
		return binary.BigEndian.Uint32(ip[12:16])
	} else if len(ip) == net.IPv4len {
		return binary.BigEndian.Uint32(ip)
	}
	return 0
}

func IntToIP(i uint32) net.IP {
	ip := make(net.IP, net.IPv4len)
	binary.BigEndian.PutUint32(ip, i)
	return ip
}

func (fip *FloatingIPPool) MarshalJSON() ([]byte, error) {
	conf := FloatingIPPoolConf{}
	for i := range fip.NodeSubnets {
		conf.NodeSubnets = append(conf.NodeSubnets, nets.NetsIPNet(fip.NodeSubnets[i]))
	}
	conf.Subnet = nets.NetsIPNet(fip.IPNet())
	conf.Gateway = fip.Gateway
	conf.Vlan = fip.Vlan
	conf.IPs = make([]string, 0)
	for _, ipr := range fip.IPRanges {
		conf.IPs = append(conf.IPs, ipr.String())
	}
	return json.Marshal(conf)
}

func (fip *FloatingIPPool) UnmarshalJSON(data []byte) error {
	var conf FloatingIPPoolConf
	if err := json.Unmarshal(data, &conf); err != nil {
		return err
	}
	if conf.RoutableSubnet == nil && len(conf.NodeSubnets) == 0 {
		return fmt.Errorf("node subnet is empty")
	}
	fip.NodeSubnets = []*net.IPNet{}
	if conf.RoutableSubnet != nil {
		ipNet := conf.RoutableSubnet.ToIPNet()
		fip.NodeSubnets = append(fip.NodeSubnets, &net.IPNet{IP: ipNet.IP.Mask(ipNet.Mask), Mask: ipNet.Mask})
	} else {
		m := map[string]string{}
		for i := range conf.NodeSubnets {
			if conf.NodeSubnets[i] == nil {
				return fmt.Errorf("node subnet %d is null", i)
			}
			ipNet := conf.NodeSubnets[i].ToIPNet()
			ipNet.IP = ipNet.IP.Mask(ipNet.Mask)
			if _, ok := m[ipNet.String()]; !ok {
				fip.NodeSubnets = append(fip.NodeSubnets, ipNet)
				m[ipNet.String()] = ""
			}
		}
	}
	if conf.Gateway != nil {
		fip.Gateway = conf.Gateway
	} else {
		return fmt.Errorf("gateway is empty")
	}
	if conf.Subnet != nil {
		fip.Mask = conf.Subnet.Mask
	} else {
		return fmt.Errorf("subnet is empty")
	}
	fip.Vlan = conf.Vlan
	fip.IPRanges = []nets.IPRange{}
	for _, str := range conf.IPs {
		ipr := nets.ParseIPRange(str)
		if ipr != nil {
			fip.IPRanges = append(fip.IPRanges, *ipr)
		} else {
			return fmt.Errorf("invalid ip range %s", str)
		}
	}
	return fipCheck(fip)
}

func fipCheck(fip *FloatingIPPool) error {

	if fip.Gateway.To4() == nil || len(fip.Mask) != net.IPv4len {
		return fmt.Errorf("gateway %s or subnet mask %s is not ipv4", fip.Gateway.String(), fip.Mask.String())
	}
	net := net.IPNet{IP: fip.Gateway, Mask: fip.Mask}
	for i := range fip.IPRanges {
		if fip.IPRanges[i].First.To4() == nil || fip.IPRanges[i].Last.To4() == nil {
			return fmt.Errorf("ip range %s is not ipv4", fip.IPRanges[i].String())
		}
		if !net.Contains(fip.IPRanges[i].First) || !net.Contains(fip.IPRanges[i].Last) {
			return fmt.Errorf("ip range %s not in subnet %s", fip.IPRanges[i].String(), net.String())
		}
		if i != 0 {

			if uint64(nets.IPToInt(fip.IPRanges[i].First)) <= uint64(nets.IPToInt(fip.IPRanges[i-1].Last))+1 {
				return fmt.Errorf("ip range %s and %s can be merge to one or has wrong order",
					fip.IPRanges[i-1].String(), fip.IPRanges[i].String())
			}
		}
	}
	return nil
}

func (p *FloatingIPPlugin) ensureIPAMConf(lastConf *string, newConf string) (bool, error) {
	if newConf == *lastConf {
		glog.V(4).Infof("floatingip configmap unchanged")
		return false, nil
	}
	var conf []*floatingip.FloatingIPPool
	if err := json.Unmarshal([]byte(newConf), &conf); err != nil {
		return false, fmt.Errorf("failed to unmarshal configmap val %s to floatingip config: %v", newConf, err)
	}
	for i := range conf {

		if conf[i] == nil {
			return false, fmt.Errorf("floatingip config %s has a null pool at index %d", newConf, i)
		}
	}
	if err := p.ipam.ConfigurePool(conf); err != nil {
		return false, fmt.Errorf("failed to configure pool: %v", err)
	}
	glog.Infof("updated floatingip conf from (%s) to (%s)", *lastConf, newConf)
	*lastConf = newConf
	return true, nil
}

`
