// Normaliser: brings a Go function into a canonical shape so that behaviour-preserving rewrites compare equal
// (see /verif/harmless/NORMALISE.md).  It works by MUTATING a privately parsed AST; callers parse a file for the
// normaliser alone.
//
// Passes of Normalise (names are untouched, so the typed arithmetic translator can still find its operands):
//
//	0  strip parentheses; `else if` -> `else { if }`; hoist the Init of if / for / switch in front of the statement;
//	   `switch` (no fallthrough / break) -> if / else-if chain on equality with the tag
//	1  `for i := range xs { … xs[i] … }` and `for _, v := range xs { … v … }` -> one element variable
//	2  inline single-assignment locals whose right-hand side is side-effect free (named booleans, hoisted
//	   conversions, `node := &nodes[i]`)
//	3  statement structure: logging dropped; `if c {A} else {B}` with a branch that always returns -> guard clause
//	   followed by the other branch; `if c {continue}` / bare `return` followed by the rest -> `if !c {rest}`;
//	   `if c {return true}; return false` -> `return c`; `if e != nil {return e}; return nil` -> `return e`;
//	   negations pushed into comparisons (not into arithmetic conditions, which stay exactly as written)
//
// Canon (for shape pins; destroys names) additionally: replaces arithmetic conditions / results (anything calling
// IPToInt) by the placeholder ARITH, error constructors by ERROR, fmt.Sprintf of %s / %d by concatenation, merges
// nested ifs into `&&`, numbers the locals in order of first occurrence (alpha-renaming), sorts the operands of
// `&&`, `||`, `==`, `!=`, orients if/else, and prints.
package main

import (
	"bytes"
	"fmt"
	"go/ast"
	"go/parser"
	"go/printer"
	"go/token"
	"reflect"
	"sort"
	"strconv"
	"strings"
)

var (
	exprType  = reflect.TypeOf((*ast.Expr)(nil)).Elem()
	nodeType  = reflect.TypeOf((*ast.Node)(nil)).Elem()
	objType   = reflect.TypeOf((*ast.Object)(nil))
	scopeType = reflect.TypeOf((*ast.Scope)(nil))
	cgType    = reflect.TypeOf((*ast.CommentGroup)(nil))
)

// rewriteExprs rewrites, bottom-up, every slot of static type ast.Expr (or element of []ast.Expr) below n.
func rewriteExprs(n ast.Node, f func(ast.Expr) ast.Expr) {
	if n == nil || reflect.ValueOf(n).IsNil() {
		return
	}
	v := reflect.ValueOf(n).Elem()
	if v.Kind() != reflect.Struct {
		return
	}
	var visit func(fv reflect.Value)
	visit = func(fv reflect.Value) {
		t := fv.Type()
		if t == objType || t == scopeType || t == cgType {
			return
		}
		switch fv.Kind() {
		case reflect.Interface:
			if fv.IsNil() {
				return
			}
			child, ok := fv.Interface().(ast.Node)
			if !ok {
				return
			}
			rewriteExprs(child, f)
			if t == exprType {
				fv.Set(reflect.ValueOf(f(child.(ast.Expr))))
			}
		case reflect.Ptr:
			if fv.IsNil() || !t.Implements(nodeType) {
				return
			}
			rewriteExprs(fv.Interface().(ast.Node), f)
		case reflect.Slice:
			for i := 0; i < fv.Len(); i++ {
				visit(fv.Index(i))
			}
		}
	}
	for i := 0; i < v.NumField(); i++ {
		visit(v.Field(i))
	}
}

// cloneExpr deep-copies an expression (objects are shared).
func cloneExpr(e ast.Expr) ast.Expr {
	return cloneValue(reflect.ValueOf(e)).Interface().(ast.Expr)
}

func cloneValue(v reflect.Value) reflect.Value {
	t := v.Type()
	if t == objType || t == scopeType || t == cgType {
		return v
	}
	switch v.Kind() {
	case reflect.Interface:
		if v.IsNil() {
			return v
		}
		c := cloneValue(v.Elem())
		r := reflect.New(t).Elem()
		r.Set(c)
		return r
	case reflect.Ptr:
		if v.IsNil() || v.Elem().Kind() != reflect.Struct {
			return v
		}
		r := reflect.New(t.Elem())
		for i := 0; i < v.Elem().NumField(); i++ {
			r.Elem().Field(i).Set(cloneValue(v.Elem().Field(i)))
		}
		return r
	case reflect.Slice:
		if v.IsNil() {
			return v
		}
		r := reflect.MakeSlice(t, v.Len(), v.Len())
		for i := 0; i < v.Len(); i++ {
			r.Index(i).Set(cloneValue(v.Index(i)))
		}
		return r
	}
	return v
}

// mapLists applies f bottom-up to every statement list below (and including) list.
func mapLists(list []ast.Stmt, f func([]ast.Stmt) []ast.Stmt) []ast.Stmt {
	var sub func(s ast.Stmt)
	blk := func(b *ast.BlockStmt) {
		if b != nil {
			b.List = mapLists(b.List, f)
		}
	}
	sub = func(s ast.Stmt) {
		switch t := s.(type) {
		case *ast.BlockStmt:
			blk(t)
		case *ast.IfStmt:
			blk(t.Body)
			switch e := t.Else.(type) {
			case *ast.IfStmt:
				b := &ast.BlockStmt{List: []ast.Stmt{e}}
				t.Else = b
				blk(b)
			case *ast.BlockStmt:
				blk(e)
			}
		case *ast.ForStmt:
			blk(t.Body)
		case *ast.RangeStmt:
			blk(t.Body)
		case *ast.SwitchStmt:
			blk(t.Body)
		case *ast.TypeSwitchStmt:
			blk(t.Body)
		case *ast.SelectStmt:
			blk(t.Body)
		case *ast.CaseClause:
			t.Body = mapLists(t.Body, f)
		case *ast.CommClause:
			t.Body = mapLists(t.Body, f)
		case *ast.LabeledStmt:
			sub(t.Stmt)
		}
	}
	for _, s := range list {
		sub(s)
	}
	return f(list)
}

type normer struct {
	fset   *token.FileSet
	fd     *ast.FuncDecl
	locals map[*ast.Object]bool
}

func (n *normer) src(x ast.Node) string {
	var b bytes.Buffer
	printer.Fprint(&b, n.fset, x)
	return strings.Join(strings.Fields(b.String()), " ")
}

func newObj(name string) *ast.Object {
	o := ast.NewObj(ast.Var, name)
	return o
}

func identOf(o *ast.Object) *ast.Ident { return &ast.Ident{Name: o.Name, Obj: o} }

// Normalise runs passes 0–3 on fd (in place).
func Normalise(fset *token.FileSet, fd *ast.FuncDecl) *normer {
	n := &normer{fset: fset, fd: fd, locals: map[*ast.Object]bool{}}
	ast.Inspect(fd, func(x ast.Node) bool {
		if id, ok := x.(*ast.Ident); ok && id.Obj != nil && id.Obj.Kind == ast.Var {
			if p := id.Obj.Pos(); p >= fd.Pos() && p < fd.End() {
				n.locals[id.Obj] = true
			}
		}
		return true
	})
	if fd.Body == nil {
		return n
	}
	// pass 0
	rewriteExprs(fd, func(e ast.Expr) ast.Expr {
		if p, ok := e.(*ast.ParenExpr); ok {
			return p.X
		}
		return e
	})
	fd.Body.List = mapLists(fd.Body.List, n.hoist)
	// pass 1
	ast.Inspect(fd.Body, func(x ast.Node) bool {
		if rs, ok := x.(*ast.RangeStmt); ok {
			n.rangeElem(rs)
		}
		return true
	})
	// pass 2
	for i := 0; i < 50 && n.inlineOne(); i++ {
	}
	// pass 3
	ctx := ctxFunc
	if fd.Type.Results == nil || len(fd.Type.Results.List) == 0 {
		ctx = ctxVoidFunc
	}
	fd.Body.List = n.block(fd.Body.List, ctx)
	flattenPos(reflect.ValueOf(fd), fd.Pos())
	return n
}

var posType = reflect.TypeOf(token.NoPos)

// flattenPos gives every valid position below v the same value, so that go/printer lays the (rearranged) tree out
// from its structure alone instead of from the line numbers the pieces once had.
func flattenPos(v reflect.Value, p token.Pos) {
	t := v.Type()
	if t == objType || t == scopeType || t == cgType {
		return
	}
	switch v.Kind() {
	case reflect.Interface, reflect.Ptr:
		if !v.IsNil() {
			flattenPos(v.Elem(), p)
		}
	case reflect.Struct:
		for i := 0; i < v.NumField(); i++ {
			f := v.Field(i)
			if f.Type() == posType && f.CanSet() {
				// a zero position is a flag in these fields (no `...`, no parentheses, no alias, no arrow)
				switch t.Field(i).Name {
				case "Ellipsis", "Lparen", "Rparen", "Assign", "Arrow", "Opening", "Closing":
					if f.Int() == 0 {
						continue
					}
				}
				f.SetInt(int64(p))
				continue
			}
			flattenPos(f, p)
		}
	case reflect.Slice:
		for i := 0; i < v.Len(); i++ {
			flattenPos(v.Index(i), p)
		}
	}
}

// ---------------------------------------------------------------- pass 0

func hasBranch(list []ast.Stmt, tok token.Token) bool {
	found := false
	var walk func(s ast.Stmt, depth int)
	walk = func(s ast.Stmt, depth int) {
		ast.Inspect(s, func(x ast.Node) bool {
			switch t := x.(type) {
			case *ast.FuncLit:
				return false
			case *ast.ForStmt, *ast.RangeStmt, *ast.SwitchStmt, *ast.TypeSwitchStmt, *ast.SelectStmt:
				if tok == token.BREAK && x != ast.Node(s) {
					return false // a break in there belongs to the inner statement
				}
			case *ast.BranchStmt:
				if t.Tok == tok && t.Label == nil {
					found = true
				}
			}
			return true
		})
	}
	for _, s := range list {
		walk(s, 0)
	}
	return found
}

func (n *normer) switchToIf(s *ast.SwitchStmt) (ast.Stmt, bool) {
	var clauses []*ast.CaseClause
	var def *ast.CaseClause
	for _, c := range s.Body.List {
		cc := c.(*ast.CaseClause)
		if hasBranch(cc.Body, token.FALLTHROUGH) || hasBranch(cc.Body, token.BREAK) {
			return nil, false
		}
		if cc.List == nil {
			def = cc
		} else {
			clauses = append(clauses, cc)
		}
	}
	var tail ast.Stmt
	if def != nil {
		tail = &ast.BlockStmt{List: def.Body}
	}
	for i := len(clauses) - 1; i >= 0; i-- {
		cc := clauses[i]
		var cond ast.Expr
		for _, v := range cc.List {
			var c ast.Expr = v
			if s.Tag != nil {
				c = &ast.BinaryExpr{X: cloneExpr(s.Tag), Op: token.EQL, Y: v}
			}
			if cond == nil {
				cond = c
			} else {
				cond = &ast.BinaryExpr{X: cond, Op: token.LOR, Y: c}
			}
		}
		is := &ast.IfStmt{Cond: cond, Body: &ast.BlockStmt{List: cc.Body}}
		if tail != nil {
			if b, ok := tail.(*ast.BlockStmt); ok {
				is.Else = b
			} else {
				is.Else = &ast.BlockStmt{List: []ast.Stmt{tail}}
			}
		}
		tail = is
	}
	if tail == nil {
		return &ast.EmptyStmt{}, true
	}
	return tail, true
}

func (n *normer) hoist(list []ast.Stmt) []ast.Stmt {
	var out []ast.Stmt
	for _, s := range list {
		switch t := s.(type) {
		case *ast.IfStmt:
			if t.Init != nil {
				out = append(out, t.Init)
				t.Init = nil
			}
		case *ast.ForStmt:
			if t.Init != nil {
				out = append(out, t.Init)
				t.Init = nil
			}
		case *ast.SwitchStmt:
			if r, ok := n.switchToIf(t); ok {
				if t.Init != nil {
					out = append(out, t.Init)
				}
				if b, ok := r.(*ast.BlockStmt); ok { // only a default clause
					out = append(out, b.List...)
				} else {
					out = append(out, r)
				}
				continue
			}
		}
		out = append(out, s)
	}
	return out
}

// ---------------------------------------------------------------- pass 1

func rootIdent(e ast.Expr) *ast.Ident {
	for {
		switch t := e.(type) {
		case *ast.Ident:
			return t
		case *ast.SelectorExpr:
			e = t.X
		case *ast.IndexExpr:
			e = t.X
		case *ast.StarExpr:
			e = t.X
		case *ast.ParenExpr:
			e = t.X
		case *ast.SliceExpr:
			e = t.X
		default:
			return nil
		}
	}
}

func isBlank(e ast.Expr) bool {
	id, ok := e.(*ast.Ident)
	return ok && id.Name == "_"
}

func (n *normer) rangeElem(rs *ast.RangeStmt) {
	if rs.Tok != token.DEFINE && rs.Tok != token.ILLEGAL {
		return
	}
	xs := n.src(rs.X)
	var key *ast.Ident
	if rs.Key != nil && !isBlank(rs.Key) {
		key, _ = rs.Key.(*ast.Ident)
	}
	isElem := func(e ast.Expr) bool {
		ix, ok := e.(*ast.IndexExpr)
		if !ok || key == nil {
			return false
		}
		id, ok := ix.Index.(*ast.Ident)
		return ok && id.Obj == key.Obj && key.Obj != nil && n.src(ix.X) == xs
	}
	// the element must not be written through the index or have its address taken
	unsafe := false
	ast.Inspect(rs.Body, func(x ast.Node) bool {
		switch t := x.(type) {
		case *ast.AssignStmt:
			for _, l := range t.Lhs {
				for e := l; e != nil; {
					if isElem(e) {
						unsafe = true
					}
					switch u := e.(type) {
					case *ast.SelectorExpr:
						e = u.X
					case *ast.IndexExpr:
						e = u.X
					case *ast.StarExpr:
						e = u.X
					default:
						e = nil
					}
				}
			}
		case *ast.IncDecStmt:
			if isElem(t.X) {
				unsafe = true
			}
		case *ast.UnaryExpr:
			if t.Op == token.AND && isElem(t.X) {
				unsafe = true
			}
		}
		return true
	})
	if unsafe {
		return
	}
	var elem *ast.Object
	if rs.Value != nil && !isBlank(rs.Value) {
		if id, ok := rs.Value.(*ast.Ident); ok && id.Obj != nil {
			elem = id.Obj
		} else {
			return
		}
	}
	used := 0
	rewriteExprs(rs.Body, func(e ast.Expr) ast.Expr {
		if isElem(e) {
			if elem == nil {
				elem = newObj("elem")
				n.locals[elem] = true
			}
			used++
			return identOf(elem)
		}
		return e
	})
	if elem != nil {
		rs.Value = identOf(elem)
	} else {
		rs.Value = ast.NewIdent("_")
	}
	keyUsed := false
	if key != nil {
		ast.Inspect(rs.Body, func(x ast.Node) bool {
			if id, ok := x.(*ast.Ident); ok && id.Obj == key.Obj {
				keyUsed = true
			}
			return true
		})
	}
	if !keyUsed {
		rs.Key = ast.NewIdent("_")
	}
	rs.Tok = token.DEFINE
}

// ---------------------------------------------------------------- pass 2

var pureCallees = map[string]bool{"len": true, "cap": true, "uint8": true, "uint16": true, "uint32": true, "uint64": true,
	"int8": true, "int16": true, "int32": true, "int64": true, "int": true, "uint": true, "string": true,
	"IPToInt": true, "nets.IPToInt": true, "IntToIP": true, "nets.IntToIP": true}

func (n *normer) pure(e ast.Expr) bool {
	ok := true
	ast.Inspect(e, func(x ast.Node) bool {
		switch t := x.(type) {
		case *ast.CallExpr:
			if !pureCallees[n.src(t.Fun)] {
				ok = false
			}
		case *ast.FuncLit, *ast.CompositeLit, *ast.TypeAssertExpr:
			ok = false
		case *ast.UnaryExpr:
			if t.Op == token.ARROW {
				ok = false
			}
		}
		return ok
	})
	return ok
}

// inlineOne inlines one single-assignment local; false if there is none left.
func (n *normer) inlineOne() bool {
	body := n.fd.Body
	// sequence numbers of identifiers, writes per object
	seq := map[*ast.Ident]int{}
	k := 0
	ast.Inspect(body, func(x ast.Node) bool {
		if id, ok := x.(*ast.Ident); ok {
			k++
			seq[id] = k
		}
		return true
	})
	type write struct {
		at    int
		exact bool
	}
	writes := map[*ast.Object][]write{}
	addrTaken := map[*ast.Object]bool{}
	noteLHS := func(l ast.Expr) {
		if r := rootIdent(l); r != nil && r.Obj != nil {
			_, exact := l.(*ast.Ident)
			writes[r.Obj] = append(writes[r.Obj], write{seq[r], exact})
		}
	}
	ast.Inspect(body, func(x ast.Node) bool {
		switch t := x.(type) {
		case *ast.AssignStmt:
			for _, l := range t.Lhs {
				noteLHS(l)
			}
		case *ast.IncDecStmt:
			noteLHS(t.X)
		case *ast.RangeStmt:
			if t.Key != nil {
				noteLHS(t.Key)
			}
			if t.Value != nil {
				noteLHS(t.Value)
			}
		case *ast.UnaryExpr:
			if t.Op == token.AND {
				if r := rootIdent(t.X); r != nil && r.Obj != nil {
					if _, exact := t.X.(*ast.Ident); exact {
						addrTaken[r.Obj] = true
					}
				}
			}
		}
		return true
	})
	var cand *ast.AssignStmt
	ast.Inspect(body, func(x ast.Node) bool {
		as, ok := x.(*ast.AssignStmt)
		if cand != nil || !ok || as.Tok != token.DEFINE || len(as.Lhs) != 1 || len(as.Rhs) != 1 {
			return cand == nil
		}
		id, ok := as.Lhs[0].(*ast.Ident)
		if !ok || id.Obj == nil || id.Name == "_" || !n.locals[id.Obj] || addrTaken[id.Obj] || !n.pure(as.Rhs[0]) {
			return true
		}
		_, isAddr := as.Rhs[0].(*ast.UnaryExpr)
		isAddr = isAddr && as.Rhs[0].(*ast.UnaryExpr).Op == token.AND
		exact := 0
		for _, w := range writes[id.Obj] {
			if w.exact {
				exact++
			} else if !isAddr {
				return true // a field / element of the copy is written
			}
		}
		if exact != 1 {
			return true
		}
		// nothing the right-hand side reads may be written after the definition
		def := seq[id]
		bad := false
		ast.Inspect(as.Rhs[0], func(y ast.Node) bool {
			if b, ok := y.(*ast.Ident); ok && b.Obj != nil {
				for _, w := range writes[b.Obj] {
					if w.at > def {
						bad = true
					}
				}
			}
			return true
		})
		uses := 0
		ast.Inspect(body, func(y ast.Node) bool {
			if u, ok := y.(*ast.Ident); ok && u.Obj == id.Obj && u != id {
				uses++
			}
			return true
		})
		if bad || uses == 0 {
			return true
		}
		cand = as
		return false
	})
	if cand == nil {
		return false
	}
	obj := cand.Lhs[0].(*ast.Ident).Obj
	rhs := cand.Rhs[0]
	// remove the definition, substitute the uses
	n.fd.Body.List = mapLists(n.fd.Body.List, func(l []ast.Stmt) []ast.Stmt {
		var out []ast.Stmt
		for _, s := range l {
			if s != ast.Stmt(cand) {
				out = append(out, s)
			}
		}
		return out
	})
	rewriteExprs(n.fd.Body, func(e ast.Expr) ast.Expr {
		switch t := e.(type) {
		case *ast.Ident:
			if t.Obj == obj {
				return cloneExpr(rhs)
			}
		case *ast.SelectorExpr: // (&x).f == x.f
			if u, ok := t.X.(*ast.UnaryExpr); ok && u.Op == token.AND {
				t.X = u.X
			}
		case *ast.StarExpr: // *&x == x
			if u, ok := t.X.(*ast.UnaryExpr); ok && u.Op == token.AND {
				return u.X
			}
		}
		return e
	})
	delete(n.locals, obj)
	return true
}

// ---------------------------------------------------------------- pass 3

const (
	ctxOther = iota
	ctxFunc
	ctxVoidFunc
	ctxLoop
)

func isArith(e ast.Node) bool {
	found := false
	ast.Inspect(e, func(x ast.Node) bool {
		if c, ok := x.(*ast.CallExpr); ok {
			switch f := c.Fun.(type) {
			case *ast.Ident:
				found = found || f.Name == "IPToInt"
			case *ast.SelectorExpr:
				found = found || f.Sel.Name == "IPToInt"
			}
		}
		return !found
	})
	return found
}

func (n *normer) isLog(s ast.Stmt) bool {
	es, ok := s.(*ast.ExprStmt)
	if !ok {
		return false
	}
	c, ok := es.X.(*ast.CallExpr)
	if !ok {
		return false
	}
	f := n.src(c.Fun)
	return strings.HasPrefix(f, "glog.") || strings.HasPrefix(f, "klog.") || strings.HasPrefix(f, "log.") ||
		strings.HasPrefix(f, "fmt.Print")
}

func terminates(list []ast.Stmt) bool {
	if len(list) == 0 {
		return false
	}
	switch t := list[len(list)-1].(type) {
	case *ast.ReturnStmt:
		return true
	case *ast.BranchStmt:
		return t.Tok != token.FALLTHROUGH
	case *ast.ExprStmt:
		if c, ok := t.X.(*ast.CallExpr); ok {
			if id, ok := c.Fun.(*ast.Ident); ok && id.Name == "panic" {
				return true
			}
		}
	case *ast.BlockStmt:
		return terminates(t.List)
	case *ast.IfStmt:
		if t.Else == nil {
			return false
		}
		if b, ok := t.Else.(*ast.BlockStmt); ok {
			return terminates(t.Body.List) && terminates(b.List)
		}
		return terminates(t.Body.List) && terminates([]ast.Stmt{t.Else})
	}
	return false
}

var negOp = map[token.Token]token.Token{token.EQL: token.NEQ, token.NEQ: token.EQL, token.LSS: token.GEQ,
	token.GEQ: token.LSS, token.GTR: token.LEQ, token.LEQ: token.GTR}

// not returns the negation of a condition with the negation pushed inwards (arithmetic is only wrapped).
func (n *normer) not(e ast.Expr) ast.Expr {
	if isArith(e) {
		if u, ok := e.(*ast.UnaryExpr); ok && u.Op == token.NOT {
			return u.X
		}
		return &ast.UnaryExpr{Op: token.NOT, X: e}
	}
	switch t := e.(type) {
	case *ast.ParenExpr:
		return n.not(t.X)
	case *ast.UnaryExpr:
		if t.Op == token.NOT {
			return n.cond(t.X)
		}
	case *ast.BinaryExpr:
		if op, ok := negOp[t.Op]; ok {
			return &ast.BinaryExpr{X: t.X, Op: op, Y: t.Y}
		}
		if t.Op == token.LAND {
			return &ast.BinaryExpr{X: n.not(t.X), Op: token.LOR, Y: n.not(t.Y)}
		}
		if t.Op == token.LOR {
			return &ast.BinaryExpr{X: n.not(t.X), Op: token.LAND, Y: n.not(t.Y)}
		}
	case *ast.Ident:
		if t.Name == "true" && t.Obj == nil {
			return ast.NewIdent("false")
		}
		if t.Name == "false" && t.Obj == nil {
			return ast.NewIdent("true")
		}
	}
	return &ast.UnaryExpr{Op: token.NOT, X: e}
}

// cond pushes negations inwards.
func (n *normer) cond(e ast.Expr) ast.Expr {
	if e == nil || isArith(e) {
		return e
	}
	switch t := e.(type) {
	case *ast.ParenExpr:
		return n.cond(t.X)
	case *ast.UnaryExpr:
		if t.Op == token.NOT {
			return n.not(t.X)
		}
	case *ast.BinaryExpr:
		if t.Op == token.LAND || t.Op == token.LOR {
			return &ast.BinaryExpr{X: n.cond(t.X), Op: t.Op, Y: n.cond(t.Y)}
		}
	}
	return e
}

func boolLit(e ast.Expr) (bool, bool) {
	id, ok := e.(*ast.Ident)
	if !ok || id.Obj != nil {
		return false, false
	}
	return id.Name == "true", id.Name == "true" || id.Name == "false"
}

func isNil(e ast.Expr) bool {
	id, ok := e.(*ast.Ident)
	return ok && id.Name == "nil" && id.Obj == nil
}

// fold: `if c {return true}; return false` -> `return c`;  `if e != nil {return e}; return nil` -> `return e`
func (n *normer) fold(out []ast.Stmt) []ast.Stmt {
	for len(out) >= 2 {
		ret, ok2 := out[len(out)-1].(*ast.ReturnStmt)
		// `x := e; return x` (x used nowhere else) -> `return e`
		if as, ok := out[len(out)-2].(*ast.AssignStmt); ok && ok2 && as.Tok == token.DEFINE && len(as.Lhs) == 1 &&
			len(as.Rhs) == 1 && len(ret.Results) == 1 {
			x, okx := as.Lhs[0].(*ast.Ident)
			r, okr := ret.Results[0].(*ast.Ident)
			if okx && okr && x.Obj != nil && r.Obj == x.Obj {
				out = append(out[:len(out)-2], &ast.ReturnStmt{Results: []ast.Expr{as.Rhs[0]}})
				continue
			}
		}
		is, ok1 := out[len(out)-2].(*ast.IfStmt)
		if !ok1 || !ok2 || is.Else != nil || is.Init != nil || len(is.Body.List) != 1 || len(ret.Results) != 1 {
			break
		}
		in, ok := is.Body.List[0].(*ast.ReturnStmt)
		if !ok || len(in.Results) != 1 {
			break
		}
		if a, okA := boolLit(in.Results[0]); okA && !isArith(is.Cond) && !isArith(ret.Results[0]) {
			c := is.Cond
			if !a {
				c = n.not(c)
			}
			if b, okB := boolLit(ret.Results[0]); okB {
				if a != b {
					out = append(out[:len(out)-2], &ast.ReturnStmt{Results: []ast.Expr{c}})
					continue
				}
			} else if a { // if c {return true}; return x  ==  return c || x
				out = append(out[:len(out)-2], &ast.ReturnStmt{Results: []ast.Expr{&ast.BinaryExpr{X: c, Op: token.LOR, Y: ret.Results[0]}}})
				continue
			} else { // if c {return false}; return x  ==  return !c && x
				out = append(out[:len(out)-2], &ast.ReturnStmt{Results: []ast.Expr{&ast.BinaryExpr{X: c, Op: token.LAND, Y: ret.Results[0]}}})
				continue
			}
		}
		if be, ok := is.Cond.(*ast.BinaryExpr); ok && be.Op == token.NEQ && isNil(ret.Results[0]) {
			x, y := be.X, be.Y
			if isNil(x) {
				x, y = y, x
			}
			if isNil(y) && n.src(x) == n.src(in.Results[0]) {
				out = append(out[:len(out)-2], &ast.ReturnStmt{Results: []ast.Expr{x}})
				continue
			}
		}
		break
	}
	return out
}

func (n *normer) occurrences(o *ast.Object) int {
	k := 0
	ast.Inspect(n.fd.Body, func(x ast.Node) bool {
		if id, ok := x.(*ast.Ident); ok && id.Obj == o {
			k++
		}
		return true
	})
	return k
}

func bareJump(list []ast.Stmt, ctx int) bool {
	if len(list) != 1 {
		return false
	}
	switch t := list[0].(type) {
	case *ast.BranchStmt:
		return ctx == ctxLoop && t.Tok == token.CONTINUE && t.Label == nil
	case *ast.ReturnStmt:
		return ctx == ctxVoidFunc && len(t.Results) == 0
	}
	return false
}

func (n *normer) block(list []ast.Stmt, ctx int) []ast.Stmt {
	var out []ast.Stmt
	for i := 0; i < len(list); i++ {
		s := list[i]
		rest := list[i+1:]
		inner := ctxOther
		if len(rest) == 0 {
			inner = ctx
		}
		if _, ok := s.(*ast.EmptyStmt); ok || n.isLog(s) {
			continue
		}
		switch t := s.(type) {
		case *ast.BlockStmt:
			t.List = n.block(t.List, inner)
		case *ast.ForStmt:
			t.Cond = n.cond(t.Cond)
			t.Body.List = n.block(t.Body.List, ctxLoop)
		case *ast.RangeStmt:
			t.Body.List = n.block(t.Body.List, ctxLoop)
		case *ast.LabeledStmt:
			t.Stmt = n.block([]ast.Stmt{t.Stmt}, ctxOther)[0]
		case *ast.IfStmt:
			t.Cond = n.cond(t.Cond)
			bodyRaw := t.Body.List
			var elsRaw []ast.Stmt
			if b, ok := t.Else.(*ast.BlockStmt); ok {
				elsRaw = b.List
			} else if t.Else != nil {
				elsRaw = []ast.Stmt{t.Else}
			}
			switch {
			case t.Else != nil && terminates(bodyRaw):
				t.Else = nil
				t.Body.List = n.block(bodyRaw, ctxOther)
				out = append(out, t)
				return n.fold(append(out, n.block(append(append([]ast.Stmt{}, elsRaw...), rest...), ctx)...))
			case t.Else != nil && terminates(elsRaw) && !isArith(t.Cond):
				t.Else = nil
				t.Cond = n.not(t.Cond)
				t.Body.List = n.block(elsRaw, ctxOther)
				out = append(out, t)
				return n.fold(append(out, n.block(append(append([]ast.Stmt{}, bodyRaw...), rest...), ctx)...))
			case t.Else != nil:
				t.Body.List = n.block(bodyRaw, inner)
				t.Else = &ast.BlockStmt{List: n.block(elsRaw, inner)}
			case len(rest) > 0 && bareJump(bodyRaw, ctx) && !isArith(t.Cond):
				t.Cond = n.not(t.Cond)
				t.Body.List = n.block(rest, ctx)
				return n.fold(append(out, t))
			default:
				t.Body.List = n.block(bodyRaw, inner)
			}
		}
		out = append(out, s)
	}
	return n.fold(out)
}

// ---------------------------------------------------------------- canonical text

func (n *normer) isErrorCtor(e ast.Expr) bool {
	c, ok := e.(*ast.CallExpr)
	if !ok {
		return false
	}
	f := n.src(c.Fun)
	return f == "fmt.Errorf" || f == "errors.New"
}

// sprintfConcat turns fmt.Sprintf with only %s / %d verbs into a concatenation.
func (n *normer) sprintfConcat(c *ast.CallExpr) (ast.Expr, bool) {
	if n.src(c.Fun) != "fmt.Sprintf" || len(c.Args) == 0 {
		return nil, false
	}
	lit, ok := c.Args[0].(*ast.BasicLit)
	if !ok || lit.Kind != token.STRING {
		return nil, false
	}
	format, err := strconv.Unquote(lit.Value)
	if err != nil {
		return nil, false
	}
	var parts []ast.Expr
	arg := 1
	text := ""
	flush := func() {
		if text != "" {
			parts = append(parts, &ast.BasicLit{Kind: token.STRING, Value: strconv.Quote(text)})
			text = ""
		}
	}
	for i := 0; i < len(format); i++ {
		if format[i] != '%' {
			text += string(format[i])
			continue
		}
		if i+1 >= len(format) || arg >= len(c.Args)+1 {
			return nil, false
		}
		i++
		switch format[i] {
		case '%':
			text += "%"
		case 's':
			if arg >= len(c.Args) {
				return nil, false
			}
			flush()
			parts = append(parts, c.Args[arg])
			arg++
		case 'd':
			if arg >= len(c.Args) {
				return nil, false
			}
			flush()
			parts = append(parts, &ast.CallExpr{Fun: ast.NewIdent("ITOA"), Args: []ast.Expr{c.Args[arg]}})
			arg++
		default:
			return nil, false
		}
	}
	flush()
	if arg != len(c.Args) || len(parts) == 0 {
		return nil, false
	}
	r := parts[0]
	for _, p := range parts[1:] {
		r = &ast.BinaryExpr{X: r, Op: token.ADD, Y: p}
	}
	return r, true
}

func flatten(e ast.Expr, op token.Token, out *[]ast.Expr) {
	if b, ok := e.(*ast.BinaryExpr); ok && b.Op == op {
		flatten(b.X, op, out)
		flatten(b.Y, op, out)
		return
	}
	*out = append(*out, e)
}

// Canon returns the canonical text of the normalised function (see the file comment). It destroys names.
func (n *normer) Canon() string {
	fd := n.fd
	// arithmetic -> ARITH (statement-level conditions and results), errors -> ERROR, Sprintf -> concatenation
	if fd.Body != nil {
		ast.Inspect(fd.Body, func(x ast.Node) bool {
			switch t := x.(type) {
			case *ast.IfStmt:
				if isArith(t.Cond) {
					t.Cond = n.arithHole(t.Cond)
				}
			case *ast.ForStmt:
				if t.Cond != nil && isArith(t.Cond) {
					t.Cond = ast.NewIdent("ARITH")
				}
			case *ast.ReturnStmt:
				for i, r := range t.Results {
					if isArith(r) {
						t.Results[i] = ast.NewIdent("ARITH")
					}
				}
			}
			return true
		})
		rewriteExprs(fd.Body, func(e ast.Expr) ast.Expr {
			if n.isErrorCtor(e) {
				return ast.NewIdent("ERROR")
			}
			if c, ok := e.(*ast.CallExpr); ok {
				if r, ok := n.sprintfConcat(c); ok {
					return r
				}
				if f := n.src(c.Fun); f == "strconv.Itoa" && len(c.Args) == 1 {
					a := c.Args[0]
					if conv, ok := a.(*ast.CallExpr); ok && n.src(conv.Fun) == "int" && len(conv.Args) == 1 {
						a = conv.Args[0]
					}
					return &ast.CallExpr{Fun: ast.NewIdent("ITOA"), Args: []ast.Expr{a}}
				}
			}
			return e
		})
		// nested ifs -> &&
		fd.Body.List = mapLists(fd.Body.List, func(l []ast.Stmt) []ast.Stmt {
			for _, s := range l {
				for {
					is, ok := s.(*ast.IfStmt)
					if !ok || is.Else != nil || len(is.Body.List) != 1 {
						break
					}
					in, ok := is.Body.List[0].(*ast.IfStmt)
					if !ok || in.Else != nil || in.Init != nil {
						break
					}
					is.Cond = &ast.BinaryExpr{X: is.Cond, Op: token.LAND, Y: in.Cond}
					is.Body = in.Body
				}
			}
			return l
		})
	}
	// range variables which are not used (any more) are blank
	if fd.Body != nil {
		ast.Inspect(fd.Body, func(x ast.Node) bool {
			if rs, ok := x.(*ast.RangeStmt); ok {
				for _, slot := range []*ast.Expr{&rs.Key, &rs.Value} {
					if id, ok := (*slot).(*ast.Ident); ok && id.Obj != nil && n.locals[id.Obj] && n.occurrences(id.Obj) == 1 {
						*slot = ast.NewIdent("_")
					}
				}
			}
			return true
		})
	}
	// alpha-renaming, step 1: mask every local (decisions below must not depend on names or numbering)
	ast.Inspect(fd, func(x ast.Node) bool {
		if id, ok := x.(*ast.Ident); ok && id.Obj != nil && n.locals[id.Obj] {
			id.Name = "L"
		}
		return true
	})
	// operand order of commutative operators, orientation of if / else
	if fd.Body != nil {
		rewriteExprs(fd.Body, func(e ast.Expr) ast.Expr {
			b, ok := e.(*ast.BinaryExpr)
			if !ok {
				return e
			}
			switch b.Op {
			case token.LAND, token.LOR:
				var ops []ast.Expr
				flatten(b, b.Op, &ops)
				sort.SliceStable(ops, func(i, j int) bool { return n.src(ops[i]) < n.src(ops[j]) })
				r, prev := ops[0], n.src(ops[0])
				for _, o := range ops[1:] {
					if t := n.src(o); t != prev {
						r, prev = &ast.BinaryExpr{X: r, Op: b.Op, Y: o}, t
					}
				}
				return r
			case token.EQL, token.NEQ:
				if n.src(b.Y) < n.src(b.X) {
					b.X, b.Y = b.Y, b.X
				}
			}
			return e
		})
		ast.Inspect(fd.Body, func(x ast.Node) bool {
			if is, ok := x.(*ast.IfStmt); ok && is.Else != nil {
				if eb, ok := is.Else.(*ast.BlockStmt); ok {
					if neg := n.not(is.Cond); n.src(neg) < n.src(is.Cond) {
						is.Cond = neg
						is.Body, is.Else = eb, is.Body
					}
				}
			}
			return true
		})
		// `if c {A; return}; B; return` == `if !c {B; return}; A; return`: the smaller condition goes first
		var orient func(l []ast.Stmt) []ast.Stmt
		orient = func(l []ast.Stmt) []ast.Stmt {
			for i, s := range l {
				is, ok := s.(*ast.IfStmt)
				if !ok || is.Else != nil || !terminates(is.Body.List) || !terminates(l[i+1:]) || isArith(is.Cond) {
					continue
				}
				if neg := n.not(is.Cond); n.src(neg) < n.src(is.Cond) {
					rest := append([]ast.Stmt{}, l[i+1:]...)
					body := is.Body.List
					is.Cond = neg
					is.Body = &ast.BlockStmt{List: orient(rest)}
					return append(append(append([]ast.Stmt{}, l[:i]...), is), orient(body)...)
				}
				return append(append([]ast.Stmt{}, l[:i+1]...), orient(l[i+1:])...)
			}
			return l
		}
		fd.Body.List = mapLists(fd.Body.List, orient)
	}
	// alpha-renaming, step 2: number the locals in order of first occurrence
	num := map[*ast.Object]string{}
	ast.Inspect(fd, func(x ast.Node) bool {
		if id, ok := x.(*ast.Ident); ok && id.Obj != nil && n.locals[id.Obj] {
			if _, ok := num[id.Obj]; !ok {
				num[id.Obj] = "L" + strconv.Itoa(len(num)+1)
			}
			id.Name = num[id.Obj]
		}
		return true
	})
	fd.Doc = nil
	return n.src(fd)
}

// arithHole keeps the non-arithmetic conjuncts of a condition and replaces the arithmetic ones by ARITH.
func (n *normer) arithHole(e ast.Expr) ast.Expr {
	if b, ok := e.(*ast.BinaryExpr); ok && b.Op == token.LAND {
		return &ast.BinaryExpr{X: n.arithHole(b.X), Op: token.LAND, Y: n.arithHole(b.Y)}
	}
	if isArith(e) {
		return ast.NewIdent("ARITH")
	}
	return e
}

// ---------------------------------------------------------------- helpers for callers and tests

// findFunc finds a function / method in a parsed file (receiver type name without star; "" = plain function).
func findFunc(f *ast.File, recv, name string) *ast.FuncDecl {
	for _, d := range f.Decls {
		fd, ok := d.(*ast.FuncDecl)
		if !ok || fd.Name.Name != name {
			continue
		}
		if recv == "" && fd.Recv == nil {
			return fd
		}
		if recv != "" && fd.Recv != nil && len(fd.Recv.List) == 1 {
			t := fd.Recv.List[0].Type
			if s, ok := t.(*ast.StarExpr); ok {
				t = s.X
			}
			if id, ok := t.(*ast.Ident); ok && id.Name == recv {
				return fd
			}
		}
	}
	return nil
}

// CanonSource parses Go source (a file, or declarations without package clause) and returns the canonical text of
// one function.
func CanonSource(src, recv, name string) (string, error) {
	if !strings.HasPrefix(strings.TrimSpace(src), "package ") {
		src = "package p\n" + src
	}
	fset := token.NewFileSet()
	f, err := parser.ParseFile(fset, "src.go", src, 0)
	if err != nil {
		return "", err
	}
	fd := findFunc(f, recv, name)
	if fd == nil {
		return "", fmt.Errorf("function %s.%s not found", recv, name)
	}
	return Normalise(fset, fd).Canon(), nil
}
