package main

import (
	"go/ast"
	"go/parser"
	"go/token"
	"testing"
)

func canon(t *testing.T, src, recv, name string) string {
	t.Helper()
	c, err := CanonSource(src, recv, name)
	if err != nil {
		t.Fatalf("%v\n%s", err, src)
	}
	return c
}

// same: all variants normalise to the same text; differ: each of them differs from the first of `same`.
type eqCase struct {
	name       string
	recv, fn   string
	same       []string
	mustDiffer []string
}

var eqCases = []eqCase{
	{name: "guard clause == if/else (H03)", fn: "f",
		same: []string{
			`func f(c *Conf, p *Pool) error { if c.Gateway != nil { p.Gateway = c.Gateway } else { return fmt.Errorf("gateway is empty") }; p.V = c.V; return nil }`,
			`func f(c *Conf, p *Pool) error { if c.Gateway == nil { return fmt.Errorf("no gateway") }; p.Gateway = c.Gateway; p.V = c.V; return nil }`,
			`func f(conf *Conf, pool *Pool) error { if !(conf.Gateway != nil) { return errors.New("x") }
				pool.Gateway = conf.Gateway
				pool.V = conf.V
				return nil }`,
		},
		mustDiffer: []string{
			// guard dropped
			`func f(c *Conf, p *Pool) error { p.Gateway = c.Gateway; p.V = c.V; return nil }`,
			// guard moved behind the assignment
			`func f(c *Conf, p *Pool) error { p.Gateway = c.Gateway; if c.Gateway == nil { return fmt.Errorf("e") }; p.V = c.V; return nil }`,
			// error class changed (nil instead of an error)
			`func f(c *Conf, p *Pool) error { if c.Gateway == nil { return nil }; p.Gateway = c.Gateway; p.V = c.V; return nil }`,
			// other field
			`func f(c *Conf, p *Pool) error { if c.Subnet == nil { return fmt.Errorf("e") }; p.Gateway = c.Gateway; p.V = c.V; return nil }`,
		}},
	{name: "alpha renaming incl. a local shadowing a package (H03)", fn: "check",
		same: []string{
			`func check(fip *Pool) error { net := net.IPNet{IP: fip.Gateway, Mask: fip.Mask}
				for i := range fip.Ranges { if !net.Contains(fip.Ranges[i].First) || !net.Contains(fip.Ranges[i].Last) { return fmt.Errorf("%s", net.String()) } }
				return nil }`,
			`func check(fip *Pool) error { subnet := net.IPNet{IP: fip.Gateway, Mask: fip.Mask}
				for i := range fip.Ranges { if !subnet.Contains(fip.Ranges[i].First) || !subnet.Contains(fip.Ranges[i].Last) { return fmt.Errorf("x %s", subnet.String()) } }
				return nil }`,
			`func check(p *Pool) error { n := net.IPNet{IP: p.Gateway, Mask: p.Mask}
				for _, r := range p.Ranges { if !n.Contains(r.Last) || !n.Contains(r.First) { return errors.New("e") } }
				return nil }`,
			`func check(p *Pool) error { n := net.IPNet{IP: p.Gateway, Mask: p.Mask}
				for _, r := range p.Ranges { if n.Contains(r.First) && n.Contains(r.Last) { continue }; return errors.New("e") }
				return nil }`,
		},
		mustDiffer: []string{
			// seeded C20-2: the subnet comes from a parameter
			`func check(fip *Pool, subnet *net.IPNet) error {
				for i := range fip.Ranges { if !subnet.Contains(fip.Ranges[i].First) || !subnet.Contains(fip.Ranges[i].Last) { return fmt.Errorf("e") } }
				return nil }`,
			// seeded C20-3: the subnet is built from something else
			`func check(fip *Pool, subnet *net.IPNet) error { net := net.IPNet{IP: subnet.IP.Mask(subnet.Mask), Mask: subnet.Mask}
				for i := range fip.Ranges { if !net.Contains(fip.Ranges[i].First) || !net.Contains(fip.Ranges[i].Last) { return fmt.Errorf("e") } }
				return nil }`,
			// only one end checked
			`func check(fip *Pool) error { net := net.IPNet{IP: fip.Gateway, Mask: fip.Mask}
				for i := range fip.Ranges { if !net.Contains(fip.Ranges[i].First) { return fmt.Errorf("e") } }
				return nil }`,
			// && instead of ||
			`func check(fip *Pool) error { net := net.IPNet{IP: fip.Gateway, Mask: fip.Mask}
				for i := range fip.Ranges { if !net.Contains(fip.Ranges[i].First) && !net.Contains(fip.Ranges[i].Last) { return fmt.Errorf("e") } }
				return nil }`,
			// Mask and IP swapped
			`func check(fip *Pool) error { net := net.IPNet{IP: fip.Mask, Mask: fip.Gateway}
				for i := range fip.Ranges { if !net.Contains(fip.Ranges[i].First) || !net.Contains(fip.Ranges[i].Last) { return fmt.Errorf("e") } }
				return nil }`,
		}},
	{name: "dropped else after return (H04)", fn: "parse",
		same: []string{
			`func parse(s string) *R { if strings.Contains(s, Sep) { a := net.ParseIP(s); if a == nil { return nil }; return &R{a, a} } else { ip := net.ParseIP(s); if len(ip) == 0 { return nil }; return &R{ip, ip} } }`,
			`func parse(s string) *R { if strings.Contains(s, Sep) { a := net.ParseIP(s); if a == nil { return nil }; return &R{a, a} }
				// a single ip
				ip := net.ParseIP(s); if len(ip) == 0 { return nil }; return &R{ip, ip} }`,
			`func parse(text string) *R { if !strings.Contains(text, Sep) { x := net.ParseIP(text); if len(x) == 0 { return nil }; return &R{x, x} }
				first := net.ParseIP(text); if nil == first { return nil }; return &R{first, first} }`,
		},
		mustDiffer: []string{
			`func parse(s string) *R { if strings.Contains(s, Sep) { a := net.ParseIP(s); return &R{a, a} }; ip := net.ParseIP(s); if len(ip) == 0 { return nil }; return &R{ip, ip} }`,
			`func parse(s string) *R { if strings.Contains(s, Sep) { a := net.ParseIP(s); if a == nil { return nil }; return &R{a, a} }; ip := net.ParseIP(s); if len(ip) == 1 { return nil }; return &R{ip, ip} }`,
		}},
	{name: "return cond == if !cond {return false}; return true (H04)", recv: "IPNet", fn: "Equal",
		same: []string{
			`func (n *IPNet) Equal(o *net.IPNet) bool { if !n.IP.Equal(o.IP) { return false }; if !bytesEqual(n.Mask, o.Mask) { return false }; return true }`,
			`func (n *IPNet) Equal(o *net.IPNet) bool { if !n.IP.Equal(o.IP) { return false }; return bytesEqual(n.Mask, o.Mask) }`,
			`func (a *IPNet) Equal(b *net.IPNet) bool { if bytesEqual(a.Mask, b.Mask) && a.IP.Equal(b.IP) { return true } else { return false } }`,
			`func (n *IPNet) Equal(o *net.IPNet) bool { return n.IP.Equal(o.IP) && bytesEqual(n.Mask, o.Mask) }`,
		},
		mustDiffer: []string{
			`func (n *IPNet) Equal(o *net.IPNet) bool { return n.IP.Equal(o.IP) || bytesEqual(n.Mask, o.Mask) }`,
			`func (n *IPNet) Equal(o *net.IPNet) bool { if !n.IP.Equal(o.IP) { return false }; return !bytesEqual(n.Mask, o.Mask) }`,
			`func (n *IPNet) Equal(o *net.IPNet) bool { return bytesEqual(n.Mask, o.Mask) }`,
		}},
	{name: "switch == if chain, else-if", fn: "toInt",
		same: []string{
			`func toInt(ip net.IP) uint32 { if len(ip) == 16 { return be(ip[12:16]) } else if len(ip) == 4 { return be(ip) }; return 0 }`,
			`func toInt(ip net.IP) uint32 { switch len(ip) { case 16: return be(ip[12:16]); case 4: return be(ip) }; return 0 }`,
			`func toInt(addr net.IP) uint32 { switch { case len(addr) == 16: return be(addr[12:16]); case 4 == len(addr): return be(addr); default: return 0 } }`,
			`func toInt(ip net.IP) uint32 { n := len(ip); if n == 16 { return be(ip[12:16]) }; if n == 4 { return be(ip) }; return 0 }`,
		},
		mustDiffer: []string{
			`func toInt(ip net.IP) uint32 { if len(ip) == 16 { return be(ip[0:4]) } else if len(ip) == 4 { return be(ip) }; return 0 }`,
			`func toInt(ip net.IP) uint32 { if len(ip) == 16 { return be(ip[12:16]) }; return 0 }`,
			`func toInt(ip net.IP) uint32 { if len(ip) == 16 { return be(ip[12:16]) } else if len(ip) == 4 { return be(ip) }; return 1 }`,
		}},
	{name: "range forms, inlined locals, logging, hoisted init, err return", fn: "g",
		same: []string{
			`func g(xs []*T, m map[string]bool) error { for i := range xs { if xs[i] == nil { return fmt.Errorf("nil %d", i) }; v := xs[i].Name; if _, ok := m[v]; !ok { m[v] = true } }; if err := done(m); err != nil { return err }; return nil }`,
			`func g(list []*T, seen map[string]bool) error { for _, x := range list { if x == nil { return errors.New("nil") }; _, ok := seen[x.Name]; if !ok { glog.Infof("new %s", x.Name); seen[x.Name] = true } }; err := done(seen); return err }`,
			`func g(xs []*T, m map[string]bool) error { for i, x := range xs { if x == nil { return fmt.Errorf("nil %d", i) }; _, ok := m[x.Name]; if ok { continue }; m[x.Name] = true }; return done(m) }`,
		},
		mustDiffer: []string{
			`func g(xs []*T, m map[string]bool) error { for i := range xs { v := xs[i].Name; if _, ok := m[v]; !ok { m[v] = true } }; return done(m) }`,
		}},
	{name: "Sprintf == concatenation", recv: "R", fn: "String",
		same: []string{
			`func (r R) String() string { if r.First.Equal(r.Last) { return r.First.String() }; return fmt.Sprintf("%s%s%s", r.First.String(), Sep, r.Last.String()) }`,
			`func (ipr R) String() string { if ipr.First.Equal(ipr.Last) { return ipr.First.String() }; return ipr.First.String() + Sep + ipr.Last.String() }`,
			`func (ipr R) String() string { if !ipr.First.Equal(ipr.Last) { return ipr.First.String() + Sep + ipr.Last.String() } else { return ipr.First.String() } }`,
		},
		mustDiffer: []string{
			`func (r R) String() string { return fmt.Sprintf("%s%s%s", r.First.String(), Sep, r.Last.String()) }`,
			`func (r R) String() string { if r.First.Equal(r.Last) { return r.First.String() }; return fmt.Sprintf("%s%s%s", r.Last.String(), Sep, r.First.String()) }`,
			`func (r R) String() string { if r.First.Equal(r.Last) { return r.First.String() }; return fmt.Sprintf("%s-%s", r.First.String(), r.Last.String()) }`,
		}},
	{name: "arithmetic conditions are holes, their guards are not", fn: "chk",
		same: []string{
			`func chk(p *P) error { for i := range p.R { if i != 0 { if uint64(nets.IPToInt(p.R[i].First)) <= uint64(nets.IPToInt(p.R[i-1].Last))+1 { return fmt.Errorf("e") } } }; return nil }`,
			`func chk(p *P) error { for i, r := range p.R { if i != 0 && nets.IPToInt(r.First)-1 <= nets.IPToInt(p.R[i-1].Last) { return fmt.Errorf("e") } }; return nil }`,
			`func chk(p *P) error { for i, r := range p.R { if i == 0 { continue }; if uint64(nets.IPToInt(r.First)) <= uint64(nets.IPToInt(p.R[i-1].Last))+1 { return fmt.Errorf("e") } }; return nil }`,
		},
		mustDiffer: []string{
			`func chk(p *P) error { for i := range p.R { if uint64(nets.IPToInt(p.R[i].First)) <= uint64(nets.IPToInt(p.R[i-1].Last))+1 { return fmt.Errorf("e") } }; return nil }`,
			`func chk(p *P) error { for i := range p.R { if i != 1 { if uint64(nets.IPToInt(p.R[i].First)) <= uint64(nets.IPToInt(p.R[i-1].Last))+1 { return fmt.Errorf("e") } } }; return nil }`,
			`func chk(p *P) error { return nil }`,
		}},
}

func TestNormaliseEquivalences(t *testing.T) {
	for _, c := range eqCases {
		ref := canon(t, c.same[0], c.recv, c.fn)
		for i, s := range c.same[1:] {
			if got := canon(t, s, c.recv, c.fn); got != ref {
				t.Errorf("%s: variant %d is not recognised as the same\n  ref: %s\n  got: %s", c.name, i+1, ref, got)
			}
		}
		for i, s := range c.mustDiffer {
			if got := canon(t, s, c.recv, c.fn); got == ref {
				t.Errorf("%s: changed variant %d is NOT distinguished\n  ref: %s", c.name, i, ref)
			}
		}
	}
}

// Normalise must keep the arithmetic expressions exactly as written (operators, operand order, conversions).
func TestNormaliseKeepsArithmetic(t *testing.T) {
	src := `package p
func (ipr IPRange) Contains(ip net.IP) bool { ipInt := IPToInt(ip); return ipInt >= IPToInt(ipr.First) && ipInt <= IPToInt(ipr.Last) }`
	fset, fd := parseOne(t, src, "IPRange", "Contains")
	n := Normalise(fset, fd)
	got := n.src(fd.Body)
	want := `{ return IPToInt(ip) >= IPToInt(ipr.First) && IPToInt(ip) <= IPToInt(ipr.Last) }`
	if got != want {
		t.Fatalf("got  %s\nwant %s", got, want)
	}
}

func TestInlineIsConservative(t *testing.T) {
	// x is read after a.f was overwritten: inlining would change the meaning, so it must not happen
	a := canon(t, `func f(a *T) int { x := a.f; a.f = 2; return x }`, "", "f")
	b := canon(t, `func f(a *T) int { a.f = 2; return a.f }`, "", "f")
	if a == b {
		t.Fatalf("unsound inlining: %s", a)
	}
	// a value copy whose field is written is not an alias
	c := canon(t, `func f(a []T) { x := a[0]; x.f = 2; use(x) }`, "", "f")
	d := canon(t, `func f(a []T) { a[0].f = 2; use(a[0]) }`, "", "f")
	if c == d {
		t.Fatalf("unsound inlining of a copy: %s", c)
	}
	// a pointer alias is
	e := canon(t, `func f(a []T) { x := &a[0]; x.f = 2; use(x.g) }`, "", "f")
	g := canon(t, `func f(a []T) { a[0].f = 2; use(a[0].g) }`, "", "f")
	if e != g {
		t.Fatalf("pointer alias not inlined:\n%s\n%s", e, g)
	}
}

func parseOne(t *testing.T, src, recv, name string) (*token.FileSet, *ast.FuncDecl) {
	t.Helper()
	fset := token.NewFileSet()
	f, err := parser.ParseFile(fset, "x.go", src, 0)
	if err != nil {
		t.Fatal(err)
	}
	fd := findFunc(f, recv, name)
	if fd == nil {
		t.Fatal("not found")
	}
	return fset, fd
}
