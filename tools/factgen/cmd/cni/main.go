// factgen/cni: regenerates lean/Galaxy/Generated/Cni.lean from the CURRENT text of
//
//	pkg/api/cniutil/cni.go   (BuildCNIArgs, ParseCNIArgs, CmdAdd, CmdDel, consumeNetworkInfo)
//	pkg/galaxy/server.go     (getNetworkConf, resolveNetworks, setNetInterface)
//	pkg/api/k8s/k8s.go       (ParsePodNetworkAnnotation, parsePodNetworkObjectName)
//
// Purely syntactic (go/ast).  Every extraction fails loudly when the source no longer has a shape it knows.
package main

import (
	"fmt"
	"go/ast"
	"go/token"
	"strconv"
	"strings"

	"factgen/fg"
)

func main() { fg.Run("cni", gen) }

type out struct {
	b strings.Builder
}

func (o *out) def(name, typ, val, why string) {
	fmt.Fprintf(&o.b, "/-- %s -/\ndef %s : %s := %s\n\n", why, name, typ, val)
}

func leanChar(r rune) string {
	switch r {
	case '\'':
		return `'\''`
	case '\\':
		return `'\\'`
	case '\n':
		return `'\n'`
	case '\t':
		return `'\t'`
	}
	if r < 0x20 || r > 0x7e {
		return fmt.Sprintf("(Char.ofNat %d)", r)
	}
	return "'" + string(r) + "'"
}

func leanChars(s string) string {
	var xs []string
	for _, r := range s {
		xs = append(xs, leanChar(r))
	}
	return "[" + strings.Join(xs, ", ") + "]"
}

func strLit(e ast.Expr) (string, bool) {
	bl, ok := e.(*ast.BasicLit)
	if !ok || bl.Kind != token.STRING {
		return "", false
	}
	s, err := strconv.Unquote(bl.Value)
	return s, err == nil
}

// calls returns every call expression below n whose printed callee equals name.
func calls(p *fg.Parsed, n ast.Node, name string) []*ast.CallExpr {
	var r []*ast.CallExpr
	ast.Inspect(n, func(x ast.Node) bool {
		if c, ok := x.(*ast.CallExpr); ok && p.Src(c.Fun) == name {
			r = append(r, c)
		}
		return true
	})
	return r
}

// norm collapses every whitespace run to one blank (printed sub-trees differ in indentation).
func norm(s string) string { return strings.Join(strings.Fields(s), " ") }

// has reports whether the printed node contains the fragment, ignoring layout.
func has(p *fg.Parsed, n ast.Node, frag string) bool { return strings.Contains(norm(p.Src(n)), norm(frag)) }

func oneChar(s, what string) (rune, error) {
	rs := []rune(s)
	if len(rs) != 1 {
		return 0, fmt.Errorf("%s: expected a one-character string, found %q", what, s)
	}
	return rs[0], nil
}

// sepOfFormat: "%s<c>%s" -> c
func sepOfFormat(f, what string) (rune, error) {
	if !strings.HasPrefix(f, "%s") || !strings.HasSuffix(f, "%s") || len(f) < 5 {
		return 0, fmt.Errorf("%s: format %q is not %%s<sep>%%s", what, f)
	}
	return oneChar(f[2:len(f)-2], what)
}

func gen(repo string) (map[string]string, error) {
	cni, err := fg.ParseFile(repo, "pkg/api/cniutil/cni.go")
	if err != nil {
		return nil, err
	}
	srv, err := fg.ParseFile(repo, "pkg/galaxy/server.go")
	if err != nil {
		return nil, err
	}
	k8s, err := fg.ParseFile(repo, "pkg/api/k8s/k8s.go")
	if err != nil {
		return nil, err
	}
	o := &out{}
	o.b.WriteString(fg.Header("CNI multiplexer (M5): constants, setNetInterface, structural facts of CmdAdd/CmdDel/getNetworkConf",
		"pkg/api/cniutil/cni.go", "pkg/galaxy/server.go", "pkg/api/k8s/k8s.go"))
	o.b.WriteString("namespace Galaxy.Generated.Cni\n\n")

	steps := []func(*out, *fg.Parsed, *fg.Parsed, *fg.Parsed) error{
		genBuildArgs, genParseArgs, genAccum, genCmdAdd, genCmdDel, genGetNetworkConf, genSetNetInterface,
		genAnnotation, genSelection,
	}
	for _, s := range steps {
		if err := s(o, cni, srv, k8s); err != nil {
			return nil, err
		}
	}
	o.b.WriteString("end Galaxy.Generated.Cni\n")
	return map[string]string{"Cni.lean": o.b.String()}, nil
}

// ---- BuildCNIArgs: Sprintf("%s=%s", k, v) inside a range over the map, Join(entries, ";")
func genBuildArgs(o *out, cni, _, _ *fg.Parsed) error {
	fd, err := cni.Fn("", "BuildCNIArgs")
	if err != nil {
		return err
	}
	sp := calls(cni, fd.Body, "fmt.Sprintf")
	jn := calls(cni, fd.Body, "strings.Join")
	if len(sp) != 1 || len(jn) != 1 || len(sp[0].Args) != 3 || len(jn[0].Args) != 2 {
		return fmt.Errorf("BuildCNIArgs: expected one fmt.Sprintf(fmt,k,v) and one strings.Join(entries,sep)")
	}
	f, ok := strLit(sp[0].Args[0])
	if !ok {
		return fmt.Errorf("BuildCNIArgs: Sprintf format is not a literal")
	}
	kv, err := sepOfFormat(f, "BuildCNIArgs entry format")
	if err != nil {
		return err
	}
	// the two operands must be the range key and value, in this order
	var rng *ast.RangeStmt
	ast.Inspect(fd.Body, func(x ast.Node) bool {
		if r, ok := x.(*ast.RangeStmt); ok && rng == nil {
			rng = r
		}
		return true
	})
	if rng == nil || rng.Key == nil || rng.Value == nil ||
		cni.Src(sp[0].Args[1]) != cni.Src(rng.Key) || cni.Src(sp[0].Args[2]) != cni.Src(rng.Value) {
		return fmt.Errorf("BuildCNIArgs: entry is not Sprintf(fmt, <range key>, <range value>)")
	}
	s, ok := strLit(jn[0].Args[1])
	if !ok {
		return fmt.Errorf("BuildCNIArgs: Join separator is not a literal")
	}
	as, err := oneChar(s, "BuildCNIArgs join separator")
	if err != nil {
		return err
	}
	o.def("buildKvSep", "Char", leanChar(kv), "BuildCNIArgs: entry = key ++ this ++ value")
	o.def("buildArgSep", "Char", leanChar(as), "BuildCNIArgs: entries joined by this")
	return nil
}

// ---- ParseCNIArgs: Split(args, ";"), SplitN(kv, "=", 2), len(part) != 2 -> continue, TrimSpace both, map assignment
func genParseArgs(o *out, cni, _, _ *fg.Parsed) error {
	fd, err := cni.Fn("", "ParseCNIArgs")
	if err != nil {
		return err
	}
	sp := calls(cni, fd.Body, "strings.Split")
	sn := calls(cni, fd.Body, "strings.SplitN")
	if len(sp) != 1 || len(sn) != 1 || len(sp[0].Args) != 2 || len(sn[0].Args) != 3 {
		return fmt.Errorf("ParseCNIArgs: expected one strings.Split and one strings.SplitN")
	}
	a, ok1 := strLit(sp[0].Args[1])
	k, ok2 := strLit(sn[0].Args[1])
	lim, ok3 := sn[0].Args[2].(*ast.BasicLit)
	if !ok1 || !ok2 || !ok3 {
		return fmt.Errorf("ParseCNIArgs: separators are not literals")
	}
	ac, err := oneChar(a, "ParseCNIArgs Split separator")
	if err != nil {
		return err
	}
	kc, err := oneChar(k, "ParseCNIArgs SplitN separator")
	if err != nil {
		return err
	}
	skip := has(cni, fd.Body, "if len(part) != "+lim.Value+" { continue }")
	trims := has(cni, fd.Body, "kvMap[strings.TrimSpace(part[0])] = strings.TrimSpace(part[1])")
	if !skip || !trims {
		return fmt.Errorf("ParseCNIArgs: loop body is not `if len(part) != N {continue}; kvMap[TrimSpace(part[0])] = TrimSpace(part[1])`")
	}
	o.def("parseArgSep", "Char", leanChar(ac), "ParseCNIArgs: strings.Split separator")
	o.def("parseKvSep", "Char", leanChar(kc), "ParseCNIArgs: strings.SplitN separator")
	o.def("parseKvLimit", "Nat", lim.Value, "ParseCNIArgs: SplitN limit (entries without the separator are skipped)")
	o.def("parseTrimsAndLastWins", "Bool", "true",
		"ParseCNIArgs: kvMap[TrimSpace(part[0])] = TrimSpace(part[1]) in input order (a later entry overwrites)")
	return nil
}

// ---- the accumulation statement of CmdAdd and CmdDel:
// cmdArgs.Args = strings.TrimRight(fmt.Sprintf("%s;%s", cmdArgs.Args, BuildCNIArgs(networkInfo.Args)), ";")
func accumOf(cni *fg.Parsed, fd *ast.FuncDecl) (sep rune, cut string, err error) {
	var found *ast.AssignStmt
	ast.Inspect(fd.Body, func(x ast.Node) bool {
		if a, ok := x.(*ast.AssignStmt); ok && len(a.Lhs) == 1 && cni.Src(a.Lhs[0]) == "cmdArgs.Args" {
			if found != nil {
				err = fmt.Errorf("%s: cmdArgs.Args assigned more than once", fd.Name.Name)
			}
			found = a
		}
		return true
	})
	if err != nil {
		return
	}
	if found == nil || len(found.Rhs) != 1 {
		return 0, "", fmt.Errorf("%s: no assignment to cmdArgs.Args", fd.Name.Name)
	}
	tr, ok := found.Rhs[0].(*ast.CallExpr)
	if !ok || cni.Src(tr.Fun) != "strings.TrimRight" || len(tr.Args) != 2 {
		return 0, "", fmt.Errorf("%s: cmdArgs.Args is not assigned strings.TrimRight(...)", fd.Name.Name)
	}
	sp, ok := tr.Args[0].(*ast.CallExpr)
	if !ok || cni.Src(sp.Fun) != "fmt.Sprintf" || len(sp.Args) != 3 ||
		cni.Src(sp.Args[1]) != "cmdArgs.Args" || cni.Src(sp.Args[2]) != "BuildCNIArgs(networkInfo.Args)" {
		return 0, "", fmt.Errorf("%s: accumulated value is not Sprintf(fmt, cmdArgs.Args, BuildCNIArgs(networkInfo.Args))", fd.Name.Name)
	}
	f, ok1 := strLit(sp.Args[0])
	c, ok2 := strLit(tr.Args[1])
	if !ok1 || !ok2 {
		return 0, "", fmt.Errorf("%s: accumulation format / cutset not literal", fd.Name.Name)
	}
	sep, err = sepOfFormat(f, fd.Name.Name+" accumulation format")
	return sep, c, err
}

func genAccum(o *out, cni, _, _ *fg.Parsed) error {
	for _, fn := range []string{"CmdAdd", "CmdDel"} {
		fd, err := cni.Fn("", fn)
		if err != nil {
			return err
		}
		sep, cut, err := accumOf(cni, fd)
		if err != nil {
			return err
		}
		suffix := strings.TrimPrefix(fn, "Cmd")
		o.def("accumSep"+suffix, "Char", leanChar(sep), fn+": cmdArgs.Args = TrimRight(Sprintf(\"%s<this>%s\", cmdArgs.Args, BuildCNIArgs(info.Args)), cutset)")
		o.def("accumCut"+suffix, "List Char", leanChars(cut), fn+": the TrimRight cutset")
	}
	return nil
}

// ---- CmdAdd: save before the delegate loop; rollback CmdDel(cmdArgs, idx [+-n]); prevResult written only when result != nil
func genCmdAdd(o *out, cni, _, _ *fg.Parsed) error {
	fd, err := cni.Fn("", "CmdAdd")
	if err != nil {
		return err
	}
	iEmpty := cni.StmtIndex(fd.Body, "len(networkInfos) == 0")
	iSave := cni.StmtIndex(fd.Body, "saveNetworkInfo(cmdArgs.ContainerID, networkInfos)")
	iLoop := -1
	var loop *ast.RangeStmt
	for i, s := range fd.Body.List {
		if r, ok := s.(*ast.RangeStmt); ok && cni.ContainsCall(r, "DelegateAdd") {
			iLoop, loop = i, r
		}
	}
	if loop == nil {
		return fmt.Errorf("CmdAdd: no top-level range loop calling DelegateAdd")
	}
	if cni.Src(loop.X) != "networkInfos" || loop.Key == nil {
		return fmt.Errorf("CmdAdd: the delegate loop does not range over networkInfos with an index")
	}
	idx := cni.Src(loop.Key)
	saveFirst := iSave >= 0 && iSave < iLoop
	if saveFirst {
		// the save's failure must abort the ADD
		is, ok := fd.Body.List[iSave].(*ast.IfStmt)
		saveFirst = ok && strings.Contains(cni.Src(is.Body), "return nil,")
	}
	o.def("cmdAddRejectsEmpty", "Bool", fg.LeanBool(iEmpty >= 0 && iEmpty < iLoop && (iSave < 0 || iEmpty < iSave)),
		"CmdAdd: an empty network list is an error before anything is saved or invoked")
	o.def("cmdAddSavesBeforeInvoke", "Bool", fg.LeanBool(saveFirst),
		"CmdAdd: saveNetworkInfo(all infos) precedes the delegate loop and its failure aborts")
	// order inside the loop: accumulate args; prevResult; DelegateAdd; on error CmdDel(cmdArgs, idx) and return error
	body := loop.Body
	iAcc := cni.StmtIndex(body, "cmdArgs.Args =")
	iPrev := cni.StmtIndex(body, `networkInfo.Conf["prevResult"] = result`)
	iAdd := cni.StmtIndex(body, "DelegateAdd(networkInfo.Conf, cmdArgs, networkInfo.IfName)")
	iErr := -1
	var errIf *ast.IfStmt
	for i, s := range body.List {
		if is, ok := s.(*ast.IfStmt); ok && cni.Src(is.Cond) == "err != nil" && i > iAdd {
			iErr, errIf = i, is
			break
		}
	}
	if iAcc < 0 || iPrev < 0 || iAdd < 0 || errIf == nil || !(iAcc < iAdd && iPrev < iAdd && iAdd < iErr) {
		return fmt.Errorf("CmdAdd: loop body is not [accumulate args; set prevResult; DelegateAdd; if err != nil {rollback}]")
	}
	pIf, ok := body.List[iPrev].(*ast.IfStmt)
	if !ok || cni.Src(pIf.Cond) != "result != nil" {
		return fmt.Errorf("CmdAdd: prevResult is not guarded by `result != nil`")
	}
	o.def("cmdAddChainsPrevResult", "Bool", "true",
		"CmdAdd: conf[\"prevResult\"] := result of the previous delegate (only when there is one), before DelegateAdd")
	dels := calls(cni, errIf.Body, "CmdDel")
	if len(dels) != 1 || len(dels[0].Args) != 2 || cni.Src(dels[0].Args[0]) != "cmdArgs" {
		return fmt.Errorf("CmdAdd: the failure branch does not call CmdDel(cmdArgs, <index>) exactly once")
	}
	off, err := offsetOf(cni, dels[0].Args[1], idx)
	if err != nil {
		return fmt.Errorf("CmdAdd rollback: %v", err)
	}
	retErr := false
	for _, s := range errIf.Body.List {
		if r, ok := s.(*ast.ReturnStmt); ok && len(r.Results) == 2 && cni.Src(r.Results[0]) == "nil" &&
			strings.HasPrefix(cni.Src(r.Results[1]), "fmt.Errorf(") {
			retErr = true
		}
	}
	o.def("rollbackOffset", "Int", leanInt(off),
		"CmdAdd: on failure of delegate idx the rollback is CmdDel(cmdArgs, idx + this), i.e. DEL from idx+this down to 0")
	o.def("cmdAddFailsAfterRollback", "Bool", fg.LeanBool(retErr), "CmdAdd: the failure branch returns an error")
	return nil
}

func leanInt(i int64) string {
	if i < 0 {
		return fmt.Sprintf("(%d)", i)
	}
	return fmt.Sprint(i)
}

// offsetOf: e is `v`, `v + n` or `v - n`.
func offsetOf(p *fg.Parsed, e ast.Expr, v string) (int64, error) {
	if p.Src(e) == v {
		return 0, nil
	}
	if b, ok := e.(*ast.BinaryExpr); ok && p.Src(b.X) == v {
		if lit, ok := b.Y.(*ast.BasicLit); ok && lit.Kind == token.INT {
			n, _ := strconv.ParseInt(lit.Value, 0, 64)
			switch b.Op {
			case token.ADD:
				return n, nil
			case token.SUB:
				return -n, nil
			}
		}
	}
	return 0, fmt.Errorf("index expression %q is not %s, %s+n or %s-n", p.Src(e), v, v, v)
}

// ---- CmdDel
func genCmdDel(o *out, cni, _, _ *fg.Parsed) error {
	fd, err := cni.Fn("", "CmdDel")
	if err != nil {
		return err
	}
	if len(fd.Body.List) < 3 || !strings.HasPrefix(cni.Src(fd.Body.List[0]), "networkInfos, err := consumeNetworkInfo(cmdArgs.ContainerID)") {
		return fmt.Errorf("CmdDel: does not start with networkInfos, err := consumeNetworkInfo(cmdArgs.ContainerID)")
	}
	// missing state => success, nothing invoked
	e0, ok := fd.Body.List[1].(*ast.IfStmt)
	missingOK := false
	if ok && cni.Src(e0.Cond) == "err != nil" && len(e0.Body.List) > 0 {
		if in, ok := e0.Body.List[0].(*ast.IfStmt); ok && cni.Src(in.Cond) == "os.IsNotExist(err)" {
			for _, s := range in.Body.List {
				if r, ok := s.(*ast.ReturnStmt); ok && len(r.Results) == 1 && cni.Src(r.Results[0]) == "nil" {
					missingOK = true
				}
			}
		}
	}
	o.def("cmdDelMissingStateIsSuccess", "Bool", fg.LeanBool(missingOK),
		"CmdDel: a missing state file returns nil before any delegate is invoked")
	allDefault := has(cni, fd.Body, "if lastIdx == -1 { lastIdx = len(networkInfos) - 1 }")
	o.def("cmdDelMinusOneMeansAll", "Bool", fg.LeanBool(allDefault), "CmdDel: lastIdx = -1 stands for the last saved network")
	// consume = read + remove
	cfd, err := cni.Fn("", "consumeNetworkInfo")
	if err != nil {
		return err
	}
	removes := false
	for _, s := range cfd.Body.List {
		if d, ok := s.(*ast.DeferStmt); ok && cni.Src(d.Call) == "os.Remove(path)" {
			removes = true
		}
	}
	// loop shape
	var loop *ast.ForStmt
	iLoop := -1
	for i, s := range fd.Body.List {
		if f, ok := s.(*ast.ForStmt); ok && cni.ContainsCall(f, "DelegateDel") {
			loop, iLoop = f, i
		}
	}
	if loop == nil || loop.Init == nil || loop.Cond == nil || loop.Post == nil {
		return fmt.Errorf("CmdDel: no three-clause for loop calling DelegateDel")
	}
	down := cni.Src(loop.Init) == "idx := lastIdx" && cni.Src(loop.Cond) == "idx >= 0" && cni.Src(loop.Post) == "idx--"
	up := cni.Src(loop.Init) == "idx := 0" && (cni.Src(loop.Cond) == "idx <= lastIdx") && cni.Src(loop.Post) == "idx++"
	if !down && !up {
		return fmt.Errorf("CmdDel: loop header `for %s; %s; %s` is neither the downward nor the upward walk over 0..lastIdx",
			cni.Src(loop.Init), cni.Src(loop.Cond), cni.Src(loop.Post))
	}
	if cni.StmtIndex(loop.Body, "networkInfo := networkInfos[idx]") != 0 ||
		cni.StmtIndex(loop.Body, "DelegateDel(networkInfo.Conf, cmdArgs, networkInfo.IfName)") < 0 {
		return fmt.Errorf("CmdDel: loop body does not delete networkInfos[idx]")
	}
	o.def("cmdDelIteratesDownward", "Bool", fg.LeanBool(down), "CmdDel: `for idx := lastIdx; idx >= 0; idx--`")
	// failures: appended only in the error branch, every failure appended, loop continues
	appends := 0
	inErr := false
	ast.Inspect(fd.Body, func(x ast.Node) bool {
		if a, ok := x.(*ast.AssignStmt); ok && len(a.Lhs) == 1 && cni.Src(a.Lhs[0]) == "fails" {
			appends++
			if cni.Src(a.Rhs[0]) != "append(fails, networkInfo)" {
				appends += 100
			}
		}
		return true
	})
	for _, s := range loop.Body.List {
		if is, ok := s.(*ast.IfStmt); ok && cni.Src(is.Cond) == "err != nil" &&
			strings.Contains(cni.Src(is.Body), "fails = append(fails, networkInfo)") &&
			!strings.Contains(cni.Src(is.Body), "break") && !strings.Contains(cni.Src(is.Body), "return") {
			inErr = true
		}
	}
	// after the loop: if len(errorSet) > 0 { reverse(fails); saveNetworkInfo(cid, fails); return error }
	resave := false
	for _, s := range fd.Body.List[iLoop+1:] {
		is, ok := s.(*ast.IfStmt)
		if !ok || cni.Src(is.Cond) != "len(errorSet) > 0" {
			continue
		}
		iRev := cni.StmtIndex(is.Body, "reverse(fails)")
		iSv := cni.StmtIndex(is.Body, "saveNetworkInfo(cmdArgs.ContainerID, fails)")
		iRet := cni.StmtIndex(is.Body, "return fmt.Errorf(")
		want := iSv >= 0 && iSv < iRet
		if down {
			want = want && iRev >= 0 && iRev < iSv
		} else {
			want = want && iRev < 0
		}
		resave = want
	}
	errSetTracksFails := has(cni, loop.Body, "errorSet = append(errorSet, err.Error()) fails = append(fails, networkInfo)")
	o.def("cmdDelConsumesThenResavesFailures", "Bool",
		fg.LeanBool(removes && appends == 1 && inErr && resave && errSetTracksFails),
		"CmdDel: the state file is removed when read; exactly the infos whose DelegateDel failed are appended to `fails`, "+
			"`fails` is put back into original order and saved, and the DEL returns an error iff there was a failure")
	return nil
}

// ---- getNetworkConf: copy-on-hand-out
func genGetNetworkConf(o *out, _, srv, _ *fg.Parsed) error {
	fd, err := srv.Fn("Galaxy", "getNetworkConf")
	if err != nil {
		return err
	}
	if len(fd.Body.List) == 0 {
		return fmt.Errorf("getNetworkConf: empty body")
	}
	is, ok := fd.Body.List[0].(*ast.IfStmt)
	if !ok || is.Init == nil || srv.Src(is.Init) != "netConf, ok := g.netConf[networkName]" || srv.Src(is.Cond) != "ok" {
		return fmt.Errorf("getNetworkConf: does not start with `if netConf, ok := g.netConf[networkName]; ok {`")
	}
	var ret *ast.ReturnStmt
	for _, s := range is.Body.List {
		if r, ok := s.(*ast.ReturnStmt); ok {
			ret = r
		}
	}
	if ret == nil || len(ret.Results) != 2 {
		return fmt.Errorf("getNetworkConf: configured branch has no two-value return")
	}
	rv := srv.Src(ret.Results[0])
	var copyFact bool
	switch {
	case rv == "netConf" || rv == "g.netConf[networkName]":
		copyFact = false
	default:
		// rv must be a local made in this block and filled by `for k, v := range netConf { rv[k] = v }`
		made, filled := false, false
		for _, s := range is.Body.List {
			if a, ok := s.(*ast.AssignStmt); ok && a.Tok == token.DEFINE && len(a.Lhs) == 1 && srv.Src(a.Lhs[0]) == rv {
				r := srv.Src(a.Rhs[0])
				if strings.HasPrefix(r, "make(map[string]interface{}") || strings.HasPrefix(r, "map[string]interface{}{") {
					made = true
				}
			}
			if r, ok := s.(*ast.RangeStmt); ok && srv.Src(r.X) == "netConf" && r.Key != nil && r.Value != nil &&
				len(r.Body.List) == 1 && srv.Src(r.Body.List[0]) == fmt.Sprintf("%s[%s] = %s", rv, srv.Src(r.Key), srv.Src(r.Value)) {
				filled = true
			}
		}
		if !made || !filled {
			return fmt.Errorf("getNetworkConf: returns %q, which is neither the configured map nor a fresh map filled by a range copy", rv)
		}
		copyFact = true
	}
	o.def("getNetworkConfReturnsCopy", "Bool", fg.LeanBool(copyFact),
		"getNetworkConf: the configured branch returns a freshly made map filled from g.netConf[name], not the shared map itself")
	// nobody else may write into a conf map: the only map-index assignment on a `.Conf[...]` is CmdAdd's prevResult
	return nil
}

// ---- setNetInterface → Lean function
func genSetNetInterface(o *out, _, srv, _ *fg.Parsed) error {
	fd, err := srv.Fn("", "setNetInterface")
	if err != nil {
		return err
	}
	var names []string
	for _, f := range fd.Type.Params.List {
		for _, n := range f.Names {
			names = append(names, n.Name+":"+srv.Src(f.Type))
		}
	}
	if strings.Join(names, ",") != "netIf:string,idx:int,argIf:string" {
		return fmt.Errorf("setNetInterface: parameters are %v, expected (netIf string, idx int, argIf string)", names)
	}
	expr := func(e ast.Expr) (string, error) {
		switch x := e.(type) {
		case *ast.Ident:
			if x.Name == "netIf" || x.Name == "argIf" {
				return x.Name, nil
			}
		case *ast.CallExpr:
			if srv.Src(x.Fun) == "fmt.Sprintf" && len(x.Args) == 2 && srv.Src(x.Args[1]) == "idx" {
				f, ok := strLit(x.Args[0])
				if ok && strings.HasSuffix(f, "%d") && !strings.Contains(f[:len(f)-2], "%") {
					return fmt.Sprintf("(%s ++ Nat.toDigits 10 idx)", leanChars(f[:len(f)-2])), nil
				}
			}
		}
		return "", fmt.Errorf("setNetInterface: cannot translate result expression %q", srv.Src(e))
	}
	cond := func(e ast.Expr) (string, error) {
		b, ok := e.(*ast.BinaryExpr)
		if ok {
			l, r := srv.Src(b.X), srv.Src(b.Y)
			switch {
			case l == "idx" && b.Op == token.EQL && isInt(b.Y):
				return "idx = " + r, nil
			case (l == "netIf" || l == "argIf") && r == `""` && b.Op == token.NEQ:
				return l + " ≠ []", nil
			case (l == "netIf" || l == "argIf") && r == `""` && b.Op == token.EQL:
				return l + " = []", nil
			}
		}
		return "", fmt.Errorf("setNetInterface: cannot translate condition %q", srv.Src(e))
	}
	var b strings.Builder
	n := len(fd.Body.List)
	for i, s := range fd.Body.List {
		if i == n-1 {
			r, ok := s.(*ast.ReturnStmt)
			if !ok || len(r.Results) != 1 {
				return fmt.Errorf("setNetInterface: last statement is not a return")
			}
			e, err := expr(r.Results[0])
			if err != nil {
				return err
			}
			b.WriteString("  " + e + "\n")
			break
		}
		is, ok := s.(*ast.IfStmt)
		if !ok || is.Init != nil || is.Else != nil || len(is.Body.List) != 1 {
			return fmt.Errorf("setNetInterface: statement %d is not `if cond { return x }`", i)
		}
		r, ok := is.Body.List[0].(*ast.ReturnStmt)
		if !ok || len(r.Results) != 1 {
			return fmt.Errorf("setNetInterface: statement %d is not `if cond { return x }`", i)
		}
		c, err := cond(is.Cond)
		if err != nil {
			return err
		}
		e, err := expr(r.Results[0])
		if err != nil {
			return err
		}
		b.WriteString("  if " + c + " then " + e + " else\n")
	}
	fmt.Fprintf(&o.b, "/-- translation of `setNetInterface(netIf string, idx int, argIf string) string` (idx ≥ 0 at every call site) -/\n"+
		"def setNetInterface (netIf : List Char) (idx : Nat) (argIf : List Char) : List Char :=\n%s\n", b.String())
	return nil
}

func isInt(e ast.Expr) bool {
	l, ok := e.(*ast.BasicLit)
	return ok && l.Kind == token.INT
}

// ---- networks annotation
func genAnnotation(o *out, _, _, k8s *fg.Parsed) error {
	fd, err := k8s.Fn("", "ParsePodNetworkAnnotation")
	if err != nil {
		return err
	}
	ia := calls(k8s, fd.Body, "strings.IndexAny")
	if len(ia) != 1 || len(ia[0].Args) != 2 || k8s.Src(ia[0].Args[0]) != "podNetworks" {
		return fmt.Errorf("ParsePodNetworkAnnotation: expected one strings.IndexAny(podNetworks, chars)")
	}
	chars, ok := strLit(ia[0].Args[1])
	if !ok {
		return fmt.Errorf("ParsePodNetworkAnnotation: IndexAny characters are not a literal")
	}
	// the JSON branch is the `then` branch of `if IndexAny(...) >= 0`
	jsonThen := false
	var nullRejected bool
	for _, s := range fd.Body.List {
		if is, ok := s.(*ast.IfStmt); ok && strings.HasPrefix(k8s.Src(is.Cond), "strings.IndexAny(") &&
			strings.HasSuffix(k8s.Src(is.Cond), ">= 0") {
			jsonThen = k8s.ContainsCall(is.Body, "json.Unmarshal") && is.Else != nil && k8s.ContainsCall(is.Else, "parsePodNetworkObjectName")
			nullRejected = strings.Contains(k8s.Src(is.Body), "networks[i] == nil")
		}
	}
	if !jsonThen {
		return fmt.Errorf("ParsePodNetworkAnnotation: not `if IndexAny(..) >= 0 { json } else { comma list }`")
	}
	sp := calls(k8s, fd.Body, "strings.Split")
	if len(sp) != 1 {
		return fmt.Errorf("ParsePodNetworkAnnotation: expected one strings.Split")
	}
	cs, _ := strLit(sp[0].Args[1])
	comma, err := oneChar(cs, "comma-list separator")
	if err != nil {
		return err
	}
	pf, err := k8s.Fn("", "parsePodNetworkObjectName")
	if err != nil {
		return err
	}
	sps := calls(k8s, pf.Body, "strings.Split")
	if len(sps) != 2 {
		return fmt.Errorf("parsePodNetworkObjectName: expected two strings.Split calls")
	}
	s1, _ := strLit(sps[0].Args[1])
	s2, _ := strLit(sps[1].Args[1])
	slash, err := oneChar(s1, "namespace separator")
	if err != nil {
		return err
	}
	at, err := oneChar(s2, "interface separator")
	if err != nil {
		return err
	}
	rx := calls(k8s, pf.Body, "regexp.MatchString")
	if len(rx) != 1 {
		return fmt.Errorf("parsePodNetworkObjectName: expected one regexp.MatchString")
	}
	re, ok := strLit(rx[0].Args[0])
	if !ok {
		return fmt.Errorf("parsePodNetworkObjectName: regexp is not a literal")
	}
	o.def("jsonDetectChars", "List Char", leanChars(chars), "ParsePodNetworkAnnotation: the annotation is JSON iff it contains one of these")
	o.def("jsonNullElementRejected", "Bool", fg.LeanBool(nullRejected), "ParsePodNetworkAnnotation: a null list element is an error")
	o.def("commaSep", "Char", leanChar(comma), "comma form: item separator")
	o.def("nsSep", "Char", leanChar(slash), "comma form: <namespace>/<name>")
	o.def("ifSep", "Char", leanChar(at), "comma form: <name>@<interface>")
	o.def("labelRegex", "String", fg.LeanStr(re), "comma form: every non-empty part must match this")
	return nil
}

// ---- resolveNetworks: annotation, else ENI, else default
func genSelection(o *out, _, srv, _ *fg.Parsed) error {
	fd, err := srv.Fn("Galaxy", "resolveNetworks")
	if err != nil {
		return err
	}
	var top *ast.IfStmt
	for _, s := range fd.Body.List {
		if is, ok := s.(*ast.IfStmt); ok && top == nil {
			top = is
		}
	}
	if top == nil || srv.Src(top.Cond) != `pod.Annotations == nil || pod.Annotations[constant.MultusCNIAnnotation] == ""` {
		return fmt.Errorf("resolveNetworks: first branch is not on the absence of the networks annotation")
	}
	if len(top.Body.List) != 1 {
		return fmt.Errorf("resolveNetworks: no-annotation branch is not a single if/else")
	}
	in, ok := top.Body.List[0].(*ast.IfStmt)
	if !ok || srv.Src(in.Cond) != `utils.WantENIIP(&pod.Spec) && g.ENIIPNetwork != ""` || in.Else == nil {
		return fmt.Errorf("resolveNetworks: inner branch is not `if WantENIIP && ENIIPNetwork != \"\" {..} else {..}`")
	}
	eniOK := strings.Contains(srv.Src(in.Body), "cniutil.NewNetworkInfo(g.ENIIPNetwork, netConf, req.IfName)")
	defOK := strings.Contains(srv.Src(in.Else), "range g.DefaultNetworks") &&
		strings.Contains(srv.Src(in.Else), `setNetInterface("", i, req.IfName)`)
	annOK := top.Else != nil && strings.Contains(srv.Src(top.Else), "k8s.ParsePodNetworkAnnotation(v)") &&
		strings.Contains(srv.Src(top.Else), "setNetInterface(network.InterfaceRequest, idx, req.CmdArgs.IfName)")
	if !eniOK || !defOK || !annOK {
		return fmt.Errorf("resolveNetworks: branch bodies changed shape (eni=%v default=%v annotation=%v)", eniOK, defOK, annOK)
	}
	o.def("selectionOrder", "List String", `["annotation", "eni", "default"]`,
		"resolveNetworks: networks annotation if non-empty, else ENIIPNetwork if the pod wants an ENI IP and one is configured, else DefaultNetworks")
	argsAll := has(srv, fd.Body, "for i := range networkInfos { for k, v := range extendedCNIArgs { networkInfos[i].Args[k] = string(v) } }")
	o.def("extendedArgsGoToEveryNetwork", "Bool", fg.LeanBool(argsAll), "resolveNetworks: args.common is copied into every network's Args")
	return nil
}
