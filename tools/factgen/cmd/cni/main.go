// factgen/cni: regenerates lean/Galaxy/Generated/Cni.lean from the CURRENT text of
//
//	pkg/api/cniutil/cni.go   (BuildCNIArgs, ParseCNIArgs, CmdAdd, CmdDel, consumeNetworkInfo, reverse)
//	pkg/galaxy/server.go     (getNetworkConf, resolveNetworks, setNetInterface)
//	pkg/api/k8s/k8s.go       (ParsePodNetworkAnnotation, parsePodNetworkObjectName)
//
// Shapes are recognised semantically: each function is normalised (norm.go; /verif/harmless/NORMALISE.md) and
// unified with reference templates (templates.go) that went through the same normalisation; the holes of the
// matching template give the constants, the variant that matched gives the structural facts.  A function that
// matches no variant makes the translator fail loudly with the first point of divergence.
package main

import (
	"fmt"
	"go/ast"
	"go/parser"
	"go/token"
	"sort"
	"strings"

	"factgen/fg"
)

func main() { fg.Run("cni", gen) }

type out struct {
	b strings.Builder
}

func (o *out) def(name, typ, val, why string) {
	fmt.Fprintf(&o.b, "/-- %s -/\ndef %s : %s := %s\n\n", why, name, typ, val)
}

func leanChar(r rune) string {
	switch r {
	case '\'':
		return `'\''`
	case '\\':
		return `'\\'`
	case '\n':
		return `'\n'`
	case '\t':
		return `'\t'`
	}
	if r < 0x20 || r > 0x7e {
		return fmt.Sprintf("(Char.ofNat %d)", r)
	}
	return "'" + string(r) + "'"
}

func leanChars(s string) string {
	var xs []string
	for _, r := range s {
		xs = append(xs, leanChar(r))
	}
	return "[" + strings.Join(xs, ", ") + "]"
}

func leanInt(i int64) string {
	if i < 0 {
		return fmt.Sprintf("(%d)", i)
	}
	return fmt.Sprint(i)
}

func oneChar(s, what string) (rune, error) {
	rs := []rune(s)
	if len(rs) != 1 {
		return 0, fmt.Errorf("%s: expected a one-character string, found %q", what, s)
	}
	return rs[0], nil
}

// parseTemplate parses template source and returns the canonical tree of its function `name`.
func parseTemplate(src, recv, name string) (*N, error) {
	fset := token.NewFileSet()
	f, err := parser.ParseFile(fset, "template.go", src, 0)
	if err != nil {
		return nil, fmt.Errorf("template %s: %v", name, err)
	}
	p := &fg.Parsed{Fset: fset, File: f, Path: "template:" + name}
	fd, err := p.Fn(recv, name)
	if err != nil {
		return nil, err
	}
	return NewNorm(p).Func(fd), nil
}

// canonical tree of a function of the source
func sourceFunc(p *fg.Parsed, recv, name string) (*N, error) {
	fd, err := p.Fn(recv, name)
	if err != nil {
		return nil, err
	}
	return NewNorm(p).Func(fd), nil
}

// match tries the variants in order; returns the matching variant and its bindings.
func match(p *fg.Parsed, recv, name string, vs []variant) (*variant, map[string]string, error) {
	src, err := sourceFunc(p, recv, name)
	if err != nil {
		return nil, nil, err
	}
	var msgs []string
	for i := range vs {
		t, err := parseTemplate(vs[i].src, recv, name)
		if err != nil {
			return nil, nil, err
		}
		bind := map[string]string{}
		if err := unify(t, src, bind, name); err == nil {
			return &vs[i], bind, nil
		} else {
			msgs = append(msgs, fmt.Sprintf("  not the %q shape: %v", vs[i].name, err))
		}
	}
	return nil, nil, fmt.Errorf("%s: %s has none of the known shapes (after normalisation)\n%s", p.Path, name, strings.Join(msgs, "\n"))
}

func gen(repo string) (map[string]string, error) {
	cni, err := fg.ParseFile(repo, "pkg/api/cniutil/cni.go")
	if err != nil {
		return nil, err
	}
	srv, err := fg.ParseFile(repo, "pkg/galaxy/server.go")
	if err != nil {
		return nil, err
	}
	k8s, err := fg.ParseFile(repo, "pkg/api/k8s/k8s.go")
	if err != nil {
		return nil, err
	}
	o := &out{}
	o.b.WriteString(fg.Header("CNI multiplexer (M5): constants, setNetInterface, structural facts of CmdAdd/CmdDel/getNetworkConf",
		"pkg/api/cniutil/cni.go", "pkg/galaxy/server.go", "pkg/api/k8s/k8s.go"))
	o.b.WriteString("namespace Galaxy.Generated.Cni\n\n")

	steps := []func(*out, *fg.Parsed, *fg.Parsed, *fg.Parsed) error{
		genBuildArgs, genParseArgs, genCmdAdd, genCmdDel, genGetNetworkConf, genSetNetInterface,
		genAnnotation, genSelection,
	}
	for _, s := range steps {
		if err := s(o, cni, srv, k8s); err != nil {
			return nil, err
		}
	}
	o.b.WriteString("end Galaxy.Generated.Cni\n")
	return map[string]string{"Cni.lean": o.b.String()}, nil
}

func charOf(bind map[string]string, key, what string) (rune, error) {
	return oneChar(bind[key], what)
}

// ---- BuildCNIArgs
func genBuildArgs(o *out, cni, _, _ *fg.Parsed) error {
	_, b, err := match(cni, "", "BuildCNIArgs", []variant{{name: "join of key<kv>value entries", src: tBuildCNIArgs}})
	if err != nil {
		return err
	}
	kv, err := charOf(b, "KV", "BuildCNIArgs key/value separator")
	if err != nil {
		return err
	}
	sep, err := charOf(b, "SEP", "BuildCNIArgs join separator")
	if err != nil {
		return err
	}
	o.def("buildKvSep", "Char", leanChar(kv), "BuildCNIArgs: entry = key ++ this ++ value")
	o.def("buildArgSep", "Char", leanChar(sep), "BuildCNIArgs: entries joined by this")
	return nil
}

// ---- ParseCNIArgs
func genParseArgs(o *out, cni, _, _ *fg.Parsed) error {
	_, b, err := match(cni, "", "ParseCNIArgs", []variant{{name: "split, splitN 2, skip, trim, last wins", src: tParseCNIArgs}})
	if err != nil {
		return err
	}
	ac, err := charOf(b, "PSEP", "ParseCNIArgs Split separator")
	if err != nil {
		return err
	}
	kc, err := charOf(b, "PKV", "ParseCNIArgs SplitN separator")
	if err != nil {
		return err
	}
	o.def("parseArgSep", "Char", leanChar(ac), "ParseCNIArgs: strings.Split separator")
	o.def("parseKvSep", "Char", leanChar(kc), "ParseCNIArgs: strings.SplitN separator")
	o.def("parseKvLimit", "Nat", "2", "ParseCNIArgs: SplitN limit (entries without the separator are skipped)")
	o.def("parseTrimsAndLastWins", "Bool", "true",
		"ParseCNIArgs: kvMap[TrimSpace(part[0])] = TrimSpace(part[1]) in input order (a later entry overwrites)")
	return nil
}

func emitAccum(o *out, fn string, b map[string]string) error {
	sep, err := charOf(b, "ACCSEP", fn+" accumulation separator")
	if err != nil {
		return err
	}
	suffix := strings.TrimPrefix(fn, "Cmd")
	o.def("accumSep"+suffix, "Char", leanChar(sep), fn+": cmdArgs.Args = TrimRight(cmdArgs.Args ++ <this> ++ BuildCNIArgs(info.Args), cutset)")
	o.def("accumCut"+suffix, "List Char", leanChars(b["ACCCUT"]), fn+": the TrimRight cutset")
	return nil
}

// ---- CmdAdd: reject empty; save before the delegate loop; accumulate; prevResult only from a previous result;
// DelegateAdd; on failure CmdDel(cmdArgs, idx+off) and an error
func genCmdAdd(o *out, cni, _, _ *fg.Parsed) error {
	var vs []variant
	for _, off := range []int{0, -1, 1, -2, 2} {
		e := "idx"
		if off < 0 {
			e = fmt.Sprintf("idx-%d", -off)
		} else if off > 0 {
			e = fmt.Sprintf("idx+%d", off)
		}
		vs = append(vs, variant{name: "rollback CmdDel(cmdArgs, " + e + ")", src: strings.ReplaceAll(tCmdAdd, "%ROLLBACK%", e),
			facts: map[string]string{"off": fmt.Sprint(off)}})
	}
	v, b, err := match(cni, "", "CmdAdd", vs)
	if err != nil {
		return err
	}
	if err := emitAccum(o, "CmdAdd", b); err != nil {
		return err
	}
	var off int64
	fmt.Sscan(v.facts["off"], &off)
	o.def("cmdAddRejectsEmpty", "Bool", "true", "CmdAdd: an empty network list is an error before anything is saved or invoked")
	o.def("cmdAddSavesBeforeInvoke", "Bool", "true", "CmdAdd: saveNetworkInfo(all infos) precedes the delegate loop and its failure aborts")
	o.def("cmdAddChainsPrevResult", "Bool", "true",
		"CmdAdd: conf[\"prevResult\"] := result of the previous delegate (only when there is one), before DelegateAdd")
	o.def("rollbackOffset", "Int", leanInt(off),
		"CmdAdd: on failure of delegate idx the rollback is CmdDel(cmdArgs, idx + this), i.e. DEL from idx+this down to 0")
	o.def("cmdAddFailsAfterRollback", "Bool", "true", "CmdAdd: the failure branch returns an error")
	return nil
}

// ---- CmdDel
func genCmdDel(o *out, cni, _, _ *fg.Parsed) error {
	mk := func(loop, rev, saved string) string {
		s := strings.ReplaceAll(tCmdDel, "%LOOP%", loop)
		s = strings.ReplaceAll(s, "%REVERSE%", rev)
		return strings.ReplaceAll(s, "%SAVED%", saved)
	}
	const down, up = "for idx := lastIdx; idx >= 0; idx--", "for idx := 0; idx <= lastIdx; idx++"
	vs := []variant{
		{"downward walk, failures reversed and re-saved", mk(down, "reverse(fails)", "fails"), map[string]string{"down": "true", "resave": "true"}},
		{"upward walk, failures re-saved", mk(up, "", "fails"), map[string]string{"down": "false", "resave": "true"}},
		{"downward walk, failures re-saved in visiting order", mk(down, "", "fails"), map[string]string{"down": "true", "resave": "false"}},
		{"downward walk, everything re-saved", mk(down, "reverse(fails)", "networkInfos"), map[string]string{"down": "true", "resave": "false"}},
		{"upward walk, everything re-saved", mk(up, "", "networkInfos"), map[string]string{"down": "false", "resave": "false"}},
	}
	v, b, err := match(cni, "", "CmdDel", vs)
	if err != nil {
		return err
	}
	if err := emitAccum(o, "CmdDel", b); err != nil {
		return err
	}
	// consume = read + remove
	if _, _, err := match(cni, "", "consumeNetworkInfo", []variant{{name: "read, unmarshal, deferred remove", src: tConsume}}); err != nil {
		return err
	}
	o.def("cmdDelMissingStateIsSuccess", "Bool", "true", "CmdDel: a missing state file returns nil before any delegate is invoked")
	o.def("cmdDelMinusOneMeansAll", "Bool", "true", "CmdDel: lastIdx = -1 stands for the last saved network")
	o.def("cmdDelIteratesDownward", "Bool", v.facts["down"], "CmdDel: walks lastIdx … 0 downwards")
	o.def("cmdDelConsumesThenResavesFailures", "Bool", v.facts["resave"],
		"CmdDel: the state file is removed when read; exactly the infos whose DelegateDel failed are appended to `fails`, "+
			"`fails` is put back into original order and saved, and the DEL returns an error iff there was a failure")
	return nil
}

// ---- getNetworkConf: copy-on-hand-out
func genGetNetworkConf(o *out, _, srv, _ *fg.Parsed) error {
	vs := []variant{
		{"fresh map filled by a range copy", strings.ReplaceAll(tGetNetworkConf, "%HANDOUT%", handoutCopy), map[string]string{"copy": "true"}},
		{"the configured map itself", strings.ReplaceAll(tGetNetworkConf, "%HANDOUT%", handoutShared), map[string]string{"copy": "false"}},
	}
	v, _, err := match(srv, "Galaxy", "getNetworkConf", vs)
	if err != nil {
		return err
	}
	o.def("getNetworkConfReturnsCopy", "Bool", v.facts["copy"],
		"getNetworkConf: the configured branch returns a freshly made map filled from g.netConf[name], not the shared map itself")
	return nil
}

// ---- setNetInterface → Lean function, from the canonical tree:
// (block (if C (block (return E)) (block …)))  with conditions on the parameters only
func genSetNetInterface(o *out, _, srv, _ *fg.Parsed) error {
	t, err := sourceFunc(srv, "", "setNetInterface")
	if err != nil {
		return err
	}
	params := t.K[1]
	var types []string
	for _, p := range params.K {
		types = append(types, strings.TrimPrefix(p.K[1].Op, "type:"))
	}
	if strings.Join(types, ",") != "string,int,string" {
		return fmt.Errorf("setNetInterface: parameter types are %v, expected (string, int, string)", types)
	}
	names := map[string]string{params.K[0].K[0].Op: "netIf", params.K[1].K[0].Op: "idx", params.K[2].K[0].Op: "argIf"}
	isStrParam := func(n *N) bool { return names[n.Op] == "netIf" || names[n.Op] == "argIf" }
	var expr func(n *N) (string, error)
	expr = func(n *N) (string, error) {
		switch {
		case isStrParam(n):
			return names[n.Op], nil
		case n.isStr():
			return leanChars(n.str()), nil
		case n.Op == "itoa" && names[n.K[0].Op] == "idx":
			return "Nat.toDigits 10 idx", nil
		case n.Op == "concat":
			var xs []string
			for _, k := range n.K {
				s, err := expr(k)
				if err != nil {
					return "", err
				}
				xs = append(xs, s)
			}
			return "(" + strings.Join(xs, " ++ ") + ")", nil
		}
		return "", fmt.Errorf("setNetInterface: cannot translate result expression %s", n)
	}
	var cond func(n *N) (string, error)
	cond = func(n *N) (string, error) {
		switch n.Op {
		case "!":
			s, err := cond(n.K[0])
			return "¬ (" + s + ")", err
		case "and", "or":
			var xs []string
			for _, k := range n.K {
				s, err := cond(k)
				if err != nil {
					return "", err
				}
				xs = append(xs, "("+s+")")
			}
			return strings.Join(xs, map[string]string{"and": " ∧ ", "or": " ∨ "}[n.Op]), nil
		case "==":
			a, b := n.K[0], n.K[1]
			if strings.HasPrefix(a.Op, "num:") || a.isStr() {
				a, b = b, a
			}
			if names[a.Op] == "idx" && strings.HasPrefix(b.Op, "num:") {
				return "idx = " + strings.TrimPrefix(b.Op, "num:"), nil
			}
			if isStrParam(a) && b.isStr() {
				return names[a.Op] + " = " + leanChars(b.str()), nil
			}
		}
		return "", fmt.Errorf("setNetInterface: cannot translate condition %s", n)
	}
	var stmts func(list []*N, indent string) (string, error)
	stmts = func(list []*N, indent string) (string, error) {
		if len(list) != 1 {
			return "", fmt.Errorf("setNetInterface: expected a single if / return, found %d statements", len(list))
		}
		s := list[0]
		switch {
		case s.Op == "return" && len(s.K) == 1:
			e, err := expr(s.K[0])
			return indent + e, err
		case s.Op == "if" && len(s.K) == 3:
			c, err := cond(s.K[0])
			if err != nil {
				return "", err
			}
			a, err := stmts(s.K[1].K, indent+"  ")
			if err != nil {
				return "", err
			}
			b, err := stmts(s.K[2].K, indent+"  ")
			if err != nil {
				return "", err
			}
			return indent + "if " + c + " then\n" + a + "\n" + indent + "else\n" + b, nil
		}
		return "", fmt.Errorf("setNetInterface: cannot translate statement %s", s)
	}
	body, err := stmts(t.K[3].K, "  ")
	if err != nil {
		return err
	}
	fmt.Fprintf(&o.b, "/-- translation of `setNetInterface(netIf string, idx int, argIf string) string` (idx ≥ 0 at every call site),\n"+
		"    from its normalised body (guard clauses as if/else, negated conditions swapped) -/\n"+
		"def setNetInterface (netIf : List Char) (idx : Nat) (argIf : List Char) : List Char :=\n%s\n\n", body)
	return nil
}

// ---- networks annotation
func genAnnotation(o *out, _, _, k8s *fg.Parsed) error {
	vs := []variant{
		{"JSON iff IndexAny, null elements rejected", strings.ReplaceAll(tParseAnnotation, "%NULLCHECK%", nullCheck), map[string]string{"null": "true"}},
		{"JSON iff IndexAny, null elements accepted", strings.ReplaceAll(tParseAnnotation, "%NULLCHECK%", ""), map[string]string{"null": "false"}},
	}
	v, b, err := match(k8s, "", "ParsePodNetworkAnnotation", vs)
	if err != nil {
		return err
	}
	_, b2, err := match(k8s, "", "parsePodNetworkObjectName", []variant{{name: "ns/name@if with label check", src: tParseObjectName}})
	if err != nil {
		return err
	}
	comma, err := charOf(b, "COMMA", "comma-list separator")
	if err != nil {
		return err
	}
	slash, err := charOf(b2, "SLASH", "namespace separator")
	if err != nil {
		return err
	}
	at, err := charOf(b2, "AT", "interface separator")
	if err != nil {
		return err
	}
	o.def("jsonDetectChars", "List Char", leanChars(b["JSONCHARS"]), "ParsePodNetworkAnnotation: the annotation is JSON iff it contains one of these")
	o.def("jsonNullElementRejected", "Bool", v.facts["null"], "ParsePodNetworkAnnotation: a null list element is an error")
	o.def("commaSep", "Char", leanChar(comma), "comma form: item separator")
	o.def("nsSep", "Char", leanChar(slash), "comma form: <namespace>/<name>")
	o.def("ifSep", "Char", leanChar(at), "comma form: <name>@<interface>")
	o.def("labelRegex", "String", fg.LeanStr(b2["REGEX"]), "comma form: every non-empty part must match this")
	return nil
}

// ---- resolveNetworks: annotation, else ENI, else default; extended args to every network
func genSelection(o *out, _, srv, _ *fg.Parsed) error {
	if _, _, err := match(srv, "Galaxy", "resolveNetworks", []variant{{name: "annotation / ENI / default", src: tResolveNetworks}}); err != nil {
		return err
	}
	o.def("selectionOrder", "List String", `["annotation", "eni", "default"]`,
		"resolveNetworks: networks annotation if non-empty, else ENIIPNetwork if the pod wants an ENI IP and one is configured, else DefaultNetworks")
	o.def("extendedArgsGoToEveryNetwork", "Bool", "true", "resolveNetworks: args.common is copied into every network's Args")
	return nil
}

var _ = sort.Strings
var _ ast.Node
