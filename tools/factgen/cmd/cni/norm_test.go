package main

import (
	"go/parser"
	"go/token"
	"os"
	"os/exec"
	"path/filepath"
	"strings"
	"testing"

	"factgen/fg"
)

func canon(t *testing.T, src, name string) string {
	t.Helper()
	fset := token.NewFileSet()
	f, err := parser.ParseFile(fset, "x.go", "package x\n"+src, 0)
	if err != nil {
		t.Fatalf("parse: %v\n%s", err, src)
	}
	p := &fg.Parsed{Fset: fset, File: f, Path: "x.go"}
	fd, err := p.Fn("", name)
	if err != nil {
		t.Fatal(err)
	}
	return NewNorm(p).Func(fd).String()
}

type pair struct{ what, fn, a, b string }

// behaviour-preserving rewrites: both directions give the same canonical tree
var same = []pair{
	{"H12: Sprintf = concatenation, pre-allocation, renamed loop variables, comment", "B",
		`func B(args map[string]string) string {
			var entries []string
			for k, v := range args { entries = append(entries, fmt.Sprintf("%s=%s", k, v)) }
			return strings.Join(entries, ";") }`,
		`func B(m map[string]string) string {
			// order is the map order
			es := make([]string, 0, len(m))
			for key, val := range m { es = append(es, key+"="+val) }
			return strings.Join(es, ";") }`},
	{"guard clause in a loop = if around the body; != is !(==)", "P",
		`func P(kvs []string, m map[string]string) { for _, kv := range kvs { part := strings.SplitN(kv, "=", 2); if len(part) != 2 { continue }; m[part[0]] = part[1] } }`,
		`func P(xs []string, out map[string]string) { for _, s := range xs { p := strings.SplitN(s, "=", 2); if len(p) == 2 { out[p[0]] = p[1] } } }`},
	{"switch without tag = if chain = if/else chain; %d = strconv.Itoa", "S",
		`func S(netIf string, idx int, argIf string) string { if idx == 0 { return argIf }; if netIf != "" { return netIf }; return fmt.Sprintf("eth%d", idx) }`,
		`func S(a string, i int, b string) string { switch { case i == 0: return b; case a != "": return a; default: return "eth" + strconv.Itoa(i) } }`},
	{"if/else with returns = guard clauses, negated condition swapped", "S",
		`func S(netIf string, idx int, argIf string) string { if idx == 0 { return argIf }; if netIf != "" { return netIf }; return fmt.Sprintf("eth%d", idx) }`,
		`func S(netIf string, idx int, argIf string) string { if idx == 0 { return argIf } else if netIf == "" { return fmt.Sprintf("eth%d", idx) } else { return netIf } }`},
	{"switch on a tag = if chain on equality (H13)", "R",
		`func R(cmd string) error { if cmd == ADD { return add() } else if cmd == DEL { return del() } else { return fmt.Errorf("unknown %s", cmd) } }`,
		`func R(c string) error { switch c { case ADD: return add(); case DEL: return del(); default: return errors.New("bad command") } }`},
	{"statement helper extracted (one level)", "A",
		`func A(cmdArgs *Args, infos []*Info) { for _, info := range infos { cmdArgs.Args = strings.TrimRight(fmt.Sprintf("%s;%s", cmdArgs.Args, Build(info.Args)), ";"); Delegate(info.Conf, cmdArgs) } }`,
		`func A(cmdArgs *Args, infos []*Info) { for _, info := range infos { appendArgs(cmdArgs, info); Delegate(info.Conf, cmdArgs) } }
		 func appendArgs(a *Args, n *Info) { a.Args = strings.TrimRight(a.Args+";"+Build(n.Args), ";") }`},
	{"value helper extracted: copy loop of getNetworkConf", "G",
		`func G(g *Galaxy, name string) (map[string]interface{}, error) { if netConf, ok := g.netConf[name]; ok { copied := make(map[string]interface{}, len(netConf)); for k, v := range netConf { copied[k] = v }; return copied, nil }; return load(name) }`,
		`func G(g *Galaxy, name string) (map[string]interface{}, error) { conf, found := g.netConf[name]; if !found { return load(name) }; c := copyConf(conf); return c, nil }
		 func copyConf(in map[string]interface{}) map[string]interface{} { out := map[string]interface{}{}; for key, val := range in { out[key] = val }; return out }`},
	{"expression helper", "E",
		`func E(k, v string) string { return k + "=" + v }`,
		`func E(k, v string) string { return entry(k, v) }
		 func entry(a, b string) string { return fmt.Sprintf("%s=%s", a, b) }`},
	{"if with init = statement then if; error text and logs ignored", "I",
		`func I(id string, infos []*Info) error { if err := save(id, infos); err != nil { return fmt.Errorf("Error save %v", err) }; return run(infos) }`,
		`func I(id string, infos []*Info) error { e := save(id, infos); glog.Infof("saved %s", id); if e != nil { return errors.New("cannot save") }; return run(infos) }`},
	{"index loop = value loop", "L",
		`func L(xs []*T) error { for i := range xs { if xs[i] == nil { return fmt.Errorf("nil %d", i) } }; return nil }`,
		`func L(xs []*T) error { for _, x := range xs { if x == nil { return errors.New("nil") } }; return nil }`},
	{"v := xs[i] at the top of an index loop = value variable", "L",
		`func L(xs []*T) { for i := range xs { v := xs[i]; use(i, v) } }`,
		`func L(xs []*T) { for i, v := range xs { use(i, v) } }`},
	{"_, err := f(); return err  =  if err != nil { return err }; return nil", "W",
		`func W(p string, d []byte) error { err := write(p, d); return err }`,
		`func W(p string, d []byte) error { if err := write(p, d); err != nil { return err }; return nil }`},
	{"conjunct order, nested ifs, De Morgan", "C",
		`func C(a, b bool, n int) { if a && n > 0 { f() } }`,
		`func C(a, b bool, n int) { if 0 < n { if a { f() } } }`},
	{"De Morgan guard", "C",
		`func C(a, b bool) int { if !(a && b) { return 0 }; return 1 }`,
		`func C(a, b bool) int { if !a || !b { return 0 } else { return 1 } }`},
	{"single-assignment pure local inlined; unused result", "N",
		`func N(pod *Pod) string { v := pod.Annotations[Key]; glog.Infof("%s", v); return parse(v) }`,
		`func N(pod *Pod) string { return parse(pod.Annotations[Key]) }`},
	{"rollback result only logged", "D",
		`func D(a *Args, idx int) error { delErr := CmdDel(a, idx); glog.Warningf("rollback %v", delErr); return fmt.Errorf("fail") }`,
		`func D(a *Args, idx int) error { _ = CmdDel(a, idx); return errors.New("failed") }`},
}

// second batch (H29, H30, H31)
var same2 = []pair{
	{"H29: call result hoisted into a local used once in the next statement", "A",
		`func A(cmdArgs *Args, infos []*Info) { for _, n := range infos { cmdArgs.Args = strings.TrimRight(fmt.Sprintf("%s;%s", cmdArgs.Args, Build(n.Args)), ";"); run(n) } }`,
		`func A(cmdArgs *Args, infos []*Info) { for _, n := range infos { extra := Build(n.Args); cmdArgs.Args = strings.TrimRight(cmdArgs.Args+";"+extra, ";"); run(n) } }`},
	{"H30: if len > 0 { …; return E }; return nil  =  guard if len == 0 { return nil }; …; shadowing err renamed", "D",
		`func D(id string, xs []*I) error { var errs []string; var fails []*I
			for _, x := range xs { err := del(x); if err != nil { errs = append(errs, err.Error()); fails = append(fails, x) } }
			if len(errs) > 0 { rev(fails); if err := save(id, fails); err != nil { glog.Warningf("%v", err) }; return fmt.Errorf(strings.Join(errs, "/")) }
			return nil }`,
		`func D(id string, xs []*I) error { var errs []string; var fails []*I
			for _, x := range xs { delErr := del(x); if delErr != nil { errs = append(errs, delErr.Error()); fails = append(fails, x) } }
			if len(errs) == 0 { return nil }
			rev(fails); if err := save(id, fails); err != nil { glog.Warningf("%v", err) }
			return fmt.Errorf(strings.Join(errs, "/")) }`},
	{"H31: named condition", "R",
		`func R(pod *Pod) int { if pod.Annotations == nil || pod.Annotations[Key] == "" { return dflt(&pod.Spec) }; return parse(pod) }`,
		`func R(pod *Pod) int { none := pod.Annotations == nil || pod.Annotations[Key] == ""; if none { return dflt(&pod.Spec) }; return parse(pod) }`},
	{"H31: range over pointer elements = index loop writing through the element", "X",
		`func X(ext map[string]string) []*Info { var infos []*Info; infos = fill(infos); for i := range infos { for k, v := range ext { infos[i].Args[k] = string(v) } }; return infos }`,
		`func X(ext map[string]string) []*Info { var infos []*Info; infos = fill(infos); for _, info := range infos { for k, v := range ext { info.Args[k] = string(v) } }; return infos }`},
	{"len(x) >= 1 = len(x) != 0", "L", `func L(x []int) bool { return len(x) >= 1 }`, `func L(x []int) bool { return len(x) != 0 }`},
}

var differ2 = []pair{
	{"hoisted call with a side-effecting statement in between", "A",
		`func A(a *Args, n *Info) { a.Args = a.Args + ";" + Build(n.Args) }`,
		`func A(a *Args, n *Info) { extra := Build(n.Args); reset(a); a.Args = a.Args + ";" + extra }`},
	{"index loop over VALUE elements written through is not a value loop", "X",
		`func X(ext map[string]string) []Info { var infos []Info; infos = fill(infos); for i := range infos { infos[i].Name = "x" }; return infos }`,
		`func X(ext map[string]string) []Info { var infos []Info; infos = fill(infos); for _, info := range infos { info.Name = "x" }; return infos }`},
	{"named condition negated at the use", "R",
		`func R(p *Pod) int { none := p.A == nil; if none { return 1 }; return 2 }`,
		`func R(p *Pod) int { none := p.A == nil; if !none { return 1 }; return 2 }`},
	{"guard with the wrong polarity", "D", `func D(e []string) error { if len(e) == 0 { return nil }; return fmt.Errorf("x") }`, `func D(e []string) error { if len(e) > 0 { return nil }; return fmt.Errorf("x") }`},
}

func TestNormaliseSecondBatch(t *testing.T) {
	for _, p := range same2 {
		if a, b := canon(t, p.a, p.fn), canon(t, p.b, p.fn); a != b {
			t.Errorf("%s: canonical trees differ\n a: %s\n b: %s", p.what, a, b)
		}
	}
	for _, p := range differ2 {
		if a, b := canon(t, p.a, p.fn), canon(t, p.b, p.fn); a == b {
			t.Errorf("%s: canonical trees coincide: %s", p.what, a)
		}
	}
}

// the behaviour-preserving patches of /verif/harmless that touch the translated files leave the output byte-identical
func TestHarmlessPatches(t *testing.T) {
	base, err := genOf(t, nil)
	if err != nil {
		t.Fatal(err)
	}
	root := os.Getenv("VERIF_ROOT")
	if root == "" {
		root = "/verif"
	}
	for _, h := range []string{"H12", "H13", "H29", "H30", "H31"} {
		patch := filepath.Join(root, "harmless", h, "patch.diff")
		if _, err := os.Stat(patch); err != nil {
			t.Logf("%s: no patch, skipped", h)
			continue
		}
		dir := mutated(t, nil)
		cmd := exec.Command("patch", "-p1", "-s", "-i", patch)
		cmd.Dir = dir
		if out, err := cmd.CombinedOutput(); err != nil {
			t.Logf("%s: patch does not apply to the current tree, skipped: %s", h, out)
			continue
		}
		m, err := gen(dir)
		if err != nil {
			t.Errorf("%s: translator refuses a behaviour-preserving rewrite:\n%v", h, err)
			continue
		}
		if m["Cni.lean"] != base {
			t.Errorf("%s: generated facts changed", h)
		}
	}
}

// changes of behaviour: the canonical trees must differ
var differ = []pair{
	{"changed constant", "B", `func B(k, v string) string { return k + "=" + v }`, `func B(k, v string) string { return k + ":" + v }`},
	{"operand order of a concatenation", "B", `func B(k, v string) string { return k + "=" + v }`, `func B(k, v string) string { return v + "=" + k }`},
	{"changed operator in an index argument", "D", `func D(a *Args, idx int) { CmdDel(a, idx) }`, `func D(a *Args, idx int) { CmdDel(a, idx-1) }`},
	{">= versus >", "F", `func F(n int) { for i := n; i >= 0; i-- { f(i) } }`, `func F(n int) { for i := n; i > 0; i-- { f(i) } }`},
	{"loop direction", "F", `func F(n int) { for i := n; i >= 0; i-- { f(i) } }`, `func F(n int) { for i := 0; i <= n; i++ { f(i) } }`},
	{"dropped guard", "G", `func G(r R, c map[string]interface{}) { if r != nil { c["prevResult"] = r }; run(c) }`, `func G(r R, c map[string]interface{}) { c["prevResult"] = r; run(c) }`},
	{"call moved across a side-effecting call", "G", `func G(id string, x []*I) { save(id, x); run(x) }`, `func G(id string, x []*I) { run(x); save(id, x) }`},
	{"nil versus error", "E", `func E(err error) error { if os.IsNotExist(err) { return nil }; return fmt.Errorf("x") }`, `func E(err error) error { if os.IsNotExist(err) { return err }; return fmt.Errorf("x") }`},
	{"which variable is saved", "S", `func S(id string, all, fails []*I) { save(id, fails) }`, `func S(id string, all, fails []*I) { save(id, all) }`},
	{"shared map handed out instead of a copy", "G",
		`func G(m map[string]interface{}) map[string]interface{} { c := make(map[string]interface{}); for k, v := range m { c[k] = v }; return c }`,
		`func G(m map[string]interface{}) map[string]interface{} { return m }`},
	{"helper body changed", "A",
		`func A(x []*I) { reverse(x) }
		 func reverse(s []*I) { for i, j := 0, len(s)-1; i < j; i, j = i+1, j-1 { s[i], s[j] = s[j], s[i] } }`,
		`func A(x []*I) { reverse(x) }
		 func reverse(s []*I) { for i, j := 0, len(s)-1; i < j; i, j = i+2, j-1 { s[i], s[j] = s[j], s[i] } }`},
	{"aliasing slice instead of a fresh one (seeded C12-2)", "F", `func F(xs []*I) []*I { var fails []*I; return fails }`, `func F(xs []*I) []*I { fails := xs[:0]; return fails }`},
}

func TestNormaliseSame(t *testing.T) {
	for _, p := range same {
		a, b := canon(t, p.a, p.fn), canon(t, p.b, p.fn)
		if a != b {
			t.Errorf("%s: canonical trees differ\n a: %s\n b: %s", p.what, a, b)
		}
	}
}

func TestNormaliseDiffer(t *testing.T) {
	for _, p := range differ {
		a, b := canon(t, p.a, p.fn), canon(t, p.b, p.fn)
		if a == b {
			t.Errorf("%s: canonical trees coincide: %s", p.what, a)
		}
	}
}

func TestHolesBindAndClash(t *testing.T) {
	tm, err := parseTemplate("package t\nfunc B(k, v string) string { return k + \"§KV§\" + v }", "", "B")
	if err != nil {
		t.Fatal(err)
	}
	fset := token.NewFileSet()
	f, _ := parser.ParseFile(fset, "x.go", `package x
func B(key, val string) string { return fmt.Sprintf("%s=%s", key, val) }`, 0)
	p := &fg.Parsed{Fset: fset, File: f, Path: "x.go"}
	fd, _ := p.Fn("", "B")
	bind := map[string]string{}
	if err := unify(tm, NewNorm(p).Func(fd), bind, "B"); err != nil || bind["KV"] != "=" {
		t.Fatalf("unify: %v %v", err, bind)
	}
}

// ---- end to end on the real tree: rewrites of the source text and what the translator must say

func repoDir() string {
	if d := os.Getenv("GALAXY_REPO"); d != "" {
		return d
	}
	return "/repo"
}

var files = []string{"pkg/api/cniutil/cni.go", "pkg/galaxy/server.go", "pkg/api/k8s/k8s.go"}

func mutated(t *testing.T, edits [][3]string) string {
	t.Helper()
	dir := t.TempDir()
	for _, f := range files {
		b, err := os.ReadFile(filepath.Join(repoDir(), f))
		if err != nil {
			t.Skipf("no source tree: %v", err)
		}
		s := string(b)
		for _, e := range edits {
			if e[0] == f {
				if !strings.Contains(s, e[1]) {
					t.Fatalf("%s: text to rewrite not found: %q", f, e[1])
				}
				s = strings.Replace(s, e[1], e[2], 1)
			}
		}
		os.MkdirAll(filepath.Dir(filepath.Join(dir, f)), 0o755)
		os.WriteFile(filepath.Join(dir, f), []byte(s), 0o644)
	}
	return dir
}

func genOf(t *testing.T, edits [][3]string) (string, error) {
	m, err := gen(mutated(t, edits))
	if err != nil {
		return "", err
	}
	return m["Cni.lean"], nil
}

func TestHarmlessRewritesKeepTheOutput(t *testing.T) {
	base, err := genOf(t, nil)
	if err != nil {
		t.Fatal(err)
	}
	cases := map[string][][3]string{
		"H12 BuildCNIArgs": {{files[0], "	var entries []string\n	for k, v := range args {\n		entries = append(entries, fmt.Sprintf(\"%s=%s\", k, v))\n	}",
			"	// order\n	entries := make([]string, 0, len(args))\n	for key, val := range args {\n		entries = append(entries, key+\"=\"+val)\n	}"}},
		"ParseCNIArgs guard as if-body": {{files[0], "		if len(part) != 2 {\n			continue\n		}\n		kvMap[strings.TrimSpace(part[0])] = strings.TrimSpace(part[1])",
			"		if len(part) == 2 {\n			kvMap[strings.TrimSpace(part[0])] = strings.TrimSpace(part[1])\n		}"}},
		"accumulation by concatenation, in a helper": {
			{files[0], "		cmdArgs.Args = strings.TrimRight(fmt.Sprintf(\"%s;%s\", cmdArgs.Args, BuildCNIArgs(networkInfo.Args)), \";\")\n		if result != nil {",
				"		appendArgs(cmdArgs, networkInfo)\n		if result != nil {"},
			{files[0], "func reverse(", "func appendArgs(a *skel.CmdArgs, n *NetworkInfo) {\n	a.Args = strings.TrimRight(a.Args+\";\"+BuildCNIArgs(n.Args), \";\")\n}\n\nfunc reverse("}},
		"rollback result dropped, error reworded": {{files[0], "			delErr := CmdDel(cmdArgs, idx)\n			glog.Warningf(\"fail to delete cni in rollback %v\", delErr)\n			return nil, fmt.Errorf(\"fail to establish network %s:%v\", networkInfo.Args, err)",
			"			_ = CmdDel(cmdArgs, idx)\n			return nil, fmt.Errorf(\"cannot establish network: %v\", err)"}},
		"reverse inlined into CmdDel": {{files[0], "		reverse(fails)\n", "		for i, j := 0, len(fails)-1; i < j; i, j = i+1, j-1 {\n			fails[i], fails[j] = fails[j], fails[i]\n		}\n"}},
		"getNetworkConf: lookup first, guard, copy in a helper": {
			{files[1], "	if netConf, ok := g.netConf[networkName]; ok {\n		// hand out a copy, CmdAdd stores the prevResult of the previous delegate in the conf it is given and the\n		// configured map is shared by all requests\n		copied := make(map[string]interface{}, len(netConf))\n		for k, v := range netConf {\n			copied[k] = v\n		}\n		return copied, nil\n	}",
				"	configured, found := g.netConf[networkName]\n	if found {\n		return copyConf(configured), nil\n	}"},
			{files[1], "func setNetInterface(", "func copyConf(in map[string]interface{}) map[string]interface{} {\n	out := make(map[string]interface{})\n	for key, val := range in {\n		out[key] = val\n	}\n	return out\n}\n\nfunc setNetInterface("}},
		"setNetInterface as a switch with Itoa": {{files[1], "	if idx == 0 {\n		return argIf\n	}\n	if netIf != \"\" {\n		return netIf\n	}\n	return fmt.Sprintf(\"eth%d\", idx)",
			"	switch {\n	case idx == 0:\n		return argIf\n	case netIf != \"\":\n		return netIf\n	}\n	return \"eth\" + fmt.Sprintf(\"%d\", idx)"}},
		"H13 requestFunc switch": {{files[1], "	if req.Command == cniutil.COMMAND_ADD {", "	if cniutil.COMMAND_ADD == req.Command {"}},
		"null check over values": {{files[2], "		for i := range networks {\n			// json null is accepted as an element of the list, callers dereference every element\n			if networks[i] == nil {\n				return nil, fmt.Errorf(\"parsePodNetworkAnnotation: element %d of pod Network Attachment \"+\n					\"Selection Annotation is null\", i)\n			}\n		}",
			"		for _, el := range networks {\n			if el == nil {\n				return nil, fmt.Errorf(\"null element\")\n			}\n		}"}},
		"resolveNetworks: ENI guard nested, conjuncts swapped": {{files[1], "		if utils.WantENIIP(&pod.Spec) && g.ENIIPNetwork != \"\" {", "		if g.ENIIPNetwork != \"\" && utils.WantENIIP(&pod.Spec) {"}},
	}
	for name, edits := range cases {
		got, err := genOf(t, edits)
		if err != nil {
			t.Errorf("%s: translator failed on a behaviour-preserving rewrite:\n%v", name, err)
			continue
		}
		if got != base {
			t.Errorf("%s: generated Lean changed", name)
		}
	}
}

func TestBehaviourChangesAreSeen(t *testing.T) {
	base, err := genOf(t, nil)
	if err != nil {
		t.Fatal(err)
	}
	flips := map[string]struct {
		edits [][3]string
		want  string // fragment the output must contain ("" = the translator must fail)
	}{
		"shared map handed out": {[][3]string{{files[1], "		return copied, nil", "		return netConf, nil"}}, ""},
		"shared map, copy removed": {[][3]string{{files[1], "		copied := make(map[string]interface{}, len(netConf))\n		for k, v := range netConf {\n			copied[k] = v\n		}\n		return copied, nil", "		return netConf, nil"}},
			"def getNetworkConfReturnsCopy : Bool := false"},
		"rollback from idx-1": {[][3]string{{files[0], "CmdDel(cmdArgs, idx)", "CmdDel(cmdArgs, idx-1)"}}, "def rollbackOffset : Int := (-1)"},
		"DEL walks upwards": {[][3]string{{files[0], "for idx := lastIdx; idx >= 0; idx-- {", "for idx := 0; idx <= lastIdx; idx++ {"}, {files[0], "		reverse(fails)\n", ""}},
			"def cmdDelIteratesDownward : Bool := false"},
		"everything re-saved": {[][3]string{{files[0], "saveNetworkInfo(cmdArgs.ContainerID, fails)", "saveNetworkInfo(cmdArgs.ContainerID, networkInfos)"}},
			"def cmdDelConsumesThenResavesFailures : Bool := false"},
		"fails aliases the consumed slice (seeded C12-2)": {[][3]string{{files[0], "	var fails []*NetworkInfo", "	fails := networkInfos[:0]"}}, ""},
		"save after the loop":                             {[][3]string{{files[0], "	if err := saveNetworkInfo(cmdArgs.ContainerID, networkInfos); err != nil {\n		return nil, fmt.Errorf(\"Error save network info %v for %s: %v\", networkInfos, cmdArgs.ContainerID, err)\n	}\n", ""}}, ""},
		"prevResult unguarded":                            {[][3]string{{files[0], "		if result != nil {\n			networkInfo.Conf[\"prevResult\"] = result\n		}", "		networkInfo.Conf[\"prevResult\"] = result"}}, ""},
		"separator changed":                               {[][3]string{{files[0], "strings.Join(entries, \";\")", "strings.Join(entries, \",\")"}}, "def buildArgSep : Char := ','"},
		"eth -> net":                                      {[][3]string{{files[1], "\"eth%d\"", "\"net%d\""}}, "['n', 'e', 't']"},
		"first interface not kubelet's":                   {[][3]string{{files[1], "	if idx == 0 {\n		return argIf\n	}\n", ""}}, "def setNetInterface"},
		"conf dir results cached in the shared table (seeded C12-1)": {[][3]string{{files[1], "	return m, nil\n}", "	g.netConf[networkName] = m\n	return m, nil\n}"}}, ""},
		"ENI condition dropped":       {[][3]string{{files[1], "utils.WantENIIP(&pod.Spec) && g.ENIIPNetwork != \"\"", "g.ENIIPNetwork != \"\""}}, ""},
		"null elements accepted again": {[][3]string{{files[2], "			if networks[i] == nil {", "			if false && networks[i] == nil {"}}, ""},
	}
	for name, f := range flips {
		got, err := genOf(t, f.edits)
		if f.want == "" {
			if err == nil {
				t.Errorf("%s: translator accepted a changed shape", name)
			}
			continue
		}
		if err != nil {
			t.Errorf("%s: %v", name, err)
			continue
		}
		if got == base || !strings.Contains(got, f.want) {
			t.Errorf("%s: output does not show the change (want %q)", name, f.want)
		}
	}
}
